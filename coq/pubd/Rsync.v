(** * pubd/Rsync.v - [RsyncdStore::write] as a list of file-system operations

    Executable model (definitions only) of src/server/pubd/rsync.rs 72-190:
      1. remove rsync/tmp-<serial> if it exists (83-101, since e2447e97) and create it (103-118);
      2. save every object of the snapshot under it at the path of its URI relative to the
         base URI (100-114; an object outside the base is an error);
      3. if rsync/current exists: remove rsync/old if it exists (124-139, since e1f99c61), then
         rename rsync/current to rsync/old (141-156);
      4. rename rsync/tmp-<serial> to rsync/current (158-172);
      5. if rsync/old exists: remove it (174-188).
    Every error is propagated.

    [variant] selects the procedure: [Repaired] is the code of record (with the removal of a
    stale rsync/old in step 3); [Pinned] is the procedure before commit e1f99c61, without that
    removal: there step 3 fails when rsync/old is a non-empty directory (ENOTEMPTY), which is
    what an interruption between steps 4 and 5 leaves behind, and every later write fails the
    same way (finding F11c, kept as a regression example: [rsync_interrupted_then_stuck]).
    [rsync_variant] is the one switch the correspondence uses; the theorems of RsyncProofs.v
    name the variant explicitly. *)
From KV Require Import base.Tac pubd.Objects pubd.Fs.
Open Scope N_scope.

Inductive variant : Type := Pinned | Repaired.
(** The procedure of the tree under /repo. *)
Definition rsync_variant : variant := Repaired.

(** What happens to an existing rsync/tmp-<serial> before it is filled: since commit e2447e97 it
    is removed first ([FreshTmp], rsync.rs 83-101, the code of record); before that it was filled
    as it was ([KeepTmp]), so that files an earlier, failed or interrupted write for the same
    serial had put there ended up in rsync/current (serials recur after a session reset: finding
    F11f, kept as a regression example). *)
Inductive tmpmode : Type := KeepTmp | FreshTmp.
Definition rsync_tmp_mode : tmpmode := FreshTmp.

Definition rsync_dir : path := [NRsync].
Definition current_dir : path := [NRsync; NCurrent].
Definition old_dir : path := [NRsync; NOld].
Definition tmp_dir (serial : N) : path := [NRsync; NTmp serial].

(** [uri.relative_to(&self.base_uri)] (rpki uri.rs 332-371): same authority and module ignoring
    case, base path a proper prefix by whole segments. *)
Fixpoint strip (p q : list N) : option (list N) :=
  match p, q with
  | [], r => Some r
  | x :: p', y :: q' => if x =? y then strip p' q' else None
  | _ :: _, [] => None
  end.
Definition rel_of (base : jail) (k : uri) : option path :=
  if (j_auth base =? u_auth k) && (j_mod base =? u_mod k)
  then match strip (j_path base) (u_path k) with
       | Some (x :: l) => Some (map NSeg (x :: l))
       | _ => None
       end
  else None.

(** Step 2, in the order of the object list (the code iterates HashMaps). *)
Fixpoint file_ops (base : jail) (t : path) (o : objects) : list fsop :=
  match o with
  | [] => []
  | (k, ob) :: rest =>
      match rel_of base k with
      | Some rel => save_ops (t ++ rel) (DObj (o_content ob)) ++ file_ops base t rest
      | None => [OFail]
      end
  end.

Definition clean_phase (tm : tmpmode) (f : fs) (serial : N) : list fsop :=
  match tm with
  | FreshTmp => if fs_exists (tmp_dir serial) f then [ORemoveTree (tmp_dir serial) false] else []
  | KeepTmp => []
  end.

Definition rsync_write_ops_v (v : variant) (tm : tmpmode) (f : fs) (base : jail) (serial : N) (o : objects) : list fsop :=
  let t := tmp_dir serial in
  let cur := fs_exists current_dir f in
  let old := fs_exists old_dir f in
  clean_phase tm f serial ++ [OMkdirAll t] ++ file_ops base t o
  ++ (if cur
      then (match v with Repaired => if old then [ORemoveTree old_dir false] else [] | Pinned => [] end)
           ++ [ORename current_dir old_dir false]
      else [])
  ++ [ORename t current_dir false]
  ++ (if cur || old then [ORemoveTree old_dir false] else []).

Definition rsync_write_ops : fs -> jail -> N -> objects -> list fsop := rsync_write_ops_v rsync_variant rsync_tmp_mode.

(** ** Reading a tree back *)
(** Files below [root], by relative path. *)
Definition tree_of (root : path) (f : fs) : list (path * fcontent) :=
  flat_map (fun e => if below root (fst e)
                     then match snd e with File c => [(skipn (length root) (fst e), c)] | Dir => [] end
                     else []) f.

(** Nothing is left of an earlier attempt for this serial. *)
Definition tmp_clean (serial : N) (f : fs) : bool :=
  forallb (fun e => negb (under (tmp_dir serial) (fst e))) f.
(** The tree is a tree at rsync/tmp-<serial>: if that directory does not exist nothing exists
    below it. *)
Definition tmp_wf (serial : N) (f : fs) : bool := fs_exists (tmp_dir serial) f || tmp_clean serial f.

(** rsync/old is absent or an empty directory. *)
Definition old_harmless (f : fs) : bool :=
  match fs_get old_dir f with
  | None => true
  | Some Dir => negb (has_children old_dir f)
  | Some (File _) => false
  end.

(** rsync/current, if present, is a directory; rsync itself is not a file. *)
Definition rsync_sane (f : fs) : bool :=
  match fs_get current_dir f with Some (File _) => false | _ => true end
  && match fs_get rsync_dir f with Some (File _) => false | _ => true end.

(** Different objects go to different files (fails for URIs that differ only in the case of
    the module name: candidate F11e). *)
Definition RelInjective (base : jail) (o : objects) : Prop :=
  forall k k' rel, In k (o_keys o) -> In k' (o_keys o) -> rel_of base k = Some rel -> rel_of base k' = Some rel -> k = k'.
Definition AllInside (base : jail) (o : objects) : Prop :=
  forall k, In k (o_keys o) -> rel_of base k <> None.

(** The two phases of a write. *)
Definition files_phase (base : jail) (serial : N) (o : objects) : list fsop :=
  [OMkdirAll (tmp_dir serial)] ++ file_ops base (tmp_dir serial) o.
Definition switch_phase (v : variant) (cur old : bool) (serial : N) : list fsop :=
  (if cur
   then (match v with Repaired => if old then [ORemoveTree old_dir false] else [] | Pinned => [] end)
        ++ [ORename current_dir old_dir false]
   else [])
  ++ [ORename (tmp_dir serial) current_dir false]
  ++ (if cur || old then [ORemoveTree old_dir false] else []).

(** rsync/current and rsync/old, where present, are directories. *)
Definition Shape (f : fs) : Prop :=
  (fs_get current_dir f = None \/ fs_get current_dir f = Some Dir)
  /\ (fs_get old_dir f = None \/ fs_get old_dir f = Some Dir).

(** The content the last object with relative path [rel] gives the file. *)
Fixpoint written (base : jail) (o : objects) (rel : path) : option N :=
  match o with
  | [] => None
  | (k, ob) :: rest =>
      match written base rest rel with
      | Some c => Some c
      | None => match rel_of base k with
                | Some r => if path_eqb r rel then Some (o_content ob) else None
                | None => None
                end
      end
  end.

(** ** Full statements (RsyncProofs.v) *)
(** "an interrupted write never prevents later writes": whatever prefix of a write was executed,
    a later write whose files can be written completes. True of the repaired switch
    ([rsync_recovers_after_cut]), false of the one before e1f99c61
    ([rsync_interrupted_then_stuck]). *)
Definition rsync_never_stuck (v : variant) (tm : tmpmode) : Prop :=
  forall f base serial o n serial' o',
    Shape f ->
    let f1 := fst (run (firstn n (rsync_write_ops_v v tm f base serial o)) f) in
    snd (run (clean_phase tm f1 serial' ++ files_phase base serial' o') f1) = true ->
    snd (run (rsync_write_ops_v v tm f1 base serial' o') f1) = true.

(** "the rsync tree equals the snapshot after every successful write", whatever an earlier
    attempt for the same serial left in rsync/tmp-<serial>. True since e2447e97
    ([rsync_equals_snapshot_after_success]), false before ([KeepTmp], finding F11f). *)
Definition rsync_equals_snapshot_unconditional (v : variant) (tm : tmpmode) : Prop :=
  forall f base serial o f',
    tmp_wf serial f = true -> AllInside base o -> RelInjective base o -> NoDupO o ->
    run (rsync_write_ops_v v tm f base serial o) f = (f', true) ->
    forall rel c, fs_file (current_dir ++ rel) f' = Some c <->
                  exists k ob, In (k, ob) o /\ rel_of base k = Some rel /\ c = CData (DObj (o_content ob)).
