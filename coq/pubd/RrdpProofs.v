(** * pubd/RrdpProofs.v - serials, sessions, retained deltas, and the client's catch-up

    Main results (C11, state level):
      - [serial_step], [session_only_on_reset], [reset_restarts];
      - [deltas_contiguous]: [RInv] (C10's [WF], unique snapshot handles, retained deltas
        [s, s-1, ...] above the first serial) holds in every reachable state;
      - [update_flat]: seen through the concatenated snapshot, an update applies the
        concatenation of the staged sets, and that delta passes a client's hash checks
        (this is where C10's [staged_refines] enters, through [WF]);
      - [delta_chain_sound]: a client holding the snapshot of any earlier serial of the session
        reaches exactly the current snapshot through the offered deltas whenever they are offered
        from its serial on;
      - [snapshot_is_state];
      - retention: [retention_bound], [kept_not_old], [truncate_age_spec] and the refutations
        of the unconditional bound (F11a) and of [max_nr = 0] (F11b). *)
From KV Require Import base.Tac pubd.Objects pubd.ObjectsProofs pubd.Staged pubd.StagedProofs pubd.Access
  pubd.Content pubd.ContentProofs pubd.Rrdp.
Open Scope N_scope.

(** ** One step: the publication state moves as in C10 *)
Lemma staged_nonempty_step st :
  staged_nonempty st = true ->
  fst (step st OUpdate) = mkState (st_base st) (st_pubs st) (fold_left snap_apply (st_staged st) (st_snap st)) [] (st_serial st + 1).
Proof. intros H. simpl. rewrite H. reflexivity. Qed.

Lemma rstep_st a sz r o orc r' : rstep a sz r o orc = Some r' -> r_st r' = fst (step (r_st r) o).
Proof.
  unfold rstep. destruct o as [h|h|h d|h| |]; try (intros H; inv H; reflexivity).
  destruct (staged_nonempty (r_st r)) eqn:E.
  - destruct (find_deltas_truncate_age _ _ _ _); intros H; inv H.
    rewrite staged_nonempty_step by assumption. reflexivity.
  - intros H; inv H. simpl. rewrite E. reflexivity.
Qed.

Lemma rrun_app a sz ops1 : forall r ops2,
  rrun a sz r (ops1 ++ ops2) = match rrun a sz r ops1 with Some r1 => rrun a sz r1 ops2 | None => None end.
Proof.
  induction ops1 as [|[o orc] ops1 IH]; intros r ops2; [reflexivity|].
  simpl. destruct (rstep a sz r o orc); [apply IH|reflexivity].
Qed.

Lemma rrun_st a sz ops : forall r r', rrun a sz r ops = Some r' -> r_st r' = run (r_st r) (map fst ops).
Proof.
  induction ops as [|[o orc] ops IH]; intros r r' H; simpl in H.
  - inv H. reflexivity.
  - destruct (rstep a sz r o orc) as [r1|] eqn:E; [|discriminate].
    apply IH in H. rewrite H. apply rstep_st in E. rewrite E. reflexivity.
Qed.

(** ** Serial and session *)
Theorem serial_step a sz r orc r' :
  rstep a sz r OUpdate orc = Some r' ->
  (staged_nonempty (r_st r) = true /\ r_serial r' = r_serial r + 1) \/ (staged_nonempty (r_st r) = false /\ r' = r).
Proof.
  unfold rstep. destruct (staged_nonempty (r_st r)) eqn:E.
  - destruct (find_deltas_truncate_age _ _ _ _); intros H; inv H. left. split; reflexivity.
  - intros H; inv H. right. split; reflexivity.
Qed.

Theorem serial_only_moves_on_update_or_reset a sz r o orc r' :
  rstep a sz r o orc = Some r' -> is_update o = false -> is_reset o = false -> r_serial r' = r_serial r.
Proof.
  intros H Hu Hr. unfold r_serial. rewrite (rstep_st _ _ _ _ _ _ H).
  destruct o as [h|h|h d|h| |]; try discriminate; simpl.
  - destruct (h_has h (st_pubs (r_st r))); reflexivity.
  - destruct (view (r_st r) h); destruct (h_has h (st_pubs (r_st r))); reflexivity.
  - destruct (h_get h (st_pubs (r_st r))); [|reflexivity]. destruct d; [reflexivity|].
    destruct (verify_delta_applies _ _ _); reflexivity.
  - reflexivity.
Qed.

Theorem session_only_on_reset a sz r o orc r' :
  rstep a sz r o orc = Some r' -> is_reset o = false -> r_session r' = r_session r.
Proof.
  unfold rstep. destruct o as [h|h|h d|h| |]; try discriminate; try (intros H _; inv H; reflexivity).
  destruct (staged_nonempty (r_st r)); [|intros H _; inv H; reflexivity].
  destruct (find_deltas_truncate_age _ _ _ _); intros H _; inv H. reflexivity.
Qed.

Theorem reset_restarts a sz r orc r' :
  rstep a sz r OReset orc = Some r' ->
  r_serial r' = 1 /\ r_deltas r' = [] /\ r_session r' = or_sess orc /\ r_snapshot r' = r_snapshot r
  /\ st_staged (r_st r') = st_staged (r_st r).
Proof. intros H. inv H. repeat split. Qed.

(** ** Retained deltas are contiguous *)
Lemma contig_b_spec s ds : contig_b s ds = true <-> contig s ds.
Proof.
  revert s. induction ds as [|d ds IH]; intros s; simpl; [tauto|].
  rewrite !andb_true_iff, N.eqb_eq, N.ltb_lt, IH. tauto.
Qed.

Lemma contig_firstn n : forall s ds, contig s ds -> contig s (firstn n ds).
Proof.
  induction n as [|n IH]; intros s ds H; [exact I|].
  destruct ds as [|d ds]; [exact I|]. simpl in *. destruct H as [H1 [H2 H3]]. auto.
Qed.

Lemma contig_nth s ds : contig s ds -> forall i d, nth_error ds i = Some d -> d_serial d + N.of_nat i = s /\ 1 < d_serial d.
Proof.
  revert s. induction ds as [|x ds IH]; intros s H i d Hn; [destruct i; discriminate|].
  destruct H as [H1 [H2 H3]]. destruct i as [|i]; simpl in Hn.
  - inv Hn. lia.
  - destruct (IH _ H3 _ _ Hn) as [E1 E2]. lia.
Qed.

Lemma contig_length s ds : contig s ds -> N.of_nat (length ds) <= s - 1.
Proof.
  revert s. induction ds as [|x ds IH]; intros s H; [simpl; lia|].
  destruct H as [H1 [H2 H3]]. specialize (IH _ H3). simpl length. lia.
Qed.

Lemma truncate_size_is_firstn sz snap ds : exists n, deltas_truncate_size sz snap ds = firstn n ds.
Proof. eexists. reflexivity. Qed.

Lemma h_nodup_del {V : Type} h (m : list (handle * V)) : NoDup (map fst m) -> NoDup (map fst (h_del h m)).
Proof. apply (nodup_kdel handle_eqb fst handle_eqb_spec h). Qed.

Lemma fold_snap_apply_nodup l : forall snap : list (handle * objects),
  NoDup (map fst snap) -> NoDup (map fst (fold_left snap_apply l snap)).
Proof.
  induction l as [|[h s] l IH]; intros snap Hs; [exact Hs|].
  cbn [fold_left]. apply IH. unfold snap_apply. destruct (h_get h snap).
  - destruct (apply_delta o (staged_delta s)); [apply h_nodup_del|apply h_nodup_set]; exact Hs.
  - apply h_nodup_set. exact Hs.
Qed.

Lemma snodup_step st o : SNoDup st -> SNoDup (fst (step st o)).
Proof.
  unfold SNoDup. intros H. destruct o as [h|h|h d|h| |]; simpl.
  - destruct (h_has h (st_pubs st)); [exact H|]. simpl.
    destruct (h_has h (st_snap st)); [exact H|]. apply h_nodup_set. exact H.
  - destruct (view st h); destruct (h_has h (st_pubs st)); exact H.
  - destruct (h_get h (st_pubs st)); [|exact H]. destruct d; [exact H|].
    destruct (verify_delta_applies _ _ _); exact H.
  - exact H.
  - destruct (staged_nonempty st); [|exact H]. simpl. apply fold_snap_apply_nodup. exact H.
  - exact H.
Qed.

Theorem rinv_step a sz r o orc r' :
  RInv r -> good_op o -> rstep a sz r o orc = Some r' -> RInv r'.
Proof.
  intros [HW [HS [HC H1]]] Hg H. pose proof (rstep_st _ _ _ _ _ _ H) as Est.
  unfold RInv, r_serial. rewrite Est.
  split; [apply wf_step; assumption|]. split; [apply snodup_step; assumption|].
  destruct (is_reset o) eqn:Er.
  - destruct o; try discriminate. inv H. simpl. split; [exact I|lia].
  - destruct (is_update o) eqn:Eu.
    + destruct o; try discriminate.
      destruct (serial_step _ _ _ _ _ H) as [[En Es]|[En ->]].
      * unfold rstep in H. rewrite En in H. destruct (find_deltas_truncate_age _ _ _ _) as [k|]; [|discriminate].
        inv H. unfold apply_rrdp_updated. cbn [r_deltas r_st].
        rewrite staged_nonempty_step by assumption. cbn [st_serial].
        split; [|unfold r_serial in H1; lia].
        unfold deltas_truncate_size. apply contig_firstn. simpl. unfold r_serial in *.
        split; [reflexivity|]. split; [lia|].
        replace (st_serial (r_st r) + 1 - 1) with (st_serial (r_st r)) by lia.
        apply contig_firstn. exact HC.
      * rewrite <- Est. split; assumption.
    + pose proof (serial_only_moves_on_update_or_reset _ _ _ _ _ _ H Eu Er) as Es.
      unfold r_serial in Es. rewrite <- Est, Es.
      assert (Ed : r_deltas r' = r_deltas r).
      { destruct o; try discriminate; inv H; reflexivity. }
      rewrite Ed. split; assumption.
Qed.

Lemma rinv_init base sess rnd : RInv (rinit base sess rnd).
Proof.
  split; [apply wf_init|]. split; [constructor|]. split; [exact I|]. unfold r_serial. simpl. lia.
Qed.

Definition good_rops (ops : list rop) : Prop := Forall (fun x => good_op (fst x)) ops.

Lemma rinv_run a sz ops : forall r r', RInv r -> good_rops ops -> rrun a sz r ops = Some r' -> RInv r'.
Proof.
  induction ops as [|[o orc] ops IH]; intros r r' HI Hg H; simpl in H.
  - inv H. exact HI.
  - destruct (rstep a sz r o orc) as [r1|] eqn:E; [|discriminate]. inv Hg.
    eapply IH; [|eassumption|eassumption]. eapply rinv_step; eassumption.
Qed.

(** [deltas_contiguous]: in every state reachable from an initialised server the retained deltas
    are [serial, serial - 1, ...], all above the first serial. *)
Theorem deltas_contiguous a sz base sess rnd ops r :
  good_rops ops -> rrun a sz (rinit base sess rnd) ops = Some r ->
  contig (r_serial r) (r_deltas r).
Proof. intros Hg H. eapply rinv_run in H; [apply H|apply rinv_init|assumption]. Qed.

Lemma NoDup_app_intro {A : Type} (a b : list A) :
  NoDup a -> NoDup b -> (forall x, In x a -> In x b -> False) -> NoDup (a ++ b).
Proof.
  induction a as [|x a IH]; simpl; intros Ha Hb Hd; [assumption|].
  inv Ha. constructor.
  - rewrite in_app_iff. intros [H|H]; [contradiction|]. apply (Hd x); auto.
  - apply IH; auto. intros y Hy1 Hy2. apply (Hd y); auto.
Qed.

(** ** The concatenated views: look-ups go to the one publisher that owns the key *)
Section FlatKeyed.
  Context {V K : Type} (keqb : K -> K -> bool) (kf : V -> K).
  Context (keqb_spec : forall a b, keqb a b = true <-> a = b).
  Local Notation kfnd := (kfind keqb kf).
  Implicit Types (m : list (handle * list V)) (h q : handle).
  Definition getl (m : list (handle * list V)) (h : handle) : list V :=
    match h_get h m with Some l => l | None => [] end.

  Lemma kfind_app k a b : kfnd k (a ++ b) = match kfnd k a with Some v => Some v | None => kfnd k b end.
  Proof.
    unfold kfind. induction a as [|x a IH]; simpl; [reflexivity|]. destruct (keqb (kf x) k); [reflexivity|exact IH].
  Qed.

  Lemma kfind_flat_some m k v : kfnd k (flat_map snd m) = Some v -> exists h l, In (h, l) m /\ kfnd k l = Some v.
  Proof.
    induction m as [|[h l] m IH]; simpl; [discriminate|]. rewrite kfind_app.
    destruct (kfnd k l) eqn:E.
    - intros H; inv H. exists h, l. auto.
    - intros H. destruct (IH H) as [h' [l' [Hin Hf]]]. exists h', l'. auto.
  Qed.

  Lemma kfind_flat_none m k : kfnd k (flat_map snd m) = None -> forall h l, In (h, l) m -> kfnd k l = None.
  Proof.
    induction m as [|[h l] m IH]; simpl; intros H h' l' Hin; [contradiction|]. rewrite kfind_app in H.
    destruct (kfnd k l) eqn:E; [discriminate|]. destruct Hin as [Hin|Hin]; [inv Hin; assumption|eauto].
  Qed.

  Lemma getl_in m h l : NoDup (map fst m) -> In (h, l) m -> getl m h = l.
  Proof.
    intros Hn Hin. unfold getl, h_get.
    pose proof (kfind_in_nodup handle_eqb fst handle_eqb_spec (h, l) m Hn Hin) as E. simpl in E.
    rewrite E. reflexivity.
  Qed.

  Lemma getl_some_in m h x : In x (getl m h) -> In (h, getl m h) m.
  Proof.
    unfold getl, h_get. destruct (kfind handle_eqb fst h m) as [[h' l]|] eqn:E; simpl; [|intros []].
    intros _. apply (kfind_some handle_eqb fst handle_eqb_spec) in E. destruct E as [E Hin]. simpl in E. subst h'. exact Hin.
  Qed.

  (** If nobody but [h] has an entry under [k], the concatenation answers as [h] does. *)
  Lemma kfind_flat_owner m k h :
    NoDup (map fst m) -> (forall q, q <> h -> kfnd k (getl m q) = None) ->
    kfnd k (flat_map snd m) = kfnd k (getl m h).
  Proof.
    intros Hn Ho. destruct (kfnd k (flat_map snd m)) as [v|] eqn:E.
    - destruct (kfind_flat_some _ _ _ E) as [h' [l [Hin Hf]]].
      pose proof (getl_in _ _ _ Hn Hin) as Eg.
      destruct (handle_eq_dec h' h) as [->|Hne]; [rewrite Eg; auto|].
      specialize (Ho _ Hne). rewrite Eg in Ho. congruence.
    - destruct (kfnd k (getl m h)) as [v|] eqn:E2; [|reflexivity].
      assert (Hin : In (h, getl m h) m).
      { apply (kfind_some keqb kf keqb_spec) in E2. destruct E2 as [_ Hx]. eapply getl_some_in; eassumption. }
      rewrite (kfind_flat_none _ _ E _ _ Hin) in E2. discriminate.
  Qed.

  Lemma in_flat_getl m x : NoDup (map fst m) -> In x (flat_map snd m) -> exists h, In x (getl m h).
  Proof.
    intros Hn Hin. apply in_flat_map in Hin. destruct Hin as [[h l] [Hin Hx]]. exists h.
    rewrite (getl_in _ _ _ Hn Hin). exact Hx.
  Qed.

  (** Keys stay unique in the concatenation when they are unique per publisher and no key is
      shared between publishers. *)
  Lemma nodup_flat m :
    NoDup (map fst m) -> (forall h, NoDup (map kf (getl m h))) ->
    (forall p q x y, p <> q -> In x (getl m p) -> In y (getl m q) -> kf x <> kf y) ->
    NoDup (map kf (flat_map snd m)).
  Proof.
    induction m as [|[h l] m IH]; intros Hn Hu Hd; simpl; [constructor|].
    inv Hn.
    assert (Gh : getl ((h, l) :: m) h = l).
    { unfold getl. rewrite h_get_cons. rewrite (proj2 (handle_eqb_spec h h) eq_refl). reflexivity. }
    assert (Go : forall q, q <> h -> getl ((h, l) :: m) q = getl m q).
    { intros q Hq. unfold getl. rewrite h_get_cons.
      destruct (handle_eqb h q) eqn:E; [apply handle_eqb_spec in E; congruence|reflexivity]. }
    assert (Gm : forall q, In q (map fst m) -> q <> h) by (intros q Hq ->; contradiction).
    rewrite map_app. apply NoDup_app_intro.
    - rewrite <- Gh. apply Hu.
    - apply IH; [assumption| |].
      + intros q. destruct (handle_eq_dec q h) as [->|Hq].
        * unfold getl. rewrite h_get_none_notin by assumption. constructor.
        * rewrite <- Go by assumption. apply Hu.
      + intros p q x y Hpq Hx Hy.
        assert (Hp : p <> h) by (intros ->; unfold getl in Hx; rewrite h_get_none_notin in Hx by assumption; destruct Hx).
        assert (Hq : q <> h) by (intros ->; unfold getl in Hy; rewrite h_get_none_notin in Hy by assumption; destruct Hy).
        apply (Hd p q); [assumption|rewrite Go by assumption; assumption|rewrite Go by assumption; assumption].
    - intros k Hk1 Hk2. apply in_map_iff in Hk1. destruct Hk1 as [x [Ex Hx]].
      apply in_map_iff in Hk2. destruct Hk2 as [y [Ey Hy]].
      destruct (in_flat_getl m y H2 Hy) as [q Hq].
      assert (Hqh : q <> h) by (intros ->; unfold getl in Hq; rewrite h_get_none_notin in Hq by assumption; destruct Hq).
      apply (Hd h q x y); [congruence|rewrite Gh; assumption|rewrite Go by assumption; assumption|congruence].
  Qed.
End FlatKeyed.

Local Notation efind := (kfind uri_eqb ekey).

Lemma snap_of_getl st h : snap_of st h = getl (st_snap st) h.
Proof. reflexivity. Qed.
Lemma staged_of_getl st h : staged_of st h = getl (st_staged st) h.
Proof. reflexivity. Qed.
Lemma snapof_getl m h : snapof m h = getl m h.
Proof. reflexivity. Qed.

Lemma flat_get_owner (m : list (handle * objects)) k h :
  NoDup (map fst m) -> (forall q, q <> h -> o_get k (getl m q) = None) ->
  o_get k (flat m) = o_get k (getl m h).
Proof.
  intros Hn Ho. unfold o_get, flat. rewrite (kfind_flat_owner uri_eqb fst uri_eqb_spec m k h Hn); [reflexivity|].
  intros q Hq. specialize (Ho q Hq). unfold o_get in Ho. destruct (kfind uri_eqb fst k (getl m q)); [discriminate|reflexivity].
Qed.

(** Ownership is decidable, and under [PubDisjoint] every key has at most one owner. *)
Definition owns_b (st : state) (h : handle) (k : uri) : bool :=
  match o_get k (snap_of st h) with
  | Some _ => true
  | None => match efind k (staged_of st h) with Some _ => true | None => false end
  end.
Lemma owns_b_spec st h k : owns_b st h k = true <-> owns st h k.
Proof.
  unfold owns_b, owns. destruct (o_get k (snap_of st h)); [split; [left; discriminate|reflexivity]|].
  destruct (efind k (staged_of st h)); split; try reflexivity; try discriminate.
  - right; discriminate.
  - intros [H|H]; congruence.
Qed.
Lemma not_owns st h k : ~ owns st h k -> o_get k (snap_of st h) = None /\ efind k (staged_of st h) = None.
Proof.
  unfold owns. intros H. destruct (o_get k (snap_of st h)); [exfalso; apply H; left; discriminate|].
  destruct (efind k (staged_of st h)); [exfalso; apply H; right; discriminate|]. auto.
Qed.

Lemma owner_exists st k : PubDisjoint st -> exists p, forall q, q <> p -> ~ owns st q k.
Proof.
  intros Hd. destruct (find (fun h => owns_b st h k) (handles_of st)) as [p|] eqn:E.
  - apply find_some in E. destruct E as [_ Ho]. apply owns_b_spec in Ho.
    exists p. intros q Hq. apply (Hd p q k); auto.
  - exists []. intros q _ Ho.
    destruct (in_dec handle_eq_dec q (handles_of st)) as [Hin|Hnin].
    + apply (find_none _ _ E) in Hin. apply owns_b_spec in Ho. congruence.
    + unfold handles_of in Hnin. rewrite !in_app_iff in Hnin.
      destruct Ho as [Ho|Ho]; apply Ho.
      * unfold snap_of. rewrite h_get_none_notin by tauto. reflexivity.
      * unfold staged_of. rewrite h_get_none_notin by tauto. reflexivity.
  Qed.

Lemma in_owns_staged st h e : In e (staged_of st h) -> owns st h (ekey e).
Proof.
  intros Hin. right. intros Hn. rewrite (kfind_none uri_eqb ekey uri_eqb_spec) in Hn. apply (Hn e Hin). reflexivity.
Qed.

(** After the update every publisher's objects are its former view. *)
Lemma updated_snap_is_view st h : HNoDup st ->
  snapof (fold_left snap_apply (st_staged st) (st_snap st)) h = apply_delta (snap_of st h) (staged_delta (staged_of st h)).
Proof.
  intros Hn. rewrite fold_snap_apply by exact Hn. unfold staged_of, snap_of, snapof.
  destruct (h_get h (st_staged st)); reflexivity.
Qed.

(** The update seen through the concatenated snapshot. *)
Lemma update_flat st :
  WF st -> SNoDup st -> PubDisjoint st ->
  NoDupK (staged_all st) /\ CohL (staged_all st) /\ verified (flat (st_snap st)) (staged_all st)
  /\ oeq (flat (fold_left snap_apply (st_staged st) (st_snap st))) (apply_delta (flat (st_snap st)) (staged_all st)).
Proof.
  intros [Hw Hn] Hs Hd. unfold staged_all, staged_delta.
  change (flat_map (fun hs : handle * staged => snd hs) (st_staged st)) with (flat_map snd (st_staged st)).
  assert (Nd : NoDupK (flat_map snd (st_staged st))).
  { apply (nodup_flat ekey (st_staged st) Hn).
    - intros h. rewrite <- staged_of_getl. destruct (Hw h) as [[Hk _] _]. exact Hk.
    - intros p q x y Hpq Hx Hy E. rewrite <- staged_of_getl in Hx, Hy.
      apply (Hd p q (ekey x) Hpq); [apply in_owns_staged; assumption|rewrite E; apply in_owns_staged; assumption]. }
  assert (Ch : CohL (flat_map snd (st_staged st))).
  { intros e He. destruct (in_flat_getl (st_staged st) e Hn He) as [h Hh]. rewrite <- staged_of_getl in Hh.
    destruct (Hw h) as [[_ [Hc _]] _]. apply Hc. assumption. }
  split; [exact Nd|]. split; [exact Ch|]. split.
  - intros e He. destruct (in_flat_getl (st_staged st) e Hn He) as [p Hp]. rewrite <- staged_of_getl in Hp.
    destruct (Hw p) as [[Hk [Hc Hv]] _]. pose proof (Hv e Hp) as Hok.
    apply ok_elem_okA. apply ok_elem_okA in Hok.
    assert (Ek : canon (e_uri e) = ekey e) by (apply coherent_spec; apply Hc; assumption).
    rewrite Ek in *. unfold flat. fold (flat (st_snap st)).
    rewrite (flat_get_owner (st_snap st) (ekey e) p Hs); [rewrite <- snap_of_getl; exact Hok|].
    intros q Hq. rewrite <- snap_of_getl.
    assert (Hno : ~ owns st q (ekey e)) by (apply (Hd p q); [congruence|apply in_owns_staged; assumption]).
    apply not_owns in Hno. tauto.
  - intros k. destruct (owner_exists st k Hd) as [p Hp].
    assert (Hq : forall q, q <> p -> o_get k (snap_of st q) = None /\ efind k (staged_of st q) = None).
    { intros q Hq. apply not_owns. apply Hp. assumption. }
    assert (Hs' : NoDup (map fst (fold_left snap_apply (st_staged st) (st_snap st)))).
    { apply fold_snap_apply_nodup. exact Hs. }
    assert (Ev : forall q, o_get k (snapof (fold_left snap_apply (st_staged st) (st_snap st)) q)
                       = match efind k (staged_of st q) with Some e => eff e | None => o_get k (snap_of st q) end).
    { intros q. rewrite updated_snap_is_view by exact Hn. destruct (Hw q) as [[Hk [Hc _]] _].
      unfold staged_delta. apply apply_get; assumption. }
    rewrite (flat_get_owner _ k p Hs').
    + rewrite <- snapof_getl, Ev. rewrite apply_get by assumption.
      rewrite (kfind_flat_owner uri_eqb ekey uri_eqb_spec (st_staged st) k p Hn).
      * rewrite <- staged_of_getl. rewrite (flat_get_owner (st_snap st) k p Hs); [rewrite <- snap_of_getl; reflexivity|].
        intros q Hne. rewrite <- snap_of_getl. apply Hq; assumption.
      * intros q Hne. rewrite <- staged_of_getl. apply Hq; assumption.
    + intros q Hne. rewrite <- snapof_getl, Ev. destruct (Hq q Hne) as [E1 E2]. rewrite E2. exact E1.
Qed.

(** ** Extensional equality is respected by verification and application *)
Lemma oeq_refl o : oeq o o.
Proof. intros k; reflexivity. Qed.
Lemma oeq_sym a b : oeq a b -> oeq b a.
Proof. intros H k; symmetry; apply H. Qed.
Lemma oeq_trans a b c : oeq a b -> oeq b c -> oeq a c.
Proof. intros H1 H2 k; rewrite H1; apply H2. Qed.

Lemma oeq_verified a b d : oeq a b -> verified a d -> verified b d.
Proof.
  intros E Hv e He. specialize (Hv e He). apply ok_elem_okA. apply ok_elem_okA in Hv. rewrite <- E. exact Hv.
Qed.
Lemma oeq_apply a b d : NoDupK d -> CohL d -> oeq a b -> oeq (apply_delta a d) (apply_delta b d).
Proof. intros Hn Hc E k. rewrite !apply_get by assumption. rewrite E. reflexivity. Qed.

(** ** The client's chain over a contiguous list of retained deltas *)
Definition offers (ds : list ddata) : list (N * list elem) := map (fun d => (d_serial d, d_elems d)) ds.

Lemma find_delta_nth s ds : contig s ds -> forall i d, nth_error ds i = Some d ->
  find_delta (d_serial d) (offers ds) = Some (d_elems d).
Proof.
  revert s. induction ds as [|x ds IH]; intros s Hc i d Hn; [destruct i; discriminate|].
  destruct Hc as [H1 [H2 H3]]. unfold find_delta, offers. simpl.
  destruct i as [|i]; simpl in Hn.
  - inv Hn. rewrite N.eqb_refl. reflexivity.
  - destruct (contig_nth _ _ H3 _ _ Hn) as [E _].
    destruct (d_serial x =? d_serial d) eqn:Ex; [apply N.eqb_eq in Ex; lia|].
    apply (IH _ H3 _ _ Hn).
Qed.

Lemma firstn_snoc {A : Type} (l : list A) n x : nth_error l n = Some x -> firstn (S n) l = firstn n l ++ [x].
Proof.
  revert n. induction l as [|a l IH]; intros n H; [destruct n; discriminate|].
  destruct n as [|n]; simpl in *; [inv H; reflexivity|]. rewrite (IH _ H). reflexivity.
Qed.

Lemma chain_contig s ds : contig s ds -> forall n from, (n <= length ds)%nat -> from + N.of_nat n = s ->
  chain n from (offers ds) = Some (map d_elems (rev (firstn n ds))).
Proof.
  intros Hc. induction n as [|n IH]; intros from Hl Ef; [reflexivity|].
  cbn [chain].
  destruct (nth_error ds n) as [d|] eqn:En; [|apply nth_error_None in En; lia].
  destruct (contig_nth _ _ Hc _ _ En) as [Es _].
  assert (Ed : d_serial d = from + 1) by lia.
  rewrite <- Ed. rewrite (find_delta_nth _ _ Hc _ _ En).
  rewrite Ed. rewrite IH by lia. cbn [option_map].
  rewrite (firstn_snoc _ _ _ En). rewrite rev_app_distr. reflexivity.
Qed.

Lemma apply_chain_app l1 : forall o l2,
  apply_chain o (l1 ++ l2) = match apply_chain o l1 with Some o1 => apply_chain o1 l2 | None => None end.
Proof.
  induction l1 as [|e l1 IH]; intros o l2; [reflexivity|]. simpl.
  destruct (verified_b o e); [apply IH|reflexivity].
Qed.

(** ** Snapshots of the other requests *)
Lemma kdel_absent {K V : Type} (keqb : K -> K -> bool) (kf : V -> K) (spec : forall a b, keqb a b = true <-> a = b) k l :
  kfind keqb kf k l = None -> kdel keqb kf k l = l.
Proof.
  intros H. rewrite (kfind_none keqb kf spec) in H. unfold kdel. induction l as [|a l IH]; [reflexivity|].
  simpl. rewrite (keqb_neq keqb spec (kf a) k) by (apply H; simpl; auto). simpl. f_equal. apply IH.
  intros v Hv. apply H. simpl; auto.
Qed.

Lemma snapshot_unchanged st o : is_update o = false -> flat (st_snap (fst (step st o))) = flat (st_snap st).
Proof.
  intros Hu. destruct o as [h|h|h d|h| |]; try discriminate; simpl.
  - destruct (h_has h (st_pubs st)); [reflexivity|]. simpl.
    destruct (h_has h (st_snap st)) eqn:E; [reflexivity|].
    unfold h_set, kput. cbn [fst flat flat_map snd app].
    unfold h_has, h_get in E. destruct (kfind handle_eqb fst h (st_snap st)) eqn:Ek; [discriminate|].
    unfold flat. f_equal. apply (kdel_absent handle_eqb fst handle_eqb_spec). exact Ek.
  - destruct (view st h); destruct (h_has h (st_pubs st)); reflexivity.
  - destruct (h_get h (st_pubs st)); [|reflexivity]. destruct d; [reflexivity|].
    destruct (verify_delta_applies _ _ _); reflexivity.
  - reflexivity.
  - reflexivity.
Qed.

(** ** The chain invariant *)
Definition ChainOK (s0 : N) (o0 : objects) (r : rrdp) : Prop :=
  s0 <= r_serial r /\
  let n := N.to_nat (r_serial r - s0) in
  ((n <= length (r_deltas r))%nat ->
   exists o', apply_chain o0 (map d_elems (rev (firstn n (r_deltas r)))) = Some o' /\ oeq o' (r_snapshot r)).

Lemma firstn_firstn_le {A : Type} (l : list A) k m : (k <= m)%nat -> firstn k (firstn m l) = firstn k l.
Proof. intros H. rewrite firstn_firstn. f_equal. lia. Qed.

Lemma chainok_step a sz r o orc r' s0 o0 :
  RInv r -> PubDisjoint (r_st r) -> is_reset o = false ->
  rstep a sz r o orc = Some r' -> ChainOK s0 o0 r -> ChainOK s0 o0 r'.
Proof.
  intros [HW [HS [HC H1]]] HD Hr H [Hle Hch].
  destruct (is_update o) eqn:Eu.
  - destruct o; try discriminate.
    destruct (serial_step _ _ _ _ _ H) as [[En Es]|[En ->]]; [|split; assumption].
    unfold rstep in H. rewrite En in H. destruct (find_deltas_truncate_age _ _ _ _) as [k|]; [|discriminate].
    inv H. split; [rewrite Es; lia|].
    cbv zeta. rewrite Es.
    unfold apply_rrdp_updated at 1 2. cbn [r_deltas u_truncate u_time u_rnd]. unfold deltas_truncate_size.
    set (m := N.to_nat (size_loop _ _ _ _ _)).
    set (dnew := mkD _ _ _ _).
    set (olds := firstn (N.to_nat k) (r_deltas r)).
    intros Hlen.
    replace (N.to_nat (r_serial r + 1 - s0)) with (S (N.to_nat (r_serial r - s0))) in * by lia.
    set (n := N.to_nat (r_serial r - s0)) in *.
    (* the retained list is long enough, so neither truncation cut into the chain *)
    assert (Lm : (S n <= m)%nat).
    { rewrite firstn_length in Hlen. lia. }
    assert (Lo : (n <= length olds)%nat).
    { rewrite firstn_length in Hlen. change (length (dnew :: olds)) with (S (length olds)) in Hlen. lia. }
    rewrite firstn_firstn_le by exact Lm. cbn [firstn].
    assert (Lr : (n <= length (r_deltas r))%nat).
    { unfold olds in Lo. rewrite firstn_length in Lo. lia. }
    assert (Ef : firstn n olds = firstn n (r_deltas r)).
    { unfold olds in *. apply firstn_firstn_le. rewrite firstn_length in Lo. lia. }
    rewrite Ef. destruct (Hch Lr) as [o1 [Ha Ho]].
    cbn [rev]. rewrite map_app, apply_chain_app, Ha. cbn [map apply_chain d_elems dnew].
    destruct (update_flat (r_st r) HW HS HD) as [Nd [Ch [Hv Hq]]].
    assert (Hv1 : verified o1 (staged_all (r_st r))) by (eapply oeq_verified; [apply oeq_sym; exact Ho|exact Hv]).
    apply verified_b_spec in Hv1. rewrite Hv1.
    eexists. split; [reflexivity|].
    unfold r_snapshot, apply_rrdp_updated. cbn [r_st st_snap].
    eapply oeq_trans; [apply oeq_apply; [exact Nd|exact Ch|exact Ho]|]. apply oeq_sym. exact Hq.
  - pose proof (serial_only_moves_on_update_or_reset _ _ _ _ _ _ H Eu Hr) as Es.
    assert (Ed : r_deltas r' = r_deltas r) by (destruct o; try discriminate; inv H; reflexivity).
    assert (En : r_snapshot r' = r_snapshot r).
    { unfold r_snapshot. rewrite (rstep_st _ _ _ _ _ _ H). apply snapshot_unchanged. exact Eu. }
    unfold ChainOK. rewrite Es, Ed, En. split; assumption.
Qed.

Fixpoint disjoint_run (a : arith) (sz : N -> N) (r : rrdp) (ops : list rop) : Prop :=
  PubDisjoint (r_st r) /\
  match ops with
  | [] => True
  | (o, orc) :: rest => match rstep a sz r o orc with Some r' => disjoint_run a sz r' rest | None => True end
  end.
Definition no_reset (ops : list rop) : Prop := Forall (fun x => is_reset (fst x) = false) ops.

Lemma chainok_run a sz ops : forall r r' s0 o0,
  RInv r -> good_rops ops -> no_reset ops -> disjoint_run a sz r ops ->
  rrun a sz r ops = Some r' -> ChainOK s0 o0 r -> ChainOK s0 o0 r' /\ r_session r' = r_session r.
Proof.
  induction ops as [|[o orc] ops IH]; intros r r' s0 o0 HI Hg Hn Hd H Hc; simpl in H.
  - inv H. auto.
  - destruct (rstep a sz r o orc) as [r1|] eqn:E; [|discriminate].
    inv Hg. inv Hn. destruct Hd as [Hd1 Hd2]. rewrite E in Hd2. simpl in *.
    destruct (IH r1 r' s0 o0) as [A B]; auto.
    + eapply rinv_step; eassumption.
    + eapply chainok_step; eassumption.
    + split; [exact A|]. rewrite B. eapply session_only_on_reset; eassumption.
Qed.

(** [delta_chain_sound]: take any state [r1] of the server and let it run on without a session
    reset to [r2]. A client that holds serial [serial r1] of this session with objects equal to
    the snapshot at that serial, and that finds the chain of deltas offered from its serial on,
    reaches exactly the current snapshot by applying that chain: every hash check passes and no
    fallback to the snapshot is needed. *)
Theorem delta_chain_sound a sz r1 ops r2 c :
  RInv r1 -> good_rops ops -> no_reset ops -> disjoint_run a sz r1 ops ->
  rrun a sz r1 ops = Some r2 ->
  cl_session c = r_session r1 -> cl_serial c = r_serial r1 -> oeq (cl_objs c) (r_snapshot r1) ->
  covers r2 (cl_serial c) ->
  exists o' h, client_update (offer_of r2) c = (mkClient (r_session r2) (r_serial r2) o', h)
               /\ h <> ViaSnapshot /\ oeq o' (r_snapshot r2).
Proof.
  intros HI Hg Hn Hd H Es Er Eo Hcov.
  assert (C0 : ChainOK (cl_serial c) (cl_objs c) r1).
  { split; [lia|]. rewrite Er, N.sub_diag. simpl. intros _. exists (cl_objs c). auto. }
  destruct (chainok_run _ _ _ _ _ _ _ HI Hg Hn Hd H C0) as [[Hle Hch] Hs].
  pose proof (rinv_run _ _ _ _ _ HI Hg H) as [_ [_ [HC2 _]]].
  unfold client_update, offer_of. cbn [of_session of_serial of_snap of_deltas].
  rewrite Es, <- Hs, N.eqb_refl. cbn [negb].
  destruct (cl_serial c =? r_serial r2) eqn:E1.
  - apply N.eqb_eq in E1. exists (cl_objs c), UpToDate. split; [|split; [discriminate|]].
    + destruct c as [cs cn co]. simpl in *. subst. rewrite Hs, E1. reflexivity.
    + cbv zeta in Hch. rewrite E1, N.sub_diag in Hch. simpl in Hch. destruct (Hch (Nat.le_0_l _)) as [o' [Ha Ho]].
      inv Ha. exact Ho.
  - apply N.eqb_neq in E1. destruct (r_serial r2 <? cl_serial c) eqn:E2; [apply N.ltb_lt in E2; lia|].
    assert (Hl : (N.to_nat (r_serial r2 - cl_serial c) <= length (r_deltas r2))%nat) by (unfold covers in Hcov; lia).
    fold (offers (r_deltas r2)).
    rewrite (chain_contig _ _ HC2 _ _ Hl) by lia.
    destruct (Hch Hl) as [o' [Ha Ho]]. rewrite Ha.
    exists o', ViaDeltas. split; [rewrite Hs; reflexivity|]. split; [discriminate|exact Ho].
Qed.

(** Whatever the client held, what it ends up with after a fallback is the offered snapshot. *)
Theorem client_fallback_is_snapshot f c c' : client_update f c = (c', ViaSnapshot) -> cl_objs c' = of_snap f.
Proof.
  unfold client_update, take_snapshot.
  destruct (negb (cl_session c =? of_session f)); [intros H; inv H; reflexivity|].
  destruct (cl_serial c =? of_serial f); [intros H; inv H|].
  destruct (of_serial f <? cl_serial c); [intros H; inv H; reflexivity|].
  destruct (chain _ _ _); [|intros H; inv H; reflexivity].
  destruct (apply_chain _ _); intros H; inv H; reflexivity.
Qed.

(** ** [snapshot_is_state]: an update publishes exactly what the publishers had been told was
    theirs (published + staged), empties the staging area and leaves every view as it was. *)
Theorem snapshot_is_state a sz r orc r' :
  RInv r -> rstep a sz r OUpdate orc = Some r' -> staged_nonempty (r_st r) = true ->
  (forall h, snap_of (r_st r') h = view (r_st r) h) /\ st_staged (r_st r') = []
  /\ (forall h, view (r_st r') h = view (r_st r) h).
Proof.
  intros [[Hw Hn] _] H En. pose proof (rstep_st _ _ _ _ _ _ H) as Est.
  rewrite staged_nonempty_step in Est by assumption.
  assert (A : forall h, snap_of (r_st r') h = view (r_st r) h).
  { intros h. rewrite Est. unfold snap_of. cbn [st_snap].
    fold (snapof (fold_left snap_apply (st_staged (r_st r)) (st_snap (r_st r))) h).
    rewrite updated_snap_is_view by exact Hn. symmetry. apply view_eq. }
  split; [exact A|]. split; [rewrite Est; reflexivity|].
  intros h. rewrite (view_eq (r_st r')). rewrite A. unfold staged_of. rewrite Est. reflexivity.
Qed.

(** ** Retention by number and age: what the loop of [find_deltas_truncate_age] guarantees

    The code of record ([CountGe], rrdp.rs 434-456 since commit 5d8ba60d). *)
Lemma usize_pred_pos a n : 1 <= n -> usize_pred a n = Some (n - 1).
Proof. intros H. unfold usize_pred. destruct (n =? 0) eqn:E; [apply N.eqb_eq in E; lia|reflexivity]. Qed.

Definition w_young (t : Z) (s : N) : ddata := mkD s t 0 [].

Lemma age_loop_le_v v a c now ds : forall keep k, age_loop_v v a c now ds keep = Some k -> keep <= k <= keep + N.of_nat (length ds).
Proof.
  induction ds as [|d ds IH]; intros keep k H; simpl in H.
  - inv H. simpl. lia.
  - simpl length. destruct (_ || _).
    + apply IH in H. lia.
    + destruct v.
      * destruct (usize_pred a (c_max_nr c)) as [m|]; [|discriminate].
        destruct (_ || _); [inv H; lia|apply IH in H; lia].
      * destruct (_ || _); [inv H; lia|apply IH in H; lia].
Qed.

(** The repaired loop never panics and does not depend on the arithmetic mode. *)
Lemma age_loop_ge_total c now ds : forall keep, exists k, forall a', age_loop_v CountGe a' c now ds keep = Some k.
Proof.
  induction ds as [|d ds IH]; intros keep; simpl; [exists keep; reflexivity|].
  destruct (IH (keep + 1)) as [k1 H1].
  destruct (_ || _); [exists k1; exact H1|]. destruct (_ || _); [exists keep; reflexivity|exists k1; exact H1].
Qed.
Theorem find_total c now ds : exists k, forall a', find_deltas_truncate_age a' c now ds = Some k.
Proof. unfold find_deltas_truncate_age, find_deltas_truncate_age_v, retention_rule. apply age_loop_ge_total. Qed.

Theorem rstep_total a sz r o orc : exists r', rstep a sz r o orc = Some r'.
Proof.
  unfold rstep. destruct o; try (eexists; reflexivity).
  destruct (staged_nonempty (r_st r)); [|eexists; reflexivity].
  destruct (find_total (or_cfg orc) (or_now orc) (r_deltas r)) as [k Hk]. rewrite (Hk a). eexists. reflexivity.
Qed.

(** Every old delta the loop keeps is protected, or is neither too old nor beyond the count. *)
Lemma age_loop_ge_kept a c now ds : forall keep k, age_loop_v CountGe a c now ds keep = Some k ->
  forall i x, nth_error ds i = Some x -> keep + N.of_nat i < k ->
  protected c now (keep + N.of_nat i) x = true
  \/ (older_than now (c_max_secs c) x = false /\ keep + N.of_nat i + 1 < c_max_nr c).
Proof.
  induction ds as [|d ds IH]; intros keep k H i x Hn Hi; [destruct i; discriminate|].
  simpl in H. destruct i as [|i]; simpl in Hn.
  - inv Hn. rewrite N.add_0_r in *. unfold protected. destruct (_ || _) eqn:P; [left; reflexivity|right].
    destruct ((c_max_nr c <=? keep + 1) || older_than now (c_max_secs c) x) eqn:B; [inv H; lia|].
    apply orb_false_iff in B. destruct B as [B1 B2]. apply N.leb_gt in B1. split; [exact B2|lia].
  - replace (keep + N.of_nat (S i)) with (keep + 1 + N.of_nat i) in * by lia.
    destruct (_ || _); [eapply IH; eassumption|].
    destruct (_ || _); [inv H; lia|eapply IH; eassumption].
Qed.

(** [kept_beyond_max_protected]: an old delta kept at an index where the count (with the new
    delta) exceeds max_nr is protected by min_nr or min_seconds. This is all that is left of
    "more than max_nr deltas": the documented priority of the configured minimums. *)
Theorem kept_beyond_max_protected a : retention_explained (find_deltas_truncate_age a).
Proof.
  intros c now ds k i x H Hn Hi Hm. unfold find_deltas_truncate_age, find_deltas_truncate_age_v, retention_rule in H.
  destruct (age_loop_ge_kept a c now ds 0 k H i x Hn) as [P|[_ Hlt]]; [lia|exact P|lia].
Qed.

Theorem kept_not_old a c now ds k i x :
  find_deltas_truncate_age a c now ds = Some k -> nth_error ds i = Some x -> N.of_nat i < k ->
  protected c now (N.of_nat i) x = true \/ older_than now (c_max_secs c) x = false.
Proof.
  intros H Hn Hi. unfold find_deltas_truncate_age, find_deltas_truncate_age_v, retention_rule in H.
  destruct (age_loop_ge_kept a c now ds 0 k H i x Hn) as [P|[O _]]; [lia|left; exact P|right; exact O].
Qed.

(** The strongest bounds by number. If the delta at index max_nr - 1 is not protected, at most
    max_nr - 1 old deltas are kept ... *)
Theorem retention_bound_strong a c now ds k :
  1 <= c_max_nr c -> find_deltas_truncate_age a c now ds = Some k ->
  (forall x, nth_error ds (N.to_nat (c_max_nr c - 1)) = Some x -> protected c now (c_max_nr c - 1) x = false) ->
  k <= c_max_nr c - 1.
Proof.
  intros H1 H Hp. destruct (N.le_gt_cases k (c_max_nr c - 1)) as [Hle|Hgt]; [exact Hle|exfalso].
  assert (Hl : k <= N.of_nat (length ds)).
  { unfold find_deltas_truncate_age, find_deltas_truncate_age_v in H. apply age_loop_le_v in H. lia. }
  destruct (nth_error ds (N.to_nat (c_max_nr c - 1))) as [x|] eqn:En; [|apply nth_error_None in En; lia].
  pose proof (kept_beyond_max_protected a c now ds k _ x H En) as P. rewrite N2Nat.id in P.
  rewrite (Hp x eq_refl) in P. assert (true = false -> False) by discriminate. apply H0. symmetry. apply P; lia.
Qed.

(** ... in the form of DESIGN Appendix A.4 ... *)
Theorem retention_bound a c now ds k :
  1 <= c_max_nr c -> find_deltas_truncate_age a c now ds = Some k ->
  (forall i x, nth_error ds i = Some x -> c_max_nr c - 1 <= N.of_nat i -> protected c now (N.of_nat i) x = false) ->
  k <= c_max_nr c - 1.
Proof.
  intros H1 H Hp. apply (retention_bound_strong a c now ds k H1 H).
  intros x Hx. specialize (Hp _ _ Hx). rewrite N2Nat.id in Hp. apply Hp. lia.
Qed.

(** ... and for every configuration: if only the first [p] old deltas can be protected (deltas
    are listed newest first, so those younger than min_seconds and those counted by min_nr form
    an initial segment), at most max (max_nr - 1) p old deltas are kept. *)
Theorem retention_max_or_protected a c now ds k p :
  find_deltas_truncate_age a c now ds = Some k ->
  (forall i x, nth_error ds i = Some x -> p <= N.of_nat i -> protected c now (N.of_nat i) x = false) ->
  k <= N.max (c_max_nr c - 1) p.
Proof.
  intros H Hp. destruct (N.le_gt_cases k (N.max (c_max_nr c - 1) p)) as [Hle|Hgt]; [exact Hle|exfalso].
  assert (Hl : k <= N.of_nat (length ds)).
  { unfold find_deltas_truncate_age, find_deltas_truncate_age_v in H. apply age_loop_le_v in H. lia. }
  destruct (nth_error ds (N.to_nat (k - 1))) as [x|] eqn:En; [|apply nth_error_None in En; lia].
  pose proof (kept_beyond_max_protected a c now ds k _ x H En) as P. rewrite N2Nat.id in P.
  pose proof (Hp _ x En) as Hf. rewrite N2Nat.id in Hf. rewrite Hf in P by lia.
  assert (true = false -> False) by discriminate. apply H0. symmetry. apply P; lia.
Qed.

(** The loop never cuts into the leading run of protected deltas ("always keep min_nr files,
    always keep files younger than min_seconds"), with either count test. *)
Lemma age_loop_protected_v v a c now ds : forall keep k j,
  age_loop_v v a c now ds keep = Some k -> (j <= length ds)%nat ->
  (forall i x, (i < j)%nat -> nth_error ds i = Some x -> protected c now (keep + N.of_nat i) x = true) ->
  keep + N.of_nat j <= k.
Proof.
  induction ds as [|d ds IH]; intros keep k j H Hj Hp.
  - simpl in Hj. assert (j = 0%nat) by lia. subst j. simpl in H. inv H. simpl. lia.
  - destruct j as [|j]; [apply age_loop_le_v in H; simpl; lia|].
    simpl in H. assert (P : protected c now keep d = true).
    { specialize (Hp 0%nat d (Nat.lt_0_succ _) eq_refl). rewrite N.add_0_r in Hp. exact Hp. }
    unfold protected in P. rewrite P in H.
    assert (G : keep + 1 + N.of_nat j <= k).
    { apply (IH (keep + 1) k j H); [simpl in Hj; lia|].
      intros i x Hi Hx. specialize (Hp (S i) x (proj1 (Nat.succ_lt_mono _ _) Hi) Hx).
      replace (keep + N.of_nat (S i)) with (keep + 1 + N.of_nat i) in Hp by lia. exact Hp. }
    lia.
Qed.

Theorem protected_prefix_kept a c now ds k j :
  find_deltas_truncate_age a c now ds = Some k -> (j <= length ds)%nat ->
  (forall i x, (i < j)%nat -> nth_error ds i = Some x -> protected c now (N.of_nat i) x = true) ->
  N.of_nat j <= k.
Proof.
  intros H Hj Hp. pose proof (age_loop_protected_v retention_rule a c now ds 0 k j H Hj) as G. simpl in G. apply G.
  intros i x Hi Hx. simpl. apply Hp; assumption.
Qed.

(** Where the loop stops: at the end of the list, or at the first delta that is not protected
    and is at or beyond the count limit or too old. *)
Theorem truncate_age_stop a c now ds k :
  find_deltas_truncate_age a c now ds = Some k ->
  k = N.of_nat (length ds) \/
  exists x, nth_error ds (N.to_nat k) = Some x /\ protected c now k x = false
            /\ (c_max_nr c <= k + 1 \/ older_than now (c_max_secs c) x = true).
Proof.
  unfold find_deltas_truncate_age, find_deltas_truncate_age_v, retention_rule.
  assert (G : forall ds keep k, age_loop_v CountGe a c now ds keep = Some k ->
    k = keep + N.of_nat (length ds) \/
    exists x, nth_error ds (N.to_nat (k - keep)) = Some x /\ protected c now k x = false
              /\ (c_max_nr c <= k + 1 \/ older_than now (c_max_secs c) x = true)).
  { clear. induction ds as [|d ds IH]; intros keep k H; simpl in H; [inv H; left; simpl; lia|].
    simpl length. destruct ((keep <? c_min_nr c) || younger_than now (c_min_secs c) d) eqn:P.
    - pose proof (age_loop_le_v _ _ _ _ _ _ _ H) as Hl.
      destruct (IH _ _ H) as [E|[x [Hx R]]]; [left; lia|right].
      exists x. split; [|exact R]. replace (N.to_nat (k - keep)) with (S (N.to_nat (k - (keep + 1)))) by lia. exact Hx.
    - destruct ((c_max_nr c <=? keep + 1) || older_than now (c_max_secs c) d) eqn:B.
      + inv H. right. exists d. rewrite N.sub_diag. split; [reflexivity|]. split; [exact P|].
        apply orb_true_iff in B. destruct B as [B|B]; [left; apply N.leb_le; exact B|right; exact B].
      + pose proof (age_loop_le_v _ _ _ _ _ _ _ H) as Hl.
        destruct (IH _ _ H) as [E|[x [Hx R]]]; [left; lia|right].
        exists x. split; [|exact R]. replace (N.to_nat (k - keep)) with (S (N.to_nat (k - (keep + 1)))) by lia. exact Hx. }
  intros H. destruct (G ds 0 k H) as [E|[x [Hx R]]]; [left; lia|right].
  exists x. rewrite N.sub_0_r in Hx. auto.
Qed.

(** Where the delta at index max_nr - 1 is not protected the two count tests agree (that is
    where the old one worked). *)
Lemma age_loop_rules_agree a c now ds : forall keep,
  1 <= c_max_nr c -> keep <= c_max_nr c - 1 ->
  (forall x, nth_error ds (N.to_nat (c_max_nr c - 1 - keep)) = Some x -> protected c now (c_max_nr c - 1) x = false) ->
  age_loop_v CountGe a c now ds keep = age_loop_v CountEq a c now ds keep.
Proof.
  induction ds as [|d ds IH]; intros keep H1 Hk Hp; [reflexivity|]. simpl.
  rewrite (usize_pred_pos a _ H1).
  assert (Hn : keep < c_max_nr c - 1 ->
               forall x, nth_error ds (N.to_nat (c_max_nr c - 1 - (keep + 1))) = Some x -> protected c now (c_max_nr c - 1) x = false).
  { intros Hlt x Hx. apply Hp. replace (N.to_nat (c_max_nr c - 1 - keep)) with (S (N.to_nat (c_max_nr c - 1 - (keep + 1)))) by lia. exact Hx. }
  destruct (N.eq_dec keep (c_max_nr c - 1)) as [E|E].
  - assert (P : protected c now (c_max_nr c - 1) d = false) by (apply Hp; rewrite E, N.sub_diag; reflexivity).
    unfold protected in P. rewrite <- E in P. rewrite P.
    rewrite E, N.eqb_refl. replace (c_max_nr c <=? c_max_nr c - 1 + 1) with true by (symmetry; apply N.leb_le; lia). reflexivity.
  - assert (Hlt : keep < c_max_nr c - 1) by lia.
    replace (c_max_nr c <=? keep + 1) with false by (symmetry; apply N.leb_gt; lia).
    replace (keep =? c_max_nr c - 1) with false by (symmetry; apply N.eqb_neq; exact E).
    rewrite (IH (keep + 1) H1 ltac:(lia) (Hn Hlt)). reflexivity.
Qed.
Theorem rules_agree_where_unprotected a c now ds :
  1 <= c_max_nr c ->
  (forall x, nth_error ds (N.to_nat (c_max_nr c - 1)) = Some x -> protected c now (c_max_nr c - 1) x = false) ->
  find_deltas_truncate_age a c now ds = find_deltas_truncate_age_v CountEq a c now ds.
Proof.
  intros H1 Hp. unfold find_deltas_truncate_age, find_deltas_truncate_age_v, retention_rule.
  apply age_loop_rules_agree; [exact H1|lia|rewrite N.sub_0_r; exact Hp].
Qed.

(** After the step: the new delta followed by an initial segment of the old ones, at most one
    more than the loop kept (the size rule only removes). *)
Theorem retained_shape a sz r orc r' k :
  rstep a sz r OUpdate orc = Some r' -> staged_nonempty (r_st r) = true ->
  find_deltas_truncate_age a (or_cfg orc) (or_now orc) (r_deltas r) = Some k ->
  exists dn m, r_deltas r' = firstn m (dn :: firstn (N.to_nat k) (r_deltas r)).
Proof.
  intros H En Ek. unfold rstep in H. rewrite En, Ek in H. inv H.
  unfold apply_rrdp_updated. cbn [r_deltas u_truncate]. unfold deltas_truncate_size. eexists. eexists. reflexivity.
Qed.
Theorem retained_le_kept_plus_one a sz r orc r' k :
  rstep a sz r OUpdate orc = Some r' -> staged_nonempty (r_st r) = true ->
  find_deltas_truncate_age a (or_cfg orc) (or_now orc) (r_deltas r) = Some k ->
  N.of_nat (length (r_deltas r')) <= k + 1.
Proof.
  intros H En Ek. destruct (retained_shape _ _ _ _ _ _ H En Ek) as [dn [m ->]].
  rewrite firstn_length. simpl length. rewrite firstn_length. lia.
Qed.

(** On the server: a retained delta at a position beyond the configured maximum (position 0 is
    the new delta) is an old delta protected by min_nr or min_seconds. *)
Theorem retention_explained_system a sz r orc r' j d :
  rstep a sz r OUpdate orc = Some r' -> staged_nonempty (r_st r) = true ->
  nth_error (r_deltas r') (S j) = Some d -> c_max_nr (or_cfg orc) <= N.of_nat (S j) ->
  nth_error (r_deltas r) j = Some d /\ protected (or_cfg orc) (or_now orc) (N.of_nat j) d = true.
Proof.
  intros H En Hn Hm.
  destruct (find_total (or_cfg orc) (or_now orc) (r_deltas r)) as [k Hk]. specialize (Hk a).
  destruct (retained_shape _ _ _ _ _ _ H En Hk) as [dn [m E]]. rewrite E in Hn.
  (* position S j of [firstn m (dn :: firstn k old)] is position j of [old], below k *)
  assert (Hj : nth_error (firstn (N.to_nat k) (r_deltas r)) j = Some d).
  { destruct m as [|m]; [destruct j; discriminate|]. cbn [firstn nth_error] in Hn.
    clear - Hn. revert m Hn. generalize (firstn (N.to_nat k) (r_deltas r)) as l. intros l. revert j.
    induction l as [|a l IH]; intros j m Hn; [rewrite firstn_nil in Hn; destruct j; discriminate|].
    destruct m as [|m]; [destruct j; discriminate|]. destruct j as [|j]; [exact Hn|]. simpl in *. eapply IH. exact Hn. }
  assert (Hjk : (j < N.to_nat k)%nat /\ nth_error (r_deltas r) j = Some d).
  { clear - Hj. revert j Hj. generalize (N.to_nat k) as n. generalize (r_deltas r) as l.
    induction l as [|a l IH]; intros n j Hj; [rewrite firstn_nil in Hj; destruct j; discriminate|].
    destruct n as [|n]; [destruct j; discriminate|]. destruct j as [|j]; [split; [lia|exact Hj]|].
    simpl in Hj. destruct (IH _ _ Hj). split; [lia|assumption]. }
  destruct Hjk as [Hlt Hd]. split; [exact Hd|].
  apply (kept_beyond_max_protected a (or_cfg orc) (or_now orc) (r_deltas r) k j d Hk Hd); lia.
Qed.

(** The clause "the retained deltas never exceed the configured maximum number" as far as it is
    true: never more than max (max_nr) (1 + p) where only the first p old deltas can be
    protected by the configured minimums. *)
Theorem retention_system a sz r orc r' p :
  rstep a sz r OUpdate orc = Some r' -> staged_nonempty (r_st r) = true ->
  (forall i x, nth_error (r_deltas r) i = Some x -> p <= N.of_nat i ->
               protected (or_cfg orc) (or_now orc) (N.of_nat i) x = false) ->
  N.of_nat (length (r_deltas r')) <= N.max (c_max_nr (or_cfg orc)) (1 + p).
Proof.
  intros H En Hp.
  destruct (find_total (or_cfg orc) (or_now orc) (r_deltas r)) as [k Hk]. specialize (Hk a).
  pose proof (retained_le_kept_plus_one _ _ _ _ _ _ H En Hk).
  pose proof (retention_max_or_protected _ _ _ _ _ _ Hk Hp). lia.
Qed.

(** The bound of the property's text where it is true without qualification: the configured minimum
    number is below the maximum and no old delta at an index >= max_nr - 1 is younger than
    min_seconds (with min_seconds = 0: none carries a time in the future). Then no retained delta
    is protected beyond the maximum and at most max_nr deltas are retained - the new one included.
    (With [keep >= max_nr] in place of [keep + 1 >= max_nr], the count test of before the first
    repair of the loop and of seeded defect C11-7, one more would be.) *)
Theorem retention_within_max a sz r orc r' :
  rstep a sz r OUpdate orc = Some r' -> staged_nonempty (r_st r) = true ->
  c_min_nr (or_cfg orc) < c_max_nr (or_cfg orc) ->
  (forall i x, nth_error (r_deltas r) i = Some x -> c_max_nr (or_cfg orc) - 1 <= N.of_nat i ->
               younger_than (or_now orc) (c_min_secs (or_cfg orc)) x = false) ->
  N.of_nat (length (r_deltas r')) <= c_max_nr (or_cfg orc).
Proof.
  intros H En Hm Hy.
  pose proof (retention_system a sz r orc r' (c_max_nr (or_cfg orc) - 1) H En) as G.
  assert (N.of_nat (length (r_deltas r')) <= N.max (c_max_nr (or_cfg orc)) (1 + (c_max_nr (or_cfg orc) - 1))); [|lia].
  apply G. intros i x Hx Hi. unfold protected. rewrite (Hy i x Hx Hi).
  replace (N.of_nat i <? c_min_nr (or_cfg orc)) with false by (symmetry; apply N.ltb_ge; lia). reflexivity.
Qed.

(** Under the same conditions, and with no old delta older than max_seconds, the loop keeps
    exactly the newest max_nr - 1 old deltas (all of them if there are fewer): the maximum is
    reached, not only respected. *)
Theorem truncate_age_exact a c now ds :
  c_min_nr c < c_max_nr c ->
  (forall i x, nth_error ds i = Some x -> c_max_nr c - 1 <= N.of_nat i -> younger_than now (c_min_secs c) x = false) ->
  (forall x, In x ds -> older_than now (c_max_secs c) x = false) ->
  find_deltas_truncate_age a c now ds = Some (N.min (N.of_nat (length ds)) (c_max_nr c - 1)).
Proof.
  intros Hm Hy Ho. destruct (find_total c now ds) as [k Hk]. specialize (Hk a). rewrite Hk. f_equal.
  assert (Hb : k <= c_max_nr c - 1).
  { apply (retention_bound a c now ds k); [lia|exact Hk|].
    intros i x Hx Hi. unfold protected. rewrite (Hy i x Hx Hi).
    replace (N.of_nat i <? c_min_nr c) with false by (symmetry; apply N.ltb_ge; lia). reflexivity. }
  destruct (truncate_age_stop a c now ds k Hk) as [E|[x [Hx [_ [Hc|Hold]]]]].
  - lia.
  - assert (Hlt : (N.to_nat k < length ds)%nat) by (apply nth_error_Some; rewrite Hx; discriminate). lia.
  - rewrite (Ho x (nth_error_In _ _ Hx)) in Hold. discriminate.
Qed.

Example retention_bound_nonvacuous :
  find_deltas_truncate_age Checked (mkCfg 0 0 2 7200 false) 100000000%Z
    [w_young 99000000 4; w_young 98000000 3; w_young 97000000 2] = Some 1.
Proof. vm_compute. reflexivity. Qed.
(** The configurations on which the old count test kept unprotected deltas beyond the maximum. *)
Example repaired_min_eq_max :
  find_deltas_truncate_age Checked (mkCfg 1 0 1 7200 false) 100000000%Z
    [w_young 99000000 5; w_young 98000000 4; w_young 97000000 3; w_young 96000000 2] = Some 1.
Proof. vm_compute. reflexivity. Qed.
Example repaired_max_nr_zero :
  find_deltas_truncate_age Checked (mkCfg 0 0 0 7200 false) 100000000%Z
    [w_young 99000000 4; w_young 98000000 3; w_young 97000000 2] = Some 0.
Proof. vm_compute. reflexivity. Qed.

(** *** What remains of F11a: the configured minimums have priority over the maximum *)
Example retention_young_exceeds :
  find_deltas_truncate_age Checked (mkCfg 0 3600 2 7200 false) 100000000%Z
    [w_young 99000000 4; w_young 98000000 3; w_young 97000000 2] = Some 3.
Proof. vm_compute. reflexivity. Qed.
Example retention_min_ge_max_exceeds :
  find_deltas_truncate_age Checked (mkCfg 5 0 2 0 false) 100000000%Z
    [w_young 5 7; w_young 4 6; w_young 3 5; w_young 2 4; w_young 1 3; w_young 0 2] = Some 5.
Proof. vm_compute. reflexivity. Qed.

(** The same on the whole server: a reachable state, one update, three retained deltas under
    max_nr = 2. *)
Definition w_base : jail := mkJail 1 1 [].
Definition w_uri (n : N) : uri := mkUri 0 1 0 1 0 [7; n].
Definition w_cfg : cfg := mkCfg 0 3600 2 7200 false.
Definition w_orc (t : Z) (rnd : N) : oracle := mkOracle t rnd 9 w_cfg.
Definition w_ops : list rop :=
  [ (OCreate [7], w_orc 0 0);
    (OPublish [7] [Pub (w_uri 1) (11, 11)], w_orc 0 0); (OUpdate, w_orc 1000000 1);
    (OPublish [7] [Pub (w_uri 2) (12, 12)], w_orc 0 0); (OUpdate, w_orc 2000000 2);
    (OPublish [7] [Pub (w_uri 3) (13, 13)], w_orc 0 0); (OUpdate, w_orc 3000000 3);
    (OPublish [7] [Pub (w_uri 4) (14, 14)], w_orc 0 0) ].
Definition w_sz : N -> N := fun _ => 1.
Definition w_state : rrdp :=
  match rrun Checked w_sz (rinit w_base 8 0) w_ops with Some r => r | None => rinit w_base 8 0 end.

Lemma w_good : good_rops w_ops.
Proof.
  unfold good_rops, w_ops.
  repeat (apply Forall_cons;
          [simpl; try exact I; try (split; [apply NoDupK_b_spec|apply CohL_b_spec]; vm_compute; reflexivity)|]).
  apply Forall_nil.
Qed.
Lemma w_state_run : rrun Checked w_sz (rinit w_base 8 0) w_ops = Some w_state.
Proof. vm_compute. reflexivity. Qed.
Lemma w_state_inv : RInv w_state.
Proof. eapply rinv_run; [apply rinv_init|apply w_good|apply w_state_run]. Qed.

(** Hypotheses of [retention_within_max] / [truncate_age_exact] met: three old deltas, min_nr 1 below
    max_nr 3, min_seconds 0; the update retains exactly three deltas. *)
Example retention_within_max_nonvacuous :
  let orc := mkOracle 4000000 4 9 (mkCfg 1 0 3 7200 false) in
  exists r', rstep Checked w_sz w_state OUpdate orc = Some r' /\ staged_nonempty (r_st w_state) = true
    /\ c_min_nr (or_cfg orc) < c_max_nr (or_cfg orc)
    /\ forallb (fun x => negb (younger_than (or_now orc) (c_min_secs (or_cfg orc)) x)) (r_deltas w_state) = true
    /\ N.of_nat (length (r_deltas w_state)) = 3 /\ N.of_nat (length (r_deltas r')) = 3.
Proof. eexists. repeat split; vm_compute; reflexivity. Qed.
Example truncate_age_exact_nonvacuous :
  find_deltas_truncate_age Checked (mkCfg 1 0 3 7200 false) 100000000%Z
    [w_young 99000000 5; w_young 98000000 4; w_young 97000000 3; w_young 96000000 2] = Some 2.
Proof. vm_compute. reflexivity. Qed.

Theorem retention_unconditional_refuted : ~ retention_unconditional.
Proof.
  intros H.
  destruct (rstep Checked w_sz w_state OUpdate (w_orc 4000000 4)) as [r'|] eqn:E; [|vm_compute in E; discriminate].
  specialize (H Checked w_sz w_state OUpdate (w_orc 4000000 4) r' w_state_inv E eq_refl).
  vm_compute in E. inv E. destruct H as [H|H]; [vm_compute in H; apply H; reflexivity|discriminate].
Qed.


(** ** The count test before commit 5d8ba60d ([CountEq]): regression examples

    What the loop guaranteed then, and the witnesses of findings F11a (defect part) and F11b. *)
Lemma age_loop_le_pinned a c now ds : forall keep k, age_loop_v CountEq a c now ds keep = Some k -> keep <= k <= keep + N.of_nat (length ds).
Proof.
  induction ds as [|d ds IH]; intros keep k H; simpl in H.
  - inv H. simpl. lia.
  - simpl length. destruct (_ || _).
    + apply IH in H. lia.
    + destruct (usize_pred a (c_max_nr c)) as [m|]; [|discriminate].
      destruct (_ || _); [inv H; lia|apply IH in H; lia].
Qed.

(** If the delta at index [max_nr - 1] is not protected, the count test fires there at the
    latest. *)
Lemma age_loop_bound_pinned a c now ds : forall keep k,
  1 <= c_max_nr c -> keep <= c_max_nr c - 1 ->
  age_loop_v CountEq a c now ds keep = Some k ->
  (forall x, nth_error ds (N.to_nat (c_max_nr c - 1 - keep)) = Some x -> protected c now (c_max_nr c - 1) x = false) ->
  k <= c_max_nr c - 1.
Proof.
  induction ds as [|d ds IH]; intros keep k H1 Hk H Hp; simpl in H; [inv H; assumption|].
  rewrite (usize_pred_pos a _ H1) in H.
  destruct (N.eq_dec keep (c_max_nr c - 1)) as [E|E].
  - assert (P : protected c now (c_max_nr c - 1) d = false).
    { apply Hp. rewrite E, N.sub_diag. reflexivity. }
    unfold protected in P. rewrite <- E in P. rewrite P in H. rewrite E, N.eqb_refl in H. simpl in H. inv H. lia.
  - assert (Hn : forall x, nth_error ds (N.to_nat (c_max_nr c - 1 - (keep + 1))) = Some x -> protected c now (c_max_nr c - 1) x = false).
    { intros x Hx. apply Hp. replace (N.to_nat (c_max_nr c - 1 - keep)) with (S (N.to_nat (c_max_nr c - 1 - (keep + 1)))) by lia. exact Hx. }
    destruct (_ || _).
    + apply (IH (keep + 1)); auto; lia.
    + destruct (_ || _); [inv H; assumption|apply (IH (keep + 1)); auto; lia].
Qed.

(** The strongest bound by number: more than [max_nr - 1] old deltas survive only if the delta at
    index [max_nr - 1] is protected (then the test [keep == max_nr - 1] is passed over and never
    fires again). *)
Theorem pinned_retention_bound_strong a c now ds k :
  1 <= c_max_nr c -> find_deltas_truncate_age_v CountEq a c now ds = Some k ->
  (forall x, nth_error ds (N.to_nat (c_max_nr c - 1)) = Some x -> protected c now (c_max_nr c - 1) x = false) ->
  k <= c_max_nr c - 1.
Proof.
  intros H1 H Hp. apply (age_loop_bound_pinned a c now ds 0 k H1); [lia|exact H|].
  rewrite N.sub_0_r. exact Hp.
Qed.

(** [pinned_retention_bound] in the form of DESIGN Appendix A.4: if no delta at an index >= max_nr - 1
    is protected, at most max_nr - 1 old deltas are kept (so at most max_nr with the new one). *)
Theorem pinned_retention_bound a c now ds k :
  1 <= c_max_nr c -> find_deltas_truncate_age_v CountEq a c now ds = Some k ->
  (forall i x, nth_error ds i = Some x -> c_max_nr c - 1 <= N.of_nat i -> protected c now (N.of_nat i) x = false) ->
  k <= c_max_nr c - 1.
Proof.
  intros H1 H Hp. apply (pinned_retention_bound_strong a c now ds k H1 H).
  intros x Hx. specialize (Hp _ _ Hx). rewrite N2Nat.id in Hp. apply Hp. lia.
Qed.

(** Every old delta that is kept is protected, or neither too old nor at the count limit. *)
Lemma age_loop_kept_pinned a c now ds : forall keep k m,
  usize_pred a (c_max_nr c) = Some m \/ (forall i x, nth_error ds i = Some x -> protected c now (keep + N.of_nat i) x = true) ->
  age_loop_v CountEq a c now ds keep = Some k ->
  forall i x, nth_error ds i = Some x -> keep + N.of_nat i < k ->
    protected c now (keep + N.of_nat i) x = true
    \/ (older_than now (c_max_secs c) x = false /\ usize_pred a (c_max_nr c) <> Some (keep + N.of_nat i)).
Proof.
  induction ds as [|d ds IH]; intros keep k m Hm H i x Hn Hi; [destruct i; discriminate|].
  simpl in H. destruct i as [|i]; simpl in Hn.
  - inv Hn. rewrite N.add_0_r in *. unfold protected. destruct (_ || _) eqn:P; [left; reflexivity|right].
    destruct (usize_pred a (c_max_nr c)) as [m'|]; [|discriminate].
    destruct ((keep =? m') || older_than now (c_max_secs c) x) eqn:B; [inv H; lia|].
    apply orb_false_iff in B. destruct B as [B1 B2]. apply N.eqb_neq in B1. split; [exact B2|congruence].
  - replace (keep + N.of_nat (S i)) with (keep + 1 + N.of_nat i) in * by lia.
    assert (Hm' : usize_pred a (c_max_nr c) = Some m \/ (forall j y, nth_error ds j = Some y -> protected c now (keep + 1 + N.of_nat j) y = true)).
    { destruct Hm as [Hm|Hm]; [left; exact Hm|right]. intros j y Hy. specialize (Hm (S j) y Hy).
      replace (keep + N.of_nat (S j)) with (keep + 1 + N.of_nat j) in Hm by lia. exact Hm. }
    destruct (_ || _).
    + eapply IH; eassumption.
    + destruct (usize_pred a (c_max_nr c)); [|discriminate].
      destruct (_ || _); [inv H; lia|eapply IH; eassumption].
Qed.

Theorem pinned_kept_not_old a c now ds k i x :
  find_deltas_truncate_age_v CountEq a c now ds = Some k -> nth_error ds i = Some x -> N.of_nat i < k ->
  protected c now (N.of_nat i) x = true \/ older_than now (c_max_secs c) x = false.
Proof.
  intros H Hn Hi. unfold find_deltas_truncate_age_v in H.
  destruct (usize_pred a (c_max_nr c)) as [m|] eqn:Em.
  - destruct (age_loop_kept_pinned a c now ds 0 k m (or_introl Em) H i x Hn) as [P|[O _]]; [lia|left; exact P|right; exact O].
  - (* the subtraction would have panicked: the loop only passed protected deltas *)
    assert (G : forall ds keep k, age_loop_v CountEq a c now ds keep = Some k -> forall j y, nth_error ds j = Some y -> keep + N.of_nat j < k -> protected c now (keep + N.of_nat j) y = true).
    { clear - Em. induction ds as [|d ds IH]; intros keep k H j y Hy Hj; [destruct j; discriminate|].
      simpl in H. rewrite Em in H. destruct ((keep <? c_min_nr c) || younger_than now (c_min_secs c) d) eqn:P; [|discriminate].
      destruct j as [|j]; simpl in Hy.
      - inv Hy. rewrite N.add_0_r. exact P.
      - replace (keep + N.of_nat (S j)) with (keep + 1 + N.of_nat j) in * by lia. eapply IH; eassumption. }
    left. apply (G ds 0 k H i x Hn). lia.
Qed.

(** Where the loop stops: at the end of the list, or at the first delta that is not protected
    and is at the count limit or too old. *)
Theorem pinned_truncate_age_stop a c now ds k :
  find_deltas_truncate_age_v CountEq a c now ds = Some k ->
  k = N.of_nat (length ds) \/
  exists x m, nth_error ds (N.to_nat k) = Some x /\ protected c now k x = false
              /\ usize_pred a (c_max_nr c) = Some m /\ (k = m \/ older_than now (c_max_secs c) x = true).
Proof.
  unfold find_deltas_truncate_age_v.
  assert (G : forall ds keep k, age_loop_v CountEq a c now ds keep = Some k ->
    k = keep + N.of_nat (length ds) \/
    exists x m, nth_error ds (N.to_nat (k - keep)) = Some x /\ protected c now k x = false
                /\ usize_pred a (c_max_nr c) = Some m /\ (k = m \/ older_than now (c_max_secs c) x = true)).
  { clear. induction ds as [|d ds IH]; intros keep k H; simpl in H; [inv H; left; simpl; lia|].
    simpl length. destruct ((keep <? c_min_nr c) || younger_than now (c_min_secs c) d) eqn:P.
    - pose proof (age_loop_le_pinned _ _ _ _ _ _ H) as Hl.
      destruct (IH _ _ H) as [E|[x [m [Hx R]]]]; [left; lia|right].
      exists x, m. split; [|exact R]. replace (N.to_nat (k - keep)) with (S (N.to_nat (k - (keep + 1)))) by lia. exact Hx.
    - destruct (usize_pred a (c_max_nr c)) as [m|] eqn:Em; [|discriminate].
      destruct ((keep =? m) || older_than now (c_max_secs c) d) eqn:B.
      + inv H. right. exists d, m. rewrite N.sub_diag. split; [reflexivity|]. split; [exact P|]. split; [reflexivity|].
        apply orb_true_iff in B. destruct B as [B|B]; [left; apply N.eqb_eq; exact B|right; exact B].
      + pose proof (age_loop_le_pinned _ _ _ _ _ _ H) as Hl.
        destruct (IH _ _ H) as [E|[x [m' [Hx R]]]]; [left; lia|right].
        exists x, m'. split; [|exact R]. replace (N.to_nat (k - keep)) with (S (N.to_nat (k - (keep + 1)))) by lia. exact Hx. }
  intros H. destruct (G ds 0 k H) as [E|[x [m [Hx R]]]]; [left; lia|right].
  exists x, m. rewrite N.sub_0_r in Hx. auto.
Qed.

(** *** F11a *)
(** max_nr = 2, min_seconds = 1 h, three deltas made within the last seconds: all three are kept
    (four with the new one). *)
Example pinned_retention_young :
  find_deltas_truncate_age_v CountEq Checked (mkCfg 0 3600 2 7200 false) 100000000%Z
    [w_young 99000000 4; w_young 98000000 3; w_young 97000000 2] = Some 3.
Proof. vm_compute. reflexivity. Qed.
(** min_nr = 5 >= max_nr = 2, even with every delta older than max_seconds = 0: five are kept. *)
Example pinned_retention_min_ge_max :
  find_deltas_truncate_age_v CountEq Checked (mkCfg 5 0 2 0 false) 100000000%Z
    [w_young 5 7; w_young 4 6; w_young 3 5; w_young 2 4; w_young 1 3; w_young 0 2] = Some 5.
Proof. vm_compute. reflexivity. Qed.
(** min_nr = max_nr = 1: index 0 is protected, so the count test (keep == 0) is passed over and
    nothing is ever cut by number. *)
Example pinned_keeps_unprotected_example :
  find_deltas_truncate_age_v CountEq Checked (mkCfg 1 0 1 7200 false) 100000000%Z
    [w_young 99000000 5; w_young 98000000 4; w_young 97000000 3; w_young 96000000 2] = Some 4.
Proof. vm_compute. reflexivity. Qed.

(** The defect part of F11a (fixed by 5d8ba60d): the old count test kept deltas beyond the
    maximum that no configured minimum protected. min_nr = max_nr = 1: index 0 is protected, so
    [keep == 0] is passed over and never fires again; the deltas at indices 1, 2, 3 are kept. *)
Theorem pinned_keeps_unprotected_beyond_max : ~ retention_explained (find_deltas_truncate_age_v CountEq Checked).
Proof.
  intros H.
  specialize (H (mkCfg 1 0 1 7200 false) 100000000%Z
                [w_young 99000000 5; w_young 98000000 4; w_young 97000000 3; w_young 96000000 2] 4 1%nat (w_young 98000000 4)).
  assert (E : true = false -> False) by discriminate. apply E. symmetry.
  rewrite <- H; [reflexivity|vm_compute; reflexivity|reflexivity|reflexivity|discriminate].
Qed.

(** *** F11b: max_nr = 0 *)
(** With overflow checks the subtraction panics as soon as a delta is not protected ... *)
Theorem max_nr_zero_panics c now d ds :
  c_max_nr c = 0 -> protected c now 0 d = false -> find_deltas_truncate_age_v CountEq Checked c now (d :: ds) = None.
Proof.
  intros H0 P. unfold find_deltas_truncate_age_v. simpl. unfold protected in P. rewrite P. rewrite H0. reflexivity.
Qed.
(** ... and without them (release profile) [max_nr - 1] is 2^64 - 1: the count test never fires,
    any number of deltas that are not too old is kept. *)
Theorem max_nr_zero_wraps c now ds :
  c_max_nr c = 0 -> N.of_nat (length ds) < usize_max ->
  (forall d, In d ds -> older_than now (c_max_secs c) d = false) ->
  find_deltas_truncate_age_v CountEq Wrapping c now ds = Some (N.of_nat (length ds)).
Proof.
  intros H0 Hl Ho. unfold find_deltas_truncate_age_v.
  assert (G : forall ds keep, keep + N.of_nat (length ds) < usize_max ->
             (forall d, In d ds -> older_than now (c_max_secs c) d = false) ->
             age_loop_v CountEq Wrapping c now ds keep = Some (keep + N.of_nat (length ds))).
  { clear - H0. induction ds as [|d ds IH]; intros keep Hl Ho; [simpl; f_equal; lia|].
    cbn [age_loop_v]. rewrite H0. change (usize_pred Wrapping 0) with (Some usize_max).
    rewrite (Ho d) by (simpl; auto). rewrite orb_false_r.
    assert (E : (keep =? usize_max) = false) by (apply N.eqb_neq; simpl length in Hl; lia).
    rewrite E.
    assert (R : age_loop_v CountEq Wrapping c now ds (keep + 1) = Some (keep + N.of_nat (length (d :: ds)))).
    { rewrite IH; [f_equal; simpl length; lia|simpl length in Hl; lia|intros x Hx; apply Ho; simpl; auto]. }
    destruct (_ || _); exact R. }
  rewrite G; [reflexivity|simpl; lia|exact Ho].
Qed.
Example max_nr_zero_refuted :
  find_deltas_truncate_age_v CountEq Wrapping (mkCfg 0 0 0 7200 false) 100000000%Z
    [w_young 99000000 4; w_young 98000000 3; w_young 97000000 2] = Some 3
  /\ find_deltas_truncate_age_v CountEq Checked (mkCfg 0 0 0 7200 false) 100000000%Z
    [w_young 99000000 4; w_young 98000000 3; w_young 97000000 2] = None.
Proof. split; vm_compute; reflexivity. Qed.

(** The loop never cuts into the leading run of protected deltas ("always keep min_nr files,
    always keep files younger than min_seconds"). *)
Lemma age_loop_protected_pinned a c now ds : forall keep k j,
  age_loop_v CountEq a c now ds keep = Some k -> (j <= length ds)%nat ->
  (forall i x, (i < j)%nat -> nth_error ds i = Some x -> protected c now (keep + N.of_nat i) x = true) ->
  keep + N.of_nat j <= k.
Proof.
  induction ds as [|d ds IH]; intros keep k j H Hj Hp.
  - simpl in Hj. assert (j = 0%nat) by lia. subst j. simpl in H. inv H. simpl. lia.
  - destruct j as [|j]; [apply age_loop_le_pinned in H; simpl; lia|].
    simpl in H. assert (P : protected c now keep d = true).
    { specialize (Hp 0%nat d (Nat.lt_0_succ _) eq_refl). rewrite N.add_0_r in Hp. exact Hp. }
    unfold protected in P. rewrite P in H.
    assert (G : keep + 1 + N.of_nat j <= k).
    { apply (IH (keep + 1) k j H); [simpl in Hj; lia|].
      intros i x Hi Hx. specialize (Hp (S i) x (proj1 (Nat.succ_lt_mono _ _) Hi) Hx).
      replace (keep + N.of_nat (S i)) with (keep + 1 + N.of_nat i) in Hp by lia. exact Hp. }
    lia.
Qed.

Theorem pinned_protected_prefix_kept a c now ds k j :
  find_deltas_truncate_age_v CountEq a c now ds = Some k -> (j <= length ds)%nat ->
  (forall i x, (i < j)%nat -> nth_error ds i = Some x -> protected c now (N.of_nat i) x = true) ->
  N.of_nat j <= k.
Proof.
  intros H Hj Hp. pose proof (age_loop_protected_pinned a c now ds 0 k j H Hj) as G. simpl in G. apply G.
  intros i x Hi Hx. simpl. apply Hp; assumption.
Qed.

(** ** Non-vacuity *)
Lemma in_firstn_l {A : Type} (x : A) n : forall l, In x (firstn n l) -> In x l.
Proof.
  induction n as [|n IH]; intros l H; [destruct H|]. destruct l as [|a l]; [destruct H|].
  simpl in H. destruct H as [H|H]; [left; exact H|right; apply IH; exact H].
Qed.
Lemma single_owner_disjoint st h :
  (forall q, q <> h -> snap_of st q = [] /\ staged_of st q = []) -> PubDisjoint st.
Proof.
  intros H p q k Hpq Hp Hq.
  destruct (handle_eq_dec p h) as [->|Hp'].
  - destruct (H q (fun E => Hpq (eq_sym E))) as [E1 E2]. destruct Hq as [Hq|Hq]; apply Hq; [rewrite E1|rewrite E2]; reflexivity.
  - destruct (H p Hp') as [E1 E2]. destruct Hp as [Hp|Hp]; apply Hp; [rewrite E1|rewrite E2]; reflexivity.
Qed.
Lemma w_only_7 (snap : list (handle * objects)) (stg : list (handle * staged)) base pubs serial :
  (forall x, In x (map fst snap) -> x = [7]) -> (forall x, In x (map fst stg) -> x = [7]) ->
  PubDisjoint (mkState base pubs snap stg serial).
Proof.
  intros H1 H2. apply (single_owner_disjoint _ [7]). intros q Hq. unfold snap_of, staged_of. simpl. split.
  - rewrite h_get_none_notin; [reflexivity|]. intros Hin. apply Hq. apply H1. exact Hin.
  - rewrite h_get_none_notin; [reflexivity|]. intros Hin. apply Hq. apply H2. exact Hin.
Qed.

(** The state after the first update of the witness history, and two more requests. *)
Definition w_ops1 : list rop := firstn 3 w_ops.
Definition w_ops2 : list rop := firstn 2 (skipn 3 w_ops).
Definition w_r1 : rrdp := match rrun Checked w_sz (rinit w_base 8 0) w_ops1 with Some r => r | None => rinit w_base 8 0 end.
Definition w_r2 : rrdp := match rrun Checked w_sz w_r1 w_ops2 with Some r => r | None => w_r1 end.

Example delta_chain_sound_nonvacuous :
  RInv w_r1 /\ good_rops w_ops2 /\ no_reset w_ops2 /\ disjoint_run Checked w_sz w_r1 w_ops2
  /\ rrun Checked w_sz w_r1 w_ops2 = Some w_r2
  /\ covers w_r2 (r_serial w_r1) /\ r_serial w_r1 = 2 /\ r_serial w_r2 = 3
  /\ snd (client_update (offer_of w_r2) (mkClient (r_session w_r1) (r_serial w_r1) (r_snapshot w_r1))) = ViaDeltas.
Proof.
  assert (G : good_rops w_ops) by apply w_good.
  split. { apply (rinv_run Checked w_sz w_ops1 (rinit w_base 8 0) w_r1 (rinv_init _ _ _)); [|vm_compute; reflexivity].
           unfold w_ops1, good_rops. apply Forall_forall. intros x Hx.
           apply in_firstn_l in Hx. unfold good_rops in G. rewrite Forall_forall in G. apply G. exact Hx. }
  split. { unfold w_ops2, good_rops. apply Forall_forall. intros x Hx. apply in_firstn_l in Hx.
           unfold good_rops in G. rewrite Forall_forall in G. apply G. unfold w_ops. simpl in Hx. simpl. tauto. }
  split. { unfold w_ops2, w_ops. simpl. repeat constructor. }
  split. { vm_compute rrun. simpl. repeat split; apply w_only_7; simpl; intros x Hx; intuition congruence. }
  repeat split; vm_compute; try reflexivity. discriminate.
Qed.

Example snapshot_is_state_nonvacuous :
  RInv w_state /\ staged_nonempty (r_st w_state) = true
  /\ exists r', rstep Checked w_sz w_state OUpdate (w_orc 4000000 4) = Some r'.
Proof. split; [apply w_state_inv|]. split; [vm_compute; reflexivity|]. eexists. vm_compute. reflexivity. Qed.

