(** * pubd/StagedProofs.v - the staged merge is sequential composition of deltas

    Main results:
      - [merge_find]: what [merge_new_elements] leaves under each key;
      - [staged_refines]: applying the merged staged set to the published snapshot equals
        applying the old staged set and then the new delta, and the merged set is again
        applicable to the published snapshot by an RRDP client ([StagedInv] is preserved);
      - [conflict_arms_unreachable]: the four arms that log a "merge conflict" cannot be taken
        for a delta that was verified against current+staged. *)
From KV Require Import base.Tac pubd.Objects pubd.ObjectsProofs pubd.Staged.
Open Scope N_scope.

Local Notation efind := (kfind uri_eqb ekey).

Lemma s_find_efind u st : s_find u st = efind (fold u) st.
Proof. reflexivity. Qed.

Lemma efind_some k st e : efind k st = Some e -> ekey e = k /\ In e st.
Proof. apply (kfind_some uri_eqb ekey uri_eqb_spec). Qed.

Lemma efind_put_same e st : efind (ekey e) (s_put e st) = Some e.
Proof. apply (kfind_kput_same uri_eqb ekey uri_eqb_spec). Qed.

Lemma efind_put_other k e st : k <> ekey e -> efind k (s_put e st) = efind k st.
Proof. apply (kfind_kput_other uri_eqb ekey uri_eqb_spec). Qed.

Lemma uri_eqb_false a b : a <> b -> uri_eqb a b = false.
Proof. apply (keqb_neq uri_eqb uri_eqb_spec). Qed.

Lemma uri_eqb_refl a : uri_eqb a a = true.
Proof. apply uri_eqb_spec. reflexivity. Qed.

(** The element stored by an arm has the key of the incoming element. *)
Lemma merge_elem_key s e r :
  (forall x, s = Some x -> ekey x = ekey e) -> merge_elem s e = Some r -> ekey r = ekey e.
Proof.
  intros Hs H. destruct e as [u ob|u h ob|u h], s as [[u' ob'|u' h' ob'|u' h']|]; simpl in H; inv H;
    try reflexivity; apply (Hs _ eq_refl).
Qed.

(** The URI of the stored element is the incoming one or the staged one. *)
Lemma merge_elem_uri s e r : merge_elem s e = Some r ->
  e_uri r = e_uri e \/ exists x, s = Some x /\ e_uri r = e_uri x.
Proof.
  intros H. destruct e as [u ob|u h ob|u h], s as [[u' ob'|u' h' ob'|u' h']|]; simpl in H; inv H; simpl; eauto.
Qed.

(** [merge1] is an insert of [merge_elem], a removal, or (withdraw on withdraw) nothing. *)
Lemma merge1_cases st e :
  merge1 st e = match merge_elem (s_find (e_uri e) st) e with
                | Some r => s_put r st
                | None => s_del (e_uri e) st
                end
  \/ (merge1 st e = st /\ exists u h u' h', e = Wdr u h /\ s_find (e_uri e) st = Some (Wdr u' h')).
Proof.
  destruct e as [u ob|u h ob|u h]; simpl; destruct (s_find u st) as [[u' ob'|u' h' ob'|u' h']|]; auto.
  right. split; [reflexivity|]. do 4 eexists. split; reflexivity.
Qed.

(** One step of the merge, seen from key [k]. *)
Lemma merge1_find st e k :
  efind k (merge1 st e) = if uri_eqb (ekey e) k then merge_elem (efind (ekey e) st) e else efind k st.
Proof.
  assert (Hs : forall x, efind (ekey e) st = Some x -> ekey x = ekey e).
  { intros x Hx. apply efind_some in Hx. tauto. }
  destruct (merge1_cases st e) as [H|[H [u [h [u' [h' [-> Hf]]]]]]]; rewrite H.
  - rewrite s_find_efind. change (fold (e_uri e)) with (ekey e).
    destruct (merge_elem (efind (ekey e) st) e) as [r|] eqn:Em.
    + pose proof (merge_elem_key _ _ _ Hs Em) as Hk.
      destruct (uri_eqb (ekey e) k) eqn:Ek.
      * apply uri_eqb_spec in Ek. subst k. rewrite <- Hk. apply efind_put_same.
      * apply efind_put_other. rewrite Hk. intros ->. rewrite uri_eqb_refl in Ek. discriminate.
    + unfold s_del. change (fold (e_uri e)) with (ekey e).
      destruct (uri_eqb (ekey e) k) eqn:Ek.
      * apply uri_eqb_spec in Ek. subst k. apply (kfind_kdel_same uri_eqb ekey uri_eqb_spec).
      * apply (kfind_kdel_other uri_eqb ekey uri_eqb_spec). intros ->. rewrite uri_eqb_refl in Ek. discriminate.
  - rewrite s_find_efind in Hf. change (fold (e_uri (Wdr u h))) with (ekey (Wdr u h)) in Hf.
    destruct (uri_eqb (ekey (Wdr u h)) k) eqn:Ek; [|reflexivity].
    apply uri_eqb_spec in Ek. subst k. rewrite Hf. reflexivity.
Qed.

Lemma merge1_nodupk st e : NoDupK st -> NoDupK (merge1 st e).
Proof.
  intros Hn. destruct (merge1_cases st e) as [H|[H _]]; rewrite H; [|assumption].
  destruct (merge_elem (s_find (e_uri e) st) e).
  - apply (nodup_kput uri_eqb ekey uri_eqb_spec). assumption.
  - apply (nodup_kdel uri_eqb ekey uri_eqb_spec). assumption.
Qed.

Lemma merge1_uris st e x : In x (merge1 st e) -> In x st \/ e_uri x = e_uri e \/ exists y, In y st /\ e_uri x = e_uri y.
Proof.
  intros Hin. destruct (merge1_cases st e) as [H|[H _]]; rewrite H in Hin; [|auto].
  destruct (merge_elem (s_find (e_uri e) st) e) as [r|] eqn:Em.
  - apply (in_kput uri_eqb ekey uri_eqb_spec) in Hin. destruct Hin as [->|[Hin _]]; [|auto].
    apply merge_elem_uri in Em. destruct Em as [Em|[y [Hy Em]]]; [auto|].
    rewrite s_find_efind in Hy. apply efind_some in Hy. right. right. exists y. tauto.
  - apply (in_kdel uri_eqb ekey uri_eqb_spec) in Hin. tauto.
Qed.

Lemma merge1_cohl st e : CohL st -> coherent (e_uri e) = true -> CohL (merge1 st e).
Proof.
  intros Hc He x Hx. apply merge1_uris in Hx. destruct Hx as [Hx|[Hx|[y [Hy Hx]]]].
  - auto.
  - rewrite Hx. assumption.
  - rewrite Hx. auto.
Qed.

(** The whole merge, seen from key [k]: the single element of the delta with that key (if any)
    is combined with the staged entry by the table [merge_elem]. *)
Definition mres (s n : option elem) : option elem :=
  match n with Some e => merge_elem s e | None => s end.

Lemma efind_cons k a l : efind k (a :: l) = if uri_eqb (ekey a) k then Some a else efind k l.
Proof. reflexivity. Qed.

Lemma fold_merge_find l : forall st k, NoDupK l ->
  efind k (fold_left merge1 l st) = mres (efind k st) (efind k l).
Proof.
  induction l as [|a l IH]; intros st k Hn; [reflexivity|].
  unfold NoDupK in Hn. simpl in Hn. inv Hn. cbn [fold_left].
  rewrite IH by assumption. rewrite merge1_find. rewrite efind_cons.
  destruct (uri_eqb (ekey a) k) eqn:Ek.
  - apply uri_eqb_spec in Ek. subst k.
    assert (Hnone : efind (ekey a) l = None).
    { apply (kfind_none uri_eqb ekey uri_eqb_spec). intros v Hv Hk. apply H1. rewrite <- Hk. apply in_map. assumption. }
    rewrite Hnone. reflexivity.
  - reflexivity.
Qed.

Theorem merge_find st d k : NoDupK d ->
  efind k (merge_new_elements st d) = mres (efind k st) (efind k d).
Proof.
  intros Hn. unfold merge_new_elements. rewrite fold_merge_find by (apply nodupk_normalize; assumption).
  rewrite efind_normalize by assumption. reflexivity.
Qed.

Lemma fold_merge_nodupk l : forall st, NoDupK st -> NoDupK (fold_left merge1 l st).
Proof. induction l as [|a l IH]; intros st H; simpl; [assumption|]. apply IH. apply merge1_nodupk. assumption. Qed.

Theorem merge_nodupk st d : NoDupK st -> NoDupK (merge_new_elements st d).
Proof. apply fold_merge_nodupk. Qed.

Lemma fold_merge_cohl l : forall st, CohL st -> CohL l -> CohL (fold_left merge1 l st).
Proof.
  induction l as [|a l IH]; intros st Hs Hl; simpl; [assumption|].
  apply IH.
  - apply merge1_cohl; [assumption|]. apply Hl. simpl; auto.
  - intros e He. apply Hl. simpl; auto.
Qed.

Theorem merge_cohl st d : CohL st -> CohL d -> CohL (merge_new_elements st d).
Proof. intros Hs Hd. apply fold_merge_cohl; [assumption|]. apply cohl_normalize. assumption. Qed.

(** URIs never come from anywhere but the two arguments (no side condition). *)
Lemma fold_merge_uris l : forall st x, In x (fold_left merge1 l st) ->
  exists y, (In y st \/ In y l) /\ e_uri x = e_uri y.
Proof.
  induction l as [|a l IH]; intros st x Hx; simpl in Hx.
  - exists x. auto.
  - apply IH in Hx. destruct Hx as [y [[Hy|Hy] E]].
    + apply merge1_uris in Hy. destruct Hy as [Hy|[Hy|[z [Hz Hy]]]].
      * exists y. auto.
      * exists a. split; [right; left; reflexivity|congruence].
      * exists z. split; [auto|congruence].
    + exists y. split; [right; right; assumption|assumption].
Qed.

Lemma merge_uris st d x : In x (merge_new_elements st d) ->
  exists y, (In y st \/ In y d) /\ e_uri x = e_uri y.
Proof.
  intros Hx. apply fold_merge_uris in Hx. destruct Hx as [y [[Hy|Hy] E]]; exists y; split; auto.
  right. apply in_normalize. assumption.
Qed.

(** ** The per-key argument, free of lists *)
Definition okA (A : option obj) (e : elem) : Prop :=
  match e with
  | Pub _ _ => A = None
  | Upd _ h _ | Wdr _ h => exists ob, A = Some ob /\ o_hash ob = h
  end.
Definition viewk (A : option obj) (s : option elem) : option obj :=
  match s with Some e => eff e | None => A end.

Lemma ok_elem_okA o e : ok_elem o e <-> okA (o_get (canon (e_uri e)) o) e.
Proof. destruct e; simpl; reflexivity. Qed.

Lemma merge_local A s n :
  (forall e, s = Some e -> okA A e) ->
  (forall e, n = Some e -> okA (viewk A s) e) ->
  viewk A (mres s n) = viewk (viewk A s) n
  /\ (forall e, mres s n = Some e -> okA A e)
  /\ (forall e, n = Some e -> conflict_arm s e = false).
Proof.
  intros H1 H2.
  destruct s as [[u' ob'|u' h' ob'|u' h']|]; try specialize (H1 _ eq_refl);
  destruct n as [[u ob|u h ob|u h]|]; try specialize (H2 _ eq_refl);
  simpl in *;
  repeat match goal with H : exists _, _ |- _ => destruct H as [? [? ?]] end;
  try discriminate;
  (split; [try reflexivity; try congruence|split; [intros e He; inv He; simpl; eauto; try congruence|intros e He; inv He; reflexivity]]).
Qed.

(** ** Main theorem *)
Section Refines.
  Variables (snap : objects) (st : staged) (d : delta).
  Hypothesis Hst : NoDupK st.
  Hypothesis Hd : NoDupK d.
  Hypothesis Cst : CohL st.
  Hypothesis Cd : CohL d.
  Hypothesis V1 : verified snap st.                       (* staged applies to the published snapshot *)
  Hypothesis V2 : verified (apply_delta snap st) d.       (* the new delta was verified against current+staged *)

  Lemma local_hyps k :
    (forall e, efind k st = Some e -> okA (o_get k snap) e) /\
    (forall e, efind k d = Some e -> okA (viewk (o_get k snap) (efind k st)) e).
  Proof.
    split; intros e He; apply efind_some in He; destruct He as [Hk Hin].
    - pose proof (V1 e Hin) as Hok. apply ok_elem_okA in Hok.
      assert (E : canon (e_uri e) = k) by (rewrite <- Hk; apply coherent_spec; auto).
      rewrite E in Hok. assumption.
    - pose proof (V2 e Hin) as Hok. apply ok_elem_okA in Hok.
      assert (E : canon (e_uri e) = k) by (rewrite <- Hk; apply coherent_spec; auto).
      rewrite E in Hok. rewrite apply_get in Hok by assumption. exact Hok.
  Qed.

  Lemma refines_get k :
    o_get k (apply_delta snap (merge_new_elements st d)) = o_get k (apply_delta (apply_delta snap st) d).
  Proof.
    destruct (local_hyps k) as [L1 L2].
    destruct (merge_local _ _ _ L1 L2) as [E _].
    rewrite apply_get by (auto using merge_nodupk, merge_cohl).
    rewrite merge_find by assumption.
    rewrite (apply_get (apply_delta snap st)) by assumption.
    rewrite (apply_get snap st) by assumption.
    exact E.
  Qed.

  Lemma refines_verified : verified snap (merge_new_elements st d).
  Proof.
    intros e He.
    assert (Hc : coherent (e_uri e) = true) by (apply (merge_cohl st d Cst Cd); assumption).
    assert (Hf : efind (ekey e) (merge_new_elements st d) = Some e).
    { apply efind_iff; [apply merge_nodupk; assumption|auto]. }
    rewrite merge_find in Hf by assumption.
    destruct (local_hyps (ekey e)) as [L1 L2].
    destruct (merge_local _ _ _ L1 L2) as [_ [Hok _]].
    apply ok_elem_okA. apply coherent_spec in Hc. rewrite Hc. apply Hok. assumption.
  Qed.

  Lemma refines_no_conflict e : In e d -> conflict_arm (s_find (e_uri e) st) e = false.
  Proof.
    intros He. rewrite s_find_efind. change (fold (e_uri e)) with (ekey e).
    destruct (local_hyps (ekey e)) as [L1 L2].
    destruct (merge_local _ _ _ L1 L2) as [_ [_ Hc]].
    apply Hc. apply efind_iff; auto.
  Qed.
End Refines.

(** [staged_refines] (DESIGN Appendix A.1), on the executable association lists. *)
Theorem staged_refines snap st d :
  StagedInv snap st -> NoDupK d -> CohL d ->
  verified (apply_delta snap (staged_delta st)) d ->
  (forall k, o_get k (apply_delta snap (staged_delta (merge_new_elements st d)))
             = o_get k (apply_delta (apply_delta snap (staged_delta st)) d))
  /\ StagedInv snap (merge_new_elements st d).
Proof.
  intros [Hn [Hc Hv]] Hd Cd V2. unfold staged_delta in *. split.
  - intros k. apply refines_get; assumption.
  - split; [apply merge_nodupk; assumption|]. split; [apply merge_cohl; assumption|].
    apply refines_verified; assumption.
Qed.

(** None of the four arms that log "publish merge conflict" is taken. The staged entry each
    element meets during the merge is the one it meets in [st], because the elements of the
    delta have pairwise different keys ([merge1_find]). *)
Theorem conflict_arms_unreachable snap st d :
  StagedInv snap st -> NoDupK d -> CohL d ->
  verified (apply_delta snap (staged_delta st)) d ->
  forall e, In e d -> conflict_arm (s_find (e_uri e) st) e = false.
Proof.
  intros [Hn [Hc Hv]] Hd Cd V2 e He. unfold staged_delta in *.
  eapply refines_no_conflict; eassumption.
Qed.

Lemma StagedInv_b_spec snap st : StagedInv_b snap st = true <-> StagedInv snap st.
Proof.
  unfold StagedInv_b, StagedInv. rewrite !andb_true_iff, NoDupK_b_spec, CohL_b_spec, verified_b_spec. tauto.
Qed.

Lemma StagedInv_nil snap : StagedInv snap [].
Proof. split; [constructor|]. split; intros e []. Qed.
