(** * pubd/Content.v - the publication server as a state machine over requests

    Executable model (definitions only) of what [RepositoryManager] (src/server/pubd/manager.rs)
    does with [RepositoryAccess] (Access.v) and [RepositoryContent] (src/server/pubd/content.rs):
      - [view] = [objects_for_publisher] (content.rs 419-440): published objects of the
        publisher with its staged changes applied;
      - [OPublish] = [rfc8181_message(Query::Delta)] -> [publish] (manager.rs 183-214) ->
        [process_publish] (content.rs 542-561) -> [apply_rrdp_staged] (rrdp.rs 299-307);
      - [OList] = [rfc8181_message(Query::List)] -> [list] (manager.rs 176-182, 270-274);
      - [OCreate] = [create_publisher] (manager.rs 311-320): access first (fails on a duplicate),
        then content [PublisherAdded] (rrdp.rs 1099-1101);
      - [ORemove] = [remove_publisher] (manager.rs 323-333): content first
        ([process_remove_publisher], content.rs 479-496: stage a withdraw for everything in the
        view; no [PublisherRemoved] change is ever produced), then access (fails if unknown);
      - [OUpdate] = [update_rrdp_if_needed] (manager.rs 221-238) with
        [rrdp_delta_interval_min_seconds = 0]: [update_rrdp_needed] (rrdp.rs 341-370),
        [apply_rrdp_updated] (310-338), [SnapshotData::apply_delta] (1071-1094);
      - [OReset] = [rrdp_session_reset] (manager.rs 194-196, rrdp.rs 262-281).
    The RRDP delta list, session id, files on disk and the rsync tree are C11's subject
    (pubd/Rrdp*.v); here only the serial is kept. Storage and file-system errors are outside
    the model (the harness runs on memory storage and expects these calls to succeed). *)
From KV Require Import base.Tac pubd.Objects pubd.Staged pubd.Access.
Open Scope N_scope.

Record state : Type := mkState {
  st_base : jail;                            (* RepositoryAccess.rsync_base *)
  st_pubs : registry;                        (* RepositoryAccess.publishers *)
  st_snap : list (handle * objects);         (* SnapshotData.publishers_current_objects *)
  st_staged : list (handle * staged);        (* RrdpServer.staged_elements *)
  st_serial : N }.                           (* RrdpServer.serial *)

Definition init (base : jail) : state := mkState base [] [] [] 1.

Definition snap_of (st : state) (h : handle) : objects :=
  match h_get h (st_snap st) with Some o => o | None => [] end.
Definition staged_of (st : state) (h : handle) : staged :=
  match h_get h (st_staged st) with Some s => s | None => [] end.

(** [objects_for_publisher] (content.rs 419-440), the four cases as in the Rust. *)
Definition view (st : state) (h : handle) : objects :=
  match h_get h (st_snap st), h_get h (st_staged st) with
  | None, None => []
  | None, Some s => apply_delta [] (staged_delta s)
  | Some c, None => c
  | Some c, Some s => apply_delta c (staged_delta s)
  end.

(** [apply_rrdp_staged] (rrdp.rs 299-307): [entry(publisher).or_default().merge_new_elements]. *)
Definition stage (st : state) (h : handle) (d : delta) : state :=
  mkState (st_base st) (st_pubs st) (st_snap st)
    (h_set h (merge_new_elements (staged_of st h) d) (st_staged st)) (st_serial st).

(** [SnapshotData::apply_delta] (rrdp.rs 1071-1094) for one publisher. *)
Definition snap_apply (snap : list (handle * objects)) (hs : handle * staged) : list (handle * objects) :=
  let '(h, s) := hs in
  match h_get h snap with
  | Some o =>
      let o' := apply_delta o (staged_delta s) in
      match o' with [] => h_del h snap | _ => h_set h o' snap end
  | None => h_set h (apply_delta [] (staged_delta s)) snap
  end.

Inductive op : Type :=
| OCreate (h : handle)
| ORemove (h : handle)
| OPublish (h : handle) (d : delta)
| OList (h : handle)
| OUpdate
| OReset.

Inductive reply : Type :=
| RDone                         (* success / Ok(()) *)
| RErrDup                       (* Error::PublisherDuplicate *)
| RErrUnknown                   (* Error::PublisherUnknown *)
| RErrDelta (e : verr)          (* Error::Rfc8181Delta(PublicationDeltaError) *)
| RList (l : list (uri * N)).   (* list reply: URI, hash *)

Definition staged_nonempty (st : state) : bool :=
  existsb (fun hs => match snd hs with [] => false | _ => true end) (st_staged st).

Definition step (st : state) (o : op) : state * reply :=
  match o with
  | OCreate h =>
      if h_has h (st_pubs st) then (st, RErrDup)
      else (mkState (st_base st) (h_set h (jail_of (st_base st) h) (st_pubs st))
              (if h_has h (st_snap st) then st_snap st else h_set h [] (st_snap st))
              (st_staged st) (st_serial st), RDone)
  | ORemove h =>
      let v := view st h in
      let st1 := match v with [] => st | _ => stage st h (withdraw_all v) end in
      if h_has h (st_pubs st)
      then (mkState (st_base st1) (h_del h (st_pubs st1)) (st_snap st1) (st_staged st1) (st_serial st1), RDone)
      else (st1, RErrUnknown)
  | OPublish h d =>
      match h_get h (st_pubs st) with
      | None => (st, RErrUnknown)
      | Some j =>
          match d with
          | [] => (st, RDone)
          | _ => match verify_delta_applies (view st h) d j with
                 | Some e => (st, RErrDelta e)
                 | None => (stage st h d, RDone)
                 end
          end
      end
  | OList h => (st, RList (list_reply (view st h)))
  | OUpdate =>
      if staged_nonempty st
      then (mkState (st_base st) (st_pubs st) (fold_left snap_apply (st_staged st) (st_snap st)) []
              (st_serial st + 1), RDone)
      else (st, RDone)
  | OReset => (mkState (st_base st) (st_pubs st) (st_snap st) (st_staged st) 1, RDone)
  end.

Definition run (st : state) (ops : list op) : state := fold_left (fun s o => fst (step s o)) ops st.

(** States reachable from an initialised, empty server; [good_op]: every delta names each URI
    at most once (the side condition of the property) and uses coherent URI spellings only. *)
Definition reachable (base : jail) (st : state) : Prop := exists ops, st = run (init base) ops.
Definition good_op (o : op) : Prop :=
  match o with OPublish _ d => NoDupK d /\ CohL d | _ => True end.
Definition reachable_good (base : jail) (st : state) : Prop :=
  exists ops, Forall good_op ops /\ st = run (init base) ops.

(** Handles that occur anywhere in a state. *)
Definition handles_of (st : state) : list handle :=
  map fst (st_pubs st) ++ map fst (st_snap st) ++ map fst (st_staged st).

(** ** Invariants and notions used by the theorems (proved in ContentProofs.v) *)
(** Per publisher: the staged set is a delta applicable to the published objects
    ([StagedInv]), object keys are unique and of the folded form. *)
Definition WFp (st : state) (h : handle) : Prop :=
  StagedInv (snap_of st h) (staged_of st h) /\ NoDupO (snap_of st h) /\ KeysFolded (snap_of st h).
Definition HNoDup (st : state) : Prop := NoDup (map fst (st_staged st)).
Definition WF (st : state) : Prop := (forall h, WFp st h) /\ HNoDup st.

(** The registry stores the jail derived from the handle. *)
Definition RegOk (st : state) : Prop :=
  forall h j, h_get h (st_pubs st) = Some j -> j = jail_of (st_base st) h.

(** Everything a publisher has published or staged lies in the jail derived from its handle. *)
Definition JailInv (st : state) : Prop :=
  forall h, (forall k, In k (o_keys (snap_of st h)) -> in_jail (jail_of (st_base st) h) k = true)
         /\ (forall e, In e (staged_of st h) -> in_jail (jail_of (st_base st) h) (e_uri e) = true).

(** The publisher on whose behalf a request is made. *)
Definition actor (o : op) : option handle :=
  match o with
  | OCreate h | ORemove h | OPublish h _ | OList h => Some h
  | OUpdate | OReset => None
  end.

(** Full statements that the code does not satisfy (kept as definitions; refuted in
    ContentProofs.v with concrete witnesses; the theorems prove the restrictions). *)
(** F10a: no two publishers ever hold the same URI. *)
Definition isolation_full : Prop :=
  forall base st p q, reachable base st -> p <> q ->
  forall k, o_get k (view st p) <> None -> o_get k (view st q) = None.
(** F10b: removing a publisher leaves none of its objects, whatever URIs it used. *)
Definition remove_exact_full : Prop :=
  forall base st h st' r, reachable base st -> step st (ORemove h) = (st', r) -> view st' h = [].
(** F10b: an accepted delta is applied completely, whatever URI spellings it uses. *)
Definition publish_complete_full : Prop :=
  forall base st h d st', reachable base st -> NoDupK d -> step st (OPublish h d) = (st', RDone) ->
  forall k, o_get k (view st' h) = o_get k (apply_delta (view st h) d).
