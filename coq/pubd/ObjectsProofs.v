(** * pubd/ObjectsProofs.v - lemmas about keyed lists, URIs, verification and application of deltas *)
From Coq Require Import Permutation.
From KV Require Import base.Tac pubd.Objects.
Open Scope N_scope.

(** ** Keyed lists *)
Section Keyed.
  Context {K V : Type} (keqb : K -> K -> bool) (kf : V -> K).
  Context (keqb_spec : forall a b, keqb a b = true <-> a = b).

  Lemma keqb_refl k : keqb k k = true.
  Proof. apply keqb_spec; reflexivity. Qed.

  Lemma keqb_neq a b : a <> b -> keqb a b = false.
  Proof. intros H. destruct (keqb a b) eqn:E; [apply keqb_spec in E; contradiction|reflexivity]. Qed.

  Lemma kfind_some k l v : kfind keqb kf k l = Some v -> kf v = k /\ In v l.
  Proof.
    unfold kfind. intros H. apply find_some in H. destruct H as [Hin Hk].
    apply keqb_spec in Hk. auto.
  Qed.

  Lemma kfind_none k l : kfind keqb kf k l = None <-> (forall v, In v l -> kf v <> k).
  Proof.
    unfold kfind. split.
    - intros H v Hin Hk. eapply find_none in H; eauto. rewrite Hk, keqb_refl in H. discriminate.
    - intros H. induction l as [|a l IH]; simpl; [reflexivity|].
      destruct (keqb (kf a) k) eqn:E.
      + apply keqb_spec in E. exfalso. apply (H a); simpl; auto.
      + apply IH. intros v Hv. apply H. simpl; auto.
  Qed.

  Lemma in_kdel v k l : In v (kdel keqb kf k l) <-> In v l /\ kf v <> k.
  Proof.
    unfold kdel. rewrite filter_In. split; intros [H1 H2]; split; auto.
    - intros E. rewrite E, keqb_refl in H2. discriminate.
    - rewrite keqb_neq; auto.
  Qed.

  Lemma kfind_kdel_same k l : kfind keqb kf k (kdel keqb kf k l) = None.
  Proof. apply kfind_none. intros v Hv. apply in_kdel in Hv. tauto. Qed.

  Lemma kfind_kdel_other k k' l : k <> k' -> kfind keqb kf k (kdel keqb kf k' l) = kfind keqb kf k l.
  Proof.
    intros Hne. unfold kfind, kdel. induction l as [|a l IH]; simpl; [reflexivity|].
    destruct (keqb (kf a) k') eqn:E1; simpl.
    - apply keqb_spec in E1. rewrite (keqb_neq (kf a) k); [exact IH|congruence].
    - destruct (keqb (kf a) k); [reflexivity|exact IH].
  Qed.

  Lemma kfind_kput_same v l : kfind keqb kf (kf v) (kput keqb kf v l) = Some v.
  Proof. unfold kput, kfind. simpl. rewrite keqb_refl. reflexivity. Qed.

  Lemma kfind_kput_other k v l : k <> kf v -> kfind keqb kf k (kput keqb kf v l) = kfind keqb kf k l.
  Proof.
    intros Hne. unfold kput. change (kfind keqb kf k (v :: kdel keqb kf (kf v) l))
      with (if keqb (kf v) k then Some v else kfind keqb kf k (kdel keqb kf (kf v) l)).
    rewrite keqb_neq by congruence. apply kfind_kdel_other; assumption.
  Qed.

  Lemma map_kdel_incl k l x : In x (map kf (kdel keqb kf k l)) -> In x (map kf l) /\ x <> k.
  Proof.
    rewrite !in_map_iff. intros [v [E Hv]]. apply in_kdel in Hv. destruct Hv as [Hv Hk].
    subst x. split; eauto.
  Qed.

  Lemma nodup_kdel k l : NoDup (map kf l) -> NoDup (map kf (kdel keqb kf k l)).
  Proof.
    induction l as [|a l IH]; simpl; intros H; [constructor|].
    inv H. destruct (negb (keqb (kf a) k)); simpl; auto.
    constructor; auto. intros Hin. apply map_kdel_incl in Hin. tauto.
  Qed.

  Lemma nodup_kput v l : NoDup (map kf l) -> NoDup (map kf (kput keqb kf v l)).
  Proof.
    intros H. unfold kput. simpl. constructor.
    - intros Hin. apply map_kdel_incl in Hin. tauto.
    - apply nodup_kdel; assumption.
  Qed.

  Lemma kfind_in_nodup v l : NoDup (map kf l) -> In v l -> kfind keqb kf (kf v) l = Some v.
  Proof.
    induction l as [|a l IH]; simpl; intros Hnd Hin; [contradiction|].
    inv Hnd. unfold kfind. simpl. destruct Hin as [->|Hin].
    - rewrite keqb_refl. reflexivity.
    - rewrite keqb_neq.
      + apply IH; assumption.
      + intros E. apply H1. rewrite E. apply in_map. assumption.
  Qed.

  Lemma in_kput x v l : In x (kput keqb kf v l) <-> x = v \/ (In x l /\ kf x <> kf v).
  Proof.
    unfold kput. simpl. rewrite in_kdel. split.
    - intros [->|H]; auto.
    - intros [->|H]; auto.
  Qed.
End Keyed.

(** ** Equality tests *)
Lemma lN_eqb_spec a b : lN_eqb a b = true <-> a = b.
Proof.
  revert b. induction a as [|x a IH]; destruct b as [|y b]; simpl; split; try congruence; try reflexivity.
  - intros H. apply andb_true_iff in H. destruct H as [H1 H2].
    apply N.eqb_eq in H1. apply IH in H2. congruence.
  - intros H. inv H. rewrite N.eqb_refl. simpl. apply IH. reflexivity.
Qed.

Lemma uri_eqb_spec a b : uri_eqb a b = true <-> a = b.
Proof.
  unfold uri_eqb. destruct a, b; simpl. rewrite !andb_true_iff, !N.eqb_eq, lN_eqb_spec.
  split.
  - intros [[[[[? ?] ?] ?] ?] ?]. congruence.
  - intros H. inv H. tauto.
Qed.

Lemma uri_eq_dec (a b : uri) : {a = b} + {a <> b}.
Proof.
  destruct (uri_eqb a b) eqn:E.
  - left. apply uri_eqb_spec. assumption.
  - right. intros H. apply uri_eqb_spec in H. congruence.
Qed.

Lemma jail_eqb_spec a b : jail_eqb a b = true <-> a = b.
Proof.
  unfold jail_eqb. destruct a, b; simpl. rewrite !andb_true_iff, !N.eqb_eq, lN_eqb_spec.
  split.
  - intros [[? ?] ?]. congruence.
  - intros H. inv H. tauto.
Qed.

(** ** canon, fold, coherent *)
Lemma fold_idem u : fold (fold u) = fold u.
Proof. reflexivity. Qed.

Lemma canon_idem u : canon (canon u) = canon u.
Proof. unfold canon. destruct (u_authv u =? 0) eqn:E; simpl; [rewrite E|]; reflexivity. Qed.

Lemma fold_canon u : fold (canon u) = fold u.
Proof. unfold canon. destruct (u_authv u =? 0); reflexivity. Qed.

Lemma coherent_spec u : coherent u = true <-> canon u = fold u.
Proof.
  unfold coherent, canon, fold. destruct u as [s a av m mv p]; simpl.
  destruct (av =? 0) eqn:Ea; simpl.
  - apply N.eqb_eq in Ea. subst av. rewrite orb_false_r, N.eqb_eq. split.
    + intros ->. reflexivity.
    + intros H. inv H. reflexivity.
  - rewrite orb_true_r. split; reflexivity.
Qed.

Lemma canon_of_folded k : fold k = k -> canon k = k.
Proof.
  intros H. unfold canon. destruct k as [s a av m mv p]. unfold fold in H. simpl in *.
  inv H. reflexivity.
Qed.

Lemma coherent_of_folded k : fold k = k -> coherent k = true.
Proof. intros H. apply coherent_spec. rewrite canon_of_folded; auto. Qed.

Lemma ueq_spec a b : ueq a b = true <-> fold a = fold b.
Proof. apply uri_eqb_spec. Qed.

Lemma in_jail_canon j u : in_jail j (canon u) = in_jail j u.
Proof. unfold canon. destruct (u_authv u =? 0); reflexivity. Qed.

Lemma in_jail_fold j u : in_jail j (fold u) = in_jail j u.
Proof. reflexivity. Qed.

Lemma in_jail_same_fold j u v : fold u = fold v -> in_jail j u = in_jail j v.
Proof. intros H. rewrite <- (in_jail_fold j u), <- (in_jail_fold j v), H. reflexivity. Qed.

(** ** Objects as maps *)
Lemma o_get_set_same k v o : o_get k (o_set k v o) = Some v.
Proof.
  unfold o_get, o_set. change k with (fst (k, v)) at 1.
  rewrite (kfind_kput_same uri_eqb fst uri_eqb_spec). reflexivity.
Qed.

Lemma o_get_set_other k k' v o : k <> k' -> o_get k (o_set k' v o) = o_get k o.
Proof. intros H. unfold o_get, o_set. rewrite (kfind_kput_other uri_eqb fst uri_eqb_spec); auto. Qed.

Lemma o_get_del_same k o : o_get k (o_del k o) = None.
Proof. unfold o_get, o_del. rewrite (kfind_kdel_same uri_eqb fst uri_eqb_spec). reflexivity. Qed.

Lemma o_get_del_other k k' o : k <> k' -> o_get k (o_del k' o) = o_get k o.
Proof. intros H. unfold o_get, o_del. rewrite (kfind_kdel_other uri_eqb fst uri_eqb_spec); auto. Qed.

Lemma o_get_some_in k v o : o_get k o = Some v -> In (k, v) o.
Proof.
  unfold o_get. destruct (kfind uri_eqb fst k o) as [[k' v']|] eqn:E; simpl; [|discriminate].
  intros H. inv H. apply (kfind_some uri_eqb fst uri_eqb_spec) in E. destruct E as [E Hin].
  simpl in E. subst. assumption.
Qed.

Lemma o_get_none k o : o_get k o = None <-> ~ In k (o_keys o).
Proof.
  unfold o_get, o_keys. destruct (kfind uri_eqb fst k o) as [p|] eqn:E; simpl.
  - apply (kfind_some uri_eqb fst uri_eqb_spec) in E. destruct E as [E Hin]. split; [discriminate|].
    intros H. exfalso. apply H. rewrite <- E. apply in_map. assumption.
  - split; [|reflexivity]. intros _ Hin. apply in_map_iff in Hin. destruct Hin as [p [Hp Hin]].
    rewrite (kfind_none uri_eqb fst uri_eqb_spec) in E. apply (E p Hin). assumption.
Qed.

Lemma o_get_in_nodup k v o : NoDupO o -> In (k, v) o -> o_get k o = Some v.
Proof.
  intros Hnd Hin. unfold o_get. change k with (fst (k, v)).
  rewrite (kfind_in_nodup uri_eqb fst uri_eqb_spec); auto.
Qed.

Lemma o_all_none_nil o : (forall k, o_get k o = None) -> o = [].
Proof.
  destruct o as [|[k v] o]; [reflexivity|]. intros H. specialize (H k).
  unfold o_get, kfind in H. simpl in H. rewrite (proj2 (uri_eqb_spec k k) eq_refl) in H. discriminate.
Qed.

Lemma nodupo_set k v o : NoDupO o -> NoDupO (o_set k v o).
Proof. apply (nodup_kput uri_eqb fst uri_eqb_spec (k, v)). Qed.

Lemma nodupo_del k o : NoDupO o -> NoDupO (o_del k o).
Proof. apply (nodup_kdel uri_eqb fst uri_eqb_spec). Qed.

Lemma keys_set k v o x : In x (o_keys (o_set k v o)) -> x = k \/ In x (o_keys o).
Proof.
  unfold o_keys, o_set, kput. simpl. intros [H|H]; auto.
  apply (map_kdel_incl uri_eqb fst uri_eqb_spec) in H. tauto.
Qed.

Lemma keys_del k o x : In x (o_keys (o_del k o)) -> In x (o_keys o).
Proof. intros H. apply (map_kdel_incl uri_eqb fst uri_eqb_spec) in H. tauto. Qed.

(** ** normalize is a permutation *)
Lemma normalize_perm d : Permutation (normalize d) d.
Proof.
  unfold normalize. induction d as [|e d IH]; simpl; [constructor|].
  destruct e; simpl.
  - constructor. exact IH.
  - eapply perm_trans; [|apply perm_skip; exact IH].
    apply Permutation_sym, Permutation_middle.
  - eapply perm_trans; [|apply perm_skip; exact IH].
    rewrite app_assoc. eapply perm_trans; [apply Permutation_sym, Permutation_middle|].
    rewrite <- app_assoc. apply Permutation_refl.
Qed.

Lemma in_normalize e d : In e (normalize d) <-> In e d.
Proof. split; apply Permutation_in; [|apply Permutation_sym]; apply normalize_perm. Qed.

Lemma nodupk_normalize d : NoDupK d -> NoDupK (normalize d).
Proof.
  unfold NoDupK. intros H. eapply Permutation_NoDup; [|exact H].
  apply Permutation_map, Permutation_sym, normalize_perm.
Qed.

Lemma cohl_normalize d : CohL d -> CohL (normalize d).
Proof. intros H e He. apply H. apply in_normalize. assumption. Qed.

(** Lookup by key in a list without duplicate keys is determined by membership. *)
Lemma efind_iff k d e : NoDupK d -> (kfind uri_eqb ekey k d = Some e <-> In e d /\ ekey e = k).
Proof.
  intros Hnd. split.
  - intros H. apply (kfind_some uri_eqb ekey uri_eqb_spec) in H. tauto.
  - intros [Hin Hk]. subst k. apply (kfind_in_nodup uri_eqb ekey uri_eqb_spec); assumption.
Qed.

Lemma efind_normalize k d : NoDupK d -> kfind uri_eqb ekey k (normalize d) = kfind uri_eqb ekey k d.
Proof.
  intros Hnd. destruct (kfind uri_eqb ekey k d) as [e|] eqn:E.
  - apply efind_iff; [apply nodupk_normalize; assumption|].
    apply efind_iff in E; [|assumption]. rewrite in_normalize. assumption.
  - apply (kfind_none uri_eqb ekey uri_eqb_spec). intros v Hv.
    rewrite (kfind_none uri_eqb ekey uri_eqb_spec) in E. apply E. apply in_normalize. assumption.
Qed.

(** ** Verification *)
Lemma ok_elem_b_spec o e : ok_elem_b o e = true <-> ok_elem o e.
Proof.
  destruct e as [u ob|u h ob|u h]; simpl; unfold contains.
  - destruct (o_get (canon u) o); split; congruence.
  - destruct (o_get (canon u) o) as [x|]; split.
    + intros H. apply N.eqb_eq in H. eauto.
    + intros [y [E H]]. inv E. apply N.eqb_eq. reflexivity.
    + discriminate.
    + intros [y [E _]]. discriminate.
  - destruct (o_get (canon u) o) as [x|]; split.
    + intros H. apply N.eqb_eq in H. eauto.
    + intros [y [E H]]. inv E. apply N.eqb_eq. reflexivity.
    + discriminate.
    + intros [y [E _]]. discriminate.
Qed.

Lemma verified_b_spec o d : verified_b o d = true <-> verified o d.
Proof.
  unfold verified_b, verified. rewrite forallb_forall. split; intros H e He.
  - apply ok_elem_b_spec. auto.
  - apply ok_elem_b_spec. auto.
Qed.

Lemma verify1_none o j e : verify1 o j e = None <-> in_jail j (e_uri e) = true /\ ok_elem o e.
Proof.
  rewrite <- ok_elem_b_spec.
  destruct e as [u ob|u h ob|u h]; simpl;
    (destruct (in_jail j u); simpl; [|split; [discriminate|intros [? _]; discriminate]]).
  - destruct (o_get (canon u) o); split; try discriminate; auto.
    intros [_ H]. discriminate.
  - destruct (contains o h u); split; try discriminate; auto.
    intros [_ H]. discriminate.
  - destruct (contains o h u); split; try discriminate; auto.
    intros [_ H]. discriminate.
Qed.

Lemma first_error_none o j l :
  first_error o j l = None <-> (forall e, In e l -> in_jail j (e_uri e) = true /\ ok_elem o e).
Proof.
  induction l as [|a l IH]; simpl.
  - split; [intros _ e []|reflexivity].
  - destruct (verify1 o j a) eqn:E.
    + split; [discriminate|]. intros H. specialize (H a (or_introl eq_refl)).
      apply verify1_none in H. congruence.
    + rewrite IH. apply verify1_none in E. split.
      * intros H e [<-|He]; auto.
      * intros H e He. apply H. auto.
Qed.

(** The delta is accepted iff every element lies in the jail and fits the current objects. *)
Theorem verify_iff o d j :
  verify_delta_applies o d j = None <->
  (forall e, In e d -> in_jail j (e_uri e) = true /\ ok_elem o e).
Proof.
  unfold verify_delta_applies. rewrite first_error_none. split; intros H e He.
  - apply H. apply in_normalize. assumption.
  - apply H. apply in_normalize. assumption.
Qed.

(** ** Application, per key *)
Lemma apply1_get_other o e k : canon (e_uri e) <> k -> o_get k (apply1 o e) = o_get k o.
Proof.
  intros H. destruct e; simpl in *.
  - apply o_get_set_other. congruence.
  - apply o_get_set_other. congruence.
  - apply o_get_del_other. congruence.
Qed.

Lemma apply1_get_same o e : o_get (canon (e_uri e)) (apply1 o e) = eff e.
Proof.
  destruct e; simpl.
  - apply o_get_set_same.
  - apply o_get_set_same.
  - apply o_get_del_same.
Qed.

Lemma fold_apply_get l : forall o k, NoDupK l -> CohL l ->
  o_get k (fold_left apply1 l o) =
  match kfind uri_eqb ekey k l with Some e => eff e | None => o_get k o end.
Proof.
  induction l as [|a l IH]; intros o k Hnd Hc; simpl; [reflexivity|].
  assert (Hca : canon (e_uri a) = ekey a).
  { apply coherent_spec. apply Hc. simpl; auto. }
  unfold NoDupK in Hnd. simpl in Hnd. inv Hnd.
  rewrite IH; [|assumption|intros e He; apply Hc; simpl; auto].
  unfold kfind at 2. simpl. fold (kfind uri_eqb ekey k l).
  destruct (uri_eqb (ekey a) k) eqn:E.
  - apply uri_eqb_spec in E. subst k.
    assert (Hn : kfind uri_eqb ekey (ekey a) l = None).
    { apply (kfind_none uri_eqb ekey uri_eqb_spec). intros v Hv Hk. apply H1. rewrite <- Hk. apply in_map. assumption. }
    rewrite Hn. rewrite <- Hca. apply apply1_get_same.
  - destruct (kfind uri_eqb ekey k l); [reflexivity|].
    apply apply1_get_other. rewrite Hca. intros H. rewrite H in E.
    rewrite (proj2 (uri_eqb_spec k k) eq_refl) in E. discriminate.
Qed.

(** What a delta does to the object under key [k]: the single element with that key decides. *)
Theorem apply_get o d k : NoDupK d -> CohL d ->
  o_get k (apply_delta o d) =
  match kfind uri_eqb ekey k d with Some e => eff e | None => o_get k o end.
Proof.
  intros Hnd Hc. unfold apply_delta.
  rewrite fold_apply_get; [|apply nodupk_normalize; assumption|apply cohl_normalize; assumption].
  rewrite efind_normalize; auto.
Qed.

Lemma apply_delta_nil o : apply_delta o [] = o.
Proof. reflexivity. Qed.

(** Structural facts that need no side condition. *)
Lemma fold_apply_nodupo l : forall o, NoDupO o -> NoDupO (fold_left apply1 l o).
Proof.
  induction l as [|a l IH]; intros o H; simpl; [assumption|].
  apply IH. destruct a; simpl; [apply nodupo_set|apply nodupo_set|apply nodupo_del]; assumption.
Qed.

Lemma apply_nodupo o d : NoDupO o -> NoDupO (apply_delta o d).
Proof. apply fold_apply_nodupo. Qed.

Lemma fold_apply_keys l : forall o x, In x (o_keys (fold_left apply1 l o)) ->
  In x (o_keys o) \/ exists e, In e l /\ x = canon (e_uri e).
Proof.
  induction l as [|a l IH]; intros o x H; [left; exact H|].
  cbn [fold_left] in H. apply IH in H. destruct H as [H|[e [He Hx]]].
  - destruct a as [u ob|u h ob|u h]; cbn [apply1] in H.
    + apply keys_set in H. destruct H as [->|H]; [|left; exact H].
      right. exists (Pub u ob). split; [left; reflexivity|reflexivity].
    + apply keys_set in H. destruct H as [->|H]; [|left; exact H].
      right. exists (Upd u h ob). split; [left; reflexivity|reflexivity].
    + apply keys_del in H. left; exact H.
  - right. exists e. split; [right; exact He|exact Hx].
Qed.

(** Every key of the result was a key before or is the canonical URI of a delta element. *)
Lemma apply_keys o d x : In x (o_keys (apply_delta o d)) ->
  In x (o_keys o) \/ exists e, In e d /\ x = canon (e_uri e).
Proof.
  intros H. apply fold_apply_keys in H. destruct H as [H|[e [He Hx]]]; auto.
  right. exists e. split; [apply in_normalize; assumption|assumption].
Qed.

Lemma apply_keysfolded o d : KeysFolded o -> CohL d -> KeysFolded (apply_delta o d).
Proof.
  intros Hk Hc x Hx. apply apply_keys in Hx. destruct Hx as [Hx|[e [He ->]]]; [auto|].
  apply Hc in He. apply coherent_spec in He. rewrite He. reflexivity.
Qed.

(** ** withdraw_all *)
Lemma in_withdraw_all e o : In e (withdraw_all o) <-> exists k ob, In (k, ob) o /\ e = Wdr k (o_hash ob).
Proof.
  unfold withdraw_all. rewrite in_map_iff. split.
  - intros [[k ob] [E Hin]]. simpl in E. eauto.
  - intros [k [ob [Hin ->]]]. exists (k, ob). auto.
Qed.

Lemma withdraw_all_keys o : KeysFolded o -> map ekey (withdraw_all o) = o_keys o.
Proof.
  intros Hk. unfold withdraw_all, o_keys. rewrite map_map. apply map_ext_in.
  intros [k ob] Hin. unfold ekey. simpl. apply Hk. unfold o_keys. apply in_map_iff. exists (k, ob). auto.
Qed.

Lemma withdraw_all_nodupk o : KeysFolded o -> NoDupO o -> NoDupK (withdraw_all o).
Proof. intros Hk Hn. unfold NoDupK. rewrite withdraw_all_keys; assumption. Qed.

Lemma withdraw_all_cohl o : KeysFolded o -> CohL (withdraw_all o).
Proof.
  intros Hk e He. apply in_withdraw_all in He. destruct He as [k [ob [Hin ->]]]. simpl.
  apply coherent_of_folded. apply Hk. unfold o_keys. apply in_map_iff. exists (k, ob). auto.
Qed.

Lemma withdraw_all_verified o : KeysFolded o -> NoDupO o -> verified o (withdraw_all o).
Proof.
  intros Hk Hn e He. apply in_withdraw_all in He. destruct He as [k [ob [Hin ->]]]. simpl.
  exists ob. split; [|reflexivity]. rewrite canon_of_folded.
  - apply o_get_in_nodup; assumption.
  - apply Hk. unfold o_keys. apply in_map_iff. exists (k, ob). auto.
Qed.

(** Withdrawing everything leaves nothing. *)
Lemma apply_withdraw_all o : KeysFolded o -> NoDupO o -> apply_delta o (withdraw_all o) = [].
Proof.
  intros Hk Hn. apply o_all_none_nil. intros k.
  rewrite apply_get; [|apply withdraw_all_nodupk; assumption|apply withdraw_all_cohl; assumption].
  destruct (kfind uri_eqb ekey k (withdraw_all o)) as [e|] eqn:E.
  - apply (kfind_some uri_eqb ekey uri_eqb_spec) in E. destruct E as [_ Hin].
    apply in_withdraw_all in Hin. destruct Hin as [k' [ob [_ ->]]]. reflexivity.
  - apply o_get_none. intros Hin. rewrite (kfind_none uri_eqb ekey uri_eqb_spec) in E.
    unfold o_keys in Hin. apply in_map_iff in Hin. destruct Hin as [[k' ob] [Hk' Hin]]. simpl in Hk'. subst k'.
    apply (E (Wdr k (o_hash ob))).
    + apply in_withdraw_all. eauto.
    + unfold ekey. simpl. apply Hk. unfold o_keys. apply in_map_iff. exists (k, ob). auto.
Qed.

(** ** Boolean side conditions *)
Lemma nodup_b_spec l : nodup_b l = true <-> NoDup l.
Proof.
  induction l as [|x l IH]; simpl.
  - split; [constructor|reflexivity].
  - rewrite andb_true_iff, IH, negb_true_iff. split.
    + intros [H1 H2]. constructor; [|assumption]. intros Hin.
      rewrite existsb_false in H1. specialize (H1 x Hin).
      rewrite (proj2 (uri_eqb_spec x x) eq_refl) in H1. discriminate.
    + intros H. inv H. split; [|assumption]. apply existsb_false. intros y Hy.
      destruct (uri_eqb x y) eqn:E; [|reflexivity]. apply uri_eqb_spec in E. subst. contradiction.
Qed.

Lemma NoDupK_b_spec d : NoDupK_b d = true <-> NoDupK d.
Proof. apply nodup_b_spec. Qed.

Lemma CohL_b_spec d : CohL_b d = true <-> CohL d.
Proof. unfold CohL_b, CohL. rewrite forallb_forall. reflexivity. Qed.
