(** * pubd/ContentProofs.v - theorems about the publication server model (property C10) *)
From KV Require Import base.Tac pubd.Objects pubd.ObjectsProofs pubd.Staged pubd.StagedProofs
  pubd.Access pubd.Content.
Open Scope N_scope.

(** ** Handle-keyed maps *)
Lemma handle_eqb_spec a b : handle_eqb a b = true <-> a = b.
Proof. apply lN_eqb_spec. Qed.

Lemma handle_eq_dec (a b : handle) : {a = b} + {a <> b}.
Proof.
  destruct (handle_eqb a b) eqn:E.
  - left. apply handle_eqb_spec. assumption.
  - right. intros H. apply handle_eqb_spec in H. congruence.
Qed.

Section HMap.
  Context {V : Type}.
  Implicit Types (m : list (handle * V)).

  Lemma h_get_set_same h v m : h_get h (h_set h v m) = Some v.
  Proof.
    unfold h_get, h_set. change h with (fst (h, v)) at 1.
    rewrite (kfind_kput_same handle_eqb fst handle_eqb_spec). reflexivity.
  Qed.
  Lemma h_get_set_other h h' v m : h <> h' -> h_get h (h_set h' v m) = h_get h m.
  Proof. intros H. unfold h_get, h_set. rewrite (kfind_kput_other handle_eqb fst handle_eqb_spec); auto. Qed.
  Lemma h_get_del_same h m : h_get h (h_del h m) = None.
  Proof. unfold h_get, h_del. rewrite (kfind_kdel_same handle_eqb fst handle_eqb_spec). reflexivity. Qed.
  Lemma h_get_del_other h h' m : h <> h' -> h_get h (h_del h' m) = h_get h m.
  Proof. intros H. unfold h_get, h_del. rewrite (kfind_kdel_other handle_eqb fst handle_eqb_spec); auto. Qed.
  Lemma h_nodup_set h v m : NoDup (map fst m) -> NoDup (map fst (h_set h v m)).
  Proof. apply (nodup_kput handle_eqb fst handle_eqb_spec (h, v)). Qed.
  Lemma h_get_cons h h' v m : h_get h ((h', v) :: m) = if handle_eqb h' h then Some v else h_get h m.
  Proof. unfold h_get, kfind. simpl. destruct (handle_eqb h' h); reflexivity. Qed.
  Lemma h_get_none_notin h m : ~ In h (map fst m) -> h_get h m = None.
  Proof.
    intros H. unfold h_get. rewrite (proj2 (kfind_none handle_eqb fst handle_eqb_spec h m)); [reflexivity|].
    intros v Hv E. apply H. rewrite <- E. apply in_map. assumption.
  Qed.
End HMap.

(** ** Views *)
Lemma view_eq st h : view st h = apply_delta (snap_of st h) (staged_delta (staged_of st h)).
Proof.
  unfold view, snap_of, staged_of.
  destruct (h_get h (st_snap st)), (h_get h (st_staged st)); reflexivity.
Qed.

Lemma view_ext st st' h :
  h_get h (st_snap st') = h_get h (st_snap st) -> h_get h (st_staged st') = h_get h (st_staged st) ->
  view st' h = view st h.
Proof. intros H1 H2. unfold view. rewrite H1, H2. reflexivity. Qed.

(** ** The effect of each request on the components *)
Lemma stage_staged_same st h d : staged_of (stage st h d) h = merge_new_elements (staged_of st h) d.
Proof. unfold staged_of at 1. simpl. rewrite h_get_set_same. reflexivity. Qed.

Lemma stage_get_other st h d q : q <> h -> h_get q (st_staged (stage st h d)) = h_get q (st_staged st).
Proof. intros H. simpl. apply h_get_set_other. assumption. Qed.

Lemma stage_view_other st h d q : q <> h -> view (stage st h d) q = view st q.
Proof. intros H. apply view_ext; [reflexivity|apply stage_get_other; assumption]. Qed.

Lemma stage_snap st h d q : snap_of (stage st h d) q = snap_of st q.
Proof. reflexivity. Qed.

Lemma stage_staged_other st h d q : q <> h -> staged_of (stage st h d) q = staged_of st q.
Proof. intros H. unfold staged_of. rewrite stage_get_other by assumption. reflexivity. Qed.

(** [apply_rrdp_updated] per publisher. *)
Definition snapof (m : list (handle * objects)) (h : handle) : objects :=
  match h_get h m with Some o => o | None => [] end.

Lemma snap_apply_same snap h s : snapof (snap_apply snap (h, s)) h = apply_delta (snapof snap h) (staged_delta s).
Proof.
  unfold snapof, snap_apply. destruct (h_get h snap) as [o|] eqn:E.
  - destruct (apply_delta o (staged_delta s)) eqn:Ea.
    + rewrite h_get_del_same. reflexivity.
    + rewrite h_get_set_same. reflexivity.
  - rewrite h_get_set_same. reflexivity.
Qed.

Lemma snap_apply_other snap h s q : q <> h -> snapof (snap_apply snap (h, s)) q = snapof snap q.
Proof.
  intros H. unfold snapof, snap_apply. destruct (h_get h snap) as [o|] eqn:E.
  - destruct (apply_delta o (staged_delta s)).
    + rewrite h_get_del_other by assumption. reflexivity.
    + rewrite h_get_set_other by assumption. reflexivity.
  - rewrite h_get_set_other by assumption. reflexivity.
Qed.

Lemma fold_snap_apply l : forall snap h, NoDup (map fst l) ->
  snapof (fold_left snap_apply l snap) h =
  match h_get h l with Some s => apply_delta (snapof snap h) (staged_delta s) | None => snapof snap h end.
Proof.
  induction l as [|[h' s] l IH]; intros snap h Hn; [reflexivity|].
  simpl in Hn. inv Hn. cbn [fold_left]. rewrite IH by assumption. rewrite h_get_cons.
  destruct (handle_eqb h' h) eqn:E.
  - apply handle_eqb_spec in E. subst h'. rewrite h_get_none_notin by assumption. apply snap_apply_same.
  - assert (h <> h') by (intros ->; rewrite (proj2 (handle_eqb_spec h' h') eq_refl) in E; discriminate).
    destruct (h_get h l); rewrite snap_apply_other by assumption; reflexivity.
Qed.

(** ** Every request leaves the base alone *)
Lemma step_base st o : st_base (fst (step st o)) = st_base st.
Proof.
  destruct o as [h|h|h d|h| |]; simpl.
  - destruct (h_has h (st_pubs st)); reflexivity.
  - destruct (view st h); destruct (h_has h (st_pubs st)); reflexivity.
  - destruct (h_get h (st_pubs st)); [|reflexivity]. destruct d; [reflexivity|].
    destruct (verify_delta_applies _ _ _); reflexivity.
  - reflexivity.
  - destruct (staged_nonempty st); reflexivity.
  - reflexivity.
Qed.

(** ** publish_iff, publish_atomic, list_is_view *)
Theorem publish_iff st h j d :
  h_get h (st_pubs st) = Some j ->
  (snd (step st (OPublish h d)) = RDone <->
   forall e, In e d -> in_jail j (e_uri e) = true /\ ok_elem (view st h) e).
Proof.
  intros Hj. simpl. rewrite Hj. destruct d as [|e0 d'].
  - simpl. split; [intros _ e []|reflexivity].
  - rewrite <- verify_iff. destruct (verify_delta_applies (view st h) (e0 :: d') j); simpl; split; congruence.
Qed.

Theorem publish_unknown st h d : h_get h (st_pubs st) = None -> step st (OPublish h d) = (st, RErrUnknown).
Proof. intros H. simpl. rewrite H. reflexivity. Qed.

Theorem publish_atomic st h d st' r : step st (OPublish h d) = (st', r) -> r <> RDone -> st' = st.
Proof.
  simpl. destruct (h_get h (st_pubs st)); [|intros H; inv H; reflexivity].
  destruct d; [intros H; inv H; reflexivity|].
  destruct (verify_delta_applies _ _ _); intros H; inv H; [reflexivity|congruence].
Qed.

(** When accepted, the step is exactly the staging of the delta. *)
Lemma publish_done st h d st' : step st (OPublish h d) = (st', RDone) ->
  exists j, h_get h (st_pubs st) = Some j /\
    ((d = [] /\ st' = st) \/ (d <> [] /\ verify_delta_applies (view st h) d j = None /\ st' = stage st h d)).
Proof.
  simpl. destruct (h_get h (st_pubs st)) as [j|]; [|discriminate]. intros H. exists j. split; [reflexivity|].
  destruct d as [|e0 d']; [inv H; auto|].
  destruct (verify_delta_applies _ _ _) eqn:E; inv H. right. split; [discriminate|auto].
Qed.

Theorem list_is_view st h : step st (OList h) = (st, RList (list_reply (view st h))).
Proof. reflexivity. Qed.

Lemma in_list_reply o k hh : In (k, hh) (list_reply o) <-> exists c, In (k, (hh, c)) o.
Proof.
  unfold list_reply. rewrite in_map_iff. split.
  - intros [[k' [h' c]] [E Hin]]. simpl in E. inv E. eauto.
  - intros [c Hin]. exists (k, (hh, c)). auto.
Qed.

(** ** Requests of one publisher never touch another publisher's view *)
Theorem step_other_view st o p st' r q :
  actor o = Some p -> step st o = (st', r) -> q <> p -> view st' q = view st q.
Proof.
  intros Ha Hs Hq. destruct o as [h|h|h d|h| |]; simpl in Ha; inv Ha.
  - simpl in Hs. destruct (h_has p (st_pubs st)); inv Hs; [reflexivity|].
    apply view_ext; [|reflexivity]. simpl. destruct (h_has p (st_snap st)); [reflexivity|].
    apply h_get_set_other. assumption.
  - simpl in Hs. destruct (view st p) eqn:Ev.
    + destruct (h_has p (st_pubs st)); inv Hs; reflexivity.
    + destruct (h_has p (st_pubs st)); inv Hs.
      * rewrite <- (stage_view_other st p (withdraw_all (p0 :: o)) q Hq). apply view_ext; reflexivity.
      * apply stage_view_other. assumption.
  - simpl in Hs. destruct (h_get p (st_pubs st)); [|inv Hs; reflexivity].
    destruct d; [inv Hs; reflexivity|]. destruct (verify_delta_applies _ _ _); inv Hs; [reflexivity|].
    apply stage_view_other. assumption.
  - simpl in Hs. inv Hs. reflexivity.
Qed.

(** ** Invariants *)
Lemma base_run base ops : st_base (run (init base) ops) = base.
Proof.
  induction ops as [|o ops IH] using rev_ind; [reflexivity|].
  unfold run in *. rewrite fold_left_app. simpl. rewrite step_base. exact IH.
Qed.

(** *** RegOk *)
Lemma regok_step st o : RegOk st -> RegOk (fst (step st o)).
Proof.
  intros H. destruct o as [h|h|h d|h| |]; simpl.
  - destruct (h_has h (st_pubs st)) eqn:E; [exact H|]. intros h' j Hj. simpl in *.
    destruct (handle_eq_dec h' h) as [->|Hne].
    + rewrite h_get_set_same in Hj. inv Hj. reflexivity.
    + rewrite h_get_set_other in Hj by assumption. apply H. assumption.
  - assert (R1 : RegOk (match view st h with [] => st | _ => stage st h (withdraw_all (view st h)) end)).
    { destruct (view st h); exact H. }
    destruct (view st h) eqn:Ev; destruct (h_has h (st_pubs st)); simpl; try exact H.
    + intros h' j Hj. simpl in Hj. destruct (handle_eq_dec h' h) as [->|Hne].
      * rewrite h_get_del_same in Hj. discriminate.
      * rewrite h_get_del_other in Hj by assumption. apply H. assumption.
    + intros h' j Hj. simpl in Hj. destruct (handle_eq_dec h' h) as [->|Hne].
      * rewrite h_get_del_same in Hj. discriminate.
      * rewrite h_get_del_other in Hj by assumption. apply H. assumption.
  - destruct (h_get h (st_pubs st)); [|exact H]. destruct d; [exact H|].
    destruct (verify_delta_applies _ _ _); exact H.
  - exact H.
  - destruct (staged_nonempty st); exact H.
  - exact H.
Qed.

(** *** JailInv *)
Lemma view_keys_in_jail st h k : JailInv st -> In k (o_keys (view st h)) -> in_jail (jail_of (st_base st) h) k = true.
Proof.
  intros HJ Hk. rewrite view_eq in Hk. apply apply_keys in Hk. destruct (HJ h) as [H1 H2].
  destruct Hk as [Hk|[e [He ->]]]; [auto|]. rewrite in_jail_canon. apply H2. exact He.
Qed.

Lemma jailinv_stage st h d : JailInv st ->
  (forall e, In e d -> in_jail (jail_of (st_base st) h) (e_uri e) = true) -> JailInv (stage st h d).
Proof.
  intros HJ Hd q. destruct (HJ q) as [H1 H2]. split; [exact H1|].
  destruct (handle_eq_dec q h) as [->|Hne].
  - rewrite stage_staged_same. intros e He. apply merge_uris in He. destruct He as [y [[Hy|Hy] E]]; rewrite E.
    + apply H2. assumption.
    + apply Hd. assumption.
  - rewrite stage_staged_other by assumption. exact H2.
Qed.

Lemma jailinv_pubs st pubs : JailInv st ->
  JailInv (mkState (st_base st) pubs (st_snap st) (st_staged st) (st_serial st)).
Proof. intros H. exact H. Qed.

Lemma withdraw_all_in_jail st h : JailInv st ->
  forall e, In e (withdraw_all (view st h)) -> in_jail (jail_of (st_base st) h) (e_uri e) = true.
Proof.
  intros HJ e He. apply in_withdraw_all in He. destruct He as [k [ob [Hin ->]]]. simpl.
  apply view_keys_in_jail; [assumption|]. unfold o_keys. apply in_map_iff. exists (k, ob). auto.
Qed.

Lemma snap_of_snapof st h : snap_of st h = snapof (st_snap st) h.
Proof. reflexivity. Qed.

Lemma jailinv_step st o : JailInv st -> RegOk st -> HNoDup st -> JailInv (fst (step st o)).
Proof.
  intros HJ HR HN. destruct o as [h|h|h d|h| |]; simpl.
  - destruct (h_has h (st_pubs st)); [exact HJ|]. intros q. destruct (HJ q) as [H1 H2]. split; [|exact H2].
    simpl. unfold snap_of. simpl. destruct (h_has h (st_snap st)) eqn:E; [exact H1|].
    destruct (handle_eq_dec q h) as [->|Hne].
    + rewrite h_get_set_same. intros k [].
    + rewrite h_get_set_other by assumption. exact H1.
  - assert (J1 : JailInv (match view st h with [] => st | _ => stage st h (withdraw_all (view st h)) end)).
    { destruct (view st h) eqn:Ev; [exact HJ|]. rewrite <- Ev. apply jailinv_stage; [assumption|].
      apply withdraw_all_in_jail. assumption. }
    destruct (h_has h (st_pubs st)); [|exact J1]. exact J1.
  - destruct (h_get h (st_pubs st)) as [j|] eqn:Ej; [|exact HJ]. destruct d as [|e0 d']; [exact HJ|].
    destruct (verify_delta_applies (view st h) (e0 :: d') j) eqn:Ev; [exact HJ|].
    simpl. apply jailinv_stage; [assumption|]. intros e He.
    rewrite verify_iff in Ev. rewrite <- (HR h j Ej). apply Ev. assumption.
  - exact HJ.
  - destruct (staged_nonempty st); [|exact HJ]. intros q. simpl. split.
    + unfold snap_of. simpl. fold (snapof (fold_left snap_apply (st_staged st) (st_snap st)) q).
      rewrite fold_snap_apply by exact HN. destruct (HJ q) as [H1 H2]. unfold snap_of, staged_of in *.
      fold (snapof (st_snap st) q) in *. destruct (h_get q (st_staged st)) as [s|]; [|exact H1].
      intros k Hk. apply apply_keys in Hk. destruct Hk as [Hk|[e [He ->]]]; [auto|].
      rewrite in_jail_canon. apply H2. exact He.
    + unfold staged_of. simpl. intros e [].
  - exact HJ.
Qed.

(** *** HNoDup *)
Lemma hnodup_step st o : HNoDup st -> HNoDup (fst (step st o)).
Proof.
  intros H. destruct o as [h|h|h d|h| |]; simpl.
  - destruct (h_has h (st_pubs st)); exact H.
  - destruct (view st h); destruct (h_has h (st_pubs st)); simpl; try exact H;
      apply h_nodup_set; exact H.
  - destruct (h_get h (st_pubs st)); [|exact H]. destruct d; [exact H|].
    destruct (verify_delta_applies _ _ _); [exact H|]. apply h_nodup_set; exact H.
  - exact H.
  - destruct (staged_nonempty st); [constructor|exact H].
  - exact H.
Qed.

(** *** WF (needs deltas that name each URI once and use coherent spellings) *)
Lemma wfp_view st h : WFp st h -> NoDupO (view st h) /\ KeysFolded (view st h).
Proof.
  intros [[Hn [Hc Hv]] [Ho Hk]]. rewrite view_eq. split.
  - apply apply_nodupo. assumption.
  - apply apply_keysfolded; assumption.
Qed.

Lemma wfp_stage st h d : WFp st h -> NoDupK d -> CohL d -> verified (view st h) d -> WFp (stage st h d) h.
Proof.
  intros [HS [Ho Hk]] Hd Cd Hv. unfold WFp. rewrite stage_snap, stage_staged_same.
  split; [|auto]. rewrite view_eq in Hv. apply (staged_refines _ _ _ HS Hd Cd Hv).
Qed.

Lemma wfp_stage_other st h d q : q <> h -> WFp st q -> WFp (stage st h d) q.
Proof. intros Hne H. unfold WFp. rewrite stage_snap, stage_staged_other by assumption. exact H. Qed.

Lemma wf_stage st h d : WF st -> NoDupK d -> CohL d -> verified (view st h) d -> WF (stage st h d).
Proof.
  intros [Hw Hn] Hd Cd Hv. split.
  - intros q. destruct (handle_eq_dec q h) as [->|Hne].
    + apply wfp_stage; auto.
    + apply wfp_stage_other; auto.
  - apply h_nodup_set. exact Hn.
Qed.

Lemma wf_stage_withdraw_all st h : WF st -> WF (stage st h (withdraw_all (view st h))).
Proof.
  intros HW. destruct (wfp_view st h (proj1 HW h)) as [Hn Hk].
  apply wf_stage; [assumption| | |].
  - apply withdraw_all_nodupk; assumption.
  - apply withdraw_all_cohl; assumption.
  - apply withdraw_all_verified; assumption.
Qed.

Lemma wf_step st o : WF st -> good_op o -> WF (fst (step st o)).
Proof.
  intros HW Hg. destruct o as [h|h|h d|h| |]; simpl.
  - destruct (h_has h (st_pubs st)); [exact HW|]. destruct HW as [Hw Hn]. split; [|exact Hn].
    intros q. specialize (Hw q). unfold WFp, snap_of, staged_of in *. simpl.
    destruct (h_has h (st_snap st)) eqn:E; [exact Hw|].
    destruct (handle_eq_dec q h) as [->|Hne].
    + rewrite h_get_set_same. unfold h_has in E. destruct (h_get h (st_snap st)); [discriminate|]. exact Hw.
    + rewrite h_get_set_other by assumption. exact Hw.
  - assert (W1 : WF (match view st h with [] => st | _ => stage st h (withdraw_all (view st h)) end)).
    { destruct (view st h) eqn:Ev; [exact HW|]. rewrite <- Ev. apply wf_stage_withdraw_all. assumption. }
    destruct (h_has h (st_pubs st)); exact W1.
  - destruct (h_get h (st_pubs st)) as [j|]; [|exact HW]. destruct d as [|e0 d']; [exact HW|].
    destruct (verify_delta_applies (view st h) (e0 :: d') j) eqn:Ev; [exact HW|].
    simpl. destruct Hg as [Hd Cd]. apply wf_stage; auto.
    rewrite verify_iff in Ev. intros e He. apply Ev. assumption.
  - exact HW.
  - destruct (staged_nonempty st); [|exact HW]. destruct HW as [Hw Hn]. split; [|constructor].
    intros q. destruct (Hw q) as [[Sn [Sc Sv]] [Ho Hk]]. unfold WFp, snap_of, staged_of. simpl.
    fold (snapof (fold_left snap_apply (st_staged st) (st_snap st)) q).
    rewrite fold_snap_apply by exact Hn. unfold snap_of, staged_of in *. fold (snapof (st_snap st) q) in *.
    split; [apply StagedInv_nil|].
    destruct (h_get q (st_staged st)) as [s|]; [|auto]. split.
    + apply apply_nodupo. assumption.
    + apply apply_keysfolded; assumption.
  - exact HW.
Qed.

(** *** All invariants hold in every reachable state *)
Lemma wf_init base : WF (init base).
Proof.
  split; [|constructor]. intros h. unfold WFp, snap_of, staged_of. simpl.
  split; [apply StagedInv_nil|]. split; [constructor|intros k []].
Qed.

Theorem reachable_inv base st : reachable base st ->
  st_base st = base /\ RegOk st /\ JailInv st /\ HNoDup st.
Proof.
  intros [ops ->]. split; [apply base_run|].
  induction ops as [|o ops IH] using rev_ind.
  - simpl. split; [intros h j H; discriminate|]. split; [|constructor].
    intros h. split; [intros k []|intros e []].
  - unfold run in *. rewrite fold_left_app. simpl. destruct IH as [HR [HJ HN]].
    split; [apply regok_step; assumption|]. split; [apply jailinv_step; assumption|apply hnodup_step; assumption].
Qed.

Theorem reachable_good_wf base st : reachable_good base st -> WF st /\ reachable base st.
Proof.
  intros [ops [Hg ->]]. split; [|exists ops; reflexivity].
  induction ops as [|o ops IH] using rev_ind; [apply wf_init|].
  unfold run in *. rewrite fold_left_app. simpl. apply Forall_app in Hg. destruct Hg as [Hg Ho]. inv Ho.
  apply wf_step; auto.
Qed.

(** ** An accepted delta is applied completely (and nothing else changes) *)
Theorem publish_effect st h d st' :
  WF st -> NoDupK d -> CohL d -> step st (OPublish h d) = (st', RDone) ->
  (forall k, o_get k (view st' h) = o_get k (apply_delta (view st h) d))
  /\ (forall q, q <> h -> view st' q = view st q)
  /\ WF st'.
Proof.
  intros HW Hd Cd Hs.
  split; [|split; [intros q Hq; eapply step_other_view; [|exact Hs|exact Hq]; reflexivity|]].
  - apply publish_done in Hs. destruct Hs as [j [Hj [[-> ->]|[Hne [Hv ->]]]]]; [reflexivity|].
    intros k. rewrite !view_eq. rewrite stage_snap, stage_staged_same.
    destruct (proj1 HW h) as [HS _]. rewrite verify_iff in Hv.
    apply (staged_refines _ _ _ HS Hd Cd). rewrite <- view_eq. intros e He. apply Hv. assumption.
  - replace st' with (fst (step st (OPublish h d))) by (rewrite Hs; reflexivity).
    apply wf_step; [assumption|]. split; assumption.
Qed.

(** Per element: after an accepted delta the object under each named URI is the element's
    content (or gone), every other object of the publisher is as before. *)
Corollary publish_complete st h d st' :
  WF st -> NoDupK d -> CohL d -> step st (OPublish h d) = (st', RDone) ->
  (forall e, In e d -> o_get (canon (e_uri e)) (view st' h) = eff e)
  /\ (forall k, (forall e, In e d -> canon (e_uri e) <> k) -> o_get k (view st' h) = o_get k (view st h)).
Proof.
  intros HW Hd Cd Hs. destruct (publish_effect _ _ _ _ HW Hd Cd Hs) as [E _]. split.
  - intros e He. rewrite E. rewrite apply_get by assumption.
    assert (Hk : canon (e_uri e) = ekey e) by (apply coherent_spec; auto).
    rewrite Hk. rewrite (proj2 (efind_iff (ekey e) d e Hd)); auto.
  - intros k Hk. rewrite E. rewrite apply_get by assumption.
    destruct (kfind uri_eqb ekey k d) as [e|] eqn:Ef; [|reflexivity].
    apply efind_iff in Ef; [|assumption]. destruct Ef as [Hin Hke]. exfalso. apply (Hk e Hin).
    rewrite <- Hke. apply coherent_spec. auto.
Qed.

(** ** RRDP updates and session resets do not change any publisher's view *)
Theorem update_preserves_views st st' r : HNoDup st -> step st OUpdate = (st', r) -> forall h, view st' h = view st h.
Proof.
  intros HN Hs h. simpl in Hs. destruct (staged_nonempty st); inv Hs; [|reflexivity].
  rewrite !view_eq. unfold snap_of at 1, staged_of at 1. simpl.
  fold (snapof (fold_left snap_apply (st_staged st) (st_snap st)) h).
  rewrite fold_snap_apply by exact HN. unfold snap_of, staged_of. fold (snapof (st_snap st) h).
  destruct (h_get h (st_staged st)); reflexivity.
Qed.

Theorem reset_preserves_views st st' r : step st OReset = (st', r) -> forall h, view st' h = view st h.
Proof. intros Hs h. simpl in Hs. inv Hs. reflexivity. Qed.

Lemma view_ext2 st st' h :
  snap_of st' h = snap_of st h -> staged_of st' h = staged_of st h -> view st' h = view st h.
Proof. intros H1 H2. rewrite !view_eq, H1, H2. reflexivity. Qed.

Theorem create_preserves_views st h st' r : step st (OCreate h) = (st', r) -> forall q, view st' q = view st q.
Proof.
  intros Hs q. simpl in Hs. destruct (h_has h (st_pubs st)); inv Hs; [reflexivity|].
  apply view_ext2; [|reflexivity]. unfold snap_of. simpl. destruct (h_has h (st_snap st)) eqn:E; [reflexivity|].
  destruct (handle_eq_dec q h) as [->|Hne].
  - rewrite h_get_set_same. unfold h_has in E. destruct (h_get h (st_snap st)); [discriminate|reflexivity].
  - rewrite h_get_set_other by assumption. reflexivity.
Qed.

(** ** Isolation *)
Lemma strict_prefix_prefix p l : strict_prefix p l = true -> prefix_b p l = true.
Proof.
  revert l. induction p as [|x p IH]; destruct l as [|y l]; simpl; try congruence; try reflexivity.
  intros H. apply andb_true_iff in H. destruct H as [H1 H2]. rewrite H1. simpl. auto.
Qed.

Lemma prefixes_comparable p q l : prefix_b p l = true -> prefix_b q l = true ->
  prefix_b p q = true \/ prefix_b q p = true.
Proof.
  revert q l. induction p as [|x p IH]; intros q l Hp Hq; [left; reflexivity|].
  destruct q as [|y q]; [right; reflexivity|]. destruct l as [|z l]; [discriminate|].
  simpl in *. apply andb_true_iff in Hp. destruct Hp as [Hx Hp]. apply andb_true_iff in Hq. destruct Hq as [Hy Hq].
  apply N.eqb_eq in Hx. apply N.eqb_eq in Hy. subst.
  rewrite !N.eqb_refl. simpl. eauto.
Qed.

(** A URI inside two jails: the jails nest. *)
Lemma in_two_jails a b u : in_jail a u = true -> in_jail b u = true -> jails_nest a b = true.
Proof.
  unfold in_jail, jails_nest. rewrite !andb_true_iff, !N.eqb_eq. intros [[A1 A2] A3] [[B1 B2] B3].
  split; [split; congruence|]. apply orb_true_iff.
  eapply prefixes_comparable; apply strict_prefix_prefix; eassumption.
Qed.

Lemma o_get_key k o : o_get k o <> None -> In k (o_keys o).
Proof.
  intros H. destruct (in_dec uri_eq_dec k (o_keys o)) as [Hin|Hn]; [assumption|].
  apply o_get_none in Hn. contradiction.
Qed.

(** [isolation]: publishers whose jails do not nest never hold the same URI, a request of one
    leaves the other's view untouched, and the list reply of one names none of the other's
    objects. Holds in every reachable state, for arbitrary requests and URI spellings. *)
Theorem isolation base st p q :
  reachable base st -> p <> q -> jails_nest (jail_of base p) (jail_of base q) = false ->
  (forall k, o_get k (view st p) <> None -> o_get k (view st q) = None)
  /\ (forall o st' r, actor o = Some p -> step st o = (st', r) -> view st' q = view st q)
  /\ (forall k hh, In (k, hh) (list_reply (view st p)) -> o_get k (view st q) = None).
Proof.
  intros HR Hne Hj. destruct (reachable_inv _ _ HR) as [Hb [_ [HJ _]]].
  assert (D : forall k, o_get k (view st p) <> None -> o_get k (view st q) = None).
  { intros k Hk. destruct (o_get k (view st q)) eqn:E; [|reflexivity]. exfalso.
    assert (Hq : o_get k (view st q) <> None) by congruence.
    apply o_get_key in Hk. apply o_get_key in Hq.
    apply (view_keys_in_jail _ _ _ HJ) in Hk. apply (view_keys_in_jail _ _ _ HJ) in Hq.
    rewrite Hb in *. rewrite (in_two_jails _ _ _ Hk Hq) in Hj. discriminate. }
  split; [exact D|]. split.
  - intros o st' r Ha Hs. eapply step_other_view; eauto.
  - intros k hh Hin. apply D. apply in_list_reply in Hin. destruct Hin as [c Hin].
    intros Hn. apply o_get_none in Hn. apply Hn. unfold o_keys. apply in_map_iff. exists (k, (hh, c)). auto.
Qed.

(** Everything a publisher holds is inside the jail derived from its handle. *)
Theorem view_in_jail base st h k :
  reachable base st -> o_get k (view st h) <> None -> in_jail (jail_of base h) k = true.
Proof.
  intros HR Hk. destruct (reachable_inv _ _ HR) as [Hb [_ [HJ _]]]. rewrite <- Hb.
  apply view_keys_in_jail; [assumption|]. apply o_get_key. assumption.
Qed.

(** ** Removal *)
Theorem remove_exact base st h st' r :
  reachable_good base st -> step st (ORemove h) = (st', r) ->
  view st' h = []
  /\ (forall q, q <> h -> view st' q = view st q)
  /\ (h_get h (st_pubs st') = None)
  /\ (r = RDone <-> h_get h (st_pubs st) <> None).
Proof.
  intros HG Hs. destruct (reachable_good_wf _ _ HG) as [HW _].
  split; [|split; [intros q Hq; eapply step_other_view; [|exact Hs|exact Hq]; reflexivity|]].
  - assert (V : view (match view st h with [] => st | _ => stage st h (withdraw_all (view st h)) end) h = []).
    { destruct (view st h) eqn:Ev; [exact Ev|]. rewrite <- Ev.
      destruct (wfp_view st h (proj1 HW h)) as [Hn Hk].
      apply o_all_none_nil. intros k. rewrite view_eq, stage_snap, stage_staged_same.
      destruct (proj1 HW h) as [HS _].
      rewrite (proj1 (staged_refines _ _ _ HS (withdraw_all_nodupk _ Hk Hn) (withdraw_all_cohl _ Hk)
                 ltac:(rewrite <- view_eq; apply withdraw_all_verified; assumption))).
      rewrite <- view_eq. rewrite apply_withdraw_all by assumption. reflexivity. }
    simpl in Hs. destruct (h_has h (st_pubs st)); inv Hs; [|exact V].
    rewrite <- V. apply view_ext; reflexivity.
  - simpl in Hs. unfold h_has in Hs. destruct (h_get h (st_pubs st)) eqn:E; inv Hs; simpl.
    + split; [destruct (view st h); simpl; apply h_get_del_same|]. split; [congruence|reflexivity].
    + split; [destruct (view st h); simpl; exact E|]. split; [discriminate|congruence].
Qed.

(** ** Refutations of the full statements (findings F10a, F10b) *)
Definition w_base : jail := mkJail 1 1 [].
Definition w_uri (scheme : N) (path : list N) : uri := mkUri scheme 1 0 1 1 path.

(** F10a. Handles "a" = [5] and "a/b" = [5;6]: the jail of "a" contains the jail of "a/b"; both
    publish rsync://h/m/a/b/x (x = 9) and both publications are accepted. *)
Definition w_nested_ops : list op :=
  [ OCreate [5]; OCreate [5; 6];
    OPublish [5; 6] [Pub (w_uri 0 [5; 6; 9]) (101, 101)];
    OPublish [5] [Pub (w_uri 0 [5; 6; 9]) (102, 102)] ].

Theorem isolation_refuted : ~ isolation_full.
Proof.
  intros H.
  specialize (H w_base (run (init w_base) w_nested_ops) [5] [5; 6] (ex_intro _ w_nested_ops eq_refl)
                ltac:(discriminate) (w_uri 0 [5; 6; 9])).
  vm_compute in H. specialize (H ltac:(discriminate)). discriminate.
Qed.

(** The same with the trust anchor's handle "ta" = [ta_seg], whose jail is the whole base. *)
Definition w_ta_ops : list op :=
  [ OCreate [ta_seg]; OCreate [7];
    OPublish [7] [Pub (w_uri 0 [7; 9]) (101, 101)];
    OPublish [ta_seg] [Pub (w_uri 0 [7; 9]) (102, 102)] ].

Theorem isolation_refuted_ta :
  exists st k, reachable w_base st /\ o_get k (view st [ta_seg]) <> None /\ o_get k (view st [7]) <> None.
Proof.
  exists (run (init w_base) w_ta_ops), (w_uri 0 [7; 9]). split; [exists w_ta_ops; reflexivity|].
  vm_compute. split; discriminate.
Qed.

(** F10b. A publisher that spells the scheme "RSYNC" while the authority is in lower case: the
    object key keeps the spelling, the staged key does not. x published and visible in RRDP,
    then X (same URI, scheme in upper case) published as a second object; on removal the two
    withdraws collide in the staged map and one object stays published for ever. *)
Definition w_scheme_ops : list op :=
  [ OCreate [7]; OPublish [7] [Pub (w_uri 0 [7; 9]) (101, 101)]; OUpdate;
    OPublish [7] [Pub (w_uri 1 [7; 9]) (102, 102)]; OUpdate ].

Theorem remove_exact_refuted : ~ remove_exact_full.
Proof.
  intros H.
  specialize (H w_base (run (init w_base) w_scheme_ops) [7] _ _ (ex_intro _ w_scheme_ops eq_refl) eq_refl).
  vm_compute in H. discriminate.
Qed.

(** F10b, second face: a withdraw that is still staged is undone by a publish of the same URI
    in the other spelling (the merge turns it into an update stored under the new key, the old
    key is never removed). *)
Definition w_resurrect_ops : list op :=
  [ OCreate [7]; OPublish [7] [Pub (w_uri 0 [7; 9]) (101, 101)]; OUpdate;
    OPublish [7] [Wdr (w_uri 0 [7; 9]) 101] ].

Theorem publish_complete_refuted : ~ publish_complete_full.
Proof.
  intros H.
  specialize (H w_base (run (init w_base) w_resurrect_ops) [7] [Pub (w_uri 1 [7; 9]) (102, 102)] _
                (ex_intro _ w_resurrect_ops eq_refl) ltac:(repeat constructor; simpl; tauto) eq_refl
                (w_uri 0 [7; 9])).
  vm_compute in H. discriminate.
Qed.

(** ** Non-vacuity: concrete reachable states meeting the hypotheses of the theorems *)
Definition ex_ops : list op :=
  [ OCreate [7]; OCreate [8];
    OPublish [7] [Pub (w_uri 0 [7; 9]) (101, 101); Pub (mkUri 0 1 2 1 1 [7; 10]) (103, 103)];
    OUpdate;
    OPublish [7] [Upd (w_uri 0 [7; 9]) 101 (102, 102)];
    OPublish [8] [Pub (w_uri 0 [8; 9]) (104, 104)] ].
Definition ex_st : state := run (init w_base) ex_ops.

Lemma good_ex_ops : Forall good_op ex_ops.
Proof.
  repeat constructor; simpl; try tauto;
    try (intros e He; repeat (destruct He as [<-|He]; [reflexivity|]); contradiction);
    try (intros [H|H]; [discriminate|contradiction]).
Qed.

Example reachable_good_nonvacuous : reachable_good w_base ex_st.
Proof. exists ex_ops. split; [apply good_ex_ops|reflexivity]. Qed.

(** A delta merged into a non-empty staged set (update on a staged update), accepted. *)
Example publish_iff_nonvacuous :
  h_get [7] (st_pubs ex_st) = Some (jail_of w_base [7]) /\
  snd (step ex_st (OPublish [7] [Upd (w_uri 0 [7; 9]) 102 (105, 105); Wdr (mkUri 0 1 3 1 1 [7; 10]) 103])) = RDone /\
  staged_of ex_st [7] <> [].
Proof. vm_compute. repeat split; discriminate. Qed.

(** The hypotheses of [publish_effect] / [publish_complete] are met by that request. *)
Example publish_effect_nonvacuous :
  let d := [Upd (w_uri 0 [7; 9]) 102 (105, 105); Wdr (mkUri 0 1 3 1 1 [7; 10]) 103] in
  WF ex_st /\ NoDupK d /\ CohL d /\ snd (step ex_st (OPublish [7] d)) = RDone.
Proof.
  split; [apply (reachable_good_wf w_base); apply reachable_good_nonvacuous|].
  split; [apply NoDupK_b_spec; reflexivity|]. split; [apply CohL_b_spec; reflexivity|reflexivity].
Qed.

(** A refused delta (good first element, bad last one). *)
Example publish_atomic_nonvacuous :
  exists e, snd (step ex_st (OPublish [7] [Pub (w_uri 0 [7; 11]) (105, 105); Wdr (w_uri 0 [7; 9]) 101])) = RErrDelta e.
Proof. eexists. vm_compute. reflexivity. Qed.

Example staged_refines_nonvacuous :
  let snap := snap_of ex_st [7] in let st := staged_of ex_st [7] in
  let d := [Upd (w_uri 0 [7; 9]) 102 (105, 105); Wdr (mkUri 0 1 3 1 1 [7; 10]) 103; Pub (w_uri 0 [7; 11]) (106, 106)] in
  StagedInv_b snap st = true /\ NoDupK_b d = true /\ CohL_b d = true
  /\ verified_b (apply_delta snap st) d = true /\ st <> [].
Proof. vm_compute. repeat split; discriminate. Qed.

Example isolation_nonvacuous :
  reachable w_base ex_st /\ [7] <> [8] /\ jails_nest (jail_of w_base [7]) (jail_of w_base [8]) = false
  /\ view ex_st [7] <> [] /\ view ex_st [8] <> [].
Proof. split; [exists ex_ops; reflexivity|]. vm_compute. repeat split; discriminate. Qed.

Example remove_exact_nonvacuous :
  view ex_st [7] <> [] /\ view (fst (step ex_st (ORemove [7]))) [7] = []
  /\ view (fst (step ex_st (ORemove [7]))) [8] = view ex_st [8].
Proof. vm_compute. repeat split; discriminate. Qed.

(** ** The checker's removal-with-explicit-order is the model's removal *)
From KV Require Import pubd.PubdCheck.
Lemma remove_with_step st h : step st (ORemove h) = remove_with st h (withdraw_all (view st h)).
Proof.
  simpl. unfold remove_with. destruct (view st h) eqn:E; reflexivity.
Qed.

(** The oracles accept the model's own behaviour on the example scenario and reject the
    witnesses of the findings (so they have teeth). *)
Definition model_case (st : state) (o : op) (hs : list handle) : case :=
  let '(st', r) := step st o in
  mkCase st o st' r (map (fun h => mkObs h (list_reply (view st' h))
     (match h_get h (st_pubs st') with Some j => Some (j, published_files (view st' h)) | None => None end)) hs).

Fixpoint model_cases (st : state) (ops : list op) (hs : list handle) : list case :=
  match ops with
  | [] => []
  | o :: r => model_case st o hs :: model_cases (fst (step st o)) r hs
  end.

Example oracles_accept_model :
  forallb (fun c => agrees c && c10_ok c)
    (model_cases (init w_base) (ex_ops ++ [ORemove [7]; OUpdate; OList [8]; OReset; OCreate [7]]) [[7]; [8]]) = true.
Proof. vm_compute. reflexivity. Qed.

Example oracle_detects_nested :
  map ok_disjoint (model_cases (init w_base) w_nested_ops [[5]; [5; 6]]) = [true; true; true; false].
Proof. vm_compute. reflexivity. Qed.

Example oracle_detects_leftover :
  map ok_effect (model_cases (init w_base) (w_scheme_ops ++ [ORemove [7]]) [[7]]) = [true; true; true; false; true; false].
Proof. vm_compute. reflexivity. Qed.
