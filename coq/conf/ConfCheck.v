(** Correspondence checker and executable oracles for C05.

    The harness writes [cases] observed on the real code:
    - [CRoa]     Routes::process_updates called directly (no max-length normalisation);
    - [CRoaCmd]  CaManager::ca_routes_update on a live CA (normalisation, events applied, stored);
    - [CAspa]    CaManager::ca_aspas_definitions_update;
    - [CAspaEx]  CaManager::ca_aspas_update_aspa_providers;
    - [CBgp]     CaManager::ca_bgpsec_definitions_update;
    - [CChild]   CaManager::ca_add_child / ca_child_update.
    [agrees]     : the model computes the observed outcome (result class, error
                   content, events, resulting configuration);
    [c05_ok]     : the right-hand sides of the iff theorems, atomicity and the
                   Ok-specifications evaluated on what the implementation did
                   (with the code's own holding check [is_held_by]);
    [c05_strict] : the property text stated independently of the code's check
                   (a block of the prefix's own family covers it, in the family's
                   own address space; stored ASPA definitions well-formed; no child
                   left with nothing). *)
From KV Require Import base.Tac conf.AMap conf.Roa conf.Aspa conf.Bgpsec conf.Child.
Open Scope N_scope.

Inductive roa_out := RoaOk (post : routes) (evs : list event) | RoaErr (e : errs).
Inductive roa_cmd_out := RoaCmdOk (post : routes) | RoaCmdErr (e : errs) (post : routes).
Inductive aspa_out := AspaOk (post : aspas) | AspaErr (e : aspa_err) (post : aspas).
Definition bview : Type := list (bkey * N).                         (* key -> CSR id *)
Inductive bgp_out := BgpOk (post : bview) | BgpErr (e : berr) (post : bview).
Inductive child_out := ChildOk (post : children) | ChildErr (e : cerr) (post : children).

Inductive case :=
| CRoa (res : resources) (pre : routes) (d : delta) (out : roa_out)
| CRoaCmd (res : resources) (pre : routes) (d : delta) (out : roa_cmd_out)
| CAspa (res : resources) (pre : aspas) (u : aspa_updates) (out : aspa_out)
| CAspaEx (res : resources) (pre : aspas) (c : N) (u : prov_update) (out : aspa_out)
| CBgp (res : resources) (pre : bview) (u : bupdates) (out : bgp_out)
| CChild (held : resources) (pre : children) (o : cop) (out : child_out).

(** * Equality tests *)
Definition rc_eqb (a b : roa_conf) : bool := payload_eqb (rc_pl a) (rc_pl b) && comment_eqb (rc_comment a) (rc_comment b).
Definition event_eqb (a b : event) : bool :=
  match a, b with
  | EvRemoved k, EvRemoved k' | EvAdded k, EvAdded k' => payload_eqb k k'
  | EvComment k c, EvComment k' c' => payload_eqb k k' && comment_eqb c c'
  | _, _ => false
  end.
Definition errs_eqb (a b : errs) : bool :=
  list_eqb rc_eqb (e_dup a) (e_dup b) && list_eqb rc_eqb (e_notheld a) (e_notheld b)
  && list_eqb payload_eqb (e_unknown a) (e_unknown b) && list_eqb rc_eqb (e_invalid a) (e_invalid b).

(** Maps are compared as finite maps (the observed ones have distinct keys). *)
Definition map_eqb {K V} (keqb : K -> K -> bool) (veqb : V -> V -> bool) (a b : amap (K := K) (V := V)) : bool :=
  (N.of_nat (length a) =? N.of_nat (length b))
  && forallb (fun e => opt_eqb veqb (get keqb b (fst e)) (Some (snd e))) a
  && forallb (fun e => opt_eqb veqb (get keqb a (fst e)) (Some (snd e))) b.
Definition routes_eqb : routes -> routes -> bool := map_eqb payload_eqb comment_eqb.
Definition nlist_eqb : list N -> list N -> bool := list_eqb N.eqb.
Definition aspas_eqb : aspas -> aspas -> bool := map_eqb N.eqb nlist_eqb.
Definition bview_eqb : bview -> bview -> bool := map_eqb bkey_eqb N.eqb.
Definition ranges_eqb : list range -> list range -> bool := list_eqb range_eqb.
Definition children_eqb : children -> children -> bool := map_eqb N.eqb rs_eqb.

Definition aspa_err_eqb (a b : aspa_err) : bool :=
  match a, b with
  | ECustomerUnknown c, ECustomerUnknown c' | EProvidersEmpty c, EProvidersEmpty c'
  | ECustomerAsProvider c, ECustomerAsProvider c' | EProvidersDuplicates c, EProvidersDuplicates c'
  | ENotEntitled c, ENotEntitled c' => c =? c'
  | _, _ => false
  end.
Definition berr_eqb (a b : berr) : bool :=
  match a, b with
  | BUnknown k, BUnknown k' | BInvalidlySigned k, BInvalidlySigned k' | BNotEntitled k, BNotEntitled k' => bkey_eqb k k'
  | _, _ => false
  end.
Definition cerr_eqb (a b : cerr) : bool :=
  match a, b with
  | CMustHaveResources, CMustHaveResources | CExtraResources, CExtraResources
  | CDuplicate, CDuplicate | CUnknown, CUnknown => true
  | _, _ => false
  end.

Definition bview_to_defs (v : bview) : bdefs := map (fun e => (fst e, (snd e, 0))) v.
Definition defs_to_bview (m : bdefs) : bview := map (fun e => (fst e, fst (snd e))) m.

(** * Correspondence *)
Definition agrees (c : case) : bool :=
  match c with
  | CRoa res pre d out =>
      match process_updates res pre d, out with
      | Ok (m, evs), RoaOk post evs' => routes_eqb m post && list_eqb event_eqb evs evs'
      | Err e, RoaErr e' => errs_eqb e e'
      | _, _ => false
      end
  | CRoaCmd res pre d out =>
      match ca_routes_update res pre d, out with
      | (m, _, None), RoaCmdOk post => routes_eqb m post
      | (m, _, Some e), RoaCmdErr e' post => errs_eqb e e' && routes_eqb m post
      | _, _ => false
      end
  | CAspa res pre u out =>
      match ca_aspas_update res pre u, out with
      | (m, _, None), AspaOk post => aspas_eqb m post
      | (m, _, Some e), AspaErr e' post => aspa_err_eqb e e' && aspas_eqb m post
      | _, _ => false
      end
  | CAspaEx res pre c u out =>
      match ca_aspas_update_existing res pre c u, out with
      | (m, _, None), AspaOk post => aspas_eqb m post
      | (m, _, Some e), AspaErr e' post => aspa_err_eqb e e' && aspas_eqb m post
      | _, _ => false
      end
  | CBgp res pre u out =>
      match ca_bgpsec_update res 1 (bview_to_defs pre) u, out with
      | (m, _, None), BgpOk post => bview_eqb (defs_to_bview m) post
      | (m, _, Some e), BgpErr e' post => berr_eqb e e' && bview_eqb (defs_to_bview m) post
      | _, _ => false
      end
  | CChild held pre o out =>
      match ca_child_op held pre o, out with
      | (m, None), ChildOk post => children_eqb m post
      | (m, Some e), ChildErr e' post => cerr_eqb e e' && children_eqb m post
      | _, _ => false
      end
  end.

(** * Oracle 1: the theorems' right-hand sides on the observed behaviour *)
Definition roa_keys (pre : routes) (d : delta) : list payload :=
  keys pre ++ map rc_pl (d_added d) ++ d_removed d.

Definition spec_errs (res : resources) (pre : routes) (d : delta) : errs :=
  mkErr (spec_dup res pre d) (spec_notheld res d) (spec_unknown pre d) (spec_invalid d).

Definition roa_ok (res : resources) (pre : routes) (d : delta) (refused : bool) (e : option errs) (post : option routes) : bool :=
  Bool.eqb refused (refuse_spec res pre d)
  && match e with Some e => errs_eqb e (spec_errs res pre d) | None => true end
  && match post with
     | Some post =>
         if refused then routes_eqb post pre
         else forallb (fun k => opt_eqb comment_eqb (rget post k) (expected_get pre d k)) (roa_keys pre d ++ keys post)
     | None => true
     end.

Definition aspa_keys (pre : aspas) (u : aspa_updates) : list N := keys pre ++ map ad_cust (au_add u) ++ au_remove u.

Definition opt_prov_eqb (a b : option (list N)) : bool :=
  match a, b with
  | Some x, Some y => nlist_eqb (prov_set x) (prov_set y)
  | None, None => true
  | _, _ => false
  end.

Definition aspa_matches_request (pre : aspas) (u : aspa_updates) (post : aspas) : bool :=
  forallb (fun c => opt_prov_eqb (aget post c) (aspa_expected_get pre u c)) (aspa_keys pre u ++ keys post).

Definition aspa_ex_refuse_spec (res : resources) (pre : aspas) (c : N) (u : prov_update) : bool :=
  let ex := match aget pre c with Some ps => ps | None => [] end in
  let up := apply_prov_update ex u in
  negb (nlist_eqb up ex) && negb (match up with [] => true | _ => false end)
  && (negb (contains_asn res c) || memb N.eqb c up).

Definition aspa_ex_expected (pre : aspas) (c : N) (u : prov_update) (k : N) : option (list N) :=
  if k =? c then
    let ex := match aget pre c with Some ps => ps | None => [] end in
    let up := apply_prov_update ex u in
    if nlist_eqb up ex then aget pre c else match up with [] => None | _ => Some up end
  else aget pre k.

Definition bgp_expected (pre : bview) (u : bupdates) (k : bkey) : option N :=
  match find_last (fun d => bkey_eqb (bd_bkey d) k) (bu_add u) with
  | Some d => Some (bd_csr d)
  | None => if memb bkey_eqb k (bu_remove u) then None else get bkey_eqb pre k
  end.

Definition child_refuse_spec (held : resources) (pre : children) (o : cop) : bool :=
  match o with
  | CAdd c r => rs_is_empty r || negb (rs_contains held r) || has N.eqb pre c
  | CUpdate c r => rs_is_empty r || negb (rs_contains held r) || negb (has N.eqb pre c)
  end.
Definition child_expected (pre : children) (o : cop) (k : N) : option resources :=
  match o with
  | CAdd c r | CUpdate c r => if k =? c then Some r else cget pre k
  end.

Definition c05_ok (c : case) : bool :=
  match c with
  | CRoa res pre d (RoaOk post evs) => roa_ok res pre d false None (Some (apply_events pre evs))
  | CRoa res pre d (RoaErr e) => roa_ok res pre d true (Some e) None
  | CRoaCmd res pre d (RoaCmdOk post) => roa_ok res pre (explicit_delta d) false None (Some post)
  | CRoaCmd res pre d (RoaCmdErr e post) => roa_ok res pre (explicit_delta d) true (Some e) (Some post)
  | CAspa res pre u (AspaOk post) =>
      negb (aspa_refuse_spec res pre u) && aspa_matches_request pre u post
  | CAspa res pre u (AspaErr e post) => aspa_refuse_spec res pre u && aspas_eqb post pre
  | CAspaEx res pre c u (AspaOk post) =>
      negb (aspa_ex_refuse_spec res pre c u)
      && forallb (fun k => opt_eqb nlist_eqb (aget post k) (aspa_ex_expected pre c u k)) (c :: keys pre ++ keys post)
  | CAspaEx res pre c u (AspaErr e post) => aspa_ex_refuse_spec res pre c u && aspas_eqb post pre
  | CBgp res pre u (BgpOk post) =>
      negb (b_refuse_spec res (bview_to_defs pre) u)
      (* bgpsec_update_iff: every accepted definition is validly signed, for an AS held now - known key or not *)
      && forallb (fun d => bd_sig_ok d && contains_asn res (bd_asn d)) (bu_add u)
      && forallb (fun k => opt_eqb N.eqb (get bkey_eqb post k) (bgp_expected pre u k))
                 (keys pre ++ map bd_bkey (bu_add u) ++ bu_remove u ++ keys post)
  | CBgp res pre u (BgpErr e post) => b_refuse_spec res (bview_to_defs pre) u && bview_eqb post pre
  | CChild held pre o (ChildOk post) =>
      negb (child_refuse_spec held pre o)
      (* child_add_ok_spec / child_update_ok_spec: what an accepted request entitles the child to
         is not empty and lies inside what the CA holds now *)
      && (match o with CAdd _ r | CUpdate _ r => negb (rs_is_empty r) && rs_contains held r end)
      && forallb (fun k => opt_eqb rs_eqb (cget post k) (child_expected pre o k))
                 ((match o with CAdd c _ | CUpdate c _ => c end) :: keys pre ++ keys post)
  | CChild held pre o (ChildErr e post) => child_refuse_spec held pre o && children_eqb post pre
  end.

(** * Oracle 2: the property text, read strictly *)
Definition refuse_strict (res : resources) (pre : routes) (d : delta) : bool :=
  existsb (fun c => negb (max_length_valid (rc_pl c))) (d_added d)
  || existsb (fun c => negb (wf_prefix (pl_pfx (rc_pl c)) && holds_prefix res (pl_pfx (rc_pl c)))) (d_added d)
  || existsb (fun p => negb (rhas pre p)) (d_removed d)
  || has_dup payload_eqb (d_removed d)
  || negb (match spec_dup res pre d with [] => true | _ => false end).

Definition aspa_def_wellformed (res : resources) (c : N) (ps : list N) : bool :=
  negb (match ps with [] => true | _ => false end) && negb (memb N.eqb c ps) && negb (has_dup N.eqb ps)
  && contains_asn res c.

Definition c05_strict (c : case) : bool :=
  match c with
  | CRoa res pre d (RoaOk _ _) => negb (refuse_strict res pre d)
  | CRoa res pre d (RoaErr _) => refuse_strict res pre d
  | CRoaCmd res pre d (RoaCmdOk _) => negb (refuse_strict res pre (explicit_delta d))
  | CRoaCmd res pre d (RoaCmdErr _ _) => refuse_strict res pre (explicit_delta d)
  | CAspa res pre u (AspaOk post) =>
      aspa_matches_request pre u post
      && forallb (fun c => match aget post c with Some ps => aspa_def_wellformed res c ps | None => true end)
                 (map ad_cust (au_add u))
  | CAspaEx res pre c u (AspaOk post) =>
      match aget post c with
      | Some ps => nlist_eqb ps (match aget pre c with Some x => x | None => [] end) || aspa_def_wellformed res c ps
      | None => true
      end
  | CChild held pre (CAdd c r) (ChildOk _) | CChild held pre (CUpdate c r) (ChildOk _) =>
      negb (rs_is_empty r) && rs_contains held r
  | _ => true
  end.

(** Indices of cases on which a predicate fails. *)
Fixpoint failing_from {A} (f : A -> bool) (i : N) (l : list A) : list N :=
  match l with
  | [] => []
  | x :: r => if f x then failing_from f (i + 1) r else i :: failing_from f (i + 1) r
  end.
Definition failing {A} (f : A -> bool) (base : N) (l : list A) : list N := failing_from f base l.
