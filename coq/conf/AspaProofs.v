(** Proofs about the ASPA configuration model (conf/Aspa.v). *)
From KV Require Import base.Tac conf.AMap conf.AMapProofs conf.Roa conf.RoaProofs conf.Aspa.
Open Scope N_scope.

Arguments aget : simpl never.
Arguments ahas : simpl never.
Arguments aremove : simpl never.
Arguments ainsert : simpl never.
Arguments apply_aevents : simpl never.

Lemma aget_aremove m c c' : aget (aremove m c) c' = if c =? c' then None else aget m c'.
Proof. apply (get_remove N.eqb Neqb_spec). Qed.
Lemma aget_ainsert m c v c' : aget (ainsert m c v) c' = if c =? c' then Some v else aget m c'.
Proof. apply (get_insert N.eqb Neqb_spec). Qed.
Lemma ahas_aget m c : ahas m c = is_some (aget m c).
Proof. apply has_get. Qed.
Lemma membN_In x l : memb N.eqb x l = true <-> In x l.
Proof. apply (memb_In N.eqb Neqb_spec). Qed.
Lemma membN_false x l : memb N.eqb x l = false <-> ~ In x l.
Proof. apply (memb_false N.eqb Neqb_spec). Qed.

Lemma apply_aevents_cons m e es : apply_aevents m (e :: es) = apply_aevents (apply_aevent m e) es.
Proof. reflexivity. Qed.
Lemma apply_aevents_app m a b : apply_aevents m (a ++ b) = apply_aevents (apply_aevents m a) b.
Proof. unfold apply_aevents. apply fold_left_app. Qed.

(** * Provider list updates *)
Lemma In_ins_sorted x l p : In p (ins_sorted x l) <-> p = x \/ In p l.
Proof.
  induction l as [|y l IH]; simpl.
  - split; [intros [H|[]]; auto|intros [H|[]]; auto].
  - destruct (x <=? y); simpl.
    + split; [intros [H|H]; auto|intros [H|H]; auto].
    + rewrite IH. split; [intros [H|[H|H]]; auto|intros [H|[H|H]]; auto].
Qed.

Lemma In_isort l p : In p (isort l) <-> In p l.
Proof.
  induction l as [|x l IH]; simpl; [reflexivity|].
  rewrite In_ins_sorted, IH. split; [intros [H|H]; auto|intros [H|H]; auto].
Qed.

Lemma In_retain rs : forall ps p, In p (fold_left retain_ne rs ps) <-> In p ps /\ ~ In p rs.
Proof.
  induction rs as [|r rs IH]; intros ps p; simpl.
  - split; [intros H; split; auto|intros [H _]; auto].
  - rewrite IH. unfold retain_ne. rewrite filter_In, negb_true_iff, N.eqb_neq.
    split.
    + intros [[A B] C]. split; auto. intros [E|E]; [subst; auto|auto].
    + intros [A B]. split; [split; auto|]; intros E; apply B; auto.
Qed.

Lemma In_push_new ps a p : In p (push_new ps a) <-> In p ps \/ p = a.
Proof.
  unfold push_new. destruct (memb N.eqb a ps) eqn:E.
  - apply membN_In in E. split; [auto|intros [H| ->]; auto].
  - rewrite in_app_iff. simpl. split; [intros [H|[H|[]]]; auto|intros [H|H]; auto].
Qed.

Lemma In_push adds : forall ps p, In p (fold_left push_new adds ps) <-> In p ps \/ In p adds.
Proof.
  induction adds as [|a adds IH]; intros ps p; simpl.
  - split; [auto|intros [H|[]]; auto].
  - rewrite IH, In_push_new. split; [intros [[H|H]|H]; auto|intros [H|[H|H]]; auto].
Qed.

Lemma In_apply_prov_update ps u p :
  In p (apply_prov_update ps u) <-> (In p ps /\ ~ In p (pu_removed u)) \/ In p (pu_added u).
Proof. unfold apply_prov_update. rewrite In_isort, In_push, In_retain. reflexivity. Qed.

Lemma In_apply_diff existing new p :
  In p (apply_prov_update existing (diff_update existing new)) <-> In p new.
Proof.
  rewrite In_apply_prov_update. unfold diff_update; simpl. rewrite !filter_In, !negb_true_iff, !membN_false.
  destruct (in_dec N.eq_dec p existing), (in_dec N.eq_dec p new); tauto.
Qed.

Lemma filter_nil_all {A} (f : A -> bool) l : filter f l = [] -> forall x, In x l -> f x = false.
Proof.
  induction l as [|a l IH]; simpl; [intros _ x []|].
  destruct (f a) eqn:Fa; [discriminate|]. intros H x [-> |Hx]; auto.
Qed.

Lemma diff_empty_same existing new :
  pu_is_empty (diff_update existing new) = true -> forall p, In p existing <-> In p new.
Proof.
  unfold pu_is_empty, diff_update; simpl.
  destruct (filter _ new) eqn:F1; [|discriminate]. destruct (filter _ existing) eqn:F2; [|discriminate].
  intros _ p. split; intros H.
  - pose proof (filter_nil_all _ _ F2 p H) as K. apply negb_false_iff, membN_In in K. exact K.
  - pose proof (filter_nil_all _ _ F1 p H) as K. apply negb_false_iff, membN_In in K. exact K.
Qed.

(** * Accept/refuse *)
Lemma check_def_malformed res d : is_some (check_def res d) = def_malformed res d.
Proof.
  unfold check_def, def_malformed, customer_used_as_provider, contains_duplicate_providers.
  destruct (ad_provs d) as [|p ps] eqn:E; [reflexivity|]. cbv beta iota. rewrite orb_false_l.
  destruct (memb N.eqb (ad_cust d) (p :: ps)); [reflexivity|].
  destruct (has_dup N.eqb (p :: ps)); [reflexivity|].
  destruct (contains_asn res (ad_cust d)); reflexivity.
Qed.

Lemma existsb_orb {A} (f g : A -> bool) l : existsb (fun x => f x || g x) l = existsb f l || existsb g l.
Proof.
  induction l as [|a l IH]; simpl; auto. rewrite IH.
  destruct (f a), (g a), (existsb f l), (existsb g l); reflexivity.
Qed.

Lemma existsb_ext' {A} (f g : A -> bool) l : (forall x, f x = g x) -> existsb f l = existsb g l.
Proof. intros H. induction l as [|a l IH]; simpl; auto. rewrite H, IH. reflexivity. Qed.

Lemma ahas_aremove cur c q : negb (ahas (aremove cur c) q) = (c =? q) || negb (ahas cur q).
Proof. rewrite !ahas_aget, aget_aremove. destruct (c =? q); reflexivity. Qed.

Lemma removals_is_err : forall l cur,
  is_err (aspa_removals cur l) = existsb (fun c => negb (ahas cur c)) l || has_dup N.eqb l.
Proof.
  induction l as [|c r IH]; intros cur; simpl; auto.
  destruct (ahas cur c) eqn:H; simpl; auto.
  specialize (IH (aremove cur c)).
  assert (E : existsb (fun q => negb (ahas (aremove cur c) q)) r
              = memb N.eqb c r || existsb (fun q => negb (ahas cur q)) r).
  { unfold memb. rewrite <- existsb_orb. apply existsb_ext'. intros q. apply ahas_aremove. }
  rewrite E in IH.
  destruct (aspa_removals (aremove cur c) r) as [[m' evs]|e]; simpl in *; rewrite IH;
    destruct (memb N.eqb c r), (existsb (fun q => negb (ahas cur q)) r), (has_dup N.eqb r); reflexivity.
Qed.

Lemma additions_is_err res : forall l cur,
  is_err (aspa_additions res cur l) = existsb (def_malformed res) l.
Proof.
  induction l as [|d r IH]; intros cur; simpl; auto.
  rewrite <- check_def_malformed. destruct (check_def res d); simpl; auto.
  specialize (IH (ainsert cur (ad_cust d) (ad_provs d))).
  destruct (aspa_additions res (ainsert cur (ad_cust d) (ad_provs d)) r) as [[m' evs]|e]; simpl in *; auto.
Qed.

Theorem aspa_refuse_spec_correct res m u : is_err (aspa_process_updates res m u) = aspa_refuse_spec res m u.
Proof.
  unfold aspa_process_updates, aspa_refuse_spec.
  pose proof (removals_is_err (au_remove u) m) as R.
  destruct (aspa_removals m (au_remove u)) as [[m1 ev1]|e]; simpl in *.
  - rewrite <- R. simpl.
    pose proof (additions_is_err res (au_add u) m1) as A.
    destruct (aspa_additions res m1 (au_add u)) as [[m2 ev2]|e]; simpl in *; auto.
  - rewrite <- R. reflexivity.
Qed.

Definition def_malformed_prop (res : resources) (d : aspa_def) : Prop :=
  ad_provs d = [] \/ In (ad_cust d) (ad_provs d) \/ ~ NoDup (ad_provs d) \/ contains_asn res (ad_cust d) = false.

Lemma def_malformed_iff res d : def_malformed res d = true <-> def_malformed_prop res d.
Proof.
  unfold def_malformed, def_malformed_prop.
  rewrite !orb_true_iff, membN_In, (has_dup_true N.eqb Neqb_spec), negb_true_iff.
  destruct (ad_provs d); split; intros H; try tauto.
  - destruct H as [[[H|H]|H]|H]; auto; discriminate.
  - destruct H as [H|[H|[H|H]]]; auto; discriminate.
Qed.

Definition aspa_refused_cond (res : resources) (m : aspas) (u : aspa_updates) : Prop :=
  (exists c, In c (au_remove u) /\ aget m c = None)
  \/ ~ NoDup (au_remove u)
  \/ (exists d, In d (au_add u) /\ def_malformed_prop res d).

Theorem aspa_update_iff res m u :
  is_err (aspa_process_updates res m u) = true <-> aspa_refused_cond res m u.
Proof.
  rewrite aspa_refuse_spec_correct. unfold aspa_refuse_spec, aspa_refused_cond.
  rewrite !orb_true_iff, !existsb_exists, (has_dup_true N.eqb Neqb_spec). split.
  - intros [[(c & Hc & H)|H]|(d & Hd & H)].
    + left. exists c. split; auto. rewrite ahas_aget in H. destruct (aget m c); [discriminate|auto].
    + right; left; auto.
    + right; right. exists d. split; auto. apply def_malformed_iff; auto.
  - intros [(c & Hc & H)|[H|(d & Hd & H)]].
    + left; left. exists c. split; auto. rewrite ahas_aget, H. reflexivity.
    + left; right; auto.
    + right. exists d. split; auto. apply def_malformed_iff; auto.
Qed.

(** Which error is reported. *)
Theorem aspa_error_sound res m u e :
  aspa_process_updates res m u = Err e ->
  match e with
  | ECustomerUnknown c => In c (au_remove u)
  | EProvidersEmpty c => exists d, In d (au_add u) /\ ad_cust d = c /\ ad_provs d = []
  | ECustomerAsProvider c => exists d, In d (au_add u) /\ ad_cust d = c /\ In c (ad_provs d)
  | EProvidersDuplicates c => exists d, In d (au_add u) /\ ad_cust d = c /\ ~ NoDup (ad_provs d)
  | ENotEntitled c => exists d, In d (au_add u) /\ ad_cust d = c /\ contains_asn res c = false
  end.
Proof.
  unfold aspa_process_updates.
  assert (R : forall l cur e, aspa_removals cur l = Err e -> exists c, e = ECustomerUnknown c /\ In c l).
  { induction l as [|c r IH]; intros cur e0; simpl; [discriminate|].
    destruct (ahas cur c).
    - destruct (aspa_removals (aremove cur c) r) as [[m' evs]|e1] eqn:E; [discriminate|].
      intros H; inversion H; subst. destruct (IH _ _ E) as (c' & -> & Hc). exists c'; auto.
    - intros H; inversion H; subst. exists c; auto. }
  assert (A : forall l cur e, aspa_additions res cur l = Err e -> exists d, In d l /\ check_def res d = Some e).
  { induction l as [|d r IH]; intros cur e0; simpl; [discriminate|].
    destruct (check_def res d) as [e1|] eqn:C.
    - intros H; inversion H; subst. exists d; auto.
    - destruct (aspa_additions res (ainsert cur (ad_cust d) (ad_provs d)) r) as [[m' evs]|e1] eqn:E; [discriminate|].
      intros H; inversion H; subst. destruct (IH _ _ E) as (d' & Hd & Hc). exists d'; auto. }
  destruct (aspa_removals m (au_remove u)) as [[m1 ev1]|e1] eqn:E1.
  - destruct (aspa_additions res m1 (au_add u)) as [[m2 ev2]|e2] eqn:E2; [discriminate|].
    intros H; inversion H; subst. destruct (A _ _ _ E2) as (d & Hd & Hc).
    unfold check_def, customer_used_as_provider, contains_duplicate_providers in Hc.
    destruct (ad_provs d) as [|p ps] eqn:P.
    + inversion Hc; subst. exists d; auto.
    + destruct (memb N.eqb (ad_cust d) (p :: ps)) eqn:M.
      * inversion Hc; subst. exists d. rewrite P. apply membN_In in M. auto.
      * destruct (has_dup N.eqb (p :: ps)) eqn:D.
        { inversion Hc; subst. exists d. rewrite P. apply (has_dup_true N.eqb Neqb_spec) in D. auto. }
        destruct (contains_asn res (ad_cust d)) eqn:K; [discriminate|].
        inversion Hc; subst. exists d; auto.
  - intros H; inversion H; subst. destruct (R _ _ _ E1) as (c & -> & Hc). exact Hc.
Qed.

(** * Command level: all or nothing *)
Theorem aspa_update_atomic res m u m' evs e :
  ca_aspas_update res m u = (m', evs, Some e) -> m' = m /\ evs = [].
Proof.
  unfold ca_aspas_update. destruct (aspa_process_updates res m u) as [[m2 ev]|e']; [discriminate|].
  intros H; inversion H; auto.
Qed.

(** * Accepted updates: the returned definitions (used to issue the objects) *)
Lemma removals_ok : forall l cur m1 ev1,
  aspa_removals cur l = Ok (m1, ev1) ->
  (forall c, aget m1 c = if memb N.eqb c l then None else aget cur c) /\ apply_aevents cur ev1 = m1.
Proof.
  induction l as [|c r IH]; intros cur m1 ev1; simpl.
  - intros H; inversion H; subst. split; auto.
  - destruct (ahas cur c); [|discriminate].
    destruct (aspa_removals (aremove cur c) r) as [[m' evs]|e] eqn:E; [|discriminate].
    intros H; inversion H; subst. destruct (IH _ _ _ E) as [A B]. split.
    + intros q. rewrite A, aget_aremove. rewrite N.eqb_sym.
      destruct (q =? c); simpl; auto. destruct (memb N.eqb q r); reflexivity.
    + rewrite apply_aevents_cons. exact B.
Qed.

Definition last_def (l : list aspa_def) (c : N) : option aspa_def := find_last (fun d => ad_cust d =? c) l.

Lemma additions_ok_get res : forall l cur m2 ev2,
  aspa_additions res cur l = Ok (m2, ev2) ->
  forall c, aget m2 c = match last_def l c with Some d => Some (ad_provs d) | None => aget cur c end.
Proof.
  induction l as [|d r IH]; intros cur m2 ev2; simpl.
  - intros H; inversion H; auto.
  - destruct (check_def res d); [discriminate|].
    destruct (aspa_additions res (ainsert cur (ad_cust d) (ad_provs d)) r) as [[m' evs]|e] eqn:E; [|discriminate].
    intros H; inversion H; subst. intros c. rewrite (IH _ _ _ E).
    unfold last_def; cbn [find_last]. destruct (find_last _ r); auto.
    rewrite aget_ainsert. destruct (ad_cust d =? c); reflexivity.
Qed.

Theorem aspa_ok_spec res m u all evs :
  aspa_process_updates res m u = Ok (all, evs) ->
  forall c, aget all c = aspa_expected_get m u c.
Proof.
  unfold aspa_process_updates.
  destruct (aspa_removals m (au_remove u)) as [[m1 ev1]|e1] eqn:E1; [|discriminate].
  destruct (aspa_additions res m1 (au_add u)) as [[m2 ev2]|e2] eqn:E2; [|discriminate].
  intros H; inversion H; subst. intros c.
  rewrite (additions_ok_get _ _ _ _ _ E2). destruct (removals_ok _ _ _ _ E1) as [A _].
  unfold aspa_expected_get, last_def. destruct (find_last _ (au_add u)); auto.
Qed.

(** * Accepted updates: the stored configuration (events applied) *)
Lemma same_provs_refl a : same_provs a a.
Proof. destruct a; simpl; auto. reflexivity. Qed.

Lemma same_provs_trans a b c : same_provs a b -> same_provs b c -> same_provs a c.
Proof.
  destruct a, b, c; simpl; auto; try contradiction.
  intros H1 H2 p. rewrite H1. apply H2.
Qed.

Lemma same_provs_sym a b : same_provs a b -> same_provs b a.
Proof. destruct a, b; simpl; auto. intros H p. symmetry. apply H. Qed.

Lemma In_apply_diff_gen ex_s existing new p :
  (forall q, In q ex_s <-> In q existing) ->
  (In p (apply_prov_update ex_s (diff_update existing new)) <-> In p new).
Proof.
  intros H. rewrite In_apply_prov_update, H, <- In_apply_prov_update. apply In_apply_diff.
Qed.

Lemma def_events_effect cur s d :
  ad_provs d <> [] -> same_provs (aget s (ad_cust d)) (aget cur (ad_cust d)) ->
  same_provs (aget (apply_aevents s (def_events cur d)) (ad_cust d)) (Some (ad_provs d))
  /\ forall c, c <> ad_cust d -> aget (apply_aevents s (def_events cur d)) c = aget s c.
Proof.
  intros Hne Hs. unfold def_events.
  destruct (aget cur (ad_cust d)) as [existing|] eqn:G.
  - destruct (aget s (ad_cust d)) as [ex_s|] eqn:GS; [|contradiction]. simpl in Hs.
    destruct (pu_is_empty (diff_update existing (ad_provs d))) eqn:PE.
    + change (apply_aevents s []) with s. rewrite GS. split; auto.
      simpl. intros p. rewrite Hs. apply diff_empty_same; auto.
    + rewrite apply_aevents_cons. change (apply_aevents ?x []) with x. simpl apply_aevent.
      unfold aspas_apply_update. rewrite GS.
      pose proof (fun p => In_apply_diff_gen ex_s existing (ad_provs d) p Hs) as HI.
      destruct (apply_prov_update ex_s (diff_update existing (ad_provs d))) as [|q qs] eqn:AP.
      * exfalso. destruct (ad_provs d) as [|p ps]; [congruence|]. apply (HI p). left; reflexivity.
      * split.
        -- rewrite aget_ainsert, N.eqb_refl. simpl. exact HI.
        -- intros c Hc. rewrite aget_ainsert. destruct (ad_cust d =? c) eqn:E; auto.
           apply N.eqb_eq in E; congruence.
  - destruct (aget s (ad_cust d)) as [ex_s|] eqn:GS; [contradiction|].
    rewrite apply_aevents_cons. change (apply_aevents ?x []) with x. simpl apply_aevent. split.
    + rewrite aget_ainsert, N.eqb_refl. simpl. reflexivity.
    + intros c Hc. rewrite aget_ainsert. destruct (ad_cust d =? c) eqn:E; auto.
      apply N.eqb_eq in E; congruence.
Qed.

Lemma check_def_nonempty res d : check_def res d = None -> ad_provs d <> [].
Proof. unfold check_def. destruct (ad_provs d); [discriminate|congruence]. Qed.

(** Replaying the events keeps the stored configuration equal (as provider sets)
    to the working copy the objects are issued from. *)
Lemma additions_replay res : forall l cur s m2 ev2,
  aspa_additions res cur l = Ok (m2, ev2) ->
  (forall c, same_provs (aget s c) (aget cur c)) ->
  forall c, same_provs (aget (apply_aevents s ev2) c) (aget m2 c).
Proof.
  induction l as [|d r IH]; intros cur s m2 ev2; simpl.
  - intros H HS c; inversion H; subst. apply HS.
  - destruct (check_def res d) eqn:C; [discriminate|].
    destruct (aspa_additions res (ainsert cur (ad_cust d) (ad_provs d)) r) as [[m' evs]|e] eqn:E; [|discriminate].
    intros H HS c; inversion H; subst.
    rewrite apply_aevents_app.
    destruct (def_events_effect cur s d (check_def_nonempty _ _ C) (HS (ad_cust d))) as [EA EB].
    apply (IH _ _ _ _ E). intros c'. rewrite aget_ainsert.
    destruct (ad_cust d =? c') eqn:Ec.
    + apply N.eqb_eq in Ec; subst c'. exact EA.
    + rewrite EB; [apply HS|]. intros Heq; subst. rewrite N.eqb_refl in Ec; discriminate.
Qed.

(** What is stored after an accepted update is what was asked for (as provider sets:
    apply_update keeps stored lists sorted, the request need not be). *)
Theorem aspa_accepted_config res m u m' evs :
  ca_aspas_update res m u = (m', evs, None) ->
  forall c, same_provs (aget m' c) (aspa_expected_get m u c).
Proof.
  unfold ca_aspas_update. destruct (aspa_process_updates res m u) as [[all ev]|e] eqn:P; [|discriminate].
  intros H; inversion H; subst. intros c. rewrite <- (aspa_ok_spec _ _ _ _ _ P c).
  unfold aspa_process_updates in P.
  destruct (aspa_removals m (au_remove u)) as [[m1 ev1]|e1] eqn:E1; [|discriminate].
  destruct (aspa_additions res m1 (au_add u)) as [[m2 ev2]|e2] eqn:E2; [|discriminate].
  inversion P; subst. destruct (removals_ok _ _ _ _ E1) as [_ B].
  rewrite apply_aevents_app, B.
  apply (additions_replay _ _ _ _ _ _ E2). intros c'. apply same_provs_refl.
Qed.

(** Everything an accepted update (re)defines is stored well-formed and backed by a held customer AS. *)
Theorem aspa_accepted_wellformed res m u m' evs :
  ca_aspas_update res m u = (m', evs, None) ->
  forall c ps, In c (map ad_cust (au_add u)) -> aget m' c = Some ps ->
  ps <> [] /\ ~ In c ps /\ contains_asn res c = true.
Proof.
  intros H c ps Hc Hg.
  pose proof (aspa_accepted_config res m u m' evs H c) as K.
  rewrite Hg in K. unfold aspa_expected_get in K.
  destruct (find_last (fun d => ad_cust d =? c) (au_add u)) as [d|] eqn:F.
  - apply find_last_some in F as [Hd Hcd]. apply N.eqb_eq in Hcd. subst c.
    assert (M : def_malformed res d = false).
    { assert (R : is_err (aspa_process_updates res m u) = false).
      { unfold ca_aspas_update in H. destruct (aspa_process_updates res m u) as [[? ?]|?]; [reflexivity|discriminate]. }
      rewrite aspa_refuse_spec_correct in R. unfold aspa_refuse_spec in R.
      apply orb_false_iff in R as [_ R].
      destruct (def_malformed res d) eqn:DM; auto.
      assert (existsb (def_malformed res) (au_add u) = true) by (apply existsb_exists; exists d; auto). congruence. }
    unfold def_malformed in M. rewrite !orb_false_iff in M. destruct M as [[[M1 M2] M3] M4].
    simpl in K. repeat split.
    + intros ->. destruct (ad_provs d) as [|p r]; [discriminate|]. apply (K p). left; reflexivity.
    + intros Hin. apply K in Hin. apply membN_In in Hin. congruence.
    + apply negb_false_iff in M4. exact M4.
  - exfalso. apply in_map_iff in Hc as (d & Hd & Hin).
    pose proof (proj1 (find_last_none _ _) F d Hin) as Z. simpl in Z. rewrite Hd, N.eqb_refl in Z. discriminate.
Qed.

(** ** The originally pinned tree (finding F01a, repaired in f9940a57):
    AS65002 => [1,2] configured; one update removes AS65002 and defines AS65002 => [1].
    It was accepted and the stored definition of AS65002 had no providers. *)
Definition f01a_res : resources := mkRes [(65000, 65010)] [] [].
Definition f01a_state : aspas := [(65002, [1; 2])].
Definition f01a_update : aspa_updates := mkAU [mkAD 65002 [1]] [65002].

Example aspa_accepted_config_pinned_refuted :
  (match aspa_process_updates_pinned f01a_res f01a_state f01a_update with
   | Ok (_, evs) => apply_aevents f01a_state evs
   | Err _ => f01a_state
   end) = [(65002, [])]
  /\ ca_aspas_update f01a_res f01a_state f01a_update = ([(65002, [1])], [AEvRemoved 65002; AEvAdded (mkAD 65002 [1])], None).
Proof. vm_compute. auto. Qed.

(** * Update of one customer's providers *)
Definition existing_of (m : aspas) (c : N) : list N := match aget m c with Some ps => ps | None => [] end.

Theorem aspa_existing_iff res m c u :
  is_err (updated_allowed_and_needed res m c u) = true <->
  let updated := apply_prov_update (existing_of m c) u in
  updated <> existing_of m c /\ updated <> [] /\ (contains_asn res c = false \/ In c updated).
Proof.
  unfold updated_allowed_and_needed, existing_of. cbv zeta.
  set (ex := match aget m c with Some ps => ps | None => [] end).
  set (up := apply_prov_update ex u).
  destruct (list_eqb N.eqb up ex) eqn:E.
  - apply (list_eqb_spec N.eqb Neqb_spec) in E. simpl. split; [discriminate|]. intros [H _]; contradiction.
  - assert (up <> ex). { intros K. apply (list_eqb_spec N.eqb Neqb_spec) in K. congruence. }
    destruct up as [|p ps] eqn:U.
    + simpl. split; [discriminate|]. intros (_ & K & _); contradiction.
    + destruct (contains_asn res c) eqn:Hc; cbn [negb].
      * destruct (memb N.eqb c (p :: ps)) eqn:M; cbn [is_err].
        -- apply membN_In in M. split; auto. intros _. repeat split; auto. discriminate.
        -- apply membN_false in M. split; [discriminate|]. intros (_ & _ & [K|K]); [discriminate|contradiction].
      * cbn [is_err]. split; auto. intros _. repeat split; auto. discriminate.
Qed.

Theorem aspa_existing_atomic res m c u m' evs e :
  ca_aspas_update_existing res m c u = (m', evs, Some e) -> m' = m /\ evs = [].
Proof.
  unfold ca_aspas_update_existing. destruct (updated_allowed_and_needed res m c u) as [[|]|e']; try discriminate.
  intros H; inversion H; auto.
Qed.

(** What an accepted provider update leaves for the customer: nothing, or a
    non-empty list not containing the customer, for a held customer AS; other customers untouched. *)
Theorem aspa_existing_ok_spec res m c u m' evs :
  ca_aspas_update_existing res m c u = (m', evs, None) ->
  (forall c', c' <> c -> aget m' c' = aget m c') /\
  (aget m' c = aget m c \/ aget m' c = None
   \/ exists ps, aget m' c = Some ps /\ ps = apply_prov_update (existing_of m c) u
                 /\ ps <> [] /\ ~ In c ps /\ contains_asn res c = true).
Proof.
  unfold ca_aspas_update_existing, updated_allowed_and_needed, existing_of.
  destruct (list_eqb N.eqb _ _) eqn:E.
  - intros H; inversion H; subst. split; auto.
  - destruct (aget m c) as [ex|] eqn:G.
    + destruct (apply_prov_update ex u) as [|p ps] eqn:U.
      * intros H; inversion H; subst. unfold aspas_apply_update. rewrite G, U. split.
        -- intros c' Hc. rewrite aget_aremove. destruct (c =? c') eqn:K; auto. apply N.eqb_eq in K; congruence.
        -- right; left. rewrite aget_aremove, N.eqb_refl. reflexivity.
      * destruct (contains_asn res c) eqn:Hc; cbn [negb]; [|discriminate].
        destruct (memb N.eqb c (p :: ps)) eqn:M; [discriminate|].
        intros H; inversion H; subst. unfold aspas_apply_update. rewrite G, U. split.
        -- intros c' Hc'. rewrite aget_ainsert. destruct (c =? c') eqn:K; auto. apply N.eqb_eq in K; congruence.
        -- right; right. exists (p :: ps). rewrite aget_ainsert, N.eqb_refl.
           repeat split; auto; [discriminate|apply membN_false; auto].
    + destruct (apply_prov_update [] u) as [|p ps] eqn:U; [discriminate|].
      destruct (contains_asn res c) eqn:Hc; cbn [negb]; [|discriminate].
      destruct (memb N.eqb c (p :: ps)) eqn:M; [discriminate|].
      intros H; inversion H; subst. unfold aspas_apply_update. rewrite G, U. split.
      * intros c' Hc'. rewrite aget_ainsert. destruct (c =? c') eqn:K; auto. apply N.eqb_eq in K; congruence.
      * right; right. exists (p :: ps). rewrite aget_ainsert, N.eqb_refl.
        repeat split; auto; [discriminate|apply membN_false; auto].
Qed.

(** * Non-vacuity *)
Example aspa_update_iff_nonvacuous_refused :
  aspa_process_updates f01a_res f01a_state (mkAU [mkAD 65003 [65003; 1]] []) = Err (ECustomerAsProvider 65003).
Proof. vm_compute. reflexivity. Qed.

Example aspa_update_iff_nonvacuous_accepted :
  ca_aspas_update f01a_res f01a_state (mkAU [mkAD 65003 [4; 1]; mkAD 65002 [2; 3]] []) =
  ([(65002, [2; 3]); (65003, [4; 1])], [AEvAdded (mkAD 65003 [4; 1]); AEvUpdated 65002 (mkPU [3] [1])], None).
Proof. vm_compute. reflexivity. Qed.

Example aspa_accepted_config_nonvacuous :
  ca_aspas_update f01a_res f01a_state (mkAU [mkAD 65002 [3; 1]; mkAD 65002 [2; 3]] []) =
  ([(65002, [2; 3])], [AEvUpdated 65002 (mkPU [3] [2]); AEvUpdated 65002 (mkPU [2] [1])], None).
Proof. vm_compute. reflexivity. Qed.

Example aspa_update_atomic_nonvacuous :
  ca_aspas_update f01a_res f01a_state (mkAU [mkAD 65003 [4]] [65009]) = (f01a_state, [], Some (ECustomerUnknown 65009)).
Proof. vm_compute. reflexivity. Qed.

Example aspa_existing_iff_nonvacuous :
  ca_aspas_update_existing f01a_res f01a_state 65002 (mkPU [65002] []) = (f01a_state, [], Some (ECustomerAsProvider 65002))
  /\ ca_aspas_update_existing f01a_res f01a_state 65002 (mkPU [7] [1]) = ([(65002, [2; 7])], [AEvUpdated 65002 (mkPU [7] [1])], None)
  /\ ca_aspas_update_existing f01a_res f01a_state 65002 (mkPU [] [1; 2]) = ([], [AEvUpdated 65002 (mkPU [] [1; 2])], None).
Proof. vm_compute. auto. Qed.
