(** Proofs about the ROA delta model (conf/Roa.v). *)
From KV Require Import base.Tac conf.AMap conf.AMapProofs conf.Roa.
Open Scope N_scope.

Arguments rget : simpl never.
Arguments rhas : simpl never.
Arguments rremove : simpl never.
Arguments radd : simpl never.
Arguments rcomment : simpl never.
Arguments remove_all : simpl never.
Arguments apply_events : simpl never.
Arguments new_events : simpl never.
Arguments track_new : simpl never.

Lemma apply_events_cons m e es : apply_events m (e :: es) = apply_events (apply_event m e) es.
Proof. reflexivity. Qed.
Lemma apply_events_nil m : apply_events m [] = m.
Proof. reflexivity. Qed.

(** * Equality tests *)
Lemma fam_eqb_spec a b : fam_eqb a b = true <-> a = b.
Proof. destruct a, b; simpl; split; congruence. Qed.

Lemma prefix_eqb_spec a b : prefix_eqb a b = true <-> a = b.
Proof.
  destruct a as [f x l], b as [f' x' l']; unfold prefix_eqb; simpl.
  rewrite !andb_true_iff, fam_eqb_spec, !N.eqb_eq. split.
  - intros [[-> ->] ->]; reflexivity.
  - intros H; inversion H; auto.
Qed.

Lemma Neqb_spec (a b : N) : (a =? b) = true <-> a = b.
Proof. apply N.eqb_eq. Qed.

Lemma payload_eqb_spec a b : payload_eqb a b = true <-> a = b.
Proof.
  destruct a as [s p m], b as [s' p' m']; unfold payload_eqb; simpl.
  rewrite !andb_true_iff, N.eqb_eq, prefix_eqb_spec, (opt_eqb_spec N.eqb Neqb_spec). split.
  - intros [[-> ->] ->]; reflexivity.
  - intros H; inversion H; auto.
Qed.

Lemma comment_eqb_spec (a b : comment) : comment_eqb a b = true <-> a = b.
Proof. apply (opt_eqb_spec N.eqb Neqb_spec). Qed.

Lemma comment_eqb_false (a b : comment) : comment_eqb a b = false <-> a <> b.
Proof. apply (eqb_false comment_eqb comment_eqb_spec). Qed.

Lemma peqb_refl a : payload_eqb a a = true.
Proof. apply payload_eqb_spec; reflexivity. Qed.

Lemma peqb_sym a b : payload_eqb a b = payload_eqb b a.
Proof. apply (eqb_sym payload_eqb payload_eqb_spec). Qed.

Lemma rget_rremove m k k' : rget (rremove m k) k' = if payload_eqb k k' then None else rget m k'.
Proof. apply (get_remove payload_eqb payload_eqb_spec). Qed.
Lemma rget_radd m k k' : rget (radd m k) k' = if payload_eqb k k' then Some None else rget m k'.
Proof. apply (get_insert payload_eqb payload_eqb_spec). Qed.
Lemma rget_rcomment m k c k' : rget (rcomment m k c) k' = if payload_eqb k k' then option_map (fun _ => c) (rget m k') else rget m k'.
Proof. apply (get_update payload_eqb payload_eqb_spec). Qed.
Lemma rhas_rget m k : rhas m k = is_some (rget m k).
Proof. apply has_get. Qed.

Lemma rget_remove_all m l k : rget (remove_all m l) k = if memb payload_eqb k l then None else rget m k.
Proof.
  unfold remove_all, rget.
  rewrite (get_filter_keys payload_eqb payload_eqb_spec (fun x => negb (memb payload_eqb x l))).
  destruct (memb payload_eqb k l); reflexivity.
Qed.

(** * First loop *)
Lemma rremove_absent m p : rhas m p = false -> rremove m p = m.
Proof.
  unfold rhas, has, rremove, remove.
  induction m as [|[a v] m IH]; simpl; auto.
  destruct (payload_eqb a p) eqn:E; simpl; [discriminate|].
  intros H. f_equal. apply IH, H.
Qed.

Lemma remove_all_snoc m pre p : rremove (remove_all m pre) p = remove_all m (pre ++ [p]).
Proof.
  unfold rremove, remove, remove_all.
  induction m as [|[a v] m IH]; simpl; auto.
  rewrite (memb_app payload_eqb). simpl. rewrite orb_false_r.
  destruct (memb payload_eqb a pre) eqn:E1; simpl.
  - apply IH.
  - destruct (payload_eqb a p) eqn:E2; simpl; rewrite IH; reflexivity.
Qed.

Lemma remove_all_nil m : remove_all m [] = m.
Proof. unfold remove_all. induction m as [|e m IH]; simpl; auto. f_equal; auto. Qed.

Lemma rhas_remove_all m pre p : rhas (remove_all m pre) p = rhas m p && negb (memb payload_eqb p pre).
Proof.
  rewrite !rhas_rget, rget_remove_all. destruct (memb payload_eqb p pre); simpl.
  - rewrite andb_false_r; reflexivity.
  - rewrite andb_true_r; reflexivity.
Qed.

Definition unknown_at (m : routes) (pre : list payload) (p : payload) : bool :=
  negb (rhas m p) || memb payload_eqb p pre.

Lemma do_removals_gen m pre l :
  fst (fst (do_removals (remove_all m pre) l)) = remove_all m (pre ++ l)
  /\ snd (do_removals (remove_all m pre) l) = filter_ctx (unknown_at m) pre l.
Proof.
  revert pre; induction l as [|p r IH]; intros pre; simpl.
  - rewrite app_nil_r; auto.
  - rewrite rhas_remove_all. unfold unknown_at at 1.
    destruct (rhas m p) eqn:Hm; simpl.
    + destruct (memb payload_eqb p pre) eqn:Hp; simpl.
      * (* already removed earlier in this delta: unknown *)
        assert (Hrm : remove_all m pre = remove_all m (pre ++ [p])).
        { rewrite <- remove_all_snoc. symmetry. apply rremove_absent.
          rewrite rhas_remove_all, Hp, andb_false_r. reflexivity. }
        rewrite Hrm. destruct (IH (pre ++ [p])) as [A B].
        destruct (do_removals (remove_all m (pre ++ [p])) r) as [[m' evs] unk]; simpl in *.
        rewrite <- app_assoc in A. simpl in A. split; auto. f_equal; auto.
      * rewrite remove_all_snoc. destruct (IH (pre ++ [p])) as [A B].
        destruct (do_removals (remove_all m (pre ++ [p])) r) as [[m' evs] unk]; simpl in *.
        rewrite <- app_assoc in A. simpl in A. split; auto.
    + assert (Hrm : remove_all m pre = remove_all m (pre ++ [p])).
      { rewrite <- remove_all_snoc. symmetry. apply rremove_absent.
        rewrite rhas_remove_all, Hm. reflexivity. }
      rewrite Hrm. destruct (IH (pre ++ [p])) as [A B].
      destruct (do_removals (remove_all m (pre ++ [p])) r) as [[m' evs] unk]; simpl in *.
      rewrite <- app_assoc in A. simpl in A. split; auto. f_equal; auto.
Qed.

Lemma do_removals_spec m l :
  fst (fst (do_removals m l)) = remove_all m l
  /\ snd (do_removals m l) = filter_ctx (unknown_at m) [] l.
Proof. pose proof (do_removals_gen m [] l) as H. rewrite remove_all_nil in H. exact H. Qed.

Lemma removals_apply m l : apply_events m (snd (fst (do_removals m l))) = fst (fst (do_removals m l)).
Proof.
  revert m; induction l as [|p r IH]; intros m; simpl; auto.
  destruct (rhas m p).
  - specialize (IH (rremove m p)). destruct (do_removals (rremove m p) r) as [[m' evs] unk]; simpl in *.
    rewrite apply_events_cons. exact IH.
  - specialize (IH m). destruct (do_removals m r) as [[m' evs] unk]; simpl in *. exact IH.
Qed.

(** * Second loop *)
Lemma rget_track_new dm c k :
  rget (track_new dm c) k = if payload_eqb (rc_pl c) k then Some (rc_comment c) else rget dm k.
Proof.
  unfold track_new. destruct (rc_comment c) as [x|] eqn:E.
  - rewrite rget_rcomment, rget_radd. destruct (payload_eqb (rc_pl c) k); reflexivity.
  - rewrite rget_radd. destruct (payload_eqb (rc_pl c) k); reflexivity.
Qed.

Definition Inv (res : resources) (dm : routes) (pre : list roa_conf) (dmj : routes) : Prop :=
  forall k, rget dmj k = eff_get res dm pre k.

Lemma eff_get_snoc_skip res dm pre c k :
  (payload_eqb (rc_pl c) k && acceptable res c = false) \/ is_some (eff_get res dm pre k) = true ->
  eff_get res dm (pre ++ [c]) k = eff_get res dm pre k.
Proof.
  unfold eff_get. intros H. destruct (rget dm k); auto.
  rewrite find_app. destruct (find _ pre) eqn:F; auto.
  simpl. destruct H as [H|H]; [rewrite H; reflexivity|discriminate].
Qed.

Lemma eff_get_snoc_new res dm pre c :
  acceptable res c = true -> eff_get res dm pre (rc_pl c) = None ->
  eff_get res dm (pre ++ [c]) (rc_pl c) = Some (rc_comment c).
Proof.
  unfold eff_get. intros Ha H. destruct (rget dm (rc_pl c)); [discriminate|].
  rewrite find_app. destruct (find _ pre); [discriminate|]. simpl.
  rewrite peqb_refl, Ha. reflexivity.
Qed.

Lemma classify_cases res dm c :
  match classify res dm c with
  | AInvalid => max_length_valid (rc_pl c) = false
  | ANotHeld => max_length_valid (rc_pl c) = true /\ is_held_by res (pl_pfx (rc_pl c)) = false
  | ADup => acceptable res c = true /\ rget dm (rc_pl c) = Some (rc_comment c)
  | AComment => acceptable res c = true /\ exists cm, rget dm (rc_pl c) = Some cm /\ cm <> rc_comment c
  | ANew => acceptable res c = true /\ rget dm (rc_pl c) = None
  end.
Proof.
  unfold classify, acceptable.
  destruct (max_length_valid (rc_pl c)); simpl; auto.
  destruct (is_held_by res (pl_pfx (rc_pl c))); simpl; auto.
  destruct (rget dm (rc_pl c)) as [cm|]; auto.
  destruct (comment_eqb cm (rc_comment c)) eqn:E.
  - apply comment_eqb_spec in E; subst; auto.
  - apply comment_eqb_false in E. split; auto. exists cm; auto.
Qed.

Definition notheld_b (res : resources) (c : roa_conf) : bool :=
  max_length_valid (rc_pl c) && negb (is_held_by res (pl_pfx (rc_pl c))).
Definition invalid_b (c : roa_conf) : bool := negb (max_length_valid (rc_pl c)).

Lemma additions_errs res dm : forall l pre dmj,
  Inv res dm pre dmj ->
  let e := snd (do_additions res dmj l) in
  e_invalid e = filter invalid_b l /\ e_notheld e = filter (notheld_b res) l /\ e_unknown e = []
  /\ e_dup e = filter_ctx (is_dup_at res dm) pre l.
Proof.
  induction l as [|c r IH]; intros pre dmj HI; simpl; auto.
  pose proof (classify_cases res dmj c) as HC.
  unfold is_dup_at at 1, invalid_b at 1, notheld_b at 1.
  destruct (classify res dmj c).
  - (* invalid *)
    assert (HI' : Inv res dm (pre ++ [c]) dmj).
    { intros k. rewrite eff_get_snoc_skip; auto. left. unfold acceptable. rewrite HC. simpl. apply andb_false_r. }
    specialize (IH _ _ HI'). destruct (do_additions res dmj r) as [[m' evs] e]; simpl in *.
    destruct IH as (A & B & C & D). unfold acceptable. rewrite HC; simpl. repeat split; auto. f_equal; auto.
  - destruct HC as [Hv Hh].
    assert (HI' : Inv res dm (pre ++ [c]) dmj).
    { intros k. rewrite eff_get_snoc_skip; auto. left. unfold acceptable. rewrite Hv, Hh. simpl. apply andb_false_r. }
    specialize (IH _ _ HI'). destruct (do_additions res dmj r) as [[m' evs] e]; simpl in *.
    destruct IH as (A & B & C & D). unfold acceptable. rewrite Hv, Hh; simpl. repeat split; auto. f_equal; auto.
  - (* comment change *)
    destruct HC as [Ha [cm [Hg Hne]]].
    assert (HI' : Inv res dm (pre ++ [c]) dmj).
    { intros k. destruct (payload_eqb (rc_pl c) k) eqn:E.
      - apply payload_eqb_spec in E; subst k. rewrite eff_get_snoc_skip; [apply HI|].
        right. rewrite <- HI, Hg. reflexivity.
      - rewrite eff_get_snoc_skip; [apply HI|]. left. rewrite E. reflexivity. }
    specialize (IH _ _ HI'). destruct (do_additions res dmj r) as [[m' evs] e]; simpl in *.
    destruct IH as (A & B & C & D).
    unfold acceptable in Ha. apply andb_true_iff in Ha as [Hv Hh].
    unfold acceptable. rewrite Hv, Hh, <- HI, Hg; simpl.
    assert (comment_eqb cm (rc_comment c) = false) as -> by (apply comment_eqb_false; auto).
    simpl. repeat split; auto.
  - (* duplicate *)
    destruct HC as [Ha Hg].
    assert (HI' : Inv res dm (pre ++ [c]) dmj).
    { intros k. destruct (payload_eqb (rc_pl c) k) eqn:E.
      - apply payload_eqb_spec in E; subst k. rewrite eff_get_snoc_skip; [apply HI|].
        right. rewrite <- HI, Hg. reflexivity.
      - rewrite eff_get_snoc_skip; [apply HI|]. left. rewrite E. reflexivity. }
    specialize (IH _ _ HI'). destruct (do_additions res dmj r) as [[m' evs] e]; simpl in *.
    destruct IH as (A & B & C & D).
    unfold acceptable in Ha. apply andb_true_iff in Ha as [Hv Hh].
    unfold acceptable. rewrite Hv, Hh, <- HI, Hg; simpl.
    assert (comment_eqb (rc_comment c) (rc_comment c) = true) as -> by (apply comment_eqb_spec; auto).
    simpl. repeat split; auto. f_equal; auto.
  - (* new *)
    destruct HC as [Ha Hg].
    assert (HI' : Inv res dm (pre ++ [c]) (track_new dmj c)).
    { intros k. rewrite rget_track_new. destruct (payload_eqb (rc_pl c) k) eqn:E.
      - apply payload_eqb_spec in E; subst k. symmetry. apply eff_get_snoc_new; auto. rewrite <- HI; auto.
      - rewrite eff_get_snoc_skip; [apply HI|]. left. rewrite E. reflexivity. }
    specialize (IH _ _ HI'). destruct (do_additions res (track_new dmj c) r) as [[m' evs] e]; simpl in *.
    destruct IH as (A & B & C & D).
    pose proof Ha as Ha'. unfold acceptable in Ha. apply andb_true_iff in Ha as [Hv Hh].
    unfold acceptable. rewrite Hv, Hh, <- HI, Hg; simpl. repeat split; auto.
Qed.

Lemma Inv_start res dm : Inv res dm [] dm.
Proof. intros k. unfold eff_get. simpl. destruct (rget dm k); reflexivity. Qed.

(** All errors, as the specification computes them. *)
Definition all_errs (res : resources) (m : routes) (d : delta) : errs :=
  mkErr (spec_dup res m d) (spec_notheld res d) (spec_unknown m d) (spec_invalid d).

Lemma process_updates_errs res m d :
  match process_updates res m d with
  | Ok _ => errs_empty (all_errs res m d) = true
  | Err e => e = all_errs res m d /\ errs_empty e = false
  end.
Proof.
  unfold process_updates.
  destruct (do_removals_spec m (d_removed d)) as [R1 R2].
  destruct (do_removals m (d_removed d)) as [[m1 ev1] unk]; simpl in *. subst m1 unk.
  pose proof (additions_errs res (remove_all m (d_removed d)) (d_added d) [] _ (Inv_start res _)) as H.
  destruct (do_additions res (remove_all m (d_removed d)) (d_added d)) as [[m2 ev2] e]; simpl in *.
  destruct H as (A & B & C & D).
  assert (E : mkErr (e_dup e) (e_notheld e) (filter_ctx (unknown_at m) [] (d_removed d)) (e_invalid e) = all_errs res m d).
  { unfold all_errs, spec_dup, spec_notheld, spec_unknown, spec_invalid. rewrite A, B, D. reflexivity. }
  rewrite E. destruct (errs_empty (all_errs res m d)) eqn:EE; auto.
Qed.

(** * Accepted deltas: what the events do *)
Lemma errs_empty_add_invalid e c : errs_empty (add_invalid e c) = false.
Proof. unfold errs_empty, add_invalid; simpl. destruct (e_dup e), (e_notheld e), (e_unknown e); reflexivity. Qed.
Lemma errs_empty_add_notheld e c : errs_empty (add_notheld e c) = false.
Proof. unfold errs_empty, add_notheld; simpl. destruct (e_dup e); reflexivity. Qed.
Lemma errs_empty_add_dup e c : errs_empty (add_dup e c) = false.
Proof. reflexivity. Qed.

Lemma apply_events_app m a b : apply_events (apply_events m a) b = apply_events m (a ++ b).
Proof. unfold apply_events. rewrite fold_left_app. reflexivity. Qed.

Lemma apply_new_events s c k :
  rget (apply_events s (new_events c)) k = if payload_eqb (rc_pl c) k then Some (rc_comment c) else rget s k.
Proof.
  unfold new_events. destruct (rc_comment c) as [x|] eqn:E; rewrite !apply_events_cons, apply_events_nil; simpl.
  - rewrite rget_rcomment, rget_radd. destruct (payload_eqb (rc_pl c) k); reflexivity.
  - rewrite rget_radd. destruct (payload_eqb (rc_pl c) k); reflexivity.
Qed.

Definition last_added (l : list roa_conf) (k : payload) : option roa_conf :=
  find_last (fun c => payload_eqb (rc_pl c) k) l.

Lemma additions_ok res : forall l dmj s,
  (forall k, is_some (rget s k) = is_some (rget dmj k)) ->
  errs_empty (snd (do_additions res dmj l)) = true ->
  forall k, rget (apply_events s (snd (fst (do_additions res dmj l)))) k =
            match last_added l k with Some c => Some (rc_comment c) | None => rget s k end.
Proof.
  induction l as [|c r IH]; intros dmj s HK HE k; simpl; auto.
  simpl in HE. pose proof (classify_cases res dmj c) as HC.
  destruct (classify res dmj c).
  - destruct (do_additions res dmj r) as [[m' evs] e]; simpl in HE. rewrite errs_empty_add_invalid in HE; discriminate.
  - destruct (do_additions res dmj r) as [[m' evs] e]; simpl in HE. rewrite errs_empty_add_notheld in HE; discriminate.
  - (* comment *)
    destruct HC as [Ha [cm [Hg Hne]]].
    specialize (IH dmj (rcomment s (rc_pl c) (rc_comment c))).
    destruct (do_additions res dmj r) as [[m' evs] e]; simpl in *.
    rewrite apply_events_cons; simpl.
    unfold last_added in *. cbn [find_last]. rewrite IH; auto.
    + destruct (find_last _ r); auto. rewrite rget_rcomment.
      destruct (payload_eqb (rc_pl c) k) eqn:E; auto.
      apply payload_eqb_spec in E; subst k.
      specialize (HK (rc_pl c)). rewrite Hg in HK. destruct (rget s (rc_pl c)); [reflexivity|discriminate].
    + intros k'. rewrite rget_rcomment, <- HK. destruct (payload_eqb (rc_pl c) k'); auto.
      destruct (rget s k'); reflexivity.
  - destruct (do_additions res dmj r) as [[m' evs] e]; simpl in HE. discriminate.
  - (* new *)
    destruct HC as [Ha Hg].
    specialize (IH (track_new dmj c) (apply_events s (new_events c))).
    destruct (do_additions res (track_new dmj c) r) as [[m' evs] e]; simpl in *.
    change (EvAdded (rc_pl c) :: match rc_comment c with Some _ => [EvComment (rc_pl c) (rc_comment c)] | None => [] end ++ evs)
      with (new_events c ++ evs).
    rewrite <- apply_events_app. unfold last_added in *. cbn [find_last]. rewrite IH; auto.
    + destruct (find_last _ r); auto. rewrite apply_new_events. destruct (payload_eqb (rc_pl c) k); reflexivity.
    + intros k'. rewrite apply_new_events, rget_track_new.
      destruct (payload_eqb (rc_pl c) k'); [reflexivity|apply HK].
Qed.

Lemma errs_empty_fields e : errs_empty e = true <-> e_dup e = [] /\ e_notheld e = [] /\ e_unknown e = [] /\ e_invalid e = [].
Proof.
  unfold errs_empty. destruct (e_dup e), (e_notheld e), (e_unknown e), (e_invalid e); split; try discriminate; auto;
  intros (A & B & C & D); discriminate.
Qed.

Theorem process_updates_ok_spec res m d m2 evs :
  process_updates res m d = Ok (m2, evs) ->
  forall k, rget (apply_events m evs) k = expected_get m d k.
Proof.
  unfold process_updates. intros H k.
  pose proof (removals_apply m (d_removed d)) as RA.
  destruct (do_removals_spec m (d_removed d)) as [R1 R2].
  destruct (do_removals m (d_removed d)) as [[m1 ev1] unk]; simpl in *.
  pose proof (additions_ok res (d_added d) m1 m1 (fun _ => eq_refl)) as AO.
  pose proof (additions_errs res m1 (d_added d) [] _ (Inv_start res _)) as AE.
  destruct (do_additions res m1 (d_added d)) as [[m2' ev2] e]; simpl in *.
  destruct (errs_empty (mkErr (e_dup e) (e_notheld e) unk (e_invalid e))) eqn:EE; [|discriminate].
  inversion H; subst m2 evs; clear H.
  apply errs_empty_fields in EE; simpl in EE. destruct EE as (E1 & E2 & E3 & E4).
  destruct AE as (_ & _ & E5 & _).
  rewrite <- apply_events_app, RA, AO.
  - unfold expected_get, last_added. destruct (find_last _ (d_added d)); auto.
    rewrite R1. apply rget_remove_all.
  - apply errs_empty_fields. auto.
Qed.

(** * The accept/refuse characterisation *)
Lemma filter_ctx_nonempty {A} (f : list A -> A -> bool) : forall l pre,
  filter_ctx f pre l <> [] <-> exists l1 x l2, l = l1 ++ x :: l2 /\ f (pre ++ l1) x = true.
Proof.
  induction l as [|a l IH]; intros pre; simpl.
  - split; [congruence|]. intros (l1 & x & l2 & H & _). destruct l1; discriminate.
  - split.
    + destruct (f pre a) eqn:Fa.
      * intros _. exists [], a, l. rewrite app_nil_r. auto.
      * simpl. intros H. apply IH in H as (l1 & x & l2 & -> & Hf).
        exists (a :: l1), x, l2. rewrite <- app_assoc in Hf. auto.
    + intros (l1 & x & l2 & H & Hf). destruct l1 as [|b l1]; simpl in H; inversion H; subst.
      * rewrite app_nil_r in Hf. rewrite Hf. simpl. congruence.
      * destruct (f pre b); simpl; [congruence|]. apply IH. exists l1, x, l2.
        rewrite <- app_assoc. auto.
Qed.

Lemma filter_nonempty {A} (f : A -> bool) l : filter f l <> [] <-> exists x, In x l /\ f x = true.
Proof.
  induction l as [|a l IH]; simpl.
  - split; [congruence|intros (x & [] & _)].
  - destruct (f a) eqn:Fa.
    + split; [intros _; exists a; auto|congruence].
    + rewrite IH. split.
      * intros (x & Hx & Hf); exists x; auto.
      * intros (x & [->|Hx] & Hf); [congruence|exists x; auto].
Qed.

Lemma has_dup_split (l : list payload) :
  has_dup payload_eqb l = true <-> exists l1 p l2, l = l1 ++ p :: l2 /\ In p l1.
Proof.
  split.
  - induction l as [|x l IH]; simpl; [discriminate|].
    rewrite orb_true_iff. intros [H|H].
    + apply (memb_In payload_eqb payload_eqb_spec) in H. apply in_split in H as (r1 & r2 & ->).
      exists (x :: r1), x, r2. simpl; auto.
    + apply IH in H as (l1 & p & l2 & -> & Hp). exists (x :: l1), p, l2. simpl; auto.
  - intros (l1 & p & l2 & -> & Hp). induction l1 as [|a l1 IH]; [destruct Hp|].
    simpl. apply orb_true_iff. destruct Hp as [->|Hp].
    + left. apply (memb_In payload_eqb payload_eqb_spec). apply in_or_app. right; left; reflexivity.
    + right; auto.
Qed.

(** The right-hand side of the iff, as a proposition. *)
Definition refused_cond (res : resources) (m : routes) (d : delta) : Prop :=
  (exists c, In c (d_added d) /\ max_length_valid (rc_pl c) = false)
  \/ (exists c, In c (d_added d) /\ is_held_by res (pl_pfx (rc_pl c)) = false)
  \/ (exists p, In p (d_removed d) /\ rget m p = None)
  \/ ~ NoDup (d_removed d)
  \/ (exists l1 c l2, d_added d = l1 ++ c :: l2 /\ is_dup_at res (remove_all m (d_removed d)) l1 c = true).

Lemma rhas_false m p : rhas m p = false <-> rget m p = None.
Proof. rewrite rhas_rget. destruct (rget m p); simpl; split; congruence. Qed.

Lemma spec_unknown_nonempty m d :
  spec_unknown m d <> [] <-> (exists p, In p (d_removed d) /\ rget m p = None) \/ ~ NoDup (d_removed d).
Proof.
  unfold spec_unknown. rewrite filter_ctx_nonempty. simpl. split.
  - intros (l1 & p & l2 & E & H). apply orb_true_iff in H as [H|H].
    + left. exists p. split; [rewrite E; apply in_or_app; right; left; auto|].
      apply rhas_false. destruct (rhas m p); [discriminate|auto].
    + right. apply (has_dup_true payload_eqb payload_eqb_spec). apply has_dup_split.
      exists l1, p, l2. split; auto. apply (memb_In payload_eqb payload_eqb_spec); auto.
  - intros [(p & Hp & Hg)|H].
    + apply in_split in Hp as (l1 & l2 & E). exists l1, p, l2. split; auto.
      apply rhas_false in Hg. rewrite Hg. reflexivity.
    + apply (has_dup_true payload_eqb payload_eqb_spec) in H. apply has_dup_split in H as (l1 & p & l2 & E & Hp).
      exists l1, p, l2. split; auto. apply orb_true_iff; right.
      apply (memb_In payload_eqb payload_eqb_spec); auto.
Qed.

Lemma not_nil_iff {A} (l : list A) : l <> [] <-> (match l with [] => true | _ => false end) = false.
Proof. destruct l; split; congruence. Qed.

Lemma all_errs_nonempty res m d : errs_empty (all_errs res m d) = false <-> refused_cond res m d.
Proof.
  assert (H : errs_empty (all_errs res m d) = false <->
              spec_invalid d <> [] \/ spec_notheld res d <> [] \/ spec_unknown m d <> [] \/ spec_dup res m d <> []).
  { pose proof (errs_empty_fields (all_errs res m d)) as F. simpl in F.
    destruct (errs_empty (all_errs res m d)).
    - split; [discriminate|]. destruct F as [F _]. destruct (F eq_refl) as (A & B & C & D).
      intros [H|[H|[H|H]]]; congruence.
    - split; auto. intros _.
      destruct (spec_invalid d) eqn:A; [|left; congruence].
      destruct (spec_notheld res d) eqn:B; [|right; left; congruence].
      destruct (spec_unknown m d) eqn:C; [|right; right; left; congruence].
      destruct (spec_dup res m d) eqn:D; [|right; right; right; congruence].
      destruct F as [_ F]. discriminate F; auto. }
  rewrite H. unfold refused_cond, spec_invalid, spec_notheld, spec_dup.
  rewrite !filter_nonempty, spec_unknown_nonempty, filter_ctx_nonempty. simpl.
  split.
  - intros [(c & Hc & Hv)|[(c & Hc & Hv)|[[Hu|Hu]|Hd]]].
    + left. exists c. split; auto. destruct (max_length_valid (rc_pl c)); [discriminate|auto].
    + right; left. exists c. split; auto. apply andb_true_iff in Hv as [_ Hv].
      destruct (is_held_by res (pl_pfx (rc_pl c))); [discriminate|auto].
    + right; right; left; auto.
    + right; right; right; left; auto.
    + right; right; right; right; auto.
  - intros [(c & Hc & Hv)|[(c & Hc & Hv)|[Hu|[Hu|Hd]]]].
    + left. exists c. rewrite Hv. auto.
    + destruct (max_length_valid (rc_pl c)) eqn:V.
      * right; left. exists c. rewrite V, Hv. auto.
      * left. exists c. rewrite V. auto.
    + right; right; left; auto.
    + right; right; left; auto.
    + right; right; right; auto.
Qed.

Theorem roa_delta_iff res m d : is_err (process_updates res m d) = true <-> refused_cond res m d.
Proof.
  rewrite <- all_errs_nonempty. pose proof (process_updates_errs res m d) as H.
  destruct (process_updates res m d); simpl.
  - rewrite H. split; discriminate.
  - destruct H as [-> H]. rewrite H. split; auto.
Qed.

Theorem refuse_spec_iff res m d : refuse_spec res m d = true <-> refused_cond res m d.
Proof.
  unfold refuse_spec, refused_cond. rewrite !orb_true_iff, !existsb_exists, negb_true_iff.
  rewrite (has_dup_true payload_eqb payload_eqb_spec).
  rewrite <- not_nil_iff. unfold spec_dup. rewrite filter_ctx_nonempty. simpl.
  split.
  - intros [[[[(c & Hc & H)|(c & Hc & H)]|(p & Hp & H)]|H]|H].
    + left. exists c. apply negb_true_iff in H. auto.
    + right; left. exists c. apply negb_true_iff in H. auto.
    + right; right; left. exists p. apply negb_true_iff in H. apply rhas_false in H. auto.
    + right; right; right; left; auto.
    + right; right; right; right; auto.
  - intros [(c & Hc & H)|[(c & Hc & H)|[(p & Hp & H)|[H|H]]]].
    + left; left; left; left. exists c. rewrite H. auto.
    + left; left; left; right. exists c. rewrite H. auto.
    + left; left; right. exists p. apply rhas_false in H. rewrite H. auto.
    + left; right; auto.
    + right; auto.
Qed.

Theorem roa_refuse_spec_correct res m d : is_err (process_updates res m d) = refuse_spec res m d.
Proof.
  pose proof (roa_delta_iff res m d) as A. pose proof (refuse_spec_iff res m d) as B.
  destruct (is_err (process_updates res m d)), (refuse_spec res m d); auto.
  - symmetry. apply B, A. reflexivity.
  - apply A, B. reflexivity.
Qed.

(** The error value lists every offending entry. *)
Theorem roa_error_complete res m d e :
  process_updates res m d = Err e ->
  e_invalid e = spec_invalid d /\ e_notheld e = spec_notheld res d
  /\ e_unknown e = spec_unknown m d /\ e_dup e = spec_dup res m d.
Proof.
  intros H. pose proof (process_updates_errs res m d) as P. rewrite H in P. destruct P as [-> _].
  simpl; auto.
Qed.

(** * Command level: all or nothing *)
Theorem roa_delta_atomic res m d m' evs e :
  ca_routes_update res m d = (m', evs, Some e) -> m' = m /\ evs = [].
Proof.
  unfold ca_routes_update. destruct (process_updates res m (explicit_delta d)) as [[m2 ev]|e'].
  - discriminate.
  - intros H; inversion H; auto.
Qed.

Theorem roa_command_refused_iff res m d :
  (exists e, snd (ca_routes_update res m d) = Some e) <-> refused_cond res m (explicit_delta d).
Proof.
  rewrite <- roa_delta_iff. unfold ca_routes_update.
  destruct (process_updates res m (explicit_delta d)) as [[m2 ev]|e']; simpl.
  - split; [intros [e H]; discriminate|discriminate].
  - split; auto. intros _. exists e'; auto.
Qed.

Theorem roa_delta_ok_spec res m d m' evs :
  ca_routes_update res m d = (m', evs, None) ->
  forall k, rget m' k = expected_get m (explicit_delta d) k.
Proof.
  unfold ca_routes_update.
  destruct (process_updates res m (explicit_delta d)) as [[m2 ev]|e'] eqn:E; [|discriminate].
  intros H; inversion H; subst. apply (process_updates_ok_spec _ _ _ _ _ E).
Qed.

(** * Max-length normalisation *)
Lemma explicit_pl_idem p : explicit_pl (explicit_pl p) = explicit_pl p.
Proof. reflexivity. Qed.

Lemma explicit_pl_valid p :
  p_len (pl_pfx p) <= alen (p_fam (pl_pfx p)) -> max_length_valid (explicit_pl p) = max_length_valid p.
Proof.
  intros H. unfold max_length_valid, explicit_pl, effective_max_length; simpl.
  destruct (pl_max p); auto.
  apply andb_true_iff; split; apply N.leb_le; lia.
Qed.

(** After normalisation "10.0.0.0/8 => A" and "10.0.0.0/8-8 => A" are the same key. *)
Lemma explicit_pl_collapses a p :
  explicit_pl (mkPl a p None) = explicit_pl (mkPl a p (Some (p_len p))).
Proof. reflexivity. Qed.

Lemma explicit_delta_all_explicit d :
  Forall (fun c => pl_max (rc_pl c) <> None) (d_added (explicit_delta d))
  /\ Forall (fun p => pl_max p <> None) (d_removed (explicit_delta d)).
Proof.
  split; apply Forall_forall; intros x Hx; simpl in Hx; apply in_map_iff in Hx as (y & <- & _); simpl; discriminate.
Qed.

(** * Held resources: what the code checks versus what holding a prefix means *)
Lemma pow_shift_split l : l <= 32 -> 2 ^ (128 - l) = 2 ^ (32 - l) * 2 ^ 96.
Proof. intros H. rewrite <- N.pow_add_r. f_equal. lia. Qed.

Lemma up4_covers r (x y : N) : 1 <= y ->
  range_covers (up4 r) (x * 2 ^ 96) (x * 2 ^ 96 + y * 2 ^ 96 - 1) = range_covers r x (x + y - 1).
Proof.
  intros Hy. unfold range_covers, up4; simpl.
  assert (K : 0 < 2 ^ 96) by (apply N.neq_0_lt_0, N.pow_nonzero; lia).
  set (k := 2 ^ 96) in *. clearbody k.
  f_equal.
  - apply eq_iff_eq_true. rewrite !N.leb_le. split; intros H; nia.
  - apply eq_iff_eq_true. rewrite !N.leb_le. split; intros H; nia.
Qed.

Lemma covered_up4 rs (x y : N) : 1 <= y ->
  covered (map up4 rs) (x * 2 ^ 96) (x * 2 ^ 96 + y * 2 ^ 96 - 1) = covered rs x (x + y - 1).
Proof.
  intros Hy. unfold covered. induction rs as [|r rs IH]; [reflexivity|].
  cbn [map existsb]. rewrite up4_covers by auto. rewrite IH. reflexivity.
Qed.

(** The check is exactly "a block of the prefix's own family covers the prefix". *)
Theorem check_is_held res p :
  p_len p <= alen (p_fam p) -> is_held_by res p = holds_prefix res p.
Proof.
  intros Hl. unfold is_held_by, holds_prefix, hi128, lo128, plo, phi, shift_of.
  destruct p as [f a l]; simpl in *. destruct f; simpl in *.
  - change (128 - 32) with 96. rewrite (pow_shift_split l Hl).
    rewrite covered_up4; auto.
    assert (0 < 2 ^ (32 - l)) by (apply N.neq_0_lt_0, N.pow_nonzero; lia). lia.
  - rewrite ?N.mul_1_r. reflexivity.
Qed.

(** ** The originally pinned tree (finding F05a, repaired in 2496aeb4) *)

(** Cover by a block of the other family. *)
Definition cross_family_cover (res : resources) (p : prefix) : bool :=
  match p_fam p with
  | V4 => covered (r_v6 res) (lo128 p) (hi128 p)
  | V6 => covered (map up4 (r_v4 res)) (lo128 p) (hi128 p)
  end.

Theorem contains_roa_address_pinned_decomposed res p :
  contains_roa_address_pinned res p = is_held_by res p || cross_family_cover res p.
Proof.
  unfold contains_roa_address_pinned, is_held_by, cross_family_cover.
  destruct (p_fam p); [reflexivity|apply orb_comm].
Qed.

(** Witness: the CA holds IPv4 10.0.0.0/8 only; the IPv6 prefix a00::/8 passed the old check. *)
Definition cf_res : resources := mkRes [] [(167772160, 184549375)] [].
Definition cf_pfx : prefix := mkP V6 (10 * 2 ^ 120) 8.

Example check_is_held_pinned_refuted :
  wf_prefix cf_pfx = true /\ contains_roa_address_pinned cf_res cf_pfx = true
  /\ holds_prefix cf_res cf_pfx = false /\ is_held_by cf_res cf_pfx = false.
Proof. vm_compute. auto. Qed.

(** "One block covers the range" is "every address of the range is held" when
    the blocks are merged (pairwise neither overlapping nor adjacent), which
    is how IpBlocks are kept. *)
Definition in_ranges (rs : list range) (x : N) : Prop := exists r, In r rs /\ fst r <= x <= snd r.
Definition separated (rs : list range) : Prop :=
  forall r r', In r rs -> In r' rs -> r = r' \/ snd r + 1 < fst r' \/ snd r' + 1 < fst r.

Theorem covered_iff_all_addresses rs lo hi :
  separated rs -> lo <= hi ->
  (covered rs lo hi = true <-> forall x, lo <= x <= hi -> in_ranges rs x).
Proof.
  intros Hs Hle. unfold covered. rewrite existsb_exists. split.
  - intros (r & Hr & Hc) x Hx. unfold range_covers in Hc. apply andb_true_iff in Hc as [A B].
    apply N.leb_le in A, B. exists r. split; auto. lia.
  - intros H. destruct (H lo) as (r & Hr & Hlo); [lia|].
    exists r. split; auto. unfold range_covers. apply andb_true_iff. split; [apply N.leb_le; lia|].
    apply N.leb_le. destruct (N.le_gt_cases hi (snd r)) as [|Hgt]; auto.
    destruct (H (snd r + 1)) as (r' & Hr' & Hx); [lia|].
    destruct (Hs r r' Hr Hr') as [->|[C|C]]; lia.
Qed.

(** * Non-vacuity *)
Definition ex_res : resources := mkRes [(64512, 64600)] [(167772160, 184549375)] [(42540766411282592856903984951653826560, 42540766490510755371168322545197776895)].
Definition ex_p1 : payload := mkPl 64512 (mkP V4 167772160 8) (Some 8).      (* 10.0.0.0/8-8 => AS64512 *)
Definition ex_p2 : payload := mkPl 0 (mkP V6 42540766411282592856903984951653826560 32) (Some 48). (* 2001:db8::/32-48 => AS0 *)
Definition ex_p3 : payload := mkPl 64512 (mkP V4 3232235520 16) (Some 16).    (* 192.168.0.0/16 not held *)
Definition ex_routes : routes := [(ex_p1, Some 7)].

Example roa_delta_iff_nonvacuous_refused :
  is_err (process_updates ex_res ex_routes (mkD [mkRC ex_p3 None; mkRC ex_p1 (Some 7)] [ex_p2])) = true.
Proof. vm_compute. reflexivity. Qed.

Example roa_delta_iff_nonvacuous_accepted :
  process_updates ex_res ex_routes (mkD [mkRC ex_p2 None; mkRC ex_p1 (Some 8)] []) =
  Ok ([(ex_p2, None); (ex_p1, Some 7)], [EvAdded ex_p2; EvComment ex_p1 (Some 8)]).
Proof. vm_compute. reflexivity. Qed.

Example roa_delta_atomic_nonvacuous :
  ca_routes_update ex_res ex_routes (mkD [mkRC ex_p3 None] []) =
  (ex_routes, [], Some (mkErr [] [mkRC ex_p3 None] [] [])).
Proof. vm_compute. reflexivity. Qed.

Example roa_delta_ok_spec_nonvacuous :
  snd (ca_routes_update ex_res ex_routes (mkD [mkRC ex_p1 None] [ex_p1])) = None.
Proof. vm_compute. reflexivity. Qed.

Example roa_error_complete_nonvacuous :
  process_updates ex_res ex_routes
    (mkD [mkRC ex_p3 None; mkRC (mkPl 1 (mkP V4 167772160 8) (Some 7)) None; mkRC ex_p1 (Some 7); mkRC ex_p3 (Some 1)] [ex_p2; ex_p2]) =
  Err (mkErr [mkRC ex_p1 (Some 7)] [mkRC ex_p3 None; mkRC ex_p3 (Some 1)] [ex_p2; ex_p2] [mkRC (mkPl 1 (mkP V4 167772160 8) (Some 7)) None]).
Proof. vm_compute. reflexivity. Qed.

Example covered_iff_all_addresses_nonvacuous : separated (r_v4 ex_res) /\ covered (r_v4 ex_res) 167772160 167772415 = true.
Proof. split; [|reflexivity]. intros r r' [<-|[]] [<-|[]]. left; reflexivity. Qed.

Example check_is_held_nonvacuous :
  is_held_by ex_res (mkP V4 167772160 8) = true /\ is_held_by ex_res (mkP V6 (10 * 2 ^ 120) 8) = false.
Proof. vm_compute. auto. Qed.
