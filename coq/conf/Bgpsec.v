(** Model of BGPsec router-key definition validation.
    Rust: src/server/ca/bgpsec.rs:103-171 (BgpSecDefinitions::process_updates),
    :85-96 (add_or_replace / remove), certauth.rs:629-639 (event application).
    The CSR self-signature check (OpenSSL) is an input bit [bd_sig_ok]; a CSR is
    identified by a number; StoredBgpSecCsr carries the time it was first seen
    ([since], part of its derived equality). No proofs in this file. *)
From KV Require Import base.Tac conf.AMap conf.Roa.
Open Scope N_scope.

Definition bkey : Type := (N * N)%type.                  (* (ASN, key identifier) *)
Definition bkey_eqb (a b : bkey) : bool := (fst a =? fst b) && (snd a =? snd b).
Definition bstored : Type := (N * N)%type.               (* (CSR id, since) *)
Definition bstored_eqb (a b : bstored) : bool := (fst a =? fst b) && (snd a =? snd b).

Record bdef := mkBD { bd_asn : N; bd_key : N; bd_csr : N; bd_sig_ok : bool }.
Definition bd_bkey (d : bdef) : bkey := (bd_asn d, bd_key d).
Record bupdates := mkBU { bu_add : list bdef; bu_remove : list bkey }.
Definition bdefs : Type := amap (K := bkey) (V := bstored).

Inductive berr := BUnknown (k : bkey) | BInvalidlySigned (k : bkey) | BNotEntitled (k : bkey).
Inductive bevent := BEvAdded (k : bkey) (v : bstored) | BEvUpdated (k : bkey) (v : bstored) | BEvRemoved (k : bkey).

Definition bget (m : bdefs) k := get bkey_eqb m k.
Definition bhas (m : bdefs) k := has bkey_eqb m k.
Definition bremove (m : bdefs) k : bdefs := remove bkey_eqb m k.
Definition binsert (m : bdefs) k v : bdefs := insert bkey_eqb m k v.

Definition apply_bevent (m : bdefs) (e : bevent) : bdefs :=
  match e with
  | BEvAdded k v | BEvUpdated k v => binsert m k v
  | BEvRemoved k => bremove m k
  end.
Definition apply_bevents (m : bdefs) (es : list bevent) : bdefs := fold_left apply_bevent es m.

Fixpoint b_removals (cur : bdefs) (l : list bkey) : result (bdefs * list bevent) berr :=
  match l with
  | [] => Ok (cur, [])
  | k :: r =>
      if bhas cur k then
        match b_removals (bremove cur k) r with
        | Ok (m', evs) => Ok (m', BEvRemoved k :: evs)
        | Err e => Err e
        end
      else Err (BUnknown k)
  end.

Fixpoint b_additions (res : resources) (now : N) (cur : bdefs) (l : list bdef) : result (bdefs * list bevent) berr :=
  match l with
  | [] => Ok (cur, [])
  | d :: r =>
      if negb (bd_sig_ok d) then Err (BInvalidlySigned (bd_bkey d))
      else if negb (contains_asn res (bd_asn d)) then Err (BNotEntitled (bd_bkey d))
      else
        let v := (bd_csr d, now) in
        let '(cur', ev) :=
          match bget cur (bd_bkey d) with
          | Some old => if bstored_eqb old v then (cur, []) else (binsert cur (bd_bkey d) v, [BEvUpdated (bd_bkey d) v])
          | None => (binsert cur (bd_bkey d) v, [BEvAdded (bd_bkey d) v])
          end in
        match b_additions res now cur' r with
        | Ok (m', evs) => Ok (m', ev ++ evs)
        | Err e => Err e
        end
  end.

Definition b_process_updates (res : resources) (now : N) (m : bdefs) (u : bupdates) : result (bdefs * list bevent) berr :=
  match b_removals m (bu_remove u) with
  | Err e => Err e
  | Ok (m1, ev1) =>
      match b_additions res now m1 (bu_add u) with
      | Err e => Err e
      | Ok (m2, ev2) => Ok (m2, ev1 ++ ev2)
      end
  end.

Definition ca_bgpsec_update (res : resources) (now : N) (m : bdefs) (u : bupdates) : bdefs * list bevent * option berr :=
  match b_process_updates res now m u with
  | Ok (_, evs) => (apply_bevents m evs, evs, None)
  | Err e => (m, [], Some e)
  end.

Definition b_refuse_spec (res : resources) (m : bdefs) (u : bupdates) : bool :=
  existsb (fun k => negb (bhas m k)) (bu_remove u)
  || has_dup bkey_eqb (bu_remove u)
  || existsb (fun d => negb (bd_sig_ok d) || negb (contains_asn res (bd_asn d))) (bu_add u).
