(** Model of the child entitlement checks.
    Rust: src/server/ca/certauth.rs:1110-1133 (process_child_add),
    :1225-1268 (process_child_update_resources), :371-376, 444-448 (events).
    Resource sets are lists of merged blocks per kind (ASN, IPv4, IPv6);
    [rs_contains] is ResourceSet::contains (every block of the requested set lies
    inside one block of the holder). No proofs in this file. *)
From KV Require Import base.Tac conf.AMap conf.Roa.
Open Scope N_scope.

Definition rs_is_empty (r : resources) : bool :=
  match r_asn r, r_v4 r, r_v6 r with [], [], [] => true | _, _, _ => false end.

Definition ranges_contain (a b : list range) : bool := forallb (fun r => covered a (fst r) (snd r)) b.
Definition rs_contains (a b : resources) : bool :=
  ranges_contain (r_asn a) (r_asn b) && ranges_contain (r_v4 a) (r_v4 b) && ranges_contain (r_v6 a) (r_v6 b).

Definition range_eqb (a b : range) : bool := (fst a =? fst b) && (snd a =? snd b).
(** Equality of sets in merged, sorted form ("difference is empty" both ways). *)
Definition rs_eqb (a b : resources) : bool :=
  list_eqb range_eqb (r_asn a) (r_asn b) && list_eqb range_eqb (r_v4 a) (r_v4 b) && list_eqb range_eqb (r_v6 a) (r_v6 b).

Definition children : Type := amap (K := N) (V := resources).
Definition cget (m : children) c := get N.eqb m c.

Inductive cerr := CMustHaveResources | CExtraResources | CDuplicate | CUnknown.
Inductive cevent := CEvAdded (c : N) (r : resources) | CEvUpdated (c : N) (r : resources).

Definition child_add (held : resources) (m : children) (c : N) (r : resources) : result (list cevent) cerr :=
  if rs_is_empty r then Err CMustHaveResources
  else if negb (rs_contains held r) then Err CExtraResources
  else if has N.eqb m c then Err CDuplicate
  else Ok [CEvAdded c r].

(** certauth.rs:1225-1268; the empty-set check comes first (repaired tree 1b4277e7, finding F05c). *)
Definition child_update (held : resources) (m : children) (c : N) (r : resources) : result (list cevent) cerr :=
  if rs_is_empty r then Err CMustHaveResources
  else if negb (rs_contains held r) then Err CExtraResources
  else match cget m c with
       | None => Err CUnknown
       | Some cur => if rs_eqb r cur then Ok [] else Ok [CEvUpdated c r]
       end.

(** The originally pinned tree had no empty-set check in the update. *)
Definition child_update_pinned (held : resources) (m : children) (c : N) (r : resources) : result (list cevent) cerr :=
  if negb (rs_contains held r) then Err CExtraResources
  else match cget m c with
       | None => Err CUnknown
       | Some cur => if rs_eqb r cur then Ok [] else Ok [CEvUpdated c r]
       end.

Definition apply_cevent (m : children) (e : cevent) : children :=
  match e with
  | CEvAdded c r => insert N.eqb m c r
  | CEvUpdated c r => update N.eqb m c (fun _ => r)
  end.

Inductive cop := CAdd (c : N) (r : resources) | CUpdate (c : N) (r : resources).
Definition ca_child_op (held : resources) (m : children) (o : cop) : children * option cerr :=
  match (match o with CAdd c r => child_add held m c r | CUpdate c r => child_update held m c r end) with
  | Ok evs => (fold_left apply_cevent evs m, None)
  | Err e => (m, Some e)
  end.
