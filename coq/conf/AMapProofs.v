(** Lemmas about the association-list maps of AMap.v. *)
From KV Require Import base.Tac conf.AMap.

Section AMapProofs.
  Context {K V : Type}.
  Variable eqb : K -> K -> bool.
  Hypothesis eqb_spec : forall a b, eqb a b = true <-> a = b.

  Lemma eqb_refl a : eqb a a = true.
  Proof. apply eqb_spec; reflexivity. Qed.

  Lemma eqb_sym a b : eqb a b = eqb b a.
  Proof.
    destruct (eqb a b) eqn:E1, (eqb b a) eqn:E2; auto.
    - apply eqb_spec in E1; subst. rewrite eqb_refl in E2; discriminate.
    - apply eqb_spec in E2; subst. rewrite eqb_refl in E1; discriminate.
  Qed.

  Lemma eqb_false a b : eqb a b = false <-> a <> b.
  Proof.
    split.
    - intros E ->. rewrite eqb_refl in E; discriminate.
    - intros N. destruct (eqb a b) eqn:E; auto. apply eqb_spec in E; contradiction.
  Qed.

  Lemma eqb_trans_l a b c : eqb a b = true -> eqb a c = eqb b c.
  Proof. intros E; apply eqb_spec in E; subst; reflexivity. Qed.

  Notation get := (get (V := V) eqb).
  Notation has := (has (V := V) eqb).
  Notation remove := (remove (V := V) eqb).
  Notation insert := (insert (V := V) eqb).
  Notation update := (update (V := V) eqb).

  Lemma has_get m k : has m k = is_some (get m k).
  Proof. unfold AMap.has. destruct (get m k); reflexivity. Qed.

  Lemma get_remove m k k' : get (remove m k) k' = if eqb k k' then None else get m k'.
  Proof.
    induction m as [|[a v] m IH]; simpl.
    - destruct (eqb k k'); reflexivity.
    - destruct (eqb a k) eqn:Eak; simpl.
      + rewrite IH. rewrite (eqb_trans_l _ _ k' Eak). destruct (eqb k k'); reflexivity.
      + rewrite IH. destruct (eqb a k') eqn:Eak'; auto.
        destruct (eqb k k') eqn:Ekk'; auto.
        apply eqb_spec in Ekk'; subst. congruence.
  Qed.

  Lemma get_insert m k v k' : get (insert m k v) k' = if eqb k k' then Some v else get m k'.
  Proof.
    unfold AMap.insert; simpl. destruct (eqb k k') eqn:E; auto.
    rewrite get_remove, E. reflexivity.
  Qed.

  Lemma get_update m k f k' : get (update m k f) k' = if eqb k k' then option_map f (get m k') else get m k'.
  Proof.
    induction m as [|[a v] m IH]; simpl.
    - destruct (eqb k k'); reflexivity.
    - destruct (eqb a k) eqn:Eak; simpl.
      + rewrite (eqb_trans_l _ _ k' Eak). destruct (eqb k k') eqn:E; simpl; auto.
      + destruct (eqb a k') eqn:Eak'; simpl.
        * destruct (eqb k k') eqn:E; auto. apply eqb_spec in E; subst; congruence.
        * apply IH.
  Qed.

  Lemma get_filter_keys (f : K -> bool) m k :
    get (filter (fun e => f (fst e)) m) k = if f k then get m k else None.
  Proof.
    induction m as [|[a v] m IH]; simpl.
    - destruct (f k); reflexivity.
    - destruct (f a) eqn:Fa; simpl.
      + destruct (eqb a k) eqn:E.
        * apply eqb_spec in E; subst. rewrite Fa. reflexivity.
        * apply IH.
      + rewrite IH. destruct (eqb a k) eqn:E; auto.
        apply eqb_spec in E; subst. rewrite Fa. reflexivity.
  Qed.

  Lemma memb_In x l : memb eqb x l = true <-> In x l.
  Proof.
    unfold memb. rewrite existsb_exists. split.
    - intros [y [Hy E]]. apply eqb_spec in E; subst; auto.
    - intros H. exists x; split; auto. apply eqb_refl.
  Qed.

  Lemma memb_false x l : memb eqb x l = false <-> ~ In x l.
  Proof.
    rewrite <- memb_In. destruct (memb eqb x l); split; intros; congruence.
  Qed.

  Lemma memb_app x l1 l2 : memb eqb x (l1 ++ l2) = memb eqb x l1 || memb eqb x l2.
  Proof. unfold memb. apply existsb_app. Qed.

  Lemma has_dup_NoDup l : has_dup eqb l = false <-> NoDup l.
  Proof.
    induction l as [|x l IH]; simpl.
    - split; auto. constructor.
    - rewrite orb_false_iff, IH, memb_false. split.
      + intros [A B]; constructor; auto.
      + intros H; inversion H; auto.
  Qed.

  Lemma has_dup_true l : has_dup eqb l = true <-> ~ NoDup l.
  Proof.
    rewrite <- has_dup_NoDup. destruct (has_dup eqb l); split; intros; congruence.
  Qed.

  Lemma opt_eqb_spec (a b : option K) : opt_eqb eqb a b = true <-> a = b.
  Proof.
    destruct a, b; simpl; try (split; congruence).
    rewrite eqb_spec. split; congruence.
  Qed.

  Lemma list_eqb_spec (a b : list K) : list_eqb eqb a b = true <-> a = b.
  Proof.
    revert b; induction a as [|x a IH]; intros [|y b]; simpl; try (split; congruence).
    rewrite andb_true_iff, eqb_spec, IH. split; [intros [-> ->]; auto|intros H; inversion H; auto].
  Qed.
End AMapProofs.

Lemma find_app {A} (f : A -> bool) l1 l2 :
  find f (l1 ++ l2) = match find f l1 with Some x => Some x | None => find f l2 end.
Proof. induction l1 as [|x l1 IH]; simpl; auto. destruct (f x); auto. Qed.

Lemma find_last_app {A} (f : A -> bool) l1 l2 :
  find_last f (l1 ++ l2) = match find_last f l2 with Some x => Some x | None => find_last f l1 end.
Proof.
  induction l1 as [|x l1 IH]; simpl.
  - destruct (find_last f l2); reflexivity.
  - rewrite IH. destruct (find_last f l2); reflexivity.
Qed.

Lemma find_last_some {A} (f : A -> bool) l x : find_last f l = Some x -> In x l /\ f x = true.
Proof.
  induction l as [|a l IH]; simpl; [discriminate|].
  destruct (find_last f l) eqn:E.
  - intros H; inversion H; subst. destruct (IH eq_refl); auto.
  - destruct (f a) eqn:Fa; [|discriminate]. intros H; inversion H; subst; auto.
Qed.

Lemma find_last_none {A} (f : A -> bool) l : find_last f l = None <-> forall x, In x l -> f x = false.
Proof.
  induction l as [|a l IH]; simpl.
  - split; [intros _ x []|auto].
  - destruct (find_last f l) eqn:E.
    + split; [discriminate|]. intros H. apply find_last_some in E as [Hi Hf].
      rewrite H in Hf by auto. discriminate.
    + destruct (f a) eqn:Fa.
      * split; [discriminate|]. intros H. rewrite H in Fa by auto. discriminate.
      * split; auto. intros _ x [->|Hx]; auto. apply IH; auto.
Qed.
