(** Model of ASPA configuration validation.

    Rust sources (pinned tree):
    - src/server/ca/aspa.rs:89-184       AspaDefinitions::process_updates
    - src/server/ca/aspa.rs:44-79        add_or_replace / remove / apply_update
    - src/api/aspa.rs:115-150            AspaDefinition::{customer_used_as_provider,
                                         contains_duplicate_providers, apply_update}
    - src/server/ca/certauth.rs:607-617  application of the three ASPA configuration events
    - src/server/ca/certauth.rs:2298-2388 process_aspas_update, process_aspas_update_existing,
                                         updated_allowed_and_needed
    - rpki set.rs:133-138 ResourceSet::contains_asn

    Differences from the ROA code that matter: validation stops at the first
    error (no collection). The event for a replaced definition is computed
    against the working copy [all_aspas] as it is at that point of the request
    (repaired tree f9940a57, finding F01a); the originally pinned tree compared
    with the definition stored before the command ([self.get]): [*_pinned] below.

    No proofs in this file. *)
From KV Require Import base.Tac conf.AMap conf.Roa.
Open Scope N_scope.

Record aspa_def := mkAD { ad_cust : N; ad_provs : list N }.
Definition aspas : Type := amap (K := N) (V := list N).          (* customer -> providers *)
Record aspa_updates := mkAU { au_add : list aspa_def; au_remove : list N }.
Record prov_update := mkPU { pu_added : list N; pu_removed : list N }.

Inductive aspa_err :=
| ECustomerUnknown (c : N)
| EProvidersEmpty (c : N)
| ECustomerAsProvider (c : N)
| EProvidersDuplicates (c : N)
| ENotEntitled (c : N).

Inductive aevent :=
| AEvAdded (d : aspa_def)
| AEvUpdated (c : N) (u : prov_update)
| AEvRemoved (c : N).

Definition aget (m : aspas) (c : N) : option (list N) := get N.eqb m c.
Definition ahas (m : aspas) (c : N) : bool := has N.eqb m c.
Definition aremove (m : aspas) (c : N) : aspas := remove N.eqb m c.
Definition ainsert (m : aspas) (c : N) (ps : list N) : aspas := insert N.eqb m c ps.

(** Vec::sort on provider ASNs. *)
Fixpoint ins_sorted (x : N) (l : list N) : list N :=
  match l with [] => [x] | y :: r => if x <=? y then x :: l else y :: ins_sorted x r end.
Definition isort (l : list N) : list N := fold_right ins_sorted [] l.

(** AspaDefinition::apply_update (api/aspa.rs:139-150): lenient, sorts afterwards. *)
Definition retain_ne (ps : list N) (r : N) : list N := filter (fun p => negb (p =? r)) ps.
Definition push_new (ps : list N) (a : N) : list N := if memb N.eqb a ps then ps else ps ++ [a].
Definition apply_prov_update (ps : list N) (u : prov_update) : list N :=
  isort (fold_left push_new (pu_added u) (fold_left retain_ne (pu_removed u) ps)).

(** AspaDefinitions::apply_update (aspa.rs:56-79). *)
Definition aspas_apply_update (m : aspas) (c : N) (u : prov_update) : aspas :=
  match aget m c with
  | Some ps =>
      let ps' := apply_prov_update ps u in
      match ps' with [] => aremove m c | _ => ainsert m c ps' end
  | None => ainsert m c (apply_prov_update [] u)
  end.

Definition apply_aevent (m : aspas) (e : aevent) : aspas :=
  match e with
  | AEvAdded d => ainsert m (ad_cust d) (ad_provs d)
  | AEvUpdated c u => aspas_apply_update m c u
  | AEvRemoved c => aremove m c
  end.
Definition apply_aevents (m : aspas) (es : list aevent) : aspas := fold_left apply_aevent es m.

Definition customer_used_as_provider (d : aspa_def) : bool := memb N.eqb (ad_cust d) (ad_provs d).
(** sort + dedup + length comparison = "some provider occurs twice". *)
Definition contains_duplicate_providers (d : aspa_def) : bool := has_dup N.eqb (ad_provs d).

(** The four checks of aspa.rs:114-140, in their order. *)
Definition check_def (res : resources) (d : aspa_def) : option aspa_err :=
  match ad_provs d with
  | [] => Some (EProvidersEmpty (ad_cust d))
  | _ =>
      if customer_used_as_provider d then Some (ECustomerAsProvider (ad_cust d))
      else if contains_duplicate_providers d then Some (EProvidersDuplicates (ad_cust d))
      else if negb (contains_asn res (ad_cust d)) then Some (ENotEntitled (ad_cust d))
      else None
  end.

(** First loop (aspa.rs:101-110). *)
Fixpoint aspa_removals (cur : aspas) (l : list N) : result (aspas * list aevent) aspa_err :=
  match l with
  | [] => Ok (cur, [])
  | c :: r =>
      if ahas cur c then
        match aspa_removals (aremove cur c) r with
        | Ok (m', evs) => Ok (m', AEvRemoved c :: evs)
        | Err e => Err e
        end
      else Err (ECustomerUnknown c)
  end.

(** The event for an accepted definition (aspa.rs:142-185): the change relative to
    [cur], the working copy before this definition is put into it. *)
Definition diff_update (existing new : list N) : prov_update :=
  mkPU (filter (fun p => negb (memb N.eqb p existing)) new)
       (filter (fun p => negb (memb N.eqb p new)) existing).
Definition pu_is_empty (u : prov_update) : bool :=
  match pu_added u, pu_removed u with [], [] => true | _, _ => false end.
Definition def_events (cur : aspas) (d : aspa_def) : list aevent :=
  match aget cur (ad_cust d) with
  | None => [AEvAdded d]
  | Some existing =>
      let u := diff_update existing (ad_provs d) in
      if pu_is_empty u then [] else [AEvUpdated (ad_cust d) u]
  end.

(** Second loop (aspa.rs:112-186). *)
Fixpoint aspa_additions (res : resources) (cur : aspas) (l : list aspa_def) : result (aspas * list aevent) aspa_err :=
  match l with
  | [] => Ok (cur, [])
  | d :: r =>
      match check_def res d with
      | Some e => Err e
      | None =>
          match aspa_additions res (ainsert cur (ad_cust d) (ad_provs d)) r with
          | Ok (m', evs) => Ok (m', def_events cur d ++ evs)
          | Err e => Err e
          end
      end
  end.

Definition aspa_process_updates (res : resources) (m : aspas) (u : aspa_updates) : result (aspas * list aevent) aspa_err :=
  match aspa_removals m (au_remove u) with
  | Err e => Err e
  | Ok (m1, ev1) =>
      match aspa_additions res m1 (au_add u) with
      | Err e => Err e
      | Ok (m2, ev2) => Ok (m2, ev1 ++ ev2)
      end
  end.

(** The originally pinned tree: events computed against [self], the definitions
    stored before the command. *)
Fixpoint aspa_additions_pinned (res : resources) (self cur : aspas) (l : list aspa_def) : result (aspas * list aevent) aspa_err :=
  match l with
  | [] => Ok (cur, [])
  | d :: r =>
      match check_def res d with
      | Some e => Err e
      | None =>
          match aspa_additions_pinned res self (ainsert cur (ad_cust d) (ad_provs d)) r with
          | Ok (m', evs) => Ok (m', def_events self d ++ evs)
          | Err e => Err e
          end
      end
  end.
Definition aspa_process_updates_pinned (res : resources) (m : aspas) (u : aspa_updates) : result (aspas * list aevent) aspa_err :=
  match aspa_removals m (au_remove u) with
  | Err e => Err e
  | Ok (m1, ev1) =>
      match aspa_additions_pinned res m m1 (au_add u) with
      | Err e => Err e
      | Ok (m2, ev2) => Ok (m2, ev1 ++ ev2)
      end
  end.

(** The command as executed: stored configuration = events applied to the old one. *)
Definition ca_aspas_update (res : resources) (m : aspas) (u : aspa_updates) : aspas * list aevent * option aspa_err :=
  match aspa_process_updates res m u with
  | Ok (_, evs) => (apply_aevents m evs, evs, None)
  | Err e => (m, [], Some e)
  end.

(** * Update of the providers of one customer (certauth.rs:2314-2388) *)
Definition updated_allowed_and_needed (res : resources) (m : aspas) (c : N) (u : prov_update) : result bool aspa_err :=
  let existing := match aget m c with Some ps => ps | None => [] end in
  let updated := apply_prov_update existing u in
  if list_eqb N.eqb updated existing then Ok false
  else match updated with
       | [] => Ok true
       | _ => if negb (contains_asn res c) then Err (ENotEntitled c)
              else if memb N.eqb c updated then Err (ECustomerAsProvider c)
              else Ok true
       end.

Definition ca_aspas_update_existing (res : resources) (m : aspas) (c : N) (u : prov_update) : aspas * list aevent * option aspa_err :=
  match updated_allowed_and_needed res m c u with
  | Ok true => (aspas_apply_update m c u, [AEvUpdated c u], None)
  | Ok false => (m, [], None)
  | Err e => (m, [], Some e)
  end.

(** * Specification side *)
Definition def_malformed (res : resources) (d : aspa_def) : bool :=
  match ad_provs d with [] => true | _ => false end
  || memb N.eqb (ad_cust d) (ad_provs d)
  || has_dup N.eqb (ad_provs d)
  || negb (contains_asn res (ad_cust d)).

Definition aspa_refuse_spec (res : resources) (m : aspas) (u : aspa_updates) : bool :=
  existsb (fun c => negb (ahas m c)) (au_remove u)
  || has_dup N.eqb (au_remove u)
  || existsb (def_malformed res) (au_add u).

(** The configuration the request asks for: the last definition given for a
    customer; removed and not re-added customers are gone. *)
Definition aspa_expected_get (m : aspas) (u : aspa_updates) (c : N) : option (list N) :=
  match find_last (fun d => ad_cust d =? c) (au_add u) with
  | Some d => Some (ad_provs d)
  | None => if memb N.eqb c (au_remove u) then None else aget m c
  end.

(** Same set of providers (stored lists are sorted by apply_update, requested ones need not be). *)
Definition same_provs (a b : option (list N)) : Prop :=
  match a, b with
  | Some x, Some y => forall p, In p x <-> In p y
  | None, None => True
  | _, _ => False
  end.

(** Executable: sorted copy without repetitions, for comparing provider sets. *)
Fixpoint dedup_sorted (l : list N) : list N :=
  match l with
  | [] => []
  | x :: r => match r with y :: _ => if x =? y then dedup_sorted r else x :: dedup_sorted r | [] => [x] end
  end.
Definition prov_set (l : list N) : list N := dedup_sorted (isort l).
