(** Proofs about the BGPsec definition and child entitlement models. *)
From KV Require Import base.Tac conf.AMap conf.AMapProofs conf.Roa conf.RoaProofs conf.AspaProofs conf.Bgpsec conf.Child.
Open Scope N_scope.

Arguments bget : simpl never.
Arguments bhas : simpl never.
Arguments bremove : simpl never.
Arguments binsert : simpl never.
Arguments apply_bevents : simpl never.

Lemma bkey_eqb_spec a b : bkey_eqb a b = true <-> a = b.
Proof.
  destruct a as [a1 a2], b as [b1 b2]; unfold bkey_eqb; simpl.
  rewrite andb_true_iff, !N.eqb_eq. split; [intros [-> ->]; auto|intros H; inversion H; auto].
Qed.

Lemma bget_bremove m k k' : bget (bremove m k) k' = if bkey_eqb k k' then None else bget m k'.
Proof. apply (get_remove bkey_eqb bkey_eqb_spec). Qed.
Lemma bhas_bget m k : bhas m k = is_some (bget m k).
Proof. apply has_get. Qed.

Lemma apply_bevents_cons m e es : apply_bevents m (e :: es) = apply_bevents (apply_bevent m e) es.
Proof. reflexivity. Qed.
Lemma apply_bevents_app m a b : apply_bevents m (a ++ b) = apply_bevents (apply_bevents m a) b.
Proof. unfold apply_bevents. apply fold_left_app. Qed.

Lemma bhas_bremove cur k q : negb (bhas (bremove cur k) q) = bkey_eqb k q || negb (bhas cur q).
Proof. rewrite !bhas_bget, bget_bremove. destruct (bkey_eqb k q); reflexivity. Qed.

Lemma b_removals_is_err : forall l cur,
  is_err (b_removals cur l) = existsb (fun k => negb (bhas cur k)) l || has_dup bkey_eqb l.
Proof.
  induction l as [|k r IH]; intros cur; simpl; auto.
  destruct (bhas cur k) eqn:H; simpl; auto.
  specialize (IH (bremove cur k)).
  assert (E : existsb (fun q => negb (bhas (bremove cur k) q)) r
              = memb bkey_eqb k r || existsb (fun q => negb (bhas cur q)) r).
  { unfold memb. rewrite <- existsb_orb. apply existsb_ext'. intros q. apply bhas_bremove. }
  rewrite E in IH.
  destruct (b_removals (bremove cur k) r) as [[m' evs]|e]; simpl in *; rewrite IH;
    destruct (memb bkey_eqb k r), (existsb (fun q => negb (bhas cur q)) r), (has_dup bkey_eqb r); reflexivity.
Qed.

Definition bdef_bad (res : resources) (d : bdef) : bool := negb (bd_sig_ok d) || negb (contains_asn res (bd_asn d)).

Lemma b_additions_is_err res now : forall l cur,
  is_err (b_additions res now cur l) = existsb (bdef_bad res) l.
Proof.
  induction l as [|d r IH]; intros cur; simpl; auto.
  unfold bdef_bad at 1. destruct (bd_sig_ok d); simpl; auto.
  destruct (contains_asn res (bd_asn d)); simpl; auto.
  destruct (bget cur (bd_bkey d)) as [old|].
  - destruct (bstored_eqb old (bd_csr d, now)).
    + specialize (IH cur). destruct (b_additions res now cur r) as [[m' evs]|e]; simpl in *; auto.
    + specialize (IH (binsert cur (bd_bkey d) (bd_csr d, now))).
      destruct (b_additions res now (binsert cur (bd_bkey d) (bd_csr d, now)) r) as [[m' evs]|e]; simpl in *; auto.
  - specialize (IH (binsert cur (bd_bkey d) (bd_csr d, now))).
    destruct (b_additions res now (binsert cur (bd_bkey d) (bd_csr d, now)) r) as [[m' evs]|e]; simpl in *; auto.
Qed.

Theorem bgpsec_refuse_spec_correct res now m u : is_err (b_process_updates res now m u) = b_refuse_spec res m u.
Proof.
  unfold b_process_updates, b_refuse_spec.
  pose proof (b_removals_is_err (bu_remove u) m) as R.
  destruct (b_removals m (bu_remove u)) as [[m1 ev1]|e]; simpl in *.
  - rewrite <- R. simpl.
    pose proof (b_additions_is_err res now (bu_add u) m1) as A. unfold bdef_bad in A.
    destruct (b_additions res now m1 (bu_add u)) as [[m2 ev2]|e]; simpl in *; auto.
  - rewrite <- R. reflexivity.
Qed.

Theorem bgpsec_update_iff res now m u :
  is_err (b_process_updates res now m u) = true <->
  (exists k, In k (bu_remove u) /\ bget m k = None)
  \/ ~ NoDup (bu_remove u)
  \/ (exists d, In d (bu_add u) /\ (bd_sig_ok d = false \/ contains_asn res (bd_asn d) = false)).
Proof.
  rewrite bgpsec_refuse_spec_correct. unfold b_refuse_spec.
  rewrite !orb_true_iff, !existsb_exists, (has_dup_true bkey_eqb bkey_eqb_spec). split.
  - intros [[(k & Hk & H)|H]|(d & Hd & H)].
    + left. exists k. split; auto. rewrite bhas_bget in H. destruct (bget m k); [discriminate|auto].
    + right; left; auto.
    + right; right. exists d. split; auto. apply orb_true_iff in H as [H|H]; apply negb_true_iff in H; auto.
  - intros [(k & Hk & H)|[H|(d & Hd & H)]].
    + left; left. exists k. split; auto. rewrite bhas_bget, H. reflexivity.
    + left; right; auto.
    + right. exists d. split; auto. apply orb_true_iff. destruct H as [H|H]; rewrite H; auto.
Qed.

Theorem bgpsec_update_atomic res now m u m' evs e :
  ca_bgpsec_update res now m u = (m', evs, Some e) -> m' = m /\ evs = [].
Proof.
  unfold ca_bgpsec_update. destruct (b_process_updates res now m u) as [[m2 ev]|e']; [discriminate|].
  intros H; inversion H; auto.
Qed.

(** The events reproduce exactly the definitions the objects are issued from. *)
Lemma b_removals_replay : forall l cur m1 ev1, b_removals cur l = Ok (m1, ev1) -> apply_bevents cur ev1 = m1.
Proof.
  induction l as [|k r IH]; intros cur m1 ev1; simpl.
  - intros H; inversion H; auto.
  - destruct (bhas cur k); [|discriminate].
    destruct (b_removals (bremove cur k) r) as [[m' evs]|e] eqn:E; [|discriminate].
    intros H; inversion H; subst. rewrite apply_bevents_cons. apply (IH _ _ _ E).
Qed.

Lemma b_additions_replay res now : forall l cur m2 ev2, b_additions res now cur l = Ok (m2, ev2) -> apply_bevents cur ev2 = m2.
Proof.
  induction l as [|d r IH]; intros cur m2 ev2; simpl.
  - intros H; inversion H; auto.
  - destruct (bd_sig_ok d); simpl; [|discriminate].
    destruct (contains_asn res (bd_asn d)); simpl; [|discriminate].
    destruct (bget cur (bd_bkey d)) as [old|].
    + destruct (bstored_eqb old (bd_csr d, now)).
      * destruct (b_additions res now cur r) as [[m' evs]|e] eqn:E; [|discriminate].
        intros H; inversion H; subst. simpl. apply (IH _ _ _ E).
      * destruct (b_additions res now (binsert cur (bd_bkey d) (bd_csr d, now)) r) as [[m' evs]|e] eqn:E; [|discriminate].
        intros H; inversion H; subst. simpl. rewrite apply_bevents_cons. apply (IH _ _ _ E).
    + destruct (b_additions res now (binsert cur (bd_bkey d) (bd_csr d, now)) r) as [[m' evs]|e] eqn:E; [|discriminate].
      intros H; inversion H; subst. simpl. rewrite apply_bevents_cons. apply (IH _ _ _ E).
Qed.

Theorem bgpsec_replay_exact res now m u defs evs :
  b_process_updates res now m u = Ok (defs, evs) -> apply_bevents m evs = defs.
Proof.
  unfold b_process_updates.
  destruct (b_removals m (bu_remove u)) as [[m1 ev1]|e1] eqn:E1; [|discriminate].
  destruct (b_additions res now m1 (bu_add u)) as [[m2 ev2]|e2] eqn:E2; [|discriminate].
  intros H; inversion H; subst. rewrite apply_bevents_app, (b_removals_replay _ _ _ _ E1).
  apply (b_additions_replay _ _ _ _ _ _ E2).
Qed.

Definition bg_res : resources := mkRes [(64512, 64600)] [] [].
Example bgpsec_update_iff_nonvacuous :
  ca_bgpsec_update bg_res 5 [((64512, 1), (10, 1))] (mkBU [mkBD 64513 2 11 true; mkBD 64512 1 12 true] [])
  = ([((64512, 1), (12, 5)); ((64513, 2), (11, 5))], [BEvAdded (64513, 2) (11, 5); BEvUpdated (64512, 1) (12, 5)], None)
  /\ ca_bgpsec_update bg_res 5 [] (mkBU [mkBD 64513 2 11 false] []) = ([], [], Some (BInvalidlySigned (64513, 2)))
  /\ ca_bgpsec_update bg_res 5 [] (mkBU [mkBD 65000 2 11 true] []) = ([], [], Some (BNotEntitled (65000, 2)))
  /\ ca_bgpsec_update bg_res 5 [] (mkBU [] [(64512, 1)]) = ([], [], Some (BUnknown (64512, 1))).
Proof. vm_compute. auto. Qed.

(** * Children *)
Theorem child_add_iff held m c r :
  is_err (child_add held m c r) = true <->
  rs_is_empty r = true \/ rs_contains held r = false \/ cget m c <> None.
Proof.
  unfold child_add, cget. rewrite (has_get N.eqb).
  destruct (rs_is_empty r); simpl; [split; auto|].
  destruct (rs_contains held r); simpl; [|split; auto].
  destruct (get N.eqb m c); simpl.
  - split; auto. intros _. right; right. discriminate.
  - split; [discriminate|]. intros [H|[H|H]]; try discriminate. contradiction.
Qed.

Theorem child_update_iff held m c r :
  is_err (child_update held m c r) = true <->
  rs_is_empty r = true \/ rs_contains held r = false \/ cget m c = None.
Proof.
  unfold child_update.
  destruct (rs_is_empty r); simpl; [split; auto|].
  destruct (rs_contains held r); simpl; [|split; auto].
  destruct (cget m c) as [cur|]; simpl.
  - destruct (rs_eqb r cur); simpl; split; try discriminate; intros [H|[H|H]]; discriminate.
  - split; auto.
Qed.

Theorem child_refused_unchanged held m o m' e : ca_child_op held m o = (m', Some e) -> m' = m.
Proof.
  unfold ca_child_op. destruct o; [destruct (child_add held m c r)|destruct (child_update held m c r)];
    intros H; inversion H; auto.
Qed.

(** An accepted child addition entitles the child to something the CA holds. *)
Theorem child_add_ok_spec held m c r evs :
  child_add held m c r = Ok evs ->
  evs = [CEvAdded c r] /\ rs_is_empty r = false /\ rs_contains held r = true /\ cget m c = None.
Proof.
  unfold child_add, cget. rewrite (has_get N.eqb).
  destruct (rs_is_empty r); [discriminate|]. destruct (rs_contains held r); simpl; [|discriminate].
  destruct (get N.eqb m c); simpl; [discriminate|]. intros H; inversion H; auto.
Qed.

Definition cu_held : resources := mkRes [(64512, 64600)] [(167772160, 184549375)] [].
Definition cu_children : children := [(1, mkRes [(64512, 64512)] [] [])].

(** An accepted update never leaves the child entitled to nothing, and whatever it
    entitles the child to is held by the CA. *)
Theorem child_update_ok_spec held m c r evs :
  child_update held m c r = Ok evs ->
  rs_is_empty r = false /\ rs_contains held r = true
  /\ exists cur, cget m c = Some cur /\ (evs = [] /\ rs_eqb r cur = true \/ evs = [CEvUpdated c r]).
Proof.
  unfold child_update. destruct (rs_is_empty r); [discriminate|].
  destruct (rs_contains held r); simpl; [|discriminate].
  destruct (cget m c) as [cur|]; [|discriminate].
  destruct (rs_eqb r cur) eqn:E; intros H; inversion H; repeat split; auto; exists cur; auto.
Qed.

Theorem child_update_nonempty held m c r evs : child_update held m c r = Ok evs -> rs_is_empty r = false.
Proof. intros H. apply (child_update_ok_spec _ _ _ _ _ H). Qed.

(** The originally pinned tree (finding F05c, repaired in 1b4277e7) accepted the empty set. *)
Example child_update_nonempty_pinned_refuted :
  child_update_pinned cu_held cu_children 1 (mkRes [] [] []) = Ok [CEvUpdated 1 (mkRes [] [] [])]
  /\ child_update cu_held cu_children 1 (mkRes [] [] []) = Err CMustHaveResources.
Proof. vm_compute. auto. Qed.

Example child_add_iff_nonvacuous :
  ca_child_op cu_held cu_children (CAdd 2 (mkRes [] [(167772160, 167772415)] [])) =
    ((2, mkRes [] [(167772160, 167772415)] []) :: cu_children, None)
  /\ ca_child_op cu_held cu_children (CAdd 2 (mkRes [] [(3232235520, 3232235775)] [])) = (cu_children, Some CExtraResources)
  /\ ca_child_op cu_held cu_children (CAdd 2 (mkRes [] [] [])) = (cu_children, Some CMustHaveResources)
  /\ ca_child_op cu_held cu_children (CUpdate 3 (mkRes [(64512, 64512)] [] [])) = (cu_children, Some CUnknown)
  /\ ca_child_op cu_held cu_children (CUpdate 1 (mkRes [(64513, 64513)] [] [])) = ([(1, mkRes [(64513, 64513)] [] [])], None).
Proof. vm_compute. auto. Qed.
