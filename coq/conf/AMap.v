(** Association-list model of the HashMap-backed configuration stores of a CA
    (Routes.map, AspaDefinitions.attestations, BgpSecDefinitions.0, children).
    A map is a list of (key, value); [get] reads the first binding, [remove]
    deletes every binding of the key, [insert] = HashMap::insert (overwrite).
    Iteration order of the real HashMap is never observed by the modelled
    functions, so all statements about maps are stated through [get].
    No proofs in this file. *)
From KV Require Import base.Tac.

Section AMap.
  Context {K V : Type}.
  Variable eqb : K -> K -> bool.

  Definition amap : Type := list (K * V).

  Fixpoint get (m : amap) (k : K) : option V :=
    match m with
    | [] => None
    | (k', v) :: r => if eqb k' k then Some v else get r k
    end.

  Definition has (m : amap) (k : K) : bool :=
    match get m k with Some _ => true | None => false end.

  Definition remove (m : amap) (k : K) : amap :=
    filter (fun e => negb (eqb (fst e) k)) m.

  Definition insert (m : amap) (k : K) (v : V) : amap := (k, v) :: remove m k.

  (** HashMap::get_mut + assignment: changes the value if the key is bound. *)
  Definition update (m : amap) (k : K) (f : V -> V) : amap :=
    map (fun e => if eqb (fst e) k then (fst e, f (snd e)) else e) m.

  Definition keys (m : amap) : list K := map fst m.
End AMap.

Definition memb {A} (eqb : A -> A -> bool) (x : A) (l : list A) : bool := existsb (eqb x) l.

(** "the list has two equal elements" - Vec::sort + Vec::dedup + length
    comparison of [contains_duplicate_providers], and repeated keys of a request. *)
Fixpoint has_dup {A} (eqb : A -> A -> bool) (l : list A) : bool :=
  match l with
  | [] => false
  | x :: r => memb eqb x r || has_dup eqb r
  end.

Definition is_some {A} (o : option A) : bool := match o with Some _ => true | None => false end.

Definition opt_eqb {A} (eqb : A -> A -> bool) (a b : option A) : bool :=
  match a, b with
  | None, None => true
  | Some x, Some y => eqb x y
  | _, _ => false
  end.

Fixpoint list_eqb {A} (eqb : A -> A -> bool) (a b : list A) : bool :=
  match a, b with
  | [], [] => true
  | x :: a', y :: b' => eqb x y && list_eqb eqb a' b'
  | _, _ => false
  end.

(** Last element satisfying [f]. *)
Fixpoint find_last {A} (f : A -> bool) (l : list A) : option A :=
  match l with
  | [] => None
  | x :: r => match find_last f r with Some y => Some y | None => if f x then Some x else None end
  end.
