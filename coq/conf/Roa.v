(** Model of ROA delta validation.

    Rust sources (pinned tree):
    - src/server/ca/roa.rs:148-232      Routes::process_updates
    - src/server/ca/roa.rs:115-135      Routes::add / update_comment / remove
    - src/server/ca/certauth.rs:586-596 application of the three route events
    - src/server/ca/certauth.rs:2216-2226 process_route_authorizations_update
      (set_explicit_max_length, then process_updates)
    - src/api/roa.rs:62-74,85-90,112-125,536-539  RoaPayload::{set_explicit_max_length,
      effective_max_length, max_length_valid}, RoaConfigurationUpdates::set_explicit_max_length
    - src/api/roa.rs:85-91 RoaPayload::is_held_by; rpki-0.19.2 repository/resources/
      ipres.rs:410-418 IpBlocks::contains_roa, ipres.rs:1579-1586 Addr::from_v4/from_v6,
      ipres.rs:1624-1644 Addr::to_min/to_max.

    Addresses: the [rpki] crate keeps every address, v4 or v6, in one 128-bit
    integer [Addr]; an IPv4 address is shifted left by 96 bits. A prefix is
    (family, address in the family's own width, length). [lo128]/[hi128] are the
    bounds [Prefix::range] computes in the shared 128-bit space; [plo]/[phi] are
    the bounds in the family's own address space (what "the CA holds the prefix"
    means).

    No proofs in this file. *)
From KV Require Import base.Tac conf.AMap.
Open Scope N_scope.

(** * Prefixes *)
Inductive fam := V4 | V6.
Definition fam_eqb (a b : fam) : bool :=
  match a, b with V4, V4 | V6, V6 => true | _, _ => false end.
Definition alen (f : fam) : N := match f with V4 => 32 | V6 => 128 end.

Record prefix := mkP { p_fam : fam; p_addr : N; p_len : N }.

(** Type invariant of Ipv4Prefix/Ipv6Prefix/Prefix (api/roa.rs:829-840, 934-945;
    ipres.rs:1305-1316: "the unused bits are zero", length at most the family's). *)
Definition wf_prefix (p : prefix) : bool :=
  (p_len p <=? alen (p_fam p)) && (p_addr p <? 2 ^ alen (p_fam p))
  && (p_addr p mod 2 ^ (alen (p_fam p) - p_len p) =? 0).

Definition prefix_eqb (a b : prefix) : bool :=
  fam_eqb (p_fam a) (p_fam b) && (p_addr a =? p_addr b) && (p_len a =? p_len b).

(** Bounds in the family's own address space. *)
Definition plo (p : prefix) : N := p_addr p.
Definition phi (p : prefix) : N := p_addr p + 2 ^ (alen (p_fam p) - p_len p) - 1.

(** Bounds as [Prefix::range] computes them: [Addr::from_v4] shifts by 96,
    [to_max len] sets the low [128 - len] bits. *)
Definition shift_of (f : fam) : N := 128 - alen f.
Definition lo128 (p : prefix) : N := p_addr p * 2 ^ shift_of (p_fam p).
Definition hi128 (p : prefix) : N := lo128 p + 2 ^ (128 - p_len p) - 1.

(** * Held resources *)
Definition range : Type := (N * N)%type.            (* inclusive (min, max) *)

(** [r_v4] in 32-bit numbers, [r_v6] in 128-bit numbers, [r_asn] AS ranges. *)
Record resources := mkRes { r_asn : list range; r_v4 : list range; r_v6 : list range }.

Definition range_covers (r : range) (lo hi : N) : bool := (fst r <=? lo) && (hi <=? snd r).
Definition covered (rs : list range) (lo hi : N) : bool := existsb (fun r => range_covers r lo hi) rs.

(** An IPv4 block (a, b) as kept in IpBlocks: min = a << 96, max = (b << 96) | (2^96 - 1). *)
Definition up4 (r : range) : range := (fst r * 2 ^ 96, snd r * 2 ^ 96 + (2 ^ 96 - 1)).

(** What it means to hold a prefix: one block *of the prefix's family* covers it
    (IpBlocks are kept merged, so "one block" is "the union", see RoaProofs). *)
Definition fam_ranges (res : resources) (f : fam) : list range :=
  match f with V4 => r_v4 res | V6 => r_v6 res end.
Definition holds_prefix (res : resources) (p : prefix) : bool :=
  covered (fam_ranges res (p_fam p)) (plo p) (phi p).

(** What the code checks (api/roa.rs:85-91, RoaPayload::is_held_by, repaired tree,
    finding F05a): [contains_roa] on the blocks *of the prefix's own family*, with
    the 128-bit range of the prefix. *)
Definition is_held_by (res : resources) (p : prefix) : bool :=
  match p_fam p with
  | V4 => covered (map up4 (r_v4 res)) (lo128 p) (hi128 p)
  | V6 => covered (r_v6 res) (lo128 p) (hi128 p)
  end.

(** The originally pinned tree called ResourceSet::contains_roa_address
    ([self.ipv4.contains_roa(a) || self.ipv6.contains_roa(a)], rpki set.rs:141-143):
    both families' blocks on the 128-bit range - the family was not looked at. *)
Definition contains_roa_address_pinned (res : resources) (p : prefix) : bool :=
  covered (map up4 (r_v4 res)) (lo128 p) (hi128 p) || covered (r_v6 res) (lo128 p) (hi128 p).

Definition contains_asn (res : resources) (a : N) : bool := covered (r_asn res) a a.

(** * Payloads, configurations, deltas *)
Record payload := mkPl { pl_asn : N; pl_pfx : prefix; pl_max : option N }.
(** Derived Eq/Hash of RoaPayload: an absent max length differs from an explicit one. *)
Definition payload_eqb (a b : payload) : bool :=
  (pl_asn a =? pl_asn b) && prefix_eqb (pl_pfx a) (pl_pfx b) && opt_eqb N.eqb (pl_max a) (pl_max b).

(** Comments are abstracted to numbers (only equality is used). *)
Definition comment : Type := option N.
Definition comment_eqb : comment -> comment -> bool := opt_eqb N.eqb.

Record roa_conf := mkRC { rc_pl : payload; rc_comment : comment }.
Record delta := mkD { d_added : list roa_conf; d_removed : list payload }.

Definition effective_max_length (p : payload) : N :=
  match pl_max p with None => p_len (pl_pfx p) | Some m => m end.

(** api/roa.rs:112-125 *)
Definition max_length_valid (p : payload) : bool :=
  match pl_max p with
  | Some m => (p_len (pl_pfx p) <=? m) && (m <=? alen (p_fam (pl_pfx p)))
  | None => true
  end.

(** api/roa.rs:62-65, 536-539 *)
Definition explicit_pl (p : payload) : payload := mkPl (pl_asn p) (pl_pfx p) (Some (effective_max_length p)).
Definition explicit_rc (c : roa_conf) : roa_conf := mkRC (explicit_pl (rc_pl c)) (rc_comment c).
Definition explicit_delta (d : delta) : delta := mkD (map explicit_rc (d_added d)) (map explicit_pl (d_removed d)).

(** * Routes: payload -> comment (RouteInfo.since is a time stamp, group is always None) *)
Definition routes : Type := amap (K := payload) (V := comment).
Definition rget (m : routes) (k : payload) : option comment := get payload_eqb m k.
Definition rhas (m : routes) (k : payload) : bool := has payload_eqb m k.
Definition rremove (m : routes) (k : payload) : routes := remove payload_eqb m k.
(** Routes::add inserts RouteInfo::default(), i.e. no comment. *)
Definition radd (m : routes) (k : payload) : routes := insert payload_eqb m k None.
Definition rcomment (m : routes) (k : payload) (c : comment) : routes := update payload_eqb m k (fun _ => c).

Inductive event :=
| EvRemoved (k : payload)
| EvAdded (k : payload)
| EvComment (k : payload) (c : comment).

Definition apply_event (m : routes) (e : event) : routes :=
  match e with
  | EvRemoved k => rremove m k
  | EvAdded k => radd m k
  | EvComment k c => rcomment m k c
  end.
Definition apply_events (m : routes) (es : list event) : routes := fold_left apply_event es m.

(** RoaDeltaError: four lists, in the order the offending entries are met. *)
Record errs := mkErr { e_dup : list roa_conf; e_notheld : list roa_conf; e_unknown : list payload; e_invalid : list roa_conf }.
Definition no_errs : errs := mkErr [] [] [] [].
Definition errs_empty (e : errs) : bool :=
  match e_dup e, e_notheld e, e_unknown e, e_invalid e with [], [], [], [] => true | _, _, _, _ => false end.

(** * process_updates *)

(** First loop (roa.rs:161-169). Returns the tracked routes, the events and the unknown removals. *)
Fixpoint do_removals (m : routes) (l : list payload) : routes * list event * list payload :=
  match l with
  | [] => (m, [], [])
  | p :: r =>
      if rhas m p then
        let '(m', evs, unk) := do_removals (rremove m p) r in (m', EvRemoved p :: evs, unk)
      else
        let '(m', evs, unk) := do_removals m r in (m', evs, p :: unk)
  end.

(** The [if / else if] chain of the second loop (roa.rs:178-223), in its order. *)
Inductive add_class := AInvalid | ANotHeld | AComment | ADup | ANew.

Definition classify (res : resources) (dm : routes) (c : roa_conf) : add_class :=
  if negb (max_length_valid (rc_pl c)) then AInvalid
  else if negb (is_held_by res (pl_pfx (rc_pl c))) then ANotHeld
  else match rget dm (rc_pl c) with
       | Some cm => if comment_eqb cm (rc_comment c) then ADup else AComment
       | None => ANew
       end.

Definition add_dup (e : errs) c := mkErr (c :: e_dup e) (e_notheld e) (e_unknown e) (e_invalid e).
Definition add_notheld (e : errs) c := mkErr (e_dup e) (c :: e_notheld e) (e_unknown e) (e_invalid e).
Definition add_invalid (e : errs) c := mkErr (e_dup e) (e_notheld e) (e_unknown e) (c :: e_invalid e).

(** Events of a new entry: Added, then a Comment event only when a comment is given. *)
Definition new_events (c : roa_conf) : list event :=
  EvAdded (rc_pl c) :: match rc_comment c with Some _ => [EvComment (rc_pl c) (rc_comment c)] | None => [] end.
(** ... and what is tracked in [desired_routes] for it. *)
Definition track_new (dm : routes) (c : roa_conf) : routes :=
  match rc_comment c with
  | Some _ => rcomment (radd dm (rc_pl c)) (rc_pl c) (rc_comment c)
  | None => radd dm (rc_pl c)
  end.

(** Second loop. Note that a comment change is *not* tracked in [desired_routes]
    (roa.rs:191-197 pushes the event only). *)
Fixpoint do_additions (res : resources) (dm : routes) (l : list roa_conf) : routes * list event * errs :=
  match l with
  | [] => (dm, [], no_errs)
  | c :: r =>
      match classify res dm c with
      | AInvalid => let '(m', evs, e) := do_additions res dm r in (m', evs, add_invalid e c)
      | ANotHeld => let '(m', evs, e) := do_additions res dm r in (m', evs, add_notheld e c)
      | ADup => let '(m', evs, e) := do_additions res dm r in (m', evs, add_dup e c)
      | AComment => let '(m', evs, e) := do_additions res dm r in (m', EvComment (rc_pl c) (rc_comment c) :: evs, e)
      | ANew => let '(m', evs, e) := do_additions res (track_new dm c) r in (m', new_events c ++ evs, e)
      end
  end.

Inductive result (A E : Type) := Ok (a : A) | Err (e : E).
Arguments Ok {A E} a.
Arguments Err {A E} e.
Definition is_err {A E} (r : result A E) : bool := match r with Err _ => true | Ok _ => false end.

Definition process_updates (res : resources) (m : routes) (d : delta) : result (routes * list event) errs :=
  let '(m1, ev1, unk) := do_removals m (d_removed d) in
  let '(m2, ev2, e) := do_additions res m1 (d_added d) in
  let e' := mkErr (e_dup e) (e_notheld e) unk (e_invalid e) in
  if errs_empty e' then Ok (m2, ev1 ++ ev2) else Err e'.

(** * The command as the CA executes it (certauth.rs:2216-2226 + event application):
    new route configuration, stored events, outcome. *)
Definition ca_routes_update (res : resources) (m : routes) (d : delta) : routes * list event * option errs :=
  match process_updates res m (explicit_delta d) with
  | Ok (_, evs) => (apply_events m evs, evs, None)
  | Err e => (m, [], Some e)
  end.

(** * Specification side (what the property text says), executable *)

(** The comment the code sees for payload [k] when it reaches an added entry
    that is preceded by [pre] in the request, starting from [dm] (the routes left
    after the removals): the stored comment if [k] is configured, otherwise that
    of the first earlier acceptable entry for [k]. *)
Definition acceptable (res : resources) (c : roa_conf) : bool :=
  max_length_valid (rc_pl c) && is_held_by res (pl_pfx (rc_pl c)).

Definition eff_get (res : resources) (dm : routes) (pre : list roa_conf) (k : payload) : option comment :=
  match rget dm k with
  | Some c => Some c
  | None => option_map rc_comment (find (fun x => payload_eqb (rc_pl x) k && acceptable res x) pre)
  end.

Definition remove_all (m : routes) (l : list payload) : routes :=
  filter (fun e => negb (memb payload_eqb (fst e) l)) m.

(** Entry [c], preceded by [pre], is "already present with the same comment". *)
Definition is_dup_at (res : resources) (dm : routes) (pre : list roa_conf) (c : roa_conf) : bool :=
  acceptable res c && opt_eqb comment_eqb (eff_get res dm pre (rc_pl c)) (Some (rc_comment c)).

(** Positional filter: keeps [x] when [f pre x], [pre] being what precedes [x]. *)
Fixpoint filter_ctx {A} (f : list A -> A -> bool) (pre l : list A) : list A :=
  match l with
  | [] => []
  | x :: r => (if f pre x then [x] else []) ++ filter_ctx f (pre ++ [x]) r
  end.

Definition spec_invalid (d : delta) : list roa_conf := filter (fun c => negb (max_length_valid (rc_pl c))) (d_added d).
Definition spec_notheld (res : resources) (d : delta) : list roa_conf :=
  filter (fun c => max_length_valid (rc_pl c) && negb (is_held_by res (pl_pfx (rc_pl c)))) (d_added d).
Definition spec_unknown (m : routes) (d : delta) : list payload :=
  filter_ctx (fun pre p => negb (rhas m p) || memb payload_eqb p pre) [] (d_removed d).
Definition spec_dup (res : resources) (m : routes) (d : delta) : list roa_conf :=
  filter_ctx (is_dup_at res (remove_all m (d_removed d))) [] (d_added d).

(** Right-hand side of the accept/refuse characterisation, as a boolean. *)
Definition refuse_spec (res : resources) (m : routes) (d : delta) : bool :=
  existsb (fun c => negb (max_length_valid (rc_pl c))) (d_added d)
  || existsb (fun c => negb (is_held_by res (pl_pfx (rc_pl c)))) (d_added d)
  || existsb (fun p => negb (rhas m p)) (d_removed d)
  || has_dup payload_eqb (d_removed d)
  || negb (match spec_dup res m d with [] => true | _ => false end).

(** Expected configuration after an accepted delta: the last added entry for a
    payload decides its comment; removed and not re-added payloads are gone. *)
Definition expected_get (m : routes) (d : delta) (k : payload) : option comment :=
  match find_last (fun c => payload_eqb (rc_pl c) k) (d_added d) with
  | Some c => Some (rc_comment c)
  | None => if memb payload_eqb k (d_removed d) then None else rget m k
  end.
