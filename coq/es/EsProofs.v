(** C06: replay from init = replay from any snapshot = live state, for every operation history. *)
From KV Require Import base.Tac es.Es.
Open Scope N_scope.

Section EsProofs.
  Variable S : Type.
  Variable Ev : Type.
  Variable init : S.
  Variable apply : S -> Ev -> S.

  Notation agg := (agg S).
  Notation stored := (stored Ev).
  Notation store := (store S Ev).
  Notation replay := (replay S Ev init apply).
  Notation apply_stored := (apply_stored S Ev apply).
  Notation load := (load S Ev init apply).

  (** [a] is what replaying a prefix of the stored commands gives. *)
  Definition prefix_of (cs : list stored) (a : agg) : Prop :=
    exists n, (n <= length cs)%nat /\ a = replay (firstn n cs) /\ a_ver S a = N.of_nat n + 1.

  Definition consistent (st : store) : Prop :=
    (forall a, cache S Ev st = Some a -> prefix_of (cmds S Ev st) a) /\
    (forall a, snap S Ev st = Some a -> prefix_of (cmds S Ev st) a).

  Lemma fold_ver : forall l (a : agg), a_ver S (fold_left apply_stored l a) = a_ver S a + N.of_nat (length l).
  Proof. induction l as [|c l IH]; intros a; simpl; [lia|]. rewrite IH. simpl. lia. Qed.

  Lemma replay_ver cs : a_ver S (replay cs) = N.of_nat (length cs) + 1.
  Proof. unfold replay. rewrite fold_ver. simpl. lia. Qed.

  Lemma fold_app (l1 l2 : list stored) (a : agg) :
    fold_left apply_stored (l1 ++ l2) a = fold_left apply_stored l2 (fold_left apply_stored l1 a).
  Proof. apply fold_left_app. Qed.

  Lemma catch_up_prefix cs a : prefix_of cs a -> catch_up S Ev apply a cs = replay cs.
  Proof.
    intros [n [Hn [-> Hv]]]. unfold catch_up. rewrite Hv.
    replace (N.to_nat (N.of_nat n + 1 - 1)) with n by lia.
    unfold replay. rewrite <- fold_app. rewrite firstn_skipn. reflexivity.
  Qed.

  Lemma initial_prefix cs : prefix_of cs (initial S init).
  Proof. exists 0%nat. split; [lia|]. split; reflexivity. Qed.

  (** Loading gives the full replay, whatever the cache and snapshot hold (as long as they are consistent). *)
  Theorem load_is_replay st : consistent st -> load st = replay (cmds S Ev st).
  Proof.
    intros [Hc Hs]. unfold load, start. apply catch_up_prefix.
    destruct (cache S Ev st) as [a|] eqn:E; [apply Hc; reflexivity|].
    destruct (snap S Ev st) as [a|] eqn:E2; [apply Hs; reflexivity|apply initial_prefix].
  Qed.

  Lemma prefix_full cs : prefix_of cs (replay cs).
  Proof.
    exists (length cs). split; [lia|]. split; [rewrite firstn_all; reflexivity|apply replay_ver].
  Qed.

  Lemma prefix_extend cs c a : prefix_of cs a -> prefix_of (cs ++ [c]) a.
  Proof.
    intros [n [Hn [-> Hv]]]. exists n. split; [rewrite app_length; simpl; lia|]. split; auto.
    rewrite firstn_app. replace (n - length cs)%nat with 0%nat by lia. simpl. rewrite app_nil_r. reflexivity.
  Qed.

  Lemma replay_snoc cs c : replay (cs ++ [c]) = apply_stored (replay cs) c.
  Proof. unfold replay. rewrite fold_app. reflexivity. Qed.

  (** Every store operation keeps consistency. *)
  Theorem sstep_consistent st o : consistent st -> consistent (sstep S Ev init apply st o).
  Proof.
    intros H. pose proof (load_is_replay st H) as L. destruct H as [Hc Hs].
    destruct o as [[evs| | |evs]| | | |]; simpl; unfold send, get_latest, save_snapshot, drop_cache, delete_snapshot; simpl;
      split; simpl; intros a Ha; try discriminate;
      try (inv Ha; fold (load st); rewrite L; rewrite <- replay_snoc; apply prefix_full);
      try (inv Ha; fold (load st); rewrite L; apply prefix_full);
      try (apply prefix_extend; auto; fail); auto.
  Qed.

  Fixpoint run (st : store) (os : list (sop Ev)) : store :=
    match os with [] => st | o :: r => run (sstep S Ev init apply st o) r end.

  Theorem run_consistent os : forall st, consistent st -> consistent (run st os).
  Proof. induction os as [|o os IH]; intros st H; simpl; auto. apply IH. apply sstep_consistent. auto. Qed.

  Lemma empty_consistent : consistent (empty_store S Ev).
  Proof. split; intros a H; discriminate H. Qed.

  (** C06: for every history of operations, the live (cached) state, the state loaded from any stored
      snapshot plus the later commands, and the state replayed from the initialisation agree. *)
  Theorem replay_eq_live os a :
    cache S Ev (run (empty_store S Ev) os) = Some a ->
    exists n, (n <= length (cmds S Ev (run (empty_store S Ev) os)))%nat /\
      a = replay (firstn n (cmds S Ev (run (empty_store S Ev) os))).
  Proof.
    intros H. destruct (run_consistent os _ empty_consistent) as [Hc _].
    destruct (Hc a H) as [n [Hn [E _]]]. eauto.
  Qed.

  Theorem load_after_any_history os :
    let st := run (empty_store S Ev) os in
    load st = replay (cmds S Ev st) /\
    load (drop_cache S Ev st) = replay (cmds S Ev st) /\
    load (delete_snapshot S Ev (drop_cache S Ev st)) = replay (cmds S Ev st).
  Proof.
    intros st. pose proof (run_consistent os _ empty_consistent) as H. fold st in H.
    split; [apply load_is_replay; auto|]. split.
    - apply (load_is_replay (drop_cache S Ev st)). apply (sstep_consistent st ORestart). auto.
    - apply (load_is_replay (delete_snapshot S Ev (drop_cache S Ev st))).
      apply (sstep_consistent _ ODeleteSnapshot). apply (sstep_consistent st ORestart). auto.
  Qed.

  (** After a command the cache holds the full replay (the running daemon's state is the replayed state). *)
  Theorem live_is_full_replay st o :
    consistent st ->
    match o with PreSaveFailed _ => True | _ =>
      cache S Ev (send S Ev init apply st o) = Some (replay (cmds S Ev (send S Ev init apply st o))) end.
  Proof.
    intros H. pose proof (load_is_replay st H) as L.
    destruct o as [evs| | |evs]; simpl; auto; fold (load st); rewrite L; try rewrite replay_snoc; reflexivity.
  Qed.

  (** Versions: every accepted or rejected command takes exactly the next version; no-ops and failed
      pre-save runs take none (C07's sequential part). *)
  Theorem send_version st o :
    consistent st ->
    length (cmds S Ev (send S Ev init apply st o)) =
      match o with Accepted _ | Rejected => Datatypes.S (length (cmds S Ev st)) | _ => length (cmds S Ev st) end.
  Proof. intros _. destruct o; simpl; rewrite ?app_length; simpl; lia. Qed.

  Theorem rejected_changes_nothing_but_version st :
    consistent st ->
    a_st S (load (send S Ev init apply st Rejected)) = a_st S (load st) /\
    a_ver S (load (send S Ev init apply st Rejected)) = a_ver S (load st) + 1.
  Proof.
    intros H. pose proof (sstep_consistent st (OSend Rejected) H) as H'.
    change (sstep S Ev init apply st (OSend Rejected)) with (send S Ev init apply st Rejected) in H'.
    rewrite (load_is_replay _ H'), (load_is_replay _ H).
    change (cmds S Ev (send S Ev init apply st Rejected)) with (cmds S Ev st ++ [SError]).
    rewrite replay_snoc. simpl. auto.
  Qed.

  Theorem noop_and_presave_failure_leave_no_trace st evs :
    cmds S Ev (send S Ev init apply st NoOp) = cmds S Ev st /\
    send S Ev init apply st (PreSaveFailed evs) = st.
  Proof. split; reflexivity. Qed.
End EsProofs.
