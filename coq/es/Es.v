(** Generic model of the event-sourced aggregate store: src/commons/eventsourcing/store.rs
    (execute_opt_command 271-512, save_snapshot, get_latest, drop of the in-memory cache at restart) and
    agg.rs apply_command (129-136). Section variables: the aggregate's state, events, [init] and [apply].
    Partial [apply] (panics) is obtained by instantiating the state with an option type. *)
From KV Require Import base.Tac.
Open Scope N_scope.

Section Es.
  Variable S : Type.
  Variable Ev : Type.
  Variable init : S.                    (* the state after the stored init command (command-0) *)
  Variable apply : S -> Ev -> S.

  (** A stored command-N (N >= 1): its events, or the error it was rejected with. *)
  Inductive stored := SEvents (evs : list Ev) | SError.

  Record agg := mkAgg { a_ver : N; a_st : S }.

  (** agg.rs:129-136: version + 1, then every event in order. *)
  Definition apply_stored (a : agg) (c : stored) : agg :=
    mkAgg (a_ver a + 1) (match c with SEvents evs => fold_left apply evs (a_st a) | SError => a_st a end).

  Definition initial : agg := mkAgg 1 init.

  Record store := mkStore {
    cmds : list stored;                 (* command-1.json, command-2.json, ... *)
    snap : option agg;                  (* snapshot.json *)
    cache : option agg }.               (* in-memory cache entry of this aggregate *)

  (** store.rs:284-376: cache, else snapshot, else init; then apply every later stored command. *)
  Definition start (st : store) : agg :=
    match cache st with
    | Some a => a
    | None => match snap st with Some a => a | None => initial end
    end.
  Definition catch_up (a : agg) (cs : list stored) : agg :=
    fold_left apply_stored (skipn (N.to_nat (a_ver a - 1)) cs) a.
  Definition load (st : store) : agg := catch_up (start st) (cmds st).

  Definition replay (cs : list stored) : agg := fold_left apply_stored cs initial.

  (** The outcome of processing a command on the loaded aggregate. *)
  Inductive outcome :=
  | Accepted (evs : list Ev)            (* non-empty events, pre-save listeners succeeded *)
  | Rejected                            (* process_command returned an error: stored with the error *)
  | NoOp                                (* empty event list: nothing stored *)
  | PreSaveFailed (evs : list Ev).      (* listener error: nothing stored, cache not updated *)

  Definition send (st : store) (o : outcome) : store :=
    let a := load st in
    match o with
    | Accepted evs => mkStore (cmds st ++ [SEvents evs]) (snap st) (Some (apply_stored a (SEvents evs)))
    | Rejected => mkStore (cmds st ++ [SError]) (snap st) (Some (apply_stored a SError))
    | NoOp => mkStore (cmds st) (snap st) (Some a)
    | PreSaveFailed _ => st
    end.

  Definition get_latest (st : store) : store := mkStore (cmds st) (snap st) (Some (load st)).
  Definition save_snapshot (st : store) : store := mkStore (cmds st) (Some (load st)) (Some (load st)).
  Definition drop_cache (st : store) : store := mkStore (cmds st) (snap st) None.      (* restart / fresh store *)
  Definition delete_snapshot (st : store) : store := mkStore (cmds st) None (cache st).

  Inductive sop := OSend (o : outcome) | OGet | OSnapshot | ORestart | ODeleteSnapshot.
  Definition sstep (st : store) (o : sop) : store :=
    match o with
    | OSend x => send st x
    | OGet => get_latest st
    | OSnapshot => save_snapshot st
    | ORestart => drop_cache st
    | ODeleteSnapshot => delete_snapshot st
    end.

  Definition empty_store : store := mkStore [] None None.
End Es.

Arguments SEvents {Ev}. Arguments SError {Ev}.
Arguments Accepted {Ev}. Arguments Rejected {Ev}. Arguments NoOp {Ev}. Arguments PreSaveFailed {Ev}.
Arguments OSend {Ev}. Arguments OGet {Ev}. Arguments OSnapshot {Ev}. Arguments ORestart {Ev}. Arguments ODeleteSnapshot {Ev}.
