(** Correspondence checker for the aggregate-store model (C06). The store model is instantiated with a
    state that counts applied events; the harness reports, for one aggregate, the sequence of store
    operations it performed or observed (stored commands with their number of events or their error,
    snapshots written, snapshot deletions, fresh stores opened) and what it then saw: the version of the
    aggregate loaded by a fresh store, the number of stored commands, the version in snapshot.json, and
    whether the serialised aggregate of the fresh store equalled the live one (impl-side comparison). *)
From KV Require Import base.Tac es.Es.
Open Scope N_scope.

Definition cstate : Type := N.
Definition cevent : Type := N.
Definition capply (s : cstate) (e : cevent) : cstate := s + e.
Definition cstore := store cstate cevent.

Inductive eop :=
| EAccepted (n_events : N)
| ERejected
| ESnapshot
| EDeleteSnapshot
| EFresh.                                   (* a fresh store (empty cache) loads the aggregate *)

Definition to_sop (o : eop) : sop cevent :=
  match o with
  | EAccepted n => OSend (Accepted (repeat 1 (N.to_nat n)))
  | ERejected => OSend Rejected
  | ESnapshot => OSnapshot
  | EDeleteSnapshot => ODeleteSnapshot
  | EFresh => ORestart
  end.

Record case := mkCase {
  c_ops : list eop;
  c_version : N;                            (* version of the aggregate a fresh store loads afterwards *)
  c_ncmds : N;                              (* number of stored commands (command-1 ...) *)
  c_snap_version : option N;                (* version in snapshot.json, if present *)
  c_total_events : N;                       (* sum of the events of all stored commands *)
  c_fresh_equals_live : bool;               (* impl: serde view of fresh load = live (minus clock fields) *)
  c_snapshot_equals_init : bool;            (* impl: load from snapshot = load after deleting the snapshot *)
  c_load_failed : bool }.                   (* impl: some load failed or panicked *)

Definition run_ops (ops : list eop) : cstore :=
  fold_left (fun st o => sstep cstate cevent 0 capply st (to_sop o)) ops (empty_store cstate cevent).

Definition opt_eqb (a b : option N) : bool :=
  match a, b with Some x, Some y => x =? y | None, None => true | _, _ => false end.

Definition agrees (c : case) : bool :=
  let st := run_ops (c_ops c) in
  let a := load cstate cevent 0 capply (drop_cache cstate cevent st) in
  (a_ver cstate a =? c_version c) && (N.of_nat (length (cmds cstate cevent st)) =? c_ncmds c)
  && opt_eqb (option_map (a_ver cstate) (snap cstate cevent st)) (c_snap_version c)
  && (a_st cstate a =? c_total_events c).

Definition c06_ok (c : case) : bool :=
  c_fresh_equals_live c && c_snapshot_equals_init c && negb (c_load_failed c).

Fixpoint failing_from {A} (f : A -> bool) (i : N) (l : list A) : list N :=
  match l with
  | [] => []
  | x :: r => if f x then failing_from f (i + 1) r else i :: failing_from f (i + 1) r
  end.
Definition failing {A} (f : A -> bool) (base : N) (l : list A) : list N := failing_from f base l.
