(** Tie of the C20 model to the source: the shape checks of the translators, as proof obligations.
    - gen/GenAuthn.v (translate/t_authn.py): the provider functions, the session cache, crypt.rs, get_bearer_token,
      Actor::audit_name still contain, in order, the statements AuthChain.v was written against;
    - gen/GenRoutes.v (translate/t_routes.py, shared with C13): the provider order and the fall-through arms of
      [authenticate_request], how the result reaches the permission checks (request.rs, AuthInfo). *)
From Coq Require Import String List.
Import ListNotations.
From KV Require Import gen.GenAuthn gen.GenRoutes.

Theorem authn_shapes_recognised : gen_authn_unrecognised = [].
Proof. reflexivity. Qed.

Theorem chain_shapes_recognised : gen_shapes_unrecognised = [].
Proof. reflexivity. Qed.
