(** A small executable instance of the primitives of AuthChain.v (definitions only).

    Used (a) by AuthCheck.v to run the model on the cases the harness observed, (b) by AuthProofs.v to show that
    the hypotheses of the theorems can be met together ([toy_crypto_ok]) and as witness in the refutations.

    It is a symbolic stand-in, not cryptography: a "ciphertext" is
    [unary key ++ unary sender ++ unary counter ++ plaintext], so
    decryption under another key fails, everything of that shape is an encryption under its key, and nothing is
    hidden. Name normalisation and the password check are finite tables. *)
From Coq Require Import String Ascii.
From KV Require Import base.Tac auth.Perm authn.AuthChain.
Open Scope N_scope.

Fixpoint ones (n : nat) : string :=
  match n with O => EmptyString | S k => String "1" (ones k) end.

Definition unary (n : N) : string := (ones (N.to_nat n) ++ "0")%string.

(** Number of leading '1's before the first '0', and what follows that '0'. *)
Fixpoint strip_unary (s : string) : option (nat * string) :=
  match s with
  | EmptyString => None
  | String a r =>
      if Ascii.eqb a "0" then Some (O, r)
      else if Ascii.eqb a "1" then
        match strip_unary r with Some (k, t) => Some (S k, t) | None => None end
      else None
  end.

Fixpoint stake (n : nat) (s : string) : string :=
  match n, s with
  | S k, String a r => String a (stake k r)
  | _, _ => EmptyString
  end.

Fixpoint sdrop (n : nat) (s : string) : string :=
  match n, s with
  | S k, String _ r => sdrop k r
  | _, _ => s
  end.

Definition toy_encrypt (k : N) (n : N * N) (pt : bytes) : bytes :=
  (unary k ++ unary (fst n) ++ unary (snd n) ++ pt)%string.

Definition toy_decrypt (k : N) (c : bytes) : option bytes :=
  match strip_unary c with
  | Some (k', r) =>
      if N.of_nat k' =? k then
        match strip_unary r with
        | Some (_, r2) => match strip_unary r2 with Some (_, pt) => Some pt | None => None end
        | None => None
        end
      else None
  | None => None
  end.

Definition toy_ser (s : session) : bytes :=
  (unary (N.of_nat (String.length (s_user s))) ++ s_user s ++ s_role s)%string.

Definition toy_de (b : bytes) : option session :=
  match strip_unary b with
  | Some (l, r) => if Nat.leb l (String.length r) then Some (mkSess (stake l r) (sdrop l r)) else None
  | None => None
  end.

Fixpoint nlookup {A} (k : N) (l : list (N * A)) : option A :=
  match l with
  | [] => None
  | (k', v) :: t => if k =? k' then Some v else nlookup k t
  end.

(** [norms]: normal form of every name / password that is not its own normal form.
    [creds]: for every stored (hash, salt) pair the name that went into the weak salt and the (normalised)
    password it was made from. *)
Definition toy_norm (norms : list (string * string)) (s : string) : string :=
  match alookup s norms with Some t => t | None => s end.

(** The configured `password_hash` text of an entry, relative to the hash of the (name, password) it was made
    from: the hash itself, or what an operator may leave there instead - nothing, a cut-short copy, a copy with
    something appended, a copy in upper-case hexadecimal. Only the first is the hash of a password. *)
Inductive hshape := HFull | HEmpty | HPrefix (n : nat) | HLonger (suffix : string) | HUpper.

(** Symbolic hash text: injective in (strong salt id, name, password); starts with a lower-case letter. *)
Definition toy_hash (c : N) (name pw : string) : string :=
  String "h" (unary c ++ toy_ser (mkSess name pw))%string.

Definition apply_shape (sh : hshape) (h : string) : string :=
  match sh with
  | HFull => h
  | HEmpty => EmptyString
  | HPrefix n => stake n h
  | HLonger suffix => (h ++ suffix)%string
  | HUpper => match h with String _ r => String "H" r | EmptyString => EmptyString end
  end.

Definition shape_of (shapes : list (N * hshape)) (c : N) : hshape :=
  match nlookup c shapes with Some sh => sh | None => HFull end.

Definition toy_stored (creds : list (N * (string * string))) (shapes : list (N * hshape)) (c : N) : option string :=
  match nlookup c creds with
  | Some (name', pw') => Some (apply_shape (shape_of shapes c) (toy_hash c name' pw'))
  | None => None
  end.

(** The password check: the text computed from what was submitted EQUALS the configured text. *)
Definition toy_pw_ok_sh (creds : list (N * (string * string))) (shapes : list (N * hshape)) : N -> string -> string -> bool :=
  login_ok toy_hash (toy_stored creds shapes).
Definition toy_pw_ok (creds : list (N * (string * string))) : N -> string -> string -> bool := toy_pw_ok_sh creds [].

Definition toy (norms : list (string * string)) (creds : list (N * (string * string))) : prims :=
  mkPrims (toy_norm norms) (toy_pw_ok creds) toy_encrypt toy_decrypt toy_ser toy_de (fun b => b) (fun t => Some t).

Definition toy_sh (norms : list (string * string)) (creds : list (N * (string * string))) (shapes : list (N * hshape)) : prims :=
  mkPrims (toy_norm norms) (toy_pw_ok_sh creds shapes) toy_encrypt toy_decrypt toy_ser toy_de (fun b => b) (fun t => Some t).
