(** A small executable instance of the primitives of AuthChain.v (definitions only).

    Used (a) by AuthCheck.v to run the model on the cases the harness observed, (b) by AuthProofs.v to show that
    the hypotheses of the theorems can be met together ([toy_crypto_ok]) and as witness in the refutations.

    It is a symbolic stand-in, not cryptography: a "ciphertext" is
    [unary key ++ unary sender ++ unary counter ++ plaintext], so
    decryption under another key fails, everything of that shape is an encryption under its key, and nothing is
    hidden. Name normalisation and the password check are finite tables. *)
From Coq Require Import String Ascii.
From KV Require Import base.Tac auth.Perm authn.AuthChain.
Open Scope N_scope.

Fixpoint ones (n : nat) : string :=
  match n with O => EmptyString | S k => String "1" (ones k) end.

Definition unary (n : N) : string := (ones (N.to_nat n) ++ "0")%string.

(** Number of leading '1's before the first '0', and what follows that '0'. *)
Fixpoint strip_unary (s : string) : option (nat * string) :=
  match s with
  | EmptyString => None
  | String a r =>
      if Ascii.eqb a "0" then Some (O, r)
      else if Ascii.eqb a "1" then
        match strip_unary r with Some (k, t) => Some (S k, t) | None => None end
      else None
  end.

Fixpoint stake (n : nat) (s : string) : string :=
  match n, s with
  | S k, String a r => String a (stake k r)
  | _, _ => EmptyString
  end.

Fixpoint sdrop (n : nat) (s : string) : string :=
  match n, s with
  | S k, String _ r => sdrop k r
  | _, _ => s
  end.

Definition toy_encrypt (k : N) (n : N * N) (pt : bytes) : bytes :=
  (unary k ++ unary (fst n) ++ unary (snd n) ++ pt)%string.

Definition toy_decrypt (k : N) (c : bytes) : option bytes :=
  match strip_unary c with
  | Some (k', r) =>
      if N.of_nat k' =? k then
        match strip_unary r with
        | Some (_, r2) => match strip_unary r2 with Some (_, pt) => Some pt | None => None end
        | None => None
        end
      else None
  | None => None
  end.

Definition toy_ser (s : session) : bytes :=
  (unary (N.of_nat (String.length (s_user s))) ++ s_user s ++ s_role s)%string.

Definition toy_de (b : bytes) : option session :=
  match strip_unary b with
  | Some (l, r) => if Nat.leb l (String.length r) then Some (mkSess (stake l r) (sdrop l r)) else None
  | None => None
  end.

Fixpoint nlookup {A} (k : N) (l : list (N * A)) : option A :=
  match l with
  | [] => None
  | (k', v) :: t => if k =? k' then Some v else nlookup k t
  end.

(** [norms]: normal form of every name / password that is not its own normal form.
    [creds]: for every stored (hash, salt) pair the name that went into the weak salt and the (normalised)
    password it was made from. *)
Definition toy_norm (norms : list (string * string)) (s : string) : string :=
  match alookup s norms with Some t => t | None => s end.

Definition toy_pw_ok (creds : list (N * (string * string))) (c : N) (name pw : string) : bool :=
  match nlookup c creds with
  | Some (name', pw') => String.eqb name name' && String.eqb pw pw'
  | None => false
  end.

Definition toy (norms : list (string * string)) (creds : list (N * (string * string))) : prims :=
  mkPrims (toy_norm norms) (toy_pw_ok creds) toy_encrypt toy_decrypt toy_ser toy_de (fun b => b) (fun t => Some t).
