(** Authentication of HTTP requests by the Krill daemon (model; definitions only).

    Modelled code (as it is in /repo):
    - src/commons/httpclient.rs:78-90               [get_bearer_token]: "Bearer " prefix stripped, remainder trimmed
    - src/daemon/http/auth/authorizer.rs:208-240    [Authorizer::new]: which providers exist for which auth_type
    - src/daemon/http/auth/authorizer.rs:255-296    [authenticate_request]: legacy admin token, primary provider,
                                                     Unix-socket peer, with the fall-through arms `_ => next provider`
    - src/daemon/http/auth/providers/admin_token.rs:57-113   [authenticate], [login], [logout]
    - src/daemon/http/auth/providers/config_file.rs:105-161  [auth_from_session], [authenticate]
    - src/daemon/http/auth/providers/config_file.rs:168-286  [login]
    - src/daemon/http/auth/providers/config_file.rs:288-311  [logout]
    - src/daemon/http/auth/providers/unix_user.rs:34-90      [new], [authenticate]
    - src/daemon/http/auth/session.rs:150-188,203-218,229-288 [encode], [cache_session], [decode], [lookup_session], [remove]
    - src/daemon/http/auth/crypt.rs:55-82,103-186   nonce = sender id | counter; [encrypt], [decrypt], [crypt_init]

    The model describes the tree with the repairs e31fb922 (F20d), a6855108 (F20b), a7a0b51d (F20c). What the
    originally pinned tree did instead is kept in the definitions [..._pinned] at the end of the file; they are
    only used as regression witnesses (AuthProofs.v: the positive statements are refuted for them).

    Outside the model, as fields of [prims] (assumptions about them are explicit hypotheses of the theorems in
    AuthProofs.v): scrypt (the password check), Unicode NFKC + trim, ChaCha20-Poly1305, serde_json, base64.
    The OpenID Connect provider is not modelled.

    What is abstracted away in a session: [start_time] and [expires_in]. The config-file provider issues every
    session with [expires_in = None] (config_file.rs:278-283) and never calls [ClientSession::status]; both fields
    are written into the token and never read again. The role name is still written into the token
    ([SessionSecret::role]) but no longer read when the token is presented. *)
From Coq Require Import String Ascii.
From KV Require Import base.Tac auth.Perm auth.Routes.
Open Scope N_scope.

(** Byte strings (a Coq [string] is a list of bytes). *)
Definition bytes : Type := string.

(** ** Requests, as far as authentication looks at them *)
Inductive transport :=
  | Tcp                      (* no peer user in the request extensions *)
  | Unix (peer : string).    (* start.rs:440-472: name of the system user at the other end of the socket *)

Record areq := mkRq {
  rq_bearer : option string;   (* result of [get_bearer_token]: None when there is no "Authorization: Bearer ..." header *)
  rq_tr : transport
}.

(** ** Configuration (config.rs:503-504, 556-569; config_file.rs:340-346) *)
Inductive auth_type := AdminTokenOnly | ConfigFile.

Record udetails := mkUser {
  u_cred : N;            (* the stored (password_hash, salt) pair, as an opaque identifier *)
  u_salt_hex : bool;     (* whether [salt] is valid hexadecimal: config_file.rs:211 unwraps hex::decode *)
  u_role : string        (* role NAME *)
}.

Record config := mkCfg {
  cf_auth : auth_type;
  cf_admin_token : string;
  cf_users : list (string * udetails);    (* [auth_users] : HashMap<String, UserDetails> *)
  cf_roles : list (string * role);        (* [auth_roles] : RoleMap *)
  cf_unix : list (string * string)        (* [unix_users] : system user name -> role NAME *)
}.

(** Hash maps as association lists; the first binding of a key counts (keys of a TOML table are unique). *)
Fixpoint alookup {A} (k : string) (l : list (string * A)) : option A :=
  match l with
  | [] => None
  | (k', v) :: t => if String.eqb k k' then Some v else alookup k t
  end.

Definition aremove {A} (k : string) (l : list (string * A)) : list (string * A) :=
  filter (fun e => negb (String.eqb k (fst e))) l.

(** ** Sessions and the primitives the model does not look into *)
Record session := mkSess {
  s_user : string;     (* ClientSession::user_id *)
  s_role : string      (* SessionSecret::role : role NAME *)
}.

Record prims := mkPrims {
  p_norm : string -> string;                    (* s.trim().nfkc().collect()  (config_file.rs:195-196) *)
  p_pw_ok : N -> string -> string -> bool;      (* stored (hash, salt); normalised name (weak salt, :207-208); normalised
                                                   password (:196): hex(scrypt(scrypt(pw, "krill-lagosta-"+name), salt)) = hash *)
  p_encrypt : N -> N * N -> bytes -> bytes;     (* key, nonce = (sender id, counter), plaintext -> nonce | tag | ciphertext
                                                   (crypt.rs:70-82, 103-130) *)
  p_decrypt : N -> bytes -> option bytes;       (* key, payload (crypt.rs:134-163; payloads of <= 28 bytes are refused) *)
  p_ser : session -> bytes;                     (* serde_json::to_string(&session) *)
  p_de : bytes -> option session;               (* serde_json::from_slice *)
  p_b64enc : bytes -> string;                   (* BASE64_ENGINE.encode, the STANDARD engine *)
  p_b64dec : string -> option bytes             (* BASE64_ENGINE.decode *)
}.

(** The comparison that decides a login (config_file.rs:236 `encoded_hash != user_password_hash`): equality of two
    TEXTS - the 64 lower-case hexadecimal characters of hex::encode over the 32 bytes of the second scrypt pass, and
    the `password_hash` string of the user's entry exactly as it stands in the configuration (no decoding, no
    trimming, no change of letter case: config.rs reads it as a String). [login_ok] is the password check of the
    config-file provider in terms of that comparison: [hash c name pw] is the text computed from the strong salt
    of entry [c], the normalised name and the normalised password; [stored c] is the configured text of entry [c].
    The field [p_pw_ok] of [prims] is meant to be [login_ok hash stored] for the hash function and the configured
    texts at hand (AuthToy.v instantiates it that way). *)
Definition hash_matches (computed configured : string) : bool := String.eqb computed configured.
Definition login_ok (hash : N -> string -> string -> string) (stored : N -> option string)
                    (c : N) (name pw : string) : bool :=
  match stored c with
  | Some configured => hash_matches (hash c name pw) configured
  | None => false
  end.

(** ** A running daemon *)
Record inst := mkInst {
  i_cfg : config;
  i_key : N;                             (* CryptState::key, persisted in storage under login_sessions/main_key *)
  i_sender : N;                          (* NonceState::sender_unique: four random bytes drawn at every start *)
  i_ctr : N;                             (* NonceState::counter: in memory only, 0 at every start *)
  i_unix : list (string * role);         (* unix_user::AuthProvider::unix_users, resolved at start *)
  i_cache : list (string * session)      (* LoginSessionCache: token text -> session *)
}.

(** unix_user.rs:34-49: every mapped system user must name an existing role, otherwise the daemon does not start. *)
Fixpoint build_unix (roles : list (string * role)) (l : list (string * string)) : option (list (string * role)) :=
  match l with
  | [] => Some []
  | (u, rn) :: t =>
      match alookup rn roles, build_unix roles t with
      | Some r, Some t' => Some ((u, r) :: t')
      | _, _ => None
      end
  end.

(** Start of a daemon on a storage that holds (or now receives) key [key]. [crypt_init] (crypt.rs:165-186) keeps
    the stored key and makes a new nonce state ([CryptState::from_key_bytes] -> [NonceState::new], crypt.rs:56-68):
    a sender id [sender] drawn from the system's random generator - an input of the model - and the counter at 0.
    The session cache is in memory. [None]: the daemon refuses to start. *)
Definition start (cfg : config) (key sender : N) : option inst :=
  match build_unix (cf_roles cfg) (cf_unix cfg) with
  | Some ux => Some (mkInst cfg key sender 0 ux [])
  | None => None
  end.

(** ** Results *)
Inductive aerr :=
  | EInvalid      (* ApiInvalidCredentials *)
  | EPermanent.   (* ApiAuthPermanentError: the role of the user does not exist *)

(** Result<Option<(AuthInfo, _)>, ApiAuthError> of one provider: actor name and role *)
Inductive pres :=
  | POk (a : option (string * role))
  | PErr (e : aerr).

(** What [authenticate_request] hands to the dispatcher (authorizer.rs:282-291) *)
Inductive ares :=
  | AUser (actor : string) (r : role)     (* AuthInfo::user *)
  | AAnon                                 (* AuthInfo::anonymous: role "anonymous", fails every check with 403 *)
  | AErr (e : aerr).                      (* AuthInfo::error: fails every check with 401 *)

(** ** Providers *)

(** admin_token.rs:57-85; the user id and role are fixed at :44-50 *)
Definition admin_actor : string := "admin-token".
Definition admin_authenticate (cfg : config) (b : option string) : pres :=
  match b with
  | Some t => if String.eqb t (cf_admin_token cfg) then POk (Some (admin_actor, role_admin)) else PErr EInvalid
  | None => POk None
  end.

Definition cache_put (tok : string) (s : session) (c : list (string * session)) := (tok, s) :: c.
Definition set_cache (st : inst) (c : list (string * session)) : inst :=
  mkInst (i_cfg st) (i_key st) (i_sender st) (i_ctr st) (i_unix st) c.

(** session.rs:229-273 [decode] with add_to_cache = true: a cache hit is returned as it is; otherwise base64,
    then decryption (which verifies the tag), then JSON; the decoded session is put into the cache. *)
Definition session_decode (P : prims) (st : inst) (tok : string) : inst * option session :=
  match alookup tok (i_cache st) with
  | Some s => (st, Some s)
  | None =>
      match p_b64dec P tok with
      | None => (st, None)
      | Some c =>
          match p_decrypt P (i_key st) c with
          | None => (st, None)
          | Some pt =>
              match p_de P pt with
              | None => (st, None)
              | Some s => (set_cache st (cache_put tok s (i_cache st)), Some s)
              end
          end
      end
  end.

(** config_file.rs:131-161 and 105-127: the session says who logged in; the user is looked up in the CURRENT
    user table (gone: ApiInvalidCredentials) and the role is the one that entry names now. *)
Definition config_authenticate (P : prims) (st : inst) (b : option string) : inst * pres :=
  match b with
  | None => (st, POk None)
  | Some t =>
      match session_decode P st t with
      | (st', None) => (st', PErr EInvalid)
      | (st', Some s) =>
          match alookup (s_user s) (cf_users (i_cfg st')) with               (* :111-115 *)
          | None => (st', PErr EInvalid)
          | Some d =>
              match alookup (u_role d) (cf_roles (i_cfg st')) with            (* :116-126 *)
              | Some r => (st', POk (Some (s_user s, r)))
              | None => (st', PErr EPermanent)
              end
          end
      end
  end.

(** unix_user.rs:55-90 *)
Definition unix_authenticate (st : inst) (t : transport) : pres :=
  match t with
  | Tcp => POk None
  | Unix p =>
      match alookup p (i_unix st) with
      | Some r => POk (Some (p, r))
      | None => PErr EInvalid
      end
  end.

(** ** Login (POST /auth/login -> Authorizer::login -> primary provider) *)
Inductive lres :=
  | LOk (tok id role : string)    (* 200: LoggedInUser { token, id, attributes.role } *)
  | LInvalid                      (* 401 ApiInvalidCredentials *)
  | LForbidden                    (* 403 ApiInsufficientRights: the role does not permit login *)
  | LPermanent                    (* 401 ApiAuthPermanentError: the user's role does not exist *)
  | LPanic.                       (* hex::decode(user_salt).unwrap() on a salt that is not hexadecimal *)

(** config_file.rs:168-286. [basic]: user name and password of the HTTP Basic header ([get_auth], :91-103).
    Hash and salt, identity and role all come from the entry under the name AS SUBMITTED; the trimmed, NFKC-
    normalised name only enters the weak salt. *)
Definition config_login (P : prims) (st : inst) (basic : option (string * string)) : inst * lres :=
  match basic with
  | None => (st, LInvalid)                                             (* :173-181 *)
  | Some (name, pw) =>
      let cfg := i_cfg st in
      let stored := alookup name (cf_users cfg) in                     (* :187-193 *)
      let uname := p_norm P name in                                    (* :195 *)
      let pw' := p_norm P pw in                                        (* :196 *)
      match stored with
      | None => (st, LInvalid)      (* FAKE_PASSWORD_HASH has 36 characters, hex of 32 bytes has 64: :236 always differs *)
      | Some d =>
          if negb (u_salt_hex d) then (st, LPanic)                     (* :219 *)
          else if negb (p_pw_ok P (u_cred d) uname pw') then (st, LInvalid)   (* :207-241 *)
          else
            match alookup name (cf_users cfg) with                     (* :245 the same name again *)
            | None => (st, LInvalid)                                   (* :247-252 *)
            | Some d2 =>
                match alookup (u_role d2) (cf_roles cfg) with          (* :256-264 *)
                | None => (st, LPermanent)
                | Some r =>
                    if negb (is_allowed r Login None) then (st, LForbidden)    (* :266-273 *)
                    else
                      (* :275-283, session.rs:154-188, crypt.rs:110 (nonce.next() increments the counter) *)
                      let s := mkSess name (u_role d2) in
                      let tok := p_b64enc P (p_encrypt P (i_key st) (i_sender st, i_ctr st) (p_ser P s)) in
                      (mkInst cfg (i_key st) (i_sender st) (i_ctr st + 1) (i_unix st) (cache_put tok s (i_cache st)),
                       LOk tok name (u_role d2))
                end
            end
      end
  end.

(** admin_token.rs:92-103 *)
Definition admin_login (st : inst) (b : option string) : inst * lres :=
  match admin_authenticate (i_cfg st) b with
  | POk (Some _) => (st, LOk (cf_admin_token (i_cfg st)) admin_actor "admin")
  | _ => (st, LInvalid)
  end.

(** ** The chain, login, logout and runs, over an implementation of the config-file provider
    [impl] collects the three places where the originally pinned tree differed from the repaired one, so that the
    chain is written once. [repaired] is the tree as it is; [pinned] (end of the file) the tree as it was. *)
Record impl := mkImpl {
  im_authenticate : prims -> inst -> option string -> inst * pres;            (* config_file::AuthProvider::authenticate *)
  im_login : prims -> inst -> option (string * string) -> inst * lres;        (* config_file::AuthProvider::login *)
  im_keep_sender : bool      (* crypt_init returns the stored nonce state (sender id of the first start, counter 0) *)
}.

Definition repaired : impl := mkImpl config_authenticate config_login false.

Definition is_success (r : pres) : bool := match r with POk (Some _) => true | _ => false end.

Definition primary_authenticate_with (I : impl) (P : prims) (st : inst) (b : option string) : inst * pres :=
  match cf_auth (i_cfg st) with
  | AdminTokenOnly => (st, admin_authenticate (i_cfg st) b)
  | ConfigFile => im_authenticate I P st b
  end.

(** authorizer.rs:255-296 *)
Definition authenticate_with (I : impl) (P : prims) (st : inst) (rq : areq) : inst * ares :=
  (* :261-264 the legacy provider exists iff the admin token provider is not the primary one (:212-232) *)
  let r1 := match cf_auth (i_cfg st) with
            | ConfigFile => admin_authenticate (i_cfg st) (rq_bearer rq)
            | AdminTokenOnly => POk None
            end in
  (* :269-272 anything but a success - an error too - goes on to the primary provider *)
  let '(st', r2) := if is_success r1 then (st, r1) else primary_authenticate_with I P st (rq_bearer rq) in
  (* :276-279 anything but a success - an error too - goes on to the Unix-socket provider *)
  let r3 := if is_success r2 then r2 else unix_authenticate st' (rq_tr rq) in
  (* :282-291 *)
  (st', match r3 with
        | POk (Some (u, r)) => AUser u r
        | POk None => AAnon
        | PErr e => AErr e
        end).

Definition login_with (I : impl) (P : prims) (st : inst) (basic : option (string * string)) (b : option string)
  : inst * lres :=
  match cf_auth (i_cfg st) with
  | AdminTokenOnly => admin_login st b
  | ConfigFile => im_login I P st basic
  end.

(** Logout (config_file.rs:288-311): the token is removed from the cache, then the provider's own
    [authenticate] is called to log the name - which decodes the token and puts it back. Answer: always 200. *)
Definition logout_with (I : impl) (P : prims) (st : inst) (b : option string) : inst :=
  match cf_auth (i_cfg st) with
  | AdminTokenOnly => st
  | ConfigFile =>
      match b with
      | Some t => fst (im_authenticate I P (set_cache st (aremove t (i_cache st))) (Some t))
      | None => st
      end
  end.

(** Runs of one storage (one key): operations and the record of what login handed out *)
Inductive op :=
  | OLogin (basic : option (string * string)) (b : option string)
  | OAuth (rq : areq)                  (* any HTTP request: server.rs:66 authenticates every request *)
  | OLogout (b : option string)
  | OEvict (tok : string)                 (* the sweeper (session.rs:300-348) drops entries; modelled one at a time *)
  | ORestart (cfg' : config) (sender' : N).   (* stop; start again on the same storage, possibly with an edited
                                                 configuration; [sender']: the sender id the new process draws *)

(** One token handed out by [config_login]. *)
Record issue := mkIssue {
  is_tok : string;
  is_sess : session;
  is_nonce : N * N;      (* (sender id, counter) *)
  is_cfg : config        (* the configuration in force when it was issued *)
}.

(** server.rs:66: every request, whatever its route, is first authenticated through the chain (which may put a
    decoded session into the cache); only then the handler runs. The transport has no influence on the state. *)
Definition pre_with (I : impl) (P : prims) (st : inst) (b : option string) : inst :=
  fst (authenticate_with I P st (mkRq b Tcp)).

(** [None]: the daemon did not come up after a restart. *)
Definition step_with (I : impl) (P : prims) (st : inst) (o : op) : option (inst * list issue) :=
  match o with
  | OLogin basic b =>
      let st0 := pre_with I P st b in
      match login_with I P st0 basic b, cf_auth (i_cfg st0) with
      | (st', LOk tok id rn), ConfigFile =>
          Some (st', [mkIssue tok (mkSess id rn) (i_sender st0, i_ctr st0) (i_cfg st0)])
      | (st', _), _ => Some (st', [])
      end
  | OAuth rq => Some (fst (authenticate_with I P st rq), [])
  | OLogout b => Some (logout_with I P (pre_with I P st b) b, [])
  | OEvict tok => Some (set_cache st (aremove tok (i_cache st)), [])
  | ORestart cfg' sender' =>
      match start cfg' (i_key st) (if im_keep_sender I then i_sender st else sender') with
      | Some st' => Some (st', [])
      | None => None
      end
  end.

Fixpoint run_with (I : impl) (P : prims) (st : inst) (ops : list op) : option (inst * list issue) :=
  match ops with
  | [] => Some (st, [])
  | o :: t =>
      match step_with I P st o with
      | None => None
      | Some (st1, l1) =>
          match run_with I P st1 t with
          | None => None
          | Some (st2, l2) => Some (st2, l1 ++ l2)
          end
      end
  end.

(** ** The tree as it is *)
Definition authenticate : prims -> inst -> areq -> inst * ares := authenticate_with repaired.
Definition login : prims -> inst -> option (string * string) -> option string -> inst * lres := login_with repaired.
Definition logout : prims -> inst -> option string -> inst := logout_with repaired.
Definition pre : prims -> inst -> option string -> inst := pre_with repaired.
Definition step : prims -> inst -> op -> option (inst * list issue) := step_with repaired.
Definition run : prims -> inst -> list op -> option (inst * list issue) := run_with repaired.

(** The sender ids drawn by the restarts of a run. *)
Definition op_senders (ops : list op) : list N :=
  flat_map (fun o => match o with ORestart _ s => [s] | _ => [] end) ops.

(** ** What the dispatcher makes of the result (authorizer.rs:466-481, roles.rs: Role::anonymous) *)
Definition allowed (a : ares) (p : perm) (res : option handle) : bool :=
  match a with
  | AUser _ r => is_allowed r p res
  | AAnon => is_allowed role_anonymous p res
  | AErr _ => false
  end.

(** The actor recorded in the audit log for a command (authorizer.rs:409-440; commons/actor.rs:99-108
    [audit_name]: users are written as "user:<id>"). *)
Definition actor_name (a : ares) : string :=
  match a with
  | AUser u _ => ("user:" ++ u)%string
  | AAnon | AErr _ => "anonymous"
  end.

(** The same, in the vocabulary of the route model of C13 (auth/Routes.v). *)
Definition to_auth (a : ares) : auth :=
  match a with
  | AUser _ r => AuthRole r
  | AAnon => AuthRole role_anonymous
  | AErr _ => AuthError
  end.

(** The role the configuration gives a user name. *)
Definition cfg_role (cfg : config) (u : string) : option role :=
  match alookup u (cf_users cfg) with
  | Some d => alookup (u_role d) (cf_roles cfg)
  | None => None
  end.

(** ** The originally pinned tree (before e31fb922, a6855108, a7a0b51d): regression witnesses only *)

(** F20c. config_file.rs auth_from_session looked the role up under the role NAME carried by the session and never
    consulted the user table again. *)
Definition config_authenticate_pinned (P : prims) (st : inst) (b : option string) : inst * pres :=
  match b with
  | None => (st, POk None)
  | Some t =>
      match session_decode P st t with
      | (st', None) => (st', PErr EInvalid)
      | (st', Some s) =>
          match alookup (s_role s) (cf_roles (i_cfg st')) with
          | Some r => (st', POk (Some (s_user s, r)))
          | None => (st', PErr EPermanent)
          end
      end
  end.

(** F20b. config_file.rs login looked hash and salt up under the RAW name, identity and role under the
    NORMALISED name. *)
Definition config_login_pinned (P : prims) (st : inst) (basic : option (string * string)) : inst * lres :=
  match basic with
  | None => (st, LInvalid)
  | Some (name, pw) =>
      let cfg := i_cfg st in
      let uname := p_norm P name in
      let pw' := p_norm P pw in
      match alookup name (cf_users cfg) with
      | None => (st, LInvalid)
      | Some d =>
          if negb (u_salt_hex d) then (st, LPanic)
          else if negb (p_pw_ok P (u_cred d) uname pw') then (st, LInvalid)
          else
            match alookup uname (cf_users cfg) with
            | None => (st, LInvalid)
            | Some d2 =>
                match alookup (u_role d2) (cf_roles cfg) with
                | None => (st, LPermanent)
                | Some r =>
                    if negb (is_allowed r Login None) then (st, LForbidden)
                    else
                      let s := mkSess uname (u_role d2) in
                      let tok := p_b64enc P (p_encrypt P (i_key st) (i_sender st, i_ctr st) (p_ser P s)) in
                      (mkInst cfg (i_key st) (i_sender st) (i_ctr st + 1) (i_unix st) (cache_put tok s (i_cache st)),
                       LOk tok uname (u_role d2))
                end
            end
      end
  end.

(** F20d: [im_keep_sender = true] - crypt_init returned the nonce state stored when the key was made. *)
Definition pinned : impl := mkImpl config_authenticate_pinned config_login_pinned true.
