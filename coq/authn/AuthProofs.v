(** Proofs about the authentication model of AuthChain.v (C20): the positive statements for the tree as it is
    ([repaired]) and, as regression witnesses, their refutations for the originally pinned tree ([pinned]).

    Hypotheses about what lies outside the model are explicit premises:
    - [crypto_ok P]: decryption under a key succeeds only on outputs of encryption under that key and returns the
      encrypted plaintext ([aead_sound]); encryption/decryption, session (de)serialisation and base64 round-trip;
    - [own_ct P key log b] ("the key is secret"): if the presented bearer [b] is the base64 text of an encryption
      under this instance's key at all, then it is (byte for byte) one of the ciphertexts this instance's login
      produced. Nothing else is assumed about strings the model has never seen.
    - [b64_strict P] where the conclusion speaks about the token text instead of the bytes it decodes to;
    - [key_sep P] for tokens of another instance. *)
From Coq Require Import String Ascii.
From KV Require Import base.Tac auth.Perm auth.Routes authn.AuthChain authn.AuthToy.
Open Scope N_scope.

(** * Assumptions *)
Definition aead_sound (P : prims) : Prop :=
  forall k c pt, p_decrypt P k c = Some pt -> exists n, c = p_encrypt P k n pt.
Definition aead_complete (P : prims) : Prop :=
  forall k n pt, p_decrypt P k (p_encrypt P k n pt) = Some pt.
Definition serde_ok (P : prims) : Prop := forall s, p_de P (p_ser P s) = Some s.
Definition b64_ok (P : prims) : Prop := forall b, p_b64dec P (p_b64enc P b) = Some b.

Record crypto_ok (P : prims) : Prop := {
  co_sound : aead_sound P;
  co_complete : aead_complete P;
  co_serde : serde_ok P;
  co_b64 : b64_ok P
}.

(** base64 decoding accepts exactly one text per byte string (canonical padding, no stray bits, one alphabet). *)
Definition b64_strict (P : prims) : Prop := forall t b, p_b64dec P t = Some b -> t = p_b64enc P b.

(** ciphertexts under different keys are different *)
Definition key_sep (P : prims) : Prop :=
  forall k n pt k' n' pt', p_encrypt P k n pt = p_encrypt P k' n' pt' -> k = k'.

(** Key secrecy, for one presented bearer. *)
Definition own_ct (P : prims) (key : N) (log : list issue) (b : string) : Prop :=
  forall c n pt, p_b64dec P b = Some c -> c = p_encrypt P key n pt ->
    exists i, In i log /\ p_b64dec P (is_tok i) = Some c.

Ltac splits := repeat match goal with |- _ /\ _ => split end.

(** * Association lists *)
Lemma alookup_In {A} k (l : list (string * A)) v : alookup k l = Some v -> In (k, v) l.
Proof.
  induction l as [|[k' v'] l IH]; simpl; [discriminate|].
  destruct (String.eqb k k') eqn:E.
  - apply String.eqb_eq in E. subst. intros H; inv H. auto.
  - auto.
Qed.

Lemma In_aremove {A} k (l : list (string * A)) e : In e (aremove k l) -> In e l.
Proof. unfold aremove. rewrite filter_In. tauto. Qed.

Lemma alookup_aremove_same {A} k (l : list (string * A)) : alookup k (aremove k l) = None.
Proof.
  induction l as [|[k' v'] l IH]; simpl; auto.
  destruct (String.eqb k k') eqn:E; simpl; auto. rewrite E. auto.
Qed.

Lemma NoDup_app_disjoint {A} (l1 l2 : list A) :
  NoDup l1 -> NoDup l2 -> (forall x, In x l1 -> In x l2 -> False) -> NoDup (l1 ++ l2).
Proof.
  induction l1 as [|a l1 IH]; simpl; intros N1 N2 D; auto.
  inv N1. constructor.
  - intros Hin. apply in_app_or in Hin. destruct Hin; [auto|]. eapply D; eauto.
  - apply IH; auto. intros x Hx1 Hx2. eapply D; eauto.
Qed.

(** * What a cache entry is: a token text that decodes to the session under the instance key *)
Definition decodes (P : prims) (key : N) (tok : string) (s : session) : Prop :=
  exists c pt, p_b64dec P tok = Some c /\ p_decrypt P key c = Some pt /\ p_de P pt = Some s.

Definition cache_ok (P : prims) (st : inst) : Prop :=
  forall tok s, In (tok, s) (i_cache st) -> decodes P (i_key st) tok s.

Definition same_but_cache (st st' : inst) : Prop :=
  i_cfg st' = i_cfg st /\ i_key st' = i_key st /\ i_sender st' = i_sender st /\ i_ctr st' = i_ctr st
  /\ i_unix st' = i_unix st.

Lemma same_but_cache_refl st : same_but_cache st st.
Proof. unfold same_but_cache; auto. Qed.

Lemma same_but_cache_set st c : same_but_cache st (set_cache st c).
Proof. unfold same_but_cache; simpl; auto. Qed.
#[local] Hint Resolve same_but_cache_refl same_but_cache_set : core.

Lemma same_but_cache_trans a b c : same_but_cache a b -> same_but_cache b c -> same_but_cache a c.
Proof. unfold same_but_cache. intuition congruence. Qed.

Lemma session_decode_spec P st tok st' o :
  cache_ok P st -> session_decode P st tok = (st', o) ->
  same_but_cache st st' /\ cache_ok P st'
  /\ (forall s, o = Some s -> decodes P (i_key st) tok s)
  /\ (o = None -> st' = st).
Proof.
  intros Hc. unfold session_decode.
  destruct (alookup tok (i_cache st)) as [s|] eqn:El.
  { intros H; inv H. splits; auto.
    intros s' E; inv E. apply Hc. apply alookup_In; auto. }
  destruct (p_b64dec P tok) as [c|] eqn:Eb; [|intros H; inv H; splits; auto; discriminate].
  destruct (p_decrypt P (i_key st) c) as [pt|] eqn:Ed; [|intros H; inv H; splits; auto; discriminate].
  destruct (p_de P pt) as [s|] eqn:Es; [|intros H; inv H; splits; auto; discriminate].
  intros H; inv H.
  assert (D : decodes P (i_key st) tok s) by (exists c, pt; auto).
  splits; auto.
  - intros t s' [E|Hin]; [inv E; auto|apply Hc; auto].
  - intros s' E; inv E; auto.
  - discriminate.
Qed.

Lemma config_authenticate_spec P st b st' r :
  cache_ok P st -> config_authenticate P st b = (st', r) ->
  same_but_cache st st' /\ cache_ok P st'
  /\ (forall u ro, r = POk (Some (u, ro)) ->
        exists tok s, b = Some tok /\ decodes P (i_key st) tok s /\ u = s_user s
                      /\ cfg_role (i_cfg st) u = Some ro)
  /\ (b = None -> r = POk None /\ st' = st)
  /\ ((forall tok s, b = Some tok -> ~ decodes P (i_key st) tok s) -> st' = st /\ (b <> None -> r = PErr EInvalid)).
Proof.
  intros Hc. unfold config_authenticate. destruct b as [t|].
  2:{ intros H; inv H. splits; auto; try discriminate. intros _. split; auto. intros N; contradiction. }
  destruct (session_decode P st t) as [st1 o] eqn:Ed.
  destruct (session_decode_spec _ _ _ _ _ Hc Ed) as (Hs & Hc1 & Hdec & Hnone).
  destruct o as [s|].
  - pose proof (Hdec s eq_refl) as D.
    assert (E1 : i_cfg st1 = i_cfg st) by apply Hs.
    assert (CONTRA : (forall tok s0, Some t = Some tok -> ~ decodes P (i_key st) tok s0) -> False)
      by (intros Hn; eapply Hn; eauto).
    destruct (alookup (s_user s) (cf_users (i_cfg st1))) as [d|] eqn:Eu.
    + destruct (alookup (u_role d) (cf_roles (i_cfg st1))) as [ro|] eqn:Er; intros H; inv H;
        splits; auto; try discriminate; try (intros Hn; exfalso; apply CONTRA; exact Hn).
      intros u ro' E; inv E. exists t, s. unfold cfg_role. rewrite <- E1, Eu. auto.
    + intros H; inv H; splits; auto; try discriminate; try (intros Hn; exfalso; apply CONTRA; exact Hn).
  - intros H; inv H. rewrite (Hnone eq_refl). splits; auto; try discriminate.
Qed.

Lemma admin_authenticate_success cfg b u r :
  admin_authenticate cfg b = POk (Some (u, r)) -> b = Some (cf_admin_token cfg) /\ u = admin_actor /\ r = role_admin.
Proof.
  unfold admin_authenticate. destruct b as [t|]; [|discriminate].
  destruct (String.eqb t (cf_admin_token cfg)) eqn:E; [|discriminate].
  apply String.eqb_eq in E. subst. intros H; inv H. auto.
Qed.

Lemma primary_authenticate_spec P st b st' r :
  cache_ok P st -> primary_authenticate_with repaired P st b = (st', r) ->
  same_but_cache st st' /\ cache_ok P st'
  /\ (forall u ro, r = POk (Some (u, ro)) ->
        (b = Some (cf_admin_token (i_cfg st)) /\ u = admin_actor /\ ro = role_admin)
        \/ (cf_auth (i_cfg st) = ConfigFile /\
            exists tok s, b = Some tok /\ decodes P (i_key st) tok s /\ u = s_user s
                          /\ cfg_role (i_cfg st) u = Some ro)).
Proof.
  intros Hc. unfold primary_authenticate_with. cbn [im_authenticate repaired]. destruct (cf_auth (i_cfg st)) eqn:Ea.
  - intros H; inv H. splits; auto. intros u ro E. left. apply admin_authenticate_success; auto.
  - intros H. destruct (config_authenticate_spec _ _ _ _ _ Hc H) as (Hs & Hc' & Hok & _).
    splits; auto; intros u ro E; right; split; auto.
Qed.

(** * The chain *)
Inductive how_authenticated (P : prims) (st : inst) (rq : areq) (u : string) (r : role) : Prop :=
  | by_admin_token :
      rq_bearer rq = Some (cf_admin_token (i_cfg st)) -> u = admin_actor -> r = role_admin ->
      how_authenticated P st rq u r
  | by_session tok s :
      cf_auth (i_cfg st) = ConfigFile ->
      rq_bearer rq = Some tok -> decodes P (i_key st) tok s -> u = s_user s ->
      cfg_role (i_cfg st) u = Some r ->
      how_authenticated P st rq u r
  | by_unix_peer :
      rq_tr rq = Unix u -> alookup u (i_unix st) = Some r ->
      how_authenticated P st rq u r.

Lemma unix_authenticate_success st t u r :
  unix_authenticate st t = POk (Some (u, r)) -> t = Unix u /\ alookup u (i_unix st) = Some r.
Proof.
  unfold unix_authenticate. destruct t as [|p]; [discriminate|].
  destruct (alookup p (i_unix st)) eqn:E; [|discriminate]. intros H; inv H. auto.
Qed.

Lemma authenticate_spec P st rq st' a :
  cache_ok P st -> authenticate P st rq = (st', a) ->
  same_but_cache st st' /\ cache_ok P st'
  /\ (forall u r, a = AUser u r -> how_authenticated P st rq u r).
Proof.
  intros Hc. unfold authenticate, authenticate_with.
  remember (match cf_auth (i_cfg st) with
            | ConfigFile => admin_authenticate (i_cfg st) (rq_bearer rq)
            | AdminTokenOnly => POk None
            end) as r1 eqn:R1.
  destruct (is_success r1) eqn:S1.
  - (* the legacy provider accepted *)
    intros H; injection H as Est Ea; subst st' a. splits; auto.
    intros u r E. destruct r1 as [[[u1 ro1]|]|e]; try discriminate. inv E.
    destruct (cf_auth (i_cfg st)); [discriminate|]. symmetry in R1.
    apply admin_authenticate_success in R1. destruct R1 as (? & ? & ?). apply by_admin_token; auto.
  - destruct (primary_authenticate_with repaired P st (rq_bearer rq)) as [st1 r2] eqn:E2.
    destruct (primary_authenticate_spec _ _ _ _ _ Hc E2) as (Hs & Hc1 & Hok).
    intros H; injection H as Est Ea; subst st1 a. splits; auto.
    intros u r E.
    destruct (is_success r2) eqn:S2.
    + destruct r2 as [[[u2 ro2]|]|e]; try discriminate. inv E.
      destruct (Hok u r eq_refl) as [(? & ? & ?)|(Ha & tok & s & ? & ? & ? & ?)].
      * apply by_admin_token; auto.
      * eapply by_session; eauto.
    + destruct (unix_authenticate st' (rq_tr rq)) as [[[u3 ro3]|]|e] eqn:E3; try discriminate. inv E.
      apply unix_authenticate_success in E3. destruct E3 as [Et El].
      destruct Hs as (_ & _ & _ & _ & Hu). rewrite Hu in El. apply by_unix_peer; auto.
Qed.

(** * Runs: the invariant *)

(** Facts recorded with every token [config_login] hands out: the user of the session is configured, the
    submitted password matched the hash stored for that very user, and the user's role permits login. *)
Definition login_facts (P : prims) (cfg : config) (s : session) : Prop :=
  exists pw d r,
    alookup (s_user s) (cf_users cfg) = Some d /\ u_salt_hex d = true
    /\ p_pw_ok P (u_cred d) (p_norm P (s_user s)) (p_norm P pw) = true
    /\ s_role s = u_role d
    /\ alookup (u_role d) (cf_roles cfg) = Some r /\ is_allowed r Login None = true.

Definition issue_ok (P : prims) (key : N) (i : issue) : Prop :=
  is_tok i = p_b64enc P (p_encrypt P key (is_nonce i) (p_ser P (is_sess i)))
  /\ cf_auth (is_cfg i) = ConfigFile
  /\ login_facts P (is_cfg i) (is_sess i).

Record inv (P : prims) (key : N) (st : inst) (log : list issue) : Prop := {
  inv_key : i_key st = key;
  inv_cache : cache_ok P st;
  inv_unix : build_unix (cf_roles (i_cfg st)) (cf_unix (i_cfg st)) = Some (i_unix st);
  inv_log : forall i, In i log -> issue_ok P key i
}.

Lemma inv_same_but_cache P key st st' log :
  inv P key st log -> same_but_cache st st' -> cache_ok P st' -> inv P key st' log.
Proof.
  intros [K C U L] (E1 & E2 & E3 & E4 & E5) Hc. constructor; auto.
  - congruence.
  - rewrite E1, E5. auto.
Qed.

Lemma start_inv P cfg key sender st : start cfg key sender = Some st -> inv P key st [].
Proof.
  unfold start. destruct (build_unix (cf_roles cfg) (cf_unix cfg)) eqn:E; [|discriminate].
  intros H; inv H. constructor; simpl; auto.
  - intros t s [].
  - intros i [].
Qed.

Lemma config_login_spec P st basic st' res :
  crypto_ok P -> cache_ok P st -> config_login P st basic = (st', res) ->
  match res with
  | LOk tok id rn =>
      let s := mkSess id rn in
      tok = p_b64enc P (p_encrypt P (i_key st) (i_sender st, i_ctr st) (p_ser P s))
      /\ login_facts P (i_cfg st) s
      /\ (exists pw, basic = Some (id, pw))
      /\ st' = mkInst (i_cfg st) (i_key st) (i_sender st) (i_ctr st + 1) (i_unix st) (cache_put tok s (i_cache st))
      /\ cache_ok P st'
  | _ => st' = st
  end.
Proof.
  intros CO Hc. unfold config_login.
  destruct basic as [[name pw]|]; [|intros H; inv H; auto].
  destruct (alookup name (cf_users (i_cfg st))) as [d0|] eqn:E0; [|intros H; inv H; auto].
  destruct (u_salt_hex d0) eqn:Eh; cbn [negb]; [|intros H; inv H; auto].
  destruct (p_pw_ok P (u_cred d0) (p_norm P name) (p_norm P pw)) eqn:Ep; cbn [negb]; [|intros H; inv H; auto].
  destruct (alookup (u_role d0) (cf_roles (i_cfg st))) as [r|] eqn:Er; [|intros H; inv H; auto].
  destruct (is_allowed r Login None) eqn:Ea; cbn [negb]; intros H; inv H; auto.
  cbv zeta. splits; auto.
  - exists pw, d0, r. simpl. splits; auto.
  - exists pw. auto.
  - intros t s [E|Hin].
    + inv E. simpl. destruct CO as [_ Cc Cs Cb].
      eexists _, _. split; [apply Cb|]. split; [apply Cc|]. apply Cs.
    + apply Hc in Hin. exact Hin.
Qed.

Lemma pre_spec P st b : cache_ok P st -> same_but_cache st (pre P st b) /\ cache_ok P (pre P st b).
Proof.
  intros Hc. unfold pre, pre_with. change (authenticate_with repaired) with authenticate.
  destruct (authenticate P st (mkRq b Tcp)) as [st1 a] eqn:E.
  destruct (authenticate_spec _ _ _ _ _ Hc E) as (? & ? & _). auto.
Qed.

Lemma cache_ok_aremove P st tok : cache_ok P st -> cache_ok P (set_cache st (aremove tok (i_cache st))).
Proof. intros Hc t s Hin. simpl in *. apply In_aremove in Hin. apply Hc; auto. Qed.

Lemma step_inv P key st log o st' l :
  crypto_ok P -> inv P key st log -> step P st o = Some (st', l) -> inv P key st' (log ++ l).
Proof.
  intros CO I. unfold step, step_with. cbn [im_keep_sender repaired].
  change (pre_with repaired) with pre. change (login_with repaired) with login.
  change (authenticate_with repaired) with authenticate. change (logout_with repaired) with logout.
  destruct o as [basic b|rq|b|tok|cfg' sender'].
  - (* login *)
    destruct (pre_spec P st b (inv_cache _ _ _ _ I)) as [Hs Hc0].
    pose proof (inv_same_but_cache _ _ _ _ _ I Hs Hc0) as I0.
    set (st0 := pre P st b) in *.
    unfold login, login_with. cbn [im_login repaired]. destruct (cf_auth (i_cfg st0)) eqn:Ea.
    + (* admin token provider: no state, no token of its own *)
      unfold admin_login. destruct (admin_authenticate (i_cfg st0) b) as [[?|]|?]; intros H; inv H; rewrite app_nil_r; auto.
    + destruct (config_login P st0 basic) as [st1 res] eqn:El.
      pose proof (config_login_spec _ _ _ _ _ CO Hc0 El) as S.
      destruct res as [tok id rn| | | |]; intros H; inv H; try (rewrite app_nil_r; subst; auto; fail).
      cbv zeta in S. destruct S as (Et & Hf & _ & Est & Hc1).
      destruct I0 as [K C U L]. constructor.
      * subst st'. simpl. auto.
      * auto.
      * subst st'. simpl. auto.
      * intros i Hin. apply in_app_or in Hin. destruct Hin as [Hin|[E|[]]]; auto.
        subst i. unfold issue_ok. simpl. rewrite <- K. auto.
  - (* any request *)
    intros H; inv H. rewrite app_nil_r.
    destruct (authenticate P st rq) as [st1 a] eqn:E. simpl.
    destruct (authenticate_spec _ _ _ _ _ (inv_cache _ _ _ _ I) E) as (Hs & Hc & _).
    eapply inv_same_but_cache; eauto.
  - (* logout *)
    intros H; inv H. rewrite app_nil_r.
    destruct (pre_spec P st b (inv_cache _ _ _ _ I)) as [Hs Hc0].
    pose proof (inv_same_but_cache _ _ _ _ _ I Hs Hc0) as I0.
    set (st0 := pre P st b) in *.
    unfold logout, logout_with. cbn [im_authenticate repaired]. destruct (cf_auth (i_cfg st0)); auto. destruct b as [t|]; auto.
    pose proof (cache_ok_aremove P st0 t Hc0) as Hc1.
    destruct (config_authenticate P (set_cache st0 (aremove t (i_cache st0))) (Some t)) as [st2 r] eqn:E. simpl.
    destruct (config_authenticate_spec _ _ _ _ _ Hc1 E) as (Hs2 & Hc2 & _).
    eapply inv_same_but_cache; [|exact Hs2|exact Hc2].
    eapply inv_same_but_cache; [exact I0|apply same_but_cache_set|exact Hc1].
  - (* eviction *)
    intros H; inv H. rewrite app_nil_r.
    eapply inv_same_but_cache; [exact I|apply same_but_cache_set|apply cache_ok_aremove; apply (inv_cache _ _ _ _ I)].
  - (* restart *)
    destruct (start cfg' (i_key st) sender') as [st1|] eqn:E; intros H; inv H. rewrite app_nil_r.
    pose proof (start_inv P _ _ _ _ E) as I1. destruct I as [K C U L], I1 as [K1 C1 U1 _].
    constructor; auto. congruence.
Qed.

Lemma run_inv P key ops : forall st log st' l,
  crypto_ok P -> inv P key st log -> run P st ops = Some (st', l) -> inv P key st' (log ++ l).
Proof.
  unfold run. induction ops as [|o ops IH]; simpl; intros st log st' l CO I.
  - intros H; inv H. rewrite app_nil_r. auto.
  - destruct (step_with repaired P st o) as [[st1 l1]|] eqn:Es; [|discriminate].
    destruct (run_with repaired P st1 ops) as [[st2 l2]|] eqn:Er; [|discriminate].
    intros H; inv H. rewrite app_assoc. eapply IH; eauto. eapply step_inv; eauto.
Qed.

Lemma run_inv0 P cfg key sender st0 ops st log :
  crypto_ok P -> start cfg key sender = Some st0 -> run P st0 ops = Some (st, log) -> inv P key st log.
Proof. intros CO S R. apply (run_inv P key ops st0 [] st log CO (start_inv P _ _ _ _ S) R). Qed.

(** * Nonces: every token is encrypted under a (sender id, counter) pair of its own, as long as the sender ids
    drawn at the starts of the daemon differ *)
Record ninv (used : list N) (st : inst) (log : list issue) : Prop := {
  ni_cur : In (i_sender st) used;
  ni_log : forall i, In i log ->
             In (fst (is_nonce i)) used /\ (fst (is_nonce i) = i_sender st -> snd (is_nonce i) < i_ctr st);
  ni_nodup : NoDup (map is_nonce log)
}.

Lemma ninv_same_but_cache used st st' log : ninv used st log -> same_but_cache st st' -> ninv used st' log.
Proof.
  intros [C L N] (_ & _ & Es & Ec & _). constructor; auto.
  - rewrite Es. auto.
  - intros i Hin. rewrite Es, Ec. auto.
Qed.

Lemma NoDup_app_inv {A} (l1 l2 : list A) :
  NoDup (l1 ++ l2) -> NoDup l1 /\ NoDup l2 /\ (forall x, In x l1 -> In x l2 -> False).
Proof.
  induction l1 as [|a l1 IH]; simpl; intros H.
  - splits; auto. constructor.
  - inv H. destruct (IH H3) as (N1 & N2 & D). splits; auto.
    + constructor; auto. intros Hin. apply H2. apply in_or_app. auto.
    + intros x [->|Hx] Hx2; [apply H2; apply in_or_app; auto|eapply D; eauto].
Qed.

Lemma step_ninv P used st log o st' l :
  crypto_ok P -> cache_ok P st -> ninv used st log ->
  (forall s, In s (op_senders [o]) -> ~ In s used) ->
  step P st o = Some (st', l) -> ninv (op_senders [o] ++ used) st' (log ++ l).
Proof.
  intros CO Hc NI FR. unfold step, step_with. cbn [im_keep_sender repaired].
  change (pre_with repaired) with pre. change (login_with repaired) with login.
  change (authenticate_with repaired) with authenticate. change (logout_with repaired) with logout.
  assert (KEEP : forall st1, same_but_cache st st1 -> ninv used st1 (log ++ [])).
  { intros st1 Hs. rewrite app_nil_r. eapply ninv_same_but_cache; eauto. }
  destruct o as [basic b|rq|b|tok|cfg' sender']; cbn [op_senders flat_map app] in *.
  - destruct (pre_spec P st b Hc) as [Hs Hc0]. set (st0 := pre P st b) in *.
    unfold login, login_with. cbn [im_login repaired]. destruct (cf_auth (i_cfg st0)) eqn:Ea.
    + unfold admin_login. destruct (admin_authenticate (i_cfg st0) b) as [[?|]|?]; intros H; inv H; apply KEEP; auto.
    + destruct (config_login P st0 basic) as [st1 res] eqn:El.
      pose proof (config_login_spec _ _ _ _ _ CO Hc0 El) as S.
      destruct res as [tok id rn| | | |]; intros H; inv H; try (subst; apply KEEP; auto; fail).
      cbv zeta in S. destruct S as (_ & _ & _ & Est & _).
      destruct Hs as (_ & _ & Es & Ec & _). destruct NI as [C L N]. subst st'.
      constructor; simpl.
      * rewrite Es. auto.
      * intros i Hin. apply in_app_or in Hin. destruct Hin as [Hin|[E|[]]].
        -- destruct (L i Hin) as [Hu Hlt]. split; auto. rewrite Es, Ec. intros E. apply Hlt in E. lia.
        -- subst i. simpl. rewrite Es. split; auto. intros _. lia.
      * rewrite map_app. simpl. apply NoDup_app_disjoint; auto.
        -- constructor; [intros []|constructor].
        -- intros n Hin [E|[]]. apply in_map_iff in Hin. destruct Hin as (i & Ei & Hin).
           destruct (L i Hin) as [_ Hlt]. rewrite Ei, <- E in Hlt. simpl in Hlt. rewrite Es, Ec in Hlt.
           specialize (Hlt eq_refl). lia.
  - intros H; inv H. apply KEEP.
    destruct (authenticate P st rq) as [st1 a] eqn:E. simpl.
    destruct (authenticate_spec _ _ _ _ _ Hc E) as (Hs & _ & _). auto.
  - intros H; inv H. apply KEEP.
    destruct (pre_spec P st b Hc) as [Hs Hc0]. set (st0 := pre P st b) in *.
    unfold logout, logout_with. cbn [im_authenticate repaired]. destruct (cf_auth (i_cfg st0)); auto. destruct b as [t|]; auto.
    pose proof (cache_ok_aremove P st0 t Hc0) as Hc1.
    destruct (config_authenticate P (set_cache st0 (aremove t (i_cache st0))) (Some t)) as [st2 r] eqn:E. simpl.
    destruct (config_authenticate_spec _ _ _ _ _ Hc1 E) as (Hs2 & _ & _).
    eapply same_but_cache_trans; [exact Hs|]. eapply same_but_cache_trans; [|exact Hs2]. apply same_but_cache_set.
  - intros H; inv H. apply KEEP. apply same_but_cache_set.
  - (* restart with a sender id that was never used *)
    destruct (start cfg' (i_key st) sender') as [st1|] eqn:E; intros H; inv H. rewrite app_nil_r.
    assert (Es : i_sender st' = sender' /\ i_ctr st' = 0).
    { unfold start in E. destruct (build_unix _ _); inv E. auto. }
    destruct Es as [Es Ec]. destruct NI as [C L N]. constructor; auto.
    + rewrite Es. left. auto.
    + intros i Hin. destruct (L i Hin) as [Hu _]. split; [right; auto|].
      rewrite Es. intros E2. exfalso. apply (FR sender'); [left; auto|]. rewrite <- E2. auto.
Qed.

Lemma op_senders_cons o ops : op_senders (o :: ops) = op_senders [o] ++ op_senders ops.
Proof. unfold op_senders. simpl. rewrite app_nil_r. reflexivity. Qed.

Lemma run_ninv P key ops : forall used st log st' l,
  crypto_ok P -> inv P key st log -> ninv used st log ->
  NoDup (op_senders ops) -> (forall s, In s (op_senders ops) -> ~ In s used) ->
  run P st ops = Some (st', l) -> exists used', ninv used' st' (log ++ l).
Proof.
  unfold run. induction ops as [|o ops IH]; intros used st log st' l CO I NI ND FR.
  - simpl. intros H; inv H. rewrite app_nil_r. eauto.
  - simpl run_with. destruct (step_with repaired P st o) as [[st1 l1]|] eqn:Es; [|discriminate].
    destruct (run_with repaired P st1 ops) as [[st2 l2]|] eqn:Er; [|discriminate].
    intros H; inv H. rewrite op_senders_cons in ND, FR.
    destruct (NoDup_app_inv _ _ ND) as (_ & ND2 & DJ).
    assert (NI1 : ninv (op_senders [o] ++ used) st1 (log ++ l1)).
    { eapply step_ninv; eauto. apply (inv_cache _ _ _ _ I). intros s Hs. apply FR. apply in_or_app. auto. }
    pose proof (step_inv _ _ _ _ _ _ _ CO I Es) as I1.
    rewrite app_assoc. eapply IH; eauto.
    intros s Hs Hin. apply in_app_or in Hin. destruct Hin as [Hin|Hin].
    + eapply DJ; eauto.
    + apply (FR s); auto. apply in_or_app. auto.
Qed.

(** * The toy primitives meet the assumptions (so the hypotheses of the theorems below are consistent) *)
Lemma sapp_assoc (a b c : string) : ((a ++ b) ++ c = a ++ (b ++ c))%string.
Proof. induction a; simpl; congruence. Qed.

Lemma strip_ones n r : strip_unary (ones n ++ String "0" r) = Some (n, r).
Proof. induction n; simpl; auto. rewrite IHn. auto. Qed.

Lemma strip_unary_app k r : strip_unary (unary k ++ r) = Some (N.to_nat k, r).
Proof. unfold unary. rewrite sapp_assoc. simpl. apply strip_ones. Qed.

Lemma strip_unary_inv s : forall n r, strip_unary s = Some (n, r) -> s = (ones n ++ String "0" r)%string.
Proof.
  induction s as [|a s IH]; simpl; intros n r; [discriminate|].
  destruct (Ascii.eqb a "0") eqn:E0.
  - apply Ascii.eqb_eq in E0. subst. intros H; inv H. reflexivity.
  - destruct (Ascii.eqb a "1") eqn:E1; [|discriminate].
    apply Ascii.eqb_eq in E1. subst.
    destruct (strip_unary s) as [[k t]|] eqn:Es; [|discriminate].
    intros H; inv H. simpl. rewrite (IH _ _ eq_refl). reflexivity.
Qed.

Lemma unary_ones n r : (unary (N.of_nat n) ++ r = ones n ++ String "0" r)%string.
Proof. unfold unary. rewrite Nat2N.id, sapp_assoc. reflexivity. Qed.

Lemma stake_app u r : stake (String.length u) (u ++ r) = u.
Proof. induction u; simpl; [destruct r; auto|congruence]. Qed.

Lemma sdrop_app u r : sdrop (String.length u) (u ++ r) = r.
Proof. induction u; simpl; auto. Qed.

Lemma slength_app u r : String.length (u ++ r) = (String.length u + String.length r)%nat.
Proof. induction u; simpl; auto. Qed.

Lemma toy_crypto_ok norms creds : crypto_ok (toy norms creds).
Proof.
  constructor.
  - intros k c pt. simpl. unfold toy_decrypt.
    destruct (strip_unary c) as [[k' r]|] eqn:E1; [|discriminate].
    destruct (N.of_nat k' =? k) eqn:Ek; [|discriminate]. apply N.eqb_eq in Ek.
    destruct (strip_unary r) as [[s' r2]|] eqn:E2; [|discriminate].
    destruct (strip_unary r2) as [[c' pt']|] eqn:E3; [|discriminate].
    intros H; inv H. exists (N.of_nat s', N.of_nat c').
    apply strip_unary_inv in E1. apply strip_unary_inv in E2. apply strip_unary_inv in E3. subst.
    unfold toy_encrypt. cbn [fst snd]. rewrite !unary_ones. reflexivity.
  - intros k [s c] pt. simpl. unfold toy_decrypt, toy_encrypt. cbn [fst snd].
    rewrite strip_unary_app, N2Nat.id, N.eqb_refl, !strip_unary_app. reflexivity.
  - intros [u r]. simpl. unfold toy_de, toy_ser. simpl.
    rewrite strip_unary_app, Nat2N.id, slength_app.
    replace (Nat.leb (String.length u) (String.length u + String.length r)) with true
      by (symmetry; apply Nat.leb_le; lia).
    rewrite stake_app, sdrop_app. reflexivity.
  - intros b. reflexivity.
Qed.

Lemma toy_b64_strict norms creds : b64_strict (toy norms creds).
Proof. intros t b H. simpl in *. congruence. Qed.

Lemma toy_key_sep norms creds : key_sep (toy norms creds).
Proof.
  intros k n pt k' n' pt'. simpl. unfold toy_encrypt. intros H.
  apply (f_equal strip_unary) in H. rewrite !strip_unary_app in H. inv H. apply N2Nat.inj; auto.
Qed.

(** * C20: who a request acts as *)

(** Two token texts that base64-decode to the same bytes. *)
Definition same_bytes (P : prims) (a b : string) : Prop :=
  exists c, p_b64dec P a = Some c /\ p_b64dec P b = Some c.

Lemma same_bytes_strict P a b : b64_strict P -> same_bytes P a b -> a = b.
Proof. intros S (c & Ea & Eb). rewrite (S _ _ Ea), (S _ _ Eb). reflexivity. Qed.

(** A token of the log decodes to its session and to nothing else. *)
Lemma issued_decodes P key i : crypto_ok P -> issue_ok P key i -> decodes P key (is_tok i) (is_sess i).
Proof.
  intros CO (Et & _). rewrite Et. eexists _, _.
  split; [apply (co_b64 _ CO)|]. split; [apply (co_complete _ CO)|apply (co_serde _ CO)].
Qed.

Lemma decodes_issued_unique P key i s :
  crypto_ok P -> issue_ok P key i -> decodes P key (is_tok i) s -> s = is_sess i.
Proof.
  intros CO (Et & _) (c & pt & Eb & Ed & Es). rewrite Et, (co_b64 _ CO) in Eb. inv Eb.
  rewrite (co_complete _ CO) in Ed. inv Ed. rewrite (co_serde _ CO) in Es. inv Es. reflexivity.
Qed.

(** Under key secrecy, whatever decodes is a token of the log. *)
Lemma decodes_issued P key log tok s :
  crypto_ok P -> (forall i, In i log -> issue_ok P key i) -> own_ct P key log tok -> decodes P key tok s ->
  exists i, In i log /\ same_bytes P tok (is_tok i) /\ is_sess i = s.
Proof.
  intros CO L OWN (c & pt & Eb & Ed & Es).
  destruct (co_sound _ CO _ _ _ Ed) as [n Ec].
  destruct (OWN c n pt Eb Ec) as (i & Hin & Ei).
  exists i. split; auto. split; [exists c; auto|].
  symmetry. eapply decodes_issued_unique; eauto. exists c, pt. auto.
Qed.

Lemma build_unix_lookup roles l : forall ux p r,
  build_unix roles l = Some ux -> alookup p ux = Some r ->
  exists rn, alookup p l = Some rn /\ alookup rn roles = Some r.
Proof.
  induction l as [|[u rn] l IH]; simpl; intros ux p r.
  - intros H; inv H. discriminate.
  - destruct (alookup rn roles) as [ro|] eqn:Er; [|discriminate].
    destruct (build_unix roles l) as [t|] eqn:Eb; [|discriminate].
    intros H; inv H. simpl. destruct (String.eqb p u) eqn:E.
    + intros H; inv H. exists rn. auto.
    + intros H. eapply IH; eauto.
Qed.

Lemma build_unix_lookup_none roles l : forall ux p,
  build_unix roles l = Some ux -> alookup p l = None -> alookup p ux = None.
Proof.
  induction l as [|[u rn] l IH]; simpl; intros ux p.
  - intros H; inv H. auto.
  - destruct (alookup rn roles) as [ro|] eqn:Er; [|discriminate].
    destruct (build_unix roles l) as [t|] eqn:Eb; [|discriminate].
    intros H; inv H. simpl. destruct (String.eqb p u) eqn:E; [discriminate|]. eauto.
Qed.

(** The statement, over an implementation of the config-file provider: in every run of a storage - restarts
    with an edited configuration included - a request acts as a user only by the admin token (role admin), by a
    token that a login of this storage issued for a then configured user and the matching password - with the
    role the configuration gives that user NOW -, or as the mapped socket peer. *)
Definition auth_identity_on (I : impl) : Prop :=
  forall P cfg key sender st0 ops st log rq st' u r,
    crypto_ok P -> start cfg key sender = Some st0 -> run_with I P st0 ops = Some (st, log) ->
    (forall b, rq_bearer rq = Some b -> own_ct P key log b) ->
    authenticate_with I P st rq = (st', AUser u r) ->
    (rq_bearer rq = Some (cf_admin_token (i_cfg st)) /\ u = admin_actor /\ r = role_admin)
    \/ (exists b i, rq_bearer rq = Some b /\ In i log /\ same_bytes P b (is_tok i) /\ u = s_user (is_sess i)
          /\ login_facts P (is_cfg i) (is_sess i) /\ cfg_role (i_cfg st) u = Some r)
    \/ (exists rn, rq_tr rq = Unix u /\ alookup u (cf_unix (i_cfg st)) = Some rn
          /\ alookup rn (cf_roles (i_cfg st)) = Some r).

Theorem auth_identity : auth_identity_on repaired.
Proof.
  intros P cfg key sender st0 ops st log rq st' u r CO S R OWN A.
  change (run_with repaired) with run in R. change (authenticate_with repaired) with authenticate in A.
  pose proof (run_inv0 _ _ _ _ _ _ _ _ CO S R) as [K C U L].
  destruct (authenticate_spec _ _ _ _ _ C A) as (_ & _ & HOW).
  destruct (HOW u r eq_refl) as [Eb Eu Er|tok s Ea Eb D Eu Er|Et El].
  - left. auto.
  - right. left. rewrite K in D.
    destruct (decodes_issued _ _ _ _ _ CO L (OWN _ Eb) D) as (i & Hin & SB & Es). subst s.
    exists tok, i. splits; auto. apply (L i Hin).
  - right. right. destruct (build_unix_lookup _ _ _ _ _ U El) as (rn & ? & ?). exists rn. auto.
Qed.

(** With a strict base64 decoder the bearer is, text for text, a token that login handed out. *)
Theorem auth_identity_strict : forall P cfg key sender st0 ops st log rq st' u r,
  crypto_ok P -> b64_strict P -> start cfg key sender = Some st0 -> run P st0 ops = Some (st, log) ->
  (forall b, rq_bearer rq = Some b -> own_ct P key log b) ->
  authenticate P st rq = (st', AUser u r) ->
  (rq_bearer rq = Some (cf_admin_token (i_cfg st)) /\ u = admin_actor /\ r = role_admin)
  \/ (exists i, In i log /\ rq_bearer rq = Some (is_tok i) /\ u = s_user (is_sess i)
        /\ login_facts P (is_cfg i) (is_sess i) /\ cfg_role (i_cfg st) u = Some r)
  \/ (exists rn, rq_tr rq = Unix u /\ alookup u (cf_unix (i_cfg st)) = Some rn
        /\ alookup rn (cf_roles (i_cfg st)) = Some r).
Proof.
  intros P cfg key sender st0 ops st log rq st' u r CO ST S R OWN A.
  destruct (auth_identity _ _ _ _ _ _ _ _ _ _ _ _ CO S R OWN A)
    as [H|[(b & i & Eb & Hin & SB & Eu & LF & Er)|H]]; auto.
  right. left. exists i. rewrite (same_bytes_strict _ _ _ ST SB) in Eb. splits; auto.
Qed.

(** What a request without bearer gets: nothing over TCP, the peer's role over the socket. *)
Lemma authenticate_no_bearer P st tr :
  authenticate P st (mkRq None tr) =
  (st, match tr with
       | Tcp => AAnon
       | Unix p => match alookup p (i_unix st) with Some r => AUser p r | None => AErr EInvalid end
       end).
Proof.
  unfold authenticate, authenticate_with, primary_authenticate_with. simpl.
  destruct (cf_auth (i_cfg st)); simpl; destruct tr as [|p]; simpl; auto;
    destruct (alookup p (i_unix st)); reflexivity.
Qed.

(** What a token of the log gets: its user, with the role the configuration gives that user now - or, when the
    user is no longer configured (or the role is gone), what the request would get without bearer. *)
Lemma authenticate_issued P key st log i tr :
  crypto_ok P -> inv P key st log -> In i log ->
  cf_auth (i_cfg st) = ConfigFile -> is_tok i <> cf_admin_token (i_cfg st) ->
  snd (authenticate P st (mkRq (Some (is_tok i)) tr)) =
  match cfg_role (i_cfg st) (s_user (is_sess i)) with
  | Some r => AUser (s_user (is_sess i)) r
  | None => snd (authenticate P st (mkRq None tr))
  end.
Proof.
  intros CO [K C U L] Hin Ea NA.
  pose proof (L i Hin) as IO.
  assert (EA : admin_authenticate (i_cfg st) (Some (is_tok i)) = PErr EInvalid).
  { unfold admin_authenticate. destruct (String.eqb (is_tok i) (cf_admin_token (i_cfg st))) eqn:E; auto.
    apply String.eqb_eq in E. contradiction. }
  assert (ED : exists st1, session_decode P st (is_tok i) = (st1, Some (is_sess i)) /\ same_but_cache st st1).
  { destruct (session_decode P st (is_tok i)) as [st1 o] eqn:E.
    destruct (session_decode_spec _ _ _ _ _ C E) as (Hs & _ & Hd & Hn).
    exists st1. split; [|apply Hs]. f_equal.
    destruct o as [s|].
    - f_equal. rewrite K in Hd. eapply decodes_issued_unique; eauto.
    - exfalso. revert E. unfold session_decode.
      destruct (alookup (is_tok i) (i_cache st)); [discriminate|].
      destruct (issued_decodes _ _ _ CO IO) as (c & pt & Eb & Edc & Es). rewrite K, Eb, Edc, Es. discriminate. }
  destruct ED as (st1 & ED & (Ec & _ & _ & _ & Eu)).
  rewrite authenticate_no_bearer.
  unfold authenticate, authenticate_with, primary_authenticate_with, cfg_role. cbn [im_authenticate repaired].
  unfold config_authenticate. simpl rq_bearer. simpl rq_tr.
  rewrite Ea, EA. simpl. rewrite ED, Ec.
  destruct (alookup (s_user (is_sess i)) (cf_users (i_cfg st))) as [d|]; simpl.
  - destruct (alookup (u_role d) (cf_roles (i_cfg st))) as [r|]; simpl; auto.
    unfold unix_authenticate. rewrite Eu. destruct tr as [|p]; auto. destruct (alookup p (i_unix st)); auto.
  - unfold unix_authenticate. rewrite Eu. destruct tr as [|p]; auto. destruct (alookup p (i_unix st)); auto.
Qed.

(** * Tokens stay valid for as long as their user is configured
    Logout with that very token, eviction from the cache, restarts: a token of this storage authenticates as its
    user for as long as that user is configured, with the role the configuration gives the user now (sessions
    carry no expiry, logout only drops a cache entry). *)
Theorem token_valid_forever : forall P cfg key sender st0 ops st log i r tr,
  crypto_ok P -> start cfg key sender = Some st0 -> run P st0 ops = Some (st, log) ->
  In i log -> cf_auth (i_cfg st) = ConfigFile -> is_tok i <> cf_admin_token (i_cfg st) ->
  cfg_role (i_cfg st) (s_user (is_sess i)) = Some r ->
  snd (authenticate P st (mkRq (Some (is_tok i)) tr)) = AUser (s_user (is_sess i)) r.
Proof.
  intros P cfg key sender st0 ops st log i r tr CO S R Hin Ea NA Er.
  rewrite (authenticate_issued P key st log i tr CO (run_inv0 _ _ _ _ _ _ _ _ CO S R) Hin Ea NA), Er. reflexivity.
Qed.

(** The token of a user who has been removed from the configuration is worth nothing. *)
Theorem removed_user_token_refused : forall P cfg key sender st0 ops st log i tr,
  crypto_ok P -> start cfg key sender = Some st0 -> run P st0 ops = Some (st, log) ->
  In i log -> cf_auth (i_cfg st) = ConfigFile -> is_tok i <> cf_admin_token (i_cfg st) ->
  alookup (s_user (is_sess i)) (cf_users (i_cfg st)) = None ->
  snd (authenticate P st (mkRq (Some (is_tok i)) tr)) = snd (authenticate P st (mkRq None tr)).
Proof.
  intros P cfg key sender st0 ops st log i tr CO S R Hin Ea NA En.
  rewrite (authenticate_issued P key st log i tr CO (run_inv0 _ _ _ _ _ _ _ _ CO S R) Hin Ea NA).
  unfold cfg_role. rewrite En. reflexivity.
Qed.

(** * Login *)

(** The statements, over a login function. Soundness: whoever logs in is the configured user of the submitted
    name, with that user's role. Completeness: a configured user whose stored hash matches (for the normalised
    name in the weak salt) and whose role permits login does log in. *)
Definition login_identity_on (lg : prims -> inst -> option (string * string) -> option string -> inst * lres) : Prop :=
  forall P st name pw b st' tok id rn,
    crypto_ok P -> cf_auth (i_cfg st) = ConfigFile ->
    lg P st (Some (name, pw)) b = (st', LOk tok id rn) ->
    exists d, alookup name (cf_users (i_cfg st)) = Some d /\ id = name /\ rn = u_role d
              /\ p_pw_ok P (u_cred d) (p_norm P name) (p_norm P pw) = true.

Definition login_complete_on (lg : prims -> inst -> option (string * string) -> option string -> inst * lres) : Prop :=
  forall P st name pw b d r,
    crypto_ok P -> cf_auth (i_cfg st) = ConfigFile ->
    alookup name (cf_users (i_cfg st)) = Some d -> u_salt_hex d = true ->
    p_pw_ok P (u_cred d) (p_norm P name) (p_norm P pw) = true ->
    alookup (u_role d) (cf_roles (i_cfg st)) = Some r -> is_allowed r Login None = true ->
    exists st' tok, lg P st (Some (name, pw)) b = (st', LOk tok name (u_role d)).

(** Login succeeds exactly for a configured user with the matching password whose role permits login - for every
    configuration; the hypothesis on the configured names that the pinned tree needed is gone. *)
Theorem login_iff : forall P st name pw b id rn,
  cf_auth (i_cfg st) = ConfigFile ->
  ((exists st' tok, login P st (Some (name, pw)) b = (st', LOk tok id rn)) <->
   (exists d r, alookup name (cf_users (i_cfg st)) = Some d /\ u_salt_hex d = true
      /\ p_pw_ok P (u_cred d) (p_norm P name) (p_norm P pw) = true
      /\ alookup (u_role d) (cf_roles (i_cfg st)) = Some r /\ is_allowed r Login None = true
      /\ id = name /\ rn = u_role d)).
Proof.
  intros P st name pw b id rn Ea. unfold login, login_with. cbn [im_login repaired]. rewrite Ea.
  unfold config_login. split.
  - intros (st' & tok & H). revert H.
    destruct (alookup name (cf_users (i_cfg st))) as [d0|] eqn:E0; [|intros H; inv H].
    destruct (u_salt_hex d0) eqn:Eh; cbn [negb]; [|intros H; inv H].
    destruct (p_pw_ok P (u_cred d0) (p_norm P name) (p_norm P pw)) eqn:Ep; cbn [negb]; [|intros H; inv H].
    destruct (alookup (u_role d0) (cf_roles (i_cfg st))) as [r|] eqn:Er; [|intros H; inv H].
    destruct (is_allowed r Login None) eqn:Eal; cbn [negb]; intros H; inv H.
    exists d0, r. splits; auto.
  - intros (d & r & E0 & Eh & Ep & Er & Eal & -> & ->).
    rewrite E0, Eh, Ep, Er, Eal. cbn [negb]. eexists _, _. reflexivity.
Qed.

Theorem login_identity : login_identity_on login.
Proof.
  intros P st name pw b st' tok id rn _ Ea H.
  destruct (proj1 (login_iff P st name pw b id rn Ea)) as (d & r & E0 & _ & Ep & _ & _ & -> & ->); eauto.
Qed.

Theorem login_complete : login_complete_on login.
Proof.
  intros P st name pw b d r _ Ea E0 Eh Ep Er Eal.
  apply (proj2 (login_iff P st name pw b name (u_role d) Ea)). exists d, r. splits; auto.
Qed.

(** What still depends on the form of a configured name. The stored hash is made outside the daemon, from some
    name [n0] in the weak salt; under an ideal hash ([made_from]: the stored pair matches exactly the inputs it was
    made from) the user can log in iff the trimmed, NFKC-normalised form of the configured name is that [n0].
    `krillc config user --id ID` takes [n0] = NFKC(ID) WITHOUT trimming (cli/options/config.rs:64,78-79): a
    configured name with a leading or trailing blank can therefore never log in ([login_blank_name_witness]). *)
Definition made_from (P : prims) (c : N) (n0 pw0 : string) : Prop :=
  forall n p, p_pw_ok P c n p = true <-> (n = n0 /\ p = pw0).

Theorem login_needs_salt_name : forall P st name pw b d r n0,
  cf_auth (i_cfg st) = ConfigFile ->
  alookup name (cf_users (i_cfg st)) = Some d -> u_salt_hex d = true ->
  made_from P (u_cred d) n0 (p_norm P pw) ->
  alookup (u_role d) (cf_roles (i_cfg st)) = Some r -> is_allowed r Login None = true ->
  ((exists st' tok, login P st (Some (name, pw)) b = (st', LOk tok name (u_role d))) <-> p_norm P name = n0).
Proof.
  intros P st name pw b d r n0 Ea E0 Eh MF Er Eal.
  rewrite (login_iff P st name pw b name (u_role d) Ea). split.
  - intros (d' & r' & E0' & _ & Ep & _). rewrite E0 in E0'. inv E0'. apply MF in Ep. tauto.
  - intros En. exists d, r. splits; auto. apply MF. auto.
Qed.

(** * A credential that is not genuine gains nothing *)
Definition genuine (P : prims) (cfg : config) (log : list issue) (b : string) : Prop :=
  b = cf_admin_token cfg \/ exists i, In i log /\ same_bytes P b (is_tok i).

Lemma no_decode_no_gain P st b tr :
  cache_ok P st -> (forall s, ~ decodes P (i_key st) b s) -> b <> cf_admin_token (i_cfg st) ->
  authenticate P st (mkRq (Some b) tr) = authenticate P st (mkRq None tr).
Proof.
  intros C ND NA.
  assert (EA : admin_authenticate (i_cfg st) (Some b) = PErr EInvalid).
  { unfold admin_authenticate. destruct (String.eqb b (cf_admin_token (i_cfg st))) eqn:E; auto.
    apply String.eqb_eq in E. contradiction. }
  assert (EC : config_authenticate P st (Some b) = (st, PErr EInvalid)).
  { destruct (config_authenticate P st (Some b)) as [st1 r] eqn:E.
    destruct (config_authenticate_spec _ _ _ _ _ C E) as (_ & _ & _ & _ & H).
    destruct H as [-> Hr]; [intros tok s Et; inv Et; apply ND|].
    rewrite Hr; [reflexivity|discriminate]. }
  unfold authenticate, authenticate_with, primary_authenticate_with. cbn [im_authenticate repaired].
  simpl rq_bearer. simpl rq_tr.
  destruct (cf_auth (i_cfg st)).
  - rewrite EA. simpl. reflexivity.
  - rewrite EA, EC. simpl. reflexivity.
Qed.

Theorem bad_credential_no_gain : forall P cfg key sender st0 ops st log b tr,
  crypto_ok P -> start cfg key sender = Some st0 -> run P st0 ops = Some (st, log) ->
  own_ct P key log b -> ~ genuine P (i_cfg st) log b ->
  authenticate P st (mkRq (Some b) tr) = authenticate P st (mkRq None tr).
Proof.
  intros P cfg key sender st0 ops st log b tr CO S R OWN NG.
  pose proof (run_inv0 _ _ _ _ _ _ _ _ CO S R) as [K C U L].
  apply no_decode_no_gain; auto.
  - intros s D. rewrite K in D. destruct (decodes_issued _ _ _ _ _ CO L OWN D) as (i & Hin & SB & _).
    apply NG. right. eauto.
  - intros E. apply NG. left. auto.
Qed.

Lemma anonymous_allows_nothing p res : is_allowed role_anonymous p res = false.
Proof. destruct res; reflexivity. Qed.

Lemma nothing_allowed_not_served a tb q r :
  (forall p res, auth_allows a p res = false) ->
  find_route spec_routes q = Some r -> rt_gates r <> [] -> authorize spec_routes tb a q <> Served.
Proof.
  intros NA F G. unfold authorize. rewrite F.
  destruct (rt_testbed r && negb tb); [discriminate|].
  destruct (rt_gates r) as [|g gs]; [contradiction|]. simpl. unfold gate_ok at 1. rewrite NA. simpl.
  destruct a; discriminate.
Qed.

(** Over TCP, or over the socket from a system user that is not mapped, a credential that is not genuine is
    refused on every route that requires a permission, and is nobody in the audit log. *)
Theorem refused_everywhere : forall P cfg key sender st0 ops st log b tr,
  crypto_ok P -> start cfg key sender = Some st0 -> run P st0 ops = Some (st, log) ->
  own_ct P key log b -> ~ genuine P (i_cfg st) log b ->
  (tr = Tcp \/ exists p, tr = Unix p /\ alookup p (cf_unix (i_cfg st)) = None) ->
  let a := snd (authenticate P st (mkRq (Some b) tr)) in
  (forall p res, allowed a p res = false)
  /\ (forall tb q r, find_route spec_routes q = Some r -> rt_gates r <> [] ->
        authorize spec_routes tb (to_auth a) q <> Served)
  /\ actor_name a = "anonymous"%string.
Proof.
  intros P cfg key sender st0 ops st log b tr CO S R OWN NG TR a.
  pose proof (run_inv0 _ _ _ _ _ _ _ _ CO S R) as [K C U L].
  assert (Ea : a = AAnon \/ a = AErr EInvalid).
  { subst a. rewrite (bad_credential_no_gain _ _ _ _ _ _ _ _ _ _ CO S R OWN NG), authenticate_no_bearer. simpl.
    destruct TR as [->|(p & -> & En)]; auto.
    rewrite (build_unix_lookup_none _ _ _ _ U En). auto. }
  assert (NA : forall p res, allowed a p res = false).
  { intros p res. destruct Ea as [-> | ->]; simpl; auto using anonymous_allows_nothing. }
  splits; auto.
  - intros tb q r F G. apply (nothing_allowed_not_served _ tb q r); auto.
    intros p res. destruct Ea as [-> | ->]; simpl; auto using anonymous_allows_nothing.
  - destruct Ea as [-> | ->]; reflexivity.
Qed.

(** Over the socket from a mapped system user the bad bearer is ignored: the request acts as the peer. *)
Theorem bad_credential_unix_peer : forall P cfg key sender st0 ops st log b p r,
  crypto_ok P -> start cfg key sender = Some st0 -> run P st0 ops = Some (st, log) ->
  own_ct P key log b -> ~ genuine P (i_cfg st) log b -> alookup p (i_unix st) = Some r ->
  authenticate P st (mkRq (Some b) (Unix p)) = (st, AUser p r).
Proof.
  intros P cfg key sender st0 ops st log b p r CO S R OWN NG E.
  rewrite (bad_credential_no_gain _ _ _ _ _ _ _ _ _ _ CO S R OWN NG), authenticate_no_bearer, E. reflexivity.
Qed.

(** * Tokens of another instance *)
Theorem other_instance_token_rejected :
  forall P cfgA keyA sA stA0 opsA stA logA cfgB keyB sB stB0 opsB stB logB i tr,
  crypto_ok P -> key_sep P -> keyA <> keyB ->
  start cfgA keyA sA = Some stA0 -> run P stA0 opsA = Some (stA, logA) ->
  start cfgB keyB sB = Some stB0 -> run P stB0 opsB = Some (stB, logB) ->
  In i logB -> is_tok i <> cf_admin_token (i_cfg stA) ->
  authenticate P stA (mkRq (Some (is_tok i)) tr) = authenticate P stA (mkRq None tr).
Proof.
  intros P cfgA keyA sA stA0 opsA stA logA cfgB keyB sB stB0 opsB stB logB i tr CO KS NE SA RA SB RB Hin NA.
  pose proof (run_inv0 _ _ _ _ _ _ _ _ CO SA RA) as [KA CA _ _].
  pose proof (run_inv0 _ _ _ _ _ _ _ _ CO SB RB) as [_ _ _ LB].
  apply no_decode_no_gain; auto.
  intros s (c & pt & Eb & Ed & _). destruct (LB i Hin) as (Et & _).
  rewrite Et, (co_b64 _ CO) in Eb. inv Eb.
  destruct (co_sound _ CO _ _ _ Ed) as [n En]. apply KS in En. congruence.
Qed.

(** * Nonces
    The sender ids are drawn from the system's random generator (32 bits, crypt.rs:56-68); that two starts of a
    daemon on the same storage draw different ones is an assumption of the trusted base, stated as the premise
    [NoDup (sender :: op_senders ops)]. Under it no (key, nonce) pair is used for two tokens. *)
Definition nonces_fresh_on (I : impl) : Prop :=
  forall P cfg key sender st0 ops st log,
    crypto_ok P -> start cfg key sender = Some st0 -> run_with I P st0 ops = Some (st, log) ->
    NoDup (sender :: op_senders ops) -> NoDup (map is_nonce log).

Theorem nonces_fresh : nonces_fresh_on repaired.
Proof.
  intros P cfg key sender st0 ops st log CO S R ND. change (run_with repaired) with run in R.
  pose proof (start_inv P _ _ _ _ S) as I0.
  assert (N0 : ninv [sender] st0 []).
  { unfold start in S. destruct (build_unix _ _); inv S. constructor; simpl; auto. intros i []. constructor. }
  inv ND.
  destruct (run_ninv P key ops [sender] st0 [] st log CO I0 N0 H2) as (used' & [_ _ N]); auto.
  intros s Hs [<-|[]]. auto.
Qed.

(** The ciphertext of every token is the encryption under the storage key and the token's own nonce. *)
Theorem issued_under_own_nonce : forall P cfg key sender st0 ops st log i,
  crypto_ok P -> start cfg key sender = Some st0 -> run P st0 ops = Some (st, log) -> In i log ->
  is_tok i = p_b64enc P (p_encrypt P key (is_nonce i) (p_ser P (is_sess i))).
Proof.
  intros P cfg key sender st0 ops st log i CO S R Hin.
  pose proof (run_inv0 _ _ _ _ _ _ _ _ CO S R) as [_ _ _ L]. apply (L i Hin).
Qed.

(** * Regression witnesses: the originally pinned tree, and examples showing that the hypotheses can be met *)
Open Scope string_scope.

Definition ex_roles : list (string * role) :=
  [("admin", role_admin); ("readwrite", role_readwrite); ("readonly", role_readonly);
   ("nologin", simple (of_list [CaRead]))].

(** alice is an administrator, carol may only read; root is mapped on the socket. *)
Definition ex_cfg : config :=
  mkCfg ConfigFile "secret"
        [("alice", mkUser 1 true "admin"); ("carol", mkUser 2 true "readonly"); ("dave", mkUser 3 true "nologin")]
        ex_roles [("root", "admin")].
Definition ex_creds : list (N * (string * string)) :=
  [(1%N, ("alice", "pwA")); (2%N, ("carol", "pwC")); (3%N, ("dave", "pwD"))].
Definition exP : prims := toy [] ex_creds.
Definition ex_key : N := 7.

Definition ex_login (name pw : string) : op := OLogin (Some (name, pw)) None.

Lemma own_ct_of_issued P key log i : In i log -> own_ct P key log (is_tok i).
Proof. intros Hin c n pt Eb _. exists i. auto. Qed.

Lemma toy_own_ct_garbage norms creds key log b :
  strip_unary b = None -> own_ct (toy norms creds) key log b.
Proof.
  intros E c n pt Eb Ec. simpl in Eb. inv Eb. simpl in E. unfold toy_encrypt in E. rewrite strip_unary_app in E. discriminate.
Qed.

Lemma toy_hash_inj c n p n' p' : toy_hash c n p = toy_hash c n' p' -> n = n' /\ p = p'.
Proof.
  unfold toy_hash. intros H. injection H as H.
  apply (f_equal strip_unary) in H. rewrite !strip_unary_app in H. injection H as H.
  apply (f_equal toy_de) in H.
  pose proof (co_serde _ (toy_crypto_ok [] [])) as R. unfold serde_ok in R. cbn [p_de p_ser toy] in R.
  rewrite !R in H. now inv H.
Qed.

Lemma toy_made_from norms creds c n0 p0 : nlookup c creds = Some (n0, p0) -> made_from (toy norms creds) c n0 p0.
Proof.
  intros E n p. cbn [p_pw_ok toy]. unfold toy_pw_ok, toy_pw_ok_sh, login_ok, toy_stored, shape_of, hash_matches.
  rewrite E. cbn [nlookup apply_shape]. rewrite String.eqb_eq. split.
  - apply toy_hash_inj.
  - intros [-> ->]. reflexivity.
Qed.

(** ** The comparison that decides a login is equality of texts (config_file.rs:236) *)
Theorem hash_matches_iff : forall computed configured, hash_matches computed configured = true <-> computed = configured.
Proof. intros a b. unfold hash_matches. apply String.eqb_eq. Qed.

(** A configured text of another length than the computed one never matches - not an empty one, not a cut-short
    copy of the right hash, not a copy with something appended. *)
Theorem hash_other_length_never_matches : forall computed configured,
  String.length computed <> String.length configured -> hash_matches computed configured = false.
Proof.
  intros a b H. destruct (hash_matches a b) eqn:E; [|reflexivity].
  apply hash_matches_iff in E. subst. contradiction.
Qed.

Theorem login_ok_iff : forall hash stored c name pw,
  login_ok hash stored c name pw = true <-> stored c = Some (hash c name pw).
Proof.
  intros. unfold login_ok. destruct (stored c) as [t|]; split; intros H; try discriminate.
  - apply hash_matches_iff in H. now subst.
  - inv H. now apply hash_matches_iff.
Qed.

(** hex::encode of 32 bytes has 64 characters: an entry whose configured text has any other length admits no
    password at all. *)
Theorem login_ok_other_length : forall hash stored c configured,
  stored c = Some configured ->
  (forall name pw, String.length (hash c name pw) = 64%nat) -> String.length configured <> 64%nat ->
  forall name pw, login_ok hash stored c name pw = false.
Proof.
  intros hash stored c t Es Hl Hn name pw. unfold login_ok. rewrite Es.
  apply hash_other_length_never_matches. rewrite Hl. auto.
Qed.

Example login_ok_other_length_nonvacuous :
  let hash := fun (_ : N) (_ _ : string) => "0123456789abcdef0123456789abcdef0123456789abcdef0123456789abcdef" in
  (forall name pw, String.length (hash 1%N name pw) = 64%nat)
  /\ login_ok hash (fun _ => Some "0123456789abcdef") 1%N "erin" "pwE" = false
  /\ login_ok hash (fun _ => Some (hash 1%N "erin" "pwE")) 1%N "erin" "pwE" = true.
Proof. repeat split. Qed.

(** The entry "disabled" by an empty password_hash: no password logs in, the empty one included. *)
Example empty_hash_never_matches : forall hash c,
  (forall name pw, String.length (hash c name pw) = 64%nat) ->
  forall name pw, login_ok hash (fun _ => Some EmptyString) c name pw = false.
Proof.
  intros hash c Hl name pw. apply (login_ok_other_length hash (fun _ => Some EmptyString) c EmptyString); auto.
Qed.

(** In the chain: where the password check of the provider is that comparison, a user whose configured text has
    another length than a hash cannot log in, whatever is submitted. *)
Theorem login_refused_for_other_length : forall P hash stored st name pw b d configured,
  (forall c n p, p_pw_ok P c n p = login_ok hash stored c n p) ->
  cf_auth (i_cfg st) = ConfigFile ->
  alookup name (cf_users (i_cfg st)) = Some d -> stored (u_cred d) = Some configured ->
  (forall n p, String.length (hash (u_cred d) n p) = 64%nat) -> String.length configured <> 64%nat ->
  forall st' tok id rn, login P st (Some (name, pw)) b <> (st', LOk tok id rn).
Proof.
  intros P hash stored st name pw b d t HP Ea Eu Es Hl Hn st' tok id rn H.
  assert (X : exists st' tok, login P st (Some (name, pw)) b = (st', LOk tok id rn)) by eauto.
  apply (login_iff P st name pw b id rn Ea) in X. destruct X as (d' & r & E0 & _ & Ep & _).
  rewrite Eu in E0. inv E0. rewrite HP in Ep.
  rewrite (login_ok_other_length hash stored (u_cred d') t Es Hl Hn) in Ep. discriminate.
Qed.

Example auth_identity_nonvacuous :
  exists st0 st log i st',
    start ex_cfg ex_key 0 = Some st0
    /\ run exP st0 [ex_login "carol" "pwC"; ex_login "alice" "pwA"] = Some (st, log)
    /\ In i log /\ own_ct exP ex_key log (is_tok i)
    /\ authenticate exP st (mkRq (Some (is_tok i)) Tcp) = (st', AUser "carol" role_readonly)
    /\ cfg_role ex_cfg "carol" = Some role_readonly.
Proof.
  eexists _, _, _, _, _. split; [reflexivity|]. split; [vm_compute; reflexivity|].
  split; [left; reflexivity|]. split; [apply own_ct_of_issued; left; reflexivity|].
  split; vm_compute; reflexivity.
Qed.

Example auth_identity_unix_nonvacuous :
  exists st0, start ex_cfg ex_key 0 = Some st0
    /\ snd (authenticate exP st0 (mkRq None (Unix "root"))) = AUser "root" role_admin
    /\ snd (authenticate exP st0 (mkRq (Some "secret") Tcp)) = AUser admin_actor role_admin.
Proof. eexists. split; [reflexivity|]. split; vm_compute; reflexivity. Qed.

Example login_iff_nonvacuous :
  exists st0, start ex_cfg ex_key 0 = Some st0
    /\ (exists st' tok, login exP st0 (Some ("alice", "pwA")) None = (st', LOk tok "alice" "admin"))
    /\ snd (login exP st0 (Some ("alice", "pwC")) None) = LInvalid       (* another user's password *)
    /\ snd (login exP st0 (Some ("Alice", "pwA")) None) = LInvalid       (* a name that is not configured *)
    /\ snd (login exP st0 (Some ("dave", "pwD")) None) = LForbidden.     (* the role does not permit login *)
Proof.
  eexists. split; [reflexivity|].
  split; [eexists _, _; vm_compute; reflexivity|]. splits; vm_compute; reflexivity.
Qed.

(** ** F20b (repaired by a6855108). "ｂob" (U+FF42 U+006F U+0062) and "bob" are two configured users; NFKC maps the
    first name to the second. The entry of "ｂob" is what `krillc config user --id ｂob` prints: that command
    normalises the id before it enters the weak salt (cli/options/config.rs:64,78-79), so the stored hash of
    "ｂob" is made with "bob". *)
Definition f20b_cfg : config :=
  mkCfg ConfigFile "secret"
        [("bob", mkUser 1 true "admin"); ("ｂob", mkUser 2 true "readonly")]
        ex_roles [].
Definition f20b_P : prims := toy [("ｂob", "bob")] [(1%N, ("bob", "pwA")); (2%N, ("bob", "pwB"))].

(** The pinned tree: the read-only user's own password made him "bob", an administrator ... *)
Lemma f20b_pinned_witness :
  exists st0 st' tok, start f20b_cfg ex_key 0 = Some st0
    /\ login_with pinned f20b_P st0 (Some ("ｂob", "pwB")) None = (st', LOk tok "bob" "admin")
    /\ snd (authenticate_with pinned f20b_P st' (mkRq (Some tok) Tcp)) = AUser "bob" role_admin
    /\ cfg_role f20b_cfg "ｂob" = Some role_readonly.
Proof. eexists _, _, _. split; [reflexivity|]. split; [vm_compute; reflexivity|]. split; vm_compute; reflexivity. Qed.

(** ... the repaired tree: he is himself. *)
Example f20b_repaired :
  exists st0 st' tok, start f20b_cfg ex_key 0 = Some st0
    /\ login f20b_P st0 (Some ("ｂob", "pwB")) None = (st', LOk tok "ｂob" "readonly")
    /\ snd (authenticate f20b_P st' (mkRq (Some tok) Tcp)) = AUser "ｂob" role_readonly
    /\ snd (login f20b_P st0 (Some ("ｂob", "pwA")) None) = LInvalid
    /\ snd (login f20b_P st0 (Some ("bob", "pwB")) None) = LInvalid.
Proof.
  eexists _, _, _. split; [reflexivity|]. split; [vm_compute; reflexivity|]. splits; vm_compute; reflexivity.
Qed.

Theorem login_identity_pinned_refuted : ~ login_identity_on (login_with pinned).
Proof.
  intros F. destruct f20b_pinned_witness as (st0 & st' & tok & S & L & _).
  assert (Ea : cf_auth (i_cfg st0) = ConfigFile) by (inv S; reflexivity).
  destruct (F f20b_P st0 _ _ _ _ _ _ _ (toy_crypto_ok _ _) Ea L) as (d & _ & E & _). discriminate.
Qed.

(** The other direction on the pinned tree: a configured user with the right password who could never log in. *)
Definition f20b_lone_cfg : config :=
  mkCfg ConfigFile "secret" [("ｂob", mkUser 2 true "readonly")] ex_roles [].

Theorem login_complete_pinned_refuted : ~ login_complete_on (login_with pinned).
Proof.
  intros F.
  destruct (start f20b_lone_cfg ex_key 0) as [st0|] eqn:S; [|discriminate].
  assert (Ea : cf_auth (i_cfg st0) = ConfigFile) by (inv S; reflexivity).
  destruct (F f20b_P st0 "ｂob" "pwB" None (mkUser 2 true "readonly") role_readonly (toy_crypto_ok _ _) Ea)
    as (st' & tok & L); try (inv S; reflexivity).
  inv S. vm_compute in L. discriminate.
Qed.

(** What is left (see [login_needs_salt_name]): "x " is configured, its hash was made by the command line tool -
    with "x " in the weak salt - for the password "pw"; the daemon trims the name before it enters the weak salt. *)
Example login_blank_name_witness :
  let P := toy [("x ", "x")] [(1%N, ("x ", "pw"))] in
  let cfg := mkCfg ConfigFile "secret" [("x ", mkUser 1 true "readonly")] ex_roles [] in
  exists st0, start cfg ex_key 0 = Some st0
    /\ made_from P 1 "x " (p_norm P "pw")
    /\ p_norm P "x " <> "x "
    /\ snd (login P st0 (Some ("x ", "pw")) None) = LInvalid
    /\ snd (login P st0 (Some ("x", "pw")) None) = LInvalid.
Proof.
  cbv zeta. eexists. split; [reflexivity|]. split; [apply toy_made_from; reflexivity|].
  split; [discriminate|]. split; vm_compute; reflexivity.
Qed.

(** ** F20c (repaired by a7a0b51d): alice has been removed from the configuration; carol is all that is left. *)
Definition ex_cfg_after : config :=
  mkCfg ConfigFile "secret" [("carol", mkUser 2 true "readonly")] ex_roles [("root", "admin")].
Definition f20c_ops : list op := [ex_login "alice" "pwA"; ORestart ex_cfg_after 1].

Lemma f20c_pinned_witness :
  exists st0 st log i, start ex_cfg ex_key 0 = Some st0 /\ run_with pinned exP st0 f20c_ops = Some (st, log)
    /\ In i log /\ i_cfg st = ex_cfg_after
    /\ authenticate_with pinned exP st (mkRq (Some (is_tok i)) Tcp)
       = (fst (authenticate_with pinned exP st (mkRq (Some (is_tok i)) Tcp)), AUser "alice" role_admin)
    /\ cfg_role ex_cfg_after "alice" = None.
Proof.
  eexists _, _, _, _. split; [reflexivity|]. split; [vm_compute; reflexivity|].
  split; [left; reflexivity|]. split; [reflexivity|]. split; vm_compute; reflexivity.
Qed.

Theorem auth_identity_pinned_refuted : ~ auth_identity_on pinned.
Proof.
  intros F. destruct f20c_pinned_witness as (st0 & st & log & i & S & R & Hin & Ec & A & Er).
  assert (OWN : forall b, rq_bearer (mkRq (Some (is_tok i)) Tcp) = Some b -> own_ct exP ex_key log b).
  { intros b Eb. simpl in Eb. inv Eb. apply own_ct_of_issued; auto. }
  destruct (F exP ex_cfg ex_key 0 st0 f20c_ops st log _ _ _ _ (toy_crypto_ok _ _) S R OWN A)
    as [(Eb & Eu & _)|[(b & j & _ & _ & _ & _ & _ & Ecr)|(rn & Et & _)]].
  - discriminate.
  - rewrite Ec, Er in Ecr. discriminate.
  - discriminate.
Qed.

(** The repaired tree on the same run: the token of the removed user is worth nothing, carol's works. *)
Example f20c_repaired :
  exists st0 st log i, start ex_cfg ex_key 0 = Some st0
    /\ run exP st0 [ex_login "alice" "pwA"; ex_login "carol" "pwC"; ORestart ex_cfg_after 1] = Some (st, log)
    /\ nth_error log 0 = Some i
    /\ snd (authenticate exP st (mkRq (Some (is_tok i)) Tcp)) = AAnon
    /\ exists j, nth_error log 1 = Some j
       /\ snd (authenticate exP st (mkRq (Some (is_tok j)) Tcp)) = AUser "carol" role_readonly.
Proof.
  eexists _, _, _, _. split; [reflexivity|]. split; [vm_compute; reflexivity|]. split; [reflexivity|].
  split; [vm_compute; reflexivity|]. eexists. split; [reflexivity|]. vm_compute; reflexivity.
Qed.

(** ** F20d (repaired by e31fb922): on the pinned tree the sender id of a restarted daemon was the stored one and
    the counter started at 0 again - whatever sender id the new process would have drawn. *)
Theorem nonce_reuse_pinned :
  exists P cfg key sender st0 ops st log i j,
    crypto_ok P /\ start cfg key sender = Some st0 /\ run_with pinned P st0 ops = Some (st, log)
    /\ NoDup (sender :: op_senders ops)
    /\ In i log /\ In j log /\ is_nonce i = is_nonce j /\ is_sess i <> is_sess j.
Proof.
  exists exP, ex_cfg, ex_key, 0.
  eexists _, [ex_login "alice" "pwA"; ORestart ex_cfg 1; ex_login "carol" "pwC"], _, _, _, _.
  split; [apply toy_crypto_ok|]. split; [reflexivity|]. split; [vm_compute; reflexivity|].
  split; [simpl; repeat constructor; simpl; intuition discriminate|].
  split; [left; reflexivity|]. split; [right; left; reflexivity|]. split; [reflexivity|discriminate].
Qed.

Theorem nonces_fresh_pinned_refuted : ~ nonces_fresh_on pinned.
Proof.
  intros F. destruct nonce_reuse_pinned as (P & cfg & key & sender & st0 & ops & st & log & i & j & CO & S & R & ND & Hi & Hj & En & Es).
  pose proof (F P cfg key sender st0 ops st log CO S R ND) as N.
  assert (Hne : i <> j) by (intros ->; apply Es; reflexivity).
  clear - N Hi Hj En Hne.
  induction log as [|x log IH]; [destruct Hi|]. simpl in N. inv N.
  destruct Hi as [->|Hi], Hj as [->|Hj].
  - contradiction.
  - apply H1. rewrite En. apply in_map. auto.
  - apply H1. rewrite <- En. apply in_map. auto.
  - apply IH; auto.
Qed.

Example nonces_fresh_nonvacuous :
  exists st0 st log, start ex_cfg ex_key 0 = Some st0
    /\ run exP st0 [ex_login "alice" "pwA"; ORestart ex_cfg 1; ex_login "carol" "pwC"] = Some (st, log)
    /\ map is_nonce log = [(0, 0); (1, 0)]%N.
Proof. eexists _, _, _. split; [reflexivity|]. split; vm_compute; reflexivity. Qed.

(** ** Examples for the remaining theorems *)
Example bad_credential_nonvacuous :
  exists st0 st log, start ex_cfg ex_key 0 = Some st0 /\ run exP st0 [ex_login "alice" "pwA"] = Some (st, log)
    /\ own_ct exP ex_key log "garbage" /\ ~ genuine exP (i_cfg st) log "garbage"
    /\ snd (authenticate exP st (mkRq (Some "garbage") Tcp)) = AAnon
    /\ snd (authenticate exP st (mkRq (Some "garbage") (Unix "root"))) = AUser "root" role_admin
    /\ snd (authenticate exP st (mkRq (Some "garbage") (Unix "mallory"))) = AErr EInvalid
    /\ (exists r, find_route spec_routes (mkReq MGET ["api"; "v1"; "cas"]) = Some r /\ rt_gates r <> []).
Proof.
  eexists _, _, _. split; [reflexivity|]. split; [vm_compute; reflexivity|].
  split; [apply toy_own_ct_garbage; reflexivity|]. split.
  - intros [E|(i & [<-|[]] & c & E1 & E2)]; [discriminate|]. vm_compute in E1, E2. congruence.
  - splits; try (vm_compute; reflexivity). eexists. split; [vm_compute; reflexivity|discriminate].
Qed.

Example other_instance_nonvacuous :
  exists stA0 stB0 stB logB i, start ex_cfg 7 0 = Some stA0 /\ start ex_cfg 8 0 = Some stB0
    /\ run exP stB0 [ex_login "alice" "pwA"] = Some (stB, logB) /\ In i logB
    /\ is_tok i <> cf_admin_token (i_cfg stA0)
    /\ snd (authenticate exP stB (mkRq (Some (is_tok i)) Tcp)) = AUser "alice" role_admin
    /\ snd (authenticate exP stA0 (mkRq (Some (is_tok i)) Tcp)) = AAnon.
Proof.
  eexists _, _, _, _, _. split; [reflexivity|]. split; [reflexivity|]. split; [vm_compute; reflexivity|].
  split; [left; reflexivity|]. split; [discriminate|]. split; vm_compute; reflexivity.
Qed.

(** Logged out, swept from the cache, daemon restarted: the token still works. *)
Example token_valid_forever_nonvacuous :
  exists st0 st1 log1 i, start ex_cfg ex_key 0 = Some st0
    /\ run exP st0 [ex_login "carol" "pwC"] = Some (st1, log1) /\ In i log1
    /\ exists st2 log2,
         run exP st0 [ex_login "carol" "pwC"; OLogout (Some (is_tok i)); OEvict (is_tok i); ORestart ex_cfg 1]
           = Some (st2, log2)
         /\ i_cache st2 = []
         /\ snd (authenticate exP st2 (mkRq (Some (is_tok i)) Tcp)) = AUser "carol" role_readonly.
Proof.
  eexists _, _, _, _. split; [reflexivity|]. split; [vm_compute; reflexivity|]. split; [left; reflexivity|].
  eexists _, _. split; [vm_compute; reflexivity|]. split; vm_compute; reflexivity.
Qed.
