(** Correspondence checker and executable oracle for C20. The harness (harness/src/bin/c20.rs) talks HTTP to real
    daemons and writes one [case] per probe. [agrees] runs the model of AuthChain.v (with the symbolic primitives
    of AuthToy.v) on the same probe and compares; [c20_ok] evaluates the property text itself on what the
    implementation did, without going through the model's provider chain.

    How credentials reach the model. The model never sees real ciphertexts. A credential is described by how
    the harness obtained it:
    - [CToken d name pw]: the token the real daemon [d] answered to a successful login as [name]/[pw]; the model
      logs in at its own copy of [d] and uses the token that login returns;
    - [CBad k]: a bearer derived by damage, re-encoding or invention ([k] says how; for the records). By
      [bad_credential_no_gain] (AuthProofs.v) every bearer that is not genuine is treated alike, so the model
      uses one fixed text that is neither the admin token nor decodable.
    Extra blanks around a bearer are not a different credential: [get_bearer_token] trims (httpclient.rs:88), so
    the harness describes such a request by the credential it carries. *)
From Coq Require Import String Ascii.
From KV Require Import base.Tac auth.Perm auth.Routes authn.AuthChain authn.AuthToy.
Open Scope N_scope.

(** One daemon as the harness configured it. *)
Record daemon := mkDaemon {
  d_cfg : config;                              (* configuration of its first start *)
  d_testbed : bool;
  d_norms : list (string * string);            (* normal forms (trim + NFKC) of the names and passwords used that are not normal *)
  d_creds : list (N * (string * string));      (* stored (hash, salt) id -> (name in the weak salt, normalised password) it was made from *)
  d_key : N;                                   (* which storage / session key: equal numbers = same key *)
  d_prior : list op;                           (* what happened to it before the probes: restarts with an edited configuration
                                                  (each with a sender id of its own: the model's stand-in for the random draw) *)
  d_shapes : list (N * hshape)                 (* entries whose configured password_hash is NOT the hash made from d_creds but
                                                  nothing / a cut-short copy / an extended copy / an upper-case copy of it *)
}.

Inductive badkind :=
  | BTrunc          (* a valid token cut short *)
  | BFlip           (* one bit of the base64 text of a valid token flipped *)
  | BReenc          (* a valid token re-encoded: padding removed or added, URL-safe alphabet, blanks inside, stray trailing bits *)
  | BExtended       (* a valid token with something appended *)
  | BGarbage        (* an invented string *)
  | BAdminVariant   (* prefix, extension or other letter case of the admin token *)
  | BEmpty          (* "Bearer " followed by nothing *)
  | BForged.        (* computed by the harness from two tokens that share key and nonce (Poly1305 key recovery):
                       possible only when a restarted daemon repeats a nonce (finding F20d, repaired by e31fb922) *)

Inductive cred :=
  | CNone                                        (* no Authorization header, or one the daemon does not read as a bearer *)
  | CAdmin                                       (* the admin token of the probed daemon, verbatim *)
  | CToken (d : daemon) (name pw : string)       (* answered by [d] to the login name/pw *)
  | CLoggedOut (d : daemon) (name pw : string)   (* the same, after POST /auth/logout with it at the probed daemon *)
  | CBad (k : badkind).

Inductive probe :=
  | PReq (c : cred) (q : request)                            (* any route except /auth/login, /auth/logout *)
  | PLogin (basic : option (string * string)) (c : cred)     (* POST /auth/login *)
  | PNonceRepeat (repeated : bool).                          (* the first token issued by this (restarted) daemon carries the
                                                                same 12 nonce bytes as the first token of its first life *)

Record case := mkCase {
  c_d : daemon;
  c_tr : transport;
  c_probe : probe;
  c_status : N;                          (* HTTP status; 0: the connection was closed without an answer *)
  c_actor : option string;               (* Some a: the request added a command to the CA's history, with actor a *)
  c_login : option (string * string)     (* id and role in a 200 answer of login *)
}.

(** ** The model's copy of a daemon *)
Definition prims_of (d : daemon) : prims := toy_sh (d_norms d) (d_creds d) (d_shapes d).

Definition boot (d : daemon) : option inst :=
  match start (d_cfg d) (d_key d) 0 with
  | Some st => option_map fst (run (prims_of d) st (d_prior d))
  | None => None
  end.

(** The nonce the next login will use (crypt.rs:70-82). *)
Definition next_nonce (st : inst) : N * N := (i_sender st, i_ctr st).

Definition token_at (d : daemon) (name pw : string) : option string :=
  match boot d with
  | Some st => match login (prims_of d) st (Some (name, pw)) None with
               | (_, LOk tok _ _) => Some tok
               | _ => None
               end
  | None => None
  end.

Definition junk : string := "x-not-genuine".

(** [None]: the case does not make sense to the model (the login that produced the token fails there). *)
Definition bearer_of (probed : daemon) (c : cred) : option (option string) :=
  match c with
  | CNone => Some None
  | CAdmin => Some (Some (cf_admin_token (d_cfg probed)))
  | CToken d n p | CLoggedOut d n p => option_map Some (token_at d n p)
  | CBad _ => Some (Some junk)
  end.

Definition refused (st : N) : bool := (st =? 401) || (st =? 403).

Definition opt_pair_eqb (a b : option (string * string)) : bool :=
  match a, b with
  | Some (x, y), Some (x', y') => String.eqb x x' && String.eqb y y'
  | None, None => true
  | _, _ => false
  end.

(** Model and implementation agree on this probe. *)
Definition agrees (c : case) : bool :=
  let d := c_d c in
  let P := prims_of d in
  match boot d with
  | None => false
  | Some st0 =>
      match c_probe c with
      | PReq cr q =>
          match bearer_of d cr, find_route spec_routes q with
          | Some b, Some r =>
              let st := match cr, b with
                        | CLoggedOut _ _ _, Some t => logout P (pre P st0 b) b
                        | _, _ => st0
                        end in
              let a := snd (authenticate P st (mkRq b (c_tr c))) in
              let sc := c_status c in
              match rt_kind r with
              | KRaw => false                     (* login / logout are probed as PLogin *)
              | _ =>
                  match authorize spec_routes (d_testbed d) (to_auth a) q with
                  | Served => negb (refused sc) && negb (sc =? 405)
                  | Forbidden => sc =? 403
                  | Unauthenticated => sc =? 401
                  | NotFound => sc =? 404
                  end
              end
              && match c_actor c with
                 | Some x => String.eqb x (actor_name a)
                 | None => true
                 end
          | _, _ => false
          end
      | PLogin basic cr =>
          match bearer_of d cr with
          | Some b =>
              let sc := c_status c in
              match snd (login P (pre P st0 b) basic b) with
              | LOk _ id rn => (sc =? 200) && opt_pair_eqb (c_login c) (Some (id, rn))
              | LInvalid | LPermanent => sc =? 401
              | LForbidden => sc =? 403
              | LPanic => sc =? 0
              end
          | None => false
          end
      | PNonceRepeat repeated =>
          match start (d_cfg d) (d_key d) 0 with
          | Some first =>
              Bool.eqb repeated ((fst (next_nonce first) =? fst (next_nonce st0)) && (snd (next_nonce first) =? snd (next_nonce st0)))
          | None => false
          end
      end
  end.

(** ** The property on one observed probe (from the text of C20, not from the model's chain) *)

Definition cfg_now (d : daemon) : config :=
  match boot d with Some st => i_cfg st | None => d_cfg d end.

(** The hash of the submitted password EQUALS the configured text: the password is the one a hash was made from
    and the configured text is that hash - not nothing, not a part of it, not more than it, not another spelling
    of it (decided from how the harness wrote the entry, not by the model's comparison). *)
Definition configured_is_the_hash (d : daemon) (ud : udetails) : bool :=
  match nlookup (u_cred ud) (d_shapes d) with None | Some HFull => true | Some _ => false end.
Definition pw_matches (d : daemon) (ud : udetails) (pw : string) : bool :=
  match nlookup (u_cred ud) (d_creds d) with
  | Some (_, pw0) => String.eqb (toy_norm (d_norms d) pw) pw0 && configured_is_the_hash d ud
  | None => false
  end.

(** Whom a credential stands for at the probed daemon: the admin; or the configured user for whose name and
    password a login of the same storage issued the token - with the role the configuration now gives that
    user; or nobody. *)
Definition cred_identity (probed : daemon) (c : cred) : list (string * role) :=
  match c with
  | CNone | CBad _ => []
  | CAdmin => [(admin_actor, role_admin)]
  | CToken d name pw | CLoggedOut d name pw =>
      if negb (d_key d =? d_key probed) then []
      else
        match cf_auth (cfg_now d), alookup name (cf_users (cfg_now d)) with
        | ConfigFile, Some ud =>
            if pw_matches d ud pw then
              match cfg_role (cfg_now probed) name with
              | Some r => [(name, r)]
              | None => []
              end
            else []
        | _, _ => []
        end
  end.

(** The system user at the other end of the socket, if the configuration maps it. *)
Definition peer_identity (probed : daemon) (t : transport) : list (string * role) :=
  match t with
  | Tcp => []
  | Unix p =>
      match alookup p (cf_unix (cfg_now probed)) with
      | Some rn => match alookup rn (cf_roles (cfg_now probed)) with Some r => [(p, r)] | None => [] end
      | None => []
      end
  end.

Definition c20_ok (c : case) : bool :=
  let d := c_d c in
  let sc := c_status c in
  match c_probe c with
  | PReq cr q =>
      let who := cred_identity d cr ++ peer_identity d (c_tr c) in
      (match find_route spec_routes q with
       | Some r =>
           if rt_testbed r && negb (d_testbed d) then true
           else match rt_kind r with
                | KRaw => true
                | _ => refused sc
                       || match rt_gates r with [] => true | _ => false end
                       || existsb (fun '(_, ro) => forallb (gate_ok (AuthRole ro) q) (rt_gates r)) who
                end
       | None => refused sc || (sc =? 404) || (sc =? 405)
                 || existsb (fun '(_, ro) => is_allowed ro Login None) who
       end)
      && match c_actor c with
         | Some a => existsb (fun '(n, _) => String.eqb a ("user:" ++ n)) who
         | None => true
         end
  | PLogin basic cr =>
      match cf_auth (cfg_now d) with
      | ConfigFile =>
          let expected :=
            match basic with
            | Some (name, pw) =>
                match alookup name (cf_users (cfg_now d)) with
                | Some ud =>
                    if pw_matches d ud pw then
                      match cfg_role (cfg_now d) name with
                      | Some r => if is_allowed r Login None then Some (name, u_role ud) else None
                      | None => None
                      end
                    else None
                | None => None
                end
            | None => None
            end in
          match expected with
          | Some idr => (sc =? 200) && opt_pair_eqb (c_login c) (Some idr)
          | None => negb (sc =? 200)
          end
      | AdminTokenOnly =>
          match cr with
          | CAdmin => (sc =? 200) && opt_pair_eqb (c_login c) (Some (admin_actor, "admin"%string))
          | _ => negb (sc =? 200)
          end
      end
  | PNonceRepeat repeated => negb repeated     (* no (key, nonce) pair is used twice *)
  end.

(** Indices of cases on which a predicate fails. *)
Fixpoint failing_from {A} (f : A -> bool) (i : N) (l : list A) : list N :=
  match l with
  | [] => []
  | x :: r => if f x then failing_from f (i + 1) r else i :: failing_from f (i + 1) r
  end.
Definition failing {A} (f : A -> bool) (base : N) (l : list A) : list N := failing_from f base l.

(** Short names for the case files. *)
Definition rq (m : meth) (p : list string) : request := mkReq m p.
