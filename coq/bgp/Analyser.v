(** Model of the BGP/ROA analyser of krill, function by function, as the code is
    (definitions only; proofs in [AnalyserProofs.v]).

    Source: src/server/bgp/analyser.rs ([analyse] 133-230, [suggest] 237-326,
    [split_roas] 355-367, [categorise_roa] 374-476, [Roa] 488-524,
    [validate_set] 547-572, [validate] 577-618, [into_analysis_entry] 628-659),
    src/api/bgp.rs (entry constructors 680-919, states 995-1010),
    src/api/roa.rs ([RoaPayload] 46-139), and the *specification level* of the
    announcement store [RouteOriginCollection::eq_or_more_specific]
    (src/server/bgp/riswhois.rs:254-260, 841-921; the tree itself is [Trie.v]).

    What is not observable and therefore not modelled: the order of report
    entries and of the lists inside an entry ([BgpAnalysisReport::new] and every
    entry constructor sort them; the correspondence compares them as multisets). *)
From KV Require Import base.Tac bgp.Prefix.
Open Scope N_scope.

(** ** Data (src/api/roa.rs, src/api/bgp.rs) *)

(** [RoaPayload] (roa.rs:46-60); equality is the derived [PartialEq]: all three fields,
    so [max_length = None] differs from [Some (prefix length)]. *)
Record payload := mkPl { pl_asn : N; pl_pfx : prefix; pl_max : option N }.

(** [ConfiguredRoa] (roa.rs:461-469): payload plus comment and ROA objects, which the
    analyser only copies and compares for equality; they are abstracted to a tag. *)
Record croa := mkRoa { r_pl : payload; r_tag : N }.

(** [Announcement] (bgp.rs:1026-1033) / [RouteOrigin] (riswhois.rs:740-747). *)
Record ann := mkAnn { a_asn : N; a_pfx : prefix }.

Definition optN_eqb (a b : option N) : bool :=
  match a, b with None, None => true | Some x, Some y => x =? y | _, _ => false end.
Definition payload_eqb (a b : payload) : bool :=
  (pl_asn a =? pl_asn b) && prefix_eqb (pl_pfx a) (pl_pfx b) && optN_eqb (pl_max a) (pl_max b).
Definition croa_eqb (a b : croa) : bool := payload_eqb (r_pl a) (r_pl b) && (r_tag a =? r_tag b).
Definition ann_eqb (a b : ann) : bool := (a_asn a =? a_asn b) && prefix_eqb (a_pfx a) (a_pfx b).

(** [RoaPayload::effective_max_length] (roa.rs:85-90), [Roa::effective_max_len] (analyser.rs:521-523). *)
Definition eff_max (pl : payload) : N :=
  match pl_max pl with Some m => m | None => p_len (pl_pfx pl) end.

Definition r_pfx (r : croa) : prefix := pl_pfx (r_pl r).
Definition r_asn (r : croa) : N := pl_asn (r_pl r).
Definition r_max (r : croa) : N := eff_max (r_pl r).

(** [RoaPayload::nr_of_specific_prefixes] (roa.rs:96-106): [1u128 << (max_len - pfx_len)] on [u8]
    operands. With overflow checks (dev and test profiles, which is what the harness links) the
    subtraction panics when [max_len < pfx_len] and the shift panics when the amount is [>= 128]:
    [None]. Without them (release profile: [overflow-checks] off) both wrap: [chk = false]. *)
Definition nr_of_specific_prefixes (chk : bool) (pl : payload) : option N :=
  let l := p_len (pl_pfx pl) in
  let m := eff_max pl in
  if chk then
    if m <? l then None
    else if 128 <=? m - l then None
    else Some (2 ^ (m - l))
  else
    let d := if m <? l then (m + 256 - l) mod 256 else m - l in
    Some (2 ^ (d mod 128)).

(** [RouteOriginValidity] (analyser.rs:667-684) and [ValidatedRouteOrigin] (531-540). *)
Inductive validity :=
| VValid (by_roa : payload) | VInvalidLength | VInvalidAsn | VDisallowed | VNotFound.

Record vro := mkV { v_ann : ann; v_val : validity; v_dis : list payload }.

(** ** Validation *)

(** [ValidatedRouteOrigin::validate] (analyser.rs:577-618): the loop with its three
    accumulators and the early return. [inv] is accumulated in reverse. *)
Fixpoint validate_loop (o : ann) (covering : list croa) (inv : list payload) (same nonas0 : bool) : vro :=
  match covering with
  | [] => mkV o (if same then VInvalidLength else if nonas0 then VInvalidAsn else VDisallowed) (rev inv)
  | r :: rest =>
      let same_asn := r_asn r =? a_asn o in
      if same_asn && covers (r_pfx r) (a_pfx o) && (p_len (a_pfx o) <=? r_max r)
      then mkV o (VValid (r_pl r)) []
      else validate_loop o rest (r_pl r :: inv) (same || same_asn) (nonas0 || negb (r_asn r =? 0))
  end.

Definition validate (o : ann) (covering : list croa) : vro := validate_loop o covering [] false false.

(** [validate_set] (analyser.rs:547-572): one set of route origins with the same prefix;
    the covering ROAs are computed once from the prefix of the first element. *)
Definition validate_set (set : list ann) (roas : list croa) : list vro :=
  match set with
  | [] => []
  | a0 :: _ =>
      match filter (fun r => covers (r_pfx r) (a_pfx a0)) roas with
      | [] => map (fun a => mkV a VNotFound []) set
      | covering => map (fun a => validate a covering) set
      end
  end.

(** ** The announcement store, specification level

    [RouteOriginCollection::new] sorts the data by (prefix, origin) (riswhois.rs:315-318, derived [Ord] of
    [RouteOrigin]); [eq_or_more_specific p] yields, in prefix order, one non-empty set per distinct
    prefix covered by [p] (riswhois.rs:254-260, 864-921, [origin_set] 817-821). Duplicates are kept. *)
Definition ann_leb (a b : ann) : bool :=
  prefix_ltb (a_pfx a) (a_pfx b)
  || ((p_addr (a_pfx a) =? p_addr (a_pfx b)) && (p_len (a_pfx a) =? p_len (a_pfx b)) && (a_asn a <=? a_asn b)).

Fixpoint ann_insert (a : ann) (l : list ann) : list ann :=
  match l with [] => [a] | x :: r => if ann_leb a x then a :: l else x :: ann_insert a r end.
Definition ann_sort (l : list ann) : list ann := fold_right ann_insert [] l.

(** Adjacent elements with equal prefix form one set. *)
Fixpoint group (l : list ann) : list (list ann) :=
  match l with
  | [] => []
  | a :: r =>
      match group r with
      | (b :: g) :: gs => if prefix_eqb (a_pfx a) (a_pfx b) then (a :: b :: g) :: gs else [a] :: (b :: g) :: gs
      | other => [a] :: other
      end
  end.

Definition eq_or_more_specific (store : list ann) (p : prefix) : list (list ann) :=
  group (ann_sort (filter (fun a => covers p (a_pfx a)) store)).

(** ** Report entries (src/api/bgp.rs:606-627, 995-1010) *)
Inductive state :=
| RoaSeen | RoaRedundant | RoaUnseen | RoaDisallowing | RoaTooPermissive | RoaAs0 | RoaAs0Redundant | RoaNotHeld
| AnnValid | AnnInvalidLength | AnnInvalidAsn | AnnDisallowed | AnnNotFound | RoaNoInfo.

Inductive subject := SRoa (r : croa) | SAnn (a : ann).

Record entry := mkEntry {
  e_subj : subject; e_state : state;
  e_allowed_by : option payload; e_disallowed_by : list payload; e_redundant_by : list payload;
  e_authorizes : list ann; e_disallows : list ann }.

(** Entry constructors (bgp.rs:680-919); note which lists each constructor keeps. *)
Definition roa_seen r au di := mkEntry (SRoa r) RoaSeen None [] [] au di.
Definition roa_disallowing r di := mkEntry (SRoa r) RoaDisallowing None [] [] [] di.
Definition roa_as0 r di := mkEntry (SRoa r) RoaAs0 None [] [] [] di.
Definition roa_as0_redundant r by_ := mkEntry (SRoa r) RoaAs0Redundant None [] by_ [] [].
Definition roa_redundant r au di by_ := mkEntry (SRoa r) RoaRedundant None [] by_ au di.
Definition roa_too_permissive r au di := mkEntry (SRoa r) RoaTooPermissive None [] [] au di.
Definition roa_unseen r := mkEntry (SRoa r) RoaUnseen None [] [] [] [].
Definition roa_not_held r := mkEntry (SRoa r) RoaNotHeld None [] [] [] [].
Definition roa_no_info r := mkEntry (SRoa r) RoaNoInfo None [] [] [] [].

(** [into_analysis_entry] (analyser.rs:628-659). *)
Definition ann_entry (v : vro) : entry :=
  match v_val v with
  | VValid pl => mkEntry (SAnn (v_ann v)) AnnValid (Some pl) [] [] [] []
  | VDisallowed => mkEntry (SAnn (v_ann v)) AnnDisallowed None (v_dis v) [] [] []
  | VInvalidLength => mkEntry (SAnn (v_ann v)) AnnInvalidLength None (v_dis v) [] [] []
  | VInvalidAsn => mkEntry (SAnn (v_ann v)) AnnInvalidAsn None (v_dis v) [] [] []
  | VNotFound => mkEntry (SAnn (v_ann v)) AnnNotFound None [] [] [] []
  end.

(** ** Categorisation of one ROA ([categorise_roa], analyser.rs:374-476) *)
Definition is_valid (v : validity) : bool := match v with VValid _ => true | _ => false end.
Definition is_invalid_len_or_asn (v : validity) : bool :=
  match v with VInvalidLength | VInvalidAsn => true | _ => false end.

Definition lenN {A} (l : list A) : N := N.of_nat (length l).

(** 380-382: all validated origins covered by the ROA prefix. *)
Definition cat_covered (r : croa) (validated : list vro) : list vro :=
  filter (fun v => covers (r_pfx r) (a_pfx (v_ann v))) validated.
(** 386-388: other ROAs (different payload) that cover this ROA's prefix. *)
Definition cat_others_covering (r : croa) (all_roas : list croa) : list payload :=
  map r_pl (filter (fun o => covers (r_pfx o) (r_pfx r) && negb (payload_eqb (r_pl r) (r_pl o))) all_roas).
(** 392-397: those of them that include this ROA's definition. *)
Definition cat_others_including (r : croa) (all_roas : list croa) : list payload :=
  filter (fun o => (pl_asn o =? r_asn r) && (p_len (pl_pfx o) <=? p_len (r_pfx r)) && (r_max r <=? eff_max o))
         (cat_others_covering r all_roas).
(** 403-408: route origins made valid by this ROA. *)
Definition cat_authorizes (r : croa) (validated : list vro) : list ann :=
  map v_ann (filter (fun v => is_valid (v_val v) && (p_len (a_pfx (v_ann v)) <=? r_max r)
                              && (a_asn (v_ann v) =? r_asn r)) (cat_covered r validated)).
(** 411-417: route origins made invalid by this ROA. *)
Definition cat_disallows (r : croa) (validated : list vro) : list ann :=
  map v_ann (filter (fun v => is_invalid_len_or_asn (v_val v)) (cat_covered r validated)).
(** 422-433: [a > 0 && a < nr_of_specific_prefixes()], the right operand only evaluated when [a > 0];
    [None] = arithmetic overflow panic. *)
Definition cat_excess (chk : bool) (r : croa) (authorizes : list ann) : option bool :=
  let nr_origins := lenN (filter (fun a => p_len (a_pfx a) =? r_max r) authorizes) in
  if 0 <? nr_origins then
    match nr_of_specific_prefixes chk (r_pl r) with
    | Some n => Some (nr_origins <? n)
    | None => None
    end
  else Some false.

Definition categorise_roa (chk : bool) (r : croa) (validated : list vro) (all_roas : list croa) : option entry :=
  let covered := cat_covered r validated in
  let others_covering := cat_others_covering r all_roas in
  let others_including := cat_others_including r all_roas in
  let authorizes := cat_authorizes r validated in
  let disallows := cat_disallows r validated in
  match cat_excess chk r authorizes with
  | None => None
  | Some authorizes_excess =>
      (* 436-475 *)
      Some (
        if r_asn r =? 0 then
          match others_covering with
          | [] => roa_as0 r (map v_ann covered)
          | _ => roa_as0_redundant r others_covering
          end
        else match others_including with
        | _ :: _ => roa_redundant r authorizes disallows others_including
        | [] =>
            match authorizes, disallows with
            | [], [] => roa_unseen r
            | _, _ =>
                if authorizes_excess then roa_too_permissive r authorizes disallows
                else match authorizes with
                     | [] => roa_disallowing r disallows
                     | _ => roa_seen r authorizes disallows
                     end
            end
        end)
  end.

(** ** [analyse] (analyser.rs:133-234) *)

(** A [ResourceSet] restricted to what [analyse] reads of it:
    - [rs_r4]/[rs_r6]: the blocks of [ipv4()]/[ipv6()] as [(min, max)] in the 128-bit view of the rpki crate;
    - [rs_v4]/[rs_v6]: the result of [get_prefixes_from_scope] (analyser.rs:321-349; prefix blocks as they
      are, range blocks through [to_v4_prefixes]/[to_v6_prefixes] of the rpki crate). *)
Record resources := mkRes { rs_r4 : list (N * N); rs_r6 : list (N * N); rs_v4 : list prefix; rs_v6 : list prefix }.

(** [RoaPayload::is_held_by] (src/api/roa.rs:81-91, introduced by the fix 2496aeb4 of candidate finding F17c):
    the prefix is looked up among the blocks of its *own* address family only, with
    [IpBlocks::contains_roa] (rpki-0.19.2 ipres.rs:410-418), a range test on the 128-bit view.
    (Before the fix [ResourceSet::contains_roa_address] tested the IPv4 and the IPv6 blocks alike.) *)
Definition is_held_by (pl : payload) (rs : resources) : bool :=
  let lo := min128 (pl_pfx pl) in
  let hi := max128 (pl_pfx pl) in
  existsb (fun '(a, b) => (a <=? lo) && (hi <=? b))
          (match p_fam (pl_pfx pl) with V4 => rs_r4 rs | V6 => rs_r6 rs end).

Definition is_fam (f : fam) (r : croa) : bool := fam_eqb (p_fam (r_pfx r)) f.

Fixpoint map_opt {A B} (f : A -> option B) (l : list A) : option (list B) :=
  match l with
  | [] => Some []
  | x :: r => match f x, map_opt f r with Some y, Some ys => Some (y :: ys) | _, _ => None end
  end.

(** ROAs that pass the [limited_scope] test (analyser.rs:145-151). *)
Definition considered (roas : list croa) (limit : option resources) : list croa :=
  match limit with
  | Some l => filter (fun r => is_held_by (r_pl r) l) roas
  | None => roas
  end.
(** 153-158 *)
Definition roas_held (roas : list croa) (held : resources) (limit : option resources) : list croa :=
  filter (fun r => is_held_by (r_pl r) held) (considered roas limit).
Definition roas_not_held (roas : list croa) (held : resources) (limit : option resources) : list croa :=
  filter (fun r => negb (is_held_by (r_pl r) held)) (considered roas limit).

(** 177 *)
Definition scope_of (held : resources) (limit : option resources) : resources :=
  match limit with Some l => l | None => held end.

(** 191-206: all route origins under the scope prefixes, validated against the ROAs of the family. *)
Definition validated_in (store : list ann) (scope : list prefix) (fam_roas : list croa) : list vro :=
  flat_map (fun p => flat_map (fun set => validate_set set fam_roas) (eq_or_more_specific store p)) scope.

(** [seen = None]: no RISwhois data loaded. [Some store]: the loaded route origins; the v4 tree only
    contains v4 prefixes and the v6 tree v6 prefixes by typing, which [covers] reproduces. Result [None]: panic. *)
Definition analyse (chk : bool) (roas : list croa) (held : resources) (limit : option resources)
           (seen : option (list ann)) : option (list entry) :=
  let held_roas := roas_held roas held limit in
  let e0 := map roa_not_held (roas_not_held roas held limit) in
  match seen with
  | None => Some (e0 ++ map roa_no_info held_roas)
  | Some store =>
      let scope := scope_of held limit in
      let v4_roas := filter (is_fam V4) held_roas in
      let v6_roas := filter (is_fam V6) held_roas in
      let v4_validated := validated_in store (rs_v4 scope) v4_roas in
      let v6_validated := validated_in store (rs_v6 scope) v6_roas in
      match map_opt (fun r => categorise_roa chk r v4_validated v4_roas) v4_roas,
            map_opt (fun r => categorise_roa chk r v6_validated v6_roas) v6_roas with
      | Some c4, Some c6 => Some (e0 ++ c4 ++ c6 ++ map ann_entry v4_validated ++ map ann_entry v6_validated)
      | _, _ => None
      end
  end.

(** ** [suggest] (analyser.rs:241-315), [BgpAnalysisSuggestion] (bgp.rs:66-111) *)
Record suggestion := mkSug {
  s_stale : list croa; s_not_found : list ann; s_invalid_asn : list ann; s_invalid_length : list ann;
  s_too_permissive : list (croa * list payload); s_disallowing : list croa; s_redundant : list croa;
  s_not_held : list croa; s_as0_redundant : list croa; s_keep : list croa; s_keep_disallowing : list ann }.

Definition empty_suggestion : suggestion := mkSug [] [] [] [] [] [] [] [] [] [] [].

Definition optpl_eqb (a b : option payload) : bool :=
  match a, b with None, None => true | Some x, Some y => payload_eqb x y | _, _ => false end.
Fixpoint list_eqb {A} (eqb : A -> A -> bool) (a b : list A) : bool :=
  match a, b with
  | [], [] => true
  | x :: a', y :: b' => eqb x y && list_eqb eqb a' b'
  | _, _ => false
  end.
Definition subject_eqb (a b : subject) : bool :=
  match a, b with SRoa x, SRoa y => croa_eqb x y | SAnn x, SAnn y => ann_eqb x y | _, _ => false end.
Definition state_code (s : state) : N :=
  match s with
  | RoaSeen => 0 | RoaRedundant => 1 | RoaUnseen => 2 | RoaDisallowing => 3 | RoaTooPermissive => 4 | RoaAs0 => 5
  | RoaAs0Redundant => 6 | RoaNotHeld => 7 | AnnValid => 8 | AnnInvalidLength => 9 | AnnInvalidAsn => 10
  | AnnDisallowed => 11 | AnnNotFound => 12 | RoaNoInfo => 13
  end.
(** Derived [PartialEq] of [BgpAnalysisEntry] (bgp.rs:606). *)
Definition entry_eqb (a b : entry) : bool :=
  subject_eqb (e_subj a) (e_subj b) && (state_code (e_state a) =? state_code (e_state b))
  && optpl_eqb (e_allowed_by a) (e_allowed_by b)
  && list_eqb payload_eqb (e_disallowed_by a) (e_disallowed_by b)
  && list_eqb payload_eqb (e_redundant_by a) (e_redundant_by b)
  && list_eqb ann_eqb (e_authorizes a) (e_authorizes b)
  && list_eqb ann_eqb (e_disallows a) (e_disallows b).

(** [RoaPayload::from(Announcement)] (bgp.rs:1038-1042). *)
Definition payload_of_ann (a : ann) : payload := mkPl (a_asn a) (a_pfx a) None.

(** The loop 253-312 dispatches on the state of each entry and pushes the entry's ROA or announcement
    to one list of the suggestion, in report order: a partition of the entries by state.
    [configured_roa()] / [announcement()] panic when the entry is of the other kind (bgp.rs:634-654);
    [kind_consistent] is exactly the condition under which no iteration panics. *)
Definition roa_state (s : state) : bool :=
  match s with
  | AnnValid | AnnInvalidLength | AnnInvalidAsn | AnnDisallowed | AnnNotFound => false
  | _ => true
  end.
Definition kind_consistent (e : entry) : bool :=
  match e_subj e, e_state e with
  | SAnn _, AnnValid => true              (* 295: no accessor is called *)
  | SRoa _, AnnValid => true
  | SRoa _, s => roa_state s
  | SAnn _, s => negb (roa_state s)
  end.

Definition roas_in (p : state -> bool) (es : list entry) : list croa :=
  flat_map (fun e => if p (e_state e) then match e_subj e with SRoa r => [r] | SAnn _ => [] end else []) es.
Definition anns_in (p : state -> bool) (es : list entry) : list ann :=
  flat_map (fun e => if p (e_state e) then match e_subj e with SAnn a => [a] | SRoa _ => [] end else []) es.
Definition st_is (a b : state) : bool := state_code a =? state_code b.

(** ** Report order

    [suggest] visits the entries of the report in the order [BgpAnalysisReport::new] gives them (bgp.rs:238-241: a
    stable sort); since the repair of F17e the replacement lists depend on that order. [Ord for BgpAnalysisEntry]
    (bgp.rs:922-931): state (declaration order = [state_code]), then [as_payload] (954-972) compared by
    [Ord for RoaPayload] (roa.rs:192-208): prefix - [TypedPrefix::cmp] (772-780) compares the rpki [Addr], i.e. the
    128-bit view, then the length - then effective maximum length, then origin. *)
Definition subject_payload (s : subject) : payload :=
  match s with SRoa r => r_pl r | SAnn a => mkPl (a_asn a) (a_pfx a) None end.
Definition entry_key (e : entry) : list N :=
  let pl := subject_payload (e_subj e) in
  [state_code (e_state e); addr128 (pl_pfx pl); p_len (pl_pfx pl); eff_max pl; pl_asn pl].
Fixpoint key_leb (a b : list N) : bool :=
  match a, b with
  | [], _ => true
  | _ :: _, [] => false
  | x :: a', y :: b' => if x <? y then true else if y <? x then false else key_leb a' b'
  end.
Definition entry_leb (a b : entry) : bool := key_leb (entry_key a) (entry_key b).
(** Stable insertion sort ([fold_right] inserts the earlier element later, in front of its equals). *)
Fixpoint entry_insert (e : entry) (l : list entry) : list entry :=
  match l with [] => [e] | x :: r => if entry_leb e x then e :: l else x :: entry_insert e r end.
Definition report_sort (l : list entry) : list entry := fold_right entry_insert [] l.

(** ** Replacements for a too permissive ROA (analyser.rs:254-284, as repaired by 992adfab)

    Announcements this ROA authorises, except those that stay authorised without it: by another entry in state
    [RoaSeen] (a ROA that is kept), or by a replacement already suggested for an earlier too permissive ROA. *)
Definition kept_elsewhere (entries : list entry) (e : entry) (a : ann) : bool :=
  existsb (fun other => negb (entry_eqb other e) && st_is RoaSeen (e_state other)
                        && existsb (ann_eqb a) (e_authorizes other)) entries.
Definition already_suggested (acc : list (croa * list payload)) (pl : payload) : bool :=
  existsb (fun x => existsb (payload_eqb pl) (snd x)) acc.
Definition replace_with (entries : list entry) (acc : list (croa * list payload)) (e : entry) : list payload :=
  filter (fun pl => negb (already_suggested acc pl))
         (map payload_of_ann (filter (fun a => negb (kept_elsewhere entries e a)) (e_authorizes e))).

(** The [too_permissive] list as the loop builds it ([acc] = what has been pushed so far). *)
Fixpoint too_permissive_loop (entries todo : list entry) (acc : list (croa * list payload)) : list (croa * list payload) :=
  match todo with
  | [] => acc
  | e :: rest =>
      if st_is RoaTooPermissive (e_state e)
      then match e_subj e with
           | SRoa r => too_permissive_loop entries rest (acc ++ [(r, replace_with entries acc e)])
           | SAnn _ => too_permissive_loop entries rest acc
           end
      else too_permissive_loop entries rest acc
  end.

(** The code before 992adfab (pinned as a regression witness for F17e): every announcement that *any* other entry
    authorises was left out, also when that entry's ROA is itself suggested for removal. *)
Definition replace_with_pinned (entries : list entry) (e : entry) : list payload :=
  map payload_of_ann
      (filter (fun a => negb (existsb (fun other => negb (entry_eqb other e)
                                                    && existsb (ann_eqb a) (e_authorizes other)) entries))
              (e_authorizes e)).
Definition too_permissive_pinned (entries : list entry) : list (croa * list payload) :=
  flat_map (fun e => if st_is RoaTooPermissive (e_state e)
                     then match e_subj e with SRoa r => [(r, replace_with_pinned entries e)] | SAnn _ => [] end
                     else []) entries.

Definition suggestion_with (tp : list (croa * list payload)) (entries : list entry) : suggestion :=
  mkSug
    (roas_in (st_is RoaUnseen) entries)                                            (* 251-253 stale *)
    (anns_in (st_is AnnNotFound) entries)                                          (* 303-305 *)
    (anns_in (st_is AnnInvalidAsn) entries)                                        (* 306-308 *)
    (anns_in (st_is AnnInvalidLength) entries)                                     (* 309-311 *)
    tp                                                                             (* 254-284 *)
    (roas_in (st_is RoaDisallowing) entries)                                       (* 288-290 *)
    (roas_in (st_is RoaRedundant) entries)                                         (* 291-293 *)
    (roas_in (st_is RoaNotHeld) entries)                                           (* 294-296 *)
    (roas_in (st_is RoaAs0Redundant) entries)                                      (* 297-301 *)
    (roas_in (fun s => st_is RoaSeen s || st_is RoaAs0 s || st_is RoaNoInfo s) entries)   (* 285-287, 315-317 keep *)
    (anns_in (st_is AnnDisallowed) entries).                                       (* 312-314 *)

(** [entries]: the report, in report order. *)
Definition suggest_of_entries (entries : list entry) : option suggestion :=
  if forallb kind_consistent entries
  then Some (suggestion_with (too_permissive_loop entries entries []) entries)
  else None.
Definition suggest_of_entries_pinned (entries : list entry) : option suggestion :=
  if forallb kind_consistent entries
  then Some (suggestion_with (too_permissive_pinned entries) entries)
  else None.

Definition suggest (chk : bool) (roas : list croa) (held : resources) (limit : option resources)
           (seen : option (list ann)) : option suggestion :=
  match analyse chk roas held limit seen with
  | Some entries => suggest_of_entries (report_sort entries)
  | None => None
  end.
Definition suggest_pinned (chk : bool) (roas : list croa) (held : resources) (limit : option resources)
           (seen : option (list ann)) : option suggestion :=
  match analyse chk roas held limit seen with
  | Some entries => suggest_of_entries_pinned (report_sort entries)
  | None => None
  end.

(** [From<BgpAnalysisSuggestion> for RoaConfigurationUpdates] (src/api/roa.rs:554-591): what following the
    suggestion adds and removes, as [(added, removed)]. *)
Definition updates_of_suggestion (s : suggestion) : list payload * list payload :=
  (map payload_of_ann (s_not_found s ++ s_invalid_asn s ++ s_invalid_length s) ++ flat_map snd (s_too_permissive s),
   map r_pl (s_stale s) ++ map (fun x => r_pl (fst x)) (s_too_permissive s)
   ++ map r_pl (s_as0_redundant s) ++ map r_pl (s_redundant s)).

(** ** Derived notions used in the statements of [AnalyserProofs.v]

    What [validate_set] computes for one route origin (its set has the origin's prefix), and the list of
    route origins that [analyse] validates for a list of scope prefixes. *)
Definition validate_one (roas : list croa) (a : ann) : vro :=
  match filter (fun r => covers (r_pfx r) (a_pfx a)) roas with
  | [] => mkV a VNotFound []
  | covering => validate a covering
  end.

Definition scoped_anns (store : list ann) (scope : list prefix) : list ann :=
  flat_map (fun p => ann_sort (filter (fun a => covers p (a_pfx a)) store)) scope.
