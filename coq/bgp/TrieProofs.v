(** Proofs about the prefix tree model of [Trie.v]: the lookup of a well-formed tree is
    exact, the builder yields a well-formed tree holding exactly its input, hence
    [trie_lookup_exact]. No axioms. *)
From KV Require Import base.Tac bgp.Prefix bgp.Rov bgp.Analyser bgp.BgpCheck bgp.AnalyserProofs bgp.Trie.
Open Scope N_scope.

(** * Bits of well-formed prefixes *)
Lemma alen_pos f : 0 < alen f.
Proof. destruct f; reflexivity. Qed.

Lemma wf_parts p : wf_prefix p ->
  p_len p <= alen (p_fam p) /\ p_addr p < 2 ^ alen (p_fam p)
  /\ p_addr p = N.shiftl (N.shiftr (p_addr p) (alen (p_fam p) - p_len p)) (alen (p_fam p) - p_len p).
Proof. intros H. apply wf_prefix_parts in H. exact H. Qed.

(** Host bits are zero. *)
Lemma pbit_host p i : wf_prefix p -> p_len p <= i -> pbit p i = false.
Proof.
  intros Hw Hi. destruct (wf_parts p Hw) as (Hl & Ha & Hn). unfold pbit.
  destruct (N.leb_spec (alen (p_fam p)) i) as [|Hlt]; [reflexivity|].
  rewrite Hn. apply N.shiftl_spec_low. lia.
Qed.

(** [covers] = "the first [len p] bits agree". *)
Lemma covers_bits p q : wf_prefix p -> wf_prefix q -> p_fam p = p_fam q ->
  (covers p q = true <-> p_len p <= p_len q /\ forall i, i < p_len p -> pbit p i = pbit q i).
Proof.
  intros Hp Hq Hf. rewrite covers_covered_pfx by assumption.
  destruct (wf_parts p Hp) as (Hlp & Hap & _). destruct (wf_parts q Hq) as (Hlq & Haq & _).
  unfold covered_pfx, first_bits. rewrite !andb_true_iff, fam_eqb_eq, N.leb_le, N.eqb_eq.
  set (n := alen (p_fam p)) in *. assert (Hn : alen (p_fam q) = n) by (unfold n; congruence).
  split.
  - intros [[_ Hl] He]. split; [assumption|]. intros i Hi. unfold pbit. rewrite Hn. fold n.
    destruct (N.leb_spec n i); [lia|].
    assert (E : forall a, N.testbit a (n - 1 - i) = N.testbit (N.shiftr a (n - p_len p)) (n - 1 - i - (n - p_len p))).
    { intros a. rewrite N.shiftr_spec by lia. f_equal. lia. }
    rewrite (E (p_addr p)), (E (p_addr q)), He. reflexivity.
  - intros [Hl Hb]. split; [split; assumption|]. apply N.bits_inj. intros m.
    rewrite !N.shiftr_spec by lia.
    destruct (N.ltb_spec (m + (n - p_len p)) n) as [Hm|Hm].
    + specialize (Hb (n - 1 - (m + (n - p_len p)))). unfold pbit in Hb. rewrite Hn in Hb. fold n in Hb.
      destruct (N.leb_spec n (n - 1 - (m + (n - p_len p)))); [lia|].
      replace (n - 1 - (n - 1 - (m + (n - p_len p)))) with (m + (n - p_len p)) in Hb by lia.
      apply Hb. lia.
    + rewrite (testbit_high (p_addr p) n) by (assumption || lia).
      rewrite (testbit_high (p_addr q) n) by (rewrite <- Hn; assumption || lia). reflexivity.
Qed.

Lemma covers_refl p : wf_prefix p -> covers p p = true.
Proof. intros H. apply covers_bits; auto. split; [lia | auto]. Qed.

Lemma covers_trans p q r : wf_prefix p -> wf_prefix q -> wf_prefix r ->
  covers p q = true -> covers q r = true -> covers p r = true.
Proof.
  intros Hp Hq Hr H1 H2. rewrite covers_covered_pfx in * by assumption. eapply covered_pfx_trans; eassumption.
Qed.

(** Two prefixes of the same address are comparable. *)
Lemma covers_comparable q p g : wf_prefix q -> wf_prefix p -> wf_prefix g ->
  covers q g = true -> covers p g = true -> p_len q <= p_len p -> covers q p = true.
Proof.
  intros Hq Hp Hg H1 H2 Hl.
  pose proof (covers_fam _ _ H1) as F1. pose proof (covers_fam _ _ H2) as F2.
  apply covers_bits in H1; auto. apply covers_bits in H2; auto. destruct H1 as [L1 B1], H2 as [L2 B2].
  apply covers_bits; auto; [congruence|]. split; [assumption|]. intros i Hi.
  rewrite B1 by assumption. rewrite B2 by lia. reflexivity.
Qed.

(** A prefix is determined by its length and bits. *)
Lemma covers_antisym p q : wf_prefix p -> wf_prefix q -> covers p q = true -> covers q p = true -> p = q.
Proof.
  intros Hp Hq H1 H2. pose proof (covers_fam _ _ H1) as F.
  rewrite covers_covered_pfx in * by assumption.
  unfold covered_pfx, first_bits in *. rewrite !andb_true_iff, !N.leb_le, !N.eqb_eq in *.
  destruct H1 as [[_ L1] E1], H2 as [[_ L2] E2].
  assert (L : p_len p = p_len q) by lia.
  destruct (wf_parts p Hp) as (_ & _ & Np). destruct (wf_parts q Hq) as (_ & _ & Nq).
  destruct p as [pf pa pl], q as [qf qa ql]. cbn [p_fam p_addr p_len] in *. subst qf ql.
  f_equal. rewrite Np, Nq, E1. reflexivity.
Qed.

(** * [resize] *)
Lemma netmask_land a f k : a < 2 ^ alen f -> k <= alen f ->
  N.land a (netmask f k) = N.shiftl (N.shiftr a (alen f - k)) (alen f - k).
Proof.
  intros Ha Hk. unfold netmask. rewrite shiftr_ones by assumption. apply land_netmask; [assumption | lia].
Qed.

Lemma shiftl_shiftr_lt a n h : a < 2 ^ n -> h <= n -> N.shiftl (N.shiftr a h) h < 2 ^ n.
Proof.
  intros Ha Hh. eapply N.le_lt_trans; [|exact Ha].
  rewrite N.shiftl_mul_pow2, N.shiftr_div_pow2.
  rewrite N.mul_comm. apply N.mul_div_le. apply N.pow_nonzero. discriminate.
Qed.

Lemma resize_wf p k : wf_prefix p -> k <= p_len p -> wf_prefix (resize p k).
Proof.
  intros Hw Hk. destruct (wf_parts p Hw) as (Hl & Ha & Hn). unfold resize.
  destruct (N.leb_spec (alen (p_fam p)) k) as [Hge|Hlt].
  - assert (p_len p = alen (p_fam p)) by lia.
    unfold wf_prefix, wf_prefixb, host_bits. cbn [p_fam p_addr p_len].
    rewrite N.sub_diag, N.shiftr_0_r, N.shiftl_0_r, N.eqb_refl.
    rewrite andb_true_r. apply andb_true_iff. split; [apply N.leb_le; lia | apply N.ltb_lt; assumption].
  - rewrite netmask_land by (assumption || lia).
    unfold wf_prefix, wf_prefixb, host_bits. cbn [p_fam p_addr p_len].
    apply andb_true_iff. split; [apply andb_true_iff; split|].
    + apply N.leb_le. lia.
    + apply N.ltb_lt. apply shiftl_shiftr_lt; [assumption | lia].
    + apply N.eqb_eq. rewrite shiftr_shiftl_same. reflexivity.
Qed.

Lemma resize_fam p k : p_fam (resize p k) = p_fam p.
Proof. unfold resize. destruct (_ <=? _); reflexivity. Qed.

Lemma resize_len p k : wf_prefix p -> k <= p_len p -> p_len (resize p k) = k.
Proof.
  intros Hw Hk. destruct (wf_parts p Hw) as (Hl & _). unfold resize.
  destruct (N.leb_spec (alen (p_fam p)) k); cbn [p_len]; lia.
Qed.

Lemma resize_bits p k i : wf_prefix p -> k <= p_len p -> i < k -> pbit (resize p k) i = pbit p i.
Proof.
  intros Hw Hk Hi. destruct (wf_parts p Hw) as (Hl & Ha & Hn). unfold resize.
  destruct (N.leb_spec (alen (p_fam p)) k) as [Hge|Hlt]; [reflexivity|].
  rewrite netmask_land by (assumption || lia). unfold pbit. cbn [p_fam p_addr].
  destruct (N.leb_spec (alen (p_fam p)) i); [reflexivity|].
  rewrite N.shiftl_spec_high by lia. rewrite N.shiftr_spec by lia. f_equal. lia.
Qed.

(** * Leading zeros of the xor: the first differing bit *)
Lemma lz_spec n a b : a < 2 ^ n -> b < 2 ^ n ->
  let k := leading_zeros n (N.lxor a b) in
  k <= n /\ (forall i, i < k -> N.testbit a (n - 1 - i) = N.testbit b (n - 1 - i))
  /\ (k < n -> N.testbit a (n - 1 - k) <> N.testbit b (n - 1 - k)).
Proof.
  intros Ha Hb k. unfold leading_zeros in k.
  destruct (N.eqb_spec (N.lxor a b) 0) as [E|E].
  - apply N.lxor_eq in E. subst b k. split; [lia|]. split; [reflexivity | lia].
  - set (x := N.lxor a b) in *.
    assert (Hx : x < 2 ^ n).
    { destruct (N.lt_ge_cases x (2 ^ n)) as [|Hge]; [assumption|]. exfalso.
      assert (Hbit : N.testbit x (N.log2 x) = true) by (apply N.bit_log2; assumption).
      assert (Hl : n <= N.log2 x) by (apply N.log2_le_pow2; lia).
      change (N.testbit (N.lxor a b) (N.log2 x) = true) in Hbit. rewrite N.lxor_spec in Hbit.
      rewrite (testbit_high a n (N.log2 x)), (testbit_high b n (N.log2 x)) in Hbit by assumption. discriminate. }
    assert (Hlog : N.log2 x < n) by (apply N.log2_lt_pow2; lia).
    assert (Hs : N.size x = N.succ (N.log2 x)) by (apply N.size_log2; assumption).
    subst k. rewrite Hs. split; [lia|]. split.
    + intros i Hi.
      assert (Hz : N.testbit x (n - 1 - i) = false) by (apply N.bits_above_log2; lia).
      change (N.testbit (N.lxor a b) (n - 1 - i) = false) in Hz. rewrite N.lxor_spec in Hz. apply xorb_eq in Hz. exact Hz.
    + intros _. replace (n - 1 - (n - N.succ (N.log2 x))) with (N.log2 x) by lia.
      assert (Hbit : N.testbit x (N.log2 x) = true) by (apply N.bit_log2; assumption).
      change (N.testbit (N.lxor a b) (N.log2 x) = true) in Hbit. rewrite N.lxor_spec in Hbit. intros Eq. rewrite Eq in Hbit.
      rewrite xorb_nilpotent in Hbit. discriminate.
Qed.

(** Order and the first differing bit: the smaller number has 0 there. *)
Lemma lt_first_diff a b j :
  a < b -> N.shiftr a (N.succ j) = N.shiftr b (N.succ j) -> N.testbit a j <> N.testbit b j ->
  N.testbit a j = false /\ N.testbit b j = true.
Proof.
  intros Hlt Hhi Hd.
  assert (T : forall x, N.testbit x j = N.odd (N.shiftr x j)).
  { intros x. rewrite <- N.bit0_odd, N.shiftr_spec by lia. f_equal. }
  assert (D : forall x, N.shiftr x j = 2 * N.shiftr x (N.succ j) + N.b2n (N.odd (N.shiftr x j))).
  { intros x. rewrite <- N.add_1_r, <- N.shiftr_shiftr, <- N.div2_spec. apply N.div2_odd. }
  assert (M : N.shiftr a j <= N.shiftr b j).
  { rewrite !N.shiftr_div_pow2. apply N.div_le_mono; [apply N.pow_nonzero; discriminate | lia]. }
  rewrite (D a), (D b), Hhi in M. rewrite !T in *.
  destruct (N.odd (N.shiftr a j)), (N.odd (N.shiftr b j)); cbn [N.b2n] in M; try (exfalso; apply Hd; reflexivity);
    [exfalso; lia | split; reflexivity].
Qed.

(** * Well-formed trees and their lookup *)
Definition child_ok (p : prefix) (b : bool) (c : tree) : Prop :=
  match c with
  | Leaf => True
  | Node cp _ _ _ => covers p cp = true /\ p_len p < p_len cp /\ pbit cp (p_len p) = b
  end.

Fixpoint wf_tree (f : fam) (t : tree) : Prop :=
  match t with
  | Leaf => True
  | Node p d l r =>
      wf_prefix p /\ p_fam p = f /\ (forall a, In a d -> a_pfx a = p)
      /\ child_ok p false l /\ child_ok p true r /\ wf_tree f l /\ wf_tree f r
  end.

(** The data of a tree in iteration order. *)
Fixpoint tree_groups (t : tree) : list pgroup :=
  match t with
  | Leaf => []
  | Node p d l r => match d with [] => [] | _ => [(p, d)] end ++ tree_groups l ++ tree_groups r
  end.

Lemma iter_groups t : iter t = map snd (tree_groups t).
Proof.
  induction t as [|p d l IHl r IHr]; [reflexivity|].
  cbn [iter tree_groups]. rewrite !map_app, IHl, IHr. destruct d; reflexivity.
Qed.

Lemma subtree_covered f t : wf_tree f t ->
  match t with
  | Leaf => True
  | Node p _ _ _ => forall g, In g (tree_groups t) -> covers p (fst g) = true /\ wf_prefix (fst g) /\ p_fam (fst g) = f
  end.
Proof.
  induction t as [|p d l IHl r IHr]; [trivial|].
  intros (Hw & Hf & Hd & Hl & Hr & Wl & Wr) g Hg. cbn [tree_groups] in Hg.
  apply in_app_or in Hg. destruct Hg as [Hg|Hg].
  - destruct d; [destruct Hg|]. destruct Hg as [<-|[]]. cbn [fst]. split; [apply covers_refl; assumption | auto].
  - apply in_app_or in Hg. destruct Hg as [Hg|Hg].
    + specialize (IHl Wl). destruct l as [|lp ld ll lr]; [destruct Hg|].
      destruct (IHl g Hg) as (Hc & Hwg & Hfg). destruct Hl as (Hcl & _ & _). destruct Wl as (Hwl & _).
      split; [apply (covers_trans p lp (fst g)); assumption | auto].
    + specialize (IHr Wr). destruct r as [|rp rd rl rr]; [destruct Hg|].
      destruct (IHr g Hg) as (Hc & Hwg & Hfg). destruct Hr as (Hcr & _ & _). destruct Wr as (Hwr & _).
      split; [apply (covers_trans p rp (fst g)); assumption | auto].
Qed.

Lemma filter_all {A} (f : A -> bool) l : (forall x, In x l -> f x = true) -> filter f l = l.
Proof.
  induction l as [|a l IH]; intros H; [reflexivity|]. cbn [filter]. rewrite (H a) by (left; reflexivity).
  f_equal. apply IH. intros x Hx. apply H. right; assumption.
Qed.

Lemma filter_none {A} (f : A -> bool) l : (forall x, In x l -> f x = false) -> filter f l = [].
Proof.
  induction l as [|a l IH]; intros H; [reflexivity|]. cbn [filter]. rewrite (H a) by (left; reflexivity).
  apply IH. intros x Hx. apply H. right; assumption.
Qed.

(** Nothing under the child on the other side of [q]'s next bit is covered by [q]. *)
Lemma other_side_not_covered f p b c q g :
  wf_prefix p -> p_fam p = f -> wf_prefix q -> p_fam q = f -> covers q p = false ->
  child_ok p (negb b) c -> wf_tree f c -> pbit q (p_len p) = b -> In g (tree_groups c) -> covers q (fst g) = false.
Proof.
  intros Hp Hfp Hq Hfq Hqp Hc Wc Hb Hg.
  destruct c as [|cp cd cl cr]; [destruct Hg|].
  destruct Hc as (Hcc & Hlen & Hbit). pose proof Wc as (Hwc & Hfc & _).
  destruct (subtree_covered f _ Wc g Hg) as (Hcg & Hwg & Hfg).
  destruct (covers q (fst g)) eqn:E; [exfalso | reflexivity].
  assert (Hpg : covers p (fst g) = true) by (apply (covers_trans p cp (fst g)); assumption).
  destruct (N.le_gt_cases (p_len q) (p_len p)) as [Hle|Hgt].
  - rewrite (covers_comparable q p (fst g)) in Hqp by assumption. discriminate.
  - apply covers_bits in E; [|assumption|assumption|congruence]. destruct E as [_ Bq].
    apply covers_bits in Hcg; [|assumption|assumption|congruence]. destruct Hcg as [_ Bc].
    specialize (Bq (p_len p) Hgt). specialize (Bc (p_len p) Hlen).
    rewrite Hb in Bq. rewrite Hbit in Bc. rewrite <- Bc in Bq. destruct b; discriminate.
Qed.

(** ** The lookup of a well-formed tree is exact *)
Theorem lookup_wf f t q : wf_tree f t -> wf_prefix q -> p_fam q = f ->
  tree_lookup t q = map snd (filter (fun g => covers q (fst g)) (tree_groups t)).
Proof.
  unfold tree_lookup. intros Wt Hq Hfq. induction t as [|p d l IHl r IHr]; [reflexivity|].
  pose proof Wt as (Hp & Hfp & Hd & Hl & Hr & Wl & Wr).
  cbn [descend].
  destruct ((p_len q <=? p_len p) && (prefix_eqb q p || covers q p)) eqn:Hc.
  - (* start here: everything below is covered *)
    apply andb_true_iff in Hc. destruct Hc as [_ Hc].
    assert (Hqp : covers q p = true).
    { apply orb_true_iff in Hc. destruct Hc as [Hc|Hc]; [|assumption]. apply prefix_eqb_eq in Hc. subst q. apply covers_refl; assumption. }
    rewrite filter_all; [apply iter_groups|].
    intros g Hg. destruct (subtree_covered f _ Wt g Hg) as (Hpg & Hwg & _). apply (covers_trans q p (fst g)); assumption.
  - assert (Hqp : covers q p = false).
    { apply andb_false_iff in Hc. destruct Hc as [Hc|Hc].
      - apply N.leb_gt in Hc. unfold covers. apply N.ltb_lt in Hc. rewrite Hc. apply andb_false_r.
      - apply orb_false_iff in Hc. tauto. }
    cbn [tree_groups]. rewrite !filter_app.
    assert (Hd0 : filter (fun g => covers q (fst g)) (match d with [] => [] | _ :: _ => [(p, d)] end) = []).
    { destruct d; [reflexivity|]. cbn [filter fst]. rewrite Hqp. reflexivity. }
    rewrite Hd0. cbn [app].
    destruct (pbit q (p_len p)) eqn:Hb; cbn [negb].
    + (* right *)
      rewrite (filter_none _ (tree_groups l)).
      * cbn [app]. apply IHr; assumption.
      * intros g Hg. eapply (other_side_not_covered f p true l q g); eauto.
    + (* left *)
      rewrite (filter_none _ (tree_groups r)).
      * rewrite app_nil_r. apply IHl; assumption.
      * intros g Hg. eapply (other_side_not_covered f p false r q g); eauto.
Qed.

(** * Order of prefixes and bits *)
Lemma prefix_ltb_iff p q :
  prefix_ltb p q = true <-> p_addr p < p_addr q \/ (p_addr p = p_addr q /\ p_len p < p_len q).
Proof. unfold prefix_ltb. rewrite orb_true_iff, andb_true_iff, !N.ltb_lt, N.eqb_eq. tauto. Qed.

Lemma prefix_ltb_trans p q r : prefix_ltb p q = true -> prefix_ltb q r = true -> prefix_ltb p r = true.
Proof. rewrite !prefix_ltb_iff. lia. Qed.

Lemma prefix_ltb_irrefl p : prefix_ltb p p = false.
Proof. destruct (prefix_ltb p p) eqn:E; [|reflexivity]. apply prefix_ltb_iff in E. lia. Qed.

Lemma pbit_addr p i : i < alen (p_fam p) -> pbit p i = N.testbit (p_addr p) (alen (p_fam p) - 1 - i).
Proof. intros H. unfold pbit. destruct (N.leb_spec (alen (p_fam p)) i); [lia | reflexivity]. Qed.

Lemma pbit_true_lt p i : pbit p i = true -> i < alen (p_fam p).
Proof. unfold pbit. destruct (N.leb_spec (alen (p_fam p)) i); [discriminate | auto]. Qed.

Lemma covers_addr_le c g : wf_prefix c -> wf_prefix g -> covers c g = true -> p_addr c <= p_addr g.
Proof.
  intros Hc Hg H. pose proof (covers_fam _ _ H) as Hf.
  destruct (wf_parts g Hg) as (_ & Hag & _). destruct (wf_parts c Hc) as (Hlc & _ & _).
  unfold covers in H. apply andb_true_iff in H. destruct H as [_ H].
  destruct (p_len g <? p_len c); [discriminate|].
  destruct (N.eqb_spec (p_len c) (alen (p_fam c))).
  - apply N.eqb_eq in H. lia.
  - apply N.eqb_eq in H. rewrite H. rewrite netmask_land by (try (rewrite Hf; assumption); lia).
    rewrite N.shiftl_mul_pow2, N.shiftr_div_pow2, N.mul_comm. apply N.mul_div_le. apply N.pow_nonzero. discriminate.
Qed.

(** If the bits agree above position [j] (from the left: before [k]) and differ at it, the one with 0 is smaller. *)
Lemma bits_lt a b n j : a < 2 ^ n -> b < 2 ^ n ->
  (forall i, j < i -> N.testbit a i = N.testbit b i) -> N.testbit a j = false -> N.testbit b j = true -> a < b.
Proof.
  intros Ha Hb Hhi Hja Hjb.
  destruct (N.lt_trichotomy a b) as [H|[H|H]]; [assumption | subst b; congruence |].
  exfalso.
  assert (E : N.shiftr b (N.succ j) = N.shiftr a (N.succ j)).
  { apply N.bits_inj. intros m. rewrite !N.shiftr_spec by lia. symmetry. apply Hhi. lia. }
  destruct (lt_first_diff b a j H E) as [X _]; congruence.
Qed.

Lemma pfx_bits_lt p q k : wf_prefix p -> wf_prefix q -> p_fam p = p_fam q ->
  (forall i, i < k -> pbit p i = pbit q i) -> pbit p k = false -> pbit q k = true -> p_addr p < p_addr q.
Proof.
  intros Hp Hq Hf Hlow Hpk Hqk.
  destruct (wf_parts p Hp) as (_ & Hap & _). destruct (wf_parts q Hq) as (_ & Haq & _).
  pose proof (pbit_true_lt _ _ Hqk) as Hk. rewrite <- Hf in *.
  set (n := alen (p_fam p)) in *.
  apply (bits_lt _ _ n (n - 1 - k)); try assumption.
  - intros i Hi. destruct (N.lt_ge_cases i n) as [Hin|Hin].
    + specialize (Hlow (n - 1 - i)). rewrite !pbit_addr in Hlow by (try rewrite <- Hf; fold n; lia).
      rewrite <- Hf in Hlow. fold n in Hlow. replace (n - 1 - (n - 1 - i)) with i in Hlow by lia. apply Hlow. lia.
    + rewrite (testbit_high _ n i Hap Hin), (testbit_high _ n i Haq Hin). reflexivity.
  - rewrite pbit_addr in Hpk by (fold n; lia). exact Hpk.
  - rewrite pbit_addr in Hqk by (rewrite <- Hf; fold n; lia). rewrite <- Hf in Hqk. exact Hqk.
Qed.

(** Two prefixes in order, the first not covering the second, diverge at a bit where the first has 0. *)
Lemma diverge c g : wf_prefix c -> wf_prefix g -> p_fam c = p_fam g ->
  prefix_ltb c g = true -> covers c g = false ->
  let k := leading_zeros (alen (p_fam c)) (N.lxor (p_addr c) (p_addr g)) in
  k < p_len c /\ k < p_len g /\ (forall i, i < k -> pbit c i = pbit g i) /\ pbit c k = false /\ pbit g k = true.
Proof.
  intros Hc Hg Hf Hlt Hnc k.
  destruct (wf_parts c Hc) as (Hlc & Hac & _). destruct (wf_parts g Hg) as (Hlg & Hag & _).
  rewrite <- Hf in Hlg, Hag. set (n := alen (p_fam c)) in *.
  destruct (lz_spec n (p_addr c) (p_addr g) Hac Hag) as (Hkn & Hlow & Hdiff). fold k in Hkn, Hlow, Hdiff.
  assert (Hbits : forall i, i < k -> pbit c i = pbit g i).
  { intros i Hi. rewrite !pbit_addr by (try rewrite <- Hf; fold n; lia). rewrite <- Hf. apply Hlow. assumption. }
  assert (Hkc : k < p_len c).
  { destruct (N.lt_ge_cases k (p_len c)) as [|Hge]; [assumption|]. exfalso.
    destruct (N.le_gt_cases (p_len c) (p_len g)) as [Hle|Hgt].
    - assert (X : covers c g = true) by (apply covers_bits; auto; split; [assumption | intros i Hi; apply Hbits; lia]).
      congruence.
    - assert (X : covers g c = true).
      { apply covers_bits; auto. split; [lia|]. intros i Hi. symmetry. apply Hbits. lia. }
      apply covers_addr_le in X; auto. apply prefix_ltb_iff in Hlt. lia. }
  assert (Hkg : k < p_len g).
  { destruct (N.lt_ge_cases k (p_len g)) as [|Hge]; [assumption|]. exfalso.
    assert (X : covers g c = true).
    { apply covers_bits; auto. split; [lia|]. intros i Hi. symmetry. apply Hbits. lia. }
    apply covers_addr_le in X; auto. apply prefix_ltb_iff in Hlt.
    destruct Hlt as [|[E1 E2]]; [lia|].
    (* equal addresses: then c covers g *)
    assert (Y : covers c g = true).
    { apply covers_bits; auto. split; [lia|]. intros i Hi.
      destruct (N.lt_ge_cases i n) as [Hin|Hin].
      - rewrite !pbit_addr by (try rewrite <- Hf; fold n; lia). rewrite <- Hf, E1. reflexivity.
      - lia. }
    congruence. }
  split; [assumption|]. split; [assumption|]. split; [assumption|].
  assert (Hk : k < n) by lia. specialize (Hdiff Hk).
  assert (Haddr : p_addr c < p_addr g).
  { apply prefix_ltb_iff in Hlt. destruct Hlt as [|[E _]]; [assumption|]. exfalso.
    apply Hdiff. rewrite E. reflexivity. }
  assert (E : N.shiftr (p_addr c) (N.succ (n - 1 - k)) = N.shiftr (p_addr g) (N.succ (n - 1 - k))).
  { apply N.bits_inj. intros m. rewrite !N.shiftr_spec by lia.
    destruct (N.lt_ge_cases (m + N.succ (n - 1 - k)) n) as [Hin|Hin].
    - specialize (Hlow (n - 1 - (m + N.succ (n - 1 - k)))).
      replace (n - 1 - (n - 1 - (m + N.succ (n - 1 - k)))) with (m + N.succ (n - 1 - k)) in Hlow by lia.
      apply Hlow. lia.
    - rewrite (testbit_high _ n _ Hac Hin), (testbit_high _ n _ Hag Hin). reflexivity. }
  destruct (lt_first_diff _ _ _ Haddr E Hdiff) as [X Y].
  rewrite !pbit_addr by (try rewrite <- Hf; fold n; lia). rewrite <- Hf. auto.
Qed.

(** * [closest_ancestor] *)
Lemma closest_ancestor_spec c g : wf_prefix c -> wf_prefix g -> p_fam c = p_fam g ->
  prefix_ltb c g = true -> covers c g = false ->
  let anc := closest_ancestor c g in
  wf_prefix anc /\ p_fam anc = p_fam c /\ p_len anc < p_len c /\ p_len anc < p_len g
  /\ (forall i, i < p_len anc -> pbit anc i = pbit c i /\ pbit c i = pbit g i)
  /\ pbit c (p_len anc) = false /\ pbit g (p_len anc) = true.
Proof.
  intros Hc Hg Hf Hlt Hnc anc.
  destruct (diverge c g Hc Hg Hf Hlt Hnc) as (Hkc & Hkg & Hbits & Hck & Hgk).
  set (k := leading_zeros (alen (p_fam c)) (N.lxor (p_addr c) (p_addr g))) in *.
  assert (Ea : anc = resize c k).
  { unfold anc, closest_ancestor. fold k. f_equal. lia. }
  assert (Hl : p_len anc = k) by (rewrite Ea; apply resize_len; [assumption | lia]).
  rewrite Hl. split; [rewrite Ea; apply resize_wf; [assumption | lia]|].
  split; [rewrite Ea; apply resize_fam|]. split; [assumption|]. split; [assumption|].
  split; [|split; assumption].
  intros i Hi. split; [rewrite Ea; apply resize_bits; [assumption | lia | assumption] | apply Hbits; assumption].
Qed.

Lemma covers_lt a g : wf_prefix a -> wf_prefix g -> covers a g = true -> p_len a < p_len g -> prefix_ltb a g = true.
Proof.
  intros Ha Hg Hc Hl. apply covers_addr_le in Hc; auto. apply prefix_ltb_iff. lia.
Qed.

Lemma covers_strict p g : wf_prefix p -> wf_prefix g -> covers p g = true -> prefix_ltb p g = true -> p_len p < p_len g.
Proof.
  intros Hp Hg Hc Hlt. pose proof (covers_fam _ _ Hc) as Hf.
  pose proof Hc as Hc'. apply covers_bits in Hc'; auto. destruct Hc' as [Hle Hb].
  destruct (N.eq_dec (p_len p) (p_len g)) as [E|]; [|lia]. exfalso.
  assert (X : covers g p = true).
  { apply covers_bits; auto. split; [lia|]. intros i Hi. symmetry. apply Hb. lia. }
  pose proof (covers_antisym p g Hp Hg Hc X). subst g. rewrite prefix_ltb_irrefl in Hlt. discriminate.
Qed.

(** What the builder needs to know about the no-data node it inserts between [p] and an existing child [c]
    when the next prefix [g] goes to the same side of [p]. *)
Lemma anc_under p b c g : wf_prefix p -> wf_prefix c -> wf_prefix g -> p_fam c = p_fam p -> p_fam g = p_fam p ->
  covers p c = true -> p_len p < p_len c -> pbit c (p_len p) = b ->
  covers p g = true -> p_len p < p_len g -> pbit g (p_len p) = b ->
  prefix_ltb c g = true -> covers c g = false ->
  let anc := closest_ancestor c g in
  wf_prefix anc /\ p_fam anc = p_fam p
  /\ covers p anc = true /\ p_len p < p_len anc /\ pbit anc (p_len p) = b
  /\ covers anc c = true /\ p_len anc < p_len c /\ pbit c (p_len anc) = false
  /\ covers anc g = true /\ p_len anc < p_len g /\ pbit g (p_len anc) = true.
Proof.
  intros Hp Hc Hg Hfc Hfg Hpc Hlc Hbc Hpg Hlg Hbg Hlt Hnc anc.
  assert (Hf : p_fam c = p_fam g) by congruence.
  destruct (closest_ancestor_spec c g Hc Hg Hf Hlt Hnc) as (Hwa & Hfa & Hac & Hag & Hbits & Hck & Hgk).
  fold anc in Hwa, Hfa, Hac, Hag, Hbits, Hck, Hgk.
  pose proof Hpc as Bc. apply covers_bits in Bc; auto. destruct Bc as [_ Bc].
  pose proof Hpg as Bg. apply covers_bits in Bg; auto. destruct Bg as [_ Bg].
  assert (Hpa : p_len p < p_len anc).
  { destruct (N.lt_ge_cases (p_len p) (p_len anc)) as [|Hge]; [assumption|]. exfalso.
    destruct (N.eq_dec (p_len anc) (p_len p)) as [E|E].
    - rewrite E in Hck, Hgk. congruence.
    - assert (Hlt' : p_len anc < p_len p) by lia.
      rewrite <- (Bc _ Hlt') in Hck. rewrite <- (Bg _ Hlt') in Hgk. congruence. }
  assert (Cpa : covers p anc = true).
  { apply covers_bits; [assumption | assumption | congruence |]. split; [lia|]. intros i Hi.
    destruct (Hbits i) as [E1 _]; [lia|]. rewrite E1. apply Bc. assumption. }
  assert (Cac : covers anc c = true).
  { apply covers_bits; [assumption | assumption | congruence |]. split; [lia|]. intros i Hi. apply Hbits. assumption. }
  assert (Cag : covers anc g = true).
  { apply covers_bits; [assumption | assumption | congruence |]. split; [lia|]. intros i Hi.
    destruct (Hbits i Hi) as [E1 E2]. congruence. }
  assert (Bap : pbit anc (p_len p) = b).
  { destruct (Hbits (p_len p) Hpa) as [E1 _]. rewrite E1. assumption. }
  repeat split; try assumption. congruence.
Qed.

(** A subtree that the head of the sorted input has left behind is not re-entered by anything later. *)
Lemma not_covered_later c g g' : wf_prefix c -> wf_prefix g -> wf_prefix g' ->
  p_fam c = p_fam g -> p_fam g' = p_fam g ->
  prefix_ltb c g = true -> covers c g = false -> (g' = g \/ prefix_ltb g g' = true) ->
  prefix_ltb c g' = true /\ covers c g' = false.
Proof.
  intros Hc Hg Hg' Hf Hf' Hlt Hnc Hle.
  split; [destruct Hle as [->|Hle]; [assumption | eapply prefix_ltb_trans; eassumption]|].
  destruct (covers c g') eqn:E; [exfalso | reflexivity].
  destruct (diverge c g Hc Hg Hf Hlt Hnc) as (Hkc & Hkg & Hbits & Hck & Hgk).
  set (k := leading_zeros (alen (p_fam c)) (N.lxor (p_addr c) (p_addr g))) in *.
  apply covers_bits in E; auto; [|congruence]. destruct E as [_ B].
  assert (X : p_addr g' < p_addr g).
  { apply (pfx_bits_lt g' g k); auto.
    - intros i Hi. rewrite <- B by lia. apply Hbits. assumption.
    - rewrite <- B by assumption. assumption. }
  destruct Hle as [->|Hle]; [lia|]. apply prefix_ltb_iff in Hle. lia.
Qed.

(** Under [p], everything on the 1-side comes after everything on the 0-side. *)
Lemma side_order p c g : wf_prefix p -> wf_prefix c -> wf_prefix g -> p_fam c = p_fam p -> p_fam g = p_fam p ->
  covers p c = true -> p_len p < p_len c -> pbit c (p_len p) = true ->
  covers p g = true -> p_len p < p_len g -> prefix_ltb c g = true -> pbit g (p_len p) = true.
Proof.
  intros Hp Hc Hg Hfc Hfg Hpc Hlc Hbc Hpg Hlg Hlt.
  destruct (pbit g (p_len p)) eqn:E; [reflexivity|]. exfalso.
  apply covers_bits in Hpc; auto. destruct Hpc as [_ Bc].
  apply covers_bits in Hpg; auto. destruct Hpg as [_ Bg].
  assert (X : p_addr g < p_addr c).
  { apply (pfx_bits_lt g c (p_len p)); auto; [congruence|]. intros i Hi. rewrite <- Bc, <- Bg by assumption. reflexivity. }
  apply prefix_ltb_iff in Hlt. lia.
Qed.

Lemma default_covers f g : wf_prefix g -> p_fam g = f -> covers (default_pfx f) g = true.
Proof.
  intros Hg Hf. assert (W : wf_prefix (default_pfx f)) by (destruct f; reflexivity).
  apply covers_bits; auto. cbn [default_pfx p_len]. split; [lia|]. intros i Hi. lia.
Qed.

(** * The builder *)
From Coq Require Import Sorting.Sorted.

Definition glt (g h : pgroup) : Prop := prefix_ltb (fst g) (fst h) = true.
Definition gwf (f : fam) (g : pgroup) : Prop :=
  wf_prefix (fst g) /\ p_fam (fst g) = f /\ snd g <> [] /\ forall a, In a (snd g) -> a_pfx a = fst g.

Definition child_before (c : tree) (n : prefix) : Prop :=
  match c with Leaf => True | Node cp _ _ _ => prefix_ltb cp n = true /\ covers cp n = false end.

Definition pre (f : fam) (p : prefix) (d : list ann) (l r : tree) (input : list pgroup) : Prop :=
  wf_tree f (Node p d l r) /\ Forall (gwf f) input /\ StronglySorted glt input
  /\ match input with
     | [] => True
     | g :: _ => prefix_ltb p (fst g) = true /\ child_before l (fst g) /\ child_before r (fst g)
     end.

Definition consuming (p : prefix) (l r : tree) (input : list pgroup) : Prop :=
  match input with
  | [] => False
  | g :: _ => covers p (fst g) = true /\ (if pbit (fst g) (p_len p) then r = Leaf else l = Leaf)
  end.

Definition post (f : fam) (p : prefix) (d : list ann) (l r : tree) (input : list pgroup) (res : tree * list pgroup) : Prop :=
  exists l' r' consumed,
    fst res = Node p d l' r' /\ wf_tree f (fst res) /\ input = consumed ++ snd res
    /\ tree_groups (fst res) = tree_groups (Node p d l r) ++ consumed
    /\ match snd res with [] => True | g :: _ => covers p (fst g) = false end.

Lemma sorted_app_r {A} (R : A -> A -> Prop) a b : StronglySorted R (a ++ b) -> StronglySorted R b.
Proof. induction a as [|x a IH]; [auto|]. cbn. intros H. inversion H; subst. auto. Qed.

Lemma suffix_head g rest consumed h tl :
  StronglySorted glt (g :: rest) -> g :: rest = consumed ++ h :: tl -> h = g \/ glt g h.
Proof.
  intros Hs E. destruct consumed as [|c cs]; cbn in E.
  - inversion E; subst. left; reflexivity.
  - inversion E; subst. right. inversion Hs; subst. rewrite Forall_forall in H2. apply H2.
    apply in_or_app. right. left. reflexivity.
Qed.

Lemma child_before_later f c g h : wf_tree f c -> gwf f g -> gwf f h ->
  child_before c (fst g) -> (h = g \/ glt g h) -> child_before c (fst h).
Proof.
  intros Wc (Hwg & Hfg & _) (Hwh & Hfh & _) Hb Hle. destruct c as [|cp cd cl cr]; [exact I|].
  destruct Wc as (Hwc & Hfc & _). destruct Hb as [Hlt Hnc].
  apply (not_covered_later cp (fst g) (fst h)); auto; try congruence.
  destruct Hle as [->|Hle]; [left; reflexivity | right; exact Hle].
Qed.

Lemma wf_tree_root f p d l r : wf_tree f (Node p d l r) -> wf_prefix p /\ p_fam p = f.
Proof. intros (H1 & H2 & _). auto. Qed.

Lemma forall_app_r {A} (P : A -> Prop) a b : Forall P (a ++ b) -> Forall P b.
Proof. intros H. apply Forall_app in H. tauto. Qed.

Lemma process_node_correct f : forall fuel p d l r input,
  pre f p d l r input ->
  ((2 * length input + 2 <= fuel)%nat \/ ((2 * length input + 1 <= fuel)%nat /\ consuming p l r input)) ->
  exists res, process_node fuel p d l r input = Some res /\ post f p d l r input res
    /\ (length (snd res) <= length input)%nat
    /\ (consuming p l r input -> (length (snd res) < length input)%nat).
Proof.
  induction fuel as [|fuel IH]; intros p d l r input Hpre Hfuel.
  { exfalso. destruct Hfuel as [H|[H _]]; lia. }
  destruct Hpre as (Wt & Hgw & Hs & Hhead).
  pose proof Wt as (Hwp & Hfp & Hd & Hcl & Hcr & Wl & Wr).
  destruct input as [|g rest].
  { exists (Node p d l r, []). cbn [process_node]. split; [reflexivity|]. split.
    - exists l, r, []. cbn [fst snd]. split; [reflexivity|]. split; [exact Wt|]. split; [reflexivity|].
      split; [symmetry; apply app_nil_r | exact I].
    - split; [cbn; lia | intros []]. }
  destruct g as [np nd]. cbn [fst] in Hhead. destruct Hhead as (Hpn & Hbl & Hbr).
  pose proof Hgw as Hgw0. pose proof Hs as Hs0.
  apply Forall_cons_iff in Hgw. destruct Hgw as [Hg Hgrest]. destruct Hg as (Hwn & Hfn & Hnd & Hnda). cbn [fst snd] in *.
  apply StronglySorted_inv in Hs. destruct Hs as [Hsrest Hall].
  cbn [process_node].
  destruct (covers p np) eqn:Hcov; cbn [negb].
  2:{ exists (Node p d l r, (np, nd) :: rest). split; [reflexivity|]. split.
      - exists l, r, []. cbn [fst snd]. split; [reflexivity|]. split; [exact Wt|]. split; [reflexivity|].
        split; [symmetry; apply app_nil_r | exact Hcov].
      - split; [cbn; lia|]. intros [Hc _]. cbn [fst] in Hc. congruence. }
  assert (Hlen : p_len p < p_len np) by (apply covers_strict; assumption).
  assert (Hgnp : gwf f (np, nd)) by (repeat split; assumption).
  (* facts about a later head *)
  assert (Later : forall c1 h tl, (np, nd) :: rest = c1 ++ h :: tl -> gwf f h /\ (h = (np, nd) \/ glt (np, nd) h) /\ prefix_ltb p (fst h) = true).
  { intros c1 h tl E. split; [|split].
    - assert (X : Forall (gwf f) (c1 ++ h :: tl)) by (rewrite <- E; exact Hgw0).
      apply forall_app_r in X. apply Forall_cons_iff in X. tauto.
    - eapply suffix_head; eassumption.
    - destruct (suffix_head _ _ _ _ _ Hs0 E) as [->|Hl]; [assumption|].
      eapply prefix_ltb_trans; [exact Hpn | exact Hl]. }
  destruct (pbit np (p_len p)) eqn:Hbit; cbn [negb].
  - (* ---------------- right side ---------------- *)
    destruct r as [|rp rd rl rr].
    + (* no right child yet: the next prefix becomes the right child *)
      assert (Hf1 : (2 * length rest + 2 <= fuel)%nat) by (cbn [length] in Hfuel; destruct Hfuel as [H|[H _]]; lia).
      destruct (IH np nd Leaf Leaf rest) as ([rn input1] & E1 & P1 & L1 & _).
      { split; [repeat split; auto|]. split; [assumption|]. split; [assumption|].
        destruct rest as [|h tl]; [exact I|]. apply Forall_cons_iff in Hall. destruct Hall as [Hh _]. repeat split; auto. }
      { left; assumption. }
      rewrite E1. destruct P1 as (l1 & r1 & c1 & Ern & Wrn & Erest & G1 & N1). cbn [fst snd] in *.
      destruct (IH p d l rn input1) as (res2 & E2 & P2 & L2 & _).
      { split.
        - subst rn. repeat split; auto; apply Wrn.
        - split; [apply (forall_app_r _ c1); rewrite <- Erest; exact Hgrest|].
          split; [apply (sorted_app_r _ c1); rewrite <- Erest; exact Hsrest|].
          destruct input1 as [|h tl]; [exact I|].
          destruct (Later ((np, nd) :: c1) h tl) as (Hgh & Hle & Hph); [cbn; rewrite Erest; reflexivity|].
          assert (Hnh : glt (np, nd) h).
          { rewrite Forall_forall in Hall. apply Hall. rewrite Erest. apply in_or_app. right; left; reflexivity. }
          split; [assumption|]. split.
          + exact (child_before_later f l (np, nd) h Wl Hgnp Hgh Hbl Hle).
          + subst rn. split; [exact Hnh | exact N1]. }
      { left. lia. }
      exists res2. split; [exact E2|]. split.
      * destruct P2 as (l' & r' & c2 & Et & Wt' & Ein & G2 & N2).
        exists l', r', ((np, nd) :: c1 ++ c2). split; [assumption|]. split; [assumption|].
        split; [cbn; rewrite Erest, Ein, app_assoc; reflexivity|]. split; [|assumption].
        rewrite G2. subst rn. cbn [tree_groups] in *. rewrite G1.
        destruct nd; [contradiction|]. cbn [app]. rewrite <- !app_assoc. cbn [app]. reflexivity.
      * cbn [length]. split; [lia | intros _; lia].
    + (* an existing right child: insert a no-data node at the closest common ancestor *)
      destruct Hcr as (Hprp & Hlrp & Hbrp). destruct Hbr as (Hltr & Hncr). pose proof Wr as (Hwrp & Hfrp & _).
      destruct (anc_under p true rp np) as (Hwa & Hfa & Cpa & Lpa & Bap & Car & Lar & Bra & Can & Lan & Bna); auto; try congruence.
      cbv iota beta. set (anc := closest_ancestor rp np) in *.
      assert (Hf1 : (2 * length rest + 3 <= fuel)%nat).
      { cbn [length] in Hfuel. destruct Hfuel as [H|[H [_ Hc]]]; [lia|]. cbn [fst] in Hc. rewrite Hbit in Hc. discriminate. }
      destruct (IH anc [] (Node rp rd rl rr) Leaf ((np, nd) :: rest)) as ([inter input1] & E1 & P1 & L1 & S1).
      { split.
        - split; [exact Hwa|]. split; [congruence|]. split; [intros a []|].
          split; [cbn [child_ok]; auto|]. split; [exact I|]. split; [exact Wr | exact I].
        - split; [assumption|]. split; [assumption|].
          cbn [fst]. split; [apply covers_lt; assumption|]. split; [split; assumption | exact I]. }
      { right. split; [cbn [length]; lia|]. cbn [consuming fst]. rewrite Bna. auto. }
      unfold pgroup in *. rewrite E1. destruct P1 as (l1 & r1 & c1 & Ei & Wi & Ein1 & G1 & N1). cbn [fst snd] in *.
      assert (S1' : (length input1 < length ((np, nd) :: rest))%nat).
      { apply S1. cbn [consuming fst]. rewrite Bna. auto. }
      destruct (IH p d l inter input1) as (res2 & E2 & P2 & L2 & _).
      { split.
        - subst inter. repeat split; auto; apply Wi.
        - split; [apply (forall_app_r _ c1); rewrite <- Ein1; exact Hgw0|].
          split; [apply (sorted_app_r _ c1); rewrite <- Ein1; exact Hs0|].
          destruct input1 as [|h tl]; [exact I|].
          destruct (Later c1 h tl Ein1) as (Hgh & Hle & Hph).
          split; [assumption|]. split.
          + exact (child_before_later f l (np, nd) h Wl Hgnp Hgh Hbl Hle).
          + subst inter. split; [|exact N1].
            assert (Han : prefix_ltb anc np = true) by (apply covers_lt; assumption).
            destruct Hle as [->|Hle]; [exact Han | eapply prefix_ltb_trans; [exact Han | exact Hle]]. }
      { left. cbn [length] in S1'. lia. }
      exists res2. split; [exact E2|]. split.
      * destruct P2 as (l' & r' & c2 & Et & Wt' & Ein & G2 & N2).
        exists l', r', (c1 ++ c2). split; [assumption|]. split; [assumption|].
        split; [rewrite Ein1, Ein, app_assoc; reflexivity|]. split; [|assumption].
        rewrite G2. subst inter. cbn [tree_groups] in *. rewrite G1. cbn [app]. rewrite ?app_nil_r, <- !app_assoc. reflexivity.
      * split; [lia | intros _; lia].
  - (* ---------------- left side ---------------- *)
    assert (Er : r = Leaf).
    { destruct r as [|rp rd rl rr]; [reflexivity|]. exfalso.
      destruct Hcr as (Hprp & Hlrp & Hbrp). destruct Hbr as (Hltr & _). pose proof Wr as (Hwrp & Hfrp & _).
      assert (X : pbit np (p_len p) = true) by (apply (side_order p rp np); auto; congruence). congruence. }
    subst r.
    destruct l as [|lp ld ll lr].
    + assert (Hf1 : (2 * length rest + 2 <= fuel)%nat) by (cbn [length] in Hfuel; destruct Hfuel as [H|[H _]]; lia).
      destruct (IH np nd Leaf Leaf rest) as ([ln input1] & E1 & P1 & L1 & _).
      { split; [repeat split; auto|]. split; [assumption|]. split; [assumption|].
        destruct rest as [|h tl]; [exact I|]. apply Forall_cons_iff in Hall. destruct Hall as [Hh _]. repeat split; auto. }
      { left; assumption. }
      rewrite E1. destruct P1 as (l1 & r1 & c1 & Eln & Wln & Erest & G1 & N1). cbn [fst snd] in *.
      destruct (IH p d ln Leaf input1) as (res2 & E2 & P2 & L2 & _).
      { split.
        - subst ln. repeat split; auto; apply Wln.
        - split; [apply (forall_app_r _ c1); rewrite <- Erest; exact Hgrest|].
          split; [apply (sorted_app_r _ c1); rewrite <- Erest; exact Hsrest|].
          destruct input1 as [|h tl]; [exact I|].
          destruct (Later ((np, nd) :: c1) h tl) as (Hgh & Hle & Hph); [cbn; rewrite Erest; reflexivity|].
          assert (Hnh : glt (np, nd) h).
          { rewrite Forall_forall in Hall. apply Hall. rewrite Erest. apply in_or_app. right; left; reflexivity. }
          split; [assumption|]. split; [|exact I].
          subst ln. split; [exact Hnh | exact N1]. }
      { left. lia. }
      exists res2. split; [exact E2|]. split.
      * destruct P2 as (l' & r' & c2 & Et & Wt' & Ein & G2 & N2).
        exists l', r', ((np, nd) :: c1 ++ c2). split; [assumption|]. split; [assumption|].
        split; [cbn; rewrite Erest, Ein, app_assoc; reflexivity|]. split; [|assumption].
        rewrite G2. subst ln. cbn [tree_groups] in *. rewrite G1.
        destruct nd; [contradiction|]. cbn [app]. rewrite ?app_nil_r, <- !app_assoc. cbn [app]. reflexivity.
      * cbn [length]. split; [lia | intros _; lia].
    + destruct Hcl as (Hplp & Hllp & Hblp). destruct Hbl as (Hltl & Hncl). pose proof Wl as (Hwlp & Hflp & _).
      destruct (anc_under p false lp np) as (Hwa & Hfa & Cpa & Lpa & Bap & Cal & Lal & Bla & Can & Lan & Bna); auto; try congruence.
      cbv iota beta. set (anc := closest_ancestor lp np) in *.
      assert (Hf1 : (2 * length rest + 3 <= fuel)%nat).
      { cbn [length] in Hfuel. destruct Hfuel as [H|[H [_ Hc]]]; [lia|]. cbn [fst] in Hc. rewrite Hbit in Hc. discriminate. }
      destruct (IH anc [] (Node lp ld ll lr) Leaf ((np, nd) :: rest)) as ([inter input1] & E1 & P1 & L1 & S1).
      { split.
        - split; [exact Hwa|]. split; [congruence|]. split; [intros a []|].
          split; [cbn [child_ok]; auto|]. split; [exact I|]. split; [exact Wl | exact I].
        - split; [assumption|]. split; [assumption|].
          cbn [fst]. split; [apply covers_lt; assumption|]. split; [split; assumption | exact I]. }
      { right. split; [cbn [length]; lia|]. cbn [consuming fst]. rewrite Bna. auto. }
      unfold pgroup in *. rewrite E1. destruct P1 as (l1 & r1 & c1 & Ei & Wi & Ein1 & G1 & N1). cbn [fst snd] in *.
      assert (S1' : (length input1 < length ((np, nd) :: rest))%nat).
      { apply S1. cbn [consuming fst]. rewrite Bna. auto. }
      destruct (IH p d inter Leaf input1) as (res2 & E2 & P2 & L2 & _).
      { split.
        - subst inter. repeat split; auto; apply Wi.
        - split; [apply (forall_app_r _ c1); rewrite <- Ein1; exact Hgw0|].
          split; [apply (sorted_app_r _ c1); rewrite <- Ein1; exact Hs0|].
          destruct input1 as [|h tl]; [exact I|].
          destruct (Later c1 h tl Ein1) as (Hgh & Hle & Hph).
          split; [assumption|]. split; [|exact I].
          subst inter. split; [|exact N1].
          assert (Han : prefix_ltb anc np = true) by (apply covers_lt; assumption).
          destruct Hle as [->|Hle]; [exact Han | eapply prefix_ltb_trans; [exact Han | exact Hle]]. }
      { left. cbn [length] in S1'. lia. }
      exists res2. split; [exact E2|]. split.
      * destruct P2 as (l' & r' & c2 & Et & Wt' & Ein & G2 & N2).
        exists l', r', (c1 ++ c2). split; [assumption|]. split; [assumption|].
        split; [rewrite Ein1, Ein, app_assoc; reflexivity|]. split; [|assumption].
        rewrite G2. subst inter. cbn [tree_groups] in *. rewrite G1. cbn [app]. rewrite ?app_nil_r, <- !app_assoc. reflexivity.
      * split; [lia | intros _; lia].
Qed.

(** ** The builder yields a well-formed tree that holds exactly its input, in order *)
Lemma default_wf f : wf_prefix (default_pfx f) /\ p_fam (default_pfx f) = f.
Proof. destruct f; split; reflexivity. Qed.

Theorem build_correct f input : Forall (gwf f) input -> StronglySorted glt input ->
  exists t, build f input = Some t /\ wf_tree f t /\ tree_groups t = input.
Proof.
  intros Hgw Hs. destruct input as [|[p0 d0] rest].
  { exists Leaf. repeat split. }
  unfold build.
  pose proof Hgw as Hgw0. apply Forall_cons_iff in Hgw0. destruct Hgw0 as [(Hw0 & Hf0 & Hd0 & Hda0) Hgrest].
  pose proof Hs as Hs0. apply StronglySorted_inv in Hs0. destruct Hs0 as [Hsrest Hall]. cbn [fst snd] in *.
  destruct (default_wf f) as [Hwd Hfd].
  assert (Fin : forall p d l r inp res, post f p d l r inp res -> p = default_pfx f ->
                 Forall (gwf f) inp -> snd res = []).
  { intros p d l r inp [t inp'] (l' & r' & c & _ & _ & Ein & _ & Hn) -> Hg. cbn [fst snd] in *.
    destruct inp' as [|h tl]; [reflexivity|]. exfalso.
    assert (X : gwf f h). { rewrite Ein in Hg. apply forall_app_r in Hg. apply Forall_cons_iff in Hg. tauto. }
    destruct X as (Hwh & Hfh & _). rewrite default_covers in Hn by assumption. discriminate. }
  destruct (prefix_eqb p0 (default_pfx f)) eqn:E0.
  - apply prefix_eqb_eq in E0.
    destruct (process_node_correct f (build_fuel ((p0, d0) :: rest)) p0 d0 Leaf Leaf rest) as (res & E & P & _).
    { split; [repeat split; auto|]. split; [assumption|]. split; [assumption|].
      destruct rest as [|h tl]; [exact I|]. apply Forall_cons_iff in Hall. destruct Hall as [Hh _]. repeat split; auto. }
    { left. unfold build_fuel. cbn [length]. lia. }
    unfold pgroup in *. rewrite E. destruct res as [t inp'].
    pose proof (Fin _ _ _ _ _ _ P E0 Hgrest) as En. cbn [snd] in En. subst inp'.
    destruct P as (l' & r' & c & Et & Wt & Ein & G & _). cbn [fst snd] in *.
    exists t. split; [reflexivity|]. split; [assumption|].
    rewrite G. cbn [tree_groups]. rewrite app_nil_r in Ein. subst c.
    destruct d0; [contradiction | reflexivity].
  - destruct (process_node_correct f (build_fuel ((p0, d0) :: rest)) (default_pfx f) [] Leaf Leaf ((p0, d0) :: rest))
      as (res & E & P & _).
    { split; [repeat split; auto; intros a []|]. split; [assumption|]. split; [assumption|].
      cbn [fst]. split; [|split; exact I].
      apply prefix_ltb_iff. cbn [default_pfx p_addr p_len].
      destruct (N.eq_dec (p_addr p0) 0) as [Ea|]; [|left; lia]. right. split; [auto|].
      destruct (N.eq_dec (p_len p0) 0) as [El|]; [|lia]. exfalso.
      assert (X : p0 = default_pfx f) by (destruct p0; cbn in *; subst; reflexivity).
      apply prefix_eqb_eq in X. congruence. }
    { left. unfold build_fuel. lia. }
    unfold pgroup in *. rewrite E. destruct res as [t inp'].
    pose proof (Fin _ _ _ _ _ _ P eq_refl Hgw) as En. cbn [snd] in En. subst inp'.
    destruct P as (l' & r' & c & Et & Wt & Ein & G & _). cbn [fst snd] in *.
    exists t. split; [reflexivity|]. split; [assumption|].
    rewrite G. cbn [tree_groups app]. rewrite app_nil_r in Ein. auto.
Qed.

(** ** [trie_lookup_exact]: the lookup in the built tree returns exactly the stored sets whose prefix
    the query covers, in prefix order. *)
Theorem trie_lookup_exact f input q :
  Forall (gwf f) input -> StronglySorted glt input -> wf_prefix q -> p_fam q = f ->
  exists t, build f input = Some t
            /\ tree_lookup t q = map snd (filter (fun g => covers q (fst g)) input).
Proof.
  intros Hgw Hs Hq Hf. destruct (build_correct f input Hgw Hs) as (t & Eb & Wt & G).
  exists t. split; [assumption|]. rewrite (lookup_wf f t q Wt Hq Hf), G. reflexivity.
Qed.

Theorem build_total f input : Forall (gwf f) input -> StronglySorted glt input -> build f input <> None.
Proof. intros Hgw Hs. destruct (build_correct f input Hgw Hs) as (t & Eb & _). congruence. Qed.

(** * From the loaded announcements to the builder's input, and back to the specification of [Analyser.v] *)
Definition aleb (a b : ann) : Prop := ann_leb a b = true.

Lemma ann_leb_iff a b :
  ann_leb a b = true <->
  (p_addr (a_pfx a) < p_addr (a_pfx b) \/ (p_addr (a_pfx a) = p_addr (a_pfx b) /\ p_len (a_pfx a) < p_len (a_pfx b)))
  \/ (p_addr (a_pfx a) = p_addr (a_pfx b) /\ p_len (a_pfx a) = p_len (a_pfx b) /\ a_asn a <= a_asn b).
Proof.
  unfold ann_leb. rewrite orb_true_iff, prefix_ltb_iff, !andb_true_iff, !N.eqb_eq, N.leb_le. tauto.
Qed.

Lemma ann_leb_total a b : ann_leb a b = false -> ann_leb b a = true.
Proof.
  intros H. apply ann_leb_iff. destruct (ann_leb a b) eqn:E; [discriminate|].
  assert (N : ~ (ann_leb a b = true)) by congruence. rewrite ann_leb_iff in N. lia.
Qed.

Lemma ann_leb_trans a b c : aleb a b -> aleb b c -> aleb a c.
Proof. unfold aleb. rewrite !ann_leb_iff. lia. Qed.

Lemma ann_insert_sorted a l : StronglySorted aleb l -> StronglySorted aleb (ann_insert a l).
Proof.
  induction l as [|x r IH]; intros Hs; cbn [ann_insert].
  - constructor; constructor.
  - apply StronglySorted_inv in Hs. destruct Hs as [Hr Hx].
    destruct (ann_leb a x) eqn:E.
    + constructor; [constructor; assumption|]. constructor; [exact E|].
      rewrite Forall_forall in *. intros y Hy. eapply ann_leb_trans; [exact E | apply Hx; assumption].
    + constructor; [apply IH; assumption|]. rewrite Forall_forall in *. intros y Hy.
      apply ann_insert_In in Hy. destruct Hy as [->|Hy]; [apply ann_leb_total; assumption | apply Hx; assumption].
Qed.

Lemma ann_sort_sorted l : StronglySorted aleb (ann_sort l).
Proof.
  induction l as [|a l IH]; [constructor|]. cbn [ann_sort fold_right]. fold (ann_sort l). apply ann_insert_sorted; assumption.
Qed.

Lemma ann_insert_head a l : (forall y, In y l -> aleb a y) -> ann_insert a l = a :: l.
Proof. intros H. destruct l as [|x r]; [reflexivity|]. cbn [ann_insert]. rewrite (H x) by (left; reflexivity). reflexivity. Qed.

Lemma filter_insert P a l : StronglySorted aleb l ->
  filter P (ann_insert a l) = if P a then ann_insert a (filter P l) else filter P l.
Proof.
  induction l as [|x r IH]; intros Hs.
  - cbn. destruct (P a); reflexivity.
  - apply StronglySorted_inv in Hs. destruct Hs as [Hr Hx]. cbn [ann_insert].
    destruct (ann_leb a x) eqn:E.
    + cbn [filter]. destruct (P a); [|reflexivity].
      symmetry. apply ann_insert_head. intros y Hy.
      assert (Hy' : In y (x :: r)) by (destruct (P x); [destruct Hy as [<-|Hy]; [left; reflexivity | right; apply filter_In in Hy; tauto] | right; apply filter_In in Hy; tauto]).
      destruct Hy' as [<-|Hy']; [exact E|]. rewrite Forall_forall in Hx. eapply ann_leb_trans; [exact E | apply Hx; assumption].
    + cbn [filter]. rewrite (IH Hr). destruct (P x), (P a); cbn [ann_insert]; rewrite ?E; reflexivity.
Qed.

Lemma filter_sort P l : ann_sort (filter P l) = filter P (ann_sort l).
Proof.
  induction l as [|a l IH]; [reflexivity|].
  cbn [ann_sort fold_right filter]. fold (ann_sort l). rewrite filter_insert by apply ann_sort_sorted.
  destruct (P a); [|exact IH]. cbn [ann_sort fold_right]. fold (ann_sort (filter P l)). rewrite IH. reflexivity.
Qed.

Definition ghead_ok (Q : prefix -> bool) (g : list ann) : bool :=
  match g with a :: _ => Q (a_pfx a) | [] => false end.

Lemma group_head b r : exists g gs, group (b :: r) = (b :: g) :: gs.
Proof.
  rewrite group_cons. destruct (group r) as [|[|c g] gs]; [eexists; eexists; reflexivity | eexists; eexists; reflexivity |].
  destruct (prefix_eqb (a_pfx b) (a_pfx c)); eexists; eexists; reflexivity.
Qed.

(** In a sorted single-family list, an element whose prefix differs from the next one's differs from all later ones. *)
Lemma sorted_prefix_distinct f a b r c :
  Forall (fun x => p_fam (a_pfx x) = f) (a :: b :: r) -> StronglySorted aleb (a :: b :: r) ->
  a_pfx a <> a_pfx b -> In c (b :: r) -> a_pfx a <> a_pfx c.
Proof.
  intros Hf Hs Hne Hc Heq.
  apply StronglySorted_inv in Hs. destruct Hs as [Hs Ha]. apply StronglySorted_inv in Hs. destruct Hs as [_ Hb].
  rewrite Forall_forall in *.
  assert (Hab : aleb a b) by (apply Ha; left; reflexivity).
  assert (Hbc : b = c \/ aleb b c) by (destruct Hc as [->|Hc]; [left; reflexivity | right; apply Hb; assumption]).
  unfold aleb in *. rewrite ann_leb_iff in Hab.
  assert (Fa : p_fam (a_pfx a) = f) by (apply Hf; left; reflexivity).
  assert (Fb : p_fam (a_pfx b) = f) by (apply Hf; right; left; reflexivity).
  assert (Strict : p_addr (a_pfx a) < p_addr (a_pfx b) \/ (p_addr (a_pfx a) = p_addr (a_pfx b) /\ p_len (a_pfx a) < p_len (a_pfx b))).
  { destruct Hab as [|(E1 & E2 & _)]; [assumption|]. exfalso. apply Hne.
    destruct (a_pfx a), (a_pfx b); cbn in *; congruence. }
  destruct Hbc as [->|Hbc]; [rewrite Heq in Strict; lia|].
  rewrite ann_leb_iff in Hbc. rewrite Heq in Strict. lia.
Qed.

Lemma filter_cons_eq {A} (f : A -> bool) x l : filter f (x :: l) = if f x then x :: filter f l else filter f l.
Proof. reflexivity. Qed.

Lemma group_filter f Q L : Forall (fun a => p_fam (a_pfx a) = f) L -> StronglySorted aleb L ->
  group (filter (fun a => Q (a_pfx a)) L) = filter (ghead_ok Q) (group L).
Proof.
  induction L as [|a r IH]; intros Hf Hs; [reflexivity|].
  pose proof Hf as Hf0. pose proof Hs as Hs0.
  apply Forall_cons_iff in Hf. destruct Hf as [_ Hfr]. apply StronglySorted_inv in Hs. destruct Hs as [Hsr _].
  specialize (IH Hfr Hsr). cbn [filter].
  destruct (Q (a_pfx a)) eqn:Ea.
  - rewrite group_cons, IH. rewrite (group_cons a r).
    destruct r as [|b r'].
    + cbn. rewrite Ea. reflexivity.
    + destruct (group_head b r') as (g & gs & Eg). rewrite Eg.
      destruct (prefix_eqb (a_pfx a) (a_pfx b)) eqn:Eab.
      * apply prefix_eqb_eq in Eab. cbn [filter ghead_ok]. rewrite <- Eab, Ea.
        replace (prefix_eqb (a_pfx a) (a_pfx b)) with true by (symmetry; apply prefix_eqb_eq; assumption).
        reflexivity.
      * rewrite (filter_cons_eq (ghead_ok Q) [a]). cbn [ghead_ok]. rewrite Ea.
        destruct (filter (ghead_ok Q) ((b :: g) :: gs)) as [|[|c g'] gs'] eqn:Ef; [reflexivity | reflexivity |].
        destruct (prefix_eqb (a_pfx a) (a_pfx c)) eqn:Eac; [|reflexivity]. exfalso.
        apply prefix_eqb_eq in Eac.
        assert (Hc : In c (b :: r')).
        { rewrite <- (concat_group (b :: r')), Eg. apply in_concat. exists (c :: g'). split; [|left; reflexivity].
          assert (X : In (c :: g') (filter (ghead_ok Q) ((b :: g) :: gs))) by (rewrite Ef; left; reflexivity).
          apply filter_In in X. tauto. }
        revert Eac. apply (sorted_prefix_distinct f a b r' c); auto.
        intros E. apply prefix_eqb_eq in E. congruence.
  - rewrite IH. rewrite (group_cons a r).
    destruct (group r) as [|[|b g] gs].
    + cbn. rewrite Ea. reflexivity.
    + cbn [filter ghead_ok]. rewrite Ea. reflexivity.
    + destruct (prefix_eqb (a_pfx a) (a_pfx b)) eqn:Eab.
      * apply prefix_eqb_eq in Eab. cbn [filter ghead_ok]. rewrite <- Eab, Ea. reflexivity.
      * cbn [filter ghead_ok]. rewrite Ea. reflexivity.
Qed.

(** The builder's input computed from the loaded announcements of one family is well formed and sorted. *)
Definition pg (G : list (list ann)) : list pgroup :=
  flat_map (fun g => match g with [] => [] | a :: _ => [(a_pfx a, g)] end) G.

Lemma pgroups_pg store : pgroups store = pg (group (ann_sort store)).
Proof. reflexivity. Qed.

Lemma pg_gwf f G :
  Forall (fun g => g <> [] /\ uniform g) G -> (forall g a, In g G -> In a g -> wf_prefix (a_pfx a) /\ p_fam (a_pfx a) = f) ->
  Forall (gwf f) (pg G).
Proof.
  intros HU HW. apply Forall_forall. intros x Hx. unfold pg in Hx. apply in_flat_map in Hx. destruct Hx as (g & Hg & Hx).
  rewrite Forall_forall in HU. destruct (HU g Hg) as [Hne [p Hp]].
  destruct g as [|a g']; [destruct Hx|]. destruct Hx as [<-|[]]. cbn [fst snd].
  destruct (HW _ a Hg (or_introl eq_refl)) as [Hw Hf]. split; [assumption|]. split; [assumption|]. split; [discriminate|].
  intros b Hb. rewrite (Hp b Hb), (Hp a (or_introl eq_refl)). reflexivity.
Qed.

Lemma pg_sorted f L : Forall (fun a => p_fam (a_pfx a) = f) L -> StronglySorted aleb L ->
  StronglySorted glt (pg (group L)).
Proof.
  induction L as [|a r IH]; intros Hf Hs; [constructor|].
  pose proof Hf as Hf0. pose proof Hs as Hs0.
  apply Forall_cons_iff in Hf. destruct Hf as [Hfa Hfr]. apply StronglySorted_inv in Hs. destruct Hs as [Hsr Har].
  specialize (IH Hfr Hsr). rewrite group_cons.
  destruct r as [|b r'].
  - cbn. constructor; constructor.
  - destruct (group_head b r') as (g & gs & Eg). rewrite Eg in *. cbn [pg flat_map app] in IH.
    apply StronglySorted_inv in IH. destruct IH as [IHs IHb]. cbn [fst] in IHb.
    destruct (prefix_eqb (a_pfx a) (a_pfx b)) eqn:Eab.
    + apply prefix_eqb_eq in Eab. cbn [pg flat_map app]. constructor; [assumption|].
      unfold glt in *. cbn [fst] in *. rewrite Eab. exact IHb.
    + cbn [pg flat_map app]. constructor; [constructor; assumption|].
      assert (Hab : prefix_ltb (a_pfx a) (a_pfx b) = true).
      { rewrite Forall_forall in Har. specialize (Har b (or_introl eq_refl)). unfold aleb in Har.
        rewrite ann_leb_iff in Har. apply prefix_ltb_iff. destruct Har as [|(E1 & E2 & _)]; [assumption|]. exfalso.
        assert (X : a_pfx a = a_pfx b).
        { rewrite Forall_forall in Hfr. specialize (Hfr b (or_introl eq_refl)).
          destruct (a_pfx a), (a_pfx b); cbn in *; congruence. }
        apply prefix_eqb_eq in X. congruence. }
      constructor; [exact Hab|]. rewrite Forall_forall in *. intros x Hx. unfold glt in *. cbn [fst] in *.
      eapply prefix_ltb_trans; [exact Hab | apply IHb; assumption].
Qed.

Lemma pg_filter Q G : map snd (filter (fun x => Q (fst x)) (pg G)) = filter (ghead_ok Q) G.
Proof.
  induction G as [|g G IH]; [reflexivity|]. cbn [pg flat_map]. fold (pg G). rewrite filter_app, map_app, IH.
  destruct g as [|a g']; [reflexivity|]. cbn [filter fst ghead_ok]. destruct (Q (a_pfx a)); reflexivity.
Qed.

(** ** Level 2 = level 1: the tree built from the loaded announcements answers [eq_or_more_specific]
    exactly as the specification used by the analyser model. *)
Theorem trie_agrees_with_spec store q : wf_store store -> wf_prefix q ->
  trie_eq_or_more_specific store q = Some (eq_or_more_specific store q).
Proof.
  intros Hst Hq. unfold trie_eq_or_more_specific. set (f := p_fam q). set (S := fam_store f store).
  assert (HS : forall a, In a S -> wf_prefix (a_pfx a) /\ p_fam (a_pfx a) = f).
  { intros a Ha. unfold S, fam_store in Ha. apply filter_In in Ha. destruct Ha as [Ha Hf]. apply fam_eqb_eq in Hf. auto. }
  assert (Hfam : Forall (fun a => p_fam (a_pfx a) = f) (ann_sort S)).
  { apply Forall_forall. intros a Ha. apply (proj1 (ann_sort_In a S)) in Ha. destruct (HS a Ha); assumption. }
  destruct (trie_lookup_exact f (pgroups S) q) as (t & Eb & El); auto.
  - rewrite pgroups_pg. apply pg_gwf; [apply group_uniform|].
    intros g a Hg Ha. apply HS. apply (proj1 (ann_sort_In a S)). rewrite <- (concat_group (ann_sort S)). apply in_concat. exists g; auto.
  - rewrite pgroups_pg. apply (pg_sorted f); [assumption | apply ann_sort_sorted].
  - rewrite Eb. f_equal. rewrite El. rewrite pgroups_pg, (pg_filter (covers q)).
    rewrite <- (group_filter f (covers q)) by (assumption || apply ann_sort_sorted).
    rewrite <- filter_sort. unfold eq_or_more_specific. f_equal. f_equal.
    unfold S, fam_store. rewrite filter_filter. apply filter_ext_in. intros a _.
    destruct (covers q (a_pfx a)) eqn:E; [|apply andb_false_r].
    apply covers_fam in E. fold f in E. rewrite <- E, fam_eqb_refl. reflexivity.
Qed.

(** * Non-vacuity *)
Example trie_agrees_with_spec_nonvacuous :
  wf_store ex_store /\ wf_prefix (mkP V4 167772160 16)
  /\ trie_eq_or_more_specific ex_store (mkP V4 167772160 16)
     = Some [[ex_a1]; [mkAnn 64496 (mkP V4 167772160 25)]; [ex_a2]; [mkAnn 64498 (mkP V4 167774208 24)]].
Proof. split; [exact ex_wf_store|]. split; reflexivity. Qed.

Example trie_lookup_exact_nonvacuous :
  Forall (gwf V4) (pgroups (fam_store V4 ex_store)) /\ StronglySorted glt (pgroups (fam_store V4 ex_store))
  /\ length (pgroups (fam_store V4 ex_store)) = 6%nat
  /\ exists t, build V4 (pgroups (fam_store V4 ex_store)) = Some t /\ wf_tree V4 t
               /\ match t with Node p [] (Node _ _ _ _) Leaf => p = default_pfx V4 | _ => False end.
Proof.
  assert (HS : forall a, In a (fam_store V4 ex_store) -> wf_prefix (a_pfx a) /\ p_fam (a_pfx a) = V4).
  { intros a Ha. apply filter_In in Ha. destruct Ha as [Ha Hf]. apply fam_eqb_eq in Hf. split; [apply ex_wf_store; assumption | assumption]. }
  assert (G : Forall (gwf V4) (pgroups (fam_store V4 ex_store))).
  { rewrite pgroups_pg. apply pg_gwf; [apply group_uniform|]. intros g a Hg Ha. apply HS.
    apply (proj1 (ann_sort_In a _)). rewrite <- (concat_group (ann_sort _)). apply in_concat. exists g; auto. }
  assert (S : StronglySorted glt (pgroups (fam_store V4 ex_store))).
  { rewrite pgroups_pg. apply (pg_sorted V4); [|apply ann_sort_sorted].
    apply Forall_forall. intros a Ha. apply (proj1 (ann_sort_In a _)) in Ha. destruct (HS a Ha); assumption. }
  split; [exact G|]. split; [exact S|]. split; [reflexivity|].
  destruct (build_correct V4 _ G S) as (t & Eb & Wt & _). exists t. split; [exact Eb|]. split; [exact Wt|].
  vm_compute in Eb. inversion Eb; subst t. reflexivity.
Qed.
