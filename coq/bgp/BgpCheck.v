(** Correspondence checker and executable oracle for C17.

    The harness runs [BgpAnalyser::analyse] and [::suggest] of the real code on
    generated ROAs / announcements / resources and writes one [case] per run.
    - [agrees]: the model ([Analyser.analyse], [Analyser.suggest]) yields the same
      report and the same suggestion (entries and the lists inside them compared as
      multisets, because the code sorts them before returning);
    - [c17_ok]: the executable form of the C17 theorems, evaluated on what the
      *implementation* reported, against the RFC 6811 function [Rov.rov] applied by
      brute force to every announcement in scope. *)
From KV Require Import base.Tac bgp.Prefix bgp.Rov bgp.Analyser.
Open Scope N_scope.

Record case := mkCase {
  c_roas : list croa;                 (* ROAs passed to analyse/suggest *)
  c_store : option (list ann);        (* announcements loaded into the analyser; None = no RISwhois data *)
  c_held : resources;                 (* resources_held *)
  c_limit : option resources;         (* limited_scope *)
  c_report : option (list entry);     (* observed BgpAnalysisReport; None = panic *)
  c_sugg : option suggestion }.       (* observed BgpAnalysisSuggestion; None = panic *)

(** ** Canonical encodings (keys are lists of numbers, compared lexicographically) *)
Definition key := list N.

Fixpoint lex_leb (a b : key) : bool :=
  match a, b with
  | [], _ => true
  | _ :: _, [] => false
  | x :: a', y :: b' => if x <? y then true else if y <? x then false else lex_leb a' b'
  end.

Fixpoint merge (a : list key) : list key -> list key :=
  match a with
  | [] => fun b => b
  | x :: a' =>
      fix inner (b : list key) : list key :=
        match b with
        | [] => a
        | y :: b' => if lex_leb x y then x :: merge a' b else y :: inner b'
        end
  end.
Fixpoint merge_pairs (l : list (list key)) : list (list key) :=
  match l with a :: b :: r => merge a b :: merge_pairs r | _ => l end.
Fixpoint msort_iter (fuel : nat) (l : list (list key)) : list key :=
  match fuel with
  | O => concat l
  | S f => match l with [] => [] | [x] => x | _ => msort_iter f (merge_pairs l) end
  end.
Definition msort (l : list key) : list key := msort_iter (length l) (map (fun x => [x]) l).

Definition key_eqb (a b : key) : bool := list_eqb N.eqb a b.
Definition mset_eqb (a b : list key) : bool := list_eqb key_eqb (msort a) (msort b).
Definition key_mem (k : key) (l : list key) : bool := existsb (key_eqb k) l.

Definition fam_code (f : fam) : N := match f with V4 => 4 | V6 => 6 end.
Definition enc_prefix (p : prefix) : key := [fam_code (p_fam p); p_addr p; p_len p].
Definition enc_ann (a : ann) : key := enc_prefix (a_pfx a) ++ [a_asn a].
Definition enc_payload (pl : payload) : key :=
  enc_prefix (pl_pfx pl) ++ [pl_asn pl; match pl_max pl with None => 0 | Some m => m + 1 end].
Definition enc_croa (r : croa) : key := enc_payload (r_pl r) ++ [r_tag r].
Definition enc_list (ks : list key) : key := lenN ks :: concat (msort ks).
Definition enc_subject (s : subject) : key :=
  match s with SRoa r => 0 :: enc_croa r | SAnn a => 1 :: enc_ann a end.
Definition enc_entry (e : entry) : key :=
  state_code (e_state e) :: enc_subject (e_subj e)
  ++ match e_allowed_by e with None => [0] | Some pl => 1 :: enc_payload pl end
  ++ enc_list (map enc_payload (e_disallowed_by e)) ++ enc_list (map enc_payload (e_redundant_by e))
  ++ enc_list (map enc_ann (e_authorizes e)) ++ enc_list (map enc_ann (e_disallows e)).
Definition enc_suggestion (s : suggestion) : key :=
  enc_list (map enc_croa (s_stale s)) ++ enc_list (map enc_ann (s_not_found s))
  ++ enc_list (map enc_ann (s_invalid_asn s)) ++ enc_list (map enc_ann (s_invalid_length s))
  ++ enc_list (map (fun '(r, new) => enc_croa r ++ enc_list (map enc_payload new)) (s_too_permissive s))
  ++ enc_list (map enc_croa (s_disallowing s)) ++ enc_list (map enc_croa (s_redundant s))
  ++ enc_list (map enc_croa (s_not_held s)) ++ enc_list (map enc_croa (s_as0_redundant s))
  ++ enc_list (map enc_croa (s_keep s)) ++ enc_list (map enc_ann (s_keep_disallowing s)).

(** ** Sanity of the harness abstraction of a [ResourceSet]: the prefix lists tile the blocks exactly. *)
Fixpoint tiles (f : fam) (ps : list prefix) (rs : list (N * N)) (pos : option N) : bool :=
  match ps with
  | [] => match rs, pos with [], None => true | _, _ => false end
  | p :: ps' =>
      fam_eqb (p_fam p) f && wf_prefixb p &&
      match rs with
      | [] => false
      | (lo, hi) :: rs' =>
          let start := match pos with Some x => x | None => lo end in
          (min128 p =? start)
          && (if max128 p =? hi then tiles f ps' rs' None
              else (max128 p <? hi) && tiles f ps' rs (Some (max128 p + 1)))
      end
  end.
Definition resources_ok (rs : resources) : bool :=
  tiles V4 (rs_v4 rs) (rs_r4 rs) None && tiles V6 (rs_v6 rs) (rs_r6 rs) None.

Definition wf_case (c : case) : bool :=
  resources_ok (c_held c) && match c_limit c with Some l => resources_ok l | None => true end
  && forallb (fun r => wf_prefixb (r_pfx r)) (c_roas c)
  && match c_store c with Some st => forallb (fun a => wf_prefixb (a_pfx a)) st | None => true end.

(** ** Correspondence: model = implementation (the harness links the dev profile: overflow checks on) *)
Definition agrees (c : case) : bool :=
  wf_case c
  && match analyse true (c_roas c) (c_held c) (c_limit c) (c_store c), c_report c with
     | Some m, Some o => mset_eqb (map enc_entry m) (map enc_entry o)
     | None, None => true
     | _, _ => false
     end
  && match suggest true (c_roas c) (c_held c) (c_limit c) (c_store c), c_sugg c with
     | Some m, Some o => key_eqb (enc_suggestion m) (enc_suggestion o)
     | None, None => true
     | _, _ => false
     end.

(** ** Executable oracle: the C17 theorems on the observed report *)
Definition vrp_of (r : croa) : vrp := mkVrp (r_pfx r) (r_max r) (r_asn r).
Definition route_of (a : ann) : route := mkRoute (a_pfx a) (a_asn a).
(** The RFC 6811 state a krill validity stands for. *)
Definition class_of (v : validity) : rov_state :=
  match v with VValid _ => Valid | VNotFound => NotFound | VInvalidLength | VInvalidAsn | VDisallowed => Invalid end.

(** The RFC 6811 state an announcement entry of the report stands for ([None]: not an announcement state). *)
Definition state_class (s : state) : option rov_state :=
  match s with
  | AnnValid => Some Valid
  | AnnInvalidLength | AnnInvalidAsn | AnnDisallowed => Some Invalid
  | AnnNotFound => Some NotFound
  | _ => None
  end.

(** "Within the CA's resources" / within the requested scope: some scope prefix covers the announced prefix. *)
Definition in_scope (sc : resources) (a : ann) : Prop :=
  exists p, In p (rs_v4 sc ++ rs_v6 sc) /\ covered_pfx p (a_pfx a) = true.

(** Announcements in scope, by brute force with the RFC notion of "covered". *)
Definition spec_scoped (store : list ann) (scope : list prefix) : list ann :=
  flat_map (fun p => filter (fun a => covered_pfx p (a_pfx a)) store) scope.

Definition rov_code (s : rov_state) : N := match s with Valid => 0 | Invalid => 1 | NotFound => 2 end.
Definition kind_code (k : invalid_kind) : N := match k with KLength => 0 | KAsn => 1 | KAs0 => 2 end.

(** Classification of one announcement by RFC 6811: (state, kind of invalid, covering ROAs). *)
Record cls := mkCls { k_ann : ann; k_rov : rov_state; k_kind : invalid_kind; k_cov : list croa }.
Definition classify (held : list croa) (a : ann) : cls :=
  let vrps := map vrp_of held in
  mkCls a (rov vrps (route_of a)) (invalid_kind_of vrps (route_of a))
        (filter (fun r => covered (vrp_of r) (route_of a)) held).

Definition is_rov (s : rov_state) (k : cls) : bool := rov_code (k_rov k) =? rov_code s.
Definition is_kind (i : invalid_kind) (k : cls) : bool := kind_code (k_kind k) =? kind_code i.
Definition nil_b {A} (l : list A) : bool := match l with [] => true | _ => false end.
Definition lists_empty (e : entry) : bool :=
  nil_b (e_disallowed_by e) && nil_b (e_redundant_by e) && nil_b (e_authorizes e) && nil_b (e_disallows e).

(** An announcement entry says what RFC 6811 says (origin AS0 excepted, see F17a). *)
Definition ann_entry_ok (held : list croa) (e : entry) (a : ann) : bool :=
  if a_asn a =? 0 then true else
  let k := classify held a in
  let dis_ok := mset_eqb (map enc_payload (e_disallowed_by e)) (map (fun r => enc_payload (r_pl r)) (k_cov k))
                && nil_b (e_redundant_by e) && nil_b (e_authorizes e) && nil_b (e_disallows e)
                && match e_allowed_by e with None => true | Some _ => false end in
  match e_state e with
  | AnnValid =>
      is_rov Valid k && lists_empty e
      && match e_allowed_by e with
         | Some pl => existsb (fun r => payload_eqb (r_pl r) pl && matched (vrp_of r) (route_of a)) held
         | None => false
         end
  | AnnInvalidLength => is_rov Invalid k && is_kind KLength k && dis_ok
  | AnnInvalidAsn => is_rov Invalid k && is_kind KAsn k && dis_ok
  | AnnDisallowed => is_rov Invalid k && is_kind KAs0 k && dis_ok
  | AnnNotFound => is_rov NotFound k && lists_empty e && match e_allowed_by e with None => true | Some _ => false end
  | _ => false
  end.

Definition nz (l : list ann) : list ann := filter (fun a => negb (a_asn a =? 0)) l.

(** The authorised / disallowed sets that validation attributes to a held ROA. *)
Definition spec_authorizes (r : croa) (ks : list cls) : list ann :=
  map k_ann (filter (fun k => matched (vrp_of r) (route_of (k_ann k))) ks).
Definition spec_disallows (r : croa) (ks : list cls) : list ann :=
  map k_ann (filter (fun k => covered (vrp_of r) (route_of (k_ann k)) && is_rov Invalid k && negb (is_kind KAs0 k)) ks).
Definition spec_covered (r : croa) (ks : list cls) : list ann :=
  map k_ann (filter (fun k => covered (vrp_of r) (route_of (k_ann k))) ks).
Definition spec_others_covering (r : croa) (held : list croa) : list payload :=
  map r_pl (filter (fun o => fam_eqb (p_fam (r_pfx o)) (p_fam (r_pfx r)) && covered_pfx (r_pfx o) (r_pfx r)
                             && negb (payload_eqb (r_pl r) (r_pl o))) held).
Definition spec_others_including (r : croa) (held : list croa) : list payload :=
  filter (fun o => (pl_asn o =? r_asn r) && (r_max r <=? eff_max o)) (spec_others_covering r held).

Definition roa_entry_ok (held_b : croa -> bool) (held : list croa) (ks : list cls) (has_store : bool)
           (e : entry) (r : croa) : bool :=
  match e_allowed_by e with Some _ => false | None => true end && nil_b (e_disallowed_by e) &&
  if negb (held_b r) then (state_code (e_state e) =? state_code RoaNotHeld) && lists_empty e
  else if negb has_store then (state_code (e_state e) =? state_code RoaNoInfo) && lists_empty e
  else
    let au := spec_authorizes r ks in
    let di := spec_disallows r ks in
    let oc := spec_others_covering r held in
    let oi := spec_others_including r held in
    let au_ok := mset_eqb (map enc_ann (e_authorizes e)) (map enc_ann au) in
    let di_ok := mset_eqb (map enc_ann (nz (e_disallows e))) (map enc_ann (nz di)) in
    let by_ok l := mset_eqb (map enc_payload (e_redundant_by e)) (map enc_payload l) in
    match e_state e with
    | RoaAs0 => (r_asn r =? 0) && nil_b oc && by_ok [] && nil_b (e_authorizes e)
                && mset_eqb (map enc_ann (e_disallows e)) (map enc_ann (spec_covered r ks))
    | RoaAs0Redundant => (r_asn r =? 0) && negb (nil_b oc) && by_ok oc && nil_b (e_authorizes e) && nil_b (e_disallows e)
    | RoaRedundant => negb (r_asn r =? 0) && negb (nil_b oi) && by_ok oi && au_ok && di_ok
    | RoaUnseen => negb (r_asn r =? 0) && nil_b oi && by_ok [] && au_ok && di_ok && nil_b (e_disallows e)
    | RoaDisallowing => negb (r_asn r =? 0) && nil_b oi && by_ok [] && au_ok && di_ok && nil_b (e_authorizes e) && negb (nil_b (e_disallows e))
    | RoaSeen | RoaTooPermissive => negb (r_asn r =? 0) && nil_b oi && by_ok [] && au_ok && di_ok && negb (nil_b (e_authorizes e))
    | _ => false
    end.

Definition roa_subjects (es : list entry) : list croa :=
  flat_map (fun e => match e_subj e with SRoa r => [r] | SAnn _ => [] end) es.
Definition ann_subjects (es : list entry) : list ann :=
  flat_map (fun e => match e_subj e with SAnn a => [a] | SRoa _ => [] end) es.

Definition ok_report (c : case) (es : list entry) : bool :=
  let held_b r := is_held_by (r_pl r) (c_held c) in
  let held := roas_held (c_roas c) (c_held c) (c_limit c) in
  let scope := scope_of (c_held c) (c_limit c) in
  let scoped := match c_store c with Some st => spec_scoped st (rs_v4 scope ++ rs_v6 scope) | None => [] end in
  let ks := map (classify held) scoped in
  let has_store := match c_store c with Some _ => true | None => false end in
  (* every announcement in scope is reported exactly once per occurrence, nothing else is *)
  mset_eqb (map enc_ann (ann_subjects es)) (map enc_ann scoped)
  (* every ROA that passes the scope filter is reported exactly once *)
  && mset_eqb (map enc_croa (roa_subjects es)) (map enc_croa (considered (c_roas c) (c_limit c)))
  && forallb (fun e => match e_subj e with
                       | SAnn a => ann_entry_ok held e a
                       | SRoa r => roa_entry_ok held_b held ks has_store e r
                       end) es.

(** Suggestions: the partition is complete, nothing that validates an observed announcement is proposed
    for removal as stale / disallowing, and a ROA proposed as redundant has a replacement. *)
Definition ok_suggest (c : case) (es : list entry) (s : suggestion) : bool :=
  let held := roas_held (c_roas c) (c_held c) (c_limit c) in
  let scope := scope_of (c_held c) (c_limit c) in
  let scoped := match c_store c with Some st => spec_scoped st (rs_v4 scope ++ rs_v6 scope) | None => [] end in
  let validates r := existsb (fun a => matched (vrp_of r) (route_of a)) scoped in
  let mem r l := key_mem (enc_croa r) (map enc_croa l) in
  mset_eqb (map enc_croa (s_stale s ++ map fst (s_too_permissive s) ++ s_disallowing s ++ s_redundant s
                          ++ s_not_held s ++ s_as0_redundant s ++ s_keep s))
           (map enc_croa (roa_subjects es))
  && mset_eqb (map enc_ann (s_not_found s ++ s_invalid_asn s ++ s_invalid_length s ++ s_keep_disallowing s))
              (map enc_ann (flat_map (fun e => match e_subj e, e_state e with
                                               | SAnn _, AnnValid => []
                                               | SAnn a, _ => [a]
                                               | _, _ => [] end) es))
  && forallb (fun r => negb (validates r) || negb (mem r (s_stale s) || mem r (s_disallowing s) || mem r (s_as0_redundant s))) held
  && forallb (fun r => negb (nil_b (spec_others_including r held))) (s_redundant s)
  && forallb (fun '(r, new) => forallb (fun pl => match pl_max pl with
                                                   | None => matched (vrp_of r) (mkRoute (pl_pfx pl) (pl_asn pl))
                                                             && key_mem (enc_ann (mkAnn (pl_asn pl) (pl_pfx pl))) (map enc_ann scoped)
                                                   | Some _ => false end) new) (s_too_permissive s).

(** ** Following the suggestion (oracle [ok_suggest_preserves]; F17e, repaired in /repo by 992adfab)

    The ROA configuration after the updates of [updates_of_suggestion] have been applied, removals first
    ([Routes::process_updates], src/server/ca/roa.rs). Krill normalises payloads to an explicit maximum length
    before applying them (src/server/ca/certauth.rs:2222), so a removal hits every configured payload with the
    same (origin, prefix, effective maximum length). *)
Definition payload_norm_eqb (a b : payload) : bool :=
  (pl_asn a =? pl_asn b) && prefix_eqb (pl_pfx a) (pl_pfx b) && (eff_max a =? eff_max b).
Definition config_after (roas : list croa) (s : suggestion) : list payload :=
  let '(added, removed) := updates_of_suggestion s in
  filter (fun pl => negb (existsb (payload_norm_eqb pl) removed)) (map r_pl roas) ++ added.
Definition vrp_of_payload (pl : payload) : vrp := mkVrp (pl_pfx pl) (eff_max pl) (pl_asn pl).

(** F17b: the announcement is validated by two held payloads that differ only in [max_length = None] versus
    [Some (prefix length)] (they are each other's "including" ROA; a krill CA cannot hold both, it stores
    explicit maximum lengths). *)
Definition twin_match (held : list croa) (a : ann) : bool :=
  existsb (fun r => matched (vrp_of r) (route_of a)
                    && existsb (fun o => payload_norm_eqb (r_pl r) (r_pl o) && negb (payload_eqb (r_pl r) (r_pl o))) held)
          held.

(** Every announcement in scope that is valid now is still valid after the suggestion has been followed. *)
Definition ok_suggest_preserves (c : case) : bool :=
  match c_sugg c, c_store c with
  | Some s, Some st =>
      let held := roas_held (c_roas c) (c_held c) (c_limit c) in
      let scope := scope_of (c_held c) (c_limit c) in
      let before := map vrp_of held in
      let after := map vrp_of_payload (config_after held s) in
      forallb (fun a => negb (rov_code (rov before (route_of a)) =? 0) || twin_match held a
                        || (rov_code (rov after (route_of a)) =? 0))
              (spec_scoped st (rs_v4 scope ++ rs_v6 scope))
  | _, _ => true
  end.

(** When the implementation panicked there must be a ROA for which [nr_of_specific_prefixes] is not computable
    (checked build) and that authorises an announcement at its maximum length. *)
Definition panic_expected (c : case) : bool :=
  let held := roas_held (c_roas c) (c_held c) (c_limit c) in
  let scope := scope_of (c_held c) (c_limit c) in
  let scoped := match c_store c with Some st => spec_scoped st (rs_v4 scope ++ rs_v6 scope) | None => [] end in
  existsb (fun r => match nr_of_specific_prefixes true (r_pl r) with
                    | None => existsb (fun a => (a_asn a =? r_asn r) && covered (vrp_of r) (route_of a)
                                                && (p_len (a_pfx a) =? r_max r)) scoped
                    | Some _ => false end) held.

Definition c17_ok (c : case) : bool :=
  match c_report c, c_sugg c with
  | Some es, Some s => ok_report c es && ok_suggest c es s
  | None, None => panic_expected c
  | _, _ => false
  end.

(** Indices of cases on which a predicate fails. *)
Fixpoint failing_from {A} (f : A -> bool) (i : N) (l : list A) : list N :=
  match l with
  | [] => []
  | x :: r => if f x then failing_from f (i + 1) r else i :: failing_from f (i + 1) r
  end.
Definition failing {A} (f : A -> bool) (base : N) (l : list A) : list N := failing_from f base l.
