(** Proofs about the analyser model: agreement with RFC 6811, exactness of the
    per-ROA authorised / disallowed sets, suggestions. No axioms. *)
From KV Require Import base.Tac bgp.Prefix bgp.Rov bgp.Analyser bgp.BgpCheck.
Open Scope N_scope.

(** * Boolean equalities are equalities *)
Lemma fam_eqb_eq a b : fam_eqb a b = true <-> a = b.
Proof. destruct a, b; simpl; split; congruence. Qed.

Lemma fam_eqb_refl a : fam_eqb a a = true.
Proof. destruct a; reflexivity. Qed.

Lemma prefix_eqb_eq p q : prefix_eqb p q = true <-> p = q.
Proof.
  destruct p as [f a l], q as [g b m]; unfold prefix_eqb; cbn [p_fam p_addr p_len].
  rewrite !andb_true_iff, fam_eqb_eq, !N.eqb_eq. split.
  - intros [[-> ->] ->]; reflexivity.
  - intros H; inversion H; auto.
Qed.

(** * Bit arithmetic: the mask test of the code is the bit-prefix test of the RFC *)
Lemma testbit_high a n i : a < 2 ^ n -> n <= i -> N.testbit a i = false.
Proof.
  intros Ha Hi. destruct (N.eq_dec a 0) as [->|Hz]; [apply N.bits_0|].
  apply N.bits_above_log2. apply N.log2_lt_pow2 in Ha; lia.
Qed.

Lemma shiftr_ones n k : k <= n -> N.shiftr (N.ones n) k = N.ones (n - k).
Proof.
  intros Hk. apply N.bits_inj; intros i.
  rewrite N.shiftr_spec by lia.
  destruct (N.ltb_spec (i + k) n) as [H|H].
  - rewrite !N.ones_spec_low by lia; reflexivity.
  - rewrite !N.ones_spec_high by lia; reflexivity.
Qed.

Lemma land_netmask x n k : x < 2 ^ n -> k <= n ->
  N.land x (N.ldiff (N.ones n) (N.ones k)) = N.shiftl (N.shiftr x k) k.
Proof.
  intros Hx Hk. apply N.bits_inj; intros i.
  rewrite N.land_spec, N.ldiff_spec.
  destruct (N.ltb_spec i k) as [Hik|Hik].
  - rewrite N.shiftl_spec_low by lia.
    rewrite (N.ones_spec_low k i) by lia. cbn [negb]. rewrite !andb_false_r; reflexivity.
  - rewrite N.shiftl_spec_high by lia. rewrite N.shiftr_spec by lia.
    replace (i - k + k) with i by lia.
    rewrite (N.ones_spec_high k i) by lia. cbn [negb]. rewrite andb_true_r.
    destruct (N.ltb_spec i n) as [Hin|Hin].
    + rewrite N.ones_spec_low by lia. apply andb_true_r.
    + rewrite (testbit_high x n i) by assumption. reflexivity.
Qed.

Lemma shiftr_shiftl_same a k : N.shiftr (N.shiftl a k) k = a.
Proof. rewrite N.shiftr_shiftl_l by lia. rewrite N.sub_diag. apply N.shiftl_0_r. Qed.

Lemma wf_prefix_parts p : wf_prefix p ->
  p_len p <= alen (p_fam p) /\ p_addr p < 2 ^ alen (p_fam p)
  /\ p_addr p = N.shiftl (N.shiftr (p_addr p) (host_bits p)) (host_bits p).
Proof.
  unfold wf_prefix, wf_prefixb. rewrite !andb_true_iff, N.leb_le, N.ltb_lt, N.eqb_eq. tauto.
Qed.

(** [RoutePrefix::covers] = RFC 6811 "covered", for well-formed prefixes. *)
Lemma covers_covered_pfx p q : wf_prefix p -> wf_prefix q -> covers p q = covered_pfx p q.
Proof.
  intros Hp Hq.
  destruct (wf_prefix_parts p Hp) as (Hlp & Hap & Hnp).
  destruct (wf_prefix_parts q Hq) as (Hlq & Haq & _).
  unfold covers, covered_pfx, first_bits.
  destruct (fam_eqb (p_fam p) (p_fam q)) eqn:Hf; [|reflexivity].
  apply fam_eqb_eq in Hf. cbn [andb].
  destruct (N.ltb_spec (p_len q) (p_len p)) as [Hl|Hl].
  - destruct (N.leb_spec (p_len p) (p_len q)); [lia|reflexivity].
  - destruct (N.leb_spec (p_len p) (p_len q)) as [_|]; [|lia]. cbn [andb].
    unfold host_bits in Hnp.
    destruct (N.eqb_spec (p_len p) (alen (p_fam p))) as [He|He].
    + rewrite He, N.sub_diag, !N.shiftr_0_r. reflexivity.
    + set (k := alen (p_fam p) - p_len p) in *.
      unfold netmask. rewrite shiftr_ones by lia. fold k.
      rewrite land_netmask; [| rewrite Hf; exact Haq | lia].
      destruct (N.eqb_spec (N.shiftr (p_addr p) k) (N.shiftr (p_addr q) k)) as [E|E].
      * apply N.eqb_eq. rewrite <- E. exact Hnp.
      * apply N.eqb_neq. intros E'. apply E. rewrite E' at 1. apply shiftr_shiftl_same.
Qed.

(** "Covered" is transitive (a ROA that covers a ROA prefix covers what that prefix covers). *)
Lemma covered_pfx_trans o r a : covered_pfx o r = true -> covered_pfx r a = true -> covered_pfx o a = true.
Proof.
  unfold covered_pfx, first_bits. rewrite !andb_true_iff, !fam_eqb_eq, !N.leb_le, !N.eqb_eq.
  intros [[Hf1 Hl1] He1] [[Hf2 Hl2] He2]. repeat split; [congruence | lia |].
  rewrite He1. rewrite <- Hf1 in He2.
  destruct (N.le_gt_cases (p_len r) (alen (p_fam o))) as [Hr|Hr].
  - replace (alen (p_fam o) - p_len o) with ((alen (p_fam o) - p_len r) + (p_len r - p_len o)) by lia.
    rewrite <- !N.shiftr_shiftr. rewrite He2. reflexivity.
  - replace (alen (p_fam o) - p_len r) with 0 in He2 by lia.
    rewrite !N.shiftr_0_r in He2. rewrite He2. reflexivity.
Qed.

(** * Small list lemmas *)
Lemma existsb_ext {A} (f g : A -> bool) l : (forall x, In x l -> f x = g x) -> existsb f l = existsb g l.
Proof.
  induction l as [|a l IH]; simpl; intros H; [reflexivity|].
  rewrite (H a) by auto. rewrite IH; [reflexivity|]. intros; apply H; auto.
Qed.

Lemma existsb_filter {A} (f g : A -> bool) l : existsb f (filter g l) = existsb (fun x => g x && f x) l.
Proof.
  induction l as [|a l IH]; simpl; [reflexivity|].
  destruct (g a); simpl; rewrite IH; reflexivity.
Qed.

Lemma existsb_map {A B} (f : B -> bool) (g : A -> B) l : existsb f (map g l) = existsb (fun x => f (g x)) l.
Proof. induction l as [|a l IH]; simpl; [reflexivity|]. rewrite IH; reflexivity. Qed.

Lemma forallb_map {A B} (f : B -> bool) (g : A -> B) l : forallb f (map g l) = forallb (fun x => f (g x)) l.
Proof. induction l as [|a l IH]; simpl; [reflexivity|]. rewrite IH; reflexivity. Qed.

Lemma filter_map_comm {A B} (f : B -> bool) (g : A -> B) l : filter f (map g l) = map g (filter (fun x => f (g x)) l).
Proof. induction l as [|a l IH]; simpl; [reflexivity|]. destruct (f (g a)); simpl; rewrite IH; reflexivity. Qed.

Lemma filter_ext_in {A} (f g : A -> bool) l : (forall x, In x l -> f x = g x) -> filter f l = filter g l.
Proof.
  induction l as [|a l IH]; simpl; intros H; [reflexivity|].
  rewrite (H a) by auto. rewrite IH; [reflexivity|]. intros; apply H; auto.
Qed.

Lemma filter_nil_iff {A} (f : A -> bool) l : filter f l = [] <-> existsb f l = false.
Proof.
  induction l as [|a l IH]; simpl; [tauto|].
  destruct (f a); simpl; [split; discriminate | exact IH].
Qed.

(** * [validate]: the loop *)
Definition hit (o : ann) (r : croa) : bool :=
  (r_asn r =? a_asn o) && covers (r_pfx r) (a_pfx o) && (p_len (a_pfx o) <=? r_max r).

Lemma validate_loop_hit o cov : forall inv s n, existsb (hit o) cov = true ->
  exists r, In r cov /\ hit o r = true /\ validate_loop o cov inv s n = mkV o (VValid (r_pl r)) [].
Proof.
  induction cov as [|r cov IH]; intros inv s n H; [discriminate|].
  cbn [validate_loop]. fold (hit o r). cbn [existsb] in H.
  destruct (hit o r) eqn:Hh.
  - exists r. split; [left; reflexivity|]. split; [assumption | reflexivity].
  - cbn [orb] in H. destruct (IH (r_pl r :: inv) (s || (r_asn r =? a_asn o)) (n || negb (r_asn r =? 0)) H) as (r' & Hin & Hh' & E).
    exists r'. split; [right; assumption|]. split; assumption.
Qed.

Lemma validate_loop_miss o cov : forall inv s n, existsb (hit o) cov = false ->
  validate_loop o cov inv s n =
  mkV o (if s || existsb (fun r => r_asn r =? a_asn o) cov then VInvalidLength
         else if n || existsb (fun r => negb (r_asn r =? 0)) cov then VInvalidAsn else VDisallowed)
      (rev inv ++ map r_pl cov).
Proof.
  induction cov as [|r cov IH]; intros inv s n H.
  - cbn [validate_loop existsb map]. rewrite !orb_false_r, app_nil_r. reflexivity.
  - cbn [validate_loop]. fold (hit o r). cbn [existsb] in H. apply orb_false_iff in H. destruct H as [Hh H].
    rewrite Hh. rewrite IH by assumption. cbn [existsb map rev]. rewrite <- app_assoc. cbn [app].
    rewrite !orb_assoc. reflexivity.
Qed.

(** * [validate_one] against RFC 6811 *)
Definition wf_roas (roas : list croa) : Prop := forall r, In r roas -> wf_prefix (r_pfx r).

Lemma hit_matched a r : wf_prefix (r_pfx r) -> wf_prefix (a_pfx a) -> a_asn a <> 0 ->
  hit a r = matched (vrp_of r) (route_of a).
Proof.
  intros Hr Ha Hz. unfold hit, matched, covered, vrp_of, route_of. cbn [vrp_pfx vrp_max vrp_asn rt_pfx rt_asn].
  rewrite covers_covered_pfx by assumption.
  destruct (N.eqb_spec (r_asn r) (a_asn a)) as [E|E].
  - rewrite E. rewrite N.eqb_refl. destruct (N.eqb_spec (a_asn a) 0); [contradiction|].
    cbn [negb]. rewrite !andb_true_r. reflexivity.
  - destruct (N.eqb_spec (a_asn a) (r_asn r)); [congruence|]. rewrite andb_false_r. reflexivity.
Qed.

Lemma covers_covered a r : wf_prefix (r_pfx r) -> wf_prefix (a_pfx a) ->
  covers (r_pfx r) (a_pfx a) = covered (vrp_of r) (route_of a).
Proof. intros. unfold covered, vrp_of, route_of; cbn. apply covers_covered_pfx; assumption. Qed.

Lemma hit_covers a r : hit a r = true -> covers (r_pfx r) (a_pfx a) = true.
Proof. unfold hit. rewrite !andb_true_iff. tauto. Qed.

Section ValidateOne.
  Variable roas : list croa.
  Variable a : ann.
  Hypothesis Hwf : wf_roas roas.
  Hypothesis Hwa : wf_prefix (a_pfx a).

  Let cov := filter (fun r => covers (r_pfx r) (a_pfx a)) roas.
  Let vrps := map vrp_of roas.
  Let rt := route_of a.

  Lemma cov_spec r : In r cov <-> In r roas /\ covered (vrp_of r) rt = true.
  Proof.
    unfold cov, rt. rewrite filter_In. split; intros [H1 H2]; split; auto.
    - rewrite <- covers_covered; auto.
    - rewrite covers_covered; auto.
  Qed.

  Lemma existsb_covered : existsb (fun v => covered v rt) vrps = negb (nil_b cov).
  Proof.
    unfold vrps, rt. rewrite existsb_map.
    rewrite (existsb_ext _ (fun r => covers (r_pfx r) (a_pfx a))).
    - destruct cov eqn:E.
      + apply filter_nil_iff in E. rewrite E. reflexivity.
      + cbn. destruct (existsb (fun r => covers (r_pfx r) (a_pfx a)) roas) eqn:E'; [reflexivity|].
        apply filter_nil_iff in E'. unfold cov in E. congruence.
    - intros r Hr. symmetry. apply covers_covered; auto.
  Qed.

  Hypothesis Hnz : a_asn a <> 0.

  Lemma existsb_hit_matched : existsb (hit a) cov = existsb (fun v => matched v rt) vrps.
  Proof.
    unfold cov, vrps, rt. rewrite existsb_filter, existsb_map. apply existsb_ext. intros r Hr.
    rewrite <- hit_matched by auto.
    destruct (hit a r) eqn:Hh; [|apply andb_false_r].
    rewrite (hit_covers _ _ Hh). reflexivity.
  Qed.

  (** The complete description of what [validate_one] returns, in RFC terms. *)
  Lemma validate_one_cases :
    (rov vrps rt = Valid /\ exists r, In r roas /\ matched (vrp_of r) rt = true
                                      /\ validate_one roas a = mkV a (VValid (r_pl r)) [])
    \/ (rov vrps rt = NotFound /\ validate_one roas a = mkV a VNotFound [])
    \/ (rov vrps rt = Invalid /\
        validate_one roas a =
        mkV a (if existsb (fun r => r_asn r =? a_asn a) cov then VInvalidLength
               else if existsb (fun r => negb (r_asn r =? 0)) cov then VInvalidAsn else VDisallowed)
            (map r_pl cov)).
  Proof.
    unfold rov. rewrite <- existsb_hit_matched, existsb_covered.
    unfold validate_one. fold cov.
    destruct (existsb (hit a) cov) eqn:Hh.
    - left. split; [reflexivity|].
      destruct cov as [|c cov'] eqn:Ec; [discriminate|].
      destruct (validate_loop_hit a (c :: cov') [] false false Hh) as (r & Hin & Hr & E).
      exists r. rewrite <- Ec in Hin. apply cov_spec in Hin. destruct Hin as [Hin _].
      split; [assumption|]. split; [unfold rt; rewrite <- hit_matched; auto | exact E].
    - destruct cov as [|c cov'] eqn:Ec.
      + right; left. split; reflexivity.
      + right; right. split; [reflexivity|].
        unfold validate. rewrite validate_loop_miss by assumption. reflexivity.
  Qed.
End ValidateOne.

(** ** The C17 validation theorems *)
Theorem validate_is_rfc6811 roas a :
  wf_roas roas -> wf_prefix (a_pfx a) -> a_asn a <> 0 ->
  class_of (v_val (validate_one roas a)) = rov (map vrp_of roas) (route_of a).
Proof.
  intros Hwf Hwa Hnz.
  destruct (validate_one_cases roas a Hwf Hwa Hnz) as [(Hs & r & _ & _ & E) | [(Hs & E) | (Hs & E)]];
    rewrite Hs, E; cbn [v_val class_of]; [reflexivity | reflexivity |].
  destruct (existsb _ _); [reflexivity|]. destruct (existsb _ _); reflexivity.
Qed.

(** The AS0/AS0 corner: without the hypothesis on the origin the statement is false (candidate finding F17a). *)
Definition validate_is_rfc6811_full : Prop :=
  forall roas a, wf_roas roas -> wf_prefix (a_pfx a) ->
    class_of (v_val (validate_one roas a)) = rov (map vrp_of roas) (route_of a).

Definition f17a_roa : croa := mkRoa (mkPl 0 (mkP V4 167772160 8) None) 0.   (* 10.0.0.0/8 => AS0 *)
Definition f17a_ann : ann := mkAnn 0 (mkP V4 167772160 8).                  (* 10.0.0.0/8 originated by AS0 *)

Theorem validate_is_rfc6811_refuted : ~ validate_is_rfc6811_full.
Proof.
  intros H. specialize (H [f17a_roa] f17a_ann).
  assert (W : wf_roas [f17a_roa]) by (intros r [<-|[]]; reflexivity).
  specialize (H W eq_refl). vm_compute in H. discriminate.
Qed.

Example validate_is_rfc6811_nonvacuous :
  wf_roas [mkRoa (mkPl 64496 (mkP V4 167772160 8) (Some 24)) 0] /\ wf_prefix (mkP V4 167772416 24)
  /\ 64496 <> 0
  /\ v_val (validate_one [mkRoa (mkPl 64496 (mkP V4 167772160 8) (Some 24)) 0] (mkAnn 64496 (mkP V4 167772416 24)))
     = VValid (mkPl 64496 (mkP V4 167772160 8) (Some 24)).
Proof.
  split; [intros r [<-|[]]; reflexivity|]. split; [reflexivity|]. split; [discriminate | reflexivity].
Qed.

Section Split.
  Variable roas : list croa.
  Variable a : ann.
  Hypothesis Hwf : wf_roas roas.
  Hypothesis Hwa : wf_prefix (a_pfx a).
  Hypothesis Hnz : a_asn a <> 0.
  Let v := v_val (validate_one roas a).
  Let s := rov (map vrp_of roas) (route_of a).
  Let rt := route_of a.

  Lemma ex_same_iff :
    existsb (fun r => r_asn r =? a_asn a) (filter (fun r => covers (r_pfx r) (a_pfx a)) roas) = true
    <-> exists r, In r roas /\ covered (vrp_of r) rt = true /\ r_asn r = a_asn a.
  Proof.
    rewrite existsb_exists. split.
    - intros (r & Hin & E). apply (cov_spec roas a Hwf Hwa) in Hin. apply N.eqb_eq in E. exists r; tauto.
    - intros (r & Hin & Hc & E). exists r. split; [apply (cov_spec roas a Hwf Hwa); auto | apply N.eqb_eq; auto].
  Qed.

  Lemma ex_nonas0_iff :
    existsb (fun r => negb (r_asn r =? 0)) (filter (fun r => covers (r_pfx r) (a_pfx a)) roas) = true
    <-> exists r, In r roas /\ covered (vrp_of r) rt = true /\ r_asn r <> 0.
  Proof.
    rewrite existsb_exists. split.
    - intros (r & Hin & E). apply (cov_spec roas a Hwf Hwa) in Hin. apply negb_true_iff, N.eqb_neq in E. exists r; tauto.
    - intros (r & Hin & Hc & E). exists r. split; [apply (cov_spec roas a Hwf Hwa); auto | apply negb_true_iff, N.eqb_neq; auto].
  Qed.

  (** Wrong length: covering ROAs exist, none matches, and one of them has the announcement's origin. *)
  Theorem invalid_length_iff :
    v = VInvalidLength <-> s = Invalid /\ exists r, In r roas /\ covered (vrp_of r) rt = true /\ r_asn r = a_asn a.
  Proof.
    unfold v, s. rewrite <- ex_same_iff.
    destruct (validate_one_cases roas a Hwf Hwa Hnz) as [(Hs & r & _ & _ & E) | [(Hs & E) | (Hs & E)]];
      rewrite Hs, E; cbn [v_val].
    - split; [discriminate | intros [? _]; discriminate].
    - split; [discriminate | intros [? _]; discriminate].
    - destruct (existsb (fun r => r_asn r =? a_asn a) _); [tauto|].
      split; [destruct (existsb _ _); discriminate | intros [_ ?]; discriminate].
  Qed.

  (** Disallowed: covering ROAs exist and every one of them is an AS0 ROA. *)
  Theorem disallowed_iff :
    v = VDisallowed <-> s = Invalid /\ forall r, In r roas -> covered (vrp_of r) rt = true -> r_asn r = 0.
  Proof.
    unfold v, s.
    destruct (validate_one_cases roas a Hwf Hwa Hnz) as [(Hs & r & _ & _ & E) | [(Hs & E) | (Hs & E)]];
      rewrite Hs, E; cbn [v_val].
    - split; [discriminate | intros [? _]; discriminate].
    - split; [discriminate | intros [? _]; discriminate].
    - destruct (existsb (fun r => r_asn r =? a_asn a) _) eqn:E1.
      + split; [discriminate|]. intros [_ H]. apply ex_same_iff in E1. destruct E1 as (r & Hin & Hc & Ea).
        specialize (H r Hin Hc). congruence.
      + destruct (existsb (fun r => negb (r_asn r =? 0)) _) eqn:E2.
        * split; [discriminate|]. intros [_ H]. apply ex_nonas0_iff in E2. destruct E2 as (r & Hin & Hc & Ea).
          specialize (H r Hin Hc). contradiction.
        * split; [|reflexivity]. intros _. split; [reflexivity|]. intros r Hin Hc.
          destruct (N.eq_dec (r_asn r) 0) as [|Hne]; [assumption|].
          assert (X : existsb (fun r => negb (r_asn r =? 0)) (filter (fun r => covers (r_pfx r) (a_pfx a)) roas) = true)
            by (apply ex_nonas0_iff; exists r; auto).
          congruence.
  Qed.

  (** Wrong origin: covering ROAs exist, none has the announcement's origin, at least one is not AS0. *)
  Theorem invalid_asn_iff :
    v = VInvalidAsn <-> s = Invalid
                        /\ (forall r, In r roas -> covered (vrp_of r) rt = true -> r_asn r <> a_asn a)
                        /\ exists r, In r roas /\ covered (vrp_of r) rt = true /\ r_asn r <> 0.
  Proof.
    unfold v, s. rewrite <- ex_nonas0_iff.
    destruct (validate_one_cases roas a Hwf Hwa Hnz) as [(Hs & r & _ & _ & E) | [(Hs & E) | (Hs & E)]];
      rewrite Hs, E; cbn [v_val].
    - split; [discriminate | intros [? _]; discriminate].
    - split; [discriminate | intros [? _]; discriminate].
    - destruct (existsb (fun r => r_asn r =? a_asn a) _) eqn:E1.
      + split; [discriminate|]. intros (_ & H & _). apply ex_same_iff in E1. destruct E1 as (r & Hin & Hc & Ea).
        exfalso. exact (H r Hin Hc Ea).
      + destruct (existsb (fun r => negb (r_asn r =? 0)) _) eqn:E2.
        * split; [|reflexivity]. intros _. split; [reflexivity|]. split; [|reflexivity].
          intros r Hin Hc Ea.
          assert (X : existsb (fun r => r_asn r =? a_asn a) (filter (fun r => covers (r_pfx r) (a_pfx a)) roas) = true)
            by (apply ex_same_iff; exists r; auto).
          congruence.
        * split; [discriminate | intros (_ & _ & ?); discriminate].
  Qed.

  (** A valid verdict names a ROA that really matches. *)
  Theorem valid_witness pl :
    v = VValid pl -> exists r, In r roas /\ r_pl r = pl /\ matched (vrp_of r) rt = true.
  Proof.
    unfold v.
    destruct (validate_one_cases roas a Hwf Hwa Hnz) as [(Hs & r & Hin & Hm & E) | [(Hs & E) | (Hs & E)]];
      rewrite E; cbn [v_val].
    - intros H; inversion H; subst. exists r; auto.
    - discriminate.
    - destruct (existsb _ _); [discriminate|]. destruct (existsb _ _); discriminate.
  Qed.

  (** An invalid verdict lists exactly the covering ROAs. *)
  Theorem invalid_disallowed_by :
    s = Invalid -> v_dis (validate_one roas a) = map r_pl (filter (fun r => covered (vrp_of r) rt) roas).
  Proof.
    unfold s.
    destruct (validate_one_cases roas a Hwf Hwa Hnz) as [(Hs & r & _ & _ & E) | [(Hs & E) | (Hs & E)]];
      rewrite Hs, E; cbn [v_dis]; try discriminate.
    intros _. f_equal. apply filter_ext_in. intros r Hr. apply covers_covered; auto.
  Qed.
End Split.

(** * The announcement store (specification level) and [validate_set] *)
Lemma ann_insert_In x a l : In x (ann_insert a l) <-> x = a \/ In x l.
Proof.
  induction l as [|y l IH]; cbn [ann_insert].
  - simpl. intuition.
  - destruct (ann_leb a y); simpl; [intuition|]. rewrite IH. intuition.
Qed.

Lemma ann_sort_In x l : In x (ann_sort l) <-> In x l.
Proof.
  induction l as [|a l IH]; [reflexivity|].
  cbn [ann_sort fold_right]. fold (ann_sort l). rewrite ann_insert_In, IH. simpl. intuition.
Qed.

Definition uniform (g : list ann) : Prop := exists p, forall a, In a g -> a_pfx a = p.

Lemma group_cons a r :
  group (a :: r) =
  match group r with
  | (b :: g) :: gs => if prefix_eqb (a_pfx a) (a_pfx b) then (a :: b :: g) :: gs else [a] :: (b :: g) :: gs
  | other => [a] :: other
  end.
Proof. reflexivity. Qed.

Lemma concat_group l : concat (group l) = l.
Proof.
  induction l as [|a r IH]; [reflexivity|].
  rewrite group_cons. destruct (group r) as [|[|b g] gs].
  - simpl in *. congruence.
  - simpl in *. congruence.
  - destruct (prefix_eqb (a_pfx a) (a_pfx b)); simpl in *; congruence.
Qed.

Lemma group_uniform l : Forall (fun g => g <> [] /\ uniform g) (group l).
Proof.
  induction l as [|a r IH]; [constructor|].
  assert (Hs : [a] <> [] /\ uniform [a]).
  { split; [discriminate|]. exists (a_pfx a). intros x [<-|[]]; reflexivity. }
  rewrite group_cons. destruct (group r) as [|[|b g] gs].
  - constructor; [exact Hs | constructor].
  - constructor; [exact Hs | exact IH].
  - destruct (prefix_eqb (a_pfx a) (a_pfx b)) eqn:E.
    + apply prefix_eqb_eq in E. inversion IH as [|? ? [_ [p Hp]] Hgs]; subst.
      constructor; [|assumption]. split; [discriminate|]. exists p.
      intros x [<-|Hx]; [rewrite E; apply Hp; left; reflexivity | apply Hp; assumption].
    + constructor; [exact Hs | exact IH].
Qed.

Lemma validate_one_ann roas a : v_ann (validate_one roas a) = a.
Proof.
  unfold validate_one. destruct (filter _ roas) as [|c cs]; [reflexivity|].
  unfold validate. destruct (existsb (hit a) (c :: cs)) eqn:E.
  - destruct (validate_loop_hit a (c :: cs) [] false false E) as (r & _ & _ & ->). reflexivity.
  - rewrite validate_loop_miss by assumption. reflexivity.
Qed.

Lemma validate_set_uniform g roas : g <> [] -> uniform g -> validate_set g roas = map (validate_one roas) g.
Proof.
  intros Hne [p Hp]. destruct g as [|a0 g]; [contradiction|].
  unfold validate_set.
  assert (E : forall a, In a (a0 :: g) ->
              filter (fun r => covers (r_pfx r) (a_pfx a)) roas = filter (fun r => covers (r_pfx r) (a_pfx a0)) roas).
  { intros a Ha. rewrite (Hp a Ha), (Hp a0 (or_introl eq_refl)). reflexivity. }
  destruct (filter (fun r => covers (r_pfx r) (a_pfx a0)) roas) as [|c cs] eqn:Ec.
  - apply map_ext_in. intros a Ha. unfold validate_one. rewrite (E a Ha). reflexivity.
  - apply map_ext_in. intros a Ha. unfold validate_one. rewrite (E a Ha). reflexivity.
Qed.

Lemma flat_map_map {A B C} (f : B -> C) (g : A -> list B) l :
  flat_map (fun x => map f (g x)) l = map f (flat_map g l).
Proof. induction l as [|a l IH]; simpl; [reflexivity|]. rewrite map_app, IH. reflexivity. Qed.

Lemma validated_in_spec store scope roas :
  validated_in store scope roas = map (validate_one roas) (scoped_anns store scope).
Proof.
  unfold validated_in, scoped_anns. rewrite <- flat_map_map. apply flat_map_ext. intros p.
  unfold eq_or_more_specific. set (l := ann_sort _).
  rewrite <- (concat_group l) at 2. rewrite concat_map, flat_map_concat_map. f_equal.
  apply map_ext_in. intros g Hg.
  pose proof (group_uniform l) as HF. rewrite Forall_forall in HF. destruct (HF g Hg) as [Hne Hu].
  apply validate_set_uniform; assumption.
Qed.

Lemma In_scoped_anns a store scope :
  In a (scoped_anns store scope) <-> In a store /\ exists p, In p scope /\ covers p (a_pfx a) = true.
Proof.
  unfold scoped_anns. rewrite in_flat_map. split.
  - intros (p & Hp & Ha). apply ann_sort_In, filter_In in Ha. destruct Ha. split; [assumption|]. exists p; auto.
  - intros (Ha & p & Hp & Hc). exists p. split; [assumption|]. apply ann_sort_In, filter_In. auto.
Qed.

(** * Families *)
Lemma covers_fam p q : covers p q = true -> p_fam p = p_fam q.
Proof. unfold covers. intros H. apply andb_true_iff in H. apply fam_eqb_eq. tauto. Qed.

Lemma filter_filter {A} (f g : A -> bool) l : filter f (filter g l) = filter (fun x => g x && f x) l.
Proof.
  induction l as [|a l IH]; simpl; [reflexivity|].
  destruct (g a); simpl; [destruct (f a)|]; rewrite IH; reflexivity.
Qed.

Lemma validate_one_fam f roas a : p_fam (a_pfx a) = f ->
  validate_one (filter (is_fam f) roas) a = validate_one roas a.
Proof.
  intros Hf. unfold validate_one. rewrite filter_filter.
  rewrite (filter_ext_in _ (fun r => covers (r_pfx r) (a_pfx a))); [reflexivity|].
  intros r _. unfold is_fam. destruct (covers (r_pfx r) (a_pfx a)) eqn:E; [|apply andb_false_r].
  apply covers_fam in E. rewrite E, Hf, fam_eqb_refl. reflexivity.
Qed.

(** * [categorise_roa] *)
Lemma categorise_spec chk r vs all e : categorise_roa chk r vs all = Some e ->
  e_subj e = SRoa r
  /\ e_authorizes e = (if r_asn r =? 0 then [] else cat_authorizes r vs)
  /\ e_disallows e = (if r_asn r =? 0
                      then match cat_others_covering r all with [] => map v_ann (cat_covered r vs) | _ :: _ => [] end
                      else cat_disallows r vs)
  /\ (e_state e = RoaAs0 \/ e_state e = RoaAs0Redundant <-> r_asn r = 0)
  /\ (e_state e = RoaAs0 <-> r_asn r = 0 /\ cat_others_covering r all = [])
  /\ (e_state e = RoaRedundant -> cat_others_including r all <> [])
  /\ (e_state e = RoaUnseen \/ e_state e = RoaDisallowing -> e_authorizes e = [])
  /\ e_state e <> RoaNotHeld /\ e_state e <> RoaNoInfo /\ roa_state (e_state e) = true.
Proof.
  unfold categorise_roa. destruct (cat_excess chk r (cat_authorizes r vs)) as [ex|]; [|discriminate].
  intros H; inversion H; subst e; clear H.
  destruct (N.eqb_spec (r_asn r) 0) as [Ez|Ez].
  - destruct (cat_others_covering r all) as [|o os]; cbn;
      repeat split; try discriminate; try tauto; try (intros [?|?]; discriminate);
      try (intros [? ?]; discriminate); auto.
  - destruct (cat_others_including r all) as [|o os].
    + destruct (cat_authorizes r vs) as [|x xs], (cat_disallows r vs) as [|y ys], ex; cbn;
        repeat split; try discriminate; try tauto; try (intros [?|?]; discriminate);
        try (intros [? ?]; contradiction); try (intros [?|?]; try discriminate; reflexivity); auto.
    + cbn. repeat split; try discriminate; try tauto; try (intros [?|?]; discriminate);
        try (intros [? ?]; contradiction); auto.
Qed.

(** * [analyse] *)
Definition wf_scope (sc : resources) : Prop :=
  (forall p, In p (rs_v4 sc) -> p_fam p = V4 /\ wf_prefix p) /\ (forall p, In p (rs_v6 sc) -> p_fam p = V6 /\ wf_prefix p).
Definition wf_store (store : list ann) : Prop := forall a, In a store -> wf_prefix (a_pfx a).

Lemma map_opt_In {A B} (f : A -> option B) l : forall ys y,
  map_opt f l = Some ys -> In y ys -> exists x, In x l /\ f x = Some y.
Proof.
  induction l as [|x l IH]; intros ys y H Hy; cbn [map_opt] in H.
  - inversion H; subst. destruct Hy.
  - destruct (f x) as [y0|] eqn:Ex; [|discriminate]. destruct (map_opt f l) as [ys0|] eqn:El; [|discriminate].
    inversion H; subst. destruct Hy as [<-|Hy].
    + exists x; split; [left; reflexivity | assumption].
    + destruct (IH ys0 y eq_refl Hy) as (x' & Hx' & E). exists x'; split; [right; assumption | assumption].
Qed.

Lemma analyse_inv chk roas held limit store es :
  analyse chk roas held limit (Some store) = Some es ->
  let hr := roas_held roas held limit in
  let sc := scope_of held limit in
  let v4r := filter (is_fam V4) hr in
  let v6r := filter (is_fam V6) hr in
  let v4v := validated_in store (rs_v4 sc) v4r in
  let v6v := validated_in store (rs_v6 sc) v6r in
  exists c4 c6,
    map_opt (fun r => categorise_roa chk r v4v v4r) v4r = Some c4
    /\ map_opt (fun r => categorise_roa chk r v6v v6r) v6r = Some c6
    /\ es = map roa_not_held (roas_not_held roas held limit) ++ c4 ++ c6 ++ map ann_entry v4v ++ map ann_entry v6v.
Proof.
  intros H hr sc v4r v6r v4v v6v. unfold analyse in H. cbv zeta in H.
  fold hr sc in H. fold v4r v6r in H. fold v4v v6v in H.
  destruct (map_opt (fun r => categorise_roa chk r v4v v4r) v4r) as [c4|]; [|discriminate].
  destruct (map_opt (fun r => categorise_roa chk r v6v v6r) v6r) as [c6|]; [|discriminate].
  inversion H. exists c4, c6. auto.
Qed.

Lemma ann_entry_subj v : e_subj (ann_entry v) = SAnn (v_ann v).
Proof. unfold ann_entry. destruct (v_val v); reflexivity. Qed.

Lemma ann_entry_state v :
  e_state (ann_entry v) = match v_val v with
                          | VValid _ => AnnValid | VInvalidLength => AnnInvalidLength | VInvalidAsn => AnnInvalidAsn
                          | VDisallowed => AnnDisallowed | VNotFound => AnnNotFound end.
Proof. unfold ann_entry. destruct (v_val v); reflexivity. Qed.

(** Which entries of a report are which. *)
Lemma analyse_entry_cases chk roas held limit store es e :
  analyse chk roas held limit (Some store) = Some es -> In e es ->
  let hr := roas_held roas held limit in
  let sc := scope_of held limit in
  (exists r, In r (roas_not_held roas held limit) /\ e = roa_not_held r)
  \/ (exists f r, In r (filter (is_fam f) hr)
        /\ categorise_roa chk r (validated_in store (match f with V4 => rs_v4 sc | V6 => rs_v6 sc end) (filter (is_fam f) hr))
                          (filter (is_fam f) hr) = Some e)
  \/ (exists f a, In a (scoped_anns store (match f with V4 => rs_v4 sc | V6 => rs_v6 sc end))
        /\ e = ann_entry (validate_one (filter (is_fam f) hr) a)).
Proof.
  intros H Hin hr sc. pose proof (analyse_inv _ _ _ _ _ _ H) as X. cbv zeta in X.
  destruct X as (c4 & c6 & H4 & H6 & ->). fold hr sc in H4, H6, Hin.
  rewrite !in_app_iff in Hin. destruct Hin as [Hin|[Hin|[Hin|[Hin|Hin]]]].
  - left. apply in_map_iff in Hin. destruct Hin as (r & <- & Hr). exists r; auto.
  - right; left. destruct (map_opt_In _ _ _ _ H4 Hin) as (r & Hr & E). exists V4, r. auto.
  - right; left. destruct (map_opt_In _ _ _ _ H6 Hin) as (r & Hr & E). exists V6, r. auto.
  - right; right. apply in_map_iff in Hin. destruct Hin as (v & <- & Hv).
    rewrite validated_in_spec in Hv. apply in_map_iff in Hv. destruct Hv as (a & <- & Ha). exists V4, a. auto.
  - right; right. apply in_map_iff in Hin. destruct Hin as (v & <- & Hv).
    rewrite validated_in_spec in Hv. apply in_map_iff in Hv. destruct Hv as (a & <- & Ha). exists V6, a. auto.
Qed.

Lemma scope_fam sc f p : wf_scope sc -> In p (match f with V4 => rs_v4 sc | V6 => rs_v6 sc end) -> p_fam p = f /\ wf_prefix p.
Proof. intros [H4 H6] Hp. destruct f; auto. Qed.

Lemma roas_held_incl roas held limit r : In r (roas_held roas held limit) -> In r roas.
Proof.
  unfold roas_held, considered. intros H. apply filter_In in H. destruct H as [H _].
  destruct limit; [apply filter_In in H; tauto | assumption].
Qed.

(** Every announcement entry is the verdict of [validate_one] against all held ROAs, for an announcement
    that was loaded and lies under a scope prefix. *)
Theorem analyse_ann_sound chk roas held limit store es e a :
  analyse chk roas held limit (Some store) = Some es -> wf_scope (scope_of held limit) -> wf_store store ->
  In e es -> e_subj e = SAnn a ->
  In a store /\ in_scope (scope_of held limit) a /\ e = ann_entry (validate_one (roas_held roas held limit) a).
Proof.
  intros H Hsc Hst Hin Hs.
  pose proof (analyse_entry_cases _ _ _ _ _ _ _ H Hin) as X. cbv zeta in X.
  destruct X as [(r & _ & ->) | [(f & r & _ & E) | (f & a' & Ha & ->)]].
  - discriminate.
  - apply categorise_spec in E. destruct E as (E & _). congruence.
  - rewrite ann_entry_subj, validate_one_ann in Hs. inversion Hs; subst a'.
    apply In_scoped_anns in Ha. destruct Ha as (Hst' & p & Hp & Hc).
    destruct (scope_fam _ _ _ Hsc Hp) as [Hf Hwp].
    split; [assumption|]. split.
    + exists p. split; [destruct f; apply in_or_app; auto|]. rewrite <- covers_covered_pfx; auto.
    + rewrite validate_one_fam; [reflexivity|]. apply covers_fam in Hc. congruence.
Qed.

(** ... and every loaded announcement under a scope prefix has an entry. *)
Theorem analyse_ann_complete chk roas held limit store es a :
  analyse chk roas held limit (Some store) = Some es -> wf_scope (scope_of held limit) -> wf_store store ->
  In a store -> in_scope (scope_of held limit) a -> exists e, In e es /\ e_subj e = SAnn a.
Proof.
  intros H [H4 H6] Hst Ha (p & Hp & Hc).
  pose proof (analyse_inv _ _ _ _ _ _ H) as X. cbv zeta in X. destruct X as (c4 & c6 & _ & _ & ->).
  apply in_app_or in Hp.
  exists (ann_entry (validate_one (filter (is_fam (p_fam p)) (roas_held roas held limit)) a)).
  split; [|rewrite ann_entry_subj, validate_one_ann; reflexivity].
  rewrite !in_app_iff. destruct Hp as [Hp|Hp].
  - destruct (H4 p Hp) as [Hf Hw]. right; right; right; left. apply in_map. rewrite validated_in_spec. rewrite Hf.
    apply in_map. apply In_scoped_anns. split; [assumption|]. exists p. split; [assumption|].
    rewrite covers_covered_pfx; auto.
  - destruct (H6 p Hp) as [Hf Hw]. right; right; right; right. apply in_map. rewrite validated_in_spec. rewrite Hf.
    apply in_map. apply In_scoped_anns. split; [assumption|]. exists p. split; [assumption|].
    rewrite covers_covered_pfx; auto.
Qed.

(** The report says what RFC 6811 says, with the Invalid split characterised. *)
Theorem analyse_reports_rfc6811 chk roas held limit store es e a :
  analyse chk roas held limit (Some store) = Some es ->
  wf_scope (scope_of held limit) -> wf_store store -> wf_roas roas ->
  In e es -> e_subj e = SAnn a -> a_asn a <> 0 ->
  let hr := roas_held roas held limit in
  let s := rov (map vrp_of hr) (route_of a) in
  state_class (e_state e) = Some s
  /\ (e_state e = AnnInvalidLength <->
      s = Invalid /\ exists r, In r hr /\ covered (vrp_of r) (route_of a) = true /\ r_asn r = a_asn a)
  /\ (e_state e = AnnDisallowed <->
      s = Invalid /\ forall r, In r hr -> covered (vrp_of r) (route_of a) = true -> r_asn r = 0)
  /\ (e_state e = AnnInvalidAsn <->
      s = Invalid /\ (forall r, In r hr -> covered (vrp_of r) (route_of a) = true -> r_asn r <> a_asn a)
      /\ exists r, In r hr /\ covered (vrp_of r) (route_of a) = true /\ r_asn r <> 0).
Proof.
  intros H Hsc Hst Hwf Hin Hs Hnz hr s.
  destruct (analyse_ann_sound _ _ _ _ _ _ _ _ H Hsc Hst Hin Hs) as (Ha & _ & ->).
  assert (Hwh : wf_roas hr) by (intros r Hr; apply Hwf; eapply roas_held_incl; exact Hr).
  assert (Hwa : wf_prefix (a_pfx a)) by (apply Hst; assumption).
  fold hr. rewrite ann_entry_state.
  pose proof (validate_is_rfc6811 hr a Hwh Hwa Hnz) as Hc. fold s in Hc.
  pose proof (invalid_length_iff hr a Hwh Hwa Hnz) as HL.
  pose proof (disallowed_iff hr a Hwh Hwa Hnz) as HD.
  pose proof (invalid_asn_iff hr a Hwh Hwa Hnz) as HA.
  fold s in HL, HD, HA.
  destruct (v_val (validate_one hr a)) eqn:Ev; cbn [class_of state_class] in *;
    (split; [congruence|]);
    (split; [rewrite <- HL; split; congruence|]);
    (split; [rewrite <- HD; split; congruence|]);
    (rewrite <- HA; split; congruence).
Qed.

(** * Per-ROA sets *)
Definition fam_scope (f : fam) (sc : resources) : list prefix := match f with V4 => rs_v4 sc | V6 => rs_v6 sc end.

Lemma covered_pfx_fam p q : covered_pfx p q = true -> p_fam p = p_fam q.
Proof. unfold covered_pfx. rewrite !andb_true_iff, fam_eqb_eq. tauto. Qed.

Lemma scoped_iff sc f store a : wf_scope sc -> wf_store store -> p_fam (a_pfx a) = f ->
  (In a (scoped_anns store (fam_scope f sc)) <-> In a store /\ in_scope sc a).
Proof.
  intros Hsc Hst Hf. rewrite In_scoped_anns. split.
  - intros (Ha & p & Hp & Hc). split; [assumption|]. exists p.
    destruct (scope_fam sc f p Hsc Hp) as [_ Hw].
    split; [destruct f; apply in_or_app; auto|]. rewrite <- covers_covered_pfx; auto.
  - intros (Ha & p & Hp & Hc). split; [assumption|]. exists p.
    pose proof (covered_pfx_fam _ _ Hc) as Hpf. destruct Hsc as [H4 H6].
    apply in_app_or in Hp. destruct Hp as [Hp|Hp].
    + destruct (H4 p Hp) as [Hf4 Hw]. assert (E : f = V4) by congruence. rewrite E.
      split; [exact Hp|]. rewrite covers_covered_pfx; auto.
    + destruct (H6 p Hp) as [Hf6 Hw]. assert (E : f = V6) by congruence. rewrite E.
      split; [exact Hp|]. rewrite covers_covered_pfx; auto.
Qed.

Lemma validate_one_valid_if_hit roas a r : In r roas -> hit a r = true -> is_valid (v_val (validate_one roas a)) = true.
Proof.
  intros Hin Hh. unfold validate_one.
  assert (Hc : In r (filter (fun r => covers (r_pfx r) (a_pfx a)) roas))
    by (apply filter_In; split; [assumption | apply hit_covers; assumption]).
  destruct (filter _ roas) as [|c cs] eqn:E; [destruct Hc|].
  assert (Hex : existsb (hit a) (c :: cs) = true) by (apply existsb_exists; exists r; auto).
  destruct (validate_loop_hit a (c :: cs) [] false false Hex) as (r' & _ & _ & E').
  unfold validate. rewrite E'. reflexivity.
Qed.

Lemma matched_iff_hit a r : wf_prefix (r_pfx r) -> wf_prefix (a_pfx a) ->
  (matched (vrp_of r) (route_of a) = true <-> hit a r = true /\ r_asn r <> 0).
Proof.
  intros Hr Ha. unfold hit, matched, covered, vrp_of, route_of. cbn [vrp_pfx vrp_max vrp_asn rt_pfx rt_asn].
  rewrite covers_covered_pfx by assumption.
  rewrite !andb_true_iff, negb_true_iff, !N.eqb_eq, N.eqb_neq. intuition congruence.
Qed.

Lemma is_fam_In f hr r : In r (filter (is_fam f) hr) -> In r hr /\ p_fam (r_pfx r) = f.
Proof. intros H. apply filter_In in H. destruct H as [H1 H2]. split; [assumption|]. apply fam_eqb_eq; exact H2. Qed.

Lemma cat_authorizes_exact f hr store scp r a :
  In r (filter (is_fam f) hr) ->
  (In a (cat_authorizes r (validated_in store scp (filter (is_fam f) hr)))
   <-> In a (scoped_anns store scp) /\ hit a r = true).
Proof.
  intros Hr. unfold cat_authorizes, cat_covered. rewrite validated_in_spec, in_map_iff. split.
  - intros (v & Ev & Hv). apply filter_In in Hv. destruct Hv as [Hv HP]. apply filter_In in Hv. destruct Hv as [Hv HC].
    apply in_map_iff in Hv. destruct Hv as (a' & <- & Ha'). rewrite validate_one_ann in *. subst a'.
    split; [assumption|]. unfold hit. rewrite !andb_true_iff in *. rewrite N.eqb_sym. tauto.
  - intros (Ha & Hh). exists (validate_one (filter (is_fam f) hr) a). rewrite validate_one_ann.
    split; [reflexivity|]. apply filter_In. split.
    + apply filter_In. split; [apply in_map; assumption|]. rewrite validate_one_ann. apply hit_covers; assumption.
    + rewrite validate_one_ann. rewrite (validate_one_valid_if_hit _ _ _ Hr Hh).
      unfold hit in Hh. rewrite !andb_true_iff in *. rewrite N.eqb_sym. tauto.
Qed.

Lemma cat_disallows_exact roas' store scp r a :
  In a (cat_disallows r (validated_in store scp roas'))
  <-> In a (scoped_anns store scp) /\ covers (r_pfx r) (a_pfx a) = true
      /\ is_invalid_len_or_asn (v_val (validate_one roas' a)) = true.
Proof.
  unfold cat_disallows, cat_covered. rewrite validated_in_spec, in_map_iff. split.
  - intros (v & Ev & Hv). apply filter_In in Hv. destruct Hv as [Hv HP]. apply filter_In in Hv. destruct Hv as [Hv HC].
    apply in_map_iff in Hv. destruct Hv as (a' & <- & Ha'). rewrite validate_one_ann in *. subst a'. auto.
  - intros (Ha & Hc & Hi). exists (validate_one roas' a). rewrite validate_one_ann. split; [reflexivity|].
    apply filter_In. split; [|assumption]. apply filter_In. split; [apply in_map; assumption|].
    rewrite validate_one_ann. assumption.
Qed.

Lemma cat_covered_exact roas' store scp r a :
  In a (map v_ann (cat_covered r (validated_in store scp roas')))
  <-> In a (scoped_anns store scp) /\ covers (r_pfx r) (a_pfx a) = true.
Proof.
  unfold cat_covered. rewrite validated_in_spec, in_map_iff. split.
  - intros (v & Ev & Hv). apply filter_In in Hv. destruct Hv as [Hv HC].
    apply in_map_iff in Hv. destruct Hv as (a' & <- & Ha'). rewrite validate_one_ann in *. subst a'. auto.
  - intros (Ha & Hc). exists (validate_one roas' a). rewrite validate_one_ann. split; [reflexivity|].
    apply filter_In. split; [apply in_map; assumption|]. rewrite validate_one_ann. assumption.
Qed.

(** A ROA entry of a report that is not "not held" comes from [categorise_roa] on a held ROA of its family. *)
Lemma analyse_roa_entry chk roas held limit store es e r :
  analyse chk roas held limit (Some store) = Some es -> In e es -> e_subj e = SRoa r -> e_state e <> RoaNotHeld ->
  let hr := roas_held roas held limit in
  let f := p_fam (r_pfx r) in
  In r (filter (is_fam f) hr)
  /\ categorise_roa chk r (validated_in store (fam_scope f (scope_of held limit)) (filter (is_fam f) hr)) (filter (is_fam f) hr) = Some e.
Proof.
  intros H Hin Hs Hn hr f.
  pose proof (analyse_entry_cases _ _ _ _ _ _ _ H Hin) as X. cbv zeta in X.
  destruct X as [(r' & _ & ->) | [(f' & r' & Hr' & E) | (f' & a' & Ha & ->)]].
  - exfalso; apply Hn; reflexivity.
  - pose proof (categorise_spec _ _ _ _ _ E) as (Es & _). rewrite Hs in Es. inversion Es; subst r'.
    destruct (is_fam_In _ _ _ Hr') as [_ Hf]. fold f in Hf. subst f'. split; assumption.
  - rewrite ann_entry_subj in Hs. discriminate.
Qed.

(** ** [authorizes_exact] *)
Theorem authorizes_exact chk roas held limit store es e r :
  analyse chk roas held limit (Some store) = Some es ->
  wf_scope (scope_of held limit) -> wf_store store -> wf_roas roas ->
  In e es -> e_subj e = SRoa r -> e_state e <> RoaNotHeld ->
  forall a, In a (e_authorizes e) <->
            In a store /\ in_scope (scope_of held limit) a /\ matched (vrp_of r) (route_of a) = true.
Proof.
  intros H Hsc Hst Hwf Hin Hs Hn a.
  pose proof (analyse_roa_entry _ _ _ _ _ _ _ _ H Hin Hs Hn) as X. cbv zeta in X. destruct X as [Hr E].
  destruct (is_fam_In _ _ _ Hr) as [Hrh _].
  assert (Hwr : wf_prefix (r_pfx r)) by (apply Hwf; eapply roas_held_incl; exact Hrh).
  pose proof (categorise_spec _ _ _ _ _ E) as (_ & Ea & _). rewrite Ea.
  destruct (N.eqb_spec (r_asn r) 0) as [Ez|Ez].
  - split; [intros []|]. intros (_ & _ & Hm). unfold matched, vrp_of in Hm. cbn [vrp_asn] in Hm.
    rewrite Ez in Hm. rewrite andb_false_r in Hm. discriminate.
  - rewrite (cat_authorizes_exact _ _ _ _ _ _ Hr). split.
    + intros (Ha & Hh).
      assert (Hf : p_fam (a_pfx a) = p_fam (r_pfx r)) by (symmetry; apply covers_fam, hit_covers; assumption).
      apply (scoped_iff _ _ _ _ Hsc Hst Hf) in Ha. destruct Ha as [Ha Hi].
      split; [assumption|]. split; [assumption|]. apply matched_iff_hit; auto.
    + intros (Ha & Hi & Hm). apply matched_iff_hit in Hm; auto. destruct Hm as [Hh _].
      assert (Hf : p_fam (a_pfx a) = p_fam (r_pfx r)) by (symmetry; apply covers_fam, hit_covers; assumption).
      split; [|assumption]. apply (scoped_iff _ _ _ _ Hsc Hst Hf). auto.
Qed.

(** ** [disallows_exact] *)
Lemma is_invalid_len_or_asn_iff v : is_invalid_len_or_asn v = true <-> v = VInvalidLength \/ v = VInvalidAsn.
Proof. destruct v; cbn; split; try tauto; try discriminate; intros [?|?]; discriminate. Qed.

Theorem disallows_exact chk roas held limit store es e r :
  analyse chk roas held limit (Some store) = Some es ->
  wf_scope (scope_of held limit) -> wf_store store -> wf_roas roas ->
  In e es -> e_subj e = SRoa r -> e_state e <> RoaNotHeld -> r_asn r <> 0 ->
  let hr := roas_held roas held limit in
  forall a, a_asn a <> 0 ->
    (In a (e_disallows e) <->
     In a store /\ in_scope (scope_of held limit) a /\ covered (vrp_of r) (route_of a) = true
     /\ rov (map vrp_of hr) (route_of a) = Invalid
     /\ exists r', In r' hr /\ covered (vrp_of r') (route_of a) = true /\ r_asn r' <> 0).
Proof.
  intros H Hsc Hst Hwf Hin Hs Hn Hrz hr a Haz.
  pose proof (analyse_roa_entry _ _ _ _ _ _ _ _ H Hin Hs Hn) as X. cbv zeta in X. destruct X as [Hr E].
  fold hr in Hr, E.
  destruct (is_fam_In _ _ _ Hr) as [Hrh _].
  assert (Hwh : wf_roas hr) by (intros x Hx; apply Hwf; eapply roas_held_incl; exact Hx).
  assert (Hwr : wf_prefix (r_pfx r)) by (apply Hwh; assumption).
  pose proof (categorise_spec _ _ _ _ _ E) as (_ & _ & Ed & _). rewrite Ed.
  destruct (N.eqb_spec (r_asn r) 0) as [|_]; [contradiction|].
  rewrite cat_disallows_exact.
  assert (Key : forall (Hwa : wf_prefix (a_pfx a)),
            is_invalid_len_or_asn (v_val (validate_one hr a)) = true <->
            rov (map vrp_of hr) (route_of a) = Invalid
            /\ exists r', In r' hr /\ covered (vrp_of r') (route_of a) = true /\ r_asn r' <> 0).
  { intros Hwa. rewrite is_invalid_len_or_asn_iff.
    rewrite (invalid_length_iff hr a Hwh Hwa Haz), (invalid_asn_iff hr a Hwh Hwa Haz). split.
    - intros [(Hi & r' & H1 & H2 & H3) | (Hi & _ & r' & H1 & H2 & H3)]; (split; [assumption|]); exists r'; repeat split; auto.
      congruence.
    - intros (Hi & r' & H1 & H2 & H3).
      destruct (existsb (fun x => r_asn x =? a_asn a) (filter (fun x => covered (vrp_of x) (route_of a)) hr)) eqn:Ex.
      + left. split; [assumption|]. apply existsb_exists in Ex. destruct Ex as (x & Hx & Ea).
        apply filter_In in Hx. apply N.eqb_eq in Ea. exists x; tauto.
      + right. split; [assumption|]. split; [|exists r'; auto].
        intros x Hx Hc Ea. rewrite existsb_false in Ex. specialize (Ex x).
        rewrite filter_In in Ex. specialize (Ex (conj Hx Hc)). apply N.eqb_neq in Ex. contradiction. }
  split.
  - intros (Ha & Hc & Hi).
    assert (Hf : p_fam (a_pfx a) = p_fam (r_pfx r)) by (symmetry; apply covers_fam; assumption).
    apply (scoped_iff _ _ _ _ Hsc Hst Hf) in Ha. destruct Ha as [Ha Hsc'].
    assert (Hwa : wf_prefix (a_pfx a)) by (apply Hst; assumption).
    rewrite (validate_one_fam _ _ _ Hf) in Hi. apply (Key Hwa) in Hi.
    split; [assumption|]. split; [assumption|]. split; [rewrite <- covers_covered; auto | assumption].
  - intros (Ha & Hsc' & Hc & Hi).
    assert (Hwa : wf_prefix (a_pfx a)) by (apply Hst; assumption).
    rewrite <- covers_covered in Hc by auto.
    assert (Hf : p_fam (a_pfx a) = p_fam (r_pfx r)) by (symmetry; apply covers_fam; assumption).
    split; [apply (scoped_iff _ _ _ _ Hsc Hst Hf); auto|]. split; [assumption|].
    rewrite (validate_one_fam _ _ _ Hf). apply (Key Hwa). assumption.
Qed.

(** An AS0 ROA that no other ROA covers disallows exactly the loaded announcements it covers. *)
Theorem as0_disallows_exact chk roas held limit store es e r :
  analyse chk roas held limit (Some store) = Some es ->
  wf_scope (scope_of held limit) -> wf_store store -> wf_roas roas ->
  In e es -> e_subj e = SRoa r -> e_state e = RoaAs0 ->
  forall a, In a (e_disallows e) <->
            In a store /\ in_scope (scope_of held limit) a /\ covered (vrp_of r) (route_of a) = true.
Proof.
  intros H Hsc Hst Hwf Hin Hs Hst0 a.
  assert (Hn : e_state e <> RoaNotHeld) by (rewrite Hst0; discriminate).
  pose proof (analyse_roa_entry _ _ _ _ _ _ _ _ H Hin Hs Hn) as X. cbv zeta in X. destruct X as [Hr E].
  destruct (is_fam_In _ _ _ Hr) as [Hrh _].
  assert (Hwr : wf_prefix (r_pfx r)) by (apply Hwf; eapply roas_held_incl; exact Hrh).
  pose proof (categorise_spec _ _ _ _ _ E) as (_ & _ & Ed & _ & E0 & _). rewrite Ed.
  apply E0 in Hst0. destruct Hst0 as [Ez Eo]. rewrite Ez, Eo. cbn [N.eqb]. rewrite N.eqb_refl.
  rewrite cat_covered_exact. split.
  - intros (Ha & Hc).
    assert (Hf : p_fam (a_pfx a) = p_fam (r_pfx r)) by (symmetry; apply covers_fam; assumption).
    apply (scoped_iff _ _ _ _ Hsc Hst Hf) in Ha. destruct Ha as [Ha Hsc'].
    split; [assumption|]. split; [assumption|]. rewrite <- covers_covered; auto.
  - intros (Ha & Hsc' & Hc). rewrite <- covers_covered in Hc by auto.
    assert (Hf : p_fam (a_pfx a) = p_fam (r_pfx r)) by (symmetry; apply covers_fam; assumption).
    split; [apply (scoped_iff _ _ _ _ Hsc Hst Hf); auto | assumption].
Qed.

(** * Suggestions *)
Lemma st_is_eq a b : st_is a b = true <-> a = b.
Proof. unfold st_is. rewrite N.eqb_eq. destruct a, b; cbn; split; intros H; try reflexivity; try discriminate. Qed.

Lemma In_roas_in P es r : In r (roas_in P es) <-> exists e, In e es /\ P (e_state e) = true /\ e_subj e = SRoa r.
Proof.
  unfold roas_in. rewrite in_flat_map. split.
  - intros (e & He & Hr). exists e. destruct (P (e_state e)); [|destruct Hr].
    destruct (e_subj e) as [r'|]; [|destruct Hr]. destruct Hr as [<-|[]]. auto.
  - intros (e & He & HP & Hs). exists e. rewrite HP, Hs. split; [assumption | left; reflexivity].
Qed.

Lemma payload_eqb_refl p : payload_eqb p p = true.
Proof.
  unfold payload_eqb. rewrite N.eqb_refl. replace (prefix_eqb (pl_pfx p) (pl_pfx p)) with true
    by (symmetry; apply prefix_eqb_eq; reflexivity).
  destruct (pl_max p); cbn; [apply N.eqb_refl | reflexivity].
Qed.

Lemma entry_insert_In x e l : In x (entry_insert e l) <-> x = e \/ In x l.
Proof.
  induction l as [|y l IH]; cbn [entry_insert].
  - simpl. intuition.
  - destruct (entry_leb e y); simpl; [intuition|]. rewrite IH. intuition.
Qed.

(** Sorting the report changes neither its entries nor their multiplicity of occurrence as a set. *)
Lemma report_sort_In x l : In x (report_sort l) <-> In x l.
Proof.
  induction l as [|a l IH]; [reflexivity|].
  cbn [report_sort fold_right]. fold (report_sort l). rewrite entry_insert_In, IH. simpl. intuition.
Qed.

Lemma suggest_inv chk roas held limit seen s :
  suggest chk roas held limit seen = Some s ->
  exists es, analyse chk roas held limit seen = Some es /\ suggest_of_entries (report_sort es) = Some s.
Proof. unfold suggest. destruct (analyse chk roas held limit seen) as [es|]; [|discriminate]. intros H. exists es; auto. Qed.

(** A ROA proposed as redundant is included by another held ROA, which matches whatever it matches. *)
Lemma redundant_has_replacement f hr r a :
  wf_roas hr -> wf_prefix (a_pfx a) -> In r (filter (is_fam f) hr) ->
  cat_others_including r (filter (is_fam f) hr) <> [] ->
  matched (vrp_of r) (route_of a) = true ->
  exists r', In r' hr /\ r_pl r' <> r_pl r /\ matched (vrp_of r') (route_of a) = true.
Proof.
  intros Hwf Hwa Hr Hne Hm.
  destruct (cat_others_including r (filter (is_fam f) hr)) as [|pl pls] eqn:E; [contradiction|].
  assert (Hpl : In pl (cat_others_including r (filter (is_fam f) hr))) by (rewrite E; left; reflexivity).
  unfold cat_others_including, cat_others_covering in Hpl.
  apply filter_In in Hpl. destruct Hpl as [Hpl Hinc]. apply in_map_iff in Hpl. destruct Hpl as (o & <- & Ho).
  apply filter_In in Ho. destruct Ho as [Ho Hcov]. apply andb_true_iff in Hcov. destruct Hcov as [Hcov Hneq].
  destruct (is_fam_In _ _ _ Ho) as [Hoh _]. destruct (is_fam_In _ _ _ Hr) as [Hrh _].
  exists o. split; [assumption|]. split.
  - intros Eq. rewrite Eq, payload_eqb_refl in Hneq. discriminate.
  - rewrite !andb_true_iff, N.eqb_eq, !N.leb_le in Hinc. destruct Hinc as [[Ea Hl] Hmx].
    rewrite covers_covered_pfx in Hcov by (apply Hwf; assumption).
    unfold matched, covered, vrp_of, route_of in *. cbn [vrp_pfx vrp_max vrp_asn rt_pfx rt_asn] in *.
    rewrite !andb_true_iff, negb_true_iff, N.leb_le, N.eqb_eq, N.eqb_neq in *.
    destruct Hm as [[[Hc Hlen] Hasn] Hz].
    fold (r_asn o). unfold r_max in *. unfold r_asn in *.
    repeat split; [eapply covered_pfx_trans; eassumption | lia | congruence | congruence].
Qed.

(** ** [suggest_keeps_validating] *)
Theorem suggest_keeps_validating chk roas held limit store s :
  suggest chk roas held limit (Some store) = Some s ->
  wf_scope (scope_of held limit) -> wf_store store -> wf_roas roas ->
  forall r a, In a store -> in_scope (scope_of held limit) a -> matched (vrp_of r) (route_of a) = true ->
    ~ In r (s_stale s) /\ ~ In r (s_disallowing s) /\ ~ In r (s_as0_redundant s)
    /\ (In r (s_redundant s) ->
        exists r', In r' (roas_held roas held limit) /\ r_pl r' <> r_pl r /\ matched (vrp_of r') (route_of a) = true).
Proof.
  intros H Hsc Hst Hwf r a Ha Hi Hm.
  destruct (suggest_inv _ _ _ _ _ _ H) as (es & Han & Hs).
  unfold suggest_of_entries, suggestion_with in Hs. destruct (forallb kind_consistent (report_sort es)); [|discriminate].
  inversion Hs; subst s; clear Hs. cbn [s_stale s_disallowing s_as0_redundant s_redundant].
  assert (Hwa : wf_prefix (a_pfx a)) by (apply Hst; assumption).
  assert (Hwh : wf_roas (roas_held roas held limit)) by (intros x Hx; apply Hwf; eapply roas_held_incl; exact Hx).
  (* common: an entry for [r] with a categorised state *)
  assert (Common : forall e, In e (report_sort es) -> e_subj e = SRoa r -> e_state e <> RoaNotHeld ->
            In a (e_authorizes e)
            /\ In r (filter (is_fam (p_fam (r_pfx r))) (roas_held roas held limit))
            /\ categorise_roa chk r (validated_in store (fam_scope (p_fam (r_pfx r)) (scope_of held limit))
                                                 (filter (is_fam (p_fam (r_pfx r))) (roas_held roas held limit)))
                              (filter (is_fam (p_fam (r_pfx r))) (roas_held roas held limit)) = Some e).
  { intros e He Hsub Hn. apply (proj1 (report_sort_In _ _)) in He. split.
    - apply (authorizes_exact _ _ _ _ _ _ _ _ Han Hsc Hst Hwf He Hsub Hn). auto.
    - pose proof (analyse_roa_entry _ _ _ _ _ _ _ _ Han He Hsub Hn) as X. cbv zeta in X. exact X. }
  repeat split.
  - intros Hin. apply In_roas_in in Hin. destruct Hin as (e & He & Hst' & Hsub). apply st_is_eq in Hst'.
    assert (Hn : e_state e <> RoaNotHeld) by (rewrite <- Hst'; discriminate).
    destruct (Common e He Hsub Hn) as (Hau & _ & E).
    pose proof (categorise_spec _ _ _ _ _ E) as (_ & _ & _ & _ & _ & _ & Hnil & _).
    rewrite Hnil in Hau by (left; congruence). destruct Hau.
  - intros Hin. apply In_roas_in in Hin. destruct Hin as (e & He & Hst' & Hsub). apply st_is_eq in Hst'.
    assert (Hn : e_state e <> RoaNotHeld) by (rewrite <- Hst'; discriminate).
    destruct (Common e He Hsub Hn) as (Hau & _ & E).
    pose proof (categorise_spec _ _ _ _ _ E) as (_ & _ & _ & _ & _ & _ & Hnil & _).
    rewrite Hnil in Hau by (right; congruence). destruct Hau.
  - intros Hin. apply In_roas_in in Hin. destruct Hin as (e & He & Hst' & Hsub). apply st_is_eq in Hst'.
    assert (Hn : e_state e <> RoaNotHeld) by (rewrite <- Hst'; discriminate).
    destruct (Common e He Hsub Hn) as (_ & _ & E).
    pose proof (categorise_spec _ _ _ _ _ E) as (_ & _ & _ & Hz & _).
    assert (Ez : r_asn r = 0) by (apply Hz; right; congruence).
    unfold matched, vrp_of in Hm. cbn [vrp_asn] in Hm. rewrite Ez, andb_false_r in Hm. discriminate.
  - intros Hin. apply In_roas_in in Hin. destruct Hin as (e & He & Hst' & Hsub). apply st_is_eq in Hst'.
    assert (Hn : e_state e <> RoaNotHeld) by (rewrite <- Hst'; discriminate).
    destruct (Common e He Hsub Hn) as (_ & Hr & E).
    pose proof (categorise_spec _ _ _ _ _ E) as (_ & _ & _ & _ & _ & Hred & _).
    eapply redundant_has_replacement; eauto; apply Hred; congruence.
Qed.

(** * Totality *)
Lemma map_opt_total {A B} (f : A -> option B) l : (forall x, In x l -> f x <> None) -> map_opt f l <> None.
Proof.
  induction l as [|x l IH]; intros H; cbn [map_opt]; [discriminate|].
  destruct (f x) eqn:E; [|exfalso; apply (H x); [left; reflexivity | assumption]].
  destruct (map_opt f l); [discriminate|]. exfalso. apply IH; [|reflexivity]. intros y Hy. apply H. right; assumption.
Qed.

Lemma categorise_total chk r vs all : nr_of_specific_prefixes chk (r_pl r) <> None -> categorise_roa chk r vs all <> None.
Proof.
  intros H. unfold categorise_roa, cat_excess. destruct (0 <? _); [|discriminate].
  destruct (nr_of_specific_prefixes chk (r_pl r)); [discriminate | contradiction].
Qed.

(** [analyse] does not panic when every ROA has [prefix length <= max length] and a length difference
    below 128 (every [max_length_valid] ROA except an IPv6 [/0-128]). *)
Theorem analyse_no_panic chk roas held limit seen :
  (forall r, In r roas -> p_len (r_pfx r) <= r_max r /\ r_max r - p_len (r_pfx r) < 128) ->
  analyse chk roas held limit seen <> None.
Proof.
  intros H. unfold analyse. destruct seen as [store|]; [|discriminate].
  assert (T : forall f vs all, map_opt (fun r => categorise_roa chk r vs all) (filter (is_fam f) (roas_held roas held limit)) <> None).
  { intros f vs all. apply map_opt_total. intros r Hr. apply categorise_total.
    destruct (is_fam_In _ _ _ Hr) as [Hrh _]. apply roas_held_incl in Hrh. destruct (H r Hrh) as [H1 H2].
    unfold nr_of_specific_prefixes. fold (r_pfx r). fold (r_max r). destruct chk; [|discriminate].
    destruct (N.ltb_spec (r_max r) (p_len (r_pfx r))); [lia|].
    destruct (N.leb_spec 128 (r_max r - p_len (r_pfx r))); [lia | discriminate]. }
  cbv zeta.
  destruct (map_opt _ (filter (is_fam V4) _)) eqn:E4; [|exfalso; eapply T; exact E4].
  destruct (map_opt _ (filter (is_fam V6) _)) eqn:E6; [discriminate | exfalso; eapply T; exact E6].
Qed.

(** Without overflow checks (release profile) nothing panics, whatever the ROAs. *)
Theorem analyse_release_total roas held limit seen : analyse false roas held limit seen <> None.
Proof.
  unfold analyse. destruct seen as [store|]; [|discriminate]. cbv zeta.
  assert (T : forall f vs all, map_opt (fun r => categorise_roa false r vs all) (filter (is_fam f) (roas_held roas held limit)) <> None).
  { intros f vs all. apply map_opt_total. intros r _. apply categorise_total. discriminate. }
  destruct (map_opt _ (filter (is_fam V4) _)) eqn:E4; [|exfalso; eapply T; exact E4].
  destruct (map_opt _ (filter (is_fam V6) _)) eqn:E6; [discriminate | exfalso; eapply T; exact E6].
Qed.

(** The one family-valid ROA shape for which the checked build panics: IPv6 [::/0-128] with an authorised /128
    (candidate finding F17d: [1u128 << 128]). *)
Definition analyse_total_full : Prop :=
  forall roas held limit seen,
    (forall r, In r roas -> p_len (r_pfx r) <= r_max r /\ r_max r <= alen (p_fam (r_pfx r))) ->
    analyse true roas held limit seen <> None.

Definition f17d_roas : list croa := [mkRoa (mkPl 64496 (mkP V6 0 0) (Some 128)) 0].     (* ::/0-128 => 64496 *)
Definition f17d_store : list ann := [mkAnn 64496 (mkP V6 1 128)].                      (* ::1/128 from 64496 *)
Definition f17d_held : resources := mkRes [] [(0, 2 ^ 128 - 1)] [] [mkP V6 0 0].        (* all of IPv6 *)

Theorem analyse_total_refuted : ~ analyse_total_full.
Proof.
  intros H. apply (H f17d_roas f17d_held None (Some f17d_store)); [|reflexivity].
  intros r [<-|[]]. vm_compute. split; discriminate.
Qed.

(** Every report can be turned into a suggestion (no accessor of the wrong kind is called). *)
Lemma categorise_kind chk r vs all e : categorise_roa chk r vs all = Some e -> kind_consistent e = true.
Proof.
  intros H. apply categorise_spec in H. destruct H as (Hs & _ & _ & _ & _ & _ & _ & _ & _ & Hr).
  unfold kind_consistent. rewrite Hs. destruct (e_state e); cbn in *; congruence.
Qed.

Lemma analyse_kind_consistent chk roas held limit seen es e :
  analyse chk roas held limit seen = Some es -> In e es -> kind_consistent e = true.
Proof.
  intros H He. destruct seen as [store|].
  - pose proof (analyse_entry_cases _ _ _ _ _ _ _ H He) as X. cbv zeta in X.
    destruct X as [(r & _ & ->) | [(f & r & _ & E) | (f & a & _ & ->)]].
    + reflexivity.
    + eapply categorise_kind; exact E.
    + unfold ann_entry, kind_consistent. destruct (v_val _); reflexivity.
  - unfold analyse in H. inversion H; subst es. apply in_app_or in He. destruct He as [He|He];
      apply in_map_iff in He; destruct He as (r & <- & _); reflexivity.
Qed.

Theorem suggest_total chk roas held limit seen es :
  analyse chk roas held limit seen = Some es -> suggest_of_entries (report_sort es) <> None.
Proof.
  intros H. unfold suggest_of_entries.
  assert (K : forallb kind_consistent (report_sort es) = true); [|rewrite K; discriminate].
  apply forallb_forall. intros e He. apply (proj1 (report_sort_In _ _)) in He. eapply analyse_kind_consistent; eassumption.
Qed.

(** * Following the suggestion: F17e (repaired in /repo by 992adfab) and F17b

    The strong reading of "suggestions never remove a ROA that validates an observed announcement": after the
    suggested updates every announcement that is valid now is still valid. It was false for the code before
    992adfab, which is pinned here as [suggest_pinned] with its refutation as a regression witness; for the repaired
    code it is proved below ([suggest_preserves_validity]) for every announcement that is not validated through
    None/Some(len) twin payloads (F17b, [twin_match]), and refuted without that hypothesis. *)
Definition suggest_pinned_preserves_validity : Prop :=
  forall roas held limit store s,
    suggest_pinned true roas held limit (Some store) = Some s ->
    wf_scope (scope_of held limit) -> wf_store store -> wf_roas roas ->
    forall a, In a store -> in_scope (scope_of held limit) a -> a_asn a <> 0 ->
      rov (map vrp_of (roas_held roas held limit)) (route_of a) = Valid ->
      rov (map vrp_of_payload (config_after (roas_held roas held limit) s)) (route_of a) = Valid.

(** F17e: [10.0.0.0/22-24 => 64496] is "too permissive", [10.0.0.0/24-24 => 64496] is "redundant" (included by
    the former); the announcement [10.0.0.0/24 => 64496] is authorised by both entries. Before the repair it was
    left out of the replacement of the first ("authorised by another entry") while the second is removed as
    redundant. *)
Definition f17e_roas : list croa :=
  [mkRoa (mkPl 64496 (mkP V4 167772160 22) (Some 24)) 0; mkRoa (mkPl 64496 (mkP V4 167772160 24) (Some 24)) 0].
Definition f17e_store : list ann := [mkAnn 64496 (mkP V4 167772160 24)].
Definition f17e_held : resources := mkRes [(13292279957849158729038070602803445760, 14621507953634074601941877663083790335)] []
                                          [mkP V4 167772160 8] [].     (* 10.0.0.0/8 *)

Lemma f17e_pinned_facts :
  exists s, suggest_pinned true f17e_roas f17e_held None (Some f17e_store) = Some s
            /\ map fst (s_too_permissive s) = [mkRoa (mkPl 64496 (mkP V4 167772160 22) (Some 24)) 0]
            /\ map snd (s_too_permissive s) = [[]]
            /\ s_redundant s = [mkRoa (mkPl 64496 (mkP V4 167772160 24) (Some 24)) 0]
            /\ config_after (roas_held f17e_roas f17e_held None) s = [].
Proof. eexists. split; [vm_compute; reflexivity|]. vm_compute. repeat split. Qed.

Theorem suggest_preserves_validity_refuted : ~ suggest_pinned_preserves_validity.
Proof.
  intros H.
  destruct f17e_pinned_facts as (s & Hs & _).
  specialize (H f17e_roas f17e_held None f17e_store s Hs).
  assert (W1 : wf_scope (scope_of f17e_held None)).
  { split; [intros p [<-|[]]; split; reflexivity | intros p []]. }
  assert (W2 : wf_store f17e_store) by (intros a [<-|[]]; reflexivity).
  assert (W3 : wf_roas f17e_roas) by (intros r [<-|[<-|[]]]; reflexivity).
  specialize (H W1 W2 W3 (mkAnn 64496 (mkP V4 167772160 24)) (or_introl eq_refl)).
  assert (I : in_scope (scope_of f17e_held None) (mkAnn 64496 (mkP V4 167772160 24))).
  { exists (mkP V4 167772160 8). split; [left; reflexivity | reflexivity]. }
  specialize (H I). assert (N : 64496 <> 0) by discriminate. specialize (H N eq_refl).
  vm_compute in Hs. inversion Hs; subst s. vm_compute in H. discriminate.
Qed.

(** The repaired code on the same input: the announcement is part of the replacement and stays valid. *)
Lemma f17e_repaired :
  exists s, suggest true f17e_roas f17e_held None (Some f17e_store) = Some s
            /\ map snd (s_too_permissive s) = [[mkPl 64496 (mkP V4 167772160 24) None]]
            /\ rov (map vrp_of_payload (config_after (roas_held f17e_roas f17e_held None) s))
                   (route_of (mkAnn 64496 (mkP V4 167772160 24))) = Valid.
Proof. eexists. split; [vm_compute; reflexivity|]. split; reflexivity. Qed.

(** F17b: two payloads that differ only in [max_length = None] versus [Some (prefix length)] are each reported
    redundant because of the other (the payload comparison of [categorise_roa] is the derived equality), so
    without the hypothesis [twin_match = false] the strong reading is false for the repaired code as well. *)
Definition f17b_roas : list croa :=
  [mkRoa (mkPl 64496 (mkP V4 167772160 24) None) 0; mkRoa (mkPl 64496 (mkP V4 167772160 24) (Some 24)) 0].

Lemma f17b_twins_both_redundant :
  exists s, suggest true f17b_roas f17e_held None (Some f17e_store) = Some s /\ s_redundant s = f17b_roas /\ s_keep s = []
            /\ config_after (roas_held f17b_roas f17e_held None) s = []
            /\ twin_match (roas_held f17b_roas f17e_held None) (mkAnn 64496 (mkP V4 167772160 24)) = true.
Proof. eexists. split; [vm_compute; reflexivity|]. repeat split. Qed.

Definition suggest_preserves_validity_unconditional : Prop :=
  forall roas held limit store s,
    suggest true roas held limit (Some store) = Some s ->
    wf_scope (scope_of held limit) -> wf_store store -> wf_roas roas ->
    forall a, In a store -> in_scope (scope_of held limit) a ->
      rov (map vrp_of (roas_held roas held limit)) (route_of a) = Valid ->
      rov (map vrp_of_payload (config_after (roas_held roas held limit) s)) (route_of a) = Valid.

Theorem suggest_preserves_validity_unconditional_refuted : ~ suggest_preserves_validity_unconditional.
Proof.
  intros H.
  destruct f17b_twins_both_redundant as (s & Hs & _ & _ & Hc & _).
  specialize (H f17b_roas f17e_held None f17e_store s Hs).
  assert (W1 : wf_scope (scope_of f17e_held None)).
  { split; [intros p [<-|[]]; split; reflexivity | intros p []]. }
  assert (W2 : wf_store f17e_store) by (intros a [<-|[]]; reflexivity).
  assert (W3 : wf_roas f17b_roas) by (intros r [<-|[<-|[]]]; reflexivity).
  specialize (H W1 W2 W3 (mkAnn 64496 (mkP V4 167772160 24)) (or_introl eq_refl)).
  assert (I : in_scope (scope_of f17e_held None) (mkAnn 64496 (mkP V4 167772160 24))).
  { exists (mkP V4 167772160 8). split; [left; reflexivity | reflexivity]. }
  specialize (H I eq_refl). rewrite Hc in H. vm_compute in H. discriminate.
Qed.

(** F17c (found by this model, fixed in /repo by 2496aeb4 "check that a ROA prefix is held within its own address
    family"): the held / scope test used to ignore the address family, so that with only the IPv6 block
    [2a04:b900::/29] held the IPv4 ROA [42.4.185.0/29 => 64496] (the same 128-bit range) was treated as held.
    Regression: it is now reported "not held", and in general a ROA is only held through a block of its own family. *)
Definition f17c_held : resources :=
  mkRes [] [(55852097256177281531502448758579265536, 55852097890002581645617149506930868223)] [] [mkP V6 55852097256177281531502448758579265536 29].
Definition f17c_roa : croa := mkRoa (mkPl 64496 (mkP V4 704952576 29) None) 0.

Lemma f17c_fixed :
  resources_ok f17c_held = true /\ rs_r4 f17c_held = []
  /\ analyse true [f17c_roa] f17c_held None (Some []) = Some [roa_not_held f17c_roa].
Proof. split; [reflexivity|]. split; reflexivity. Qed.

Lemma is_held_by_own_family pl rs : is_held_by pl rs = true ->
  exists a b, In (a, b) (match p_fam (pl_pfx pl) with V4 => rs_r4 rs | V6 => rs_r6 rs end)
              /\ a <= min128 (pl_pfx pl) /\ max128 (pl_pfx pl) <= b.
Proof.
  unfold is_held_by. intros H. apply existsb_exists in H. destruct H as ([a b] & Hin & H).
  apply andb_true_iff in H. rewrite !N.leb_le in H. exists a, b. tauto.
Qed.

(** * Non-vacuity: one concrete analysis meeting the hypotheses of the theorems above *)
Definition ex_held : resources :=
  mkRes [(13292279957849158729038070602803445760, 14621507953634074601941877663083790335)] [] [mkP V4 167772160 8] [].
(** 10.0.0.0/22-24 => 64496; 10.0.0.0/24-24 => 64496 (redundant); 10.0.0.0/16 => AS0; 10.0.4.0/24 => 64497 (unseen);
    10.1.0.0/16 => AS0 *)
Definition ex_r1 : croa := mkRoa (mkPl 64496 (mkP V4 167772160 22) (Some 24)) 0.
Definition ex_r2 : croa := mkRoa (mkPl 64496 (mkP V4 167772160 24) (Some 24)) 0.
Definition ex_r5 : croa := mkRoa (mkPl 0 (mkP V4 167837696 16) None) 0.
Definition ex_roas : list croa :=
  [ex_r1; ex_r2; mkRoa (mkPl 0 (mkP V4 167772160 16) None) 0; mkRoa (mkPl 64497 (mkP V4 167773184 24) None) 0; ex_r5].
(** 10.0.0.0/24 => 64496 (valid); 10.0.1.0/24 => 64497 (wrong origin); 10.0.0.0/25 => 64496 (too long);
    10.0.8.0/24 => 64498 and 10.1.2.0/24 => 64496 (AS0 only); 10.2.0.0/16 => 64496 (not found) *)
Definition ex_a1 : ann := mkAnn 64496 (mkP V4 167772160 24).
Definition ex_a2 : ann := mkAnn 64497 (mkP V4 167772416 24).
Definition ex_a5 : ann := mkAnn 64496 (mkP V4 167838208 24).
Definition ex_store : list ann :=
  [ex_a1; ex_a2; mkAnn 64496 (mkP V4 167772160 25); mkAnn 64498 (mkP V4 167774208 24); ex_a5;
   mkAnn 64496 (mkP V4 167903232 16)].
Definition ex_report : list entry :=
  match analyse true ex_roas ex_held None (Some ex_store) with Some es => es | None => [] end.
Definition ex_entry (n : nat) : entry := nth n ex_report (roa_unseen ex_r1).

Lemma ex_report_eq : analyse true ex_roas ex_held None (Some ex_store) = Some ex_report.
Proof. vm_compute. reflexivity. Qed.
Lemma ex_wf_scope : wf_scope (scope_of ex_held None).
Proof. split; [intros p [<-|[]]; split; reflexivity | intros p []]. Qed.
Lemma ex_wf_store : wf_store ex_store.
Proof. intros a H. repeat (destruct H as [<-|H]; [reflexivity|]). destruct H. Qed.
Lemma ex_wf_roas : wf_roas ex_roas.
Proof. intros r H. repeat (destruct H as [<-|H]; [reflexivity|]). destruct H. Qed.
Lemma ex_entry_In n : (n < 11)%nat -> In (ex_entry n) ex_report.
Proof. intros H. apply nth_In. vm_compute. lia. Qed.
Lemma ex_in_scope a : In a ex_store -> in_scope (scope_of ex_held None) a.
Proof.
  intros H. exists (mkP V4 167772160 8). split; [left; reflexivity|].
  repeat (destruct H as [<-|H]; [reflexivity|]). destruct H.
Qed.

Example analyse_reports_rfc6811_nonvacuous :
  analyse true ex_roas ex_held None (Some ex_store) = Some ex_report
  /\ wf_scope (scope_of ex_held None) /\ wf_store ex_store /\ wf_roas ex_roas
  /\ In (ex_entry 5) ex_report /\ e_subj (ex_entry 5) = SAnn ex_a1 /\ a_asn ex_a1 <> 0
  /\ e_state (ex_entry 5) = AnnValid /\ e_state (ex_entry 6) = AnnInvalidLength
  /\ e_state (ex_entry 7) = AnnInvalidAsn /\ e_state (ex_entry 8) = AnnDisallowed /\ e_state (ex_entry 10) = AnnNotFound.
Proof.
  split; [exact ex_report_eq|]. split; [exact ex_wf_scope|]. split; [exact ex_wf_store|]. split; [exact ex_wf_roas|].
  split; [apply ex_entry_In; lia|]. split; [reflexivity|]. split; [discriminate|]. repeat split.
Qed.

Example analyse_ann_nonvacuous :
  In (ex_entry 7) ex_report /\ e_subj (ex_entry 7) = SAnn ex_a2 /\ In ex_a2 ex_store /\ in_scope (scope_of ex_held None) ex_a2.
Proof.
  split; [apply ex_entry_In; lia|]. split; [reflexivity|]. split; [right; left; reflexivity|].
  apply ex_in_scope. right; left; reflexivity.
Qed.

Example authorizes_exact_nonvacuous :
  In (ex_entry 0) ex_report /\ e_subj (ex_entry 0) = SRoa ex_r1 /\ e_state (ex_entry 0) <> RoaNotHeld
  /\ In ex_a1 (e_authorizes (ex_entry 0)) /\ matched (vrp_of ex_r1) (route_of ex_a1) = true.
Proof.
  split; [apply ex_entry_In; lia|]. split; [reflexivity|]. split; [vm_compute; discriminate|].
  split; [left; reflexivity | reflexivity].
Qed.

Example disallows_exact_nonvacuous :
  In (ex_entry 0) ex_report /\ e_subj (ex_entry 0) = SRoa ex_r1 /\ e_state (ex_entry 0) <> RoaNotHeld /\ r_asn ex_r1 <> 0
  /\ a_asn ex_a2 <> 0 /\ In ex_a2 (e_disallows (ex_entry 0))
  /\ rov (map vrp_of (roas_held ex_roas ex_held None)) (route_of ex_a2) = Invalid.
Proof.
  split; [apply ex_entry_In; lia|]. split; [reflexivity|]. split; [vm_compute; discriminate|].
  split; [discriminate|]. split; [discriminate|]. split; [right; left; reflexivity | reflexivity].
Qed.

Example as0_disallows_exact_nonvacuous :
  In (ex_entry 4) ex_report /\ e_subj (ex_entry 4) = SRoa ex_r5 /\ e_state (ex_entry 4) = RoaAs0
  /\ In ex_a5 (e_disallows (ex_entry 4)).
Proof. split; [apply ex_entry_In; lia|]. split; [reflexivity|]. split; [reflexivity | left; reflexivity]. Qed.

Example suggest_keeps_validating_nonvacuous :
  exists s, suggest true ex_roas ex_held None (Some ex_store) = Some s
            /\ In ex_a1 ex_store /\ in_scope (scope_of ex_held None) ex_a1
            /\ matched (vrp_of ex_r2) (route_of ex_a1) = true /\ In ex_r2 (s_redundant s)
            /\ s_stale s = [mkRoa (mkPl 64497 (mkP V4 167773184 24) None) 0].
Proof.
  eexists. split; [vm_compute; reflexivity|]. split; [left; reflexivity|].
  split; [apply ex_in_scope; left; reflexivity|]. split; [reflexivity|]. split; [left; reflexivity | reflexivity].
Qed.

Example analyse_no_panic_nonvacuous :
  forall r, In r ex_roas -> p_len (r_pfx r) <= r_max r /\ r_max r - p_len (r_pfx r) < 128.
Proof. intros r H. repeat (destruct H as [<-|H]; [vm_compute; split; [discriminate | reflexivity]|]). destruct H. Qed.

Example split_nonvacuous :
  wf_roas (roas_held ex_roas ex_held None) /\ wf_prefix (a_pfx ex_a2) /\ a_asn ex_a2 <> 0
  /\ v_val (validate_one (roas_held ex_roas ex_held None) ex_a2) = VInvalidAsn
  /\ v_val (validate_one (roas_held ex_roas ex_held None) ex_a5) = VDisallowed
  /\ v_val (validate_one (roas_held ex_roas ex_held None) (mkAnn 64496 (mkP V4 167772160 25))) = VInvalidLength.
Proof.
  split; [intros r Hr; apply ex_wf_roas; eapply roas_held_incl; exact Hr|].
  split; [reflexivity|]. split; [discriminate|]. repeat split.
Qed.



(** * The repaired [suggest] keeps every valid announcement valid (no None/Some(len) twins) *)
Lemma map_opt_In_rev {A B} (f : A -> option B) l : forall ys x,
  map_opt f l = Some ys -> In x l -> exists y, In y ys /\ f x = Some y.
Proof.
  induction l as [|x0 l IH]; intros ys x H Hx; [destruct Hx|]. cbn [map_opt] in H.
  destruct (f x0) as [y0|] eqn:E0; [|discriminate]. destruct (map_opt f l) as [ys0|] eqn:El; [|discriminate].
  inversion H; subst. destruct Hx as [<-|Hx].
  - exists y0. split; [left; reflexivity | assumption].
  - destruct (IH ys0 x eq_refl Hx) as (y & Hy & E). exists y. split; [right; assumption | assumption].
Qed.

(** Every held ROA has an entry produced by [categorise_roa]. *)
Lemma analyse_held_entry chk roas held limit store es r :
  analyse chk roas held limit (Some store) = Some es -> In r (roas_held roas held limit) ->
  let f := p_fam (r_pfx r) in
  let fr := filter (is_fam f) (roas_held roas held limit) in
  exists e, In e es /\ categorise_roa chk r (validated_in store (fam_scope f (scope_of held limit)) fr) fr = Some e.
Proof.
  intros H Hr f fr.
  pose proof (analyse_inv _ _ _ _ _ _ H) as X. cbv zeta in X. destruct X as (c4 & c6 & H4 & H6 & ->).
  assert (Hfr : In r fr) by (apply filter_In; split; [assumption | apply fam_eqb_refl]).
  destruct (p_fam (r_pfx r)) eqn:Ef; subst f fr.
  - destruct (map_opt_In_rev _ _ _ _ H4 Hfr) as (e & He & E). exists e. split; [|exact E].
    rewrite !in_app_iff. auto.
  - destruct (map_opt_In_rev _ _ _ _ H6 Hfr) as (e & He & E). exists e. split; [|exact E].
    rewrite !in_app_iff. auto.
Qed.

(** The state assigned by [categorise_roa] depends on the ROA only through its payload. *)
Lemma categorise_state_payload chk r r' vs all e e' :
  r_pl r = r_pl r' -> categorise_roa chk r vs all = Some e -> categorise_roa chk r' vs all = Some e' ->
  e_state e = e_state e'.
Proof.
  intros Ep. unfold categorise_roa, cat_excess, cat_authorizes, cat_disallows, cat_covered, cat_others_including,
    cat_others_covering, r_pfx, r_asn, r_max. rewrite <- Ep.
  destruct (if 0 <? _ then _ else Some false) as [ex|]; [|discriminate].
  intros H H'. inversion H; inversion H'; subst e e'; clear H H'.
  destruct (pl_asn (r_pl r) =? 0).
  - destruct (map r_pl _); reflexivity.
  - destruct (filter _ (map r_pl _)); [|reflexivity].
    destruct (map v_ann _), (map v_ann _), ex; reflexivity.
Qed.

Lemma fold_max_ge (l : list croa) r : In r l -> r_max r <= fold_right (fun x m => N.max (r_max x) m) 0 l.
Proof.
  induction l as [|x l IH]; intros H; [destruct H|]. cbn [fold_right]. destruct H as [<-|H]; [lia|]. specialize (IH H). lia.
Qed.

Lemma optN_eqb_eq a b : optN_eqb a b = true -> a = b.
Proof. destruct a, b; cbn; try discriminate; auto. intros H. apply N.eqb_eq in H. congruence. Qed.

Lemma payload_eqb_eq p q : payload_eqb p q = true -> p = q.
Proof.
  unfold payload_eqb. rewrite !andb_true_iff, N.eqb_eq. intros [[E1 E2] E3].
  apply prefix_eqb_eq in E2. apply optN_eqb_eq in E3. destruct p, q; cbn in *; congruence.
Qed.

Lemma ann_eqb_eq a b : ann_eqb a b = true -> a = b.
Proof.
  unfold ann_eqb. rewrite andb_true_iff, N.eqb_eq. intros [E1 E2]. apply prefix_eqb_eq in E2.
  destruct a, b; cbn in *; congruence.
Qed.

Lemma ann_eqb_refl a : ann_eqb a a = true.
Proof. unfold ann_eqb. rewrite N.eqb_refl. apply prefix_eqb_eq. reflexivity. Qed.

(** ** The [too_permissive] loop *)
Lemma already_suggested_app acc x pl :
  already_suggested (acc ++ [x]) pl = already_suggested acc pl || existsb (payload_eqb pl) (snd x).
Proof. unfold already_suggested. rewrite existsb_app. cbn [existsb]. rewrite orb_false_r. reflexivity. Qed.

Lemma tp_loop_mono E todo : forall acc pl,
  already_suggested acc pl = true -> already_suggested (too_permissive_loop E todo acc) pl = true.
Proof.
  induction todo as [|h todo IH]; intros acc pl H; [exact H|]. cbn [too_permissive_loop].
  destruct (st_is RoaTooPermissive (e_state h)); [|apply IH; assumption].
  destruct (e_subj h); [|apply IH; assumption].
  apply IH. rewrite already_suggested_app, H. reflexivity.
Qed.

Lemma tp_loop_adds E todo : forall acc e r a,
  In e todo -> e_state e = RoaTooPermissive -> e_subj e = SRoa r -> In a (e_authorizes e) ->
  kept_elsewhere E e a = false ->
  already_suggested (too_permissive_loop E todo acc) (payload_of_ann a) = true.
Proof.
  induction todo as [|h todo IH]; intros acc e r a He Hst Hsub Ha Hk; [destruct He|].
  cbn [too_permissive_loop]. destruct He as [->|He].
  - rewrite Hst, Hsub. replace (st_is RoaTooPermissive RoaTooPermissive) with true by reflexivity.
    apply tp_loop_mono. rewrite already_suggested_app.
    destruct (already_suggested acc (payload_of_ann a)) eqn:Eacc; [reflexivity|]. cbn [orb snd].
    apply existsb_exists. exists (payload_of_ann a). split; [|apply payload_eqb_refl].
    unfold replace_with. apply filter_In. split; [|rewrite Eacc; reflexivity].
    apply in_map. apply filter_In. split; [assumption | rewrite Hk; reflexivity].
  - destruct (st_is RoaTooPermissive (e_state h)); [|eapply IH; eassumption].
    destruct (e_subj h); eapply IH; eassumption.
Qed.

Lemma tp_loop_fst E todo : forall acc r,
  In r (map fst (too_permissive_loop E todo acc)) ->
  In r (map fst acc) \/ exists e, In e todo /\ e_state e = RoaTooPermissive /\ e_subj e = SRoa r.
Proof.
  induction todo as [|h todo IH]; intros acc r H; [left; exact H|]. cbn [too_permissive_loop] in H.
  destruct (st_is RoaTooPermissive (e_state h)) eqn:Est.
  - destruct (e_subj h) as [r'|a'] eqn:Esub.
    + apply IH in H. destruct H as [H|(e & He & H)]; [|right; exists e; split; [right; assumption | assumption]].
      rewrite map_app in H. apply in_app_or in H. destruct H as [H|[<-|[]]]; [left; assumption|].
      right. exists h. apply st_is_eq in Est. split; [left; reflexivity|]. split; [congruence | exact Esub].
    + apply IH in H. destruct H as [H|(e & He & H)]; [left; assumption | right; exists e; split; [right; assumption | assumption]].
  - apply IH in H. destruct H as [H|(e & He & H)]; [left; assumption | right; exists e; split; [right; assumption | assumption]].
Qed.

Lemma already_suggested_In acc pl : already_suggested acc pl = true -> In pl (flat_map snd acc).
Proof.
  unfold already_suggested. intros H. apply existsb_exists in H. destruct H as (x & Hx & H).
  apply existsb_exists in H. destruct H as (pl' & Hpl & E). apply payload_eqb_eq in E. subst pl'.
  apply in_flat_map. exists x; auto.
Qed.

Lemma rov_valid_intro l pl rt : In pl l -> matched (vrp_of_payload pl) rt = true -> rov (map vrp_of_payload l) rt = Valid.
Proof.
  intros Hin Hm. unfold rov.
  replace (existsb (fun v => matched v rt) (map vrp_of_payload l)) with true; [reflexivity|].
  symmetry. rewrite existsb_map. apply existsb_exists. exists pl; auto.
Qed.

(** ** The theorem *)
Theorem suggest_preserves_validity chk roas held limit store s :
  suggest chk roas held limit (Some store) = Some s ->
  wf_scope (scope_of held limit) -> wf_store store -> wf_roas roas ->
  let hr := roas_held roas held limit in
  forall a, In a store -> in_scope (scope_of held limit) a ->
    rov (map vrp_of hr) (route_of a) = Valid -> twin_match hr a = false ->
    rov (map vrp_of_payload (config_after hr s)) (route_of a) = Valid.
Proof.
  intros Hsug Hsc Hst Hwf hr a Ha Hin Hval Htw.
  destruct (suggest_inv _ _ _ _ _ _ Hsug) as (es & Han & Hs).
  unfold suggest_of_entries, suggestion_with in Hs. destruct (forallb kind_consistent (report_sort es)); [|discriminate].
  inversion Hs; subst s; clear Hs.
  set (es' := report_sort es) in *.
  assert (Hwa : wf_prefix (a_pfx a)) by (apply Hst; assumption).
  assert (Hwh : wf_roas hr) by (intros x Hx; apply Hwf; eapply roas_held_incl; exact Hx).
  (* no twins among the ROAs that match [a] *)
  assert (NoTwin : forall r o, In r hr -> In o hr -> matched (vrp_of r) (route_of a) = true ->
            payload_norm_eqb (r_pl r) (r_pl o) = true -> payload_eqb (r_pl r) (r_pl o) = true).
  { intros r o Hr Ho Hm Hn. destruct (payload_eqb (r_pl r) (r_pl o)) eqn:E; [reflexivity|]. exfalso.
    assert (X : twin_match hr a = true); [|congruence].
    unfold twin_match. apply existsb_exists. exists r. split; [assumption|]. rewrite Hm. cbn [andb].
    apply existsb_exists. exists o. split; [assumption|]. rewrite Hn, E. reflexivity. }
  set (Mx := fold_right (fun x m => N.max (r_max x) m) 0 hr).
  (* 1. a matching ROA that is not reported redundant *)
  assert (Chain : forall n r, N.to_nat (p_len (r_pfx r) + (Mx - r_max r)) = n -> In r hr ->
            matched (vrp_of r) (route_of a) = true ->
            exists r' e, In r' hr /\ matched (vrp_of r') (route_of a) = true /\ In e es /\ e_subj e = SRoa r'
                         /\ e_state e <> RoaRedundant
                         /\ categorise_roa chk r' (validated_in store (fam_scope (p_fam (r_pfx r')) (scope_of held limit))
                                                                (filter (is_fam (p_fam (r_pfx r'))) hr))
                                           (filter (is_fam (p_fam (r_pfx r'))) hr) = Some e).
  { induction n as [n IHn] using lt_wf_ind. intros r Hn Hr Hm.
    pose proof (analyse_held_entry _ _ _ _ _ _ _ Han Hr) as X. cbv zeta in X. destruct X as (e & He & E).
    fold hr in E.
    pose proof (categorise_spec _ _ _ _ _ E) as (Esub & _ & _ & _ & _ & Hred & _).
    destruct (e_state e) eqn:Est;
      try (exists r, e; repeat split; auto; rewrite Est; discriminate).
    specialize (Hred eq_refl).
    destruct (cat_others_including r (filter (is_fam (p_fam (r_pfx r))) hr)) as [|pl pls] eqn:Eo; [contradiction|].
    assert (Hpl : In pl (cat_others_including r (filter (is_fam (p_fam (r_pfx r))) hr))) by (rewrite Eo; left; reflexivity).
    unfold cat_others_including, cat_others_covering in Hpl.
    apply filter_In in Hpl. destruct Hpl as [Hpl Hinc]. apply in_map_iff in Hpl. destruct Hpl as (o & <- & Ho).
    apply filter_In in Ho. destruct Ho as [Ho Hcov]. apply andb_true_iff in Hcov. destruct Hcov as [Hcov Hneq].
    destruct (is_fam_In _ _ _ Ho) as [Hoh _].
    rewrite !andb_true_iff, N.eqb_eq, !N.leb_le in Hinc. destruct Hinc as [[Ea Hl] Hmx].
    fold (r_asn o) in Ea. fold (r_pfx o) in Hl. fold (r_max o) in Hmx.
    assert (Hmo : matched (vrp_of o) (route_of a) = true).
    { pose proof Hcov as Hcov'. rewrite covers_covered_pfx in Hcov' by (apply Hwh; assumption).
      unfold matched, covered, vrp_of, route_of in *. cbn [vrp_pfx vrp_max vrp_asn rt_pfx rt_asn] in *.
      rewrite !andb_true_iff, negb_true_iff, N.leb_le, N.eqb_eq, N.eqb_neq in *.
      destruct Hm as [[[Hc Hlen] Hasn] Hz].
      repeat split; [eapply covered_pfx_trans; eassumption | lia | congruence | congruence]. }
    assert (Hlt : (N.to_nat (p_len (r_pfx o) + (Mx - r_max o)) < n)%nat).
    { pose proof (fold_max_ge hr o Hoh) as Bo. pose proof (fold_max_ge hr r Hr) as Br. fold Mx in Bo, Br.
      destruct (N.eq_dec (p_len (r_pfx o)) (p_len (r_pfx r))) as [El|]; [|lia].
      destruct (N.eq_dec (r_max o) (r_max r)) as [Em|]; [|lia]. exfalso.
      (* same length and covering: same prefix; same origin and effective maximum length: a twin *)
      assert (Epf : r_pfx o = r_pfx r).
      { pose proof (covers_fam _ _ Hcov) as Hf'.
        pose proof Hcov as C1. rewrite covers_covered_pfx in C1 by (apply Hwh; assumption).
        unfold covered_pfx, first_bits in C1. rewrite !andb_true_iff, !N.leb_le, !N.eqb_eq in C1. destruct C1 as [_ E1].
        destruct (wf_prefix_parts _ (Hwh o Hoh)) as (_ & _ & No). destruct (wf_prefix_parts _ (Hwh r Hr)) as (_ & _ & Nr).
        unfold host_bits in No, Nr.
        destruct (r_pfx o) as [fo ao lo] eqn:Eqo, (r_pfx r) as [fr' ar lr'] eqn:Eqr. cbn [p_fam p_addr p_len] in *.
        subst fr' lr'. f_equal. rewrite No, Nr, E1. reflexivity. }
      assert (Hnorm : payload_norm_eqb (r_pl r) (r_pl o) = true).
      { unfold payload_norm_eqb. fold (r_asn r) (r_asn o) (r_pfx r) (r_pfx o) (r_max r) (r_max o).
        rewrite Ea, Epf, Em, !N.eqb_refl. replace (prefix_eqb (r_pfx r) (r_pfx r)) with true by (symmetry; apply prefix_eqb_eq; reflexivity).
        reflexivity. }
      rewrite (NoTwin r o Hr Hoh Hm Hnorm) in Hneq. discriminate. }
    exact (IHn _ Hlt o eq_refl Hoh Hmo). }
  (* 2. a ROA that is kept (state RoaSeen) and matches [a] survives the updates *)
  assert (Survive : forall r e, In r hr -> matched (vrp_of r) (route_of a) = true -> In e es -> e_subj e = SRoa r ->
            e_state e = RoaSeen ->
            categorise_roa chk r (validated_in store (fam_scope (p_fam (r_pfx r)) (scope_of held limit))
                                               (filter (is_fam (p_fam (r_pfx r))) hr))
                           (filter (is_fam (p_fam (r_pfx r))) hr) = Some e ->
            rov (map vrp_of_payload (config_after hr (suggestion_with (too_permissive_loop es' es' []) es'))) (route_of a) = Valid).
  { intros r e Hr Hm He Esub Est E.
    apply (rov_valid_intro _ (r_pl r)); [|exact Hm].
    unfold config_after, updates_of_suggestion, suggestion_with.
    cbn [s_stale s_too_permissive s_as0_redundant s_redundant s_not_found s_invalid_asn s_invalid_length].
    apply in_or_app. left. apply filter_In. split; [apply in_map; assumption|].
    apply negb_true_iff. apply existsb_false. intros pl Hpl.
    destruct (payload_norm_eqb (r_pl r) pl) eqn:Enorm; [exfalso | reflexivity].
    assert (Removed : exists r2 e2, r_pl r2 = pl /\ In e2 es' /\ e_subj e2 = SRoa r2 /\ e_state e2 <> RoaSeen /\ e_state e2 <> RoaNotHeld).
    { rewrite !in_app_iff in Hpl. destruct Hpl as [Hpl|[Hpl|[Hpl|Hpl]]].
      - apply in_map_iff in Hpl. destruct Hpl as (r2 & <- & Hr2). apply In_roas_in in Hr2.
        destruct Hr2 as (e2 & He2 & S2 & Sub2). apply st_is_eq in S2. exists r2, e2. repeat split; auto; rewrite <- S2; discriminate.
      - apply in_map_iff in Hpl. destruct Hpl as ([r2 new] & <- & Hr2). cbn [fst].
        assert (Hr2' : In r2 (map fst (too_permissive_loop es' es' []))) by (apply in_map_iff; exists (r2, new); auto).
        apply tp_loop_fst in Hr2'. destruct Hr2' as [[]|(e2 & He2 & S2 & Sub2)].
        exists r2, e2. repeat split; auto; rewrite S2; discriminate.
      - apply in_map_iff in Hpl. destruct Hpl as (r2 & <- & Hr2). apply In_roas_in in Hr2.
        destruct Hr2 as (e2 & He2 & S2 & Sub2). apply st_is_eq in S2. exists r2, e2. repeat split; auto; rewrite <- S2; discriminate.
      - apply in_map_iff in Hpl. destruct Hpl as (r2 & <- & Hr2). apply In_roas_in in Hr2.
        destruct Hr2 as (e2 & He2 & S2 & Sub2). apply st_is_eq in S2. exists r2, e2. repeat split; auto; rewrite <- S2; discriminate. }
    destruct Removed as (r2 & e2 & <- & He2 & Sub2 & Hns & Hnn).
    apply (proj1 (report_sort_In _ _)) in He2.
    pose proof (analyse_roa_entry _ _ _ _ _ _ _ _ Han He2 Sub2 Hnn) as X. cbv zeta in X. destruct X as [Hr2 E2].
    destruct (is_fam_In _ _ _ Hr2) as [Hr2h _]. fold hr in Hr2h, E2.
    assert (Epl : r_pl r = r_pl r2) by (apply payload_eqb_eq; apply NoTwin; assumption).
    assert (Epf : r_pfx r2 = r_pfx r) by (unfold r_pfx; rewrite Epl; reflexivity).
    rewrite Epf in E2.
    pose proof (categorise_state_payload _ _ _ _ _ _ _ Epl E E2) as Eqs. congruence. }
  (* 3. start from any matching ROA *)
  assert (HM : exists r, In r hr /\ matched (vrp_of r) (route_of a) = true).
  { unfold rov in Hval. destruct (existsb (fun v => matched v (route_of a)) (map vrp_of hr)) eqn:Ex;
      [|destruct (existsb (fun v => covered v (route_of a)) (map vrp_of hr)); discriminate].
    rewrite existsb_map in Ex. apply existsb_exists in Ex. destruct Ex as (r & Hr & Hm). exists r; auto. }
  destruct HM as (r0 & Hr0 & Hm0).
  destruct (Chain _ r0 eq_refl Hr0 Hm0) as (r & e & Hr & Hm & He & Esub & Hnred & E).
  assert (Hn : e_state e <> RoaNotHeld) by (pose proof (categorise_spec _ _ _ _ _ E) as X; tauto).
  assert (Hau : In a (e_authorizes e)) by (apply (authorizes_exact _ _ _ _ _ _ _ _ Han Hsc Hst Hwf He Esub Hn); auto).
  pose proof (categorise_spec _ _ _ _ _ E) as (_ & _ & _ & Has0 & _ & _ & Hnil & Hnh & Hni & Hrs).
  assert (Hnz : r_asn r <> 0).
  { intros Ez. unfold matched, vrp_of in Hm. cbn [vrp_asn] in Hm. rewrite Ez, andb_false_r in Hm. discriminate. }
  assert (Est : e_state e = RoaSeen \/ e_state e = RoaTooPermissive).
  { destruct (e_state e) eqn:Es; auto; try (exfalso; cbn in Hrs; discriminate); try congruence.
    - exfalso. rewrite Hnil in Hau by (left; reflexivity). destruct Hau.
    - exfalso. rewrite Hnil in Hau by (right; reflexivity). destruct Hau.
    - exfalso. apply Hnz. apply Has0. left; reflexivity.
    - exfalso. apply Hnz. apply Has0. right; reflexivity. }
  destruct Est as [Est|Est]; [eapply Survive; eassumption|].
  (* too permissive: either a kept ROA authorises [a] as well, or [a] is part of a replacement *)
  destruct (existsb (fun o => st_is RoaSeen (e_state o) && existsb (ann_eqb a) (e_authorizes o)) es') eqn:Ks.
  - apply existsb_exists in Ks. destruct Ks as (o & Ho & Ko). apply andb_true_iff in Ko. destruct Ko as [So Ao].
    apply st_is_eq in So. symmetry in So. apply existsb_exists in Ao. destruct Ao as (a' & Ha' & Eq). apply ann_eqb_eq in Eq. subst a'.
    apply (proj1 (report_sort_In _ _)) in Ho.
    pose proof (analyse_kind_consistent _ _ _ _ _ _ _ Han Ho) as Kc. unfold kind_consistent in Kc. rewrite So in Kc.
    destruct (e_subj o) as [r'|] eqn:Subo; [|discriminate].
    assert (Hno : e_state o <> RoaNotHeld) by (rewrite So; discriminate).
    assert (Hm' : matched (vrp_of r') (route_of a) = true)
      by (apply (authorizes_exact _ _ _ _ _ _ _ _ Han Hsc Hst Hwf Ho Subo Hno); assumption).
    pose proof (analyse_roa_entry _ _ _ _ _ _ _ _ Han Ho Subo Hno) as X. cbv zeta in X. destruct X as [Hr' E'].
    destruct (is_fam_In _ _ _ Hr') as [Hr'h _].
    eapply (Survive r' o); eassumption.
  - assert (Hk : kept_elsewhere es' e a = false).
    { unfold kept_elsewhere. apply existsb_false. intros o Ho. rewrite existsb_false in Ks. specialize (Ks o Ho).
      rewrite <- andb_assoc, Ks. apply andb_false_r. }
    assert (He' : In e es') by (apply report_sort_In; assumption).
    pose proof (tp_loop_adds es' es' [] e r a He' Est Esub Hau Hk) as Hadd.
    apply already_suggested_In in Hadd.
    apply (rov_valid_intro _ (payload_of_ann a)).
    + unfold config_after, updates_of_suggestion, suggestion_with. cbn [s_too_permissive s_not_found s_invalid_asn s_invalid_length].
      apply in_or_app. right. apply in_or_app. right. exact Hadd.
    + unfold matched, covered, covered_pfx, vrp_of_payload, payload_of_ann, route_of, eff_max.
      cbn [vrp_pfx vrp_max vrp_asn rt_pfx rt_asn pl_pfx pl_max pl_asn].
      rewrite fam_eqb_refl, !N.leb_refl, !N.eqb_refl. cbn [andb].
      unfold matched, vrp_of, route_of in Hm. cbn [vrp_asn rt_asn] in Hm.
      rewrite !andb_true_iff, N.eqb_eq in Hm. destruct Hm as [[_ Ea] Hz]. rewrite Ea. exact Hz.
Qed.

(** With explicit maximum lengths (what a krill CA stores) there are no twins. *)
Definition explicit_maxb (roas : list croa) : bool :=
  forallb (fun r => match pl_max (r_pl r) with Some _ => true | None => false end) roas.

Lemma explicit_no_twins roas a : explicit_maxb roas = true -> twin_match roas a = false.
Proof.
  intros H. unfold explicit_maxb in H. rewrite forallb_forall in H.
  unfold twin_match. apply existsb_false. intros r Hr. destruct (matched (vrp_of r) (route_of a)); [|reflexivity]. cbn [andb].
  apply existsb_false. intros o Ho. pose proof (H r Hr) as Xr. pose proof (H o Ho) as Xo.
  destruct (payload_norm_eqb (r_pl r) (r_pl o)) eqn:En; [|reflexivity]. cbn [andb]. apply negb_false_iff.
  unfold payload_norm_eqb, eff_max in En. unfold payload_eqb. rewrite !andb_true_iff in *. destruct En as [[E1 E2] E3].
  destruct (pl_max (r_pl r)); [|discriminate]. destruct (pl_max (r_pl o)); [|discriminate]. cbn [optN_eqb]. auto.
Qed.

Theorem suggest_preserves_validity_explicit chk roas held limit store s :
  suggest chk roas held limit (Some store) = Some s ->
  wf_scope (scope_of held limit) -> wf_store store -> wf_roas roas ->
  explicit_maxb (roas_held roas held limit) = true ->
  forall a, In a store -> in_scope (scope_of held limit) a ->
    rov (map vrp_of (roas_held roas held limit)) (route_of a) = Valid ->
    rov (map vrp_of_payload (config_after (roas_held roas held limit) s)) (route_of a) = Valid.
Proof.
  intros H Hsc Hst Hwf Hex a Ha Hin Hv. eapply suggest_preserves_validity; eauto. apply explicit_no_twins; assumption.
Qed.

Example suggest_preserves_validity_nonvacuous :
  let a := mkAnn 64496 (mkP V4 167772160 24) in
  exists s, suggest true f17e_roas f17e_held None (Some f17e_store) = Some s
            /\ wf_scope (scope_of f17e_held None) /\ wf_store f17e_store /\ wf_roas f17e_roas
            /\ In a f17e_store /\ in_scope (scope_of f17e_held None) a
            /\ rov (map vrp_of (roas_held f17e_roas f17e_held None)) (route_of a) = Valid
            /\ twin_match (roas_held f17e_roas f17e_held None) a = false
            /\ explicit_maxb (roas_held f17e_roas f17e_held None) = true
            /\ length (s_too_permissive s) = 1%nat /\ length (s_redundant s) = 1%nat.
Proof.
  eexists. split; [vm_compute; reflexivity|].
  split; [split; [intros p [<-|[]]; split; reflexivity | intros p []]|].
  split; [intros x [<-|[]]; reflexivity|]. split; [intros r [<-|[<-|[]]]; reflexivity|].
  split; [left; reflexivity|]. split; [exists (mkP V4 167772160 8); split; [left; reflexivity | reflexivity]|].
  repeat split.
Qed.
