(** RFC 6811 (BGP Prefix Origin Validation), section 2, written from the RFC text
    as a three-valued function. Independent of the krill code: bit-prefix
    comparison by shifting, no masks, no early exits.

    RFC 6811 section 2:
    - "Covered: A Route Prefix is said to be Covered by a VRP when the VRP prefix
       length is less than or equal to the Route prefix length, and the VRP prefix
       address and the Route prefix address are identical for all bits specified
       by the VRP prefix length."
    - "Matched: A Route Prefix is said to be Matched by a VRP when the Route
       Prefix is Covered by that VRP, the Route prefix length is less than or
       equal to the VRP maximum length, and the Route Origin ASN is equal to the
       VRP ASN."
    - "NotFound: No VRP Covers the Route Prefix.  Valid: At least one VRP Matches
       the Route Prefix.  Invalid: At least one VRP Covers the Route Prefix, but
       no VRP Matches it."
    - "no valid Route can have an Origin ASN of zero [AS0]. Thus, no Route can be
       Matched by a VRP whose ASN is zero." *)
From KV Require Import base.Tac bgp.Prefix.
Open Scope N_scope.

Record vrp := mkVrp { vrp_pfx : prefix; vrp_max : N; vrp_asn : N }.
Record route := mkRoute { rt_pfx : prefix; rt_asn : N }.

Inductive rov_state := Valid | Invalid | NotFound.

(** The first [n] bits of an address of family [f]. *)
Definition first_bits (f : fam) (addr n : N) : N := N.shiftr addr (alen f - n).

(** "identical for all bits specified by the VRP prefix length", same address family. *)
Definition covered_pfx (v r : prefix) : bool :=
  fam_eqb (p_fam v) (p_fam r) && (p_len v <=? p_len r)
  && (first_bits (p_fam v) (p_addr v) (p_len v) =? first_bits (p_fam v) (p_addr r) (p_len v)).

Definition covered (v : vrp) (r : route) : bool := covered_pfx (vrp_pfx v) (rt_pfx r).

Definition matched (v : vrp) (r : route) : bool :=
  covered v r && (p_len (rt_pfx r) <=? vrp_max v) && (rt_asn r =? vrp_asn v) && negb (vrp_asn v =? 0).

Definition rov (vrps : list vrp) (r : route) : rov_state :=
  if existsb (fun v => matched v r) vrps then Valid
  else if existsb (fun v => covered v r) vrps then Invalid
  else NotFound.

(** The refinement of [Invalid] that krill reports (src/api/bgp.rs:995-1010), stated in RFC terms:
    - invalid length: some covering VRP has the route's origin (so only the length is wrong);
    - disallowed: every covering VRP is an AS0 VRP;
    - invalid ASN: otherwise. *)
Inductive invalid_kind := KLength | KAsn | KAs0.

Definition invalid_kind_of (vrps : list vrp) (r : route) : invalid_kind :=
  let cov := filter (fun v => covered v r) vrps in
  if existsb (fun v => rt_asn r =? vrp_asn v) cov then KLength
  else if forallb (fun v => vrp_asn v =? 0) cov then KAs0
  else KAsn.
