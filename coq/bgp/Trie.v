(** The announcement store of the analyser: the path-compressed binary prefix
    tree of [RouteOriginCollection] (src/server/bgp/riswhois.rs), level 2 of the
    C17 model (definitions only; proofs in [TrieProofs.v]).

    The Rust tree is index-linked (nodes in a [Vec], data and "no-data" prefixes in
    two slices, [u32] indices); the model is the inductive tree those indices
    describe: a node carries its prefix, the set of route origins with that prefix
    ([[]] for an artificial no-data node) and its two children. Source:
    - builder [CollectionBuilder::process] / [process_node] (riswhois.rs:329-444),
    - [RoutePrefix::bit], [closest_ancestor] (riswhois.rs:515-534, 554-573), [resize] (roa.rs:854-869, 959-974),
    - lookup [TreeIter::more_specific] (riswhois.rs:864-896) and iteration [TreeIter::next] (902-920). *)
From KV Require Import base.Tac bgp.Prefix bgp.Analyser.
Open Scope N_scope.

(** [RoutePrefix::bit]: bit [idx] counted from the left, [false] beyond the family width. *)
Definition pbit (p : prefix) (idx : N) : bool :=
  if alen (p_fam p) <=? idx then false else N.testbit (p_addr p) (alen (p_fam p) - 1 - idx).

(** [resize]: same address cut to [len] bits ([len >= alen]: full length, address unchanged). *)
Definition resize (p : prefix) (len : N) : prefix :=
  if alen (p_fam p) <=? len then mkP (p_fam p) (p_addr p) (alen (p_fam p))
  else mkP (p_fam p) (N.land (p_addr p) (netmask (p_fam p) len)) len.

(** [uN::leading_zeros] of a [w]-bit value. *)
Definition leading_zeros (w x : N) : N := if x =? 0 then w else w - N.size x.

(** [closest_ancestor]: [self.resize(min(leading_zeros(a ^ b), min(len a, len b)))]. *)
Definition closest_ancestor (p q : prefix) : prefix :=
  resize p (N.min (leading_zeros (alen (p_fam p)) (N.lxor (p_addr p) (p_addr q))) (N.min (p_len p) (p_len q))).

(** [P::default()]: the /0 prefix of the family. *)
Definition default_pfx (f : fam) : prefix := mkP f 0 0.

Inductive tree :=
| Leaf
| Node (p : prefix) (d : list ann) (l r : tree).

(** One set of route origins with the same prefix, as the builder sees the sorted data
    ([next_prefix] / [advance_data], riswhois.rs:447-454, 800-821). *)
Definition pgroup : Type := prefix * list ann.

(** [process_node] (364-444). The Rust function loops; each iteration either returns or replaces one child by
    the result of a recursive call and continues: here the continuation is the tail call with the same prefix.
    [fuel] bounds the nesting; [None] = fuel exhausted (never happens with the fuel of [build], see
    [TrieProofs.build_total]). *)
Fixpoint process_node (fuel : nat) (p : prefix) (d : list ann) (l r : tree) (input : list pgroup)
  : option (tree * list pgroup) :=
  match fuel with
  | O => None
  | S f =>
      match input with
      | [] => Some (Node p d l r, [])                                    (* 371-373 *)
      | (np, nd) :: rest =>
          if negb (covers p np) then Some (Node p d l r, input)          (* 376-378 *)
          else if negb (pbit np (p_len p)) then                          (* 380: left child *)
            match l with
            | Node lp _ _ _ =>                                           (* 383-398 *)
                match process_node f (closest_ancestor lp np) [] l Leaf input with
                | Some (inter, input') => process_node f p d inter r input'
                | None => None
                end
            | Leaf =>                                                    (* 399-410 *)
                match process_node f np nd Leaf Leaf rest with
                | Some (ln, input') => process_node f p d ln r input'
                | None => None
                end
            end
          else                                                           (* 412: right child *)
            match r with
            | Node rp _ _ _ =>                                           (* 415-430: old right child becomes the left child *)
                match process_node f (closest_ancestor rp np) [] r Leaf input with
                | Some (inter, input') => process_node f p d l inter input'
                | None => None
                end
            | Leaf =>                                                    (* 431-441 *)
                match process_node f np nd Leaf Leaf rest with
                | Some (rn, input') => process_node f p d l rn input'
                | None => None
                end
            end
      end
  end.

(** [process] (329-358): the root is the /0 prefix, a data node when /0 is in the data. *)
Definition build_fuel (input : list pgroup) : nat := 2 * length input + 2.
Definition build (f : fam) (input : list pgroup) : option tree :=
  match input with
  | [] => Some Leaf
  | (p0, d0) :: rest =>
      match (if prefix_eqb p0 (default_pfx f)
             then process_node (build_fuel input) p0 d0 Leaf Leaf rest
             else process_node (build_fuel input) (default_pfx f) [] Leaf Leaf input) with
      | Some (t, _) => Some t
      | None => None
      end
  end.

(** [TreeIter::more_specific] (864-896): walk down to the first node that [q] covers. *)
Fixpoint descend (t : tree) (q : prefix) : tree :=
  match t with
  | Leaf => Leaf
  | Node p d l r =>
      if (p_len q <=? p_len p) && (prefix_eqb q p || covers q p) then t
      else if negb (pbit q (p_len p)) then descend l q else descend r q
  end.

(** [TreeIter::next] (902-920): the node itself, then left, then right; no-data nodes yield nothing. *)
Fixpoint iter (t : tree) : list (list ann) :=
  match t with
  | Leaf => []
  | Node _ d l r => match d with [] => [] | _ => [d] end ++ iter l ++ iter r
  end.

Definition tree_lookup (t : tree) (q : prefix) : list (list ann) := iter (descend t q).

(** The sorted data as the builder sees it: one group per distinct prefix. *)
Definition pgroups (store : list ann) : list pgroup :=
  flat_map (fun g => match g with [] => [] | a :: _ => [(a_pfx a, g)] end) (group (ann_sort store)).

Definition fam_store (f : fam) (store : list ann) : list ann := filter (fun a => fam_eqb (p_fam (a_pfx a)) f) store.

(** The collection for one family and its lookup, as [analyse] uses it. [None] only if the builder model ran out of fuel. *)
Definition trie_eq_or_more_specific (store : list ann) (q : prefix) : option (list (list ann)) :=
  match build (p_fam q) (pgroups (fam_store (p_fam q) store)) with
  | Some t => Some (tree_lookup t q)
  | None => None
  end.
