(** IP prefixes as [(family, address : N, length : N)] and the prefix operations of
    the krill code, modelled as they are written (definitions only; proofs in
    [AnalyserProofs.v] / [TrieProofs.v]).

    Source: [Ipv4Prefix]/[Ipv6Prefix] (src/api/roa.rs:828-1031), [TypedPrefix]
    (src/api/roa.rs:645-780), [impl RoutePrefix for Ipv4Prefix / Ipv6Prefix]
    (src/server/bgp/riswhois.rs:502-578). The address is the value of
    [addr().to_bits()] (u32 / u128); the Rust types guarantee [wf_prefix]
    (length within the family, host bits zero). *)
From KV Require Import base.Tac.
Open Scope N_scope.

Inductive fam := V4 | V6.

Definition fam_eqb (a b : fam) : bool :=
  match a, b with V4, V4 | V6, V6 => true | _, _ => false end.

(** Number of address bits of the family. *)
Definition alen (f : fam) : N := match f with V4 => 32 | V6 => 128 end.

Record prefix := mkP { p_fam : fam; p_addr : N; p_len : N }.

Definition prefix_eqb (p q : prefix) : bool :=
  fam_eqb (p_fam p) (p_fam q) && (p_addr p =? p_addr q) && (p_len p =? p_len q).

(** [!(uN::MAX >> len)] for [len < alen]: the network mask of the family. *)
Definition netmask (f : fam) (len : N) : N :=
  N.ldiff (N.ones (alen f)) (N.shiftr (N.ones (alen f)) len).

(** [RoutePrefix::covers] (riswhois.rs:503-513 and 542-552). The Rust method is
    generic over one prefix type, i.e. it is only ever applied to prefixes of one
    family; the model makes that explicit by the family test. *)
Definition covers (p q : prefix) : bool :=
  fam_eqb (p_fam p) (p_fam q) &&
  (if p_len q <? p_len p then false
   else if p_len p =? alen (p_fam p) then p_addr p =? p_addr q
   else p_addr p =? N.land (p_addr q) (netmask (p_fam p) (p_len p))).

(** The invariant the Rust prefix types maintain (constructors: [FromStr], [From<Prefix>], [resize]). *)
Definition host_bits (p : prefix) : N := alen (p_fam p) - p_len p.
Definition wf_prefixb (p : prefix) : bool :=
  (p_len p <=? alen (p_fam p)) && (p_addr p <? 2 ^ alen (p_fam p))
  && (p_addr p =? N.shiftl (N.shiftr (p_addr p) (host_bits p)) (host_bits p)).
Definition wf_prefix (p : prefix) : Prop := wf_prefixb p = true.

(** Derived [Ord] of [Ipv4Prefix]/[Ipv6Prefix]: address, then length (roa.rs:828, 933). *)
Definition prefix_ltb (p q : prefix) : bool :=
  (p_addr p <? p_addr q) || ((p_addr p =? p_addr q) && (p_len p <? p_len q)).
Definition prefix_leb (p q : prefix) : bool :=
  (p_addr p <? p_addr q) || ((p_addr p =? p_addr q) && (p_len p <=? p_len q)).

(** ** The 128-bit view of the [rpki] crate ([Addr(u128)], IPv4 left-aligned)

    [rpki::resources::Prefix::range] = [(addr, addr.to_max(len))] with
    [to_max len = addr | (!0 >> len)] for [len < 128] (rpki-0.19.2 ipres.rs:1452,1637);
    an IPv4 address occupies the top 32 bits ([Addr::from_v4]). *)
Definition addr128 (p : prefix) : N :=
  match p_fam p with V4 => N.shiftl (p_addr p) 96 | V6 => p_addr p end.
Definition min128 (p : prefix) : N := addr128 p.
Definition max128 (p : prefix) : N :=
  if 128 <=? p_len p then addr128 p else N.lor (addr128 p) (N.shiftr (N.ones 128) (p_len p)).
