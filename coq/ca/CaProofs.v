(** Proofs about the CA model (C04, C06, C03, C14). *)
From KV Require Import base.Tac ca.Ca.
Open Scope N_scope.

(** ** Association lists *)
Lemma aget_aremove_eq {V} k (l : list (N * V)) : aget k (aremove k l) = None.
Proof.
  induction l as [|[k' v] l IH]; simpl; auto.
  destruct (k' =? k) eqn:E; auto. simpl. rewrite E. auto.
Qed.

Lemma aget_aremove_neq {V} k k' (l : list (N * V)) : k' <> k -> aget k' (aremove k l) = aget k' l.
Proof.
  intros Hne. induction l as [|[k0 v] l IH]; simpl; auto.
  destruct (k0 =? k) eqn:E.
  - apply N.eqb_eq in E. subst. destruct (k =? k') eqn:E2; auto. apply N.eqb_eq in E2. congruence.
  - simpl. destruct (k0 =? k'); auto.
Qed.

Lemma aget_ainsert_eq {V} k (v : V) l : aget k (ainsert k v l) = Some v.
Proof. unfold ainsert. simpl. rewrite N.eqb_refl. reflexivity. Qed.

Lemma aget_ainsert_neq {V} k k' (v : V) l : k' <> k -> aget k' (ainsert k v l) = aget k' l.
Proof.
  intros Hne. unfold ainsert. simpl. destruct (k =? k') eqn:E.
  - apply N.eqb_eq in E. congruence.
  - apply aget_aremove_neq. auto.
Qed.

(** ** Key events never panic when they come from [kprocess] (C04, C06, C16) *)

(** The key state after the key events of one class, at the level of the key state alone. *)
Definition ks_apply (c : N) (ks : keystate) (e : event) : option keystate :=
  match e with
  | ECertRequested c' ki => if c' =? c then Some (ks_issuance_request ks ki) else Some ks
  | ECertReceived c' ki crt => if c' =? c then ks_received_cert ks ki crt else Some ks
  | EPendingKeyAdded c' ki => if c' =? c then ks_pending_added ks ki else Some ks
  | EPendingToNew c' crt => if c' =? c then ks_pending_to_new ks (ck_create crt) else Some ks
  | EPendingToActive c' crt => if c' =? c then ks_pending_to_active ks (ck_create crt) else Some ks
  | ERollActivated c' => if c' =? c then ks_activated ks else Some ks
  | ERollFinished c' => if c' =? c then ks_old_removed ks else Some ks
  | _ => Some ks
  end.

Definition ks_apply_all (c : N) (ks : keystate) (evs : list event) : option keystate :=
  fold_left (fun o e => match o with Some k => ks_apply c k e | None => None end) evs (Some ks).

Theorem kprocess_keys_applicable c ks cmd evs :
  kprocess c ks cmd = Ok evs -> ks_apply_all c ks evs <> None.
Proof.
  unfold ks_apply_all. destruct cmd as [fresh| | |crt|ki]; simpl.
  - destruct ks; intros H; inv H; simpl; rewrite ?N.eqb_refl; simpl; rewrite ?N.eqb_refl; discriminate.
  - destruct ks as [p|k|p k|n k|k o]; try (intros H; inv H; simpl; discriminate).
    destruct (k_req n || k_req k); intros H; inv H. simpl. rewrite N.eqb_refl. discriminate.
  - destruct ks; intros H; inv H. simpl. rewrite N.eqb_refl. discriminate.
  - destruct ks as [p|k|p k|n k|k o]; repeat destr_match; intros H; inv H; simpl; rewrite ?N.eqb_refl; simpl; discriminate.
  - destruct (ks_knows ks ki); intros H; inv H. simpl. rewrite N.eqb_refl. discriminate.
Qed.

(** Lift to the CA: applying key events of class [c] to a CA that has class [c]. *)
Lemma apply_key_event s c rc e ks' :
  aget c (ca_classes s) = Some rc ->
  ks_apply c (rc_keys rc) e = Some ks' ->
  (match e with
   | ECertRequested c' _ | ECertReceived c' _ _ | EPendingKeyAdded c' _ | EPendingToNew c' _
   | EPendingToActive c' _ | ERollActivated c' | ERollFinished c' => c' = c
   | _ => False end) ->
  exists s', apply s e = Some s' /\ aget c (ca_classes s') = Some (rc_with_keys rc ks').
Proof.
  intros Hc Hk He.
  destruct e; try contradiction; subst; simpl in Hk; rewrite N.eqb_refl in Hk; simpl;
    unfold upd_keys, upd_class; rewrite Hc; try rewrite Hk;
    try (inv Hk); eexists; split; try reflexivity; simpl; apply aget_ainsert_eq.
Qed.

Definition is_key_event_of (c : N) (e : event) : Prop :=
  match e with
  | ECertRequested c' _ | ECertReceived c' _ _ | EPendingKeyAdded c' _ | EPendingToNew c' _
  | EPendingToActive c' _ | ERollActivated c' | ERollFinished c' => c' = c
  | _ => False
  end.

Lemma kprocess_events_are_key_events c ks cmd evs :
  kprocess c ks cmd = Ok evs -> Forall (is_key_event_of c) evs.
Proof.
  destruct cmd as [fresh| | |crt|ki]; simpl.
  - destruct ks; intros H; inv H; repeat constructor.
  - destruct ks as [p|k|p k|n k|k o]; try (intros H; inv H; constructor).
    destruct (k_req n || k_req k); intros H; inv H. repeat constructor.
  - destruct ks; intros H; inv H. repeat constructor.
  - destruct ks as [p|k|p k|n k|k o]; repeat destr_match; intros H; inv H; repeat constructor.
  - destruct (ks_knows ks ki); intros H; inv H. repeat constructor.
Qed.

Lemma apply_key_events evs : forall s c rc,
  aget c (ca_classes s) = Some rc ->
  Forall (is_key_event_of c) evs ->
  forall ks', ks_apply_all c (rc_keys rc) evs = Some ks' ->
  exists s', apply_all s evs = Some s' /\ aget c (ca_classes s') = Some (rc_with_keys rc ks').
Proof.
  induction evs as [|e evs IH]; intros s c rc Hc Hall ks' Hk.
  - unfold ks_apply_all in Hk. simpl in Hk. inv Hk. exists s. split; auto.
    rewrite Hc. destruct rc; reflexivity.
  - inv Hall. unfold ks_apply_all in Hk. simpl in Hk.
    destruct (ks_apply c (rc_keys rc) e) as [k1|] eqn:E.
    + destruct (apply_key_event s c rc e k1 Hc E) as [s1 [Ha Hc1]].
      { destruct e; simpl in *; auto. }
      specialize (IH s1 c (rc_with_keys rc k1) Hc1 H2 ks').
      destruct IH as [s' [Hs' Hc']]; [exact Hk|].
      exists s'. split.
      * unfold apply_all. simpl. rewrite Ha. exact Hs'.
      * rewrite Hc'. destruct rc; reflexivity.
    + exfalso. clear -Hk. induction evs; simpl in Hk; [discriminate|auto].
Qed.

(** The obligation of C04/C06: no event emitted by the key life-cycle commands hits a panicking arm of
    [apply] (rc.rs "XXX PANICS") or an [unwrap] on a missing class. *)
Theorem events_applicable s c rc cmd evs :
  aget c (ca_classes s) = Some rc ->
  kprocess c (rc_keys rc) cmd = Ok evs ->
  apply_all s evs <> None.
Proof.
  intros Hc Hp.
  pose proof (kprocess_keys_applicable _ _ _ _ Hp) as Hk.
  destruct (ks_apply_all c (rc_keys rc) evs) as [ks'|] eqn:E; [|congruence].
  destruct (apply_key_events evs s c rc Hc (kprocess_events_are_key_events _ _ _ _ Hp) ks' E) as [s' [Hs' _]].
  congruence.
Qed.

(** ** The roll can always finish *)
Definition kstep (c : N) (ks : keystate) (cmd : kcmd) : option keystate :=
  match kprocess c ks cmd with Ok evs => ks_apply_all c ks evs | Err => None end.

Definition krun (c : N) (ks : keystate) (cmds : list kcmd) : option keystate :=
  fold_left (fun o cmd => match o with Some k => kstep c k cmd | None => None end) cmds (Some ks).

(** Keys of one class are pairwise different (fresh keys are new). *)
Definition ks_wf (ks : keystate) : Prop :=
  match ks with
  | KPending _ | KActive _ => True
  | KRollPending p c => p_id p <> k_id c
  | KRollNew n c => k_id n <> k_id c
  | KRollOld c o => k_id c <> k_id o
  end.

(** The continuation an honest parent and the operator can always take: answer every open request,
    activate, confirm the revocation. [mk k] is the certificate the parent issues for key [k]. *)
Definition finish_plan (mk : N -> cert) (ks : keystate) : list kcmd :=
  match ks with
  | KPending p => [CReceived (mk (p_id p))]
  | KActive _ => []
  | KRollPending p c => [CReceived (mk (p_id p)); CReceived (mk (k_id c)); CRollActivate; CRollFinish]
  | KRollNew n c => [CReceived (mk (k_id n)); CReceived (mk (k_id c)); CRollActivate; CRollFinish]
  | KRollOld _ _ => [CRollFinish]
  end.

Definition is_active (ks : keystate) : Prop := match ks with KActive _ => True | _ => False end.

Theorem roll_can_always_finish c mk ks :
  (forall k, c_key (mk k) = k) -> ks_wf ks ->
  exists ks', krun c ks (finish_plan mk ks) = Some ks' /\ is_active ks' /\ (length (finish_plan mk ks) <= 4)%nat.
Proof.
  intros Hmk Hwf.
  destruct ks as [p|k|p k|n k|k o]; simpl in Hwf;
    try (assert (E1 : p_id p =? k_id k = false) by (apply N.eqb_neq; auto));
    try (assert (E1 : k_id n =? k_id k = false) by (apply N.eqb_neq; auto));
    eexists; unfold krun, kstep, ks_apply_all;
    repeat first [ progress simpl | rewrite Hmk | rewrite N.eqb_refl | rewrite E1 ];
    (split; [reflexivity|]); (split; [exact I|lia]).
Qed.

Ltac kcrunch :=
  repeat first
    [ progress (simpl in *)
    | rewrite N.eqb_refl in *
    | match goal with
      | H : Some _ = Some _ |- _ => inv H
      | H : None = Some _ |- _ => discriminate H
      | H : @Err _ = Ok _ |- _ => discriminate H
      | H : (_ =? _) = true |- _ => apply N.eqb_eq in H
      | H : (_ =? _) = false |- _ => apply N.eqb_neq in H
      | H : context [if ?b then _ else _] |- _ => destruct b eqn:?
      end ].

(** Well-formedness is kept by every key command (a fresh key is different from the current one). *)
Theorem kstep_keeps_wf c ks cmd ks' :
  ks_wf ks ->
  (forall fresh k, cmd = CRollInit fresh -> ks_current ks = Some k -> fresh <> k_id k) ->
  kstep c ks cmd = Some ks' -> ks_wf ks'.
Proof.
  intros Hwf Hfresh. unfold kstep, ks_apply_all.
  destruct cmd as [fresh| | |crt|ki]; destruct ks as [p|k|p k|n k|k o]; intros H; kcrunch; auto; try congruence;
    try (eapply Hfresh; reflexivity);
    repeat (match goal with |- context [if ?b then _ else _] => destruct b end); simpl; auto.
Qed.

(** A second initiate request while a roll is in progress is a no-op; activation needs a certified new
    key without open requests; finishing needs an old key (keys.rs:725-792, rc.rs:641-650). *)
Theorem second_initiate_noop c ks fresh : ~ is_active ks -> kprocess c ks (CRollInit fresh) = Ok [].
Proof. destruct ks; simpl; auto. intros H. exfalso. apply H. exact I. Qed.

Theorem activate_guard c ks evs :
  kprocess c ks CRollActivate = Ok evs -> evs <> [] ->
  exists n cur, ks = KRollNew n cur /\ k_req n = false /\ k_req cur = false.
Proof.
  destruct ks as [p|k|p k|n k|k o]; simpl; try (intros H; inv H; congruence).
  destruct (k_req n) eqn:E1; destruct (k_req k) eqn:E2; simpl; try discriminate.
  intros _ _. eauto.
Qed.

Theorem finish_guard c ks evs : kprocess c ks CRollFinish = Ok evs -> exists cur o, ks = KRollOld cur o.
Proof. destruct ks; simpl; try discriminate. eauto. Qed.

(** No state has a key in the current role without a certificate: the current key is always a
    certified key by construction of [keystate]; what remains is that its certificate is for that key. *)
Definition cert_matches (ks : keystate) : Prop :=
  match ks_current ks with Some k => c_key (k_cert k) = k_id k | None => True end.

Theorem kstep_keeps_cert_matches c ks cmd ks' :
  cert_matches ks ->
  (match ks with KRollNew n _ => c_key (k_cert n) = k_id n | _ => True end) ->
  kstep c ks cmd = Some ks' -> cert_matches ks'.
Proof.
  unfold cert_matches, kstep, ks_apply_all. intros Hm Hn.
  destruct cmd as [fresh| | |crt|ki]; destruct ks as [p|k|p k|n k|k o]; intros H; kcrunch; auto; try congruence;
    repeat (match goal with |- context [if ?b then _ else _] => destruct b eqn:? end); kcrunch; auto; try congruence.
Qed.

(** ** Child certificates: a key is never both issued and suspended (the invariant behind F04b) *)
Definition certs_disjoint (rc : rclass) : Prop := forall k, amem k (rc_issued rc) = true -> amem k (rc_susp rc) = false.

Lemma amem_ainsert {V} k k' (v : V) l : amem k' (ainsert k v l) = (k =? k') || amem k' l.
Proof.
  unfold amem. destruct (N.eq_dec k' k) as [->|Hne].
  - rewrite aget_ainsert_eq, N.eqb_refl. reflexivity.
  - rewrite aget_ainsert_neq by auto. assert (k =? k' = false) by (apply N.eqb_neq; auto). rewrite H. reflexivity.
Qed.

Lemma amem_aremove {V} k k' (l : list (N * V)) : amem k' (aremove k l) = negb (k =? k') && amem k' l.
Proof.
  unfold amem. destruct (N.eq_dec k' k) as [->|Hne].
  - rewrite aget_aremove_eq, N.eqb_refl. reflexivity.
  - rewrite aget_aremove_neq by auto. assert (k =? k' = false) by (apply N.eqb_neq; auto). rewrite H. reflexivity.
Qed.

Ltac disj_tac :=
  unfold certs_disjoint, certs_add_issued, certs_unsuspend, certs_suspend, certs_remove, rc_with_certs;
  cbn [rc_issued rc_susp]; intros Hd k' Hk';
  rewrite ?amem_ainsert, ?amem_aremove in *;
  match goal with |- context [?k =? k'] => destruct (k =? k') eqn:? end; simpl in *; auto; try discriminate;
  rewrite ?andb_true_r, ?andb_false_r in *; auto.

Theorem add_issued_keeps_disjoint rc k o : certs_disjoint rc -> certs_disjoint (certs_add_issued rc k o).
Proof. disj_tac. Qed.
Theorem unsuspend_keeps_disjoint rc k o : certs_disjoint rc -> certs_disjoint (certs_unsuspend rc k o).
Proof. disj_tac. Qed.
Theorem suspend_keeps_disjoint rc k o : certs_disjoint rc -> certs_disjoint (certs_suspend rc k o).
Proof. disj_tac. Qed.
Theorem remove_keeps_disjoint rc k : certs_disjoint rc -> certs_disjoint (certs_remove rc k).
Proof. disj_tac. Qed.

(** The originally pinned [add_issued_certificate] did not keep it (F04b): unsuspending re-issues through
    the normal issuance path and left the old entry in [suspended]. *)
Example pinned_add_issued_breaks_disjoint :
  let rc := mkRC 0 0 (KPending (mkPK 0 false)) [] [] [] [] [(7, mkObj 1 1 0)] in
  certs_disjoint rc /\ ~ certs_disjoint (certs_add_issued_pinned rc 7 (mkObj 1 2 0)).
Proof.
  split.
  - intros k H. simpl in H. discriminate.
  - intros H. specialize (H 7 eq_refl). vm_compute in H. discriminate.
Qed.

(** With it, a key roll activation keeps every issued certificate: re-issuing all issued and all suspended
    certificates (rc.rs:607-617, child.rs:242-273) and applying that update (certauth.rs:401-438) leaves
    exactly the same keys issued and the same keys suspended. *)
Definition activate_cert_update (rc : rclass) (re : obj -> obj) : list (N * obj) * list (N * obj) :=
  (map (fun '(k, o) => (k, re o)) (rc_issued rc), map (fun '(k, o) => (k, re o)) (rc_susp rc)).

Definition apply_cert_update (rc : rclass) (issued suspended : list (N * obj)) : rclass :=
  fold_left (fun r '(k, o) => certs_suspend r k o) suspended
    (fold_left (fun r '(k, o) => certs_add_issued r k o) issued rc).

Lemma fold_add_issued_mem l : forall rc k,
  amem k (rc_issued (fold_left (fun r '(k, o) => certs_add_issued r k o) l rc)) = amem k (rc_issued rc) || existsb (fun '(k', _) => k' =? k) l.
Proof.
  induction l as [|[k0 o0] l IH]; intros rc k; simpl; [rewrite orb_false_r; reflexivity|].
  rewrite IH. unfold certs_add_issued, rc_with_certs. cbn [rc_issued]. rewrite amem_ainsert.
  destruct (amem k (rc_issued rc)), (k0 =? k); simpl; auto.
Qed.

Lemma fold_suspend_issued_mem l : forall rc k,
  amem k (rc_issued (fold_left (fun r '(k, o) => certs_suspend r k o) l rc)) = amem k (rc_issued rc) && negb (existsb (fun '(k', _) => k' =? k) l).
Proof.
  induction l as [|[k0 o0] l IH]; intros rc k; simpl; [rewrite andb_true_r; reflexivity|].
  rewrite IH. unfold certs_suspend, rc_with_certs. cbn [rc_issued]. rewrite amem_aremove.
  destruct (amem k (rc_issued rc)), (k0 =? k); simpl; auto.
Qed.

Lemma existsb_map_key {A} (f : A -> A) (l : list (N * A)) k :
  existsb (fun '(k', _) => k' =? k) (map (fun '(k, o) => (k, f o)) l) = existsb (fun '(k', _) => k' =? k) l.
Proof. induction l as [|[k0 o] l IH]; simpl; auto. rewrite IH. reflexivity. Qed.

Lemma amem_existsb {V} (l : list (N * V)) k : amem k l = existsb (fun '(k', _) => k' =? k) l.
Proof.
  unfold amem. induction l as [|[k0 v] l IH]; simpl; auto.
  destruct (k0 =? k); simpl; auto.
Qed.

Theorem activation_keeps_issued rc re k :
  certs_disjoint rc ->
  let '(i, s) := activate_cert_update rc re in
  amem k (rc_issued (apply_cert_update rc i s)) = amem k (rc_issued rc).
Proof.
  intros Hd. unfold activate_cert_update, apply_cert_update.
  rewrite fold_suspend_issued_mem, fold_add_issued_mem, !existsb_map_key, <- !amem_existsb.
  destruct (amem k (rc_issued rc)) eqn:E; simpl; auto.
  rewrite (Hd k E). reflexivity.
Qed.

(** Without the invariant the live certificate is lost at activation: the witness of F04b. *)
Example activation_loses_issued_without_disjoint :
  let rc := mkRC 0 0 (KPending (mkPK 0 false)) [] [] [] [(7, mkObj 1 2 0)] [(7, mkObj 1 1 0)] in
  let '(i, s) := activate_cert_update rc (fun o => o) in
  amem 7 (rc_issued rc) = true /\ amem 7 (rc_issued (apply_cert_update rc i s)) = false.
Proof. vm_compute. split; reflexivity. Qed.
