(** Model of the event-sourced CA aggregate at the level of resource classes,
    keys and products, and of its companion published-object store.

    Rust sources modelled (pinned tree):
    - src/server/ca/keys.rs      KeyState, apply_issuance_request, key life cycle guards (725-792)
    - src/server/ca/rc.rs        ResourceClass: process_received_cert routing (203-275),
                                 key-roll commands (534-650), all apply_* (880-1041; panics = None)
    - src/server/ca/child.rs     ChildCertificates: add_issued / suspend / unsuspend / remove (200-223)
    - src/server/ca/certauth.rs  CertAuth::apply (368-673; every unwrap on a missing class/child = None)
    - src/server/ca/publishing.rs  pre-save listener (83-198), CaObjects / ResourceClassObjects
                                 (432-583, 720-878), KeyObjectSet (1245-1397), ObjectSetRevision (1417-1475)

    Identities are canonical numbers chosen by the harness: keys by order of first appearance, file
    names and serial numbers interned, resource sets as atom bit masks. No proofs in this file. *)
From KV Require Import base.Tac.
Open Scope N_scope.

(** * Keys *)
Record cert := mkCert { c_key : N; c_res : N; c_ser : N }.
Record ckey := mkCK { k_id : N; k_cert : cert; k_req : bool }.
Record pkey := mkPK { p_id : N; p_req : bool }.

Inductive keystate :=
| KPending (p : pkey)
| KActive (c : ckey)
| KRollPending (p : pkey) (c : ckey)
| KRollNew (n : ckey) (c : ckey)
| KRollOld (c : ckey) (o : ckey).

Definition ck_create (crt : cert) : ckey := mkCK (c_key crt) crt false.          (* CertifiedKey::create *)
Definition ck_set_cert (k : ckey) (crt : cert) : ckey := mkCK (k_id k) crt false. (* set_incoming_cert clears the request *)
Definition ck_set_req (k : ckey) : ckey := mkCK (k_id k) (k_cert k) true.

(** keys.rs:335-372 *)
Definition ks_issuance_request (ks : keystate) (ki : N) : keystate :=
  match ks with
  | KPending p => KPending (mkPK (p_id p) true)
  | KActive c => KActive (ck_set_req c)
  | KRollPending p c => if p_id p =? ki then KRollPending (mkPK (p_id p) true) c else KRollPending p (ck_set_req c)
  | KRollNew n c => if k_id n =? ki then KRollNew (ck_set_req n) c else KRollNew n (ck_set_req c)
  | KRollOld c o => if k_id c =? ki then KRollOld (ck_set_req c) o else KRollOld c (ck_set_req o)
  end.

(** rc.rs:891-923 (panics in Pending) *)
Definition ks_received_cert (ks : keystate) (ki : N) (crt : cert) : option keystate :=
  match ks with
  | KPending _ => None
  | KActive c => Some (KActive (ck_set_cert c crt))
  | KRollPending p c => Some (KRollPending p (ck_set_cert c crt))
  | KRollNew n c => Some (if k_id n =? ki then KRollNew (ck_set_cert n crt) c else KRollNew n (ck_set_cert c crt))
  | KRollOld c o => Some (if k_id c =? ki then KRollOld (ck_set_cert c crt) o else KRollOld c (ck_set_cert o crt))
  end.

(** rc.rs:928-1000 *)
Definition ks_pending_added (ks : keystate) (ki : N) : option keystate :=
  match ks with KActive c => Some (KRollPending (mkPK ki false) c) | _ => None end.
Definition ks_pending_to_new (ks : keystate) (n : ckey) : option keystate :=
  match ks with KRollPending _ c => Some (KRollNew n c) | _ => None end.
Definition ks_pending_to_active (ks : keystate) (n : ckey) : option keystate :=
  match ks with KPending _ => Some (KActive n) | _ => None end.
Definition ks_activated (ks : keystate) : option keystate :=
  match ks with KRollNew n c => Some (KRollOld n c) | _ => None end.
Definition ks_old_removed (ks : keystate) : option keystate :=
  match ks with KRollOld c _ => Some (KActive c) | _ => None end.

Definition ks_current (ks : keystate) : option ckey :=
  match ks with
  | KPending _ => None
  | KActive c | KRollPending _ c | KRollNew _ c | KRollOld c _ => Some c
  end.

(** * Products *)
Inductive kind := KRoa | KAspa | KBgpsec.
Definition kind_eqb (a b : kind) : bool :=
  match a, b with KRoa, KRoa | KAspa, KAspa | KBgpsec, KBgpsec => true | _, _ => false end.

(** A published object: interned file name, interned serial number, expiry (unix seconds). *)
Record obj := mkObj { o_name : N; o_ser : N; o_exp : Z }.

(** Generic finite maps as association lists (HashMap semantics: insert replaces). *)
Fixpoint aremove {V} (k : N) (l : list (N * V)) : list (N * V) :=
  match l with
  | [] => []
  | (k', v) :: r => if k' =? k then aremove k r else (k', v) :: aremove k r
  end.
Definition ainsert {V} (k : N) (v : V) (l : list (N * V)) : list (N * V) := (k, v) :: aremove k l.
Fixpoint aget {V} (k : N) (l : list (N * V)) : option V :=
  match l with
  | [] => None
  | (k', v) :: r => if k' =? k then Some v else aget k r
  end.
Definition amem {V} (k : N) (l : list (N * V)) : bool := match aget k l with Some _ => true | None => false end.

Record rclass := mkRC {
  rc_parent : N; rc_prcn : N; rc_keys : keystate;
  rc_roas : list (N * obj); rc_aspas : list (N * obj); rc_bgpsec : list (N * obj);   (* by file name *)
  rc_issued : list (N * obj); rc_susp : list (N * obj) }.                                (* by child key id *)

Definition rc_with_keys (rc : rclass) (ks : keystate) : rclass :=
  mkRC (rc_parent rc) (rc_prcn rc) ks (rc_roas rc) (rc_aspas rc) (rc_bgpsec rc) (rc_issued rc) (rc_susp rc).
Definition rc_with_certs (rc : rclass) (i s : list (N * obj)) : rclass :=
  mkRC (rc_parent rc) (rc_prcn rc) (rc_keys rc) (rc_roas rc) (rc_aspas rc) (rc_bgpsec rc) i s.
Definition rc_get_objs (rc : rclass) (k : kind) : list (N * obj) :=
  match k with KRoa => rc_roas rc | KAspa => rc_aspas rc | KBgpsec => rc_bgpsec rc end.
Definition rc_with_objs (rc : rclass) (k : kind) (l : list (N * obj)) : rclass :=
  match k with
  | KRoa => mkRC (rc_parent rc) (rc_prcn rc) (rc_keys rc) l (rc_aspas rc) (rc_bgpsec rc) (rc_issued rc) (rc_susp rc)
  | KAspa => mkRC (rc_parent rc) (rc_prcn rc) (rc_keys rc) (rc_roas rc) l (rc_bgpsec rc) (rc_issued rc) (rc_susp rc)
  | KBgpsec => mkRC (rc_parent rc) (rc_prcn rc) (rc_keys rc) (rc_roas rc) (rc_aspas rc) l (rc_issued rc) (rc_susp rc)
  end.

(** * Children (only what [apply] and the child commands look at) *)
Inductive used := InUse (rcn : N) | Revoked.
Record child := mkChild { ch_susp : bool; ch_used : list (N * used); ch_map : list (N * N) (* name in parent -> name for child *) }.
Definition ch_is_issued (ch : child) (ki : N) : bool :=
  match aget ki (ch_used ch) with Some (InUse _) => true | _ => false end.
Definition ch_set_used (ch : child) (ki : N) (u : used) : child :=
  mkChild (ch_susp ch) (ainsert ki u (ch_used ch)) (ch_map ch).

(** * The CA *)
Record ca := mkCA {
  ca_classes : list (N * rclass);
  ca_parents : list N;
  ca_children : list (N * child);
  ca_next : N }.

Definition ca_init : ca := mkCA [] [] [] 0.

Inductive event :=
(* children *)
| EChildAdded (h : N)
| EChildCertIssued (h c ki : N)
| EChildKeyRevoked (h c ki : N)
| EChildCertsUpdated (c : N) (issued : list (N * obj)) (removed : list N) (suspended : list (N * obj)) (unsuspended : list (N * obj))
| EChildUpdated (h : N)                       (* id certificate or resources *)
| EChildMapping (h name_in_parent name_for_child : N)
| EChildRemoved (h : N)
| EChildSuspended (h : N)
| EChildUnsuspended (h : N)
(* parents and classes *)
| EParentAdded (p : N)
| EParentRemoved (p : N)
| EClassAdded (c p prcn pending : N)
| EClassRemoved (c : N)
| ECertRequested (c ki : N)
| ECertReceived (c ki : N) (crt : cert)
(* key roll *)
| EPendingKeyAdded (c ki : N)
| EPendingToNew (c : N) (crt : cert)
| EPendingToActive (c : N) (crt : cert)
| ERollActivated (c : N)
| ERollFinished (c : N)
(* products *)
| EObjectsUpdated (c : N) (k : kind) (updated : list (N * obj)) (removed : list N)
| ERepoUpdated
| EOther.            (* events that touch none of the modelled state *)

Definition upd_class (s : ca) (c : N) (f : rclass -> option rclass) : option ca :=
  match aget c (ca_classes s) with
  | None => None                                         (* resources.get_mut(..).unwrap() *)
  | Some rc => match f rc with
               | None => None
               | Some rc' => Some (mkCA (ainsert c rc' (ca_classes s)) (ca_parents s) (ca_children s) (ca_next s))
               end
  end.

Definition upd_child (s : ca) (h : N) (f : child -> child) : option ca :=
  match aget h (ca_children s) with
  | None => None                                         (* children.get_mut(..).unwrap() *)
  | Some ch => Some (mkCA (ca_classes s) (ca_parents s) (ainsert h (f ch) (ca_children s)) (ca_next s))
  end.

Definition upd_keys (s : ca) (c : N) (f : keystate -> option keystate) : option ca :=
  upd_class s c (fun rc => match f (rc_keys rc) with Some ks => Some (rc_with_keys rc ks) | None => None end).

(** child.rs:200-224. [add_issued_certificate] also drops a suspended entry for the same key (repaired
    tree, finding F04b; the originally pinned tree left it in place: [certs_add_issued_pinned]). *)
Definition certs_add_issued (rc : rclass) (k : N) (o : obj) : rclass := rc_with_certs rc (ainsert k o (rc_issued rc)) (aremove k (rc_susp rc)).
Definition certs_add_issued_pinned (rc : rclass) (k : N) (o : obj) : rclass := rc_with_certs rc (ainsert k o (rc_issued rc)) (rc_susp rc).
Definition certs_unsuspend (rc : rclass) (k : N) (o : obj) : rclass := rc_with_certs rc (ainsert k o (rc_issued rc)) (aremove k (rc_susp rc)).
Definition certs_suspend (rc : rclass) (k : N) (o : obj) : rclass := rc_with_certs rc (aremove k (rc_issued rc)) (ainsert k o (rc_susp rc)).
Definition certs_remove (rc : rclass) (k : N) : rclass := rc_with_certs rc (aremove k (rc_issued rc)) (aremove k (rc_susp rc)).

Definition mark_revoked (chs : list (N * child)) (ki : N) : list (N * child) :=
  map (fun '(h, ch) => (h, if ch_is_issued ch ki then ch_set_used ch ki Revoked else ch)) chs.

(** CertAuth::apply (certauth.rs:368-673). [None] = panic. *)
Definition apply (s : ca) (e : event) : option ca :=
  match e with
  | EChildAdded h => Some (mkCA (ca_classes s) (ca_parents s) (ainsert h (mkChild false [] []) (ca_children s)) (ca_next s))
  | EChildCertIssued h c ki => upd_child s h (fun ch => ch_set_used ch ki (InUse c))
  | EChildKeyRevoked h c ki =>
      match upd_class s c (fun rc => Some (certs_remove rc ki)) with
      | None => None
      | Some s1 => upd_child s1 h (fun ch => ch_set_used ch ki Revoked)
      end
  | EChildCertsUpdated c issued removed suspended unsuspended =>
      match aget c (ca_classes s) with
      | None => None
      | Some rc =>
          let rc1 := fold_left (fun r '(k, o) => certs_add_issued r k o) issued rc in
          let rc2 := fold_left (fun r '(k, o) => certs_unsuspend r k o) unsuspended rc1 in
          let rc3 := fold_left certs_remove removed rc2 in
          let chs := fold_left mark_revoked removed (ca_children s) in
          let rc4 := fold_left (fun r '(k, o) => certs_suspend r k o) suspended rc3 in
          Some (mkCA (ainsert c rc4 (ca_classes s)) (ca_parents s) chs (ca_next s))
      end
  | EChildUpdated h => upd_child s h (fun ch => ch)
  | EChildMapping h a b => upd_child s h (fun ch => mkChild (ch_susp ch) (ch_used ch) (ainsert a b (ch_map ch)))
  | EChildRemoved h => Some (mkCA (ca_classes s) (ca_parents s) (aremove h (ca_children s)) (ca_next s))
  | EChildSuspended h => upd_child s h (fun ch => mkChild true (ch_used ch) (ch_map ch))
  | EChildUnsuspended h => upd_child s h (fun ch => mkChild false (ch_used ch) (ch_map ch))
  | EParentAdded p => Some (mkCA (ca_classes s) (p :: filter (fun q => negb (q =? p)) (ca_parents s)) (ca_children s) (ca_next s))
  | EParentRemoved p =>
      Some (mkCA (filter (fun '(_, rc) => negb (rc_parent rc =? p)) (ca_classes s))
                 (filter (fun q => negb (q =? p)) (ca_parents s)) (ca_children s) (ca_next s))
  | EClassAdded c p prcn pending =>
      Some (mkCA (ainsert c (mkRC p prcn (KPending (mkPK pending false)) [] [] [] [] []) (ca_classes s))
                 (ca_parents s) (ca_children s) (ca_next s + 1))
  | EClassRemoved c => Some (mkCA (aremove c (ca_classes s)) (ca_parents s) (ca_children s) (ca_next s))
  | ECertRequested c ki => upd_keys s c (fun ks => Some (ks_issuance_request ks ki))
  | ECertReceived c ki crt => upd_keys s c (fun ks => ks_received_cert ks ki crt)
  | EPendingKeyAdded c ki => upd_keys s c (fun ks => ks_pending_added ks ki)
  | EPendingToNew c crt => upd_keys s c (fun ks => ks_pending_to_new ks (ck_create crt))
  | EPendingToActive c crt => upd_keys s c (fun ks => ks_pending_to_active ks (ck_create crt))
  | ERollActivated c => upd_keys s c ks_activated
  | ERollFinished c => upd_keys s c ks_old_removed
  | EObjectsUpdated c k updated removed =>
      upd_class s c (fun rc =>
        let l1 := fold_left (fun l '(n, o) => ainsert n o l) updated (rc_get_objs rc k) in
        let l2 := fold_left (fun l n => aremove n l) removed l1 in
        Some (rc_with_objs rc k l2))
  | ERepoUpdated => Some s
  | EOther => Some s
  end.

Definition apply_all (s : ca) (evs : list event) : option ca :=
  fold_left (fun o e => match o with Some s => apply s e | None => None end) evs (Some s).

(** * The published-object store (CaObjects) *)
Record oset := mkOS {
  s_key : N;                         (* key of the signing certificate *)
  s_pub : list (N * obj);            (* published objects by file name *)
  s_rev : list (N * Z);              (* revocations: serial, expiry *)
  s_num : N;                         (* manifest and CRL number *)
  s_next : Z }.                      (* next update (unix seconds) *)

Inductive okeys := OCur (c : oset) | OStg (s c : oset) | OOld (c o : oset).
Definition objects : Type := list (N * okeys).

Inductive result (A : Type) := Ok (a : A) | Err.
Arguments Ok {A}. Arguments Err {A}.

Definition os_create (key : N) (next : Z) : oset := mkOS key [] [] 1 next.

Definition revoke_of (o : obj) : N * Z := (o_ser o, o_exp o).

(** insert / remove with revocation of the superseded object (publishing.rs:1245-1338) *)
Definition os_insert (s : oset) (n : N) (o : obj) : oset :=
  match aget n (s_pub s) with
  | Some old => mkOS (s_key s) (ainsert n o (s_pub s)) (revoke_of old :: s_rev s) (s_num s) (s_next s)
  | None => mkOS (s_key s) (ainsert n o (s_pub s)) (s_rev s) (s_num s) (s_next s)
  end.
Definition os_insert_norevoke (s : oset) (n : N) (o : obj) : oset :=
  mkOS (s_key s) (ainsert n o (s_pub s)) (s_rev s) (s_num s) (s_next s).
Definition os_remove (s : oset) (n : N) : oset :=
  match aget n (s_pub s) with
  | Some old => mkOS (s_key s) (aremove n (s_pub s)) (revoke_of old :: s_rev s) (s_num s) (s_next s)
  | None => s
  end.

Definition os_update_objs (s : oset) (updated : list (N * obj)) (removed : list N) : oset :=
  fold_left os_remove removed (fold_left (fun s '(n, o) => os_insert s n o) updated s).

(** update_certs: removed, issued, unsuspended (no revocation of a replaced entry), suspended.
    Child certificates are published under the name of their object. *)
Definition os_update_certs (s : oset) (issued : list (N * obj)) (removed_names : list N)
           (suspended unsuspended : list (N * obj)) : oset :=
  let s1 := fold_left os_remove removed_names s in
  let s2 := fold_left (fun s '(_, o) => os_insert s (o_name o) o) issued s1 in
  let s3 := fold_left (fun s '(_, o) => os_insert_norevoke s (o_name o) o) unsuspended s2 in
  fold_left (fun s '(_, o) => os_remove s (o_name o)) suspended s3.

Definition remove_expired (now : Z) (l : list (N * Z)) : list (N * Z) := filter (fun '(_, exp) => (now <? exp)%Z) l.

(** reissue: number + 1, expired revocations dropped, new next-update (publishing.rs:1341-1374) *)
Definition os_reissue (now next : Z) (s : oset) : oset :=
  mkOS (s_key s) (s_pub s) (remove_expired now (s_rev s)) (s_num s + 1) next.

(** retire (publishing.rs:1379-1397) *)
Definition os_retire (now : Z) (s : oset) : oset :=
  mkOS (s_key s) [] (remove_expired now (fold_left (fun l '(_, o) => revoke_of o :: l) (s_pub s) (s_rev s))) (s_num s) (s_next s).

Definition ok_current (k : okeys) : oset := match k with OCur c | OStg _ c | OOld c _ => c end.
Definition ok_with_current (k : okeys) (c : oset) : okeys :=
  match k with OCur _ => OCur c | OStg s _ => OStg s c | OOld _ o => OOld c o end.

(** update_received_cert (publishing.rs:967-990): the staging/old set is tried first. *)
Definition ok_received_cert (k : okeys) (ki : N) : result okeys :=
  match k with
  | OCur c => if s_key c =? ki then Ok k else Err
  | OStg s c => if s_key s =? ki then Ok k else if s_key c =? ki then Ok k else Err
  | OOld c o => if s_key o =? ki then Ok k else if s_key c =? ki then Ok k else Err
  end.

Definition due (now margin : Z) (s : oset) : bool := (s_next s - margin <? now)%Z.

Definition ok_requires (now margin : Z) (k : okeys) : bool :=
  match k with
  | OCur c => due now margin c
  | OStg s c => due now margin s || due now margin c
  | OOld c o => due now margin o || due now margin c
  end.

Definition ok_reissue (now next : Z) (k : okeys) : okeys :=
  match k with
  | OCur c => OCur (os_reissue now next c)
  | OStg s c => OStg (os_reissue now next s) (os_reissue now next c)
  | OOld c o => OOld (os_reissue now next c) (os_reissue now next o)
  end.

(** Environment of one listener run: the clock, the re-issue margin, the next-update time handed out. *)
Record env := mkEnv { e_now : Z; e_margin : Z; e_next : Z }.

Definition name_of_key_cert (names : N -> N) (ki : N) : N := names ki.

(** One event in the pre-save listener (publishing.rs:95-192). Returns the new objects and whether the
    event forces re-issuance. [cer_name] maps a child key to the file name of its certificate. *)
Definition listen1 (env : env) (cer_name : N -> N) (objs : objects) (e : event) : result (objects * bool) :=
  let on_current c (f : oset -> oset) :=
      match aget c objs with
      | None => Err                                        (* get_class_mut: "Missing resource class" *)
      | Some k => Ok (ainsert c (ok_with_current k (f (ok_current k))) objs, true)
      end in
  match e with
  | EObjectsUpdated c _ updated removed => on_current c (fun s => os_update_objs s updated removed)
  | EChildCertsUpdated c issued removed suspended unsuspended =>
      on_current c (fun s => os_update_certs s issued (map cer_name removed) suspended unsuspended)
  | EPendingToActive c crt =>
      if amem c objs then Err                              (* "Duplicate resource class" *)
      else Ok (ainsert c (OCur (os_create (c_key crt) (e_next env))) objs, false)
  | EPendingToNew c crt =>
      match aget c objs with
      | Some (OCur cur) => Ok (ainsert c (OStg (os_create (c_key crt) (e_next env)) cur) objs, false)
      | _ => Err
      end
  | ERollActivated c =>
      match aget c objs with
      | Some (OStg stg cur) => Ok (ainsert c (OOld stg (os_retire (e_now env) cur)) objs, true)
      | _ => Err
      end
  | ERollFinished c =>
      match aget c objs with
      | Some (OOld cur _) => Ok (ainsert c (OCur cur) objs, false)
      | _ => Err
      end
  | ECertReceived c ki _ =>
      match aget c objs with
      | None => Err
      | Some k => match ok_received_cert k ki with Ok k' => Ok (ainsert c k' objs, false) | Err => Err end
      end
  | EClassRemoved c => Ok (aremove c objs, true)
  | ERepoUpdated => Ok (objs, true)
  | _ => Ok (objs, false)
  end.

Fixpoint listen_all (env : env) (cer_name : N -> N) (objs : objects) (force : bool) (evs : list event) : result (objects * bool) :=
  match evs with
  | [] => Ok (objs, force)
  | e :: r => match listen1 env cer_name objs e with
              | Err => Err
              | Ok (objs', f) => listen_all env cer_name objs' (force || f) r
              end
  end.

(** re_issue (publishing.rs:566-583) *)
Definition re_issue (env : env) (force : bool) (objs : objects) : objects :=
  map (fun '(c, k) => (c, if force || ok_requires (e_now env) (e_margin env) k then ok_reissue (e_now env) (e_next env) k else k)) objs.

Definition listener (env : env) (cer_name : N -> N) (objs : objects) (evs : list event) : result objects :=
  match listen_all env cer_name objs false evs with
  | Err => Err
  | Ok (objs', force) => Ok (re_issue env force objs')
  end.

(** * Renewal of signed objects before expiry (roa.rs:754-799, aspa.rs:279-307, bgpsec.rs:281-307):
    an object is re-issued iff forced or its expiry lies before the threshold [now + reissue margin]. *)
Definition renew_names (force : bool) (threshold : Z) (l : list (N * obj)) : list N :=
  map fst (filter (fun '(_, o) => force || (o_exp o <? threshold)%Z) l).

(** * Class-level commands of the key life cycle (what [process_command] emits)  *)
Inductive kcmd :=
| CRollInit (fresh : N)                 (* keys.rs:725-759 *)
| CRollActivate                         (* keys.rs:765-792 (events for the products are appended by rc.rs:560-638) *)
| CRollFinish                           (* rc.rs:641-650 *)
| CReceived (crt : cert)                (* rc.rs:203-275: key events only *)
| CRequest (ki : N).                    (* a certificate request for a key the class knows *)

Definition ks_knows (ks : keystate) (ki : N) : bool :=
  match ks with
  | KPending p => p_id p =? ki
  | KActive c => k_id c =? ki
  | KRollPending p c => (p_id p =? ki) || (k_id c =? ki)
  | KRollNew n c => (k_id n =? ki) || (k_id c =? ki)
  | KRollOld c o => (k_id c =? ki) || (k_id o =? ki)
  end.

(** Result: Ok events / Err (command refused). Key events only; a no-op is [Ok []]. *)
Definition kprocess (c : N) (ks : keystate) (cmd : kcmd) : result (list event) :=
  match cmd with
  | CRollInit fresh =>
      match ks with
      | KActive _ => Ok [EPendingKeyAdded c fresh; ECertRequested c fresh]
      | _ => Ok []
      end
  | CRollActivate =>
      match ks with
      | KRollNew n cur => if k_req n || k_req cur then Err else Ok [ERollActivated c]
      | _ => Ok []                      (* rc.rs:567: no new key => nothing happens for this class *)
      end
  | CRollFinish =>
      match ks with KRollOld _ _ => Ok [ERollFinished c] | _ => Err end
  | CReceived crt =>
      let ki := c_key crt in
      match ks with
      | KPending p => if p_id p =? ki then Ok [EPendingToActive c crt] else Err
      | KActive cur => if k_id cur =? ki then Ok [ECertReceived c ki crt] else Err
      | KRollPending p cur => if p_id p =? ki then Ok [EPendingToNew c crt]
                              else if k_id cur =? ki then Ok [ECertReceived c ki crt] else Err
      | KRollNew n cur => if k_id n =? ki then Ok [ECertReceived c ki crt]
                          else if k_id cur =? ki then Ok [ECertReceived c ki crt] else Err
      | KRollOld cur _ => if k_id cur =? ki then Ok [ECertReceived c ki crt] else Err
      end
  | CRequest ki => if ks_knows ks ki then Ok [ECertRequested c ki] else Err
  end.
