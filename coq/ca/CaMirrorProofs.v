(** C04: the key state of a class and its published-object sets stay in step (the Mirror invariant),
    and the pre-save listener never refuses the events of a key life-cycle command. *)
From KV Require Import base.Tac ca.Ca ca.CaProofs ca.CaObjProofs ca.CaCheck.
Open Scope N_scope.

(** What one key event of class [c] does to the object sets of that class (the class-local view of
    [listen1]). *)
Definition ok_step (env : env) (o : option okeys) (e : event) : result (option okeys) :=
  match e with
  | EPendingToActive _ crt => match o with None => Ok (Some (OCur (os_create (c_key crt) (e_next env)))) | Some _ => Err end
  | EPendingToNew _ crt => match o with Some (OCur cur) => Ok (Some (OStg (os_create (c_key crt) (e_next env)) cur)) | _ => Err end
  | ERollActivated _ => match o with Some (OStg stg cur) => Ok (Some (OOld stg (os_retire (e_now env) cur))) | _ => Err end
  | ERollFinished _ => match o with Some (OOld cur _) => Ok (Some (OCur cur)) | _ => Err end
  | ECertReceived _ ki _ => match o with
                            | None => Err
                            | Some k => match ok_received_cert k ki with Ok k' => Ok (Some k') | Err => Err end
                            end
  | _ => Ok o
  end.

Lemma listen1_class env cn objs c e :
  is_key_event_of c e = true ->
  match ok_step env (aget c objs) e with
  | Err => listen1 env cn objs e = Err
  | Ok o' => exists objs' f, listen1 env cn objs e = Ok (objs', f) /\ aget c objs' = o'
  end.
Proof.
  intros K. destruct e; simpl in K; try discriminate; apply N.eqb_eq in K; subst; simpl.
  - eauto.
  - destruct (aget c objs) as [k|] eqn:E; auto.
    destruct (ok_received_cert k ki) as [k'|]; auto. eexists. eexists. split; [reflexivity|]. apply aget_ainsert_eq.
  - eauto.
  - destruct (aget c objs) as [[cur|? ?|? ?]|] eqn:E; auto.
    eexists. eexists. split; [reflexivity|]. apply aget_ainsert_eq.
  - unfold amem. destruct (aget c objs) as [k|] eqn:E; auto.
    eexists. eexists. split; [reflexivity|]. apply aget_ainsert_eq.
  - destruct (aget c objs) as [[?|stg cur|? ?]|] eqn:E; auto.
    eexists. eexists. split; [reflexivity|]. apply aget_ainsert_eq.
  - destruct (aget c objs) as [[?|? ?|cur old]|] eqn:E; auto.
    eexists. eexists. split; [reflexivity|]. apply aget_ainsert_eq.
Qed.

Ltac mcrunch :=
  repeat first
    [ progress (simpl in *)
    | rewrite N.eqb_refl in *
    | match goal with
      | H : Some _ = Some _ |- _ => inv H
      | H : Ok _ = Ok _ |- _ => inv H
      | H : None = Some _ |- _ => discriminate H
      | H : Some _ = None |- _ => discriminate H
      | H : @Err _ = Ok _ |- _ => discriminate H
      | H : false = true |- _ => discriminate H
      | H : True |- _ => clear H
      | H : _ && _ = true |- _ => apply andb_true_iff in H; destruct H
      | H : _ || _ = true |- _ => apply orb_true_iff in H; destruct H
      | H : (_ =? _) = true |- _ => apply N.eqb_eq in H
      | H : (_ =? _) = false |- _ => apply N.eqb_neq in H
      | H : context [if ?b then _ else _] |- _ => destruct b eqn:?
      | H : context [match s_pub ?s with [] => _ | _ :: _ => _ end] |- _ => destruct (s_pub s) eqn:?
      end ].

(** If the class mirrors its object sets, every key event that [apply] accepts for a key the class knows
    is accepted by the listener, and the class mirrors its object sets afterwards. *)
Theorem mirror_key_event env c ks o e ks' :
  mirror_class (mkRC 0 0 ks [] [] [] [] []) o = true ->
  ks_wf ks ->
  is_key_event_of c e = true ->
  (forall ki crt, e = ECertReceived c ki crt -> ks_knows ks ki = true /\
      match ks with KRollPending p _ => ki <> p_id p | _ => True end) ->
  (forall crt, e = EPendingToNew c crt -> match ks with KRollPending p _ => c_key crt = p_id p | _ => True end) ->
  ks_apply c ks e = Some ks' ->
  exists o', ok_step env o e = Ok o' /\ mirror_class (mkRC 0 0 ks' [] [] [] [] []) o' = true.
Proof.
  intros M WF K Rc Pn A.
  destruct e; simpl in K; try discriminate; apply N.eqb_eq in K; subst c0.
  - (* requested *) simpl in A. rewrite N.eqb_refl in A. inv A. exists o. split; [reflexivity|].
    destruct ks as [pk|k|pk k|n k|k od]; simpl in *; repeat destr_match; simpl in *; auto.
  - (* received *)
    destruct (Rc ki crt eq_refl) as [Kn Np]. simpl in A. rewrite N.eqb_refl in A.
    destruct ks as [pk|k|pk k|n k|k od]; simpl in A; try discriminate.
    + (* active *) inv A. destruct o as [[cur|stg cur|cur old]|]; simpl in M; try discriminate.
      simpl in Kn. apply N.eqb_eq in Kn. apply N.eqb_eq in M. subst.
      exists (Some (OCur cur)). simpl. rewrite M, N.eqb_refl. split; [reflexivity|]. simpl. apply N.eqb_eq. auto.
    + (* roll pending *) inv A. destruct o as [[cur|stg cur|cur old]|]; simpl in M; try discriminate.
      simpl in Kn. apply orb_true_iff in Kn. destruct Kn as [Kn|Kn]; apply N.eqb_eq in Kn; [congruence|].
      apply N.eqb_eq in M. subst.
      exists (Some (OCur cur)). simpl. rewrite M, N.eqb_refl. split; [reflexivity|]. simpl. apply N.eqb_eq. auto.
    + (* roll new *) inv A. destruct o as [[cur|stg cur|cur old]|]; simpl in M; try discriminate.
      apply andb_true_iff in M. destruct M as [M M3]. apply andb_true_iff in M. destruct M as [M1 M2].
      apply N.eqb_eq in M1. apply N.eqb_eq in M2.
      simpl in Kn. apply orb_true_iff in Kn.
      exists (Some (OStg stg cur)). simpl. split.
      * destruct Kn as [Kn|Kn]; apply N.eqb_eq in Kn; subst ki.
        -- rewrite M1, N.eqb_refl. reflexivity.
        -- rewrite M2, N.eqb_refl. destruct (s_key stg =? k_id k); reflexivity.
      * destruct (k_id n =? ki); unfold mirror_class; simpl; rewrite M1, M2, !N.eqb_refl; simpl; exact M3.
    + (* roll old *) inv A. destruct o as [[cur|stg cur|cur old]|]; simpl in M; try discriminate.
      apply andb_true_iff in M. destruct M as [M M3]. apply andb_true_iff in M. destruct M as [M1 M2].
      apply N.eqb_eq in M1. apply N.eqb_eq in M2.
      simpl in Kn. apply orb_true_iff in Kn.
      exists (Some (OOld cur old)). simpl. split.
      * destruct Kn as [Kn|Kn]; apply N.eqb_eq in Kn; subst ki.
        -- rewrite M1, N.eqb_refl. destruct (s_key old =? k_id k); reflexivity.
        -- rewrite M2, N.eqb_refl. reflexivity.
      * destruct (k_id k =? ki); unfold mirror_class; simpl; rewrite M1, M2, !N.eqb_refl; simpl; exact M3.
  - (* pending key added *) simpl in A. rewrite N.eqb_refl in A. exists o. split; [reflexivity|].
    destruct ks as [pk|k|pk k|n k|k od]; simpl in *; try discriminate. inv A.
    destruct o as [[cur|stg cur|cur old]|]; simpl in *; auto.
  - (* pending to new *) specialize (Pn crt eq_refl). simpl in A. rewrite N.eqb_refl in A.
    destruct ks as [pk|k|pk k|n k|k od]; simpl in *; try discriminate. inv A.
    destruct o as [[cur|stg cur|cur old]|]; simpl in *; try discriminate.
    eexists. split; [reflexivity|]. unfold mirror_class in *. simpl in *. rewrite N.eqb_refl. simpl. rewrite M. reflexivity.
  - (* pending to active *) simpl in A. rewrite N.eqb_refl in A.
    destruct ks as [pk|k|pk k|n k|k od]; simpl in *; try discriminate. inv A.
    destruct o as [[cur|stg cur|cur old]|]; simpl in *; try discriminate.
    eexists. split; [reflexivity|]. unfold mirror_class. simpl. apply N.eqb_refl.
  - (* activated *) simpl in A. rewrite N.eqb_refl in A.
    destruct ks as [pk|k|pk k|n k|k od]; simpl in *; try discriminate. inv A.
    destruct o as [[cur|stg cur|cur old]|]; simpl in *; try discriminate.
    unfold mirror_class in M. simpl in M. apply andb_true_iff in M. destruct M as [M M3].
    eexists. split; [reflexivity|]. unfold mirror_class. simpl. rewrite M. reflexivity.
  - (* finished *) simpl in A. rewrite N.eqb_refl in A.
    destruct ks as [pk|k|pk k|n k|k od]; simpl in *; try discriminate. inv A.
    destruct o as [[cur|stg cur|cur old]|]; simpl in *; try discriminate.
    unfold mirror_class in M. simpl in M. apply andb_true_iff in M. destruct M as [M M3].
    apply andb_true_iff in M. destruct M as [M1 M2].
    eexists. split; [reflexivity|]. unfold mirror_class. simpl. exact M1.
Qed.
