(** C04 - repository migration rides on the key roll (model; proofs in ca/MigrateProofs.v).

    src/server/ca/publishing.rs keeps, per resource class, the published-object sets of its keys
    ([ResourceClassKeyState]: Current | Staging | Old, 937-943) and every set carries
    [old_repo : Option<RepositoryContact>] (1110-1119): the repository the set keeps publishing at while the
    CA's default repository ([CaObjects.repo], 320) is already the new one ([KeyObjectSet::add_elements],
    1192-1213: [old_repo.unwrap_or(dflt_repo)]). A migration ([CertAuth::process_update_repo], certauth.rs
    2157-2199) is refused unless every class can start a key roll (key state Active, rc.rs 176-178), starts a roll
    in every class (the new keys are requested for the new repository) and marks all existing sets with the
    previous repository ([CaObjects::update_repo], 590-597). When a class finishes its roll
    ([CaObjects::keyroll_finish], 500-511) or is removed ([remove_class], 451-461) the repository its dropped
    set published at is put on [deprecated_repos] unless [has_old_repo] (610-612, 896-910) finds another set
    still marked with it; [CaManager::cas_repo_sync_single] (manager.rs 2575-2663) withdraws EVERYTHING the CA
    has at a deprecated repository and then forgets it.

    The model keeps exactly this much: repositories are numbers, a set is (old_repo, the repository its key's
    certificate points to), a class is its object state plus what the CA aggregate knows about pending keys
    (the guard of the migration command is on the key states). *)
From KV Require Import base.Tac.
Open Scope N_scope.

Record kset := mkSet {
  s_old : option N;      (* KeyObjectSet.old_repo *)
  s_at : N               (* the repository named in the SIA of the signing certificate *)
}.

Inductive cstate :=
| MPend (req : N)                      (* class added, first key requested for repository req; no object set yet *)
| MCur (pend : option N) (cur : kset)  (* Current; pend = Some r: roll initiated, the new key was requested for r *)
| MStg (stg cur : kset)                (* Staging: new key certified, not yet activated *)
| MOld (cur old : kset).               (* Old: activated, the old key awaits revocation *)

Record mstate := mkM {
  m_repo : N;                          (* CaObjects.repo *)
  m_classes : list (N * cstate);       (* sorted by class name *)
  m_depr : list N                      (* CaObjects.deprecated_repos *)
}.

Definition sets_of (cs : cstate) : list kset :=
  match cs with
  | MPend _ => []
  | MCur _ c => [c]
  | MStg s c => [s; c]
  | MOld c o => [c; o]
  end.

(** publishing.rs 1197 *)
Definition publishes_at (repo : N) (s : kset) : N := match s_old s with Some r => r | None => repo end.

(** The class map (a HashMap in the code; here an association list sorted by name). *)
Fixpoint cget (c : N) (l : list (N * cstate)) : option cstate :=
  match l with
  | [] => None
  | (k, v) :: r => if k =? c then Some v else cget c r
  end.

Definition cdel (c : N) (l : list (N * cstate)) : list (N * cstate) :=
  filter (fun kv => negb (fst kv =? c)) l.

Fixpoint cins (c : N) (v : cstate) (l : list (N * cstate)) : list (N * cstate) :=
  match l with
  | [] => [(c, v)]
  | (k, w) :: r => if c <? k then (c, v) :: (k, w) :: r else (k, w) :: cins c v r
  end.

(** insert or replace *)
Definition cset (c : N) (v : cstate) (l : list (N * cstate)) : list (N * cstate) := cins c v (cdel c l).

(** publishing.rs 896-910, and the variant that looks at the staging set only in the Staging arm. *)
Definition set_has (s : kset) (r : N) : bool := match s_old s with Some x => x =? r | None => false end.

Definition class_has_old_repo (cs : cstate) (r : N) : bool :=
  match cs with
  | MPend _ => false
  | MCur _ c => set_has c r
  | MStg s c => set_has s r || set_has c r
  | MOld c o => set_has o r || set_has c r
  end.

Definition class_has_old_repo_weak (cs : cstate) (r : N) : bool :=
  match cs with
  | MPend _ => false
  | MCur _ c => set_has c r
  | MStg s c => set_has s r
  | MOld c o => set_has o r || set_has c r
  end.

(** publishing.rs 912-930 *)
Definition class_old_repo (cs : cstate) : option N :=
  match cs with
  | MPend _ => None
  | MCur _ c => s_old c
  | MStg s c => match s_old s with Some r => Some r | None => s_old c end
  | MOld c o => match s_old o with Some r => Some r | None => s_old c end
  end.

(** publishing.rs 880-894 and 1400-1402 *)
Definition set_old (r : N) (s : kset) : kset := mkSet (Some r) (s_at s).
Definition class_set_old (r : N) (cs : cstate) : cstate :=
  match cs with
  | MPend q => MPend q
  | MCur p c => MCur p (set_old r c)
  | MStg s c => MStg (set_old r s) (set_old r c)
  | MOld c o => MOld (set_old r c) (set_old r o)
  end.

(** rc.rs 176-178: a roll can start only from the Active key state. *)
Definition idle (cs : cstate) : bool := match cs with MCur None _ => true | _ => false end.

Definition start_roll (r : N) (cs : cstate) : cstate :=
  match cs with MCur _ c => MCur (Some r) c | other => other end.

Inductive which := WCur | WStg | WOld.

Inductive mop :=
| ONewClass (c : N)        (* ResourceClassAdded: a pending key is requested for the current repository *)
| OAddClass (c : N)        (* KeyPendingToActive -> CaObjects::add_class *)
| OInit (c : N)            (* KeyRollPendingKeyAdded of a plain key roll *)
| OUpdateRepo (r : N)      (* command RepoUpdate: guard, a roll in every class, CaObjects::update_repo *)
| OStage (c : N)           (* KeyPendingToNew -> keyroll_stage *)
| OActivate (c : N)        (* KeyRollActivated -> keyroll_activate *)
| OFinish (c : N)          (* KeyRollFinished -> keyroll_finish *)
| ORemoveClass (c : N)     (* ResourceClassRemoved -> remove_class *)
| OReissue (c : N) (w : which)   (* CertificateReceived for a certified key: the parent re-issued its certificate *)
| OClean (r : N).          (* repository synchronisation: deprecated r emptied and forgotten *)

(** The step function is parametric in three places so that earlier behaviour of the code can be run through it as
    regression witnesses:
    - [v_hor]: [has_old_repo] (the variant looks at the staging set only in the Staging arm);
    - [v_reissue_keeps]: a certificate re-issued for a key that is tied to an old repository keeps naming that
      repository (since /repo c6a66d92; before, [CertifiedKey.old_repo] was never set and the request named the CA's
      current repository - finding F04d);
    - [v_undeprecate]: a migration takes its target off the deprecated list (since /repo 1c1bdf32; before, the target
      could stay on the list and was emptied by the next synchronisation - finding F04e). *)
Record variant := mkV { v_hor : cstate -> N -> bool; v_reissue_keeps : bool; v_undeprecate : bool }.

Definition fixed : variant := mkV class_has_old_repo true true.
Definition weak : variant := mkV class_has_old_repo_weak true true.
Definition pinned_key : variant := mkV class_has_old_repo false true.
Definition pinned_depr : variant := mkV class_has_old_repo true false.

(** publishing.rs 600-612 *)
Definition deprecate (hor : cstate -> N -> bool) (st : mstate) (r : N) : mstate :=
  if existsb (fun kv => hor (snd kv) r) (m_classes st) then st
  else mkM (m_repo st) (m_classes st) (m_depr st ++ [r]).

Definition with_classes (st : mstate) (l : list (N * cstate)) : mstate := mkM (m_repo st) l (m_depr st).

(** keys.rs 445-518: the request for a certified key names [key.old_repo.unwrap_or(base_repo)]. The key-level
    [old_repo] is set by the RepoUpdated event on the current key of every class ([set_old_repo_if_in_active_state],
    keys.rs 820-828: Active or RollPending - the roll events of the same command are applied first, certauth.rs
    2170-2197, 651-659), i.e. on exactly the keys whose sets [CaObjects::update_repo] marks, and it travels with the
    key through the roll (rc.rs 969-996 clone the keys) as the set's mark does: the two coincide, so the model reads
    the set's mark. *)
Definition reissued (keeps : bool) (repo : N) (s : kset) : kset :=
  mkSet (s_old s) (if keeps then publishes_at repo s else repo).

Definition reissue (keeps : bool) (repo : N) (cs : cstate) (w : which) : option cstate :=
  match cs, w with
  | MCur p c, WCur => Some (MCur p (reissued keeps repo c))
  | MStg s c, WStg => Some (MStg (reissued keeps repo s) c)
  | MStg s c, WCur => Some (MStg s (reissued keeps repo c))
  | MOld c o, WCur => Some (MOld (reissued keeps repo c) o)
  | MOld c o, WOld => Some (MOld c (reissued keeps repo o))
  | _, _ => None
  end.

Definition mstep_gen (v : variant) (st : mstate) (op : mop) : option mstate :=
  let cl := m_classes st in
  match op with
  | ONewClass c =>
      match cget c cl with
      | None => Some (with_classes st (cset c (MPend (m_repo st)) cl))
      | Some _ => None
      end
  | OAddClass c =>
      match cget c cl with
      | Some (MPend r) => Some (with_classes st (cset c (MCur None (mkSet None r)) cl))
      | _ => None
      end
  | OInit c =>
      match cget c cl with
      | Some (MCur None cur) => Some (with_classes st (cset c (MCur (Some (m_repo st)) cur) cl))
      | _ => None
      end
  | OUpdateRepo r =>
      if r =? m_repo st then None                       (* certauth.rs 2164-2166 *)
      else if forallb (fun kv => idle (snd kv)) cl      (* certauth.rs 2175-2179 *)
      then Some (mkM r (map (fun kv => (fst kv, start_roll r (class_set_old (m_repo st) (snd kv)))) cl)
                     (if v_undeprecate v then filter (fun x => negb (x =? r)) (m_depr st) else m_depr st))  (* publishing.rs 590-600 *)
      else None
  | OStage c =>
      match cget c cl with
      | Some (MCur (Some r) cur) => Some (with_classes st (cset c (MStg (mkSet None r) cur) cl))
      | _ => None
      end
  | OActivate c =>
      match cget c cl with
      | Some (MStg stg cur) => Some (with_classes st (cset c (MOld stg cur) cl))
      | _ => None
      end
  | OFinish c =>
      match cget c cl with
      | Some (MOld cur old) =>
          let st1 := with_classes st (cset c (MCur None cur) cl) in
          Some (match s_old old with Some r => deprecate (v_hor v) st1 r | None => st1 end)
      | _ => None
      end
  | ORemoveClass c =>
      match cget c cl with
      | Some cs =>
          let st1 := with_classes st (cdel c cl) in
          Some (match class_old_repo cs with Some r => deprecate (v_hor v) st1 r | None => st1 end)
      | None => None
      end
  | OReissue c w =>
      match cget c cl with
      | Some cs => match reissue (v_reissue_keeps v) (m_repo st) cs w with
                   | Some cs' => Some (with_classes st (cset c cs' cl))
                   | None => None
                   end
      | None => None
      end
  | OClean r => Some (mkM (m_repo st) cl (filter (fun x => negb (x =? r)) (m_depr st)))   (* publishing.rs 405-407 *)
  end.

Fixpoint run_gen (v : variant) (st : mstate) (ops : list mop) : option mstate :=
  match ops with
  | [] => Some st
  | op :: r => match mstep_gen v st op with Some st' => run_gen v st' r | None => None end
  end.

Definition mstep := mstep_gen fixed.
Definition run := run_gen fixed.

Definition minit (r0 : N) : mstate := mkM r0 [] [].

(** The repository synchronisation as far as this state is concerned: every deprecated repository is cleaned. *)
Definition msync (st : mstate) : option mstate := run st (map OClean (m_depr st)).

(** Every state that any sequence of accepted operations leads to - no assumption about the environment. *)
Inductive reachable_gen (v : variant) (r0 : N) : mstate -> Prop :=
| reach_init : reachable_gen v r0 (minit r0)
| reach_step st op st' : reachable_gen v r0 st -> mstep_gen v st op = Some st' -> reachable_gen v r0 st'.

Definition reachable := reachable_gen fixed.

(** The statements. *)
Definition safe (st : mstate) : Prop :=
  forall r c cs s, In r (m_depr st) -> In (c, cs) (m_classes st) -> In s (sets_of cs) -> publishes_at (m_repo st) s <> r.

(** A key that is still waiting for its (first) certificate asked for the CA's current repository. *)
Definition pend_ok (repo : N) (cs : cstate) : Prop :=
  match cs with MPend q => q = repo | MCur (Some q) _ => q = repo | _ => True end.

Definition located (st : mstate) : Prop :=
  forall c cs, In (c, cs) (m_classes st) ->
    (forall s, In s (sets_of cs) -> publishes_at (m_repo st) s = s_at s) /\ pend_ok (m_repo st) cs.

Definition uses (st : mstate) (x : N) : Prop :=
  exists c cs s, In (c, cs) (m_classes st) /\ In s (sets_of cs) /\ s_old s = Some x.

Definition finished (cs : cstate) : Prop := match cs with MCur None _ => True | _ => False end.
