(** C04 - repository migration: the cases of the scenario `migrate` (harness/src/bin/migrate.rs).

    One case per API operation on a CA with two resource classes: the state before (default repository, per class
    the object-set state with every set's [old_repo] and the repository its signing certificate points to, the
    deprecated list - read from the stored CaObjects and CertAuth), the model operations that the stored events of
    the operation stand for, the state after the command(s), whether a repository synchronisation followed, the
    state after it, and what the publication server then holds: per class whether every product of the signing
    key's set (manifest, CRL, ROAs, child certificates - with their content) is there under the publisher the
    key's certificate points to, and the publishers that hold files of the CA although no set publishes there.

    [m_agrees]: the model reproduces both observed states. [m_ok]: the invariant of ca/MigrateProofs.v, the safety
    statement and "published where the certificate points" evaluated on the implementation's states, plus the
    repository observation. ca/MigrateProofs.v ties them: [agrees_keeps_invariant]. *)
From KV Require Import base.Tac ca.Migrate.
Open Scope N_scope.

Definition optN_eqb (a b : option N) : bool :=
  match a, b with Some x, Some y => x =? y | None, None => true | _, _ => false end.

Definition kset_eqb (a b : kset) : bool := optN_eqb (s_old a) (s_old b) && (s_at a =? s_at b).

Definition cstate_eqb (a b : cstate) : bool :=
  match a, b with
  | MPend q, MPend q' => q =? q'
  | MCur p c, MCur p' c' => optN_eqb p p' && kset_eqb c c'
  | MStg s c, MStg s' c' => kset_eqb s s' && kset_eqb c c'
  | MOld c o, MOld c' o' => kset_eqb c c' && kset_eqb o o'
  | _, _ => false
  end.

Fixpoint classes_eqb (a b : list (N * cstate)) : bool :=
  match a, b with
  | [], [] => true
  | (k, v) :: r, (k', v') :: r' => (k =? k') && cstate_eqb v v' && classes_eqb r r'
  | _, _ => false
  end.

Fixpoint nlist_eqb (a b : list N) : bool :=
  match a, b with
  | [], [] => true
  | x :: a', y :: b' => (x =? y) && nlist_eqb a' b'
  | _, _ => false
  end.

Definition mstate_eqb (a b : mstate) : bool :=
  (m_repo a =? m_repo b) && classes_eqb (m_classes a) (m_classes b) && nlist_eqb (m_depr a) (m_depr b).

Definition ostate_eqb (a : option mstate) (b : mstate) : bool :=
  match a with Some x => mstate_eqb x b | None => false end.

Record mcase := mkMC {
  mc_pre : mstate;
  mc_ops : list mop;
  mc_mid : mstate;                 (* after the command(s), before any repository synchronisation *)
  mc_synced : bool;
  mc_post : mstate;                (* after the synchronisation (= mc_mid if there was none) *)
  mc_present : list (N * bool);    (* class -> all products of its signing key found where its certificate points *)
  mc_leftover : list N             (* publishers holding files of the CA although no set publishes there *)
}.

Definition m_agrees (c : mcase) : bool :=
  ostate_eqb (run (mc_pre c) (mc_ops c)) (mc_mid c)
  && (if mc_synced c then ostate_eqb (msync (mc_mid c)) (mc_post c) else mstate_eqb (mc_mid c) (mc_post c)).

(** The invariant, executable. *)
Definition is_none (o : option N) : bool := match o with None => true | Some _ => false end.

Definition all_sets (p : kset -> bool) (st : mstate) : bool :=
  forallb (fun kv => forallb p (sets_of (snd kv))) (m_classes st).

Definition functional_b (l : list (N * cstate)) : bool :=
  forallb (fun kv => match cget (fst kv) l with Some v => cstate_eqb v (snd kv) | None => false end) l.

Definition old_ne_repo_b (st : mstate) : bool :=
  all_sets (fun s => match s_old s with Some x => negb (x =? m_repo st) | None => true end) st.

Definition fresh_b (cs : cstate) : bool :=
  match cs with
  | MCur None cur => is_none (s_old cur)
  | MStg stg _ => is_none (s_old stg)
  | MOld cur _ => is_none (s_old cur)
  | _ => true
  end.

Definition fresh_ok_b (st : mstate) : bool := forallb (fun kv => fresh_b (snd kv)) (m_classes st).

Definition depr_ne_repo_b (st : mstate) : bool := forallb (fun r => negb (r =? m_repo st)) (m_depr st).

Definition depr_unused_b (st : mstate) : bool :=
  forallb (fun r => all_sets (fun s => negb (set_has s r)) st) (m_depr st).

Definition inv_b (st : mstate) : bool :=
  functional_b (m_classes st) && old_ne_repo_b st && fresh_ok_b st && depr_ne_repo_b st && depr_unused_b st.

(** The safety statement itself: no set publishes at a deprecated repository. *)
Definition safe_b (st : mstate) : bool :=
  forallb (fun r => all_sets (fun s => negb (publishes_at (m_repo st) s =? r)) st) (m_depr st).

Definition pend_ok_b (repo : N) (cs : cstate) : bool :=
  match cs with MPend q => q =? repo | MCur (Some q) _ => q =? repo | _ => true end.

Definition located_b (st : mstate) : bool :=
  forallb (fun kv => forallb (fun s => publishes_at (m_repo st) s =? s_at s) (sets_of (snd kv))
                     && pend_ok_b (m_repo st) (snd kv)) (m_classes st).

Fixpoint lookup_b (k : N) (l : list (N * bool)) : option bool :=
  match l with [] => None | (k', b) :: r => if k' =? k then Some b else lookup_b k r end.

(** Every class that has a signing key has all its products in the live repository content. *)
Definition present_ok (c : mcase) : bool :=
  forallb (fun kv => match sets_of (snd kv) with
                     | [] => true
                     | _ => match lookup_b (fst kv) (mc_present c) with Some b => b | None => false end
                     end) (m_classes (mc_post c)).

Definition state_ok (st : mstate) : bool := inv_b st && safe_b st && located_b st.

Definition m_ok (c : mcase) : bool :=
  state_ok (mc_mid c) && state_ok (mc_post c)
  && (if mc_synced c then present_ok c && match mc_leftover c with [] => true | _ => false end else true).

Fixpoint failing_from (f : mcase -> bool) (i : N) (l : list mcase) : list N :=
  match l with
  | [] => []
  | x :: r => if f x then failing_from f (i + 1) r else i :: failing_from f (i + 1) r
  end.
Definition failing (f : mcase -> bool) (base : N) (l : list mcase) : list N := failing_from f base l.
