(** C14: the executable oracle [due_ok_objs] (CaCheck.v) is what the model's maintenance run satisfies.
    For every object store whose key sets carry distinct keys, every clock, margin and force flag:
    after [re_issue], every class that was forced or had a set (current, staging or old) within the
    margin has ALL its sets at number + 1, and every other class keeps its numbers. *)
From KV Require Import base.Tac ca.Ca ca.CaProofs ca.CaObjProofs ca.CaCheck.
Open Scope N_scope.

Lemma os_reissue_key now next s : s_key (os_reissue now next s) = s_key s.
Proof. reflexivity. Qed.

Lemma sets_of_reissue now next k : sets_of (ok_reissue now next k) = map (os_reissue now next) (sets_of k).
Proof. destruct k; reflexivity. Qed.

(** The sets after the run, paired with the sets before. *)
Definition decide (now margin : Z) (force : bool) (k : okeys) : bool := force || ok_requires now margin k.
Definition step_keys (now margin next : Z) (force : bool) (k : okeys) : okeys :=
  if decide now margin force k then ok_reissue now next k else k.
Definition pairs_of (now margin next : Z) (force : bool) (objs : objects) : list (oset * oset) :=
  flat_map (fun '(_, k) => combine (sets_of k) (sets_of (step_keys now margin next force k))) objs.

Lemma re_issue_step now margin next force objs :
  re_issue (mkEnv now margin next) force objs = map (fun '(c, k) => (c, step_keys now margin next force k)) objs.
Proof. unfold re_issue, step_keys, decide. apply map_ext. intros [c k]. reflexivity. Qed.

Lemma sets_of_step_length now margin next force k :
  length (sets_of (step_keys now margin next force k)) = length (sets_of k).
Proof. unfold step_keys. destruct (decide now margin force k); [|reflexivity]. rewrite sets_of_reissue, map_length. reflexivity. Qed.

Lemma pairs_fst now margin next force objs : map fst (pairs_of now margin next force objs) = all_sets objs.
Proof.
  unfold pairs_of, all_sets. induction objs as [|[c k] r IH]; [reflexivity|].
  cbn [flat_map]. rewrite map_app, IH. f_equal.
  pose proof (sets_of_step_length now margin next force k) as L.
  revert L. generalize (sets_of (step_keys now margin next force k)). generalize (sets_of k).
  induction l as [|a l IHl]; intros [|b l'] L; simpl in *; try discriminate; [reflexivity|]. f_equal. apply IHl. lia.
Qed.

Lemma pairs_snd now margin next force objs :
  map snd (pairs_of now margin next force objs) = all_sets (re_issue (mkEnv now margin next) force objs).
Proof.
  rewrite re_issue_step. unfold pairs_of, all_sets. induction objs as [|[c k] r IH]; [reflexivity|].
  cbn [flat_map map]. rewrite map_app, IH. f_equal.
  pose proof (sets_of_step_length now margin next force k) as L.
  revert L. generalize (sets_of (step_keys now margin next force k)). generalize (sets_of k).
  induction l as [|a l IHl]; intros [|b l'] L; simpl in *; try discriminate; [reflexivity|]. f_equal. apply IHl. lia.
Qed.

Lemma pairs_same_key now margin next force objs a b :
  In (a, b) (pairs_of now margin next force objs) -> s_key b = s_key a.
Proof.
  unfold pairs_of. rewrite in_flat_map. intros [[c k] [_ I]]. unfold step_keys in I.
  destruct (decide now margin force k).
  - rewrite sets_of_reissue in I. revert I. generalize (sets_of k). induction l as [|x l IH]; simpl; [tauto|].
    intros [E|I]; [inv E; reflexivity|auto].
  - revert I. generalize (sets_of k). induction l as [|x l IH]; simpl; [tauto|].
    intros [E|I]; [inv E; reflexivity|auto].
Qed.

(** Looking a key up among the second components finds the partner, when the first components have distinct keys. *)
Lemma find_partner (l : list (oset * oset)) :
  (forall a b, In (a, b) l -> s_key b = s_key a) ->
  NoDup (map s_key (map fst l)) ->
  forall a b, In (a, b) l -> find (fun s => s_key s =? s_key a) (map snd l) = Some b.
Proof.
  induction l as [|[x y] l IH]; intros K D a b I; [destruct I|].
  simpl in D. inversion D as [|? ? Nin D']; subst.
  destruct I as [E|I].
  - inv E. simpl. rewrite (K a b (or_introl eq_refl)), N.eqb_refl. reflexivity.
  - simpl. destruct (s_key y =? s_key a) eqn:E.
    + exfalso. apply N.eqb_eq in E. rewrite (K x y (or_introl eq_refl)) in E.
      apply Nin. rewrite E. apply in_map. apply (in_map fst) in I. exact I.
    + apply IH; auto. intros a' b' I'. apply K. right. exact I'.
Qed.

Theorem reissue_meets_due_ok now margin next force objs :
  NoDup (map s_key (all_sets objs)) ->
  due_ok_objs now margin force objs (re_issue (mkEnv now margin next) force objs) = true.
Proof.
  intros D. unfold due_ok_objs. apply forallb_forall. intros [c k] Ik.
  apply forallb_forall. intros sp Isp.
  set (P := pairs_of now margin next force objs).
  assert (K : forall a b, In (a, b) P -> s_key b = s_key a) by (intros a b; apply pairs_same_key).
  assert (D' : NoDup (map s_key (map fst P))) by (unfold P; rewrite pairs_fst; exact D).
  assert (I : In (sp, if decide now margin force k then os_reissue now next sp else sp) P).
  { unfold P, pairs_of. rewrite in_flat_map. exists (c, k). split; [exact Ik|].
    unfold step_keys. destruct (decide now margin force k).
    - rewrite sets_of_reissue. revert Isp. generalize (sets_of k). induction l as [|x l IH]; simpl; [tauto|].
      intros [E|I]; [left; subst; reflexivity|right; auto].
    - revert Isp. generalize (sets_of k). induction l as [|x l IH]; simpl; [tauto|].
      intros [E|I]; [left; subst; reflexivity|right; auto]. }
  pose proof (find_partner P K D' _ _ I) as F.
  unfold find_set. unfold P in F. rewrite pairs_snd in F. rewrite F.
  fold (decide now margin force k). destruct (decide now margin force k).
  - rewrite number_plus_one. apply N.eqb_refl.
  - apply N.eqb_refl.
Qed.

(** Non-vacuity: a store with a staging set that is due while the current set is not. *)
Example due_staging_example :
  let stg := mkOS 2 [] [] 1 100 in
  let cur := mkOS 1 [] [] 5 100000 in
  let objs := [(0, OStg stg cur)] in
  NoDup (map s_key (all_sets objs)) /\
  ok_requires 1000 50 (OStg stg cur) = true /\ due 1000 50 cur = false /\
  map s_num (all_sets (re_issue (mkEnv 1000 50 90000) false objs)) = [2; 6].
Proof. cbn. repeat split. repeat constructor; cbn; intuition discriminate. Qed.
