(** C03 / C14: the executable oracles [revoked_ok] and [numbers_ok] (CaCheck.v) are what the MODEL's run
    ([run_cmds]) satisfies, so that an observed transition that [agrees] with the model satisfies them.

    Result in one paragraph.  With a well-formedness condition on the pre store ALONE both statements are
    false ([model_run_meets_revoked_ok_full_refuted], [model_run_meets_numbers_ok_full_refuted],
    [other_class_key_refuted]): the model takes the key of a new set from the event ([EPendingToActive] /
    [EPendingToNew]) without any freshness check, so a run may re-introduce a key that the pre store already
    has (or had); and [revoked_ok] is false for the legacy [unsuspended] list of [EChildCertsUpdated]
    (re-publication without revocation, [revoked_ok_unsuspended_refuted]).  The strongest true variants proved
    here ([model_run_meets_revoked_ok], [model_run_meets_numbers_ok]) assume
    - [Fresh o ms]: the keys of the sets of the pre store and the keys introduced by the events of the run
      are pairwise distinct (for a run that introduces no key this is exactly "the key sets of the pre store
      carry distinct keys", the first clause of [WF]: [model_run_meets_*_no_new_keys]),
    - for [revoked_ok] only: no file name occurs twice in the published list of a pre set ([names_wf], the
      second clause of [WF]) and no event carries a non-empty [unsuspended] list ([NoUnsusp]).
    Both clauses of [WF] are needed already for the empty run ([wf_distinct_keys_needed],
    [wf_distinct_names_needed]).

    For observed cases ([agrees_meets_c03], [agrees_meets_c14_numbers]) one more hypothesis is needed: the
    class names of the observed post store are distinct.  [objects_eqb] compares stores as finite maps and
    never sees a shadowed entry, the oracles walk over all entries ([revoked_ok_not_invariant_refuted]);
    with it the oracles are invariant under [objects_eqb] ([revoked_ok_invariant], [numbers_ok_invariant]).
    All hypotheses have executable forms ([hyps_ok], [agrees_meets_c03_checked]).

    How [revoked_ok] relates to [covered] (CaObjProofs.v): per pair of sets with the same key it is a
    consequence of [covered] ([covered_rev_clause]), not its exact reflection.  It is weaker in that an
    object counts as still published if the post set has an object with the same SERIAL under its name
    ([covered]: the identical object), and as revoked if its SERIAL is on the list ([covered]: the pair
    serial, expiry); the expiry comparisons are the same ([<=] now).  It is stronger in that it walks over
    all entries of the published list, also those shadowed by an earlier entry with the same name, which
    [aget] and hence [covered] never see - hence [names_wf].  Sets are paired by key over the whole store
    (the first set with the key, [find_set]) where [ok_covered] pairs the sets of one class; a key that has
    no set any more passes in both.  *)
From KV Require Import base.Tac ca.Ca ca.CaProofs ca.CaObjProofs ca.CaCheck.
Open Scope N_scope.

(** * Part A: lists, association lists, key sets of a store *)

Lemma NoDup_app_iff {A} (a b : list A) :
  NoDup (a ++ b) <-> NoDup a /\ NoDup b /\ (forall x, In x a -> In x b -> False).
Proof.
  induction a as [|x a IH]; simpl.
  - split; [intros H; repeat split; [constructor|exact H|intros x []]|intros [_ [H _]]; exact H].
  - rewrite !NoDup_cons_iff, IH, in_app_iff. split.
    + intros [Hn [Ha [Hb Hd]]]. repeat split; auto.
      intros y [->|Hy] Hyb; [apply Hn; right; exact Hyb|exact (Hd y Hy Hyb)].
    + intros [[Hn Ha] [Hb Hd]]. repeat split; auto.
      * intros [Hx|Hx]; [exact (Hn Hx)|exact (Hd x (or_introl eq_refl) Hx)].
      * intros y Hy Hyb. exact (Hd y (or_intror Hy) Hyb).
Qed.

Lemma nodup_map_inj {A B} (f : A -> B) (l : list A) a b :
  NoDup (map f l) -> In a l -> In b l -> f a = f b -> a = b.
Proof.
  induction l as [|x l IH]; simpl; intros D Ha Hb E; [destruct Ha|].
  inversion D as [|? ? Nin D']; subst.
  destruct Ha as [->|Ha], Hb as [->|Hb]; auto.
  - exfalso. apply Nin. rewrite E. apply in_map. exact Hb.
  - exfalso. apply Nin. rewrite <- E. apply in_map. exact Ha.
Qed.

(** [NoDup (K ++ I1 ++ I2)], the keys after a step are distinct and among [K ++ I1]: they are distinct
    from the keys still to come. *)
Lemma nodup_advance {A} (K I1 I2 K1 : list A) :
  NoDup (K ++ I1 ++ I2) -> NoDup K1 -> incl K1 (K ++ I1) -> NoDup (K1 ++ I2).
Proof.
  intros D D1 Hi. rewrite app_assoc in D. apply NoDup_app_iff in D. destruct D as [_ [D2 Dd]].
  apply NoDup_app_iff. repeat split; auto. intros x Hx Hx2. exact (Dd x (Hi x Hx) Hx2).
Qed.

Lemma nodup_prefix {A} (K I1 I2 : list A) : NoDup (K ++ I1 ++ I2) -> NoDup (K ++ I1).
Proof. rewrite app_assoc. intros D. apply NoDup_app_iff in D. tauto. Qed.

Lemma nodup_left {A} (K I : list A) : NoDup (K ++ I) -> NoDup K.
Proof. intros D. apply NoDup_app_iff in D. tauto. Qed.

Lemma in_aget_some {V} k (v0 : V) l : In (k, v0) l -> exists v, aget k l = Some v.
Proof.
  induction l as [|[k' v'] l IH]; simpl; [tauto|].
  intros [E|Hin]; destruct (k' =? k) eqn:Ek; eauto.
  inv E. rewrite N.eqb_refl in Ek. discriminate.
Qed.

Lemma aget_of_in_nodup {V} k (v : V) l : NoDup (map fst l) -> In (k, v) l -> aget k l = Some v.
Proof.
  induction l as [|[k' v'] l IH]; simpl; [tauto|]. intros D Hin.
  inversion D as [|? ? Nin D']; subst.
  destruct Hin as [E|Hin].
  - inv E. rewrite N.eqb_refl. reflexivity.
  - destruct (k' =? k) eqn:Ek; [|auto]. apply N.eqb_eq in Ek. subst. exfalso. apply Nin.
    change k with (fst (k, v)). apply in_map. exact Hin.
Qed.

Lemma in_aremove {V} c d (k : V) l : In (d, k) (aremove c l) <-> In (d, k) l /\ d <> c.
Proof.
  induction l as [|[d' k'] l IH]; simpl; [tauto|].
  destruct (d' =? c) eqn:E.
  - apply N.eqb_eq in E. subst. rewrite IH. split; [tauto|]. intros [[H|H] Hne]; [inv H; congruence|tauto].
  - apply N.eqb_neq in E. simpl. rewrite IH. split; [intros [H|H]; [inv H; tauto|tauto]|tauto].
Qed.

(** Keys of the sets of a store *)
Definition keys_of (o : objects) : list N := map s_key (all_sets o).
Definition skeys (l : list oset) : list N := map s_key l.
Definition old_sets (c : N) (o : objects) : list oset := match aget c o with Some k => sets_of k | None => [] end.

Lemma sets_of_eq k : sets_of k = sets_of_keys k.
Proof. destruct k; reflexivity. Qed.

Lemma in_all_sets s o : In s (all_sets o) <-> exists c k, In (c, k) o /\ In s (sets_of k).
Proof.
  unfold all_sets. rewrite in_flat_map. split.
  - intros [[c k] [H1 H2]]. eauto.
  - intros [c [k [H1 H2]]]. exists (c, k). auto.
Qed.

Lemma all_sets_cons c k o : all_sets ((c, k) :: o) = sets_of k ++ all_sets o.
Proof. reflexivity. Qed.

Lemma all_sets_ainsert c k o : all_sets (ainsert c k o) = sets_of k ++ all_sets (aremove c o).
Proof. reflexivity. Qed.

Lemma all_sets_aremove_incl c o : incl (all_sets (aremove c o)) (all_sets o).
Proof.
  intros s Hs. apply in_all_sets in Hs. destruct Hs as [d [k [H1 H2]]]. apply in_aremove in H1.
  apply in_all_sets. exists d, k. tauto.
Qed.

Lemma old_sets_incl c o : incl (old_sets c o) (all_sets o).
Proof.
  unfold old_sets. intros s Hs. destruct (aget c o) as [k|] eqn:E; [|destruct Hs].
  apply in_all_sets. exists c, k. split; [apply aget_in; exact E|exact Hs].
Qed.

Lemma keys_of_cons c k o : keys_of ((c, k) :: o) = skeys (sets_of k) ++ keys_of o.
Proof. unfold keys_of, skeys. rewrite all_sets_cons, map_app. reflexivity. Qed.

Lemma nodup_keys_aremove c o : NoDup (keys_of o) -> NoDup (keys_of (aremove c o)).
Proof.
  induction o as [|[d k] o IH]; simpl; [auto|]. rewrite keys_of_cons. intros D.
  apply NoDup_app_iff in D. destruct D as [D1 [D2 Dd]].
  destruct (d =? c); [auto|]. rewrite keys_of_cons. apply NoDup_app_iff. repeat split; auto.
  intros x Hx Hx2. apply (Dd x Hx). unfold keys_of in *. apply in_map_iff in Hx2. destruct Hx2 as [s [E Hs]].
  apply in_map_iff. exists s. split; [exact E|]. apply (all_sets_aremove_incl c o). exact Hs.
Qed.

(** The sets of class [c] (as [aget] sees it) have keys different from those of all other classes. *)
Lemma old_vs_rest c o sp sq :
  NoDup (keys_of o) -> In sp (old_sets c o) -> In sq (all_sets (aremove c o)) -> s_key sp <> s_key sq.
Proof.
  induction o as [|[d k] o IH]; simpl; [tauto|]. rewrite keys_of_cons. intros D.
  apply NoDup_app_iff in D. destruct D as [D1 [D2 Dd]].
  unfold old_sets. cbn [aget]. destruct (d =? c) eqn:E.
  - intros Hp Hq E2. apply (Dd (s_key sp)); [apply in_map; exact Hp|].
    rewrite E2. apply in_map. apply (all_sets_aremove_incl c o). exact Hq.
  - fold (old_sets c o). intros Hp Hq. rewrite all_sets_cons in Hq. apply in_app_iff in Hq. destruct Hq as [Hq|Hq].
    + intros E2. apply (Dd (s_key sq)); [apply in_map; exact Hq|].
      rewrite <- E2. apply in_map. apply (old_sets_incl c o). exact Hp.
    + apply IH; auto.
Qed.

Lemma nodup_old_sets c o : NoDup (keys_of o) -> NoDup (skeys (old_sets c o)).
Proof.
  induction o as [|[d k] o IH]; unfold old_sets; cbn [aget]; [constructor|]. rewrite keys_of_cons. intros D.
  apply NoDup_app_iff in D. destruct D as [D1 [D2 Dd]].
  destruct (d =? c); [exact D1|apply IH; exact D2].
Qed.

(** * Part B: relations between the key sets of two stores, matched by key *)

(** [SRel P Q L L']: every set of [L'] is [P]-related to the set of [L] with the same key, and satisfies
    [Q] if [L] has no set with its key. *)
Definition SRel (P : oset -> oset -> Prop) (Q : oset -> Prop) (L L' : list oset) : Prop :=
  (forall sp sq, In sp L -> In sq L' -> s_key sp = s_key sq -> P sp sq) /\
  (forall sq, In sq L' -> (forall sp, In sp L -> s_key sp <> s_key sq) -> Q sq).
Definition GRel P Q (o o' : objects) : Prop := SRel P Q (all_sets o) (all_sets o').

(** What a step does to the keys: they stay distinct, and new ones come from [I]. *)
Definition Track (I : list N) (o o' : objects) : Prop := NoDup (keys_of o') /\ incl (keys_of o') (keys_of o ++ I).

Lemma srel_weaken (P P' : oset -> oset -> Prop) (Q Q' : oset -> Prop) L L' :
  (forall a b, P a b -> P' a b) -> (forall b, Q b -> Q' b) -> SRel P Q L L' -> SRel P' Q' L L'.
Proof. intros HP HQ [H1 H2]. split; [intros sp sq A B C; apply HP; auto|intros sq A B; apply HQ; auto]. Qed.

Lemma srel_conj (P P' : oset -> oset -> Prop) (Q Q' : oset -> Prop) L L' :
  SRel P Q L L' -> SRel P' Q' L L' -> SRel (fun a b => P a b /\ P' a b) (fun b => Q b /\ Q' b) L L'.
Proof. intros [H1 H2] [H3 H4]. split; [intros sp sq A B C; split; auto|intros sq A B; split; auto]. Qed.

Lemma srel_compose (P1 P2 P3 : oset -> oset -> Prop) (Q1 Q2 Q3 : oset -> Prop) L L1 L2 :
  SRel P1 Q1 L L1 -> SRel P2 Q2 L1 L2 ->
  (forall a c, In a L -> In c L2 -> s_key a = s_key c -> exists b, In b L1 /\ s_key b = s_key a) ->
  (forall a b c, P1 a b -> P2 b c -> P3 a c) ->
  (forall b c, Q1 b -> P2 b c -> Q3 c) ->
  (forall c, Q2 c -> Q3 c) ->
  SRel P3 Q3 L L2.
Proof.
  intros [A1 A2] [B1 B2] Hp HP HQ1 HQ2. split.
  - intros a c Ha Hc E. destruct (Hp a c Ha Hc E) as [b [Hb Eb]].
    apply (HP a b c); [apply A1; auto|apply B1; auto; congruence].
  - intros c Hc Hnew. destruct (find (fun s => s_key s =? s_key c) L1) as [b|] eqn:F.
    + apply find_some in F. destruct F as [Hb Eb]. apply N.eqb_eq in Eb.
      apply (HQ1 b c); [|apply B1; auto]. apply A2; auto. intros a Ha. rewrite Eb. apply Hnew. exact Ha.
    + apply HQ2. apply B2; auto. intros b Hb Eb. pose proof (find_none _ _ F b Hb) as Hx. cbn beta in Hx.
      rewrite Eb, N.eqb_refl in Hx. discriminate.
Qed.

(** A key of the first store that is still there after two steps was there in between, when the keys
    introduced by the second step are not keys of the first store. *)
Lemma persist (I2 : list N) (o o1 o2 : objects) :
  incl (keys_of o2) (keys_of o1 ++ I2) ->
  (forall x, In x (keys_of o) -> In x I2 -> False) ->
  forall a c, In a (all_sets o) -> In c (all_sets o2) -> s_key a = s_key c ->
  exists b, In b (all_sets o1) /\ s_key b = s_key a.
Proof.
  intros Hi Hd a c Ha Hc E.
  assert (Hk : In (s_key a) (keys_of o1 ++ I2)) by (apply Hi; rewrite E; apply in_map; exact Hc).
  apply in_app_iff in Hk. destruct Hk as [Hk|Hk].
  - apply in_map_iff in Hk. destruct Hk as [b [Eb Hb]]. exists b. auto.
  - exfalso. apply (Hd (s_key a)); [apply in_map; exact Ha|exact Hk].
Qed.

Lemma track_compose I1 I2 o o1 o2 : Track I1 o o1 -> Track I2 o1 o2 -> Track (I1 ++ I2) o o2.
Proof.
  intros [D1 H1] [D2 H2]. split; [exact D2|]. intros x Hx. apply H2 in Hx. rewrite app_assoc.
  apply in_app_iff in Hx. apply in_app_iff. destruct Hx as [Hx|Hx]; [left; apply H1; exact Hx|right; exact Hx].
Qed.

Lemma track_advance I1 I2 o o1 : NoDup (keys_of o ++ I1 ++ I2) -> Track I1 o o1 -> NoDup (keys_of o1 ++ I2).
Proof. intros D [D1 H1]. eapply nodup_advance; eauto. Qed.

Lemma disjoint_later I1 I2 (o : objects) :
  NoDup (keys_of o ++ I1 ++ I2) -> forall x, In x (keys_of o) -> In x I2 -> False.
Proof.
  intros D x Hx Hx2. apply NoDup_app_iff in D. destruct D as [_ [_ Dd]]. apply (Dd x Hx).
  apply in_app_iff. right. exact Hx2.
Qed.

(** Composition of two steps, in the form used at every level below. *)
Lemma grel_compose (P1 P2 P3 : oset -> oset -> Prop) (Q1 Q2 Q3 : oset -> Prop) I1 I2 o o1 o2 :
  NoDup (keys_of o ++ I1 ++ I2) ->
  GRel P1 Q1 o o1 -> Track I2 o1 o2 -> GRel P2 Q2 o1 o2 ->
  (forall a b c, P1 a b -> P2 b c -> P3 a c) ->
  (forall b c, Q1 b -> P2 b c -> Q3 c) ->
  (forall c, Q2 c -> Q3 c) ->
  GRel P3 Q3 o o2.
Proof.
  intros D G1 [_ T2] G2 HP HQ1 HQ2. unfold GRel in *.
  eapply srel_compose; eauto. apply (persist I2); auto. apply (disjoint_later I1); exact D.
Qed.

(** Stores whose sets are among those of [o] (nothing changed, or a class dropped). *)
Lemma grel_sub (P : oset -> oset -> Prop) (Q : oset -> Prop) o o' :
  (forall s, P s s) -> NoDup (keys_of o) -> incl (all_sets o') (all_sets o) -> GRel P Q o o'.
Proof.
  intros Hr D Hi. split.
  - intros sp sq Hp Hq E. assert (sp = sq) by (eapply nodup_map_inj; eauto). subst. apply Hr.
  - intros sq Hq Hnew. exfalso. apply (Hnew sq); auto.
Qed.

(** Replacing the entry of class [c]: what has to be shown is the relation between the old and the new
    sets of that class. *)
Lemma grel_ins (P : oset -> oset -> Prop) (Q : oset -> Prop) I o c k' :
  (forall s, P s s) -> NoDup (keys_of o ++ I) ->
  SRel P Q (old_sets c o) (sets_of k') ->
  incl (skeys (sets_of k')) (skeys (old_sets c o) ++ I) ->
  GRel P Q o (ainsert c k' o).
Proof.
  intros Hr D [S1 S2] Hi. pose proof (nodup_left _ _ D) as D0. unfold GRel. rewrite all_sets_ainsert. split.
  - intros sp sq Hp Hq E. apply in_app_iff in Hq. destruct Hq as [Hq|Hq].
    + assert (Hk : In (s_key sq) (skeys (old_sets c o) ++ I)) by (apply Hi; apply in_map; exact Hq).
      apply in_app_iff in Hk. destruct Hk as [Hk|Hk].
      * apply in_map_iff in Hk. destruct Hk as [s0 [E0 H0]].
        assert (s0 = sp) by (eapply nodup_map_inj; eauto; [apply (old_sets_incl c o); exact H0|congruence]). subst.
        apply S1; auto.
      * exfalso. apply NoDup_app_iff in D. destruct D as [_ [_ Dd]]. apply (Dd (s_key sq)); auto.
        rewrite <- E. apply in_map. exact Hp.
    + apply (all_sets_aremove_incl c o) in Hq. assert (sp = sq) by (eapply nodup_map_inj; eauto). subst. apply Hr.
  - intros sq Hq Hnew. apply in_app_iff in Hq. destruct Hq as [Hq|Hq].
    + apply S2; auto. intros sp Hp. apply Hnew. apply (old_sets_incl c o) in Hp. exact Hp.
    + exfalso. apply (all_sets_aremove_incl c o) in Hq. apply (Hnew sq); auto.
Qed.

Lemma track_ins I o c k' :
  NoDup (keys_of o ++ I) -> NoDup (skeys (sets_of k')) ->
  incl (skeys (sets_of k')) (skeys (old_sets c o) ++ I) ->
  Track I o (ainsert c k' o).
Proof.
  intros D Dn Hi. pose proof (nodup_left _ _ D) as D0.
  assert (Hsub : incl (keys_of (aremove c o)) (keys_of o)).
  { intros x Hx. apply in_map_iff in Hx. destruct Hx as [s [E Hs]]. apply in_map_iff. exists s.
    split; [exact E|apply (all_sets_aremove_incl c o); exact Hs]. }
  unfold Track, keys_of. rewrite all_sets_ainsert, map_app. fold (skeys (sets_of k')). fold (keys_of (aremove c o)). split.
  - apply NoDup_app_iff. repeat split; [exact Dn|apply nodup_keys_aremove; exact D0|].
    intros x Hx Hx2. apply Hi in Hx. apply in_app_iff in Hx. destruct Hx as [Hx|Hx].
    + apply in_map_iff in Hx. destruct Hx as [sp [Ep Hp]]. apply in_map_iff in Hx2. destruct Hx2 as [sq [Eq Hq]].
      apply (old_vs_rest c o sp sq D0 Hp Hq). congruence.
    + apply NoDup_app_iff in D. destruct D as [_ [_ Dd]]. apply (Dd x); auto.
  - intros x Hx. apply in_app_iff in Hx. apply in_app_iff. destruct Hx as [Hx|Hx].
    + apply Hi in Hx. apply in_app_iff in Hx. destruct Hx as [Hx|Hx]; [left|right; exact Hx].
      apply in_map_iff in Hx. destruct Hx as [sp [Ep Hp]]. apply in_map_iff. exists sp. split; [exact Ep|].
      apply (old_sets_incl c o) in Hp. exact Hp.
    + left. apply Hsub. exact Hx.
Qed.

Lemma track_sub I o o' : NoDup (keys_of o') -> incl (all_sets o') (all_sets o) -> Track I o o'.
Proof.
  intros D Hi. split; [exact D|]. intros x Hx. apply in_app_iff. left.
  apply in_map_iff in Hx. destruct Hx as [s [E Hs]]. apply in_map_iff. exists s. auto.
Qed.

(** * Part C: one event of the listener *)

(** Keys of the sets an event creates. *)
Definition ik (e : event) : list N :=
  match e with EPendingToActive _ crt | EPendingToNew _ crt => [c_key crt] | _ => [] end.

(** Per event: numbers do not move; a set is untouched unless the event forces re-issuance; new sets
    start at 1. *)
Definition EP (f : bool) (a b : oset) : Prop := s_num b = s_num a /\ (f = true \/ b = a).
Definition EQ (b : oset) : Prop := s_num b = 1.

Definition class_step (e : event) (f : bool) (old new : list oset) : Prop :=
  SRel (EP f) EQ old new /\ incl (skeys new) (skeys old ++ ik e) /\ NoDup (skeys new).

Inductive shape (e : event) (f : bool) (o o' : objects) : Prop :=
| ShSub : incl (all_sets o') (all_sets o) -> NoDup (keys_of o') -> shape e f o o'
| ShIns c k' : o' = ainsert c k' o -> class_step e f (old_sets c o) (sets_of k') -> shape e f o o'.

Ltac in_cases :=
  repeat match goal with
  | H : In _ (_ :: _) |- _ => destruct H as [H|H]
  | H : In _ [] |- _ => destruct H
  | H : _ \/ _ |- _ => destruct H as [H|H]
  | H : False |- _ => destruct H
  end.

Ltac new_contra Hnew :=
  exfalso; first [ eapply Hnew; [left; reflexivity|cbn in *; congruence]
                 | eapply Hnew; [right; left; reflexivity|cbn in *; congruence] ].

Lemma nodup2 (a b : N) : NoDup [a; b] <-> a <> b.
Proof.
  split.
  - intros D E. inversion D as [|? ? Nin _]; subst. apply Nin. left. reflexivity.
  - intros Hne. constructor; [intros [E|[]]; congruence|]. constructor; [intros []|constructor].
Qed.

Lemma cs_refl e f L : NoDup (skeys L) -> class_step e f L L.
Proof.
  intros D. split; [split|split].
  - intros sp sq Hp Hq E. assert (sp = sq) by (eapply nodup_map_inj; eauto). subst. split; auto.
  - intros sq Hq Hnew. exfalso. apply (Hnew sq); auto.
  - apply incl_appl. apply incl_refl.
  - exact D.
Qed.

Lemma skeys_with_current k s1 :
  s_key s1 = s_key (ok_current k) -> skeys (sets_of (ok_with_current k s1)) = skeys (sets_of k).
Proof. intros E. destruct k; cbn in *; rewrite E; reflexivity. Qed.

Lemma cs_with_current e k s1 :
  s_key s1 = s_key (ok_current k) -> s_num s1 = s_num (ok_current k) -> NoDup (skeys (sets_of k)) ->
  class_step e true (sets_of k) (sets_of (ok_with_current k s1)).
Proof.
  intros Hk Hn D. split; [|rewrite (skeys_with_current k s1 Hk); split; [apply incl_appl; apply incl_refl|exact D]].
  destruct k as [c|s c|c o]; cbn in *; try (apply nodup2 in D); split.
  - intros sp sq Hp Hq E. in_cases; subst. split; auto.
  - intros sq Hq Hnew. in_cases; subst. new_contra Hnew.
  - intros sp sq Hp Hq E. in_cases; subst; try (split; auto; fail); exfalso; congruence.
  - intros sq Hq Hnew. in_cases; subst; new_contra Hnew.
  - intros sp sq Hp Hq E. in_cases; subst; try (split; auto; fail); exfalso; congruence.
  - intros sq Hq Hnew. in_cases; subst; new_contra Hnew.
Qed.

Lemma cs_new e f key next : ik e = [key] -> class_step e f [] [os_create key next].
Proof.
  intros Hi. split; [split|split].
  - intros sp sq [].
  - intros sq Hq _. in_cases; subst. reflexivity.
  - rewrite Hi. cbn. apply incl_refl.
  - cbn. constructor; [intros []|constructor].
Qed.

Lemma cs_stg e key next cur : ik e = [key] -> key <> s_key cur -> class_step e false [cur] [os_create key next; cur].
Proof.
  intros Hi Hne. split; [split|split].
  - intros sp sq Hp Hq E. in_cases; subst; cbn in *; [exfalso; congruence|split; auto].
  - intros sq Hq Hnew. in_cases; subst; [reflexivity|new_contra Hnew].
  - rewrite Hi. cbn. intros x [<-|[<-|[]]]; cbn; auto.
  - cbn. apply nodup2. exact Hne.
Qed.

Lemma cs_activate e now stg cur : NoDup (skeys [stg; cur]) -> class_step e true [stg; cur] [stg; os_retire now cur].
Proof.
  intros D. split; [split|split].
  - cbn in D. apply nodup2 in D. intros sp sq Hp Hq E. in_cases; subst; cbn in *; try (split; auto; fail); exfalso; congruence.
  - intros sq Hq Hnew. in_cases; subst; new_contra Hnew.
  - apply incl_appl. cbn. apply incl_refl.
  - exact D.
Qed.

Lemma cs_finish e cur old : NoDup (skeys [cur; old]) -> class_step e false [cur; old] [cur].
Proof.
  intros D. cbn in D. apply nodup2 in D. split; [split|split].
  - intros sp sq Hp Hq E. in_cases; subst; [split; auto|exfalso; congruence].
  - intros sq Hq Hnew. in_cases; subst. new_contra Hnew.
  - apply incl_appl. cbn. intros x [<-|[]]. left. reflexivity.
  - cbn. constructor; [intros []|constructor].
Qed.

(** Updates of the published set keep key and number (also with the legacy [unsuspended] list). *)
Definition keeps (g : oset -> oset) : Prop := forall s, s_key (g s) = s_key s /\ s_num (g s) = s_num s.

Lemma keeps_fold {A} (g : oset -> A -> oset) (l : list A) :
  (forall a, keeps (fun s => g s a)) -> keeps (fun s => fold_left g l s).
Proof.
  intros Hg. induction l as [|a l IH]; intros s; simpl; [auto|].
  destruct (IH (g s a)) as [K Nn]. destruct (Hg a s) as [K2 N2]. split; congruence.
Qed.

Lemma keeps_insert n o : keeps (fun s => os_insert s n o).
Proof. intros s. unfold os_insert. destruct (aget n (s_pub s)); split; reflexivity. Qed.
Lemma keeps_insert_norevoke n o : keeps (fun s => os_insert_norevoke s n o).
Proof. intros s. split; reflexivity. Qed.
Lemma keeps_remove n : keeps (fun s => os_remove s n).
Proof. intros s. unfold os_remove. destruct (aget n (s_pub s)); split; reflexivity. Qed.

Lemma keeps_update_objs updated removed : keeps (fun s => os_update_objs s updated removed).
Proof.
  intros s. unfold os_update_objs.
  destruct (keeps_fold os_remove removed keeps_remove (fold_left (fun s '(n, o) => os_insert s n o) updated s)) as [K1 N1].
  destruct (keeps_fold (fun s '(n, o) => os_insert s n o) updated (fun '(n, o) => keeps_insert n o) s) as [K2 N2].
  split; congruence.
Qed.

Lemma keeps_update_certs issued removed suspended unsuspended :
  keeps (fun s => os_update_certs s issued removed suspended unsuspended).
Proof.
  intros s. unfold os_update_certs.
  set (s1 := fold_left os_remove removed s).
  set (s2 := fold_left (fun s '(_, o) => os_insert s (o_name o) o) issued s1).
  set (s3 := fold_left (fun s '(_, o) => os_insert_norevoke s (o_name o) o) unsuspended s2).
  destruct (keeps_fold os_remove removed keeps_remove s) as [K1 N1]. fold s1 in K1, N1.
  destruct (keeps_fold (fun s '(_, o) => os_insert s (o_name o) o) issued (fun '(_, o) => keeps_insert (o_name o) o) s1) as [K2 N2].
  fold s2 in K2, N2.
  destruct (keeps_fold (fun s '(_, o) => os_insert_norevoke s (o_name o) o) unsuspended
              (fun '(_, o) => keeps_insert_norevoke (o_name o) o) s2) as [K3 N3].
  fold s3 in K3, N3.
  destruct (keeps_fold (fun s '(_, o) => os_remove s (o_name o)) suspended (fun '(_, o) => keeps_remove (o_name o)) s3) as [K4 N4].
  split; congruence.
Qed.

Lemma old_sets_some c o k : aget c o = Some k -> old_sets c o = sets_of k.
Proof. unfold old_sets. intros ->. reflexivity. Qed.
Lemma old_sets_none c o : aget c o = None -> old_sets c o = [].
Proof. unfold old_sets. intros ->. reflexivity. Qed.

(** The shape of one listener step. *)
Lemma listen1_shape env cn o e o' f :
  listen1 env cn o e = Ok (o', f) -> NoDup (keys_of o ++ ik e) -> shape e f o o'.
Proof.
  intros H D. pose proof (nodup_left _ _ D) as D0.
  assert (Same : shape e f o o) by (apply ShSub; [apply incl_refl|exact D0]).
  assert (Dold : forall c, NoDup (skeys (old_sets c o))) by (intros c; apply nodup_old_sets; exact D0).
  assert (Fresh1 : forall c key s, ik e = [key] -> In s (old_sets c o) -> key <> s_key s).
  { intros c key s Hi Hs E. rewrite Hi in D. apply NoDup_app_iff in D. destruct D as [_ [_ Dd]].
    apply (Dd key); [|left; reflexivity]. rewrite E. apply in_map. apply (old_sets_incl c o). exact Hs. }
  destruct e; simpl in H; try (inv H; exact Same).
  - (* child certificates *)
    destruct (aget c o) as [k0|] eqn:E0; [|discriminate]. inv H. eapply ShIns; [reflexivity|].
    rewrite (old_sets_some _ _ _ E0). specialize (Dold c). rewrite (old_sets_some _ _ _ E0) in Dold.
    destruct (keeps_update_certs issued (map cn removed) suspended unsuspended (ok_current k0)) as [K Nn].
    apply cs_with_current; auto.
  - (* class removed *)
    inv H. apply ShSub; [apply all_sets_aremove_incl|apply nodup_keys_aremove; exact D0].
  - (* certificate received *)
    destruct (aget c o) as [k0|] eqn:E0; [|discriminate].
    destruct (ok_received_cert k0 ki) as [k1|] eqn:E1; [|discriminate]. inv H.
    assert (k1 = k0) by (destruct k0; simpl in E1; repeat destr_match; inv E1; reflexivity). subst.
    eapply ShIns; [reflexivity|]. rewrite (old_sets_some _ _ _ E0). apply cs_refl.
    specialize (Dold c). rewrite (old_sets_some _ _ _ E0) in Dold. exact Dold.
  - (* pending to new *)
    destruct (aget c o) as [[cur|? ?|? ?]|] eqn:E0; try discriminate. inv H.
    eapply ShIns; [reflexivity|]. rewrite (old_sets_some _ _ _ E0). cbn [sets_of].
    apply cs_stg; [reflexivity|]. apply (Fresh1 c); [reflexivity|]. rewrite (old_sets_some _ _ _ E0). left. reflexivity.
  - (* pending to active *)
    destruct (amem c o) eqn:E0; [discriminate|]. inv H.
    assert (E1 : aget c o = None) by (unfold amem in E0; destruct (aget c o); [discriminate|reflexivity]).
    eapply ShIns; [reflexivity|]. rewrite (old_sets_none _ _ E1). cbn [sets_of]. apply cs_new. reflexivity.
  - (* activated *)
    destruct (aget c o) as [[?|stg cur|? ?]|] eqn:E0; try discriminate. inv H.
    eapply ShIns; [reflexivity|]. rewrite (old_sets_some _ _ _ E0). cbn [sets_of]. apply cs_activate.
    specialize (Dold c). rewrite (old_sets_some _ _ _ E0) in Dold. exact Dold.
  - (* finished *)
    destruct (aget c o) as [[?|? ?|cur old]|] eqn:E0; try discriminate. inv H.
    eapply ShIns; [reflexivity|]. rewrite (old_sets_some _ _ _ E0). cbn [sets_of]. apply cs_finish.
    specialize (Dold c). rewrite (old_sets_some _ _ _ E0) in Dold. exact Dold.
  - (* objects updated *)
    destruct (aget c o) as [k0|] eqn:E0; [|discriminate]. inv H. eapply ShIns; [reflexivity|].
    rewrite (old_sets_some _ _ _ E0). specialize (Dold c). rewrite (old_sets_some _ _ _ E0) in Dold.
    destruct (keeps_update_objs updated removed (ok_current k0)) as [K Nn].
    apply cs_with_current; auto.
Qed.

Lemma EP_refl f s : EP f s s.
Proof. split; auto. Qed.

Lemma keys_distinct_of_nodup k : NoDup (skeys (sets_of k)) -> keys_distinct k.
Proof. destruct k; cbn; intros D; [exact I|apply nodup2; exact D|apply nodup2; exact D]. Qed.

Lemma current_in_sets k : In (ok_current k) (sets_of k).
Proof. destruct k; cbn; auto. Qed.

Lemma event_track env cn o e o' f :
  listen1 env cn o e = Ok (o', f) -> NoDup (keys_of o ++ ik e) -> Track (ik e) o o'.
Proof.
  intros H D. destruct (listen1_shape _ _ _ _ _ _ H D) as [Hi Dn|c k' -> [_ [Hi Dn]]].
  - apply track_sub; auto.
  - apply track_ins; auto.
Qed.

Lemma event_num env cn o e o' f :
  listen1 env cn o e = Ok (o', f) -> NoDup (keys_of o ++ ik e) -> GRel (EP f) EQ o o'.
Proof.
  intros H D. destruct (listen1_shape _ _ _ _ _ _ H D) as [Hi Dn|c k' -> [S [Hi Dn]]].
  - apply grel_sub; auto using EP_refl. eapply nodup_left; eauto.
  - apply (grel_ins _ _ (ik e)); auto using EP_refl.
Qed.

(** Revocations: here the existing theorem [listener_keeps_revocations] does the work, class by class. *)
Definition Cov (now : Z) : objects -> objects -> Prop := GRel (covered now) (fun _ => True).

Lemma event_cov env cn o e o' f :
  listen1 env cn o e = Ok (o', f) -> no_unsuspended e -> NoDup (keys_of o ++ ik e) -> Cov (e_now env) o o'.
Proof.
  intros H Hnu D. pose proof (nodup_left _ _ D) as D0.
  destruct (listen1_shape _ _ _ _ _ _ H D) as [Hi Dn|c k' E' [S [Hi Dn]]].
  - apply grel_sub; auto using covered_refl.
  - unfold Cov. rewrite E'. apply (grel_ins _ _ (ik e)); auto using covered_refl.
    destruct (aget c o) as [k|] eqn:E0.
    + rewrite (old_sets_some _ _ _ E0).
      assert (Dk : NoDup (skeys (sets_of k))) by (rewrite <- (old_sets_some _ _ _ E0); apply nodup_old_sets; exact D0).
      pose proof (listener_keeps_revocations env cn o e o' f c k H Hnu E0 (keys_distinct_of_nodup k Dk)) as L.
      rewrite E', aget_ainsert_eq in L. destruct L as [L _].
      * intros crt Ee Ek. subst e. cbn [ik] in D. apply NoDup_app_iff in D. destruct D as [_ [_ Dd]].
        apply (Dd (c_key crt)); [|left; reflexivity]. rewrite Ek. apply in_map.
        apply (old_sets_incl c o). rewrite (old_sets_some _ _ _ E0). apply current_in_sets.
      * split; [|auto]. intros sp sq Hp Hq E. apply (L sp sq); [rewrite <- sets_of_eq; exact Hp|rewrite <- sets_of_eq; exact Hq|exact E].
    + rewrite (old_sets_none _ _ E0). split; [intros sp sq []|auto].
Qed.

(** * Part D: all events of a command, the re-issue at its end, a whole run *)

Definition iks (evs : list event) : list N := flat_map ik evs.

Lemma listen_all_mono env cn evs : forall o F0 o' F,
  listen_all env cn o F0 evs = Ok (o', F) -> F = false -> F0 = false.
Proof.
  induction evs as [|e r IH]; simpl; intros o F0 o' F H HF.
  - inv H. reflexivity.
  - destruct (listen1 env cn o e) as [[o1 f]|]; [|discriminate].
    apply IH in H; auto. apply orb_false_iff in H. tauto.
Qed.

Lemma listen_all_track env cn evs : forall o F0 o' F,
  listen_all env cn o F0 evs = Ok (o', F) -> NoDup (keys_of o ++ iks evs) -> Track (iks evs) o o'.
Proof.
  induction evs as [|e r IH]; simpl; intros o F0 o' F H D.
  - inv H. apply track_sub; [eapply nodup_left; eauto|apply incl_refl].
  - destruct (listen1 env cn o e) as [[o1 f]|] eqn:E1; [|discriminate].
    change (iks (e :: r)) with (ik e ++ iks r) in *.
    pose proof (event_track _ _ _ _ _ _ E1 (nodup_prefix _ _ _ D)) as T1.
    pose proof (track_advance _ _ _ _ D T1) as D1.
    apply (track_compose _ _ _ o1); auto. apply (IH o1 _ _ _ H D1).
Qed.

Lemma listen_all_num env cn evs : forall o F0 o' F,
  listen_all env cn o F0 evs = Ok (o', F) -> NoDup (keys_of o ++ iks evs) -> GRel (EP F) EQ o o'.
Proof.
  induction evs as [|e r IH]; simpl; intros o F0 o' F H D.
  - inv H. apply grel_sub; [apply EP_refl|eapply nodup_left; eauto|apply incl_refl].
  - destruct (listen1 env cn o e) as [[o1 f]|] eqn:E1; [|discriminate].
    change (iks (e :: r)) with (ik e ++ iks r) in *.
    pose proof (event_track _ _ _ _ _ _ E1 (nodup_prefix _ _ _ D)) as T1.
    pose proof (track_advance _ _ _ _ D T1) as D1.
    pose proof (event_num _ _ _ _ _ _ E1 (nodup_prefix _ _ _ D)) as G1.
    pose proof (listen_all_track _ _ _ _ _ _ _ H D1) as T2.
    pose proof (IH _ _ _ _ H D1) as G2.
    apply (grel_compose (EP f) (EP F) (EP F) EQ EQ EQ (ik e) (iks r) o o1 o'); auto.
    + intros a b c [N1 U1] [N2 U2]. split; [congruence|]. destruct F; [left; reflexivity|right].
      pose proof (listen_all_mono _ _ _ _ _ _ _ H eq_refl) as Hm. apply orb_false_iff in Hm. destruct Hm as [_ Hf]. subst f.
      destruct U1 as [U1|U1]; [discriminate|]. destruct U2 as [U2|U2]; [discriminate|]. congruence.
    + intros b c Hb [N2 _]. unfold EQ in *. congruence.
Qed.

Lemma listen_all_cov env cn evs : forall o F0 o' F,
  listen_all env cn o F0 evs = Ok (o', F) -> Forall no_unsuspended evs -> NoDup (keys_of o ++ iks evs) ->
  Cov (e_now env) o o'.
Proof.
  induction evs as [|e r IH]; simpl; intros o F0 o' F H Hnu D.
  - inv H. apply grel_sub; [apply covered_refl|eapply nodup_left; eauto|apply incl_refl].
  - destruct (listen1 env cn o e) as [[o1 f]|] eqn:E1; [|discriminate].
    change (iks (e :: r)) with (ik e ++ iks r) in *. inversion Hnu as [|? ? Hnu1 Hnu2]; subst.
    pose proof (event_track _ _ _ _ _ _ E1 (nodup_prefix _ _ _ D)) as T1.
    pose proof (track_advance _ _ _ _ D T1) as D1.
    pose proof (event_cov _ _ _ _ _ _ E1 Hnu1 (nodup_prefix _ _ _ D)) as G1.
    pose proof (listen_all_track _ _ _ _ _ _ _ H D1) as T2.
    pose proof (IH _ _ _ _ H Hnu2 D1) as G2.
    apply (grel_compose (covered (e_now env)) (covered (e_now env)) (covered (e_now env))
             (fun _ => True) (fun _ => True) (fun _ => True) (ik e) (iks r) o o1 o'); auto.
    intros a b c. apply covered_trans.
Qed.

(** Re-issue *)
Definition RP (now next : Z) (F : bool) (a b : oset) : Prop := b = os_reissue now next a \/ (F = false /\ b = a).

Lemma RP_key now next F a b : RP now next F a b -> s_key b = s_key a.
Proof. intros [->|[_ ->]]; reflexivity. Qed.

Lemma re_issue_cons env F c k o :
  re_issue env F ((c, k) :: o) =
  (c, if F || ok_requires (e_now env) (e_margin env) k then ok_reissue (e_now env) (e_next env) k else k) :: re_issue env F o.
Proof. reflexivity. Qed.

Lemma keys_reissue env F o : keys_of (re_issue env F o) = keys_of o.
Proof.
  induction o as [|[c k] o IH]; [reflexivity|]. rewrite re_issue_cons, !keys_of_cons, IH. f_equal.
  destruct (F || ok_requires (e_now env) (e_margin env) k); [|reflexivity]. destruct k; reflexivity.
Qed.

Lemma reissue_sets env F o sq :
  In sq (all_sets (re_issue env F o)) -> exists sp, In sp (all_sets o) /\ RP (e_now env) (e_next env) F sp sq.
Proof.
  induction o as [|[c k] o IH]; [intros []|]. rewrite re_issue_cons, !all_sets_cons. intros H.
  apply in_app_iff in H. destruct H as [H|H].
  - destruct (F || ok_requires (e_now env) (e_margin env) k) eqn:Ec.
    + destruct k; cbn in H; in_cases; subst; eexists; (split; [apply in_app_iff; left|left; reflexivity]); cbn; auto.
    + apply orb_false_iff in Ec. destruct Ec as [-> _]. exists sq. split; [apply in_app_iff; left; exact H|right; auto].
  - destruct (IH H) as [sp [Hp R]]. exists sp. split; [apply in_app_iff; right; exact Hp|exact R].
Qed.

Lemma reissue_rel env F o :
  NoDup (keys_of o) -> GRel (RP (e_now env) (e_next env) F) (fun _ => False) o (re_issue env F o).
Proof.
  intros D. split.
  - intros sp sq Hp Hq E. destruct (reissue_sets _ _ _ _ Hq) as [sp0 [Hp0 R]].
    assert (sp0 = sp) by (eapply nodup_map_inj; eauto; rewrite <- (RP_key _ _ _ _ _ R); auto). subst. exact R.
  - intros sq Hq Hnew. destruct (reissue_sets _ _ _ _ Hq) as [sp0 [Hp0 R]].
    apply (Hnew sp0 Hp0). symmetry. eapply RP_key; eauto.
Qed.

Lemma reissue_track env F o : NoDup (keys_of o) -> Track [] o (re_issue env F o).
Proof. intros D. split; rewrite keys_reissue; [exact D|apply incl_appl; apply incl_refl]. Qed.

Lemma RP_covered now next F a b : RP now next F a b -> covered now a b.
Proof. intros [->|[_ ->]]; [apply covered_reissue|apply covered_refl]. Qed.

(** One command *)
Definition CP (n : N) (a b : oset) : Prop :=
  s_num a <= s_num b /\ s_num b <= s_num a + n /\
  (s_num a < s_num b \/ (s_pub b = s_pub a /\ incl (s_rev b) (s_rev a))).
Definition CQ (n : N) (b : oset) : Prop := 1 <= s_num b /\ s_num b <= 1 + n.

Definition cmd_iks (m : cmd) : list N := match m_republish m with Some _ => [] | None => iks (m_evs m) end.
Definition run_iks (ms : list cmd) : list N := flat_map cmd_iks ms.

Definition cmd_objs (env : env) (cn : N -> N) (o : objects) (m : cmd) : option objects :=
  match m_republish m with
  | Some force => Some (re_issue env force o)
  | None => match listener env cn o (m_evs m) with Ok o' => Some o' | Err => None end
  end.

Lemma run_cmds_cons env cn s o m r s' o' :
  run_cmds env cn s o (m :: r) = Some (s', o') ->
  exists s1 o1, cmd_objs env cn o m = Some o1 /\ run_cmds env cn s1 o1 r = Some (s', o').
Proof.
  unfold cmd_objs. simpl. destruct (m_republish m); [eauto|].
  destruct (kcmds_ok s m); [|discriminate].
  destruct (apply_all s (m_evs m)); destruct (listener env cn o (m_evs m)); try discriminate; eauto.
Qed.

Lemma RP_CP now next F a b : RP now next F a b -> CP 1 a b.
Proof.
  intros [->|[_ ->]]; unfold CP; cbn [os_reissue s_num s_pub s_rev].
  - repeat split; [lia|lia|left; lia].
  - repeat split; [lia|lia|right; split; [reflexivity|apply incl_refl]].
Qed.

Lemma cmd_track env cn o m o1 :
  cmd_objs env cn o m = Some o1 -> NoDup (keys_of o ++ cmd_iks m) -> Track (cmd_iks m) o o1.
Proof.
  unfold cmd_objs, cmd_iks, listener. destruct (m_republish m) as [force|].
  - intros H D. inv H. apply reissue_track. eapply nodup_left; eauto.
  - destruct (listen_all env cn o false (m_evs m)) as [[o2 F]|] eqn:E; [|discriminate]. intros H D. inv H.
    pose proof (listen_all_track _ _ _ _ _ _ _ E D) as T1.
    rewrite <- (app_nil_r (iks (m_evs m))). apply (track_compose _ _ _ o2); auto.
    apply reissue_track. destruct T1; auto.
Qed.

Lemma cmd_num env cn o m o1 :
  cmd_objs env cn o m = Some o1 -> NoDup (keys_of o ++ cmd_iks m) -> GRel (CP 1) (CQ 1) o o1.
Proof.
  unfold cmd_objs, cmd_iks, listener. destruct (m_republish m) as [force|].
  - intros H D. inv H. eapply srel_weaken; [| |apply reissue_rel; eapply nodup_left; eauto].
    + intros a b. apply RP_CP.
    + intros b [].
  - destruct (listen_all env cn o false (m_evs m)) as [[o2 F]|] eqn:E; [|discriminate]. intros H D. inv H.
    pose proof (listen_all_track _ _ _ _ _ _ _ E D) as T1. pose proof (listen_all_num _ _ _ _ _ _ _ E D) as G1.
    assert (D2 : NoDup (keys_of o2)) by (destruct T1; auto).
    apply (grel_compose (EP F) (RP (e_now env) (e_next env) F) (CP 1) EQ (fun _ => False) (CQ 1) (iks (m_evs m)) [] o o2).
    + rewrite app_nil_r. exact D.
    + exact G1.
    + apply reissue_track. exact D2.
    + apply reissue_rel. exact D2.
    + intros a b c [N1 U1] R. destruct R as [Hc|[HF Hc]]; subst c; unfold CP; cbn [os_reissue s_num s_pub s_rev].
      * repeat split; [lia|lia|left; lia].
      * subst F. destruct U1 as [U1|U1]; [discriminate|]. subst b. repeat split; [lia|lia|right; split; [reflexivity|apply incl_refl]].
    + intros b c Hb R. unfold EQ in Hb. unfold CQ. destruct R as [->|[_ ->]]; cbn [os_reissue s_num]; lia.
    + intros c [].
Qed.

Lemma cmd_cov env cn o m o1 :
  cmd_objs env cn o m = Some o1 -> (m_republish m = None -> Forall no_unsuspended (m_evs m)) ->
  NoDup (keys_of o ++ cmd_iks m) -> Cov (e_now env) o o1.
Proof.
  unfold cmd_objs, cmd_iks, listener. destruct (m_republish m) as [force|].
  - intros H _ D. inv H. eapply srel_weaken; [| |apply reissue_rel; eapply nodup_left; eauto].
    + intros a b. apply RP_covered.
    + auto.
  - destruct (listen_all env cn o false (m_evs m)) as [[o2 F]|] eqn:E; [|discriminate]. intros H Hnu D. inv H.
    pose proof (listen_all_track _ _ _ _ _ _ _ E D) as T1.
    pose proof (listen_all_cov _ _ _ _ _ _ _ E (Hnu eq_refl) D) as G1.
    assert (D2 : NoDup (keys_of o2)) by (destruct T1; auto).
    apply (grel_compose (covered (e_now env)) (RP (e_now env) (e_next env) F) (covered (e_now env))
             (fun _ => True) (fun _ => False) (fun _ => True) (iks (m_evs m)) [] o o2).
    + rewrite app_nil_r. exact D.
    + exact G1.
    + apply reissue_track. exact D2.
    + apply reissue_rel. exact D2.
    + intros a b c C1 R. eapply covered_trans; [exact C1|eapply RP_covered; exact R].
    + auto.
    + auto.
Qed.

(** A whole run *)

(** Hypotheses on a run.  [Fresh]: the keys of the pre store and the keys of the sets the run creates are
    pairwise distinct (key generation yields new keys: an assumption about the events, which the model
    does not enforce).  [NoUnsusp]: no event uses the legacy [unsuspended] list. *)
Definition Fresh (o : objects) (ms : list cmd) : Prop := NoDup (keys_of o ++ run_iks ms).
Definition NoUnsusp (ms : list cmd) : Prop :=
  forall m, In m ms -> m_republish m = None -> Forall no_unsuspended (m_evs m).

Lemma CP_refl s : CP 0 s s.
Proof. unfold CP. repeat split; [lia|lia|right; split; [reflexivity|apply incl_refl]]. Qed.

Lemma CP_compose n a b c : CP 1 a b -> CP n b c -> CP (N.succ n) a c.
Proof.
  unfold CP. intros [A1 [A2 A3]] [B1 [B2 B3]]. repeat split; [lia|lia|].
  destruct A3 as [A3|[A3 A4]]; [left; lia|]. destruct B3 as [B3|[B3 B4]]; [left; lia|].
  right. split; [congruence|]. eapply incl_tran; eauto.
Qed.

Lemma run_track env cn ms : forall s o s' o',
  run_cmds env cn s o ms = Some (s', o') -> Fresh o ms -> Track (run_iks ms) o o'.
Proof.
  unfold Fresh. induction ms as [|m r IH]; intros s o s' o' H D.
  - simpl in H. inv H. apply track_sub; [eapply nodup_left; eauto|apply incl_refl].
  - apply run_cmds_cons in H. destruct H as [s1 [o1 [H1 H2]]].
    change (run_iks (m :: r)) with (cmd_iks m ++ run_iks r) in *.
    pose proof (cmd_track _ _ _ _ _ H1 (nodup_prefix _ _ _ D)) as T1.
    apply (track_compose _ _ _ o1); auto. apply (IH _ _ _ _ H2). eapply track_advance; eauto.
Qed.

Lemma run_num env cn ms : forall s o s' o',
  run_cmds env cn s o ms = Some (s', o') -> Fresh o ms ->
  GRel (CP (N.of_nat (length ms))) (CQ (N.of_nat (length ms))) o o'.
Proof.
  unfold Fresh. induction ms as [|m r IH]; intros s o s' o' H D.
  - simpl in H. inv H. apply grel_sub; [apply CP_refl|eapply nodup_left; eauto|apply incl_refl].
  - apply run_cmds_cons in H. destruct H as [s1 [o1 [H1 H2]]].
    change (run_iks (m :: r)) with (cmd_iks m ++ run_iks r) in *.
    pose proof (cmd_track _ _ _ _ _ H1 (nodup_prefix _ _ _ D)) as T1.
    pose proof (track_advance _ _ _ _ D T1) as D1.
    cbn [length]. rewrite Nat2N.inj_succ. set (n := N.of_nat (length r)) in *.
    apply (grel_compose (CP 1) (CP n) (CP (N.succ n)) (CQ 1) (CQ n) (CQ (N.succ n)) (cmd_iks m) (run_iks r) o o1 o').
    + exact D.
    + eapply cmd_num; eauto. eapply nodup_prefix; eauto.
    + eapply run_track; eauto.
    + eapply IH; eauto.
    + intros a b c. apply CP_compose.
    + unfold CP, CQ. intros b c [Q1 Q2] [B1 [B2 _]]. lia.
    + unfold CQ. intros c [Q1 Q2]. lia.
Qed.

Lemma run_cov env cn ms : forall s o s' o',
  run_cmds env cn s o ms = Some (s', o') -> Fresh o ms -> NoUnsusp ms -> Cov (e_now env) o o'.
Proof.
  unfold Fresh. induction ms as [|m r IH]; intros s o s' o' H D Hnu.
  - simpl in H. inv H. apply grel_sub; [apply covered_refl|eapply nodup_left; eauto|apply incl_refl].
  - apply run_cmds_cons in H. destruct H as [s1 [o1 [H1 H2]]].
    change (run_iks (m :: r)) with (cmd_iks m ++ run_iks r) in *.
    pose proof (cmd_track _ _ _ _ _ H1 (nodup_prefix _ _ _ D)) as T1.
    pose proof (track_advance _ _ _ _ D T1) as D1.
    apply (grel_compose (covered (e_now env)) (covered (e_now env)) (covered (e_now env))
             (fun _ => True) (fun _ => True) (fun _ => True) (cmd_iks m) (run_iks r) o o1 o').
    + exact D.
    + eapply cmd_cov; eauto; [intros Hr; apply Hnu; [left; reflexivity|exact Hr]|eapply nodup_prefix; eauto].
    + eapply run_track; eauto.
    + eapply IH; eauto. intros m' Hm'. apply Hnu. right. exact Hm'.
    + intros a b c. apply covered_trans.
    + auto.
    + auto.
Qed.

(** * Part E: from the relations to the executable oracles *)

Definition ser_in (x : N) (l : list (N * Z)) : bool := existsb (fun '(ser, _) => ser =? x) l.

Lemma ser_in_spec x l : ser_in x l = true <-> In x (map fst l).
Proof.
  unfold ser_in. rewrite existsb_exists, in_map_iff. split.
  - intros [[s e] [Hin E]]. apply N.eqb_eq in E. exists (s, e). auto.
  - intros [[s e] [E Hin]]. exists (s, e). split; [exact Hin|apply N.eqb_eq; exact E].
Qed.

(** What [revoked_ok] demands of a pre set [sp] and the post set [sq] of the same key. *)
Definition rev_clause (now : Z) (sp sq : oset) : bool :=
  forallb (fun '(n, o) =>
    match aget n (s_pub sq) with
    | Some o' => if o_ser o' =? o_ser o then true else (o_exp o <=? now)%Z || ser_in (o_ser o) (s_rev sq)
    | None => (o_exp o <=? now)%Z || ser_in (o_ser o) (s_rev sq)
    end) (s_pub sp)
  && forallb (fun '(ser, exp) => (exp <=? now)%Z || ser_in ser (s_rev sq)) (s_rev sp).

Lemma revoked_ok_unfold now pre post :
  revoked_ok now pre post =
  forallb (fun sp => match find_set (s_key sp) post with None => true | Some sq => rev_clause now sp sq end) (all_sets pre).
Proof. reflexivity. Qed.

(** What [numbers_ok] demands of a post set. *)
Definition num_clause (n : N) (pre : objects) (sq : oset) : bool :=
  match find_set (s_key sq) pre with
  | None => (1 <=? s_num sq) && (s_num sq <=? 1 + n)
  | Some sp =>
      (s_num sp <=? s_num sq) && (s_num sq <=? s_num sp + n)
      && (amap_eqb obj_eqb (s_pub sp) (s_pub sq) && rev_sub (s_rev sq) (s_rev sp) || (s_num sp <? s_num sq))
  end.

Lemma numbers_ok_unfold n pre post : numbers_ok n pre post = forallb (num_clause n pre) (all_sets post).
Proof. reflexivity. Qed.

Lemma find_set_some K o s : find_set K o = Some s -> In s (all_sets o) /\ s_key s = K.
Proof. unfold find_set. intros H. apply find_some in H. destruct H as [H1 H2]. apply N.eqb_eq in H2. auto. Qed.

Lemma find_set_none K o : find_set K o = None -> forall s, In s (all_sets o) -> s_key s <> K.
Proof.
  unfold find_set. intros H s Hs E. pose proof (find_none _ _ H s Hs) as Hx. cbn beta in Hx.
  rewrite E, N.eqb_refl in Hx. discriminate.
Qed.

Lemma obj_eqb_eq a b : obj_eqb a b = true <-> a = b.
Proof.
  unfold obj_eqb. rewrite !andb_true_iff, !N.eqb_eq, Z.eqb_eq. destruct a, b; cbn. split.
  - intros [[-> ->] ->]. reflexivity.
  - intros E. inv E. auto.
Qed.

Lemma amap_eqb_obj_spec (a b : list (N * obj)) : amap_eqb obj_eqb a b = true <-> forall n, aget n a = aget n b.
Proof.
  assert (Sub : forall a b : list (N * obj), amap_sub obj_eqb a b = true ->
                forall n v, aget n a = Some v -> aget n b = Some v).
  { intros a0 b0 H n v Ha. unfold amap_sub in H. rewrite forallb_forall in H.
    specialize (H (n, v) (aget_in _ _ _ Ha)). cbn beta iota in H. rewrite Ha in H.
    destruct (aget n b0) as [v'|]; [|discriminate]. apply obj_eqb_eq in H. subst. reflexivity. }
  unfold amap_eqb. rewrite andb_true_iff. split.
  - intros [H1 H2] n. destruct (aget n a) as [v|] eqn:Ea.
    + symmetry. eapply Sub; eauto.
    + destruct (aget n b) as [v'|] eqn:Eb; [|reflexivity]. rewrite (Sub _ _ H2 _ _ Eb) in Ea. discriminate.
  - intros H. split; unfold amap_sub; apply forallb_forall; intros [n v0] Hin.
    + destruct (in_aget_some _ _ _ Hin) as [v Ev]. rewrite <- H, Ev. apply obj_eqb_eq. reflexivity.
    + destruct (in_aget_some _ _ _ Hin) as [v Ev]. rewrite H, Ev. apply obj_eqb_eq. reflexivity.
Qed.

Lemma rev_sub_spec a b : rev_sub a b = true <-> incl (map fst a) (map fst b).
Proof.
  unfold rev_sub. rewrite forallb_forall. split.
  - intros H x Hx. apply in_map_iff in Hx. destruct Hx as [[s e] [E Hin]]. cbn in E. subst.
    specialize (H _ Hin). cbn beta iota in H. apply existsb_exists in H. destruct H as [[s' e'] [Hin' E']].
    apply N.eqb_eq in E'. subst. change s' with (fst (s', e')). apply in_map. exact Hin'.
  - intros H [s e] Hin. assert (Hx : In s (map fst b)) by (apply H; change s with (fst (s, e)); apply in_map; exact Hin).
    apply in_map_iff in Hx. destruct Hx as [[s' e'] [E Hin']]. cbn in E. subst.
    apply existsb_exists. exists (s, e'). split; [exact Hin'|apply N.eqb_refl].
Qed.

Lemma covered_rev_clause now sp sq :
  NoDup (map fst (s_pub sp)) -> covered now sp sq -> rev_clause now sp sq = true.
Proof.
  intros Dn [_ [Pp Pr]]. unfold rev_clause. apply andb_true_iff. split; apply forallb_forall.
  - intros [n o] Hin. pose proof (aget_of_in_nodup _ _ _ Dn Hin) as Ha. destruct (Pp n o Ha) as [Hb|[Hb|Hb]].
    + rewrite Hb, N.eqb_refl. reflexivity.
    + assert (X : ser_in (o_ser o) (s_rev sq) = true).
      { apply ser_in_spec. change (o_ser o) with (fst (revoke_of o)). apply in_map. exact Hb. }
      rewrite X, orb_true_r. destruct (aget n (s_pub sq)); [destruct (_ =? _)|]; reflexivity.
    + assert (X : (o_exp o <=? now)%Z = true) by (apply Z.leb_le; exact Hb).
      rewrite X. destruct (aget n (s_pub sq)); [destruct (_ =? _)|]; reflexivity.
  - intros [ser exp] Hin. destruct (Pr _ Hin) as [Hb|Hb].
    + assert (X : ser_in ser (s_rev sq) = true).
      { apply ser_in_spec. change ser with (fst (ser, exp)). apply in_map. exact Hb. }
      rewrite X. apply orb_true_r.
    + cbn [snd] in Hb. apply orb_true_iff. left. apply Z.leb_le. exact Hb.
Qed.

Definition names_wf (o : objects) : Prop := forall s, In s (all_sets o) -> NoDup (map fst (s_pub s)).

Lemma cov_revoked_ok now pre post : names_wf pre -> Cov now pre post -> revoked_ok now pre post = true.
Proof.
  intros Hn [C _]. rewrite revoked_ok_unfold. apply forallb_forall. intros sp Hp.
  destruct (find_set (s_key sp) post) as [sq|] eqn:F; [|reflexivity].
  apply find_set_some in F. destruct F as [Hq E]. apply covered_rev_clause; [apply Hn; exact Hp|].
  apply C; auto.
Qed.

Lemma num_numbers_ok n pre post : GRel (CP n) (CQ n) pre post -> numbers_ok n pre post = true.
Proof.
  intros [C1 C2]. rewrite numbers_ok_unfold. apply forallb_forall. intros sq Hq. unfold num_clause.
  destruct (find_set (s_key sq) pre) as [sp|] eqn:F.
  - apply find_set_some in F. destruct F as [Hp E]. destruct (C1 sp sq Hp Hq E) as [A1 [A2 A3]].
    rewrite !andb_true_iff. repeat split; [apply N.leb_le; exact A1|apply N.leb_le; exact A2|].
    apply orb_true_iff. destruct A3 as [A3|[A3 A4]]; [right; apply N.ltb_lt; exact A3|left].
    apply andb_true_iff. split.
    + apply amap_eqb_obj_spec. intros x. rewrite A3. reflexivity.
    + apply rev_sub_spec. apply incl_map. exact A4.
  - pose proof (find_set_none _ _ F) as Hnone. destruct (C2 sq Hq) as [Q1 Q2].
    + intros sp Hp. apply Hnone. exact Hp.
    + apply andb_true_iff. split; apply N.leb_le; assumption.
Qed.

(** ** The model's run meets the oracles *)

Theorem model_run_keeps_distinct_keys env cn s o ms s' o' :
  Fresh o ms -> run_cmds env cn s o ms = Some (s', o') -> NoDup (keys_of o').
Proof. intros D H. destruct (run_track _ _ _ _ _ _ _ H D) as [D' _]. exact D'. Qed.

Theorem model_run_meets_revoked_ok env cn s o ms s' o' :
  names_wf o -> Fresh o ms -> NoUnsusp ms ->
  run_cmds env cn s o ms = Some (s', o') -> revoked_ok (e_now env) o o' = true.
Proof. intros Hn D Hnu H. apply cov_revoked_ok; [exact Hn|]. eapply run_cov; eauto. Qed.

Theorem model_run_meets_numbers_ok env cn s o ms s' o' :
  Fresh o ms -> run_cmds env cn s o ms = Some (s', o') -> numbers_ok (N.of_nat (length ms)) o o' = true.
Proof. intros D H. apply num_numbers_ok. eapply run_num; eauto. Qed.

(** The store-only well-formedness, and the statements as asked for runs that create no key set. *)
Definition WF (o : objects) : Prop := NoDup (map s_key (all_sets o)) /\ names_wf o.

Lemma fresh_no_new_keys o ms : run_iks ms = [] -> (Fresh o ms <-> NoDup (map s_key (all_sets o))).
Proof. unfold Fresh, keys_of. intros ->. rewrite app_nil_r. tauto. Qed.

Corollary model_run_meets_revoked_ok_no_new_keys env cn s o ms s' o' :
  WF o -> run_iks ms = [] -> NoUnsusp ms ->
  run_cmds env cn s o ms = Some (s', o') -> revoked_ok (e_now env) o o' = true.
Proof.
  intros [D Hn] Hi Hnu H. eapply model_run_meets_revoked_ok; eauto. apply fresh_no_new_keys; auto.
Qed.

Corollary model_run_meets_numbers_ok_no_new_keys env cn s o ms s' o' :
  WF o -> run_iks ms = [] ->
  run_cmds env cn s o ms = Some (s', o') -> numbers_ok (N.of_nat (length ms)) o o' = true.
Proof.
  intros [D Hn] Hi H. eapply model_run_meets_numbers_ok; eauto. apply fresh_no_new_keys; auto.
Qed.

(** * Part F: the oracles see the post store only up to [objects_eqb] *)

(** What [oset_eqb] compares: key, number, the published map, the SERIALS on the revocation list (not their
    expiry times) - and not the next-update time. *)
Definition osim (a b : oset) : Prop :=
  s_key a = s_key b /\ s_num a = s_num b /\ (forall n, aget n (s_pub a) = aget n (s_pub b)) /\
  (forall x, In x (map fst (s_rev a)) <-> In x (map fst (s_rev b))).

Lemma oset_eqb_osim a b : oset_eqb a b = true -> osim a b.
Proof.
  unfold oset_eqb. rewrite !andb_true_iff, !N.eqb_eq, amap_eqb_obj_spec, !rev_sub_spec.
  intros [[[[K Pb] R1] R2] Nn]. repeat split; auto.
Qed.

Lemma osim_sym a b : osim a b -> osim b a.
Proof. intros [K [Nn [Pb R]]]. repeat split; auto; apply R. Qed.

Lemma okeys_sets_sim a b : okeys_eqb a b = true -> forall x, In x (sets_of a) -> exists t, In t (sets_of b) /\ osim x t.
Proof.
  destruct a, b; cbn [okeys_eqb sets_of]; try discriminate; rewrite ?andb_true_iff; intros H x Hs; in_cases; subst.
  - eexists. split; [left; reflexivity|apply oset_eqb_osim; exact H].
  - destruct H as [H1 H2]. eexists. split; [left; reflexivity|apply oset_eqb_osim; exact H1].
  - destruct H as [H1 H2]. eexists. split; [right; left; reflexivity|apply oset_eqb_osim; exact H2].
  - destruct H as [H1 H2]. eexists. split; [left; reflexivity|apply oset_eqb_osim; exact H1].
  - destruct H as [H1 H2]. eexists. split; [right; left; reflexivity|apply oset_eqb_osim; exact H2].
Qed.

Lemma objects_sets_sim post post' :
  NoDup (map fst post') -> objects_eqb post post' = true ->
  forall sq', In sq' (all_sets post') -> exists sq, In sq (all_sets post) /\ osim sq sq'.
Proof.
  intros Dc H sq' Hq'. apply in_all_sets in Hq'. destruct Hq' as [c [k' [Hin Hs]]].
  pose proof (aget_of_in_nodup _ _ _ Dc Hin) as Ea.
  unfold objects_eqb, amap_eqb in H. apply andb_true_iff in H. destruct H as [_ H].
  unfold amap_sub in H. rewrite forallb_forall in H. specialize (H _ Hin). cbn beta iota in H. rewrite Ea in H.
  destruct (aget c post) as [k|] eqn:Eb; [|discriminate].
  destruct (okeys_sets_sim _ _ H _ Hs) as [t [Ht S]]. exists t. split; [|apply osim_sym; exact S].
  apply in_all_sets. exists c, k. split; [apply aget_in; exact Eb|exact Ht].
Qed.

Lemma ser_in_sim x a b : (forall y, In y (map fst a) <-> In y (map fst b)) -> ser_in x a = ser_in x b.
Proof. intros H. apply eq_true_iff_eq. rewrite !ser_in_spec. apply H. Qed.

Lemma rev_clause_sim now sp sq sq' : osim sq sq' -> rev_clause now sp sq = true -> rev_clause now sp sq' = true.
Proof.
  intros [_ [_ [Pb R]]]. unfold rev_clause. rewrite !andb_true_iff, !forallb_forall. intros [H1 H2]. split.
  - intros [n o] Hin. specialize (H1 _ Hin). cbn beta iota in H1.
    rewrite <- Pb, <- (ser_in_sim (o_ser o) _ _ R). exact H1.
  - intros [ser exp] Hin. specialize (H2 _ Hin). cbn beta iota in H2.
    rewrite <- (ser_in_sim ser _ _ R). exact H2.
Qed.

Lemma num_clause_sim n pre sq sq' : osim sq sq' -> num_clause n pre sq = true -> num_clause n pre sq' = true.
Proof.
  intros [K [Nn [Pb R]]]. unfold num_clause. rewrite <- K, <- Nn.
  destruct (find_set (s_key sq) pre) as [sp|]; [|auto].
  rewrite !andb_true_iff, !orb_true_iff, !andb_true_iff, !amap_eqb_obj_spec, !rev_sub_spec.
  intros [H1 [[H2 H3]|H2]]; (split; [exact H1|]); [left|right; exact H2]. split.
  - intros x. rewrite <- Pb. apply H2.
  - intros x Hx. apply H3. apply R. exact Hx.
Qed.

Theorem revoked_ok_invariant now pre post post' :
  NoDup (map s_key (all_sets post)) -> NoDup (map fst post') -> objects_eqb post post' = true ->
  revoked_ok now pre post = true -> revoked_ok now pre post' = true.
Proof.
  intros Dk Dc He. rewrite !revoked_ok_unfold, !forallb_forall. intros H sp Hp. specialize (H sp Hp). cbn beta in H.
  destruct (find_set (s_key sp) post') as [sq'|] eqn:F'; [|reflexivity].
  apply find_set_some in F'. destruct F' as [Hq' E'].
  destruct (objects_sets_sim _ _ Dc He _ Hq') as [sq [Hq S]].
  destruct (find_set (s_key sp) post) as [sq0|] eqn:F.
  - apply find_set_some in F. destruct F as [Hq0 E0].
    assert (sq0 = sq) by (eapply nodup_map_inj; eauto; destruct S as [K _]; congruence). subst.
    eapply rev_clause_sim; eauto.
  - exfalso. apply (find_set_none _ _ F sq Hq). destruct S as [K _]. congruence.
Qed.

Theorem numbers_ok_invariant n pre post post' :
  NoDup (map fst post') -> objects_eqb post post' = true ->
  numbers_ok n pre post = true -> numbers_ok n pre post' = true.
Proof.
  intros Dc He. rewrite !numbers_ok_unfold, !forallb_forall. intros H sq' Hq'.
  destruct (objects_sets_sim _ _ Dc He _ Hq') as [sq [Hq S]].
  eapply num_clause_sim; eauto.
Qed.

(** Without distinct class names in the observed post store the oracles are NOT invariant: [objects_eqb]
    compares the stores as finite maps and never looks at a shadowed entry, while the oracles walk over all
    entries. *)
Example revoked_ok_not_invariant_refuted :
  let pre := [(0, OCur (mkOS 5 [(1, mkObj 1 11 5000)] [] 3 100000))] in
  let post := [(1, OCur (mkOS 6 [] [] 1 100000))] in
  let post' := [(1, OCur (mkOS 6 [] [] 1 100000)); (1, OCur (mkOS 5 [] [] 3 100000))] in
  objects_eqb post post' = true /\ revoked_ok 1000 pre post = true /\ revoked_ok 1000 pre post' = false /\
  numbers_ok 1 pre post = true /\ numbers_ok 0 [] post = true /\ numbers_ok 0 [] post' = false.
Proof. vm_compute. repeat split. Qed.

(** ** Observed cases *)

Lemma agrees_run c :
  agrees c = true ->
  exists s o, run_cmds (c_env c) (cer_name_of c) (c_pre c) (c_pre_objs c) (c_cmds c) = Some (s, o)
              /\ objects_eqb o (c_post_objs c) = true.
Proof.
  unfold agrees. rewrite !andb_true_iff. intros [[H _] _].
  destruct (run_cmds (c_env c) (cer_name_of c) (c_pre c) (c_pre_objs c) (c_cmds c)) as [[s o]|]; [|discriminate].
  apply andb_true_iff in H. destruct H as [_ H]. eauto.
Qed.

Theorem agrees_meets_c03 c :
  agrees c = true ->
  names_wf (c_pre_objs c) -> Fresh (c_pre_objs c) (c_cmds c) -> NoUnsusp (c_cmds c) ->
  NoDup (map fst (c_post_objs c)) ->
  c03_ok c = true.
Proof.
  intros Ha Hn Hf Hu Dc. destruct (agrees_run c Ha) as [s [o [R E]]]. unfold c03_ok.
  apply (revoked_ok_invariant _ _ o); auto.
  - eapply model_run_keeps_distinct_keys; eauto.
  - eapply model_run_meets_revoked_ok; eauto.
Qed.

Theorem agrees_meets_c14_numbers c :
  agrees c = true ->
  Fresh (c_pre_objs c) (c_cmds c) -> NoDup (map fst (c_post_objs c)) ->
  numbers_ok (N.of_nat (length (c_cmds c))) (c_pre_objs c) (c_post_objs c) = true.
Proof.
  intros Ha Hf Dc. destruct (agrees_run c Ha) as [s [o [R E]]].
  apply (numbers_ok_invariant _ _ o); auto. eapply model_run_meets_numbers_ok; eauto.
Qed.

(** For runs that create no key set the store-only [WF] is enough (the statements as first asked). *)
Corollary agrees_meets_c03_no_new_keys c :
  agrees c = true -> WF (c_pre_objs c) -> run_iks (c_cmds c) = [] -> NoUnsusp (c_cmds c) ->
  NoDup (map fst (c_post_objs c)) -> c03_ok c = true.
Proof. intros Ha [D Hn] Hi Hu Dc. apply agrees_meets_c03; auto. apply fresh_no_new_keys; auto. Qed.

Corollary agrees_meets_c14_numbers_no_new_keys c :
  agrees c = true -> WF (c_pre_objs c) -> run_iks (c_cmds c) = [] -> NoDup (map fst (c_post_objs c)) ->
  numbers_ok (N.of_nat (length (c_cmds c))) (c_pre_objs c) (c_post_objs c) = true.
Proof. intros Ha [D Hn] Hi Dc. apply agrees_meets_c14_numbers; auto. apply fresh_no_new_keys; auto. Qed.

(** * Part G: executable forms of the hypotheses (so that they can be evaluated on observed cases) *)

Fixpoint nodupb (l : list N) : bool :=
  match l with [] => true | x :: r => negb (existsb (N.eqb x) r) && nodupb r end.

Lemma nodupb_spec l : nodupb l = true -> NoDup l.
Proof.
  induction l as [|x r IH]; simpl; [constructor|]. rewrite andb_true_iff, negb_true_iff. intros [H1 H2].
  constructor; [|auto]. intros Hin. rewrite existsb_false in H1. specialize (H1 x Hin). rewrite N.eqb_refl in H1. discriminate.
Qed.

Definition names_wfb (o : objects) : bool := forallb (fun s => nodupb (map fst (s_pub s))) (all_sets o).
Definition no_unsuspb (e : event) : bool :=
  match e with EChildCertsUpdated _ _ _ _ (_ :: _) => false | _ => true end.
Definition no_unsusp_runb (ms : list cmd) : bool :=
  forallb (fun m => match m_republish m with Some _ => true | None => forallb no_unsuspb (m_evs m) end) ms.
Definition freshb (o : objects) (ms : list cmd) : bool := nodupb (keys_of o ++ run_iks ms).

Lemma names_wfb_spec o : names_wfb o = true -> names_wf o.
Proof. unfold names_wfb. rewrite forallb_forall. intros H s Hs. apply nodupb_spec. apply H. exact Hs. Qed.

Lemma no_unsuspb_spec e : no_unsuspb e = true -> no_unsuspended e.
Proof. destruct e; simpl; auto. destruct unsuspended; [reflexivity|discriminate]. Qed.

Lemma no_unsusp_runb_spec ms : no_unsusp_runb ms = true -> NoUnsusp ms.
Proof.
  unfold no_unsusp_runb. rewrite forallb_forall. intros H m Hm Hr. specialize (H m Hm). rewrite Hr in H.
  rewrite forallb_forall in H. apply Forall_forall. intros e He. apply no_unsuspb_spec. apply H. exact He.
Qed.

Lemma freshb_spec o ms : freshb o ms = true -> Fresh o ms.
Proof. apply nodupb_spec. Qed.

(** All hypotheses of the two corollaries for an observed case. *)
Definition hyps_ok (c : case) : bool :=
  freshb (c_pre_objs c) (c_cmds c) && names_wfb (c_pre_objs c) && no_unsusp_runb (c_cmds c)
  && nodupb (map fst (c_post_objs c)).

Theorem agrees_meets_c03_checked c : agrees c = true -> hyps_ok c = true -> c03_ok c = true.
Proof.
  unfold hyps_ok. rewrite !andb_true_iff. intros Ha [[[H1 H2] H3] H4].
  apply agrees_meets_c03; auto using freshb_spec, names_wfb_spec, no_unsusp_runb_spec, nodupb_spec.
Qed.

Theorem agrees_meets_c14_numbers_checked c :
  agrees c = true -> hyps_ok c = true ->
  numbers_ok (N.of_nat (length (c_cmds c))) (c_pre_objs c) (c_post_objs c) = true.
Proof.
  unfold hyps_ok. rewrite !andb_true_iff. intros Ha [[[H1 H2] H3] H4].
  apply agrees_meets_c14_numbers; auto using freshb_spec, nodupb_spec.
Qed.

(** * Part H: refutations of the store-only statements, and non-vacuity *)

Definition model_run_meets_revoked_ok_full : Prop :=
  forall env cn s o ms s' o', WF o -> run_cmds env cn s o ms = Some (s', o') -> revoked_ok (e_now env) o o' = true.
Definition model_run_meets_numbers_ok_full : Prop :=
  forall env cn s o ms s' o', WF o -> run_cmds env cn s o ms = Some (s', o') ->
                              numbers_ok (N.of_nat (length ms)) o o' = true.

Definition rf_env : env := mkEnv 1000 50 90000.
Definition rf_cmd (evs : list event) : cmd := mkCmd [] evs None.
(** One class, key 5, one unexpired object (name 1, serial 11), number 3. *)
Definition rf_store : objects := [(0, OCur (mkOS 5 [(1, mkObj 1 11 5000)] [] 3 100000))].
Definition rf_ca : ca := mkCA [(0, mkRC 0 0 (KActive (mkCK 5 (mkCert 5 0 0) false)) [] [] [] [] [])] [0] [] 1.

Lemma rf_store_wf : WF rf_store.
Proof.
  split; [cbn; constructor; [intros []|constructor]|].
  intros s Hs. cbn in Hs. in_cases; subst. cbn. constructor; [intros []|constructor].
Qed.

(** (a) One command removes the class and creates it again with the SAME key 5: the model accepts it
    ([EPendingToActive] takes the key from the event), the new set is empty with number 1 (2 after the
    re-issue), and serial 11 is neither published nor revoked; the number went from 3 to 2. *)
Definition rf_reuse : list cmd := [rf_cmd [EClassRemoved 0; EClassAdded 0 0 0 9; EPendingToActive 0 (mkCert 5 0 0)]].

Example reuse_outcome :
  exists s', run_cmds rf_env (fun k => k) ca_init rf_store rf_reuse = Some (s', [(0, OCur (mkOS 5 [] [] 2 90000))])
             /\ revoked_ok 1000 rf_store [(0, OCur (mkOS 5 [] [] 2 90000))] = false
             /\ numbers_ok 1 rf_store [(0, OCur (mkOS 5 [] [] 2 90000))] = false.
Proof. eexists. vm_compute. repeat split. Qed.

Theorem model_run_meets_revoked_ok_full_refuted : ~ model_run_meets_revoked_ok_full.
Proof.
  intros H. destruct reuse_outcome as [s' [R [B _]]].
  pose proof (H rf_env (fun k => k) ca_init rf_store rf_reuse _ _ rf_store_wf R) as X.
  cbn [e_now rf_env] in X. rewrite B in X. discriminate.
Qed.

Theorem model_run_meets_numbers_ok_full_refuted : ~ model_run_meets_numbers_ok_full.
Proof.
  intros H. destruct reuse_outcome as [s' [R [_ B]]].
  pose proof (H rf_env (fun k => k) ca_init rf_store rf_reuse _ _ rf_store_wf R) as X.
  change (N.of_nat (length rf_reuse)) with 1 in X. rewrite B in X. discriminate.
Qed.

(** (b) the same with a second class that gets the key of the first one: two sets with key 5, [find_set]
    finds the new empty one. *)
Example other_class_key_refuted :
  let ms := [rf_cmd [EClassAdded 1 0 0 9; EPendingToActive 1 (mkCert 5 0 0)]] in
  exists s' o', run_cmds rf_env (fun k => k) rf_ca rf_store ms = Some (s', o')
                /\ map s_key (all_sets o') = [5; 5]
                /\ revoked_ok 1000 rf_store o' = false /\ numbers_ok 1 rf_store o' = false.
Proof. eexists. eexists. vm_compute. repeat split. Qed.

(** (c) fresh keys, but the legacy [unsuspended] list re-publishes name 1 with serial 12 without revoking
    serial 11 ([os_insert_norevoke]); [numbers_ok] is not affected. *)
Example revoked_ok_unsuspended_refuted :
  let ms := [rf_cmd [EChildCertsUpdated 0 [] [] [] [(7, mkObj 1 12 6000)]]] in
  Fresh rf_store ms /\ names_wf rf_store /\
  exists s' o', run_cmds rf_env (fun k => k) rf_ca rf_store ms = Some (s', o')
                /\ revoked_ok 1000 rf_store o' = false /\ numbers_ok 1 rf_store o' = true.
Proof.
  split; [apply freshb_spec; reflexivity|]. split; [apply names_wfb_spec; reflexivity|].
  eexists. eexists. vm_compute. repeat split.
Qed.

(** Each clause of [WF] is needed already for the empty run: two sets with one key; a file name twice in
    one published list (the shadowed entry is neither republished nor revoked). *)
Example wf_distinct_keys_needed :
  let o := [(0, OCur (mkOS 5 [] [] 1 100000)); (1, OCur (mkOS 5 [(1, mkObj 1 11 5000)] [] 3 100000))] in
  run_cmds rf_env (fun k => k) ca_init o [] = Some (ca_init, o) /\ names_wf o /\
  revoked_ok 1000 o o = false /\ numbers_ok 0 o o = false.
Proof. split; [reflexivity|]. split; [apply names_wfb_spec; reflexivity|]. vm_compute. split; reflexivity. Qed.

Example wf_distinct_names_needed :
  let o := [(0, OCur (mkOS 5 [(1, mkObj 1 11 5000); (1, mkObj 1 12 5000)] [] 1 100000))] in
  run_cmds rf_env (fun k => k) ca_init o [] = Some (ca_init, o) /\ NoDup (map s_key (all_sets o)) /\
  revoked_ok 1000 o o = false /\ numbers_ok 0 o o = true.
Proof. split; [reflexivity|]. split; [apply nodupb_spec; reflexivity|]. vm_compute. split; reflexivity. Qed.

(** ** Non-vacuity: a store with a key roll in progress, and a run of five commands: products replaced and
    removed, the roll activated (old key retired), a maintenance run, a new class with a new key, the roll
    finished. *)
Definition nv_store : objects :=
  [(0, OStg (mkOS 2 [] [] 1 100000)
            (mkOS 1 [(10, mkObj 10 100 5000); (11, mkObj 11 110 5000); (12, mkObj 12 120 900)] [(90, 2000%Z); (91, 500%Z)] 7 100000));
   (1, OCur (mkOS 3 [(20, mkObj 20 200 5000)] [] 4 100000))].
Definition nv_ca : ca :=
  mkCA [(0, mkRC 0 0 (KRollNew (mkCK 2 (mkCert 2 0 0) false) (mkCK 1 (mkCert 1 0 0) false)) [] [] [] [] []);
        (1, mkRC 0 1 (KActive (mkCK 3 (mkCert 3 0 0) false)) [] [] [] [] [])] [0] [] 2.
Definition nv_cmds : list cmd :=
  [rf_cmd [EObjectsUpdated 0 KRoa [(10, mkObj 10 101 6000)] [11]];
   rf_cmd [ERollActivated 0];
   mkCmd [] [] (Some false);
   rf_cmd [EClassAdded 2 0 7 9; EPendingToActive 2 (mkCert 4 0 0)];
   rf_cmd [ERollFinished 0]].

Example model_run_nonvacuous :
  WF nv_store /\ Fresh nv_store nv_cmds /\ NoUnsusp nv_cmds /\ run_iks nv_cmds = [4] /\
  exists s' o', run_cmds rf_env (fun k => k) nv_ca nv_store nv_cmds = Some (s', o')
                /\ map (fun s => (s_key s, s_num s)) (all_sets nv_store) = [(2, 1); (1, 7); (3, 4)]
                /\ map (fun s => (s_key s, s_num s)) (all_sets o') = [(2, 3); (4, 1); (3, 6)]
                /\ revoked_ok 1000 nv_store o' = true /\ numbers_ok 5 nv_store o' = true.
Proof.
  split; [split; [apply nodupb_spec; reflexivity|apply names_wfb_spec; reflexivity]|].
  split; [apply freshb_spec; reflexivity|]. split; [apply no_unsusp_runb_spec; reflexivity|]. split; [reflexivity|].
  eexists. eexists. split; [vm_compute; reflexivity|]. vm_compute. repeat split.
Qed.

(** The same run as an observed case whose post store lists the classes in another order and carries other
    next-update times and other expiry times on the revocation list (none of which [objects_eqb] compares). *)
Definition nv_retime (s : oset) : oset := mkOS (s_key s) (s_pub s) (map (fun '(ser, _) => (ser, 0%Z)) (s_rev s)) (s_num s) 0.
Definition nv_retime_keys (k : okeys) : okeys :=
  match k with OCur c => OCur (nv_retime c) | OStg s c => OStg (nv_retime s) (nv_retime c) | OOld c o => OOld (nv_retime c) (nv_retime o) end.
Definition nv_case : case :=
  match run_cmds rf_env (fun _ => 0) nv_ca nv_store nv_cmds with
  | Some (s', o') => mkCase nv_ca nv_store rf_env [] nv_cmds s' (rev (map (fun '(c, k) => (c, nv_retime_keys k)) o')) []
  | None => mkCase nv_ca nv_store rf_env [] nv_cmds nv_ca nv_store []
  end.

Example agrees_nonvacuous :
  agrees nv_case = true /\ hyps_ok nv_case = true /\ length (c_post_objs nv_case) = 3%nat /\
  c03_ok nv_case = true /\ numbers_ok (N.of_nat (length (c_cmds nv_case))) (c_pre_objs nv_case) (c_post_objs nv_case) = true.
Proof.
  assert (A : agrees nv_case = true) by (vm_compute; reflexivity).
  assert (B : hyps_ok nv_case = true) by (vm_compute; reflexivity).
  split; [exact A|]. split; [exact B|]. split; [vm_compute; reflexivity|].
  split; [apply agrees_meets_c03_checked; assumption|apply agrees_meets_c14_numbers_checked; assumption].
Qed.

Print Assumptions model_run_meets_revoked_ok.
Print Assumptions model_run_meets_numbers_ok.
Print Assumptions model_run_keeps_distinct_keys.
Print Assumptions model_run_meets_revoked_ok_no_new_keys.
Print Assumptions model_run_meets_numbers_ok_no_new_keys.
Print Assumptions revoked_ok_invariant.
Print Assumptions numbers_ok_invariant.
Print Assumptions agrees_meets_c03.
Print Assumptions agrees_meets_c14_numbers.
Print Assumptions agrees_meets_c03_no_new_keys.
Print Assumptions agrees_meets_c14_numbers_no_new_keys.
Print Assumptions agrees_meets_c03_checked.
Print Assumptions agrees_meets_c14_numbers_checked.
Print Assumptions model_run_meets_revoked_ok_full_refuted.
Print Assumptions model_run_meets_numbers_ok_full_refuted.
Print Assumptions revoked_ok_not_invariant_refuted.
Print Assumptions other_class_key_refuted.
Print Assumptions revoked_ok_unsuspended_refuted.
Print Assumptions wf_distinct_keys_needed.
Print Assumptions wf_distinct_names_needed.
Print Assumptions model_run_nonvacuous.
Print Assumptions agrees_nonvacuous.
