(** C04 / C03: the key state machine of a resource class, driven directly.

    The system-level scenario can only reach key states through complete synchronisations with a parent that
    answers at once, so states such as "new key certified, current key still waiting for an answer" never occur
    there. Here the harness builds [KeyState] values of the implementation in every one of the five states with
    every combination of open certificate requests (from real keys of a running instance), calls the
    implementation's own functions on them ([append_keyroll_activate], [revoke]) and the result is compared with
    the model ([kprocess] of ca/Ca.v, [ks_revoke_keys] below). *)
From KV Require Import base.Tac ca.Ca ca.CaProofs.
Open Scope N_scope.

(** keys.rs:375-407 - the keys that get a revocation request when the class goes (parent removed, CA deleted,
    entitlement lost): every key that holds a certificate. *)
Definition ks_revoke_keys (ks : keystate) : list N :=
  match ks with
  | KPending _ => []
  | KActive c => [k_id c]
  | KRollPending _ c => [k_id c]
  | KRollNew n c => [k_id n; k_id c]
  | KRollOld c o => [k_id c; k_id o]
  end.

Definition ks_certified (ks : keystate) (ki : N) : bool :=
  match ks with
  | KPending _ => false
  | KActive c => k_id c =? ki
  | KRollPending _ c => k_id c =? ki
  | KRollNew n c => (k_id n =? ki) || (k_id c =? ki)
  | KRollOld c o => (k_id c =? ki) || (k_id o =? ki)
  end.

(** Every certified key of the class - and only those - gets a revocation request. *)
Theorem revoke_covers_every_certified_key : forall ks ki, ks_certified ks ki = true <-> In ki (ks_revoke_keys ks).
Proof.
  intros ks ki. destruct ks as [p|c|p c|n c|c o]; simpl.
  - split; [discriminate|tauto].
  - rewrite N.eqb_eq. intuition.
  - rewrite N.eqb_eq. intuition.
  - rewrite orb_true_iff, !N.eqb_eq. intuition.
  - rewrite orb_true_iff, !N.eqb_eq. intuition.
Qed.

(** Observations. *)
Inductive kquery := QActivate | QRevoke.
Inductive kobs :=
| OEvents (kinds : list N)       (* 1 = KeyRollActivated *)
| ORefused
| ORevoked (keys : list N).

Record kcase := mkK { kc_state : keystate; kc_query : kquery; kc_obs : kobs }.

Definition ekind (e : event) : N := match e with ERollActivated _ => 1 | _ => 0 end.

Fixpoint nlist_eqb (a b : list N) : bool :=
  match a, b with
  | [], [] => true
  | x :: a', y :: b' => (x =? y) && nlist_eqb a' b'
  | _, _ => false
  end.

(** keys.rs:765-792: outside RollNew the implementation's function refuses (the model's class-level command does
    nothing there because rc.rs:567 does not call it without a new key). *)
Definition k_ok (c : kcase) : bool :=
  match kc_query c, kc_obs c with
  | QActivate, obs =>
      match kc_state c with
      | KRollNew _ _ =>
          match kprocess 0 (kc_state c) CRollActivate, obs with
          | Ok evs, OEvents ks => nlist_eqb (map ekind evs) ks
          | Err, ORefused => true
          | _, _ => false
          end
      | _ => match obs with ORefused => true | _ => false end
      end
  | QRevoke, ORevoked keys => nlist_eqb (ks_revoke_keys (kc_state c)) keys
  | QRevoke, _ => false
  end.

(** The oracle is what the guard theorem of ca/CaProofs.v says: activation succeeds iff no request is open. *)
Theorem k_ok_activate_iff : forall n cur obs,
  k_ok (mkK (KRollNew n cur) QActivate obs) = true <->
  (if k_req n || k_req cur then obs = ORefused else obs = OEvents [1]).
Proof.
  intros n cur obs. unfold k_ok. cbn [kc_query kc_obs kc_state kprocess].
  destruct (k_req n || k_req cur); destruct obs as [ks| |ks]; cbn; try (split; [discriminate|intros H; discriminate H]); try tauto.
  - destruct ks as [|k [|k' r]]; cbn.
    + split; [discriminate|intros H; discriminate H].
    + destruct (1 =? k) eqn:E; cbn.
      * apply N.eqb_eq in E. subst. tauto.
      * split; [discriminate|]. intros H. inversion H. subst. rewrite N.eqb_refl in E. discriminate.
    + destruct (1 =? k); cbn; split; try discriminate; intros H; inversion H.
Qed.

Example k_ok_examples :
  let k := mkCK 1 (mkCert 1 0 0) false in let kr := mkCK 2 (mkCert 2 0 0) true in let k3 := mkCK 3 (mkCert 3 0 0) false in
  k_ok (mkK (KRollNew k3 k) QActivate (OEvents [1])) = true
  /\ k_ok (mkK (KRollNew k3 kr) QActivate (OEvents [1])) = false
  /\ k_ok (mkK (KRollNew k3 kr) QActivate ORefused) = true
  /\ k_ok (mkK (KRollNew k3 k) QRevoke (ORevoked [3; 1])) = true
  /\ k_ok (mkK (KRollNew k3 k) QRevoke (ORevoked [1])) = false.
Proof. vm_compute. repeat split. Qed.

Fixpoint failing_from (f : kcase -> bool) (i : N) (l : list kcase) : list N :=
  match l with
  | [] => []
  | x :: r => if f x then failing_from f (i + 1) r else i :: failing_from f (i + 1) r
  end.
Definition failing (f : kcase -> bool) (base : N) (l : list kcase) : list N := failing_from f base l.
