(** Correspondence checker and executable oracles for the CA core (C03, C04, C06, C14).
    One case = one stored command of one CA as observed on the real code:
    the CA state and the published-object store before, the events the command
    stored, and both states after. *)
From KV Require Import base.Tac ca.Ca.
Open Scope N_scope.

(** ** Boolean equalities (maps are compared as finite maps, lists of revocations as sets) *)
Definition cert_eqb (a b : cert) := (c_key a =? c_key b) && (c_res a =? c_res b) && (c_ser a =? c_ser b).
Definition ckey_eqb (a b : ckey) := (k_id a =? k_id b) && cert_eqb (k_cert a) (k_cert b) && Bool.eqb (k_req a) (k_req b).
Definition pkey_eqb (a b : pkey) := (p_id a =? p_id b) && Bool.eqb (p_req a) (p_req b).
Definition keystate_eqb (a b : keystate) : bool :=
  match a, b with
  | KPending p, KPending q => pkey_eqb p q
  | KActive c, KActive d => ckey_eqb c d
  | KRollPending p c, KRollPending q d => pkey_eqb p q && ckey_eqb c d
  | KRollNew n c, KRollNew m d => ckey_eqb n m && ckey_eqb c d
  | KRollOld c o, KRollOld d p => ckey_eqb c d && ckey_eqb o p
  | _, _ => false
  end.
Definition obj_eqb (a b : obj) := (o_name a =? o_name b) && (o_ser a =? o_ser b) && (o_exp a =? o_exp b)%Z.

Definition amap_sub {V} (eqv : V -> V -> bool) (a b : list (N * V)) : bool :=
  forallb (fun '(k, _) => match aget k a, aget k b with Some v, Some v' => eqv v v' | _, _ => false end) a.
Definition amap_eqb {V} (eqv : V -> V -> bool) (a b : list (N * V)) : bool := amap_sub eqv a b && amap_sub eqv b a.

Definition used_eqb (a b : used) := match a, b with InUse x, InUse y => x =? y | Revoked, Revoked => true | _, _ => false end.
Definition child_eqb (a b : child) :=
  Bool.eqb (ch_susp a) (ch_susp b) && amap_eqb used_eqb (ch_used a) (ch_used b) && amap_eqb N.eqb (ch_map a) (ch_map b).
Definition rclass_eqb (a b : rclass) :=
  (rc_parent a =? rc_parent b) && (rc_prcn a =? rc_prcn b) && keystate_eqb (rc_keys a) (rc_keys b)
  && amap_eqb obj_eqb (rc_roas a) (rc_roas b) && amap_eqb obj_eqb (rc_aspas a) (rc_aspas b)
  && amap_eqb obj_eqb (rc_bgpsec a) (rc_bgpsec b)
  && amap_eqb obj_eqb (rc_issued a) (rc_issued b) && amap_eqb obj_eqb (rc_susp a) (rc_susp b).
Definition set_sub (a b : list N) := forallb (fun x => existsb (N.eqb x) b) a.
Definition set_eqb (a b : list N) := set_sub a b && set_sub b a.
Definition ca_eqb (a b : ca) :=
  amap_eqb rclass_eqb (ca_classes a) (ca_classes b) && set_eqb (ca_parents a) (ca_parents b)
  && amap_eqb child_eqb (ca_children a) (ca_children b) && (ca_next a =? ca_next b).

Definition rev_sub (a b : list (N * Z)) := forallb (fun '(s, _) => existsb (fun '(s', _) => s =? s') b) a.
Definition oset_eqb (a b : oset) :=
  (s_key a =? s_key b) && amap_eqb obj_eqb (s_pub a) (s_pub b) && rev_sub (s_rev a) (s_rev b) && rev_sub (s_rev b) (s_rev a)
  && (s_num a =? s_num b).                     (* next-update times are not compared *)
Definition okeys_eqb (a b : okeys) :=
  match a, b with
  | OCur c, OCur d => oset_eqb c d
  | OStg s c, OStg t d => oset_eqb s t && oset_eqb c d
  | OOld c o, OOld d p => oset_eqb c d && oset_eqb o p
  | _, _ => false
  end.
Definition objects_eqb (a b : objects) := amap_eqb okeys_eqb a b.

(** ** A case: the commands one operation stored for one CA, in order *)
Record cmd := mkCmd {
  m_kcmds : list (N * kcmd);               (* key life-cycle commands per class, when the command is one *)
  m_evs : list event;                      (* the events the command stored *)
  m_republish : option bool }.             (* Some force: not a command but a re-publication run *)

Record case := mkCase {
  c_pre : ca; c_pre_objs : objects;
  c_env : env;
  c_cer_names : list (N * N);              (* child key -> file name of its certificate *)
  c_cmds : list cmd;
  c_post : ca; c_post_objs : objects;
  c_renew : list (kind * Z * Z) }.         (* a renewal run: object kind, its configured re-issue margin (seconds) and the
                                              threshold the implementation's own function returned (unix seconds) *)

Definition cer_name_of (c : case) (ki : N) : N := match aget ki (c_cer_names c) with Some n => n | None => 0 end.

(** Key events of an event list for one class (what [kprocess] predicts). *)
Definition is_key_event_of (cl : N) (e : event) : bool :=
  match e with
  | ECertRequested c _ | ECertReceived c _ _ | EPendingKeyAdded c _ | EPendingToNew c _
  | EPendingToActive c _ | ERollActivated c | ERollFinished c => c =? cl
  | _ => false
  end.
Definition event_key_eqb (a b : event) : bool :=
  match a, b with
  | ECertRequested c k, ECertRequested c' k' => (c =? c') && (k =? k')
  | ECertReceived c k x, ECertReceived c' k' x' => (c =? c') && (k =? k') && cert_eqb x x'
  | EPendingKeyAdded c k, EPendingKeyAdded c' k' => (c =? c') && (k =? k')
  | EPendingToNew c x, EPendingToNew c' x' => (c =? c') && cert_eqb x x'
  | EPendingToActive c x, EPendingToActive c' x' => (c =? c') && cert_eqb x x'
  | ERollActivated c, ERollActivated c' => c =? c'
  | ERollFinished c, ERollFinished c' => c =? c'
  | _, _ => false
  end.
Fixpoint events_eqb (a b : list event) : bool :=
  match a, b with
  | [], [] => true
  | x :: a', y :: b' => event_key_eqb x y && events_eqb a' b'
  | _, _ => false
  end.

(** [kprocess] predicts exactly the key events the command stored for each class it was asked about. *)
Definition kcmds_ok (s : ca) (m : cmd) : bool :=
  forallb (fun '(cl, kc) =>
    match aget cl (ca_classes s) with
    | None => false
    | Some rc => match kprocess cl (rc_keys rc) kc with
                 | Err => false
                 | Ok evs => events_eqb evs (filter (is_key_event_of cl) (m_evs m))
                 end
    end) (m_kcmds m).

(** A renewal run re-issues, in every class, exactly the objects that expire before the threshold. *)
Definition updated_names_of (cl : N) (k : kind) (evs : list event) : list N :=
  flat_map (fun e => match e with
                     | EObjectsUpdated c k' updated _ => if (c =? cl) && kind_eqb k k' then map fst updated else []
                     | _ => []
                     end) evs.
Definition renew_ok (s : ca) (renew : list (kind * Z * Z)) (evs : list event) : bool :=
  forallb (fun '(k, _, th) =>
    forallb (fun '(cl, rc) => set_eqb (renew_names false th (rc_get_objs rc k)) (updated_names_of cl k evs)) (ca_classes s)) renew.

(** The threshold of a kind is [now + the margin configured for THAT kind] (config.rs:738-793); the
    implementation reads the clock itself, hence the slack of an hour against margins counted in weeks. *)
Definition renew_threshold (now margin : Z) : Z := (now + margin)%Z.
Definition thresholds_ok (now : Z) (renew : list (kind * Z * Z)) : bool :=
  forallb (fun '(_, m, th) => (renew_threshold now m - 3600 <=? th)%Z && (th <=? renew_threshold now m + 3600)%Z) renew.

(** Runs the commands of a case through the model: [None] if an event cannot be applied (panic), the
    listener refuses, or a key command is not predicted. *)
Fixpoint run_cmds (env : env) (cn : N -> N) (s : ca) (o : objects) (ms : list cmd) : option (ca * objects) :=
  match ms with
  | [] => Some (s, o)
  | m :: r =>
      match m_republish m with
      | Some force => run_cmds env cn s (re_issue env force o) r
      | None =>
          if kcmds_ok s m then
            match apply_all s (m_evs m), listener env cn o (m_evs m) with
            | Some s', Ok o' => run_cmds env cn s' o' r
            | _, _ => None
            end
          else None
      end
  end.

Definition agrees (c : case) : bool :=
  match run_cmds (c_env c) (cer_name_of c) (c_pre c) (c_pre_objs c) (c_cmds c) with
  | None => false
  | Some (s, o) => ca_eqb s (c_post c) && objects_eqb o (c_post_objs c)
  end
  && renew_ok (c_pre c) (c_renew c) (flat_map m_evs (c_cmds c))
  && thresholds_ok (e_now (c_env c)) (c_renew c).

(** ** Executable oracles on the implementation's observed states *)

(** Mirror (C04): key state of every class is in step with its published-object sets, and only the
    current set carries products. *)
Definition mirror_class (rc : rclass) (ok : option okeys) : bool :=
  match rc_keys rc, ok with
  | KPending _, None => true
  | KActive c, Some (OCur s) => s_key s =? k_id c
  | KRollPending _ c, Some (OCur s) => s_key s =? k_id c
  | KRollNew n c, Some (OStg st s) => (s_key st =? k_id n) && (s_key s =? k_id c) && match s_pub st with [] => true | _ => false end
  | KRollOld c o, Some (OOld s so) => (s_key s =? k_id c) && (s_key so =? k_id o) && match s_pub so with [] => true | _ => false end
  | _, _ => false
  end.
Definition mirror_ok (s : ca) (objs : objects) : bool :=
  forallb (fun '(c, rc) => mirror_class rc (aget c objs)) (ca_classes s)
  && forallb (fun '(c, _) => amem c (ca_classes s)) objs.

(** Products (C04/C01-L2): the current set publishes exactly the products of the class. *)
Definition products_of (rc : rclass) : list (N * obj) :=
  rc_roas rc ++ rc_aspas rc ++ rc_bgpsec rc ++ map (fun '(_, o) => (o_name o, o)) (rc_issued rc).
Definition products_ok (s : ca) (objs : objects) : bool :=
  forallb (fun '(c, rc) => match aget c objs with
                           | None => match products_of rc with [] => true | _ => false end
                           | Some k => amap_eqb obj_eqb (products_of rc) (s_pub (ok_current k))
                           end) (ca_classes s).

(** No child certificate is both issued and suspended (the invariant behind F04b), and every key a
    child has in use in a class has a certificate there. *)
Definition certs_disjoint_ok (s : ca) : bool :=
  forallb (fun '(_, rc) => forallb (fun '(k, _) => negb (amem k (rc_susp rc))) (rc_issued rc)) (ca_classes s).
Definition used_keys_ok (s : ca) : bool :=
  forallb (fun '(_, ch) =>
    forallb (fun '(ki, u) => match u with
                             | Revoked => true
                             | InUse c => match aget c (ca_classes s) with
                                          | None => true       (* class gone: certificates gone with it *)
                                          | Some rc => if ch_susp ch then amem ki (rc_susp rc) || amem ki (rc_issued rc)
                                                       else amem ki (rc_issued rc)
                                          end
                             end) (ch_used ch)) (ca_children s).

(** Every certified key of a class carries a certificate issued for that very key (C04: no key in use
    without its certificate; theorem [kstep_keeps_cert_matches]). *)
Definition ck_matches (k : ckey) : bool := c_key (k_cert k) =? k_id k.
Definition cert_matches_ok (s : ca) : bool :=
  forallb (fun '(_, rc) => match rc_keys rc with
                           | KPending _ => true
                           | KActive c | KRollPending _ c => ck_matches c
                           | KRollNew n c => ck_matches n && ck_matches c
                           | KRollOld c o => ck_matches c && ck_matches o
                           end) (ca_classes s).

Definition c04_ok (c : case) : bool :=
  mirror_ok (c_post c) (c_post_objs c) && products_ok (c_post c) (c_post_objs c)
  && certs_disjoint_ok (c_post c) && used_keys_ok (c_post c) && cert_matches_ok (c_post c).

(** Revocation (C03): whatever a key's set published before and does not publish any more (same name and
    serial) is on that key's revocation list afterwards, unless expired or the key no longer has a set. *)
Definition sets_of (k : okeys) : list oset := match k with OCur c => [c] | OStg s c => [s; c] | OOld c o => [c; o] end.
Definition all_sets (objs : objects) : list oset := flat_map (fun '(_, k) => sets_of k) objs.
Definition find_set (key : N) (objs : objects) : option oset := find (fun s => s_key s =? key) (all_sets objs).
Definition revoked_ok (now : Z) (pre post : objects) : bool :=
  forallb (fun sp =>
    match find_set (s_key sp) post with
    | None => true
    | Some sq =>
        forallb (fun '(n, o) =>
          match aget n (s_pub sq) with
          | Some o' => if o_ser o' =? o_ser o then true
                       else (o_exp o <=? now)%Z || existsb (fun '(ser, _) => ser =? o_ser o) (s_rev sq)
          | None => (o_exp o <=? now)%Z || existsb (fun '(ser, _) => ser =? o_ser o) (s_rev sq)
          end) (s_pub sp)
        (* and nothing leaves the revocation list before it expires *)
        && forallb (fun '(ser, exp) => (exp <=? now)%Z || existsb (fun '(ser', _) => ser' =? ser) (s_rev sq)) (s_rev sp)
    end) (all_sets pre).
Definition c03_ok (c : case) : bool := revoked_ok (e_now (c_env c)) (c_pre_objs c) (c_post_objs c).

(** Numbers (C14): per key set, the manifest/CRL number never decreases and grows by at most one per
    command of the case; it grows whenever the content or the revocation list of the set changed; new sets
    start at 1 and are re-issued at most once per command. *)
Definition numbers_ok (ncmds : N) (pre post : objects) : bool :=
  forallb (fun sq =>
    match find_set (s_key sq) pre with
    | None => (1 <=? s_num sq) && (s_num sq <=? 1 + ncmds)
    | Some sp =>
        (s_num sp <=? s_num sq) && (s_num sq <=? s_num sp + ncmds)
        && (amap_eqb obj_eqb (s_pub sp) (s_pub sq) && rev_sub (s_rev sq) (s_rev sp) || (s_num sp <? s_num sq))
    end) (all_sets post).
(** A re-publication run (and nothing else): Some force. *)
Definition republish_only (c : case) : option bool :=
  match c_cmds c with
  | [m] => match m_kcmds m, m_evs m, m_republish m with
           | [], [], Some f => Some f
           | _, _, _ => None
           end
  | _ => None
  end.

(** What the property demands of a maintenance run, evaluated on the implementation's object stores: every
    class that is forced or has a key set (current, staging or old) within the margin of its next update has
    ALL its sets re-issued (number + 1), and every other class keeps its numbers. *)
Definition due_ok_objs (now margin : Z) (force : bool) (pre post : objects) : bool :=
  forallb (fun '(_, k) =>
    let d := force || ok_requires now margin k in
    forallb (fun sp =>
      match find_set (s_key sp) post with
      | None => false
      | Some sq => if d then s_num sq =? s_num sp + 1 else s_num sq =? s_num sp
      end) (sets_of k)) pre.
Definition due_ok (c : case) : bool :=
  match republish_only c with
  | None => true
  | Some f => due_ok_objs (e_now (c_env c)) (e_margin (c_env c)) f (c_pre_objs c) (c_post_objs c)
  end.

Definition c14_ok (c : case) : bool :=
  numbers_ok (N.of_nat (length (c_cmds c))) (c_pre_objs c) (c_post_objs c) && due_ok c
  && thresholds_ok (e_now (c_env c)) (c_renew c)
  (* a renewal run re-issues exactly the objects that expire before the threshold of their kind *)
  && renew_ok (c_pre c) (c_renew c) (flat_map m_evs (c_cmds c)).

Fixpoint failing_from {A} (f : A -> bool) (i : N) (l : list A) : list N :=
  match l with
  | [] => []
  | x :: r => if f x then failing_from f (i + 1) r else i :: failing_from f (i + 1) r
  end.
Definition failing {A} (f : A -> bool) (base : N) (l : list A) : list N := failing_from f base l.
