(** Proofs about the published-object store model (C03 revocation, C14 numbers, C04 mirror). *)
From KV Require Import base.Tac ca.Ca ca.CaProofs.
Open Scope N_scope.

(** ** C03: whatever leaves a key's published set is on its revocation list until it expires *)

Definition revoked_in (o : obj) (s : oset) : Prop := In (revoke_of o) (s_rev s).

(** [covered now a b]: going from set [a] to set [b] of the same key, every object [a] published is still
    published unchanged, or is revoked in [b], or has expired; and no revocation is dropped before expiry. *)
Definition covered (now : Z) (a b : oset) : Prop :=
  s_key a = s_key b /\
  (forall n o, aget n (s_pub a) = Some o -> aget n (s_pub b) = Some o \/ revoked_in o b \/ (o_exp o <= now)%Z) /\
  (forall r, In r (s_rev a) -> In r (s_rev b) \/ (snd r <= now)%Z).

Lemma covered_refl now a : covered now a a.
Proof. repeat split; auto. Qed.

Lemma covered_trans now a b c : covered now a b -> covered now b c -> covered now a c.
Proof.
  intros [K1 [P1 R1]] [K2 [P2 R2]]. split; [congruence|]. split.
  - intros n o Ha. destruct (P1 n o Ha) as [Hb|[Hb|Hb]].
    + apply P2. exact Hb.
    + destruct (R2 _ Hb) as [Hc|Hc]; [right; left; exact Hc|right; right; exact Hc].
    + right. right. exact Hb.
  - intros r Hr. destruct (R1 r Hr) as [Hb|Hb]; auto.
Qed.

Ltac sproj := cbn [s_pub s_rev s_key s_num s_next].

Lemma covered_insert now s n o : covered now s (os_insert s n o).
Proof.
  unfold os_insert. destruct (aget n (s_pub s)) as [old|] eqn:E; (split; [reflexivity|]); split; sproj.
  - intros n' o' H. destruct (N.eq_dec n' n) as [->|Hne].
    + rewrite E in H. inv H. right. left. unfold revoked_in. sproj. left. reflexivity.
    + left. rewrite aget_ainsert_neq; auto.
  - intros r Hr. left. right. auto.
  - intros n' o' H. destruct (N.eq_dec n' n) as [->|Hne]; [congruence|]. left. rewrite aget_ainsert_neq; auto.
  - auto.
Qed.

Lemma covered_remove now s n : covered now s (os_remove s n).
Proof.
  unfold os_remove. destruct (aget n (s_pub s)) as [old|] eqn:E; [|apply covered_refl].
  split; [reflexivity|]. split; sproj.
  - intros n' o' H. destruct (N.eq_dec n' n) as [->|Hne].
    + rewrite E in H. inv H. right. left. unfold revoked_in. sproj. left. reflexivity.
    + left. rewrite aget_aremove_neq; auto.
  - intros r Hr. left. right. auto.
Qed.

Lemma in_remove_expired now l r : In r (remove_expired now l) <-> In r l /\ (now < snd r)%Z.
Proof.
  unfold remove_expired. rewrite filter_In. destruct r as [s e]. simpl. rewrite Z.ltb_lt. tauto.
Qed.

Lemma covered_reissue now next s : covered now s (os_reissue now next s).
Proof.
  split; [reflexivity|]. split; unfold os_reissue; sproj; auto.
  intros r Hr. destruct (Z.lt_ge_cases now (snd r)); [left; apply in_remove_expired; auto|right; lia].
Qed.

Lemma fold_revoke_in (l : list (N * obj)) : forall acc r,
  In r (fold_left (fun (l : list (N * Z)) '(_, o) => revoke_of o :: l) l acc) <->
  In r acc \/ exists (n : N) (o : obj), In (n, o) l /\ r = revoke_of o.
Proof.
  induction l as [|[n o] l IH]; intros acc r; simpl.
  - split; auto. intros [H|[n [o [[] _]]]]; auto.
  - rewrite IH. simpl. split.
    + intros [[H|H]|[n' [o' [Hin Hr]]]]; auto.
      * right. exists n, o. auto.
      * right. exists n', o'. auto.
    + intros [H|[n' [o' [[E|Hin] Hr]]]]; auto.
      * inv E. left. left. auto.
      * right. exists n', o'. auto.
Qed.

Lemma aget_in {V} k (v : V) l : aget k l = Some v -> In (k, v) l.
Proof.
  induction l as [|[k' v'] l IH]; simpl; [discriminate|].
  destruct (k' =? k) eqn:E; intros H; [inv H; apply N.eqb_eq in E; subst; auto|auto].
Qed.

Lemma covered_retire now s : covered now s (os_retire now s).
Proof.
  split; [reflexivity|]. split; unfold os_retire; sproj.
  - intros n o H. destruct (Z.lt_ge_cases now (o_exp o)) as [Hlt|Hge]; [|right; right; lia].
    right. left. unfold revoked_in. sproj. apply in_remove_expired. split; [|exact Hlt].
    apply fold_revoke_in. right. exists n, o. split; auto. apply aget_in. auto.
  - intros r Hr. destruct (Z.lt_ge_cases now (snd r)); [|right; lia]. left.
    apply in_remove_expired. split; auto. apply fold_revoke_in. auto.
Qed.

Lemma covered_update_objs now updated removed : forall s, covered now s (os_update_objs s updated removed).
Proof.
  unfold os_update_objs.
  assert (A : forall l s, covered now s (fold_left (fun s '(n, o) => os_insert s n o) l s)).
  { induction l as [|[n o] l IH]; intros s; simpl; [apply covered_refl|].
    eapply covered_trans; [apply covered_insert|apply IH]. }
  assert (B : forall l s, covered now s (fold_left os_remove l s)).
  { induction l as [|n l IH]; intros s; simpl; [apply covered_refl|].
    eapply covered_trans; [apply covered_remove|apply IH]. }
  intros s. eapply covered_trans; [apply A|apply B].
Qed.

(** Child certificates; the legacy [unsuspended] list (not produced since 0.16) re-publishes without
    revoking, so the statement is for updates without it. *)
Lemma covered_update_certs now issued removed suspended : forall s,
  covered now s (os_update_certs s issued removed suspended []).
Proof.
  unfold os_update_certs. simpl.
  assert (A : forall (l : list (N * obj)) s, covered now s (fold_left (fun s '(_, o) => os_insert s (o_name o) o) l s)).
  { induction l as [|[n o] l IH]; intros s; simpl; [apply covered_refl|].
    eapply covered_trans; [apply covered_insert|apply IH]. }
  assert (B : forall l s, covered now s (fold_left os_remove l s)).
  { induction l as [|n l IH]; intros s; simpl; [apply covered_refl|].
    eapply covered_trans; [apply covered_remove|apply IH]. }
  assert (C : forall (l : list (N * obj)) s, covered now s (fold_left (fun s '(_, o) => os_remove s (o_name o)) l s)).
  { induction l as [|[n o] l IH]; intros s; simpl; [apply covered_refl|].
    eapply covered_trans; [apply covered_remove|apply IH]. }
  intros s. eapply covered_trans; [apply B|]. eapply covered_trans; [apply A|apply C].
Qed.

(** Per class: every key set of [k] is covered by the set of the same key in [k'] (if that key still has
    a set there). *)
Definition sets_of_keys (k : okeys) : list oset :=
  match k with OCur c => [c] | OStg s c => [s; c] | OOld c o => [c; o] end.

Definition ok_covered (now : Z) (k k' : okeys) : Prop :=
  forall s s', In s (sets_of_keys k) -> In s' (sets_of_keys k') -> s_key s = s_key s' -> covered now s s'.

Definition keys_distinct (k : okeys) : Prop :=
  match k with OCur _ => True | OStg s c => s_key s <> s_key c | OOld c o => s_key c <> s_key o end.

Lemma ok_covered_refl now k : keys_distinct k -> ok_covered now k k.
Proof.
  intros Hd s s' Hs Hs' Hk. destruct k; simpl in *;
    repeat match goal with H : _ \/ _ |- _ => destruct H | H : False |- _ => destruct H end; subst;
    try apply covered_refl; congruence.
Qed.

(** Updating the current set of a class. *)
Lemma ok_covered_with_current now k s1 :
  keys_distinct k -> covered now (ok_current k) s1 ->
  ok_covered now k (ok_with_current k s1).
Proof.
  intros Hd Hc s s' Hs Hs' Hk. destruct Hc as [Kc Hc'].
  destruct k; simpl in *;
    repeat match goal with H : _ \/ _ |- _ => destruct H | H : False |- _ => destruct H end; subst;
    try apply covered_refl; try (split; [exact Kc|exact Hc']); try congruence.
Qed.

Lemma keys_distinct_with_current k s' : s_key s' = s_key (ok_current k) -> keys_distinct k -> keys_distinct (ok_with_current k s').
Proof. destruct k; simpl; intros E H; auto; congruence. Qed.

(** One event of the listener, seen from the class it touches. Events with a (legacy) non-empty
    [unsuspended] list are excluded, see [covered_update_certs]. *)
Definition no_unsuspended (e : event) : Prop :=
  match e with EChildCertsUpdated _ _ _ _ u => u = [] | _ => True end.

Theorem listener_keeps_revocations env cn objs e objs' f c k :
  listen1 env cn objs e = Ok (objs', f) ->
  no_unsuspended e ->
  aget c objs = Some k -> keys_distinct k ->
  (forall crt, e = EPendingToNew c crt -> c_key crt <> s_key (ok_current k)) ->
  match aget c objs' with
  | Some k' => ok_covered (e_now env) k k' /\ keys_distinct k'
  | None => True
  end.
Proof.
  intros H Hnu Hc Hd Hfresh.
  assert (Same : forall d, d <> c -> aget c (ainsert d k objs) = aget c objs -> True) by auto.
  destruct e; simpl in H;
    try (inv H; rewrite Hc; split; [apply ok_covered_refl; auto|auto]; fail).
  - (* child certs *)
    destruct (aget c0 objs) as [k0|] eqn:E0; [|discriminate]. inv H.
    destruct (N.eq_dec c0 c) as [->|Hne].
    + rewrite aget_ainsert_eq. rewrite Hc in E0. inv E0. simpl in Hnu. subst. split.
      * apply ok_covered_with_current; auto. apply covered_update_certs.
      * apply keys_distinct_with_current; auto.
        destruct (covered_update_certs (e_now env) issued (map cn removed) suspended (ok_current k0)) as [K _]. auto.
    + rewrite aget_ainsert_neq; auto. rewrite Hc. split; [apply ok_covered_refl; auto|auto].
  - (* class removed *)
    inv H. destruct (N.eq_dec c0 c) as [->|Hne].
    + rewrite aget_aremove_eq. exact I.
    + rewrite aget_aremove_neq; auto. rewrite Hc. split; [apply ok_covered_refl; auto|auto].
  - (* cert received *)
    destruct (aget c0 objs) as [k0|] eqn:E0; [|discriminate].
    destruct (ok_received_cert k0 ki) as [k1|] eqn:E1; [|discriminate]. inv H.
    assert (k1 = k0) by (destruct k0; simpl in E1; repeat destr_match; inv E1; reflexivity). subst.
    destruct (N.eq_dec c0 c) as [->|Hne].
    + rewrite aget_ainsert_eq. rewrite Hc in E0. inv E0. split; [apply ok_covered_refl; auto|auto].
    + rewrite aget_ainsert_neq; auto. rewrite Hc. split; [apply ok_covered_refl; auto|auto].
  - (* pending to new *)
    destruct (aget c0 objs) as [[cur|? ?|? ?]|] eqn:E0; try discriminate. inv H.
    destruct (N.eq_dec c0 c) as [->|Hne].
    + rewrite aget_ainsert_eq. rewrite Hc in E0. inv E0. simpl in *.
      assert (Hk : c_key crt <> s_key cur) by (apply Hfresh; reflexivity).
      split; [|simpl; auto].
      intros s s' Hs Hs' Hkk. simpl in *.
      repeat match goal with H : _ \/ _ |- _ => destruct H | H : False |- _ => destruct H end; subst; simpl in *;
        try apply covered_refl; congruence.
    + rewrite aget_ainsert_neq; auto. rewrite Hc. split; [apply ok_covered_refl; auto|auto].
  - (* pending to active *)
    destruct (amem c0 objs) eqn:E0; [discriminate|]. inv H.
    destruct (N.eq_dec c0 c) as [->|Hne].
    + unfold amem in E0. rewrite Hc in E0. discriminate.
    + rewrite aget_ainsert_neq; auto. rewrite Hc. split; [apply ok_covered_refl; auto|auto].
  - (* activated *)
    destruct (aget c0 objs) as [[?|stg cur|? ?]|] eqn:E0; try discriminate. inv H.
    destruct (N.eq_dec c0 c) as [->|Hne].
    + rewrite aget_ainsert_eq. rewrite Hc in E0. inv E0. simpl in *. split; [|simpl; auto].
      intros s s' Hs Hs' Hkk. simpl in *.
      repeat match goal with H : _ \/ _ |- _ => destruct H | H : False |- _ => destruct H end; subst; simpl in *;
        try apply covered_refl; try apply covered_retire; congruence.
    + rewrite aget_ainsert_neq; auto. rewrite Hc. split; [apply ok_covered_refl; auto|auto].
  - (* finished *)
    destruct (aget c0 objs) as [[?|? ?|cur old]|] eqn:E0; try discriminate. inv H.
    destruct (N.eq_dec c0 c) as [->|Hne].
    + rewrite aget_ainsert_eq. rewrite Hc in E0. inv E0. simpl in *. split; [|exact I].
      intros s s' Hs Hs' Hkk. simpl in *.
      repeat match goal with H : _ \/ _ |- _ => destruct H | H : False |- _ => destruct H end; subst; simpl in *;
        try apply covered_refl; congruence.
    + rewrite aget_ainsert_neq; auto. rewrite Hc. split; [apply ok_covered_refl; auto|auto].
  - (* objects updated *)
    destruct (aget c0 objs) as [kk|] eqn:E0; [|discriminate]. inv H.
    destruct (N.eq_dec c0 c) as [->|Hne].
    + rewrite aget_ainsert_eq. rewrite Hc in E0. inv E0. split.
      * apply ok_covered_with_current; auto. apply covered_update_objs.
      * apply keys_distinct_with_current; auto.
        destruct (covered_update_objs (e_now env) updated removed (ok_current kk)) as [K _]. auto.
    + rewrite aget_ainsert_neq; auto. rewrite Hc. split; [apply ok_covered_refl; auto|auto].
Qed.

(** Re-issuing keeps revocations until they expire and never touches the published set. *)
Theorem reissue_keeps_revocations now next k : keys_distinct k -> ok_covered now k (ok_reissue now next k) /\ keys_distinct (ok_reissue now next k).
Proof.
  intros Hd. split; [|destruct k; simpl in *; auto].
  intros s s' Hs Hs' Hk. destruct k; simpl in *;
    repeat match goal with H : _ \/ _ |- _ => destruct H | H : False |- _ => destruct H end; subst; simpl in *;
    try apply covered_reissue; congruence.
Qed.

Theorem reissue_preserves_payloads now next s : s_pub (os_reissue now next s) = s_pub s.
Proof. reflexivity. Qed.

(** ** C14: numbers *)
Theorem number_plus_one now next s : s_num (os_reissue now next s) = s_num s + 1.
Proof. reflexivity. Qed.

Lemma aget_map_snd {A B} (f : A -> B) c (l : list (N * A)) :
  aget c (map (fun '(c, k) => (c, f k)) l) = option_map f (aget c l).
Proof.
  induction l as [|[c' k] l IH]; simpl; auto. destruct (c' =? c); simpl; auto.
Qed.

(** A set is re-issued iff forced or some set of its class is within the margin of its next update -
    for every key set (current, staging, old) of every class. *)
Theorem due_iff env force objs c k :
  aget c objs = Some k ->
  aget c (re_issue env force objs) =
    Some (if force || ok_requires (e_now env) (e_margin env) k then ok_reissue (e_now env) (e_next env) k else k).
Proof.
  intros H. unfold re_issue.
  rewrite (aget_map_snd (fun k => if force || ok_requires (e_now env) (e_margin env) k then ok_reissue (e_now env) (e_next env) k else k)).
  rewrite H. reflexivity.
Qed.

Theorem nothing_due_nothing_changes env objs :
  (forall c k, In (c, k) objs -> ok_requires (e_now env) (e_margin env) k = false) ->
  re_issue env false objs = objs.
Proof.
  intros H. unfold re_issue. induction objs as [|[c k] l IH]; simpl; auto.
  rewrite (H c k) by (left; reflexivity). simpl. f_equal. apply IH. intros c' k' Hin. apply (H c' k'). right. auto.
Qed.

Theorem due_characterised now margin s : due now margin s = true <-> (s_next s - margin < now)%Z.
Proof. unfold due. apply Z.ltb_lt. Qed.

(** Numbers of all sets of a class after a re-issue: every set moves by exactly one, together. *)
Theorem reissue_numbers now next k :
  map s_num (sets_of_keys (ok_reissue now next k)) = map (fun n => n + 1) (map s_num (sets_of_keys k)).
Proof. destruct k; reflexivity. Qed.

(** Updates of the published set never touch the number; only re-issuing does. *)
Lemma insert_num s n o : s_num (os_insert s n o) = s_num s.
Proof. unfold os_insert. destruct (aget n (s_pub s)); reflexivity. Qed.
Lemma remove_num s n : s_num (os_remove s n) = s_num s.
Proof. unfold os_remove. destruct (aget n (s_pub s)); reflexivity. Qed.
Lemma update_objs_num updated removed : forall s, s_num (os_update_objs s updated removed) = s_num s.
Proof.
  unfold os_update_objs.
  assert (A : forall l s, s_num (fold_left (fun s '(n, o) => os_insert s n o) l s) = s_num s).
  { induction l as [|[n o] l IH]; intros s; simpl; auto. rewrite IH. apply insert_num. }
  assert (B : forall l s, s_num (fold_left os_remove l s) = s_num s).
  { induction l as [|n l IH]; intros s; simpl; auto. rewrite IH. apply remove_num. }
  intros s. rewrite B. apply A.
Qed.

(** ** C04: single signer - activation leaves the old key with manifest and CRL only *)
Theorem retire_publishes_nothing now s : s_pub (os_retire now s) = [].
Proof. reflexivity. Qed.

Theorem activation_single_signer env cn objs c stg cur objs' f :
  aget c objs = Some (OStg stg cur) -> s_pub stg = [] ->
  listen1 env cn objs (ERollActivated c) = Ok (objs', f) ->
  exists old, aget c objs' = Some (OOld stg old) /\ s_pub old = [] /\ s_pub stg = [] /\ f = true
              /\ s_key old = s_key cur /\ covered (e_now env) cur old.
Proof.
  intros Hc Hs H. simpl in H. rewrite Hc in H. inv H. rewrite aget_ainsert_eq.
  eexists. split; [reflexivity|].
  split; [reflexivity|]. split; [exact Hs|]. split; [reflexivity|]. split; [reflexivity|apply covered_retire].
Qed.

(** Staging creates a set that publishes nothing; finishing drops the old set. *)
Theorem staging_publishes_nothing env cn objs c crt objs' f :
  listen1 env cn objs (EPendingToNew c crt) = Ok (objs', f) ->
  exists cur, aget c objs = Some (OCur cur) /\ aget c objs' = Some (OStg (os_create (c_key crt) (e_next env)) cur).
Proof.
  simpl. destruct (aget c objs) as [[cur|? ?|? ?]|] eqn:E; try discriminate.
  intros H. inv H. exists cur. split; auto. apply aget_ainsert_eq.
Qed.

(** ** C14: renewal before expiry *)
Theorem renew_due_iff force th l n :
  In n (renew_names force th l) <-> exists o, In (n, o) l /\ (force = true \/ (o_exp o < th)%Z).
Proof.
  unfold renew_names. rewrite in_map_iff. split.
  - intros [[n' o] [E H]]. simpl in E. subst n'. apply filter_In in H. destruct H as [Hin Hb].
    exists o. split; auto. apply orb_true_iff in Hb. destruct Hb as [Hb|Hb]; [left; auto|right; apply Z.ltb_lt; auto].
  - intros [o [Hin Hc]]. exists (n, o). split; auto. apply filter_In. split; auto.
    apply orb_true_iff. destruct Hc as [->|Hc]; [left; auto|right; apply Z.ltb_lt; auto].
Qed.

Theorem nothing_expiring_nothing_renewed th l :
  (forall n o, In (n, o) l -> (th <= o_exp o)%Z) -> renew_names false th l = [].
Proof.
  intros H. unfold renew_names. induction l as [|[n o] l IH]; simpl; auto.
  assert (E : (o_exp o <? th)%Z = false) by (apply Z.ltb_ge; apply (H n o); left; reflexivity).
  rewrite E. simpl. apply IH. intros n' o' Hin. apply (H n' o'). right. auto.
Qed.

(** Renewal replaces objects under their own names: the set of names of a class is unchanged. *)
Lemma ainsert_keeps_names {V} n (v : V) l x : amem n l = true -> amem x (ainsert n v l) = amem x l.
Proof.
  intros H. rewrite amem_ainsert. destruct (n =? x) eqn:E; auto. apply N.eqb_eq in E. subst. simpl. auto.
Qed.
