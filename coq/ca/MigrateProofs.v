(** C04 - repository migration: proofs about the model of ca/Migrate.v.

    Main results (no assumption about the environment: [reachable] is closed under every accepted operation)
    - [migration_safe]: in every reachable state no key set of any class publishes at a repository that is on the
      deprecated list (so the clean-up never withdraws live objects);
    - [migration_located]: in every reachable state every set publishes where its key's certificate points;
    - regression witnesses: [weak_has_old_repo_refuted] (Staging arm of [has_old_repo] looking at the staging set
      only), [pinned_deprecated_refuted] (a migration leaving its target on the deprecated list, F04e),
      [pinned_key_refuted] (a re-issued certificate naming the new repository for a key tied to the old one, F04d);
    - [last_user_deprecates], [old_repo_deprecated_when_done]: the step that takes the last set away from a
      repository puts that repository on the deprecated list; once every class has finished its roll the old
      repository is deprecated, or already cleaned, or has become the current repository again. *)
From KV Require Import base.Tac ca.Migrate ca.MigrateCheck.
Open Scope N_scope.

(** * The class map *)

Lemma cget_In : forall c l v, cget c l = Some v -> In (c, v) l.
Proof.
  intros c l. induction l as [|[k w] r IH]; intros v H; cbn in H.
  - discriminate.
  - destruct (k =? c) eqn:E.
    + apply N.eqb_eq in E. inv H. left. reflexivity.
    + right. apply IH. exact H.
Qed.

Lemma cget_None_notin : forall c l, cget c l = None -> forall v, ~ In (c, v) l.
Proof.
  intros c l. induction l as [|[k w] r IH]; intros H v Hin; cbn in H.
  - destruct Hin.
  - destruct (k =? c) eqn:E; [discriminate|].
    destruct Hin as [Heq|Hin].
    + inv Heq. rewrite N.eqb_refl in E. discriminate.
    + exact (IH H v Hin).
Qed.

Lemma In_cdel : forall k x c l, In (k, x) (cdel c l) <-> k <> c /\ In (k, x) l.
Proof.
  intros k x c l. unfold cdel. rewrite filter_In. cbn [fst].
  split.
  - intros [Hin Hb]. split; [|exact Hin]. intros ->. rewrite N.eqb_refl in Hb. discriminate.
  - intros [Hne Hin]. split; [exact Hin|]. destruct (k =? c) eqn:E; [|reflexivity].
    apply N.eqb_eq in E. contradiction.
Qed.

Lemma In_cins : forall e c v l, In e (cins c v l) <-> e = (c, v) \/ In e l.
Proof.
  intros e c v l. induction l as [|[k w] r IH]; cbn [cins].
  - cbn. intuition.
  - destruct (c <? k).
    + cbn. intuition.
    + cbn [In]. rewrite IH. intuition.
Qed.

Lemma In_cset : forall k x c v l, In (k, x) (cset c v l) <-> (k = c /\ x = v) \/ (k <> c /\ In (k, x) l).
Proof.
  intros k x c v l. unfold cset. rewrite In_cins, In_cdel. split.
  - intros [H|H]; [inv H; left; split; reflexivity|right; exact H].
  - intros [[-> ->]|H]; [left; reflexivity|right; exact H].
Qed.

(** * The invariant *)

Definition functional (l : list (N * cstate)) : Prop := forall c v1 v2, In (c, v1) l -> In (c, v2) l -> v1 = v2.

Definition old_ne_repo (st : mstate) : Prop :=
  forall c cs s x, In (c, cs) (m_classes st) -> In s (sets_of cs) -> s_old s = Some x -> x <> m_repo st.

(** Sets created since the last migration are not tied to an old repository. *)
Definition fresh_none (cs : cstate) : Prop :=
  match cs with
  | MCur None cur => s_old cur = None
  | MStg stg _ => s_old stg = None
  | MOld cur _ => s_old cur = None
  | _ => True
  end.

Definition fresh_ok (st : mstate) : Prop := forall c cs, In (c, cs) (m_classes st) -> fresh_none cs.

Definition depr_ne_repo (st : mstate) : Prop := forall r, In r (m_depr st) -> r <> m_repo st.

Definition depr_unused (st : mstate) : Prop :=
  forall r c cs s, In r (m_depr st) -> In (c, cs) (m_classes st) -> In s (sets_of cs) -> s_old s <> Some r.

Record Inv (st : mstate) : Prop := mkInv {
  inv_fun : functional (m_classes st);
  inv_old : old_ne_repo st;
  inv_fresh : fresh_ok st;
  inv_depr : depr_ne_repo st;
  inv_unused : depr_unused st
}.

Lemma inv_init : forall r0, Inv (minit r0).
Proof.
  intros r0. constructor; cbn.
  - intros c v1 v2 [].
  - intros c cs s x [].
  - intros c cs [].
  - intros r [].
  - intros r c cs s [].
Qed.

Lemma inv_safe : forall st, Inv st -> safe st.
Proof.
  intros st HI r c cs s Hr Hc Hs. unfold publishes_at.
  destruct (s_old s) as [x|] eqn:Eo.
  - intros ->. exact (inv_unused st HI _ _ _ _ Hr Hc Hs Eo).
  - intros Heq. exact (inv_depr st HI r Hr (eq_sym Heq)).
Qed.

(** [has_old_repo] answers "no" only if no set of the class is tied to the repository - this is where the
    Staging arm has to look at both sets. *)
Lemma set_has_false : forall s r, set_has s r = false -> s_old s <> Some r.
Proof.
  intros s r H Heq. unfold set_has in H. rewrite Heq in H. rewrite N.eqb_refl in H. discriminate.
Qed.

Lemma set_has_true : forall s r, set_has s r = true -> s_old s = Some r.
Proof.
  intros s r H. unfold set_has in H. destruct (s_old s) as [x|]; [|discriminate].
  apply N.eqb_eq in H. subst. reflexivity.
Qed.

Lemma has_old_repo_false : forall cs r, class_has_old_repo cs r = false -> forall s, In s (sets_of cs) -> s_old s <> Some r.
Proof.
  intros cs r H s Hs. destruct cs as [q|p c|sg c|c o]; cbn in H, Hs.
  - destruct Hs.
  - destruct Hs as [<-|[]]. apply set_has_false. exact H.
  - apply orb_false_iff in H. destruct H as [H1 H2].
    destruct Hs as [<-|[<-|[]]]; apply set_has_false; assumption.
  - apply orb_false_iff in H. destruct H as [H1 H2].
    destruct Hs as [<-|[<-|[]]]; apply set_has_false; assumption.
Qed.

Lemma has_old_repo_true : forall cs r, class_has_old_repo cs r = true -> exists s, In s (sets_of cs) /\ s_old s = Some r.
Proof.
  intros cs r H. destruct cs as [q|p c|sg c|c o]; cbn in H.
  - discriminate.
  - exists c. split; [left; reflexivity|apply set_has_true; exact H].
  - apply orb_true_iff in H. destruct H as [H|H].
    + exists sg. split; [left; reflexivity|apply set_has_true; exact H].
    + exists c. split; [right; left; reflexivity|apply set_has_true; exact H].
  - apply orb_true_iff in H. destruct H as [H|H].
    + exists o. split; [right; left; reflexivity|apply set_has_true; exact H].
    + exists c. split; [left; reflexivity|apply set_has_true; exact H].
Qed.

(** Replacing (or adding) one class whose sets carry only marks that already occur in the state. *)
Lemma inv_cset : forall st c cs',
  Inv st ->
  (forall s x, In s (sets_of cs') -> s_old s = Some x -> uses st x) ->
  fresh_none cs' ->
  Inv (with_classes st (cset c cs' (m_classes st))).
Proof.
  intros st c cs' HI Hmarks Hfresh. constructor; cbn [with_classes m_classes m_repo m_depr].
  - intros k v1 v2 H1 H2. apply In_cset in H1. apply In_cset in H2.
    destruct H1 as [[-> ->]|[Hn1 H1]]; destruct H2 as [[E2 ->]|[Hn2 H2]]; try reflexivity; try contradiction.
    exact (inv_fun st HI _ _ _ H1 H2).
  - intros k cs s x Hk Hs Ho. apply In_cset in Hk. destruct Hk as [[-> ->]|[_ Hk]].
    + destruct (Hmarks s x Hs Ho) as (c0 & cs0 & s0 & Hc0 & Hs0 & Ho0).
      exact (inv_old st HI _ _ _ _ Hc0 Hs0 Ho0).
    + exact (inv_old st HI _ _ _ _ Hk Hs Ho).
  - intros k cs Hk. apply In_cset in Hk. destruct Hk as [[-> ->]|[_ Hk]].
    + exact Hfresh.
    + exact (inv_fresh st HI _ _ Hk).
  - exact (inv_depr st HI).
  - intros r k cs s Hr Hk Hs Ho. apply In_cset in Hk. destruct Hk as [[-> ->]|[_ Hk]].
    + destruct (Hmarks s r Hs Ho) as (c0 & cs0 & s0 & Hc0 & Hs0 & Ho0).
      exact (inv_unused st HI _ _ _ _ Hr Hc0 Hs0 Ho0).
    + exact (inv_unused st HI _ _ _ _ Hr Hk Hs Ho).
Qed.

Lemma inv_cdel : forall st c, Inv st -> Inv (with_classes st (cdel c (m_classes st))).
Proof.
  intros st c HI. constructor; cbn [with_classes m_classes m_repo m_depr].
  - intros k v1 v2 H1 H2. apply In_cdel in H1. apply In_cdel in H2.
    exact (inv_fun st HI _ _ _ (proj2 H1) (proj2 H2)).
  - intros k cs s x Hk. apply In_cdel in Hk. exact (inv_old st HI _ _ _ _ (proj2 Hk)).
  - intros k cs Hk. apply In_cdel in Hk. exact (inv_fresh st HI _ _ (proj2 Hk)).
  - exact (inv_depr st HI).
  - intros r k cs s Hr Hk. apply In_cdel in Hk. exact (inv_unused st HI _ _ _ _ Hr (proj2 Hk)).
Qed.

Lemma inv_deprecate : forall st r, Inv st -> r <> m_repo st -> Inv (deprecate class_has_old_repo st r).
Proof.
  intros st r HI Hne. unfold deprecate.
  destruct (existsb (fun kv => class_has_old_repo (snd kv) r) (m_classes st)) eqn:Ex; [exact HI|].
  constructor; cbn [m_classes m_repo m_depr].
  - exact (inv_fun st HI).
  - exact (inv_old st HI).
  - exact (inv_fresh st HI).
  - intros x Hx. apply in_app_or in Hx. destruct Hx as [Hx|[<-|[]]].
    + exact (inv_depr st HI x Hx).
    + exact Hne.
  - intros x k cs s Hx Hk Hs. apply in_app_or in Hx. destruct Hx as [Hx|[<-|[]]].
    + exact (inv_unused st HI _ _ _ _ Hx Hk Hs).
    + rewrite existsb_false in Ex. specialize (Ex (k, cs) Hk). cbn [snd] in Ex.
      exact (has_old_repo_false cs r Ex s Hs).
Qed.

Lemma uses_here : forall st c cs s x, In (c, cs) (m_classes st) -> In s (sets_of cs) -> s_old s = Some x -> uses st x.
Proof. intros st c cs s x H1 H2 H3. exists c, cs, s. auto. Qed.

(** The entries of the class map after a migration. *)
Lemma update_entry : forall st r k v,
  fresh_ok st ->
  forallb (fun kv => idle (snd kv)) (m_classes st) = true ->
  In (k, v) (map (fun kv => (fst kv, start_roll r (class_set_old (m_repo st) (snd kv)))) (m_classes st)) ->
  exists cur, In (k, MCur None cur) (m_classes st) /\ s_old cur = None /\ v = MCur (Some r) (set_old (m_repo st) cur).
Proof.
  intros st r k v Hf Hidle Hin. apply in_map_iff in Hin. destruct Hin as ([k0 v0] & Heq & Hin0).
  cbn [fst snd] in Heq. inv Heq.
  rewrite forallb_forall in Hidle. specialize (Hidle (k, v0) Hin0). cbn [snd] in Hidle.
  destruct v0 as [q|[p|] c|sg c|c o]; cbn in Hidle; try discriminate.
  exists c. split; [exact Hin0|]. split; [|reflexivity].
  exact (Hf k _ Hin0).
Qed.

Lemma inv_update_repo : forall st r,
  Inv st -> r <> m_repo st ->
  forallb (fun kv => idle (snd kv)) (m_classes st) = true ->
  Inv (mkM r (map (fun kv => (fst kv, start_roll r (class_set_old (m_repo st) (snd kv)))) (m_classes st))
           (filter (fun x => negb (x =? r)) (m_depr st))).
Proof.
  intros st r HI Hne Hidle. constructor; cbn [m_classes m_repo m_depr].
  - intros k v1 v2 H1 H2.
    destruct (update_entry st r k v1 (inv_fresh st HI) Hidle H1) as (c1 & Hc1 & _ & ->).
    destruct (update_entry st r k v2 (inv_fresh st HI) Hidle H2) as (c2 & Hc2 & _ & ->).
    pose proof (inv_fun st HI _ _ _ Hc1 Hc2) as E. inv E. reflexivity.
  - intros k cs s x Hk Hs Ho.
    destruct (update_entry st r k cs (inv_fresh st HI) Hidle Hk) as (c1 & Hc1 & _ & ->).
    cbn in Hs. destruct Hs as [<-|[]]. cbn in Ho. inv Ho. intros E. apply Hne. symmetry. exact E.
  - intros k cs Hk.
    destruct (update_entry st r k cs (inv_fresh st HI) Hidle Hk) as (c1 & Hc1 & _ & ->). exact I.
  - intros x Hx ->. apply filter_In in Hx. destruct Hx as [_ Hx]. rewrite N.eqb_refl in Hx. discriminate.
  - intros x k cs s Hx Hk Hs Ho. apply filter_In in Hx. destruct Hx as [Hx _].
    destruct (update_entry st r k cs (inv_fresh st HI) Hidle Hk) as (c1 & Hc1 & _ & ->).
    cbn in Hs. destruct Hs as [<-|[]]. cbn in Ho. inv Ho.
    exact (inv_depr st HI _ Hx eq_refl).
Qed.

Lemma inv_clean : forall st r, Inv st -> Inv (mkM (m_repo st) (m_classes st) (filter (fun x => negb (x =? r)) (m_depr st))).
Proof.
  intros st r HI. constructor; cbn [m_classes m_repo m_depr].
  - exact (inv_fun st HI).
  - exact (inv_old st HI).
  - exact (inv_fresh st HI).
  - intros x Hx. apply filter_In in Hx. exact (inv_depr st HI x (proj1 Hx)).
  - intros x k cs s Hx. apply filter_In in Hx. exact (inv_unused st HI _ _ _ _ (proj1 Hx)).
Qed.

(** Every operation keeps the invariant. *)
Theorem inv_step : forall st op st', Inv st -> mstep st op = Some st' -> Inv st'.
Proof.
  intros st op st' HI Hstep. unfold mstep, mstep_gen in Hstep.
  cbn [fixed v_hor v_reissue_keeps v_undeprecate] in Hstep.
  destruct op as [c|c|c|r|c|c|c|c|c w|r].
  - (* ONewClass *)
    destruct (cget c (m_classes st)) as [cs|] eqn:Eg; [discriminate|]. inv Hstep.
    apply inv_cset; [exact HI| |exact I]. intros s x [].
  - (* OAddClass *)
    destruct (cget c (m_classes st)) as [[q|p cu|sg cu|cu o]|] eqn:Eg; try discriminate. inv Hstep.
    apply inv_cset; [exact HI| |reflexivity].
    intros s x [<-|[]] Ho. cbn in Ho. discriminate.
  - (* OInit *)
    destruct (cget c (m_classes st)) as [[q|[p|] cu|sg cu|cu o]|] eqn:Eg; try discriminate. inv Hstep.
    apply cget_In in Eg.
    apply inv_cset; [exact HI| |exact I].
    intros s x [<-|[]] Ho. exact (uses_here st c _ cu x Eg (or_introl eq_refl) Ho).
  - (* OUpdateRepo *)
    destruct (r =? m_repo st) eqn:Er; [discriminate|].
    destruct (forallb (fun kv => idle (snd kv)) (m_classes st)) eqn:Eidle; [|discriminate]. inv Hstep.
    apply inv_update_repo; [exact HI| |exact Eidle].
    intros ->. rewrite N.eqb_refl in Er. discriminate.
  - (* OStage *)
    destruct (cget c (m_classes st)) as [[q|[p|] cu|sg cu|cu o]|] eqn:Eg; try discriminate. inv Hstep.
    apply cget_In in Eg.
    apply inv_cset; [exact HI| |reflexivity].
    intros s x [<-|[<-|[]]] Ho.
    + cbn in Ho. discriminate.
    + exact (uses_here st c _ cu x Eg (or_introl eq_refl) Ho).
  - (* OActivate *)
    destruct (cget c (m_classes st)) as [[q|p cu|sg cu|cu o]|] eqn:Eg; try discriminate. inv Hstep.
    apply cget_In in Eg.
    apply inv_cset; [exact HI| |exact (inv_fresh st HI _ _ Eg)].
    intros s x [<-|[<-|[]]] Ho.
    + exact (uses_here st c _ sg x Eg (or_introl eq_refl) Ho).
    + exact (uses_here st c _ cu x Eg (or_intror (or_introl eq_refl)) Ho).
  - (* OFinish *)
    destruct (cget c (m_classes st)) as [[q|p cu|sg cu|cu o]|] eqn:Eg; try discriminate. inv Hstep.
    apply cget_In in Eg.
    assert (H1 : Inv (with_classes st (cset c (MCur None cu) (m_classes st)))).
    { apply inv_cset; [exact HI| |exact (inv_fresh st HI _ _ Eg)].
      intros s x [<-|[]] Ho. exact (uses_here st c _ cu x Eg (or_introl eq_refl) Ho). }
    destruct (s_old o) as [r|] eqn:Eo; [|exact H1].
    apply inv_deprecate; [exact H1|]. cbn [with_classes m_repo].
    exact (inv_old st HI _ _ o r Eg (or_intror (or_introl eq_refl)) Eo).
  - (* ORemoveClass *)
    destruct (cget c (m_classes st)) as [cs|] eqn:Eg; [|discriminate]. inv Hstep.
    apply cget_In in Eg.
    pose proof (inv_cdel st c HI) as H1.
    destruct (class_old_repo cs) as [r|] eqn:Eo; [|exact H1].
    apply inv_deprecate; [exact H1|]. cbn [with_classes m_repo].
    destruct cs as [q|p cu|sg cu|cu o]; cbn in Eo.
    + discriminate.
    + exact (inv_old st HI _ _ cu r Eg (or_introl eq_refl) Eo).
    + destruct (s_old sg) as [r'|] eqn:Es.
      * inv Eo. exact (inv_old st HI _ _ sg r Eg (or_introl eq_refl) Es).
      * exact (inv_old st HI _ _ cu r Eg (or_intror (or_introl eq_refl)) Eo).
    + destruct (s_old o) as [r'|] eqn:Es.
      * inv Eo. exact (inv_old st HI _ _ o r Eg (or_intror (or_introl eq_refl)) Es).
      * exact (inv_old st HI _ _ cu r Eg (or_introl eq_refl) Eo).
  - (* OReissue *)
    destruct (cget c (m_classes st)) as [cs|] eqn:Eg; [|discriminate].
    destruct (reissue true (m_repo st) cs w) as [cs'|] eqn:Er; [|discriminate]. inv Hstep.
    apply cget_In in Eg. pose proof (inv_fresh st HI _ _ Eg) as Hf.
    destruct cs as [q|p cu|sg cu|cu o]; destruct w; cbn in Er; try discriminate; inv Er.
    + apply inv_cset; [exact HI| |destruct p; exact Hf].
      intros s x [<-|[]] Ho. exact (uses_here st c _ cu x Eg (or_introl eq_refl) Ho).
    + apply inv_cset; [exact HI| |exact Hf].
      intros s x [<-|[<-|[]]] Ho.
      * exact (uses_here st c _ sg x Eg (or_introl eq_refl) Ho).
      * exact (uses_here st c _ cu x Eg (or_intror (or_introl eq_refl)) Ho).
    + apply inv_cset; [exact HI| |exact Hf].
      intros s x [<-|[<-|[]]] Ho.
      * exact (uses_here st c _ sg x Eg (or_introl eq_refl) Ho).
      * exact (uses_here st c _ cu x Eg (or_intror (or_introl eq_refl)) Ho).
    + apply inv_cset; [exact HI| |exact Hf].
      intros s x [<-|[<-|[]]] Ho.
      * exact (uses_here st c _ cu x Eg (or_introl eq_refl) Ho).
      * exact (uses_here st c _ o x Eg (or_intror (or_introl eq_refl)) Ho).
    + apply inv_cset; [exact HI| |exact Hf].
      intros s x [<-|[<-|[]]] Ho.
      * exact (uses_here st c _ cu x Eg (or_introl eq_refl) Ho).
      * exact (uses_here st c _ o x Eg (or_intror (or_introl eq_refl)) Ho).
  - (* OClean *)
    inv Hstep. apply inv_clean. exact HI.
Qed.

Theorem reachable_inv : forall r0 st, reachable r0 st -> Inv st.
Proof.
  intros r0 st H. unfold reachable in H. induction H as [|st op st' Hr IH Hstep].
  - apply inv_init.
  - exact (inv_step st op st' IH Hstep).
Qed.

(** The safety theorem: whatever the interleaving of migrations (also back to a repository that still awaits its
    clean-up), roll steps of the classes, class additions and removals, certificate re-issues and clean-ups, a
    repository on the deprecated list is not the place where any key set of any class publishes. *)
Theorem migration_safe : forall r0 st, reachable r0 st -> safe st.
Proof. intros r0 st H. apply inv_safe. exact (reachable_inv r0 st H). Qed.

(** * Every set publishes where its key's certificate points *)

Lemma loc_cset : forall st c cs',
  located st ->
  (forall s, In s (sets_of cs') -> publishes_at (m_repo st) s = s_at s) ->
  pend_ok (m_repo st) cs' ->
  located (with_classes st (cset c cs' (m_classes st))).
Proof.
  intros st c cs' HL Hs Hp k cs Hk. cbn [with_classes m_classes m_repo] in *.
  apply In_cset in Hk. destruct Hk as [[-> ->]|[_ Hk]].
  - split; assumption.
  - exact (HL k cs Hk).
Qed.

Lemma loc_cdel : forall st c, located st -> located (with_classes st (cdel c (m_classes st))).
Proof.
  intros st c HL k cs Hk. cbn [with_classes m_classes m_repo] in *.
  apply In_cdel in Hk. exact (HL k cs (proj2 Hk)).
Qed.

Lemma loc_deprecate : forall hor st r, located st -> located (deprecate hor st r).
Proof.
  intros hor st r HL. unfold deprecate.
  destruct (existsb (fun kv => hor (snd kv) r) (m_classes st)); exact HL.
Qed.

Theorem loc_step : forall st op st',
  Inv st -> located st -> mstep st op = Some st' -> located st'.
Proof.
  intros st op st' HI HL Hstep. unfold mstep, mstep_gen in Hstep.
  cbn [fixed v_hor v_reissue_keeps v_undeprecate] in Hstep.
  destruct op as [c|c|c|r|c|c|c|c|c w|r].
  - destruct (cget c (m_classes st)) as [cs|] eqn:Eg; [discriminate|]. inv Hstep.
    apply loc_cset; [exact HL| |reflexivity]. intros s [].
  - destruct (cget c (m_classes st)) as [[q|p cu|sg cu|cu o]|] eqn:Eg; try discriminate. inv Hstep.
    apply cget_In in Eg. destruct (HL _ _ Eg) as [_ Hp]. cbn in Hp.
    apply loc_cset; [exact HL| |exact I].
    intros s [<-|[]]. cbn. symmetry. exact Hp.
  - destruct (cget c (m_classes st)) as [[q|[p|] cu|sg cu|cu o]|] eqn:Eg; try discriminate. inv Hstep.
    apply cget_In in Eg. destruct (HL _ _ Eg) as [Hs _].
    apply loc_cset; [exact HL|exact Hs|reflexivity].
  - destruct (r =? m_repo st) eqn:Er; [discriminate|].
    destruct (forallb (fun kv => idle (snd kv)) (m_classes st)) eqn:Eidle; [|discriminate]. inv Hstep.
    intros k cs Hk. cbn [m_classes m_repo] in *.
    destruct (update_entry st r k cs (inv_fresh st HI) Eidle Hk) as (cu & Hc & Hnone & ->).
    destruct (HL _ _ Hc) as [Hs _]. specialize (Hs cu (or_introl eq_refl)).
    unfold publishes_at in Hs. rewrite Hnone in Hs.
    split; [|reflexivity].
    intros s [<-|[]]. cbn. exact Hs.
  - destruct (cget c (m_classes st)) as [[q|[p|] cu|sg cu|cu o]|] eqn:Eg; try discriminate. inv Hstep.
    apply cget_In in Eg. destruct (HL _ _ Eg) as [Hs Hp]. cbn in Hp.
    apply loc_cset; [exact HL| |exact I].
    intros s [<-|[<-|[]]].
    + cbn. symmetry. exact Hp.
    + apply Hs. left. reflexivity.
  - destruct (cget c (m_classes st)) as [[q|p cu|sg cu|cu o]|] eqn:Eg; try discriminate. inv Hstep.
    apply cget_In in Eg. destruct (HL _ _ Eg) as [Hs _].
    apply loc_cset; [exact HL| |exact I].
    intros s [<-|[<-|[]]]; apply Hs; cbn; auto.
  - destruct (cget c (m_classes st)) as [[q|p cu|sg cu|cu o]|] eqn:Eg; try discriminate. inv Hstep.
    apply cget_In in Eg. destruct (HL _ _ Eg) as [Hs _].
    assert (H1 : located (with_classes st (cset c (MCur None cu) (m_classes st)))).
    { apply loc_cset; [exact HL| |exact I]. intros s [<-|[]]. apply Hs. left. reflexivity. }
    destruct (s_old o); [apply loc_deprecate|]; exact H1.
  - destruct (cget c (m_classes st)) as [cs|] eqn:Eg; [|discriminate]. inv Hstep.
    pose proof (loc_cdel st c HL) as H1.
    destruct (class_old_repo cs); [apply loc_deprecate|]; exact H1.
  - destruct (cget c (m_classes st)) as [cs|] eqn:Eg; [|discriminate].
    destruct (reissue true (m_repo st) cs w) as [cs'|] eqn:Er; [|discriminate]. inv Hstep.
    apply cget_In in Eg as Hin. destruct (HL _ _ Hin) as [Hs Hp].
    destruct cs as [q|p cu|sg cu|cu o]; destruct w; cbn in Er; try discriminate; inv Er.
    + apply loc_cset; [exact HL| |exact Hp]. intros s [<-|[]]. reflexivity.
    + apply loc_cset; [exact HL| |exact I]. intros s [<-|[<-|[]]]; [apply Hs; cbn; auto|reflexivity].
    + apply loc_cset; [exact HL| |exact I]. intros s [<-|[<-|[]]]; [reflexivity|apply Hs; cbn; auto].
    + apply loc_cset; [exact HL| |exact I]. intros s [<-|[<-|[]]]; [reflexivity|apply Hs; cbn; auto].
    + apply loc_cset; [exact HL| |exact I]. intros s [<-|[<-|[]]]; [apply Hs; cbn; auto|reflexivity].
  - inv Hstep. exact HL.
Qed.

Lemma loc_init : forall r0, located (minit r0).
Proof. intros r0 c cs []. Qed.

(** Every set publishes at the repository that its key's certificate points to - in every reachable state, also
    when certificates are re-issued in the middle of a migration. *)
Theorem migration_located : forall r0 st, reachable r0 st -> located st.
Proof.
  intros r0 st H. pose proof (reachable_inv r0 st H) as HI. revert HI.
  unfold reachable in H. induction H as [|st op st' Hr IH Hs]; intros HI.
  - apply loc_init.
  - pose proof (reachable_inv r0 st Hr) as HI0. exact (loc_step st op st' HI0 (IH HI0) Hs).
Qed.

(** * The old repository is handed to the clean-up exactly when its last user leaves *)

Lemma uses_cset : forall st c cs' x,
  functional (m_classes st) ->
  (forall cs0 s, In (c, cs0) (m_classes st) -> In s (sets_of cs0) -> s_old s = Some x ->
                 exists s', In s' (sets_of cs') /\ s_old s' = Some x) ->
  uses st x -> uses (with_classes st (cset c cs' (m_classes st))) x.
Proof.
  intros st c cs' x Hfun Hkeep (k & cs & s & Hk & Hs & Ho).
  destruct (N.eq_dec k c) as [->|Hne].
  - destruct (Hkeep cs s Hk Hs Ho) as (s' & Hs' & Ho').
    exists c, cs', s'. split; [|split; assumption].
    cbn [with_classes m_classes]. apply In_cset. left. split; reflexivity.
  - exists k, cs, s. split; [|split; assumption].
    cbn [with_classes m_classes]. apply In_cset. right. split; assumption.
Qed.

Lemma uses_same_classes : forall st st' x, m_classes st' = m_classes st -> uses st x -> uses st' x.
Proof. intros st st' x E (k & cs & s & Hk & H). exists k, cs, s. rewrite E. split; [exact Hk|exact H]. Qed.

Lemma deprecate_classes : forall hor st r, m_classes (deprecate hor st r) = m_classes st.
Proof. intros hor st r. unfold deprecate. destruct (existsb _ _); reflexivity. Qed.

Lemma deprecate_result : forall st r, uses (deprecate class_has_old_repo st r) r \/ In r (m_depr (deprecate class_has_old_repo st r)).
Proof.
  intros st r. unfold deprecate.
  destruct (existsb (fun kv => class_has_old_repo (snd kv) r) (m_classes st)) eqn:Ex.
  - left. apply existsb_exists in Ex. destruct Ex as ([k cs] & Hk & Hh). cbn [snd] in Hh.
    destruct (has_old_repo_true cs r Hh) as (s & Hs & Ho). exists k, cs, s. auto.
  - right. cbn [m_depr]. apply in_or_app. right. left. reflexivity.
Qed.

Lemma depr_mono_deprecate : forall hor st r x, In x (m_depr st) -> In x (m_depr (deprecate hor st r)).
Proof.
  intros hor st r x H. unfold deprecate. destruct (existsb _ _); [exact H|].
  cbn [m_depr]. apply in_or_app. left. exact H.
Qed.

Lemma uses_replace : forall st c cs0 cs' x,
  functional (m_classes st) -> cget c (m_classes st) = Some cs0 ->
  (forall s, In s (sets_of cs0) -> s_old s = Some x -> exists s', In s' (sets_of cs') /\ s_old s' = Some x) ->
  uses st x -> uses (with_classes st (cset c cs' (m_classes st))) x.
Proof.
  intros st c cs0 cs' x Hfun Eg Hkeep Hu. apply uses_cset; [exact Hfun| |exact Hu].
  intros cs1 s Hk Hs Ho. rewrite (Hfun _ _ _ Hk (cget_In _ _ _ Eg)) in Hs. exact (Hkeep s Hs Ho).
Qed.

Lemma class_old_repo_of_mark : forall cs s x,
  fresh_none cs -> In s (sets_of cs) -> s_old s = Some x -> class_old_repo cs = Some x.
Proof.
  intros cs s x Hf Hs Ho. destruct cs as [q|p cu|sg cu|cu o]; cbn in Hs, Hf |- *.
  - destruct Hs.
  - destruct Hs as [<-|[]]. exact Ho.
  - destruct Hs as [<-|[<-|[]]].
    + rewrite Hf in Ho. discriminate.
    + rewrite Hf. exact Ho.
  - destruct Hs as [<-|[<-|[]]].
    + rewrite Hf in Ho. discriminate.
    + rewrite Ho. reflexivity.
Qed.

(** The step after which no set is tied to repository x any more has put x on the deprecated list. *)
Theorem last_user_deprecates : forall st op st' x,
  Inv st -> mstep st op = Some st' -> uses st x -> ~ uses st' x -> In x (m_depr st').
Proof.
  intros st op st' x HI Hstep Hu Hnu. pose proof (inv_fun st HI) as Hfun.
  unfold mstep, mstep_gen in Hstep. cbn [fixed v_hor v_reissue_keeps v_undeprecate] in Hstep.
  destruct op as [c|c|c|r|c|c|c|c|c w|r].
  - destruct (cget c (m_classes st)) as [cs|] eqn:Eg; [discriminate|]. inv Hstep.
    exfalso. apply Hnu. apply uses_cset; [exact Hfun| |exact Hu].
    intros cs0 s Hk. exfalso. exact (cget_None_notin _ _ Eg _ Hk).
  - destruct (cget c (m_classes st)) as [[q|p cu|sg cu|cu o]|] eqn:Eg; try discriminate. inv Hstep.
    exfalso. apply Hnu. apply (uses_replace st c _ _ x Hfun Eg); [|exact Hu]. intros s [].
  - destruct (cget c (m_classes st)) as [[q|[p|] cu|sg cu|cu o]|] eqn:Eg; try discriminate. inv Hstep.
    exfalso. apply Hnu. apply (uses_replace st c _ _ x Hfun Eg); [|exact Hu].
    intros s Hs Ho. exists s. split; [exact Hs|exact Ho].
  - destruct (r =? m_repo st) eqn:Er; [discriminate|].
    destruct (forallb (fun kv => idle (snd kv)) (m_classes st)) eqn:Eidle; [|discriminate]. inv Hstep.
    exfalso. destruct Hu as (k & cs & s & Hk & Hs & Ho).
    rewrite forallb_forall in Eidle. specialize (Eidle (k, cs) Hk). cbn [snd] in Eidle.
    pose proof (inv_fresh st HI _ _ Hk) as Hf.
    destruct cs as [q|[p|] cu|sg cu|cu o]; cbn in Eidle; try discriminate.
    cbn in Hs, Hf. destruct Hs as [<-|[]]. rewrite Hf in Ho. discriminate.
  - destruct (cget c (m_classes st)) as [[q|[p|] cu|sg cu|cu o]|] eqn:Eg; try discriminate. inv Hstep.
    exfalso. apply Hnu. apply (uses_replace st c _ _ x Hfun Eg); [|exact Hu].
    intros s [<-|[]] Ho. exists cu. split; [right; left; reflexivity|exact Ho].
  - destruct (cget c (m_classes st)) as [[q|p cu|sg cu|cu o]|] eqn:Eg; try discriminate. inv Hstep.
    exfalso. apply Hnu. apply (uses_replace st c _ _ x Hfun Eg); [|exact Hu].
    intros s Hs Ho. exists s. split; [exact Hs|exact Ho].
  - destruct (cget c (m_classes st)) as [[q|p cu|sg cu|cu o]|] eqn:Eg; try discriminate. inv Hstep.
    set (st1 := with_classes st (cset c (MCur None cu) (m_classes st))) in *.
    destruct (s_old o) as [r|] eqn:Eo.
    + destruct (N.eq_dec r x) as [->|Hne].
      * destruct (deprecate_result st1 x) as [H|H]; [contradiction|exact H].
      * exfalso. apply Hnu. apply (uses_same_classes st1); [apply deprecate_classes|].
        apply (uses_replace st c _ _ x Hfun Eg); [|exact Hu].
        intros s [<-|[<-|[]]] Ho.
        -- eexists. split; [left; reflexivity|exact Ho].
        -- rewrite Eo in Ho. inv Ho. contradiction.
    + exfalso. apply Hnu. apply (uses_replace st c _ _ x Hfun Eg); [|exact Hu].
      intros s [<-|[<-|[]]] Ho.
      * eexists. split; [left; reflexivity|exact Ho].
      * rewrite Eo in Ho. discriminate.
  - destruct (cget c (m_classes st)) as [cs|] eqn:Eg; [|discriminate]. inv Hstep.
    set (st1 := with_classes st (cdel c (m_classes st))) in *.
    destruct Hu as (k & cs1 & s & Hk & Hs & Ho).
    destruct (N.eq_dec k c) as [->|Hne].
    + rewrite (Hfun _ _ _ Hk (cget_In _ _ _ Eg)) in Hs.
      pose proof (inv_fresh st HI _ _ (cget_In _ _ _ Eg)) as Hf.
      rewrite (class_old_repo_of_mark cs s x Hf Hs Ho) in Hnu |- *.
      destruct (deprecate_result st1 x) as [H|H]; [contradiction|exact H].
    + exfalso. apply Hnu.
      assert (Hu1 : uses st1 x).
      { exists k, cs1, s. split; [|split; assumption]. unfold st1. cbn [with_classes m_classes].
        apply In_cdel. split; assumption. }
      destruct (class_old_repo cs); [|exact Hu1].
      apply (uses_same_classes st1); [apply deprecate_classes|exact Hu1].
  - destruct (cget c (m_classes st)) as [cs|] eqn:Eg; [|discriminate].
    destruct (reissue true (m_repo st) cs w) as [cs'|] eqn:Er; [|discriminate]. inv Hstep.
    exfalso. apply Hnu. apply (uses_replace st c _ _ x Hfun Eg); [|exact Hu].
    destruct cs as [q|p cu|sg cu|cu o]; destruct w; cbn in Er; try discriminate; inv Er.
    + intros s [<-|[]] Ho. eexists. split; [left; reflexivity|exact Ho].
    + intros s [<-|[<-|[]]] Ho.
      * eexists. split; [left; reflexivity|exact Ho].
      * eexists. split; [right; left; reflexivity|exact Ho].
    + intros s [<-|[<-|[]]] Ho.
      * eexists. split; [left; reflexivity|exact Ho].
      * eexists. split; [right; left; reflexivity|exact Ho].
    + intros s [<-|[<-|[]]] Ho.
      * eexists. split; [left; reflexivity|exact Ho].
      * eexists. split; [right; left; reflexivity|exact Ho].
    + intros s [<-|[<-|[]]] Ho.
      * eexists. split; [left; reflexivity|exact Ho].
      * eexists. split; [right; left; reflexivity|exact Ho].
  - inv Hstep. exfalso. apply Hnu. apply (uses_same_classes st); [reflexivity|exact Hu].
Qed.

(** When every class is back to a single active key, no set is tied to any old repository. *)
Lemma finished_no_old_user : forall st x,
  Inv st -> (forall c cs, In (c, cs) (m_classes st) -> finished cs) -> ~ uses st x.
Proof.
  intros st x HI Hfin (k & cs & s & Hk & Hs & Ho).
  pose proof (Hfin _ _ Hk) as F. pose proof (inv_fresh st HI _ _ Hk) as Hf.
  destruct cs as [q|[p|] cu|sg cu|cu o]; cbn in F; try contradiction.
  cbn in Hs, Hf. destruct Hs as [<-|[]]. rewrite Hf in Ho. discriminate.
Qed.

(** Only the clean-up, and a migration to that very repository, take a repository off the deprecated list. *)
Lemma depr_kept : forall st op st' x,
  mstep st op = Some st' -> In x (m_depr st) -> In x (m_depr st') \/ op = OClean x \/ op = OUpdateRepo x.
Proof.
  intros st op st' x Hstep Hx. unfold mstep, mstep_gen in Hstep.
  cbn [fixed v_hor v_reissue_keeps v_undeprecate] in Hstep.
  assert (Hfilter : forall r, In x (filter (fun y => negb (y =? r)) (m_depr st)) \/ x = r).
  { intros r. destruct (N.eq_dec x r) as [->|Hne]; [right; reflexivity|left].
    apply filter_In. split; [exact Hx|]. destruct (x =? r) eqn:E; [|reflexivity].
    apply N.eqb_eq in E. contradiction. }
  destruct op as [c|c|c|r|c|c|c|c|c w|r].
  - destruct (cget c (m_classes st)); [discriminate|]. inv Hstep. left. exact Hx.
  - destruct (cget c (m_classes st)) as [[q|p cu|sg cu|cu o]|]; try discriminate. inv Hstep. left. exact Hx.
  - destruct (cget c (m_classes st)) as [[q|[p|] cu|sg cu|cu o]|]; try discriminate. inv Hstep. left. exact Hx.
  - destruct (r =? m_repo st); [discriminate|].
    destruct (forallb (fun kv => idle (snd kv)) (m_classes st)); [|discriminate]. inv Hstep. cbn [m_depr].
    destruct (Hfilter r) as [H| ->]; [left; exact H|right; right; reflexivity].
  - destruct (cget c (m_classes st)) as [[q|[p|] cu|sg cu|cu o]|]; try discriminate. inv Hstep. left. exact Hx.
  - destruct (cget c (m_classes st)) as [[q|p cu|sg cu|cu o]|]; try discriminate. inv Hstep. left. exact Hx.
  - destruct (cget c (m_classes st)) as [[q|p cu|sg cu|cu o]|]; try discriminate. inv Hstep. left.
    destruct (s_old o); [apply depr_mono_deprecate|]; exact Hx.
  - destruct (cget c (m_classes st)) as [cs|]; [|discriminate]. inv Hstep. left.
    destruct (class_old_repo cs); [apply depr_mono_deprecate|]; exact Hx.
  - destruct (cget c (m_classes st)) as [cs|]; [|discriminate].
    destruct (reissue true (m_repo st) cs w); [|discriminate]. inv Hstep. left. exact Hx.
  - inv Hstep. cbn [m_depr]. destruct (Hfilter r) as [H| ->]; [left; exact H|right; left; reflexivity].
Qed.

Theorem inv_run : forall ops st st', Inv st -> run st ops = Some st' -> Inv st'.
Proof.
  induction ops as [|op r IH]; intros st st' HI Hrun; cbn in Hrun.
  - inv Hrun. exact HI.
  - fold mstep in Hrun. destruct (mstep st op) as [st1|] eqn:E; [|discriminate].
    exact (IH st1 st' (inv_step st op st1 HI E) Hrun).
Qed.

Theorem loc_run : forall ops st st', Inv st -> located st -> run st ops = Some st' -> located st'.
Proof.
  induction ops as [|op r IH]; intros st st' HI HL Hrun; cbn in Hrun.
  - inv Hrun. exact HL.
  - fold mstep in Hrun. destruct (mstep st op) as [st1|] eqn:E; [|discriminate].
    exact (IH st1 st' (inv_step st op st1 HI E) (loc_step st op st1 HI HL E) Hrun).
Qed.

Lemma depr_kept_run : forall ops st st' x,
  run st ops = Some st' -> In x (m_depr st) -> In x (m_depr st') \/ In (OClean x) ops \/ In (OUpdateRepo x) ops.
Proof.
  induction ops as [|op r IH]; intros st st' x Hrun Hx; cbn in Hrun.
  - inv Hrun. left. exact Hx.
  - fold mstep in Hrun. destruct (mstep st op) as [st1|] eqn:E; [|discriminate].
    destruct (depr_kept st op st1 x E Hx) as [H|[-> | ->]].
    + destruct (IH st1 st' x Hrun H) as [H'|[H'|H']]; [left; exact H'|right; left; right; exact H'|right; right; right; exact H'].
    + right. left. left. reflexivity.
    + right. right. left. reflexivity.
Qed.

(** The migration completes: from a state in which some set is still tied to repository x (the repository the CA
    migrated away from), any continuation after which every class is back to a single active key has put x on
    the deprecated list - where the next repository synchronisation empties it - unless that clean-up has
    already happened on the way or x has become the CA's repository again. *)
Theorem old_repo_deprecated_when_done : forall ops st st' x,
  Inv st -> run st ops = Some st' ->
  uses st x ->
  (forall c cs, In (c, cs) (m_classes st') -> finished cs) ->
  In x (m_depr st') \/ In (OClean x) ops \/ In (OUpdateRepo x) ops.
Proof.
  induction ops as [|op r IH]; intros st st' x HI Hrun Hu Hfin; cbn in Hrun.
  - inv Hrun. exfalso. exact (finished_no_old_user st' x HI Hfin Hu).
  - fold mstep in Hrun.
    destruct (mstep st op) as [st1|] eqn:E; [|discriminate].
    pose proof (inv_step st op st1 HI E) as HI1.
    assert (Hdec : uses st1 x \/ In x (m_depr st1)).
    { destruct (existsb (fun kv => class_has_old_repo (snd kv) x) (m_classes st1)) eqn:Ex.
      - left. apply existsb_exists in Ex. destruct Ex as ([k cs] & Hk & Hh). cbn [snd] in Hh.
        destruct (has_old_repo_true cs x Hh) as (s & Hs & Ho). exists k, cs, s. auto.
      - right. apply (last_user_deprecates st op st1 x HI E Hu).
        intros (k & cs & s & Hk & Hs & Ho). rewrite existsb_false in Ex.
        specialize (Ex (k, cs) Hk). cbn [snd] in Ex. exact (has_old_repo_false cs x Ex s Hs Ho). }
    assert (Hlift : In x (m_depr st') \/ In (OClean x) r \/ In (OUpdateRepo x) r ->
                    In x (m_depr st') \/ In (OClean x) (op :: r) \/ In (OUpdateRepo x) (op :: r)).
    { intros [H|[H|H]]; [left; exact H|right; left; right; exact H|right; right; right; exact H]. }
    apply Hlift. destruct Hdec as [Hu1|Hd1].
    + exact (IH st1 st' x HI1 Hrun Hu1 Hfin).
    + exact (depr_kept_run r st1 st' x Hrun Hd1).
Qed.

(** * Witnesses *)

(** The schedule of the seeded change C04-6: two classes, migration 0 -> 1, class 0 is staged, activated and
    finished while class 1 is staged. *)
Definition critical_ops : list mop :=
  [ONewClass 0; OAddClass 0; ONewClass 1; OAddClass 1; OUpdateRepo 1;
   OStage 0; OActivate 0; OStage 1; OFinish 0].

(** Non-vacuity: the schedule is accepted, reaches a state in which class 1 still publishes at the old repository,
    the old repository is NOT deprecated there - and it is once class 1 has finished too; the clean-up then
    forgets it. *)
Example critical_schedule_nonvacuous :
  run (minit 0) critical_ops
    = Some (mkM 1 [(0, MCur None (mkSet None 1)); (1, MStg (mkSet None 1) (mkSet (Some 0) 0))] [])
  /\ run (minit 0) (critical_ops ++ [OActivate 1; OFinish 1])
    = Some (mkM 1 [(0, MCur None (mkSet None 1)); (1, MCur None (mkSet None 1))] [0])
  /\ run (minit 0) (critical_ops ++ [OActivate 1; OFinish 1; OClean 0])
    = Some (mkM 1 [(0, MCur None (mkSet None 1)); (1, MCur None (mkSet None 1))] []).
Proof. vm_compute. repeat split. Qed.

Lemma run_reachable_gen : forall v r0 ops st st', reachable_gen v r0 st -> run_gen v st ops = Some st' -> reachable_gen v r0 st'.
Proof.
  intros v r0 ops. induction ops as [|op r IH]; intros st st' Hr Hrun; cbn in Hrun.
  - inv Hrun. exact Hr.
  - destruct (mstep_gen v st op) as [st1|] eqn:E; [|discriminate].
    exact (IH st1 st' (reach_step v r0 st op st1 Hr E) Hrun).
Qed.

Example critical_state_reachable :
  reachable 0 (mkM 1 [(0, MCur None (mkSet None 1)); (1, MStg (mkSet None 1) (mkSet (Some 0) 0))] []).
Proof.
  apply (run_reachable_gen fixed 0 critical_ops (minit 0)); [constructor|vm_compute; reflexivity].
Qed.

(** With the Staging arm of [has_old_repo] looking at the staging set only, the same schedule puts repository 0 on
    the deprecated list while the active key of class 1 publishes everything there: the theorem depends on that
    arm. *)
Theorem weak_has_old_repo_refuted :
  exists st, run_gen weak (minit 0) critical_ops = Some st /\ ~ safe st.
Proof.
  eexists. split; [vm_compute; reflexivity|].
  intros H. apply (H 0 1 (MStg (mkSet None 1) (mkSet (Some 0) 0)) (mkSet (Some 0) 0)); cbn; auto.
Qed.

(** F04e: migrate 0 -> 1, finish, and go back to 0 before the clean-up of 0 has run; a class then stages its new key
    at 0. Before /repo 1c1bdf32 repository 0 stayed on the deprecated list and the next synchronisation emptied it;
    now the migration takes it off the list. *)
Definition back_before_cleanup_ops : list mop :=
  [ONewClass 0; OAddClass 0; OUpdateRepo 1; OStage 0; OActivate 0; OFinish 0; OUpdateRepo 0; OStage 0].

Theorem pinned_deprecated_refuted :
  exists st, reachable_gen pinned_depr 0 st /\ ~ safe st.
Proof.
  exists (mkM 0 [(0, MStg (mkSet None 0) (mkSet (Some 1) 1))] [0]). split.
  - apply (run_reachable_gen pinned_depr 0 back_before_cleanup_ops (minit 0)); [constructor|vm_compute; reflexivity].
  - intros H. apply (H 0 0 (MStg (mkSet None 0) (mkSet (Some 1) 1)) (mkSet None 0)); cbn; auto.
Qed.

Example back_before_cleanup_now_safe :
  run (minit 0) back_before_cleanup_ops = Some (mkM 0 [(0, MStg (mkSet None 0) (mkSet (Some 1) 1))] []).
Proof. vm_compute. reflexivity. Qed.

(** F04d: a certificate re-issued during a migration for the key that still publishes at the old repository. Before
    /repo c6a66d92 the key-level [old_repo] was never set and the new certificate named the new repository. *)
Definition reissue_during_migration_ops : list mop :=
  [ONewClass 0; OAddClass 0; OUpdateRepo 1; OReissue 0 WCur].

Theorem pinned_key_refuted :
  exists st, reachable_gen pinned_key 0 st /\ ~ located st.
Proof.
  exists (mkM 1 [(0, MCur (Some 1) (mkSet (Some 0) 1))] []). split.
  - apply (run_reachable_gen pinned_key 0 reissue_during_migration_ops (minit 0)); [constructor|vm_compute; reflexivity].
  - intros H. destruct (H 0 _ (or_introl eq_refl)) as [Hs _].
    specialize (Hs (mkSet (Some 0) 1) (or_introl eq_refl)). cbn in Hs. discriminate.
Qed.

Example reissue_during_migration_now_located :
  run (minit 0) reissue_during_migration_ops = Some (mkM 1 [(0, MCur (Some 1) (mkSet (Some 0) 0))] [])
  /\ reachable 0 (mkM 1 [(0, MCur (Some 1) (mkSet (Some 0) 0))] []).
Proof.
  split; [vm_compute; reflexivity|].
  apply (run_reachable_gen fixed 0 reissue_during_migration_ops (minit 0)); [constructor|vm_compute; reflexivity].
Qed.

(** * The executable invariant is the invariant *)

Lemma optN_eqb_eq : forall a b, optN_eqb a b = true -> a = b.
Proof.
  intros [x|] [y|] H; cbn in H; try discriminate; [|reflexivity].
  apply N.eqb_eq in H. subst. reflexivity.
Qed.

Lemma optN_eqb_refl : forall a, optN_eqb a a = true.
Proof. intros [x|]; cbn; [apply N.eqb_refl|reflexivity]. Qed.

Lemma kset_eqb_eq : forall a b, kset_eqb a b = true -> a = b.
Proof.
  intros [o1 a1] [o2 a2] H. unfold kset_eqb in H. cbn [s_old s_at] in H.
  apply andb_true_iff in H. destruct H as [H1 H2].
  apply optN_eqb_eq in H1. apply N.eqb_eq in H2. subst. reflexivity.
Qed.

Lemma kset_eqb_refl : forall a, kset_eqb a a = true.
Proof. intros [o a]. unfold kset_eqb. cbn [s_old s_at]. rewrite optN_eqb_refl, N.eqb_refl. reflexivity. Qed.

Lemma cstate_eqb_eq : forall a b, cstate_eqb a b = true -> a = b.
Proof.
  intros [q|p c|s c|c o] [q'|p' c'|s' c'|c' o'] H; cbn in H; try discriminate.
  - apply N.eqb_eq in H. subst. reflexivity.
  - apply andb_true_iff in H. destruct H as [H1 H2].
    apply optN_eqb_eq in H1. apply kset_eqb_eq in H2. subst. reflexivity.
  - apply andb_true_iff in H. destruct H as [H1 H2].
    apply kset_eqb_eq in H1. apply kset_eqb_eq in H2. subst. reflexivity.
  - apply andb_true_iff in H. destruct H as [H1 H2].
    apply kset_eqb_eq in H1. apply kset_eqb_eq in H2. subst. reflexivity.
Qed.

Lemma cstate_eqb_refl : forall a, cstate_eqb a a = true.
Proof.
  intros [q|p c|s c|c o]; cbn.
  - apply N.eqb_refl.
  - rewrite optN_eqb_refl, kset_eqb_refl. reflexivity.
  - rewrite !kset_eqb_refl. reflexivity.
  - rewrite !kset_eqb_refl. reflexivity.
Qed.

Lemma classes_eqb_eq : forall a b, classes_eqb a b = true -> a = b.
Proof.
  induction a as [|[k v] r IH]; intros [|[k' v'] r'] H; cbn in H; try discriminate.
  - reflexivity.
  - apply andb_true_iff in H. destruct H as [H H3]. apply andb_true_iff in H. destruct H as [H1 H2].
    apply N.eqb_eq in H1. apply cstate_eqb_eq in H2. apply IH in H3. subst. reflexivity.
Qed.

Lemma nlist_eqb_eq : forall a b, nlist_eqb a b = true -> a = b.
Proof.
  induction a as [|x r IH]; intros [|y r'] H; cbn in H; try discriminate.
  - reflexivity.
  - apply andb_true_iff in H. destruct H as [H1 H2].
    apply N.eqb_eq in H1. apply IH in H2. subst. reflexivity.
Qed.

Lemma mstate_eqb_eq : forall a b, mstate_eqb a b = true -> a = b.
Proof.
  intros [r1 c1 d1] [r2 c2 d2] H. unfold mstate_eqb in H. cbn [m_repo m_classes m_depr] in H.
  apply andb_true_iff in H. destruct H as [H H3]. apply andb_true_iff in H. destruct H as [H1 H2].
  apply N.eqb_eq in H1. apply classes_eqb_eq in H2. apply nlist_eqb_eq in H3. subst. reflexivity.
Qed.

Lemma all_sets_spec : forall p st,
  all_sets p st = true <-> (forall c cs s, In (c, cs) (m_classes st) -> In s (sets_of cs) -> p s = true).
Proof.
  intros p st. unfold all_sets. rewrite forallb_forall. split.
  - intros H c cs s Hc Hs. specialize (H (c, cs) Hc). cbn [snd] in H.
    rewrite forallb_forall in H. exact (H s Hs).
  - intros H [c cs] Hc. cbn [snd]. rewrite forallb_forall. intros s Hs. exact (H c cs s Hc Hs).
Qed.

Lemma functional_b_spec : forall l, functional_b l = true <-> functional l.
Proof.
  intros l. unfold functional_b. rewrite forallb_forall. split.
  - intros H c v1 v2 H1 H2.
    pose proof (H (c, v1) H1) as E1. pose proof (H (c, v2) H2) as E2. cbn [fst snd] in E1, E2.
    destruct (cget c l) as [v|]; [|discriminate].
    apply cstate_eqb_eq in E1. apply cstate_eqb_eq in E2. congruence.
  - intros Hf [c v] Hin. cbn [fst snd].
    destruct (cget c l) as [v'|] eqn:Eg.
    + rewrite (Hf c v' v (cget_In _ _ _ Eg) Hin). apply cstate_eqb_refl.
    + exfalso. exact (cget_None_notin c l Eg v Hin).
Qed.

Theorem inv_b_spec : forall st, inv_b st = true <-> Inv st.
Proof.
  intros st. unfold inv_b. rewrite !andb_true_iff. split.
  - intros [[[[H1 H2] H3] H4] H5]. constructor.
    + apply functional_b_spec. exact H1.
    + intros c cs s x Hc Hs Ho. unfold old_ne_repo_b in H2. rewrite all_sets_spec in H2.
      specialize (H2 c cs s Hc Hs). rewrite Ho in H2. intros ->. rewrite N.eqb_refl in H2. discriminate.
    + intros c cs Hc. unfold fresh_ok_b in H3. rewrite forallb_forall in H3.
      specialize (H3 (c, cs) Hc). cbn [snd] in H3.
      destruct cs as [q|[p|] cu|sg cu|cu o]; cbn in H3 |- *; try exact I.
      * destruct (s_old cu); [discriminate|reflexivity].
      * destruct (s_old sg); [discriminate|reflexivity].
      * destruct (s_old cu); [discriminate|reflexivity].
    + intros r Hr. unfold depr_ne_repo_b in H4. rewrite forallb_forall in H4.
      specialize (H4 r Hr). intros ->. rewrite N.eqb_refl in H4. discriminate.
    + intros r c cs s Hr Hc Hs. unfold depr_unused_b in H5. rewrite forallb_forall in H5.
      specialize (H5 r Hr). rewrite all_sets_spec in H5. specialize (H5 c cs s Hc Hs).
      apply set_has_false. destruct (set_has s r); [discriminate|reflexivity].
  - intros [Hf Ho Hfr Hd Hu]. repeat split.
    + apply functional_b_spec. exact Hf.
    + unfold old_ne_repo_b. apply all_sets_spec. intros c cs s Hc Hs.
      destruct (s_old s) as [x|] eqn:E; [|reflexivity].
      destruct (x =? m_repo st) eqn:Ex; [|reflexivity].
      apply N.eqb_eq in Ex. exfalso. exact (Ho c cs s x Hc Hs E Ex).
    + unfold fresh_ok_b. apply forallb_forall. intros [c cs] Hc. cbn [snd].
      specialize (Hfr c cs Hc).
      destruct cs as [q|[p|] cu|sg cu|cu o]; cbn in Hfr |- *; try reflexivity; rewrite Hfr; reflexivity.
    + unfold depr_ne_repo_b. apply forallb_forall. intros r Hr.
      destruct (r =? m_repo st) eqn:Ex; [|reflexivity].
      apply N.eqb_eq in Ex. exfalso. exact (Hd r Hr Ex).
    + unfold depr_unused_b. apply forallb_forall. intros r Hr. apply all_sets_spec. intros c cs s Hc Hs.
      destruct (set_has s r) eqn:E; [|reflexivity].
      apply set_has_true in E. exfalso. exact (Hu r c cs s Hr Hc Hs E).
Qed.

Theorem safe_b_spec : forall st, safe_b st = true <-> safe st.
Proof.
  intros st. unfold safe_b. rewrite forallb_forall. split.
  - intros H r c cs s Hr Hc Hs. specialize (H r Hr). rewrite all_sets_spec in H.
    specialize (H c cs s Hc Hs). intros E. rewrite E, N.eqb_refl in H. discriminate.
  - intros H r Hr. apply all_sets_spec. intros c cs s Hc Hs.
    destruct (publishes_at (m_repo st) s =? r) eqn:E; [|reflexivity].
    apply N.eqb_eq in E. exfalso. exact (H r c cs s Hr Hc Hs E).
Qed.

Theorem located_b_spec : forall st, located_b st = true <-> located st.
Proof.
  intros st. unfold located_b. rewrite forallb_forall. split.
  - intros H c cs Hc. specialize (H (c, cs) Hc). cbn [snd] in H.
    apply andb_true_iff in H. destruct H as [H1 H2]. split.
    + intros s Hs. rewrite forallb_forall in H1. apply N.eqb_eq. exact (H1 s Hs).
    + destruct cs as [q|[p|] cu|sg cu|cu o]; cbn in H2 |- *; try exact I; apply N.eqb_eq; exact H2.
  - intros H [c cs] Hc. cbn [snd]. destruct (H c cs Hc) as [H1 H2]. apply andb_true_iff. split.
    + apply forallb_forall. intros s Hs. apply N.eqb_eq. exact (H1 s Hs).
    + destruct cs as [q|[p|] cu|sg cu|cu o]; cbn in H2 |- *; try reflexivity; apply N.eqb_eq; exact H2.
Qed.

(** * Correspondence and theorem together *)

(** If the model reproduces what the implementation did in a case and the case starts in a state that satisfies
    the invariant, the implementation's states after the command and after the synchronisation satisfy it too -
    hence (by [inv_safe]) in neither of them a deprecated repository is one that a key set publishes at; and
    likewise for "published where the certificate points". *)
Lemma agrees_runs : forall c, m_agrees c = true ->
  run (mc_pre c) (mc_ops c) = Some (mc_mid c)
  /\ (if mc_synced c then msync (mc_mid c) = Some (mc_post c) else mc_post c = mc_mid c).
Proof.
  intros c Hag. unfold m_agrees in Hag. apply andb_true_iff in Hag. destruct Hag as [H1 H2].
  unfold ostate_eqb in H1. destruct (run (mc_pre c) (mc_ops c)) as [mid|] eqn:Erun; [|discriminate].
  apply mstate_eqb_eq in H1. subst mid. split; [reflexivity|].
  destruct (mc_synced c).
  - unfold ostate_eqb in H2. destruct (msync (mc_mid c)) as [post|]; [|discriminate].
    apply mstate_eqb_eq in H2. subst post. reflexivity.
  - apply mstate_eqb_eq in H2. symmetry. exact H2.
Qed.

Theorem agrees_keeps_invariant : forall c,
  m_agrees c = true -> Inv (mc_pre c) -> Inv (mc_mid c) /\ Inv (mc_post c).
Proof.
  intros c Hag HI. destruct (agrees_runs c Hag) as [Hrun Hs].
  pose proof (inv_run _ _ _ HI Hrun) as Hmid. split; [exact Hmid|].
  destruct (mc_synced c).
  - unfold msync in Hs. exact (inv_run _ _ _ Hmid Hs).
  - rewrite Hs. exact Hmid.
Qed.

Theorem agrees_keeps_located : forall c,
  m_agrees c = true -> Inv (mc_pre c) -> located (mc_pre c) -> located (mc_mid c) /\ located (mc_post c).
Proof.
  intros c Hag HI HL. destruct (agrees_runs c Hag) as [Hrun Hs].
  pose proof (inv_run _ _ _ HI Hrun) as Hmid. pose proof (loc_run _ _ _ HI HL Hrun) as Lmid. split; [exact Lmid|].
  destruct (mc_synced c).
  - unfold msync in Hs. exact (loc_run _ _ _ Hmid Lmid Hs).
  - rewrite Hs. exact Lmid.
Qed.

Corollary agrees_keeps_safe : forall c,
  m_agrees c = true -> Inv (mc_pre c) -> safe (mc_mid c) /\ safe (mc_post c).
Proof.
  intros c H1 H3. destruct (agrees_keeps_invariant c H1 H3) as [Ha Hb].
  split; apply inv_safe; assumption.
Qed.

Example agrees_keeps_invariant_nonvacuous :
  let pre := mkM 1 [(0, MOld (mkSet None 1) (mkSet (Some 0) 0)); (1, MStg (mkSet None 1) (mkSet (Some 0) 0))] [] in
  let c := mkMC pre [OFinish 0] (mkM 1 [(0, MCur None (mkSet None 1)); (1, MStg (mkSet None 1) (mkSet (Some 0) 0))] [])
                true (mkM 1 [(0, MCur None (mkSet None 1)); (1, MStg (mkSet None 1) (mkSet (Some 0) 0))] [])
                [(0, true); (1, true)] [] in
  m_agrees c = true /\ m_ok c = true /\ Inv pre /\ located pre
  /\ (* what the seeded variant does instead is flagged *)
  m_ok (mkMC pre [OFinish 0] (mkM 1 [(0, MCur None (mkSet None 1)); (1, MStg (mkSet None 1) (mkSet (Some 0) 0))] [0])
             true (mkM 1 [(0, MCur None (mkSet None 1)); (1, MStg (mkSet None 1) (mkSet (Some 0) 0))] [])
             [(0, true); (1, false)] []) = false.
Proof.
  cbv zeta. split; [vm_compute; reflexivity|]. split; [vm_compute; reflexivity|].
  split; [apply inv_b_spec; vm_compute; reflexivity|]. split; [apply located_b_spec; vm_compute; reflexivity|].
  vm_compute. reflexivity.
Qed.
