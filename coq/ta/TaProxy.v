(** Model of the trust-anchor proxy aggregate and of the manager's child hand-over (C15).

    Rust sources modelled (pinned tree):
    - src/server/taproxy.rs   TrustAnchorProxy: state (74-109), apply (155-241; the two [unwrap]s at
                              213 and 225-238 are [None] here), process_command (243-304),
                              process_* (332-525), get_signer_request (532-579),
                              response_for_child (706-726), matching_open_request (737-768)
    - src/api/ta.rs           TrustAnchorSignedResponse::validate (716-735), TrustAnchorChild (822-846),
                              ProvisioningRequest::matches_response (869-878)
    - src/server/ca/manager.rs  ta_slow_rfc6492_request (1257-1324), ta_proxy_signer_* (458-494)

    Identities are canonical numbers chosen by the harness (ID keys, nonces, child handles, child key
    identifiers, request payloads are interned). A signed message is abstracted to the clear-text nonce,
    the key that made the signature, whether the clear text still equals the signed content, and the
    (clear-text) content. Signature validation is a parameter [validate] of the model; the proofs assume
    [sig_sound] about it (Section hypothesis, see TaProofs.v). Expiry of signed messages (validity days)
    is outside the model. No proofs in this file. *)
From KV Require Import base.Tac.
Open Scope N_scope.

(** * Finite maps as association lists (HashMap semantics: insert replaces, first match wins) *)
Fixpoint aget {V} (k : N) (m : list (N * V)) : option V :=
  match m with [] => None | (k', v) :: r => if k' =? k then Some v else aget k r end.
Fixpoint adel {V} (k : N) (m : list (N * V)) : list (N * V) :=
  match m with [] => [] | (k', v) :: r => if k' =? k then adel k r else (k', v) :: adel k r end.
Fixpoint aput {V} (k : N) (v : V) (m : list (N * V)) : list (N * V) :=
  match m with [] => [(k, v)] | (k', v') :: r => if k' =? k then (k, v) :: r else (k', v') :: aput k v r end.
Definition memb (k : N) (l : list N) : bool := existsb (N.eqb k) l.
Fixpoint remove_key (k : N) (l : list N) : list N :=
  match l with [] => [] | x :: r => if x =? k then remove_key k r else x :: remove_key k r end.

Inductive result (E A : Type) := Ok (a : A) | Err (e : E).
Arguments Ok {E A}. Arguments Err {E A}.

(** * Messages *)
Record msg (C : Type) := mkMsg {
  m_nonce : N;        (* nonce in the clear text *)
  m_by : N;           (* ID key that made the signature of the signed part *)
  m_intact : bool;    (* clear text equals the signed content (ta.rs:602,728) *)
  m_content : C }.
Arguments mkMsg {C}. Arguments m_nonce {C}. Arguments m_by {C}. Arguments m_intact {C}. Arguments m_content {C}.

(** Child requests and responses (ta.rs:852-907). [rq_tag] interns (class name, limit, CSR); [rq_wf] says
    that the checks both sides repeat pass (class name "default", limit within the child's resources,
    CSR valid: taproxy.rs:469-486, signer.rs:397-420,451-457). *)
Inductive rkind := KIssue | KRevoke.
Record creq := mkReq { rq_kind : rkind; rq_tag : N; rq_wf : bool }.
Inductive cresp := RIssued (tag : N) | RRevoked | RError.
Inductive ustate := InUse | Revoked.                       (* UsedKeyState *)

(** TrustAnchorObjects (ta.rs:56-78): manifest/CRL number and the child keys that hold a certificate. *)
Record objects := mkObjs { o_num : N; o_issued : list N }.

Record tchild := mkChild {
  tc_id : N;                           (* ID certificate (key) the child was added with (ta.rs:822-829) *)
  tc_used : list (N * ustate);
  tc_reqs : list (N * creq);           (* open_requests, by child key *)
  tc_resps : list (N * cresp) }.       (* open_responses, by child key *)
(** TrustAnchorChild::new (ta.rs:831-846): nothing used, nothing open. *)
Definition new_child (id : N) : tchild := mkChild id [] [] [].
Definition empty_child : tchild := new_child 0.

(** TrustAnchorSignerInfo: ID key of the signer, TA key, objects to publish. *)
Record sinfo := mkSI { si_id : N; si_ta : N; si_objs : objects }.

Record proxy := mkProxy {
  p_id : N;
  p_signer : option sinfo;
  p_children : list (N * tchild);
  p_open : option N }.                 (* open_signer_request *)

Definition request := list (N * list (N * creq)).          (* TrustAnchorSignerRequest.child_requests *)
Record response := mkResp { r_objs : objects; r_children : list (N * list (N * cresp)) }.

(** * Commands, events, errors *)
Inductive pcmd :=
| PAddSigner (si : sinfo)
| PUpdateSigner (si : sinfo)
| PMake (n : N)                        (* the nonce is drawn by Nonce::new (uuid v4): an input here *)
| PResponse (m : msg response)
| PAddChild (c id : N)                 (* AddChildRequest: handle and ID certificate (resources are not modelled) *)
| PAddReq (c k : N) (r : creq)
| PGive (c k : N).

Inductive pevent :=
| EvSignerAdded (si : sinfo)
| EvSignerUpdated (si : sinfo)
| EvRequestMade (n : N)
| EvResponse (r : response)
| EvChildAdded (c id : N)
| EvChildReq (c k : N) (r : creq)
| EvChildGiven (c k : N).

Inductive perr :=
| EHasSigner | EDifferentSigner | EHasRequest | ENoRequest | ENonceMismatch | EBadSignature | ENoSigner
| EDupChild | EUnknownChild | EBadRequest | EUnknownKey | ENoResponse | EMismatch.

(** * apply (taproxy.rs:155-241) *)
Definition apply_child_resp (ch : tchild) (kr : N * cresp) : tchild :=
  let used := match snd kr with
              | RIssued _ => aput (fst kr) InUse (tc_used ch)
              | RRevoked => aput (fst kr) Revoked (tc_used ch)
              | RError => tc_used ch
              end in
  mkChild (tc_id ch) used (adel (fst kr) (tc_reqs ch)) (aput (fst kr) (snd kr) (tc_resps ch)).
Definition apply_child_resps (ch : tchild) (l : list (N * cresp)) : tchild := fold_left apply_child_resp l ch.
Definition apply_resp_child (chs : list (N * tchild)) (e : N * list (N * cresp)) : list (N * tchild) :=
  match aget (fst e) chs with
  | Some ch => aput (fst e) (apply_child_resps ch (snd e)) chs
  | None => chs
  end.
Definition apply_resp_children (chs : list (N * tchild)) (rs : list (N * list (N * cresp))) : list (N * tchild) :=
  fold_left apply_resp_child rs chs.

Definition p_apply (p : proxy) (e : pevent) : option proxy :=
  match e with
  | EvSignerAdded si | EvSignerUpdated si => Some (mkProxy (p_id p) (Some si) (p_children p) (p_open p))
  | EvRequestMade n => Some (mkProxy (p_id p) (p_signer p) (p_children p) (Some n))
  | EvResponse r =>
      match p_signer p with
      | None => None                                                    (* unwrap, taproxy.rs:213 *)
      | Some si => Some (mkProxy (p_id p) (Some (mkSI (si_id si) (si_ta si) (r_objs r)))
                                 (apply_resp_children (p_children p) (r_children r)) None)
      end
    (* taproxy.rs:219-221: child_details.insert(handle, child) with a NEW TrustAnchorChild - whatever was stored
     under the handle would be replaced; process_add_child never lets that happen (add_known_child_refused) *)
  | EvChildAdded c id => Some (mkProxy (p_id p) (p_signer p) (aput c (new_child id) (p_children p)) (p_open p))
  | EvChildReq c k r =>
      match aget c (p_children p) with
      | None => None                                                    (* unwrap, taproxy.rs:225-230 *)
      | Some ch => Some (mkProxy (p_id p) (p_signer p)
                                 (aput c (mkChild (tc_id ch) (tc_used ch) (aput k r (tc_reqs ch)) (tc_resps ch)) (p_children p)) (p_open p))
      end
  | EvChildGiven c k =>
      match aget c (p_children p) with
      | None => None                                                    (* unwrap, taproxy.rs:233-238 *)
      | Some ch => Some (mkProxy (p_id p) (p_signer p)
                                 (aput c (mkChild (tc_id ch) (tc_used ch) (tc_reqs ch) (adel k (tc_resps ch))) (p_children p)) (p_open p))
      end
  end.

Fixpoint p_apply_all (p : proxy) (evs : list pevent) : option proxy :=
  match evs with
  | [] => Some p
  | e :: r => match p_apply p e with Some p' => p_apply_all p' r | None => None end
  end.

(** Admission of a revocation request (taproxy.rs:487-495, repaired tree, finding F15b): only for a key
    that is in use. The originally pinned tree admitted any key present in [used_keys], also one already
    marked Revoked ([revoke_admitted_pinned]; the wedge it caused: TaProofs.second_revocation_wedged_pinned). *)
Definition revoke_admitted (u : option ustate) : bool := match u with Some InUse => true | _ => false end.
Definition revoke_admitted_pinned (u : option ustate) : bool := match u with Some _ => true | None => false end.

Section WithValidate.
  (** [validate C k m]: TrustAnchorSigned{Request,Response}::validate under the public key [k]. *)
  Variable validate : forall C : Type, N -> msg C -> bool.

  (** * process_command (taproxy.rs:243-304, 332-522) *)
  Definition p_process (p : proxy) (c : pcmd) : result perr (list pevent) :=
    match c with
    | PAddSigner si => match p_signer p with None => Ok [EvSignerAdded si] | Some _ => Err EHasSigner end
    | PUpdateSigner si =>
        match p_signer p with
        | Some s => if si_ta s =? si_ta si then Ok [EvSignerUpdated si] else Err EDifferentSigner
        | None => Err EDifferentSigner
        end
    | PMake n => match p_open p with Some _ => Err EHasRequest | None => Ok [EvRequestMade n] end
    | PResponse m =>
        match p_open p with
        | None => Err ENoRequest
        | Some n =>
            if negb (m_nonce m =? n) then Err ENonceMismatch
            else match p_signer p with
                 | Some si => if validate response (si_id si) m then Ok [EvResponse (m_content m)] else Err EBadSignature
                 | None => Err ENoSigner
                 end
        end
    (* process_add_child (taproxy.rs:427-444): a known handle is refused, whatever ID certificate comes with it *)
    | PAddChild c id => match aget c (p_children p) with Some _ => Err EDupChild | None => Ok [EvChildAdded c id] end
    | PAddReq c k r =>
        match aget c (p_children p) with
        | None => Err EUnknownChild
        | Some ch =>
            if negb (rq_wf r) then Err EBadRequest
            else match rq_kind r with
                 | KIssue => Ok [EvChildReq c k r]
                 | KRevoke => if revoke_admitted (aget k (tc_used ch)) then Ok [EvChildReq c k r]
                              else Err EUnknownKey
                 end
        end
    | PGive c k =>
        match aget c (p_children p) with
        | None => Err EUnknownChild
        | Some ch => match aget k (tc_resps ch) with Some _ => Ok [EvChildGiven c k] | None => Err ENoResponse end
        end
    end.

  (** One command as the aggregate store runs it (store.rs:417-487): on an error nothing is applied. *)
  Inductive pres := POk (p : proxy) | PErr (e : perr) | PPanic.
  Definition p_step (p : proxy) (c : pcmd) : pres :=
    match p_process p c with
    | Err e => PErr e
    | Ok evs => match p_apply_all p evs with Some p' => POk p' | None => PPanic end
    end.
  Definition p_after (p : proxy) (c : pcmd) : proxy := match p_step p c with POk p' => p' | _ => p end.

  (** * Child hand-over (manager.rs:1257-1324) *)
  Definition req_matches_resp (r : creq) (a : cresp) : bool :=          (* ta.rs:869-878 *)
    match rq_kind r, a with KIssue, RRevoked => false | KRevoke, RIssued _ => false | _, _ => true end.
  Definition matching_open (ch : tchild) (k : N) (r : creq) : bool :=  (* taproxy.rs:734-765 *)
    match aget k (tc_reqs ch) with
    | Some e => match rq_kind e, rq_kind r with
                | KIssue, KIssue => rq_tag e =? rq_tag r
                | KRevoke, KRevoke => true
                | _, _ => false
                end
    | None => false
    end.

  Inductive outcome :=
  | ODelivered (a : cresp)      (* the pending response is handed over and removed *)
  | OAlready                    (* 1101: same request already scheduled *)
  | OScheduled                  (* 1104: request stored for the next signer exchange *)
  | OFailed (e : perr)
  | OPanic.

  Definition child_call (p : proxy) (c k : N) (r : creq) : outcome * proxy :=
    match aget c (p_children p) with
    | None => (OFailed EUnknownChild, p)
    | Some ch =>
        match aget k (tc_resps ch) with
        | Some a =>
            if req_matches_resp r a then
              match p_step p (PGive c k) with
              | POk p' => (ODelivered a, p') | PErr e => (OFailed e, p) | PPanic => (OPanic, p)
              end
            else (OFailed EMismatch, p)
        | None =>
            if matching_open ch k r then (OAlready, p)
            else match p_step p (PAddReq c k r) with
                 | POk p' => (OScheduled, p') | PErr e => (OFailed e, p) | PPanic => (OPanic, p)
                 end
        end
    end.
End WithValidate.

(** * The signed request for the signer (taproxy.rs:529-576): computed from the CURRENT open child
      requests every time it is fetched, under the nonce of the open request. *)
Definition nonempty {A} (l : list A) : bool := match l with [] => false | _ => true end.
Definition current_requests (p : proxy) : request :=
  filter (fun e => nonempty (snd e)) (map (fun e => (fst e, tc_reqs (snd e))) (p_children p)).
Definition p_get_request (p : proxy) : option (msg request) :=
  match p_open p with
  | Some n => Some (mkMsg n (p_id p) true (current_requests p))
  | None => None
  end.

Definition open_req (p : proxy) (c k : N) : option creq :=
  match aget c (p_children p) with Some ch => aget k (tc_reqs ch) | None => None end.
Definition open_resp (p : proxy) (c k : N) : option cresp :=
  match aget c (p_children p) with Some ch => aget k (tc_resps ch) | None => None end.
Definition pnum (p : proxy) : N := match p_signer p with Some si => o_num (si_objs si) | None => 0 end.

(** The modelling assumption about signatures, as a predicate on the validation function: validation
    under key [k] succeeds exactly for messages signed with [k] whose clear text equals the signed content.
    It is a hypothesis of the theorems (Section hypothesis [sig_sound] in TaProofs.v), never an axiom. *)
Definition SigSound (validate : forall C : Type, N -> msg C -> bool) : Prop :=
  forall (C : Type) (k : N) (m : msg C), validate C k m = true <-> m_by m = k /\ m_intact m = true.

(** The intended instance of [validate]. *)
Definition validate_std (C : Type) (k : N) (m : msg C) : bool := (m_by m =? k) && m_intact m.
