(** Correspondence checker and executable oracles for C15.

    One case = one operation of the harness on one aggregate of the real system, as read back from the
    aggregate store: the state before, the commands the operation stored (abstracted, each with the
    observed outcome), the state after, and whether the stored JSON (version counter aside) is unchanged.
    - [CProxy]: a TrustAnchorProxy (commands stored under ta_proxy/ta/command-N.json)
    - [CSigner]: a TrustAnchorSigner (embedded, or one of the harness-owned ones)
    - [CCall]: one child request handed to the proxy through the manager (revocation requests sent with
      CaManager::send_revoke_requests), with the outcome the child saw.

    [agrees]: the model, run on the same commands from the observed state before, gives the same
    outcomes and the observed state after. The oracles evaluate the conclusions of the C15 theorems on
    what the implementation did. Signature validation is instantiated with [validate_std]; who signed a
    message and whether its clear text was altered is known to the harness by construction. *)
From KV Require Import base.Tac ta.TaProxy ta.TaSigner.
Open Scope N_scope.

(** ** Boolean equalities (maps compared as finite maps, issued keys as a set) *)
Definition amap_sub {V} (eqv : V -> V -> bool) (a b : list (N * V)) : bool :=
  forallb (fun kv => match aget (fst kv) a, aget (fst kv) b with Some v, Some v' => eqv v v' | _, _ => false end) a.
Definition amap_eqb {V} (eqv : V -> V -> bool) (a b : list (N * V)) : bool := amap_sub eqv a b && amap_sub eqv b a.
Definition set_sub (a b : list N) : bool := forallb (fun x => memb x b) a.
Definition set_eqb (a b : list N) : bool := set_sub a b && set_sub b a.
Definition opt_eqb {A} (eqv : A -> A -> bool) (a b : option A) : bool :=
  match a, b with Some x, Some y => eqv x y | None, None => true | _, _ => false end.

Definition rkind_eqb (a b : rkind) : bool := match a, b with KIssue, KIssue | KRevoke, KRevoke => true | _, _ => false end.
Definition creq_eqb (a b : creq) : bool := rkind_eqb (rq_kind a) (rq_kind b) && (rq_tag a =? rq_tag b) && Bool.eqb (rq_wf a) (rq_wf b).
Definition cresp_eqb (a b : cresp) : bool :=
  match a, b with RIssued x, RIssued y => x =? y | RRevoked, RRevoked | RError, RError => true | _, _ => false end.
Definition ustate_eqb (a b : ustate) : bool := match a, b with InUse, InUse | Revoked, Revoked => true | _, _ => false end.
Definition objects_eqb (a b : objects) : bool := (o_num a =? o_num b) && set_eqb (o_issued a) (o_issued b).
Definition tchild_eqb (a b : tchild) : bool :=
  (tc_id a =? tc_id b) && amap_eqb ustate_eqb (tc_used a) (tc_used b) && amap_eqb creq_eqb (tc_reqs a) (tc_reqs b) && amap_eqb cresp_eqb (tc_resps a) (tc_resps b).
Definition sinfo_eqb (a b : sinfo) : bool := (si_id a =? si_id b) && (si_ta a =? si_ta b) && objects_eqb (si_objs a) (si_objs b).
Definition proxy_eqb (a b : proxy) : bool :=
  (p_id a =? p_id b) && opt_eqb sinfo_eqb (p_signer a) (p_signer b)
  && amap_eqb tchild_eqb (p_children a) (p_children b) && opt_eqb N.eqb (p_open a) (p_open b).
Definition signer_eqb (a b : signer) : bool :=
  (s_id a =? s_id b) && (s_proxy a =? s_proxy b) && (s_ta a =? s_ta b) && objects_eqb (s_objs a) (s_objs b).

Definition perr_code (e : perr) : N :=
  match e with
  | EHasSigner => 1 | EDifferentSigner => 2 | EHasRequest => 3 | ENoRequest => 4 | ENonceMismatch => 5
  | EBadSignature => 6 | ENoSigner => 7 | EDupChild => 8 | EUnknownChild => 9 | EBadRequest => 10
  | EUnknownKey => 11 | ENoResponse => 12 | EMismatch => 13
  end.
Definition serr_code (e : serr) : N := match e with SBadSignature => 1 | SBadRequest => 2 | SUnknownKey => 3 end.

Definition resp_content_eqb (a b : response) : bool :=
  objects_eqb (r_objs a) (r_objs b) && amap_eqb (amap_eqb cresp_eqb) (r_children a) (r_children b).
Definition resp_msg_eqb (a b : msg response) : bool :=
  (m_nonce a =? m_nonce b) && (m_by a =? m_by b) && Bool.eqb (m_intact a) (m_intact b) && resp_content_eqb (m_content a) (m_content b).

(** ** Cases *)
Record pstep := mkPStep { ps_cmd : pcmd; ps_err : option perr }.          (* None: the command succeeded *)
Record sstep := mkSStep {
  ss_msg : msg request; ss_ov : option N;
  ss_err : option serr;                                                   (* None: processed *)
  ss_resp : option (msg response);                                        (* the response the signer stored *)
  ss_current : bool }.          (* the message is the associated proxy's current request (fetched now, unaltered)
                                   and this signer is the proxy's associated signer, in step with it *)

Inductive ocall := CDelivered (a : cresp) | CAlready | CScheduled | CFailed.

Inductive case :=
| CProxy (pre : proxy) (steps : list pstep) (post : proxy) (same_json : bool)
| CSigner (pre : signer) (steps : list sstep) (post : signer) (same_json : bool)
| CCall (pre : proxy) (c k : N) (r : creq) (out : ocall) (post : proxy).

Notation pstep_m := (p_step validate_std).
Notation sproc_m := (s_process validate_std).

(** ** Correspondence *)
Fixpoint run_proxy (cur : proxy) (steps : list pstep) : option proxy :=
  match steps with
  | [] => Some cur
  | st :: r =>
      match pstep_m cur (ps_cmd st), ps_err st with
      | POk p', None => run_proxy p' r
      | PErr e, Some e' => if perr_code e =? perr_code e' then run_proxy cur r else None
      | _, _ => None
      end
  end.

Fixpoint run_signer (cur : signer) (steps : list sstep) : option signer :=
  match steps with
  | [] => Some cur
  | st :: r =>
      match sproc_m cur (ss_msg st) (ss_ov st), ss_err st with
      | Ok (s', resp), None =>
          if opt_eqb resp_msg_eqb (Some resp) (ss_resp st) then run_signer s' r else None
      | Err e, Some e' => if serr_code e =? serr_code e' then run_signer cur r else None
      | _, _ => None
      end
  end.

Definition ocall_of (o : outcome) : ocall :=
  match o with ODelivered a => CDelivered a | OAlready => CAlready | OScheduled => CScheduled | OFailed _ | OPanic => CFailed end.
Definition ocall_eqb (a b : ocall) : bool :=
  match a, b with
  | CDelivered x, CDelivered y => cresp_eqb x y
  | CAlready, CAlready | CScheduled, CScheduled | CFailed, CFailed => true
  | _, _ => false
  end.

Definition agrees (c : case) : bool :=
  match c with
  | CProxy pre steps post _ => match run_proxy pre steps with Some p => proxy_eqb p post | None => false end
  | CSigner pre steps post _ => match run_signer pre steps with Some s => signer_eqb s post | None => false end
  | CCall pre c k r out post =>
      let '(o, p) := child_call validate_std pre c k r in ocall_eqb (ocall_of o) out && proxy_eqb p post
  end.

(** ** Oracle: the conclusions of the theorems on the observed transitions *)
Definition is_ok {E} (e : option E) : bool := match e with None => true | Some _ => false end.   (* also: "is None" *)
Definition is_some {E} (e : option E) : bool := negb (is_ok e).

(** response_accepted_iff / one_open_request, on the state the command met *)
Definition ok_pstep (cur : proxy) (st : pstep) : bool :=
  match ps_cmd st with
  | PResponse m =>
      Bool.eqb (is_ok (ps_err st))
        (match p_open cur, p_signer cur with
         | Some n, Some si => (m_nonce m =? n) && (m_by m =? si_id si) && m_intact m
         | _, _ => false
         end)
  | PMake _ => Bool.eqb (is_ok (ps_err st)) (is_ok (p_open cur))
  (* delivered exactly once: a hand-over succeeds iff the response is still pending (taproxy.rs:505-525);
     the second of two handlers that both saw the response must be refused *)
  | PGive c k => Bool.eqb (is_ok (ps_err st)) (is_some (open_resp cur c k))
  (* add_child_accepted_iff / add_known_child_refused: a handle is added iff it is not known yet, whatever the
     ID certificate that comes with it *)
  | PAddChild c _ => Bool.eqb (is_ok (ps_err st)) (is_ok (aget c (p_children cur)))
  | _ => true
  end.

Fixpoint ok_psteps (cur : proxy) (steps : list pstep) : bool :=
  match steps with
  | [] => true
  | st :: r =>
      ok_pstep cur st &&
      match pstep_m cur (ps_cmd st), ps_err st with
      | POk p', None => ok_psteps p' r
      | PErr _, Some _ => ok_psteps cur r
      | _, _ => true                      (* the model cannot follow: [agrees] reports it *)
      end
  end.

Definition accepted_response (st : pstep) : option (msg response) :=
  match ps_cmd st, ps_err st with PResponse m, None => Some m | _, _ => None end.
Definition accepted_signer_change (st : pstep) : bool :=
  match ps_cmd st, ps_err st with PAddSigner _, None | PUpdateSigner _, None => true | _, _ => false end.

(** exactly_one_response_delivered_once, first half: what an accepted response leaves behind *)
Definition responses_stored (post : proxy) (m : msg response) : bool :=
  forallb (fun e =>
    match aget (fst e) (p_children post) with
    | None => true
    | Some ch => forallb (fun ka => opt_eqb cresp_eqb (aget (fst ka) (tc_resps ch)) (Some (snd ka))
                                    && is_ok (aget (fst ka) (tc_reqs ch))) (snd e)
    end) (r_children (m_content m)).

(** exactly_one_response_delivered_once, the hypothesis side: every request that was open when the response
    arrived is either answered by it (with the answer to THAT request) or still open afterwards. Fails
    when a request for the same (child, key) was stored after the signer request was fetched (F15a). *)
Definition answer_of (r : creq) : cresp := match rq_kind r with KIssue => RIssued (rq_tag r) | KRevoke => RRevoked end.
Definition requests_accounted (pre post : proxy) (m : msg response) : bool :=
  forallb (fun cc =>
    forallb (fun kr =>
      match aget (fst cc) (r_children (m_content m)) with
      | Some l => match aget (fst kr) l with
                  | Some a => cresp_eqb a (answer_of (snd kr))
                  | None => opt_eqb creq_eqb (open_req post (fst cc) (fst kr)) (Some (snd kr))
                  end
      | None => opt_eqb creq_eqb (open_req post (fst cc) (fst kr)) (Some (snd kr))
      end) (tc_reqs (snd cc))) (p_children pre).

(** no_spurious_response: after an accepted response no child has a pending response or a used key that it
    did not have before and did not ask for (each response goes to THAT child only). *)
Definition nothing_foreign (pre post : proxy) : bool :=
  forallb (fun cc =>
    let prech := match aget (fst cc) (p_children pre) with Some ch => ch | None => empty_child end in
    forallb (fun ka => opt_eqb cresp_eqb (aget (fst ka) (tc_resps prech)) (Some (snd ka))
                       || is_some (aget (fst ka) (tc_reqs prech))) (tc_resps (snd cc))
    && forallb (fun ku => opt_eqb ustate_eqb (aget (fst ku) (tc_used prech)) (Some (snd ku))
                          || is_some (aget (fst ku) (tc_reqs prech))) (tc_used (snd cc)))
    (p_children post).

(** pending_response_kept / used_keys_kept / add_known_child_refused on the observed transition: every child
    of before is still there with the ID certificate it was added with; a response that waited for a child is
    still waiting unless it was handed over to that child in this operation (or an accepted signer response
    answered that key again); a used key is still known, in the same state unless an accepted signer
    response said otherwise. (A response received is never dropped, used keys are never forgotten.) *)
Definition given_in (steps : list pstep) (c k : N) : bool :=
  existsb (fun st => match ps_cmd st, ps_err st with PGive c' k', None => (c' =? c) && (k' =? k) | _, _ => false end) steps.
Definition answered_in (steps : list pstep) (c k : N) : bool :=
  existsb (fun st => match accepted_response st with
                     | Some m => match aget c (r_children (m_content m)) with Some l => is_some (aget k l) | None => false end
                     | None => false
                     end) steps.
Definition nothing_forgotten (pre : proxy) (steps : list pstep) (post : proxy) : bool :=
  forallb (fun cc =>
    match aget (fst cc) (p_children post) with
    | None => false
    | Some ch' =>
        (tc_id (snd cc) =? tc_id ch')
        && forallb (fun ka => opt_eqb cresp_eqb (aget (fst ka) (tc_resps ch')) (Some (snd ka))
                              || given_in steps (fst cc) (fst ka) || answered_in steps (fst cc) (fst ka)) (tc_resps (snd cc))
        && forallb (fun ku => opt_eqb ustate_eqb (aget (fst ku) (tc_used ch')) (Some (snd ku))
                              || (is_some (aget (fst ku) (tc_used ch')) && answered_in steps (fst cc) (fst ku))) (tc_used (snd cc))
    end) (p_children pre).

Definition ok_proxy_case (pre : proxy) (steps : list pstep) (post : proxy) (same_json : bool) : bool :=
  ok_psteps pre steps && nothing_forgotten pre steps post
  (* refused_no_change *)
  && (negb (forallb (fun st => negb (is_ok (ps_err st))) steps) || (same_json && proxy_eqb pre post))
  (* the open nonce is only closed by an accepted response, the objects only change by one *)
  && (existsb (fun st => is_some (accepted_response st) || accepted_signer_change st) steps
      || ((pnum pre =? pnum post)
          && (existsb (fun st => match ps_cmd st, ps_err st with PMake _, None => true | _, _ => false end) steps
              || opt_eqb N.eqb (p_open pre) (p_open post))))
  && match steps with
     | [st] =>
         match accepted_response st with
         | Some m =>
             is_ok (p_open post) && (pnum post =? o_num (r_objs (m_content m)))
             && (pnum pre <? pnum post)                                   (* ta_numbers_increase *)
             && responses_stored post m && requests_accounted pre post m && nothing_foreign pre post
         | None =>
             match ps_cmd st, ps_err st with
             | PMake n, None => opt_eqb N.eqb (p_open post) (Some n)
             | PGive c k, None => is_ok (open_resp post c k)             (* handed over and removed *)
             (* (re-)association: from now on the proxy is associated with exactly the signer it was given *)
             | PAddSigner si, None | PUpdateSigner si, None => opt_eqb sinfo_eqb (p_signer post) (Some si)
             | _, _ => true
             end
         end
     | _ =>
         (* e.g. the embedded exchange: request made and answered in one operation *)
         negb (existsb (fun st => is_some (accepted_response st)) steps
               && negb (existsb accepted_signer_change steps))
         || (pnum pre <? pnum post)
     end.

(** signer_processes_iff_signed_by_proxy (signature part), ta_numbers_increase *)
Definition honest (cur : signer) (st : sstep) : bool := (m_by (ss_msg st) =? s_proxy cur) && m_intact (ss_msg st).
(** What the signer answers is, child by child and key by key, the answer to that child's own requests
    (process_reqs_answers / process_children_answers): nothing of another child, nothing missing. *)
Definition expected_answers (l : request) : list (N * list (N * cresp)) :=
  map (fun e => (fst e, map (fun kr => (fst kr, answer_of (snd kr))) (snd e))) l.
Definition answers_ok (st : sstep) : bool :=
  match ss_err st, ss_resp st with
  | None, Some r => amap_eqb (amap_eqb cresp_eqb) (r_children (m_content r)) (expected_answers (m_content (ss_msg st)))
  | _, _ => true
  end.

Definition ok_sstep (cur : signer) (st : sstep) : bool :=
  answers_ok st &&
  (* processed only if validly signed by the associated proxy *)
  (negb (is_ok (ss_err st)) || honest cur st)
  (* a request that does not carry the proxy's intact signature is refused as such *)
  && (honest cur st || match ss_err st with Some SBadSignature => true | _ => false end).

Fixpoint ok_ssteps (cur : signer) (steps : list sstep) : bool :=
  match steps with
  | [] => true
  | st :: r =>
      ok_sstep cur st &&
      match sproc_m cur (ss_msg st) (ss_ov st), ss_err st with
      | Ok (s', _), None => ok_ssteps s' r
      | Err _, Some _ => ok_ssteps cur r
      | _, _ => true
      end
  end.

Definition snum (s : signer) : N := o_num (s_objs s).
Definition override_ok (cur : N) (ov : option N) : bool := match ov with Some n => cur <? n | None => true end.

Definition ok_signer_case (pre : signer) (steps : list sstep) (post : signer) (same_json : bool) : bool :=
  ok_ssteps pre steps
  && (negb (forallb (fun st => negb (is_ok (ss_err st))) steps) || (same_json && signer_eqb pre post))
  && match steps with
     | [st] =>
         match ss_err st, ss_resp st with
         | None, Some r =>
             (negb (override_ok (snum pre) (ss_ov st)) || (snum pre <? snum post))
             && (o_num (r_objs (m_content r)) =? snum post)
             && (m_nonce r =? m_nonce (ss_msg st)) && (m_by r =? s_id pre) && m_intact r
         | None, None => false
         | Some _, _ => true
         end
     | _ => true
     end.

Definition ok_call_case (pre : proxy) (c k : N) (out : ocall) (post : proxy) : bool :=
  match out with
  | CDelivered a =>
      (* delivered exactly once: it was the pending response and it is gone afterwards; nothing else is lost *)
      opt_eqb cresp_eqb (open_resp pre c k) (Some a) && is_ok (open_resp post c k)
      && nothing_forgotten pre [mkPStep (PGive c k) None] post
  | CAlready | CFailed => proxy_eqb pre post
  | CScheduled => is_some (open_req post c k) && nothing_forgotten pre [] post
  end.

Definition c15_ok (c : case) : bool :=
  match c with
  | CProxy pre steps post sj => ok_proxy_case pre steps post sj
  | CSigner pre steps post sj => ok_signer_case pre steps post sj
  | CCall pre c k _ out post => ok_call_case pre c k out post
  end.

(** exchange_always_completes: the associated proxy's current request, handed to its associated signer
    while both are in step, is processed. (Failed on the F15b wedge of the pinned tree.) *)
Fixpoint completes_steps (cur : signer) (steps : list sstep) : bool :=
  match steps with
  | [] => true
  | st :: r =>
      (negb (ss_current st && honest cur st) || is_ok (ss_err st)) &&
      match sproc_m cur (ss_msg st) (ss_ov st), ss_err st with
      | Ok (s', _), None => completes_steps s' r
      | Err _, Some _ => completes_steps cur r
      | _, _ => true
      end
  end.
Definition c15_complete (c : case) : bool :=
  match c with CSigner pre steps _ _ => completes_steps pre steps | _ => true end.

(** Indices of cases on which a predicate fails. *)
Fixpoint failing_from {A} (f : A -> bool) (i : N) (l : list A) : list N :=
  match l with
  | [] => []
  | x :: r => if f x then failing_from f (i + 1) r else i :: failing_from f (i + 1) r
  end.
Definition failing {A} (f : A -> bool) (base : N) (l : list A) : list N := failing_from f base l.
