(** Model of the trust-anchor signer aggregate, and of a proxy/signer pair with an arbitrary
    message-handling environment in between (C15).

    Rust sources modelled (pinned tree):
    - src/tasigner/signer.rs   TrustAnchorSigner: state (59-78), apply (142-161),
                               process_signer_request (368-514)
    - src/api/ta.rs            TrustAnchorObjects::republish (127-161), add_issued / revoke_issued (217-244),
                               TrustAnchorSignedRequest::validate (590-609)
    - src/server/ca/publishing.rs  ObjectSetRevision::next (1462-1474)
    - src/server/ca/manager.rs     sync_ta_proxy_signer_if_possible (1622-1683) is the op sequence
                               [YMake; YGet; YSign; YRespond] of the system below

    The signer keeps no memory of nonces: a request that validates is processed every time it is
    presented. No proofs in this file. *)
From KV Require Import base.Tac ta.TaProxy.
Open Scope N_scope.

Record signer := mkSigner {
  s_id : N;          (* own ID key *)
  s_proxy : N;       (* ID key of the associated proxy *)
  s_ta : N;          (* TA key *)
  s_objs : objects }.

Inductive serr := SBadSignature | SBadRequest | SUnknownKey.

Definition add_issued (k : N) (iss : list N) : list N := if memb k iss then iss else k :: iss.   (* ta.rs:217-224 *)

(** What a successful request is answered with (signer.rs:423-445, 448-479). *)
Definition answer (r : creq) : cresp := match rq_kind r with KIssue => RIssued (rq_tag r) | KRevoke => RRevoked end.

(** signer.rs:392-482, the requests of one child in the order of the map iteration. *)
Fixpoint process_reqs (iss : list N) (l : list (N * creq)) : result serr (list N * list (N * cresp)) :=
  match l with
  | [] => Ok (iss, [])
  | (k, r) :: t =>
      if negb (rq_wf r) then Err SBadRequest
      else
        let step := match rq_kind r with
                    | KIssue => Ok (add_issued k iss)
                    | KRevoke => if memb k iss then Ok (remove_key k iss) else Err SUnknownKey   (* signer.rs:470-474 *)
                    end in
        match step with
        | Err e => Err e
        | Ok iss1 => match process_reqs iss1 t with
                     | Ok (iss2, rs) => Ok (iss2, (k, answer r) :: rs)
                     | Err e => Err e
                     end
        end
  end.

(** signer.rs:389-485: any failing request fails the whole signed request. *)
Fixpoint process_children (iss : list N) (l : request) : result serr (list N * list (N * list (N * cresp))) :=
  match l with
  | [] => Ok (iss, [])
  | (c, reqs) :: t =>
      match process_reqs iss reqs with
      | Err e => Err e
      | Ok (iss1, rs) => match process_children iss1 t with
                         | Ok (iss2, crs) => Ok (iss2, (c, rs) :: crs)
                         | Err e => Err e
                         end
      end
  end.

(** ObjectSetRevision::next *)
Definition next_num (cur : N) (override : option N) : N := match override with Some n => n | None => cur + 1 end.

Section WithValidate.
  Variable validate : forall C : Type, N -> msg C -> bool.

  Definition s_process (s : signer) (m : msg request) (override : option N) : result serr (signer * msg response) :=
    if validate request (s_proxy s) m then
      match process_children (o_issued (s_objs s)) (m_content m) with
      | Err e => Err e
      | Ok (iss, crs) =>
          let objs := mkObjs (next_num (o_num (s_objs s)) override) iss in
          Ok (mkSigner (s_id s) (s_proxy s) (s_ta s) objs,
              mkMsg (m_nonce m) (s_id s) true (mkResp objs crs))
      end
    else Err SBadSignature.

  Definition s_after (s : signer) (m : msg request) (ov : option N) : signer :=
    match s_process s m ov with Ok (s', _) => s' | Err _ => s end.

  (** * Proxy, signer and whatever carries messages between them *)
  Record sys := mkSys {
    y_p : proxy;
    y_s : signer;
    y_reqs : list (msg request);      (* every request message the proxy has signed so far *)
    y_resps : list (msg response);    (* every response message the signer has signed so far *)
    y_nonces : list N }.              (* nonces drawn so far *)

  Inductive sysop :=
  | YMake (n : N)                           (* ta_proxy_signer_make_request *)
  | YGet                                    (* ta_proxy_signer_get_request *)
  | YSign (m : msg request) (ov : option N) (* ANY message is handed to the signer *)
  | YRespond (m : msg response)             (* ANY message is handed to the proxy *)
  | YChild (c k : N) (r : creq)             (* a child calls in (ta_slow_rfc6492_request) *)
  | YAddChild (c id : N).

  Definition sys_step (y : sys) (o : sysop) : sys :=
    match o with
    | YMake n =>
        match p_step validate (y_p y) (PMake n) with
        | POk p' => mkSys p' (y_s y) (y_reqs y) (y_resps y) (n :: y_nonces y)
        | _ => y
        end
    | YGet =>
        match p_get_request (y_p y) with
        | Some m => mkSys (y_p y) (y_s y) (m :: y_reqs y) (y_resps y) (y_nonces y)
        | None => y
        end
    | YSign m ov =>
        match s_process (y_s y) m ov with
        | Ok (s', r) => mkSys (y_p y) s' (y_reqs y) (r :: y_resps y) (y_nonces y)
        | Err _ => y
        end
    | YRespond m =>
        match p_step validate (y_p y) (PResponse m) with
        | POk p' => mkSys p' (y_s y) (y_reqs y) (y_resps y) (y_nonces y)
        | _ => y
        end
    | YChild c k r => mkSys (snd (child_call validate (y_p y) c k r)) (y_s y) (y_reqs y) (y_resps y) (y_nonces y)
    | YAddChild c id => mkSys (p_after validate (y_p y) (PAddChild c id)) (y_s y) (y_reqs y) (y_resps y) (y_nonces y)
    end.

  (** What the environment cannot do: present a message carrying an intact signature of the proxy
      (signer) that the proxy (signer) never made; draw a nonce twice; and (operator discipline, as for
      C14) force a manifest number that is not above the signer's current one. *)
  Definition op_ok (y : sys) (o : sysop) : Prop :=
    match o with
    | YMake n => ~ In n (y_nonces y)
    | YSign m ov =>
        (m_by m = p_id (y_p y) -> m_intact m = true -> In m (y_reqs y))
        /\ (forall n, ov = Some n -> o_num (s_objs (y_s y)) < n)
    | YRespond m => m_by m = s_id (y_s y) -> m_intact m = true -> In m (y_resps y)
    | _ => True
    end.

  Fixpoint sys_run (y : sys) (ops : list sysop) : sys :=
    match ops with [] => y | o :: r => sys_run (sys_step y o) r end.
  Fixpoint ops_ok (y : sys) (ops : list sysop) : Prop :=
    match ops with [] => True | o :: r => op_ok y o /\ ops_ok (sys_step y o) r end.

  (** ** Disciplined operation: the signer only ever sees the proxy's CURRENT request, and its answer goes
         back to the proxy before the signer sees anything else (what sync_ta_proxy_signer_if_possible
         does in one call, and what an operator of an off-line signer is expected to do). Children call in
         at any time, and ANY response message may be handed to the proxy at any time. *)
  Inductive hop :=
  | HMake (n : N)
  | HChild (c k : N) (r : creq)
  | HAddChild (c id : N)
  | HExchange (ov : option N)               (* fetch the current request, sign it, hand the answer back *)
  | HRespond (m : msg response).            (* any message: replayed, stale, forged, cross-wired *)

  Definition hop_ops (y : sys) (h : hop) : list sysop :=
    match h with
    | HMake n => [YMake n]
    | HChild c k r => [YChild c k r]
    | HAddChild c id => [YAddChild c id]
    | HRespond m => [YRespond m]
    | HExchange ov =>
        match p_get_request (y_p y) with
        | None => []
        | Some m => YGet :: YSign m ov :: match s_process (y_s y) m ov with Ok (_, r) => [YRespond r] | Err _ => [] end
        end
    end.
  Definition hop_step (y : sys) (h : hop) : sys := sys_run y (hop_ops y h).
  Fixpoint hop_run (y : sys) (hs : list hop) : sys :=
    match hs with [] => y | h :: r => hop_run (hop_step y h) r end.

  (** Side conditions: fresh nonces, no forged signer signatures, forced numbers above the current one,
      and every child key identifier belongs to one child ([owner]). *)
  Definition hop_ok (owner : N -> N) (y : sys) (h : hop) : Prop :=
    match h with
    | HMake n => ~ In n (y_nonces y)
    | HChild c k r => owner k = c
    | HAddChild _ _ => True
    | HExchange ov => forall n, ov = Some n -> o_num (s_objs (y_s y)) < n
    | HRespond m => m_by m = s_id (y_s y) -> m_intact m = true -> In m (y_resps y)
    end.
  Fixpoint hops_ok (owner : N -> N) (y : sys) (hs : list hop) : Prop :=
    match hs with [] => True | h :: r => hop_ok owner y h /\ hops_ok owner (hop_step y h) r end.

  (** Associated, in step, nothing in flight. *)
  Definition sys_init (y : sys) : Prop :=
    (exists si, p_signer (y_p y) = Some si /\ si_id si = s_id (y_s y) /\ si_objs si = s_objs (y_s y))
    /\ s_proxy (y_s y) = p_id (y_p y) /\ p_id (y_p y) <> s_id (y_s y)
    /\ p_open (y_p y) = None /\ y_reqs y = [] /\ y_resps y = [] /\ y_nonces y = [].
End WithValidate.
