(** Proofs about the trust-anchor proxy / signer model (C15). Signature validation is a Section
    variable [validate] with the hypothesis [sig_sound]; nothing here is an axiom. *)
From KV Require Import base.Tac ta.TaProxy ta.TaSigner.
Open Scope N_scope.

(** * Finite maps *)
Lemma aget_aput_same {V} k (v : V) m : aget k (aput k v m) = Some v.
Proof.
  induction m as [|[k' v'] m IH]; cbn [aput aget].
  - now rewrite N.eqb_refl.
  - destruct (k' =? k) eqn:E; cbn [aget].
    + now rewrite N.eqb_refl.
    + now rewrite E.
Qed.

Lemma aget_aput_other {V} k k' (v : V) m : k' <> k -> aget k' (aput k v m) = aget k' m.
Proof.
  intros Hne. induction m as [|[k0 v0] m IH]; cbn [aput aget].
  - destruct (k =? k') eqn:E; [apply N.eqb_eq in E; congruence|reflexivity].
  - destruct (k0 =? k) eqn:E; cbn [aget].
    + apply N.eqb_eq in E. subst k0.
      destruct (k =? k') eqn:E2; [apply N.eqb_eq in E2; congruence|reflexivity].
    + destruct (k0 =? k'); [reflexivity|exact IH].
Qed.

Lemma aget_adel_same {V} k (m : list (N * V)) : aget k (adel k m) = None.
Proof.
  induction m as [|[k' v'] m IH]; cbn [adel aget]; [reflexivity|].
  destruct (k' =? k) eqn:E; [exact IH|]. cbn [aget]. now rewrite E.
Qed.

Lemma aget_adel_other {V} k k' (m : list (N * V)) : k' <> k -> aget k' (adel k m) = aget k' m.
Proof.
  intros Hne. induction m as [|[k0 v0] m IH]; cbn [adel aget]; [reflexivity|].
  destruct (k0 =? k) eqn:E.
  - apply N.eqb_eq in E. subst k0.
    destruct (k =? k') eqn:E2; [apply N.eqb_eq in E2; congruence|exact IH].
  - cbn [aget]. destruct (k0 =? k'); [reflexivity|exact IH].
Qed.

Lemma aget_In {V} k (v : V) m : aget k m = Some v -> In (k, v) m.
Proof.
  induction m as [|[k' v'] m IH]; cbn [aget]; [discriminate|].
  destruct (k' =? k) eqn:E.
  - apply N.eqb_eq in E. intros [= ->]. subst. now left.
  - intros H. right. now apply IH.
Qed.

Lemma aget_None_notin {V} k (m : list (N * V)) : aget k m = None <-> ~ In k (map fst m).
Proof.
  induction m as [|[k' v'] m IH]; cbn [aget map fst In]; [tauto|].
  destruct (k' =? k) eqn:E.
  - apply N.eqb_eq in E. split; [discriminate|]. intros H. exfalso. apply H. now left.
  - apply N.eqb_neq in E. rewrite IH. tauto.
Qed.

Lemma In_aget_nodup {V} k (v : V) m : NoDup (map fst m) -> In (k, v) m -> aget k m = Some v.
Proof.
  induction m as [|[k' v'] m IH]; cbn [map fst aget]; [intros _ []|].
  intros Hnd [Heq|Hin].
  - inversion Heq; subst. now rewrite N.eqb_refl.
  - inversion Hnd as [|? ? Hni Hnd']; subst.
    destruct (k' =? k) eqn:E.
    + apply N.eqb_eq in E. subst. exfalso. apply Hni. change k with (fst (k, v)). now apply in_map.
    + now apply IH.
Qed.

Lemma memb_In k l : memb k l = true <-> In k l.
Proof.
  unfold memb. rewrite existsb_exists. split.
  - intros [x [Hx E]]. apply N.eqb_eq in E. now subst.
  - intros H. exists k. split; [exact H|apply N.eqb_refl].
Qed.

Lemma In_remove_key k x l : In x (remove_key k l) <-> In x l /\ x <> k.
Proof.
  induction l as [|a l IH]; cbn [remove_key In]; [tauto|].
  destruct (a =? k) eqn:E.
  - apply N.eqb_eq in E. subst a. rewrite IH. split; [tauto|]. intros [[->|H] Hne]; [congruence|tauto].
  - apply N.eqb_neq in E. cbn [In]. rewrite IH. split.
    + intros [->|[H Hne]]; tauto.
    + intros [[->|H] Hne]; tauto.
Qed.

Lemma In_add_issued k x l : In x (add_issued k l) <-> x = k \/ In x l.
Proof.
  unfold add_issued. destruct (memb k l) eqn:E.
  - apply memb_In in E. split; [tauto|]. intros [->|H]; assumption.
  - cbn [In]. split; intros [H|H]; auto.
Qed.

Section Proofs.
  Variable validate : forall C : Type, N -> msg C -> bool.
  (** Modelling assumption about the signature scheme (CMS signed message under an ID key): validation
      under key [k] succeeds exactly for messages whose signed part was made with [k] and whose clear
      text still equals the signed content. *)
  Hypothesis sig_sound : forall (C : Type) (k : N) (m : msg C),
    validate C k m = true <-> m_by m = k /\ m_intact m = true.

  Notation p_process := (p_process validate).
  Notation p_step := (p_step validate).
  Notation p_after := (p_after validate).
  Notation child_call := (child_call validate).
  Notation s_process := (s_process validate).
  Notation s_after := (s_after validate).
  Notation sys_step := (sys_step validate).
  Notation sys_run := (sys_run validate).
  Notation ops_ok := (ops_ok validate).

  (** ** No command that is accepted can make [apply] panic *)
  Lemma process_apply_safe p c evs : p_process p c = Ok evs -> exists p', p_apply_all p evs = Some p'.
  Proof.
    unfold TaProxy.p_process. destruct c; intros H.
    - destruct (p_signer p); inv H. cbn. eauto.
    - destruct (p_signer p) as [s|]; [|discriminate]. destruct (si_ta s =? si_ta si); inv H. cbn. eauto.
    - destruct (p_open p); inv H. cbn. eauto.
    - destruct (p_open p) as [n|]; [|discriminate].
      destruct (negb (m_nonce m =? n)); [discriminate|].
      destruct (p_signer p) as [si|] eqn:Hs; [|discriminate].
      destruct (validate response (si_id si) m); inv H. cbn. rewrite Hs. eauto.
    - destruct (aget c (p_children p)); inv H. cbn. eauto.
    - destruct (aget c (p_children p)) as [ch|] eqn:Hc; [|discriminate].
      destruct (negb (rq_wf r)); [discriminate|].
      destruct (rq_kind r).
      + inv H. cbn. rewrite Hc. eauto.
      + destruct (revoke_admitted (aget k (tc_used ch))); inv H. cbn. rewrite Hc. eauto.
    - destruct (aget c (p_children p)) as [ch|] eqn:Hc; [|discriminate].
      destruct (aget k (tc_resps ch)); inv H. cbn. rewrite Hc. eauto.
  Qed.

  Theorem step_never_panics p c : p_step p c <> PPanic.
  Proof.
    unfold TaProxy.p_step. destruct (p_process p c) as [evs|e] eqn:H; [|discriminate].
    destruct (process_apply_safe _ _ _ H) as [p' ->]. discriminate.
  Qed.

  (** ** The proxy accepts a response iff it carries the open nonce and the associated signer's intact signature *)
  Theorem response_accepted_iff p m :
    (exists p', p_step p (PResponse m) = POk p') <->
    (exists n si, p_open p = Some n /\ m_nonce m = n /\ p_signer p = Some si
                  /\ m_by m = si_id si /\ m_intact m = true).
  Proof.
    unfold TaProxy.p_step, TaProxy.p_process. split.
    - intros [p' H].
      destruct (p_open p) as [n|]; [|discriminate].
      destruct (m_nonce m =? n) eqn:En; cbn [negb] in H; [|discriminate].
      destruct (p_signer p) as [si|]; [|discriminate].
      destruct (validate response (si_id si) m) eqn:Ev; [|discriminate].
      apply sig_sound in Ev. apply N.eqb_eq in En. exists n, si. tauto.
    - intros [n [si [Ho [Hn [Hs [Hb Hi]]]]]].
      rewrite Ho, Hs. subst n. rewrite N.eqb_refl. cbn [negb].
      assert (Ev : validate response (si_id si) m = true) by (apply sig_sound; auto).
      rewrite Ev. cbn. rewrite Hs. eauto.
  Qed.

  (** What acceptance does: the open request is closed and the signer's objects are taken over. *)
  Theorem response_accepted_effect p m p' :
    p_step p (PResponse m) = POk p' ->
    p_open p' = None /\ p_id p' = p_id p
    /\ (exists si, p_signer p = Some si /\ p_signer p' = Some (mkSI (si_id si) (si_ta si) (r_objs (m_content m))))
    /\ p_children p' = apply_resp_children (p_children p) (r_children (m_content m)).
  Proof.
    unfold TaProxy.p_step, TaProxy.p_process.
    destruct (p_open p) as [n|]; [|discriminate].
    destruct (negb (m_nonce m =? n)); [discriminate|].
    destruct (p_signer p) as [si|] eqn:Hs; [|discriminate].
    destruct (validate response (si_id si) m); [|discriminate].
    cbn. rewrite Hs. intros [= <-]. cbn. eauto 6.
  Qed.

  (** ** Anything refused leaves the state as it was (proxy and signer) *)
  Theorem refused_no_change p c : (forall p', p_step p c <> POk p') -> p_after p c = p.
  Proof. unfold TaProxy.p_after. destruct (p_step p c); [intros H; exfalso; now apply (H p0)|reflexivity|reflexivity]. Qed.

  Theorem refused_no_change_error p c e : p_process p c = Err e -> p_step p c = PErr e /\ p_after p c = p.
  Proof. unfold TaProxy.p_after, TaProxy.p_step. intros ->. auto. Qed.

  Theorem signer_refused_no_change s m ov e : s_process s m ov = Err e -> s_after s m ov = s.
  Proof. unfold TaSigner.s_after. now intros ->. Qed.

  (** ** The signer processes a request iff it carries the associated proxy's intact signature
         (and every child request in it can be carried out) *)
  Theorem signer_processes_iff_signed_by_proxy s m ov :
    (exists s' r, s_process s m ov = Ok (s', r)) <->
    (m_by m = s_proxy s /\ m_intact m = true
     /\ exists x, process_children (o_issued (s_objs s)) (m_content m) = Ok x).
  Proof.
    unfold TaSigner.s_process. split.
    - intros [s' [r H]]. destruct (validate request (s_proxy s) m) eqn:Ev; [|discriminate].
      apply sig_sound in Ev. destruct Ev as [Hb Hi].
      destruct (process_children (o_issued (s_objs s)) (m_content m)) as [x|e]; [|discriminate]. eauto.
    - intros [Hb [Hi [x Hx]]].
      assert (Ev : validate request (s_proxy s) m = true) by (apply sig_sound; auto).
      rewrite Ev, Hx. destruct x. eauto.
  Qed.

  Corollary signer_processes_only_signed_by_proxy s m ov s' r :
    s_process s m ov = Ok (s', r) -> m_by m = s_proxy s /\ m_intact m = true.
  Proof. intros H. assert (Hx : exists s' r, s_process s m ov = Ok (s', r)) by eauto. apply signer_processes_iff_signed_by_proxy in Hx. tauto. Qed.

  (** The response the signer makes: same nonce, own signature, its new objects. *)
  Lemma s_process_result s m ov s' r :
    s_process s m ov = Ok (s', r) ->
    m_nonce r = m_nonce m /\ m_by r = s_id s /\ m_intact r = true
    /\ s_id s' = s_id s /\ s_proxy s' = s_proxy s /\ s_ta s' = s_ta s
    /\ r_objs (m_content r) = s_objs s' /\ o_num (s_objs s') = next_num (o_num (s_objs s)) ov.
  Proof.
    unfold TaSigner.s_process. destruct (validate request (s_proxy s) m); [|discriminate].
    destruct (process_children (o_issued (s_objs s)) (m_content m)) as [[iss crs]|]; [|discriminate].
    intros [= <- <-]. cbn. tauto.
  Qed.

  (** ** At most one open request; it is closed only by an accepted response carrying its nonce *)
  Theorem one_open_request :
    (forall p n, (exists p', p_step p (PMake n) = POk p') <-> p_open p = None)
    /\ (forall p n p', p_step p (PMake n) = POk p' -> p_open p' = Some n)
    /\ (forall p n0 n, p_open p = Some n0 -> p_step p (PMake n) = PErr EHasRequest)
    /\ (forall p c p' n, p_open p = Some n -> p_step p c = POk p' ->
          p_open p' = Some n \/ (exists m, c = PResponse m /\ m_nonce m = n /\ p_open p' = None)).
  Proof.
    repeat split.
    - intros [p' H]. unfold TaProxy.p_step, TaProxy.p_process in H. destruct (p_open p); [discriminate|reflexivity].
    - intros H. unfold TaProxy.p_step, TaProxy.p_process. rewrite H. cbn. eauto.
    - intros p n p'. unfold TaProxy.p_step, TaProxy.p_process. destruct (p_open p); [discriminate|]. cbn. now intros [= <-].
    - intros p n0 n H. unfold TaProxy.p_step, TaProxy.p_process. now rewrite H.
    - intros p c p' n Ho H. destruct c.
      + unfold TaProxy.p_step, TaProxy.p_process in H. destruct (p_signer p); [discriminate|]. cbn in H. inv H. now left.
      + unfold TaProxy.p_step, TaProxy.p_process in H. destruct (p_signer p) as [s|]; [|discriminate].
        destruct (si_ta s =? si_ta si); [|discriminate]. cbn in H. inv H. now left.
      + unfold TaProxy.p_step, TaProxy.p_process in H. rewrite Ho in H. discriminate.
      + right. exists m. split; [reflexivity|].
        assert (Ha : exists p', p_step p (PResponse m) = POk p') by eauto.
        apply response_accepted_iff in Ha. destruct Ha as [n' [si [Ho' [Hn _]]]].
        rewrite Ho in Ho'. inv Ho'. split; [reflexivity|].
        now apply response_accepted_effect in H.
      + unfold TaProxy.p_step, TaProxy.p_process in H. destruct (aget c (p_children p)); [discriminate|]. cbn in H. inv H. now left.
      + unfold TaProxy.p_step, TaProxy.p_process in H. destruct (aget c (p_children p)) as [ch|] eqn:Hc; [|discriminate].
        destruct (negb (rq_wf r)); [discriminate|].
        destruct (rq_kind r); [|destruct (revoke_admitted (aget k (tc_used ch))); [|discriminate]];
          cbn in H; rewrite Hc in H; inv H; now left.
      + unfold TaProxy.p_step, TaProxy.p_process in H. destruct (aget c (p_children p)) as [ch|] eqn:Hc; [|discriminate].
        destruct (aget k (tc_resps ch)); [|discriminate]. cbn in H. rewrite Hc in H. inv H. now left.
  Qed.

  (** ** Well-formed proxy states: child handles and, per child, request keys are unique (they are
         HashMap keys in the code); preserved by every command. *)
  Definition wf_proxy (p : proxy) : Prop :=
    NoDup (map fst (p_children p))
    /\ forall c ch, In (c, ch) (p_children p) -> NoDup (map fst (tc_reqs ch)).

  Lemma In_keys_aput {V} k (v : V) m x : In x (map fst (aput k v m)) -> x = k \/ In x (map fst m).
  Proof.
    induction m as [|[k' v'] m IH]; cbn [aput map fst In].
    - intros [<-|[]]. now left.
    - destruct (k' =? k) eqn:E; cbn [map fst In].
      + intros [<-|H]; auto.
      + intros [<-|H]; auto. destruct (IH H); auto.
  Qed.

  Lemma NoDup_aput {V} k (v : V) m : NoDup (map fst m) -> NoDup (map fst (aput k v m)).
  Proof.
    induction m as [|[k' v'] m IH]; cbn [aput map fst]; intros H.
    - constructor; [intros []|constructor].
    - inversion H as [|? ? Hni Hnd]; subst.
      destruct (k' =? k) eqn:E; cbn [map fst].
      + apply N.eqb_eq in E. subst. now constructor.
      + apply N.eqb_neq in E. constructor; [|now apply IH].
        intros Hin. apply In_keys_aput in Hin. destruct Hin as [->|Hin]; [congruence|contradiction].
  Qed.

  Lemma In_aput {V} k (v : V) m k' v' : In (k', v') (aput k v m) -> (k' = k /\ v' = v) \/ In (k', v') m.
  Proof.
    induction m as [|[k0 v0] m IH]; cbn [aput In].
    - intros [[= <- <-]|[]]. now left.
    - destruct (k0 =? k) eqn:E; cbn [In].
      + intros [[= <- <-]|H]; auto.
      + intros [H|H]; auto. destruct (IH H); auto.
  Qed.

  Lemma In_keys_adel {V} k (m : list (N * V)) x : In x (map fst (adel k m)) -> In x (map fst m).
  Proof.
    induction m as [|[k' v'] m IH]; cbn [adel map fst In]; [tauto|].
    destruct (k' =? k); cbn [map fst In]; intros H; [right; now apply IH|destruct H; auto].
  Qed.

  Lemma NoDup_adel {V} k (m : list (N * V)) : NoDup (map fst m) -> NoDup (map fst (adel k m)).
  Proof.
    induction m as [|[k' v'] m IH]; cbn [adel map fst]; intros H; [constructor|].
    inversion H as [|? ? Hni Hnd]; subst.
    destruct (k' =? k); cbn [map fst]; [now apply IH|].
    constructor; [|now apply IH]. intros Hin. apply Hni. now apply In_keys_adel in Hin.
  Qed.

  Lemma apply_child_resps_reqs_nodup ch l :
    NoDup (map fst (tc_reqs ch)) -> NoDup (map fst (tc_reqs (apply_child_resps ch l))).
  Proof.
    unfold apply_child_resps. revert ch. induction l as [|kr l IH]; intros ch H; cbn [fold_left]; [exact H|].
    apply IH. unfold apply_child_resp. cbn [tc_reqs]. now apply NoDup_adel.
  Qed.

  Lemma wf_children_aput c ch chs :
    NoDup (map fst chs) -> (forall c' ch', In (c', ch') chs -> NoDup (map fst (tc_reqs ch'))) ->
    NoDup (map fst (tc_reqs ch)) ->
    NoDup (map fst (aput c ch chs))
    /\ forall c' ch', In (c', ch') (aput c ch chs) -> NoDup (map fst (tc_reqs ch')).
  Proof.
    intros H1 H2 H3. split; [now apply NoDup_aput|].
    intros c' ch' Hin. apply In_aput in Hin. destruct Hin as [[_ ->]|Hin]; eauto.
  Qed.

  Lemma apply_resp_children_wf rs : forall chs,
    NoDup (map fst chs) -> (forall c ch, In (c, ch) chs -> NoDup (map fst (tc_reqs ch))) ->
    NoDup (map fst (apply_resp_children chs rs))
    /\ forall c ch, In (c, ch) (apply_resp_children chs rs) -> NoDup (map fst (tc_reqs ch)).
  Proof.
    unfold apply_resp_children. induction rs as [|e rs IH]; intros chs H1 H2; cbn [fold_left]; [auto|].
    unfold apply_resp_child at 2 4. destruct (aget (fst e) chs) as [ch0|] eqn:Hg; [|now apply IH].
    assert (Hw := wf_children_aput (fst e) (apply_child_resps ch0 (snd e)) chs H1 H2
                    (apply_child_resps_reqs_nodup _ _ (H2 _ _ (aget_In _ _ _ Hg)))).
    destruct Hw. now apply IH.
  Qed.

  Theorem wf_proxy_step p c p' : wf_proxy p -> p_step p c = POk p' -> wf_proxy p'.
  Proof.
    intros [H1 H2] H. destruct c.
    - unfold TaProxy.p_step, TaProxy.p_process in H. destruct (p_signer p); [discriminate|]. cbn in H. inv H. now split.
    - unfold TaProxy.p_step, TaProxy.p_process in H. destruct (p_signer p) as [s|]; [|discriminate].
      destruct (si_ta s =? si_ta si); [|discriminate]. cbn in H. inv H. now split.
    - unfold TaProxy.p_step, TaProxy.p_process in H. destruct (p_open p); [discriminate|]. cbn in H. inv H. now split.
    - apply response_accepted_effect in H. destruct H as [_ [_ [_ Hc]]].
      unfold wf_proxy. rewrite Hc. now apply apply_resp_children_wf.
    - unfold TaProxy.p_step, TaProxy.p_process in H. destruct (aget c (p_children p)); [discriminate|]. cbn in H. inv H.
      unfold wf_proxy. cbn [p_children]. apply wf_children_aput; auto. constructor.
    - unfold TaProxy.p_step, TaProxy.p_process in H. destruct (aget c (p_children p)) as [ch|] eqn:Hc; [|discriminate].
      assert (Hnd : NoDup (map fst (aput k r (tc_reqs ch)))) by (apply NoDup_aput; eapply H2; eapply aget_In; eauto).
      destruct (negb (rq_wf r)); [discriminate|].
      destruct (rq_kind r); [|destruct (revoke_admitted (aget k (tc_used ch))); [|discriminate]];
        cbn in H; rewrite Hc in H; inv H; unfold wf_proxy; cbn [p_children]; apply wf_children_aput; auto.
    - unfold TaProxy.p_step, TaProxy.p_process in H. destruct (aget c (p_children p)) as [ch|] eqn:Hc; [|discriminate].
      destruct (aget k (tc_resps ch)); [|discriminate]. cbn in H. rewrite Hc in H. inv H.
      unfold wf_proxy; cbn [p_children]; apply wf_children_aput; auto. cbn [tc_reqs]. eapply H2; eapply aget_In; eauto.
  Qed.

  (** ** What the signer answers is a function of the requests *)
  Definition answers (l : list (N * creq)) : list (N * cresp) := map (fun kr => (fst kr, answer (snd kr))) l.
  Definition child_answers (l : request) : list (N * list (N * cresp)) := map (fun e => (fst e, answers (snd e))) l.

  Lemma process_reqs_answers l : forall iss iss' rs, process_reqs iss l = Ok (iss', rs) -> rs = answers l.
  Proof.
    induction l as [|[k r] l IH]; intros iss iss' rs; cbn [process_reqs].
    - now intros [= <- <-].
    - destruct (negb (rq_wf r)); [discriminate|].
      destruct (rq_kind r).
      + destruct (process_reqs (add_issued k iss) l) as [[i2 rs2]|] eqn:E; [|discriminate].
        intros [= <- <-]. cbn [answers map fst snd]. f_equal. eapply IH; eauto.
      + destruct (memb k iss); [|discriminate].
        destruct (process_reqs (remove_key k iss) l) as [[i2 rs2]|] eqn:E; [|discriminate].
        intros [= <- <-]. cbn [answers map fst snd]. f_equal. eapply IH; eauto.
  Qed.

  Lemma process_children_answers l : forall iss iss' crs, process_children iss l = Ok (iss', crs) -> crs = child_answers l.
  Proof.
    induction l as [|[c reqs] l IH]; intros iss iss' crs; cbn [process_children].
    - now intros [= <- <-].
    - destruct (process_reqs iss reqs) as [[i1 rs]|] eqn:E1; [|discriminate].
      destruct (process_children i1 l) as [[i2 crs2]|] eqn:E2; [|discriminate].
      intros [= <- <-]. cbn [child_answers map fst snd]. f_equal.
      + f_equal. eapply process_reqs_answers; eauto.
      + eapply IH; eauto.
  Qed.

  (** ** What the proxy does with a list of responses *)
  Lemma apply_child_resps_reqs l : forall ch k,
    aget k (tc_reqs (apply_child_resps ch l)) = if memb k (map fst l) then None else aget k (tc_reqs ch).
  Proof.
    unfold apply_child_resps. induction l as [|[k0 a0] l IH]; intros ch k; cbn [fold_left map fst]; [reflexivity|].
    rewrite IH. unfold memb. cbn [existsb]. unfold apply_child_resp at 1. cbn [tc_reqs fst snd].
    fold (memb k (map fst l)). destruct (memb k (map fst l)); [now rewrite orb_true_r|].
    rewrite orb_false_r. destruct (k =? k0) eqn:E.
    - apply N.eqb_eq in E. subst. apply aget_adel_same.
    - apply N.eqb_neq in E. now apply aget_adel_other.
  Qed.

  Lemma apply_child_resps_resps_other l : forall ch k,
    ~ In k (map fst l) -> aget k (tc_resps (apply_child_resps ch l)) = aget k (tc_resps ch).
  Proof.
    unfold apply_child_resps. induction l as [|[k0 a0] l IH]; intros ch k Hni; cbn [fold_left]; [reflexivity|].
    cbn [map fst In] in Hni. rewrite IH by tauto. unfold apply_child_resp. cbn [tc_resps fst snd].
    apply aget_aput_other. intros ->. tauto.
  Qed.

  Lemma apply_child_resps_resps_in l : forall ch k a,
    NoDup (map fst l) -> In (k, a) l -> aget k (tc_resps (apply_child_resps ch l)) = Some a.
  Proof.
    induction l as [|[k0 a0] l IH]; intros ch k a Hnd Hin; [destruct Hin|].
    cbn [map fst] in Hnd. inversion Hnd as [|? ? Hni Hnd']; subst.
    destruct Hin as [[= -> ->]|Hin].
    - change (apply_child_resps ch ((k, a) :: l)) with (apply_child_resps (apply_child_resp ch (k, a)) l).
      rewrite apply_child_resps_resps_other by exact Hni.
      unfold apply_child_resp. cbn [tc_resps fst snd]. apply aget_aput_same.
    - change (apply_child_resps ch ((k0, a0) :: l)) with (apply_child_resps (apply_child_resp ch (k0, a0)) l).
      now apply IH.
  Qed.

  Lemma apply_resp_children_other rs : forall chs c,
    ~ In c (map fst rs) -> aget c (apply_resp_children chs rs) = aget c chs.
  Proof.
    unfold apply_resp_children. induction rs as [|[c0 l0] rs IH]; intros chs c Hni; cbn [fold_left]; [reflexivity|].
    cbn [map fst In] in Hni. rewrite IH by tauto.
    unfold apply_resp_child. cbn [fst snd]. destruct (aget c0 chs); [|reflexivity].
    apply aget_aput_other. intros ->. tauto.
  Qed.

  Lemma apply_resp_children_in rs : forall chs c l ch,
    NoDup (map fst rs) -> In (c, l) rs -> aget c chs = Some ch ->
    aget c (apply_resp_children chs rs) = Some (apply_child_resps ch l).
  Proof.
    induction rs as [|[c0 l0] rs IH]; intros chs c l ch Hnd Hin Hg; [destruct Hin|].
    cbn [map fst] in Hnd. inversion Hnd as [|? ? Hni Hnd']; subst.
    change (apply_resp_children chs ((c0, l0) :: rs)) with (apply_resp_children (apply_resp_child chs (c0, l0)) rs).
    destruct Hin as [[= -> ->]|Hin].
    - rewrite apply_resp_children_other by exact Hni.
      unfold apply_resp_child. cbn [fst snd]. rewrite Hg. apply aget_aput_same.
    - apply IH; auto. unfold apply_resp_child. cbn [fst snd].
      destruct (aget c0 chs) eqn:E0; [|exact Hg].
      rewrite aget_aput_other; [exact Hg|]. intros ->. apply Hni.
      change c0 with (fst (c0, l)). now apply in_map.
  Qed.

  Lemma current_requests_keys p : forall x, In x (map fst (current_requests p)) -> In x (map fst (p_children p)).
  Proof.
    unfold current_requests. intros x H. apply in_map_iff in H. destruct H as [[c l] [<- H]].
    apply filter_In in H. destruct H as [H _]. apply in_map_iff in H. destruct H as [[c' ch] [[= <- <-] H]].
    cbn [fst]. change c' with (fst (c', ch)). now apply in_map.
  Qed.

  Lemma current_requests_nodup p : NoDup (map fst (p_children p)) -> NoDup (map fst (current_requests p)).
  Proof.
    unfold current_requests. induction (p_children p) as [|[c ch] chs IH]; cbn [map filter fst snd]; intros H; [constructor|].
    inversion H as [|? ? Hni Hnd]; subst.
    destruct (nonempty (tc_reqs ch)); cbn [map fst]; [|now apply IH].
    constructor; [|now apply IH]. intros Hin. apply Hni.
    apply in_map_iff in Hin. destruct Hin as [[c' l] [Hc Hin]]. cbn [fst] in Hc. subst c'.
    apply filter_In in Hin. destruct Hin as [Hin _]. apply in_map_iff in Hin.
    destruct Hin as [[c' ch'] [[= <- <-] Hin]]. change c' with (fst (c', ch')). now apply in_map.
  Qed.

  Lemma answers_keys l : map fst (answers l) = map fst l.
  Proof. unfold answers. rewrite map_map. reflexivity. Qed.
  Lemma child_answers_keys l : map fst (child_answers l) = map fst l.
  Proof. unfold child_answers. rewrite map_map. reflexivity. Qed.

  Lemma req_matches_answer r : req_matches_resp r (answer r) = true.
  Proof. unfold req_matches_resp, answer. now destruct (rq_kind r). Qed.

  (** ** Every request that was forwarded gets exactly one response, which is handed over exactly once.
         The hypothesis [p_get_request p = Some req] says that the request the signer answered is the
         proxy's CURRENT request at the moment the response is processed, i.e. no child request for the
         same (child, key) was stored between fetching the request and processing the response. Without
         it the statement is false: [late_request_dropped] below (candidate finding F15a). *)
  Theorem exactly_one_response_delivered_once p s req ov s' resp p' :
    wf_proxy p ->
    p_get_request p = Some req ->
    s_process s req ov = Ok (s', resp) ->
    p_step p (PResponse resp) = POk p' ->
    forall c k r, open_req p c k = Some r ->
      open_resp p' c k = Some (answer r) /\ req_matches_resp r (answer r) = true
      /\ open_req p' c k = None
      /\ exists p'', child_call p' c k r = (ODelivered (answer r), p'')
                     /\ open_resp p'' c k = None
                     /\ forall a, fst (child_call p'' c k r) <> ODelivered a.
  Proof.
    intros [Hnd Hndk] Hget Hs Hp c k r Hreq.
    (* the response content *)
    unfold p_get_request in Hget. destruct (p_open p) as [n|]; [|discriminate]. inv Hget.
    unfold TaSigner.s_process in Hs. cbn [m_content m_nonce] in Hs.
    destruct (validate request (s_proxy s) _); [|discriminate].
    destruct (process_children (o_issued (s_objs s)) (current_requests p)) as [[iss crs]|] eqn:Hpc; [|discriminate].
    apply process_children_answers in Hpc. subst crs. inv Hs.
    apply response_accepted_effect in Hp. cbn [m_content r_children] in Hp. destruct Hp as [_ [_ [_ Hch]]].
    (* the child and its request *)
    unfold open_req in Hreq. destruct (aget c (p_children p)) as [ch|] eqn:Hc; [|discriminate].
    assert (Hin : In (c, answers (tc_reqs ch)) (child_answers (current_requests p))).
    { unfold child_answers. apply in_map_iff. exists (c, tc_reqs ch). split; [reflexivity|].
      unfold current_requests. apply filter_In. split.
      - apply in_map_iff. exists (c, ch). split; [reflexivity|]. now apply aget_In.
      - cbn [snd]. destruct (tc_reqs ch); [discriminate|reflexivity]. }
    assert (Hc' : aget c (p_children p') = Some (apply_child_resps ch (answers (tc_reqs ch)))).
    { rewrite Hch. apply apply_resp_children_in; auto.
      rewrite child_answers_keys. now apply current_requests_nodup. }
    assert (Hndr : NoDup (map fst (tc_reqs ch))) by (eapply Hndk; eapply aget_In; eauto).
    assert (Hresp : aget k (tc_resps (apply_child_resps ch (answers (tc_reqs ch)))) = Some (answer r)).
    { apply apply_child_resps_resps_in; [now rewrite answers_keys|].
      unfold answers. apply in_map_iff. exists (k, r). split; [reflexivity|]. now apply aget_In. }
    assert (Hnoreq : aget k (tc_reqs (apply_child_resps ch (answers (tc_reqs ch)))) = None).
    { rewrite apply_child_resps_reqs. rewrite answers_keys.
      assert (Hm : memb k (map fst (tc_reqs ch)) = true).
      { apply memb_In. change k with (fst (k, r)). apply in_map. now apply aget_In. }
      now rewrite Hm. }
    unfold open_resp, open_req. rewrite Hc'. repeat split; auto using req_matches_answer.
    (* hand-over *)
    set (ch1 := apply_child_resps ch (answers (tc_reqs ch))) in *.
    set (p2 := mkProxy (p_id p') (p_signer p')
                 (aput c (mkChild (tc_id ch1) (tc_used ch1) (tc_reqs ch1) (adel k (tc_resps ch1))) (p_children p')) (p_open p')).
    assert (Hcall : child_call p' c k r = (ODelivered (answer r), p2)).
    { unfold TaProxy.child_call. rewrite Hc', Hresp, req_matches_answer.
      unfold TaProxy.p_step, TaProxy.p_process. rewrite Hc', Hresp. cbn. rewrite Hc'. reflexivity. }
    exists p2. split; [exact Hcall|]. split.
    - subst p2. cbn [p_children]. rewrite aget_aput_same. cbn [tc_resps]. apply aget_adel_same.
    - intros a. unfold TaProxy.child_call. subst p2. cbn [p_children]. rewrite aget_aput_same. cbn [tc_resps].
      rewrite aget_adel_same.
      destruct (matching_open _ k r); [discriminate|].
      destruct (TaProxy.p_step validate _ (PAddReq c k r)); discriminate.
  Qed.

  (** No response appears for a (child, key) that had no request in the answered exchange. *)
  Lemma apply_resp_children_char rs : forall chs c ch',
    aget c (apply_resp_children chs rs) = Some ch' ->
    exists ch, aget c chs = Some ch
      /\ (forall k r, aget k (tc_reqs ch') = Some r -> aget k (tc_reqs ch) = Some r).
  Proof.
    unfold apply_resp_children. induction rs as [|[c0 l0] rs IH]; intros chs c ch' H; cbn [fold_left] in H; [eauto|].
    apply IH in H. destruct H as [ch1 [H1 H2]].
    unfold apply_resp_child in H1. cbn [fst snd] in H1.
    destruct (aget c0 chs) as [ch0|] eqn:E0; [|eauto].
    destruct (N.eq_dec c c0) as [->|Hne].
    - rewrite aget_aput_same in H1. inv H1. exists ch0. split; [exact E0|].
      intros k r Hk. apply H2 in Hk. rewrite apply_child_resps_reqs in Hk.
      destruct (memb k (map fst l0)); [discriminate|exact Hk].
    - rewrite aget_aput_other in H1 by exact Hne. eauto.
  Qed.

  Theorem no_spurious_response p s req ov s' resp p' :
    wf_proxy p ->
    p_get_request p = Some req ->
    s_process s req ov = Ok (s', resp) ->
    p_step p (PResponse resp) = POk p' ->
    forall c k a, open_resp p' c k = Some a ->
      open_resp p c k = Some a \/ exists r, open_req p c k = Some r /\ a = answer r.
  Proof.
    intros [Hnd Hndk] Hget Hs Hp c k a Hresp.
    unfold p_get_request in Hget. destruct (p_open p) as [n|]; [|discriminate]. inv Hget.
    unfold TaSigner.s_process in Hs. cbn [m_content m_nonce] in Hs.
    destruct (validate request (s_proxy s) _); [|discriminate].
    destruct (process_children (o_issued (s_objs s)) (current_requests p)) as [[iss crs]|] eqn:Hpc; [|discriminate].
    apply process_children_answers in Hpc. subst crs. inv Hs.
    apply response_accepted_effect in Hp. cbn [m_content r_children] in Hp. destruct Hp as [_ [_ [_ Hch]]].
    unfold open_resp in Hresp. unfold open_resp, open_req.
    destruct (aget c (p_children p')) as [ch'|] eqn:Hc'; [|discriminate].
    destruct (aget c (p_children p)) as [ch|] eqn:Hc.
    2:{ rewrite Hch, apply_resp_children_other, Hc in Hc'; [discriminate|].
        rewrite child_answers_keys. intros Hin. apply current_requests_keys in Hin.
        apply aget_None_notin in Hc. contradiction. }
    destruct (tc_reqs ch) as [|kr0 reqs0] eqn:Hreqs.
    - (* no open request: the child is not in the exchange *)
      rewrite Hch, apply_resp_children_other, Hc in Hc'.
      + inv Hc'. now left.
      + rewrite child_answers_keys. intros Hin. apply in_map_iff in Hin. destruct Hin as [[c1 l1] [Hc1 Hin]].
        cbn [fst] in Hc1. subst c1. unfold current_requests in Hin. apply filter_In in Hin. destruct Hin as [Hin Hne].
        apply in_map_iff in Hin. destruct Hin as [[c2 ch2] [[= <- <-] Hin]].
        apply In_aget_nodup in Hin; [|exact Hnd]. rewrite Hc in Hin. inv Hin. cbn [snd] in Hne. now rewrite Hreqs in Hne.
    - assert (Hin : In (c, answers (tc_reqs ch)) (child_answers (current_requests p))).
      { unfold child_answers. apply in_map_iff. exists (c, tc_reqs ch). split; [reflexivity|].
        unfold current_requests. apply filter_In. split.
        - apply in_map_iff. exists (c, ch). split; [reflexivity|]. now apply aget_In.
        - cbn [snd]. now rewrite Hreqs. }
      rewrite Hch in Hc'. erewrite apply_resp_children_in in Hc'; eauto.
      2:{ rewrite child_answers_keys. now apply current_requests_nodup. }
      inv Hc'. rewrite <- Hreqs in *.
      destruct (aget k (tc_reqs ch)) as [r|] eqn:Hk.
      + right. exists r. split; [reflexivity|].
        assert (Hndr : NoDup (map fst (tc_reqs ch))) by (eapply Hndk; eapply aget_In; eauto).
        rewrite (apply_child_resps_resps_in (answers (tc_reqs ch)) ch k (answer r)) in Hresp.
        * now inv Hresp.
        * now rewrite answers_keys.
        * unfold answers. apply in_map_iff. exists (k, r). split; [reflexivity|]. now apply aget_In.
      + left. rewrite apply_child_resps_resps_other in Hresp; [exact Hresp|].
        rewrite answers_keys. now apply aget_None_notin.
  Qed.

  (** ** Frame: child traffic does not touch the signer association or the open request *)
  Lemma p_step_child_frame p c p' :
    (match c with PAddChild _ _ | PAddReq _ _ _ | PGive _ _ => True | _ => False end) ->
    p_step p c = POk p' -> p_id p' = p_id p /\ p_signer p' = p_signer p /\ p_open p' = p_open p.
  Proof.
    intros Hc H. destruct c; try contradiction; unfold TaProxy.p_step, TaProxy.p_process in H.
    - destruct (aget c (p_children p)); [discriminate|]. cbn in H. inv H. auto.
    - destruct (aget c (p_children p)) as [ch|] eqn:E; [|discriminate].
      destruct (negb (rq_wf r)); [discriminate|].
      destruct (rq_kind r); [|destruct (revoke_admitted (aget k (tc_used ch))); [|discriminate]]; cbn in H; rewrite E in H; inv H; auto.
    - destruct (aget c (p_children p)) as [ch|] eqn:E; [|discriminate].
      destruct (aget k (tc_resps ch)); [|discriminate]. cbn in H. rewrite E in H. inv H. auto.
  Qed.

  Lemma child_call_frame p c k r :
    let p' := snd (child_call p c k r) in
    p_id p' = p_id p /\ p_signer p' = p_signer p /\ p_open p' = p_open p.
  Proof.
    unfold TaProxy.child_call. destruct (aget c (p_children p)) as [ch|]; [|cbn; auto].
    destruct (aget k (tc_resps ch)).
    - destruct (req_matches_resp r c0); [|cbn; auto].
      destruct (p_step p (PGive c k)) eqn:E; cbn [snd]; auto. eapply p_step_child_frame; eauto. exact I.
    - destruct (matching_open ch k r); [cbn; auto|].
      destruct (p_step p (PAddReq c k r)) eqn:E; cbn [snd]; auto. eapply p_step_child_frame; eauto. exact I.
  Qed.

  Lemma p_after_addchild_frame p c i :
    let p' := p_after p (PAddChild c i) in
    p_id p' = p_id p /\ p_signer p' = p_signer p /\ p_open p' = p_open p.
  Proof.
    unfold TaProxy.p_after. destruct (p_step p (PAddChild c i)) eqn:E; cbn; auto.
    eapply p_step_child_frame; eauto. exact I.
  Qed.

  (** ** A known handle cannot be added again (process_add_child, taproxy.rs:427-444), whatever the ID
         certificate: the child record - used keys, queued requests, responses waiting for the child - is
         never replaced by a fresh one. *)
  Lemma add_child_accepted_iff p c i :
    (exists p', p_step p (PAddChild c i) = POk p') <-> aget c (p_children p) = None.
  Proof.
    unfold TaProxy.p_step, TaProxy.p_process. destruct (aget c (p_children p)); split; intros H.
    - destruct H as [p' H]. discriminate.
    - discriminate.
    - reflexivity.
    - cbn. eauto.
  Qed.

  Lemma add_known_child_refused p c i ch :
    aget c (p_children p) = Some ch ->
    p_step p (PAddChild c i) = PErr EDupChild /\ p_after p (PAddChild c i) = p.
  Proof.
    intros H. unfold TaProxy.p_after, TaProxy.p_step, TaProxy.p_process. rewrite H. auto.
  Qed.

  Lemma add_new_child_effect p c i p' :
    p_step p (PAddChild c i) = POk p' ->
    aget c (p_children p) = None /\ aget c (p_children p') = Some (new_child i)
    /\ forall c', c' <> c -> aget c' (p_children p') = aget c' (p_children p).
  Proof.
    unfold TaProxy.p_step, TaProxy.p_process. destruct (aget c (p_children p)) eqn:E; [discriminate|].
    cbn. intros H. inv H. cbn [p_children]. split; [reflexivity|]. split; [apply aget_aput_same|].
    intros c' Hne. now apply aget_aput_other.
  Qed.

  (** A response that waits for a child leaves the proxy only by the hand-over to that child (or is replaced
      by the answer of a later accepted exchange); the keys a child uses are not forgotten by child traffic
      or signer (re-)association. *)
  Lemma pending_response_kept p cmd p' c k a :
    p_step p cmd = POk p' -> open_resp p c k = Some a ->
    open_resp p' c k = Some a \/ cmd = PGive c k \/ (exists m, cmd = PResponse m).
  Proof.
    intros H Ho. destruct cmd as [si|si|n|m|c0 i|c0 k0 r|c0 k0]; unfold TaProxy.p_step, TaProxy.p_process in H.
    - destruct (p_signer p); [discriminate|]. cbn in H. inv H. now left.
    - destruct (p_signer p) as [s|]; [|discriminate]. destruct (si_ta s =? si_ta si); [|discriminate]. cbn in H. inv H. now left.
    - destruct (p_open p); [discriminate|]. cbn in H. inv H. now left.
    - right. right. eauto.
    - destruct (aget c0 (p_children p)) eqn:E; [discriminate|]. cbn in H. inv H. left.
      unfold open_resp in *. cbn [p_children]. destruct (N.eq_dec c c0) as [->|Hne].
      + rewrite E in Ho. discriminate.
      + now rewrite aget_aput_other.
    - destruct (aget c0 (p_children p)) as [ch|] eqn:E; [|discriminate].
      destruct (negb (rq_wf r)); [discriminate|].
      assert (Hp : p' = mkProxy (p_id p) (p_signer p)
                 (aput c0 (mkChild (tc_id ch) (tc_used ch) (aput k0 r (tc_reqs ch)) (tc_resps ch)) (p_children p)) (p_open p)).
      { destruct (rq_kind r); [|destruct (revoke_admitted (aget k0 (tc_used ch))); [|discriminate]]; cbn in H; rewrite E in H; now inv H. }
      subst p'. left. unfold open_resp in *. cbn [p_children]. destruct (N.eq_dec c c0) as [->|Hne].
      + rewrite aget_aput_same. rewrite E in Ho. exact Ho.
      + now rewrite aget_aput_other.
    - destruct (aget c0 (p_children p)) as [ch|] eqn:E; [|discriminate].
      destruct (aget k0 (tc_resps ch)); [|discriminate]. cbn in H. rewrite E in H. inv H.
      unfold open_resp in *. cbn [p_children]. destruct (N.eq_dec c c0) as [->|Hne].
      + destruct (N.eq_dec k k0) as [->|Hk]; [now right; left|]. left.
        rewrite aget_aput_same. cbn [tc_resps]. rewrite E in Ho. now rewrite aget_adel_other.
      + left. now rewrite aget_aput_other.
  Qed.

  Definition used_key (p : proxy) (c k : N) : option ustate :=
    match aget c (p_children p) with Some ch => aget k (tc_used ch) | None => None end.

  Lemma used_keys_kept p cmd p' c k u :
    p_step p cmd = POk p' -> (forall m, cmd <> PResponse m) -> used_key p c k = Some u -> used_key p' c k = Some u.
  Proof.
    intros H Hn Ho. destruct cmd as [si|si|n|m|c0 i|c0 k0 r|c0 k0]; unfold TaProxy.p_step, TaProxy.p_process in H.
    - destruct (p_signer p); [discriminate|]. cbn in H. now inv H.
    - destruct (p_signer p) as [s|]; [|discriminate]. destruct (si_ta s =? si_ta si); [|discriminate]. cbn in H. now inv H.
    - destruct (p_open p); [discriminate|]. cbn in H. now inv H.
    - exfalso. now apply (Hn m).
    - destruct (aget c0 (p_children p)) eqn:E; [discriminate|]. cbn in H. inv H.
      unfold used_key in *. cbn [p_children]. destruct (N.eq_dec c c0) as [->|Hne].
      + rewrite E in Ho. discriminate.
      + now rewrite aget_aput_other.
    - destruct (aget c0 (p_children p)) as [ch|] eqn:E; [|discriminate].
      destruct (negb (rq_wf r)); [discriminate|].
      assert (Hp : p' = mkProxy (p_id p) (p_signer p)
                 (aput c0 (mkChild (tc_id ch) (tc_used ch) (aput k0 r (tc_reqs ch)) (tc_resps ch)) (p_children p)) (p_open p)).
      { destruct (rq_kind r); [|destruct (revoke_admitted (aget k0 (tc_used ch))); [|discriminate]]; cbn in H; rewrite E in H; now inv H. }
      subst p'. unfold used_key in *. cbn [p_children]. destruct (N.eq_dec c c0) as [->|Hne].
      + rewrite aget_aput_same. rewrite E in Ho. exact Ho.
      + now rewrite aget_aput_other.
    - destruct (aget c0 (p_children p)) as [ch|] eqn:E; [|discriminate].
      destruct (aget k0 (tc_resps ch)); [|discriminate]. cbn in H. rewrite E in H. inv H.
      unfold used_key in *. cbn [p_children]. destruct (N.eq_dec c c0) as [->|Hne].
      + rewrite aget_aput_same. cbn [tc_used]. rewrite E in Ho. exact Ho.
      + now rewrite aget_aput_other.
  Qed.

  (** ** The pair under an arbitrary environment: invariant *)
  Definition rnum (m : msg response) : N := o_num (r_objs (m_content m)).
  Definition snum (s : signer) : N := o_num (s_objs s).

  Record Inv (y : sys) : Prop := mkInv {
    inv_assoc : exists si, p_signer (y_p y) = Some si /\ si_id si = s_id (y_s y);
    inv_proxy : s_proxy (y_s y) = p_id (y_p y);
    inv_le : pnum (y_p y) <= snum (y_s y);
    inv_resps : forall r, In r (y_resps y) -> rnum r <= snum (y_s y) /\ In (m_nonce r) (y_nonces y);
    inv_open : forall n, p_open (y_p y) = Some n ->
                 In n (y_nonces y) /\ forall r, In r (y_resps y) -> m_nonce r = n -> pnum (y_p y) < rnum r;
    inv_reqs : forall m, In m (y_reqs y) -> In (m_nonce m) (y_nonces y) }.

  Lemma init_inv y : sys_init y -> Inv y.
  Proof.
    intros [[si [Hs [Hid Hobjs]]] [Hp [_ [Ho [Hq [Hr Hn]]]]]]. constructor.
    - eauto.
    - exact Hp.
    - unfold pnum, snum. rewrite Hs, Hobjs. lia.
    - rewrite Hr. intros r [].
    - rewrite Ho. discriminate.
    - rewrite Hq. intros m [].
  Qed.

  Lemma pnum_frame p p' : p_signer p' = p_signer p -> pnum p' = pnum p.
  Proof. unfold pnum. now intros ->. Qed.

  Lemma inv_frame y p' :
    Inv y -> p_id p' = p_id (y_p y) -> p_signer p' = p_signer (y_p y) -> p_open p' = p_open (y_p y) ->
    Inv (mkSys p' (y_s y) (y_reqs y) (y_resps y) (y_nonces y)).
  Proof.
    intros [H1 H2 H3 H4 H5 H6] Hi Hs Ho. constructor; cbn [y_p y_s y_reqs y_resps y_nonces].
    - now rewrite Hs.
    - now rewrite Hi.
    - now rewrite (pnum_frame _ _ Hs).
    - exact H4.
    - rewrite Ho, (pnum_frame _ _ Hs). exact H5.
    - exact H6.
  Qed.

  Lemma next_num_gt cur ov : (forall n, ov = Some n -> cur < n) -> cur < next_num cur ov.
  Proof. unfold next_num. destruct ov as [n|]; intros H; [now apply H|lia]. Qed.

  Lemma sys_step_inv y o :
    Inv y -> op_ok y o ->
    Inv (sys_step y o)
    /\ pnum (y_p y) <= pnum (y_p (sys_step y o))
    /\ snum (y_s y) <= snum (y_s (sys_step y o))
    /\ (forall m p', o = YRespond m -> p_step (y_p y) (PResponse m) = POk p' ->
          pnum (y_p y) < pnum p' /\ In m (y_resps y))
    /\ (forall m ov s' r, o = YSign m ov -> s_process (y_s y) m ov = Ok (s', r) ->
          snum (y_s y) < snum s' /\ rnum r = snum s' /\ In m (y_reqs y)).
  Proof.
    intros HI Hok. pose proof HI as [H1 H2 H3 H4 H5 H6]. destruct o; cbn [TaSigner.sys_step].
    - (* YMake *)
      cbn [op_ok] in Hok.
      destruct (p_step (y_p y) (PMake n)) as [p'| |] eqn:E.
      2,3: split; [exact HI|]; repeat split; try lia; intros; congruence.
      unfold TaProxy.p_step, TaProxy.p_process in E. destruct (p_open (y_p y)) eqn:Eo; [discriminate|]. cbn in E. inv E.
      cbn [y_p y_s]. unfold pnum at 2. cbn [p_signer]. fold (pnum (y_p y)).
      split; [|repeat split; try lia; intros; congruence].
      constructor; cbn [y_p y_s y_reqs y_resps y_nonces p_signer p_id p_open].
      + exact H1.
      + exact H2.
      + exact H3.
      + intros r Hr. destruct (H4 r Hr). split; [assumption|now right].
      + intros n0 [= <-]. split; [now left|]. intros r Hr Hn. exfalso. apply Hok. rewrite <- Hn. now apply H4.
      + intros m Hm. right. now apply H6.
    - (* YGet *)
      destruct (p_get_request (y_p y)) as [m|] eqn:E.
      2: split; [exact HI|]; repeat split; try lia; intros; congruence.
      cbn [y_p y_s]. split; [|repeat split; try lia; intros; congruence].
      constructor; cbn [y_p y_s y_reqs y_resps y_nonces]; try assumption.
      intros m0 [<-|Hm]; [|now apply H6].
      unfold p_get_request in E. destruct (p_open (y_p y)) as [n|] eqn:Eo; [|discriminate]. inv E. cbn [m_nonce].
      now apply H5.
    - (* YSign *)
      cbn [op_ok] in Hok. destruct Hok as [Hforge Hov].
      destruct (s_process (y_s y) m ov) as [[s' r]|e] eqn:E.
      2: split; [exact HI|]; repeat split; try lia; intros; congruence.
      pose proof (signer_processes_only_signed_by_proxy _ _ _ _ _ E) as [Hby Hint].
      rewrite H2 in Hby. pose proof (Hforge Hby Hint) as Hin.
      pose proof (s_process_result _ _ _ _ _ E) as [Rn [Rb [Ri [Sid [Spr [Sta [Robj Snum]]]]]]].
      assert (Hgt : snum (y_s y) < snum s') by (unfold snum; rewrite Snum; now apply next_num_gt).
      assert (Hrn : rnum r = snum s') by (unfold rnum, snum; now rewrite Robj).
      cbn [y_p y_s]. split; [|split; [lia|split; [lia|split]]].
      + constructor; cbn [y_p y_s y_reqs y_resps y_nonces].
        * destruct H1 as [si [Hs Hid]]. exists si. split; [exact Hs|]. now rewrite Sid.
        * now rewrite Spr.
        * lia.
        * intros r0 [<-|Hr0].
          -- split; [lia|]. rewrite Rn. now apply H6.
          -- destruct (H4 r0 Hr0). split; [lia|assumption].
        * intros n Hn. destruct (H5 n Hn) as [Hnn Hrs]. split; [exact Hnn|].
          intros r0 [<-|Hr0] Hnon; [lia|now apply Hrs].
        * exact H6.
      + intros; congruence.
      + intros m0 ov0 s0 r0 [= <- <-] E0. rewrite E in E0. inv E0. auto.
    - (* YRespond *)
      cbn [op_ok] in Hok.
      destruct (p_step (y_p y) (PResponse m)) as [p'| |] eqn:E.
      2,3: split; [exact HI|]; repeat split; try lia; intros; congruence.
      assert (Ha : exists p', p_step (y_p y) (PResponse m) = POk p') by eauto.
      apply response_accepted_iff in Ha. destruct Ha as [n [si [Ho [Hn [Hs [Hby Hint]]]]]].
      destruct H1 as [si0 [Hs0 Hid0]]. rewrite Hs in Hs0. inv Hs0.
      rewrite Hid0 in Hby. pose proof (Hok Hby Hint) as Hin.
      destruct (H5 _ Ho) as [_ Hlt]. specialize (Hlt _ Hin eq_refl).
      pose proof (response_accepted_effect _ _ _ E) as [Eo [Ei [[si1 [Es1 Es2]] _]]].
      rewrite Hs in Es1. inv Es1.
      assert (Hpn : pnum p' = rnum m) by (unfold pnum, rnum; now rewrite Es2).
      cbn [y_p y_s]. split; [|split; [lia|split; [lia|split]]].
      + constructor; cbn [y_p y_s y_reqs y_resps y_nonces].
        * eexists. split; [exact Es2|exact Hid0].
        * now rewrite Ei.
        * rewrite Hpn. now apply H4.
        * exact H4.
        * rewrite Eo. discriminate.
        * exact H6.
      + intros m0 p0 [= <-] E0. rewrite E in E0. inv E0. split; [lia|exact Hin].
      + intros; congruence.
    - (* YChild *)
      destruct (child_call_frame (y_p y) c k r) as [F1 [F2 F3]].
      cbn [y_p y_s]. rewrite (pnum_frame _ _ F2).
      split; [now apply inv_frame|]. repeat split; try lia; intros; congruence.
    - (* YAddChild *)
      destruct (p_after_addchild_frame (y_p y) c id) as [F1 [F2 F3]].
      cbn [y_p y_s]. rewrite (pnum_frame _ _ F2).
      split; [now apply inv_frame|]. repeat split; try lia; intros; congruence.
  Qed.

  Lemma sys_run_app y a b : sys_run y (a ++ b) = sys_run (sys_run y a) b.
  Proof. revert y. induction a as [|o a IH]; intros y; cbn; [reflexivity|apply IH]. Qed.

  Lemma ops_ok_app y a b : ops_ok y (a ++ b) <-> ops_ok y a /\ ops_ok (sys_run y a) b.
  Proof. revert y. induction a as [|o a IH]; intros y; cbn; [tauto|]. rewrite IH. tauto. Qed.

  Lemma run_inv ops : forall y, Inv y -> ops_ok y ops ->
    Inv (sys_run y ops) /\ pnum (y_p y) <= pnum (y_p (sys_run y ops)) /\ snum (y_s y) <= snum (y_s (sys_run y ops)).
  Proof.
    induction ops as [|o ops IH]; intros y HI Hok; cbn.
    - split; [exact HI|split; lia].
    - destruct Hok as [Ho Hr]. destruct (sys_step_inv y o HI Ho) as [HI' [Hp [Hs _]]].
      destruct (IH _ HI' Hr) as [HI'' [Hp' Hs']]. split; [exact HI''|split; lia].
  Qed.

  (** ** The TA manifest / CRL number only ever increases, whatever messages are replayed, re-ordered,
         forged or cross-wired; it increases strictly with every accepted response (at the proxy) and
         with every processed request (at the signer). Hypotheses are those of [op_ok]: intact
         signatures of the two parties cannot be forged, nonces are fresh, and a forced manifest
         number is above the signer's current one. *)
  Theorem ta_numbers_increase y0 pre o post :
    sys_init y0 -> ops_ok y0 (pre ++ o :: post) ->
    let y := sys_run y0 pre in
    let y' := sys_step y o in
    pnum (y_p y0) <= pnum (y_p y) /\ snum (y_s y0) <= snum (y_s y)
    /\ pnum (y_p y) <= pnum (y_p y') /\ snum (y_s y) <= snum (y_s y')
    /\ pnum (y_p y') <= pnum (y_p (sys_run y0 (pre ++ o :: post)))
    /\ (forall m p', o = YRespond m -> p_step (y_p y) (PResponse m) = POk p' ->
          pnum (y_p y) < pnum p' /\ In m (y_resps y))
    /\ (forall m ov s' r, o = YSign m ov -> s_process (y_s y) m ov = Ok (s', r) ->
          snum (y_s y) < snum s' /\ rnum r = snum s' /\ In m (y_reqs y)).
  Proof.
    intros Hinit Hok y y'. apply ops_ok_app in Hok. destruct Hok as [Hpre [Ho Hpost]].
    destruct (run_inv pre y0 (init_inv _ Hinit) Hpre) as [HI [Hp Hs]].
    destruct (sys_step_inv _ o HI Ho) as [HI' [Hp' [Hs' [Hr Hq]]]].
    destruct (run_inv post _ HI' Hpost) as [_ [Hp'' _]].
    rewrite sys_run_app. cbn [TaSigner.sys_run]. fold y. fold y'.
    split; [exact Hp|]. split; [exact Hs|]. split; [exact Hp'|]. split; [exact Hs'|]. split; [exact Hp''|].
    split; [exact Hr|exact Hq].
  Qed.
End Proofs.

(** * Any two validation functions that agree pointwise give the same model *)
Section Ext.
  Variables v1 v2 : forall C : Type, N -> msg C -> bool.
  Hypothesis Hext : forall C k m, v1 C k m = v2 C k m.

  Lemma p_process_ext p c : p_process v1 p c = p_process v2 p c.
  Proof. destruct c; cbn [p_process]; try reflexivity. destruct (p_open p); [|reflexivity]. destruct (negb _); [reflexivity|]. destruct (p_signer p); [|reflexivity]. now rewrite Hext. Qed.
  Lemma p_step_ext p c : p_step v1 p c = p_step v2 p c.
  Proof. unfold p_step. now rewrite p_process_ext. Qed.
  Lemma p_after_ext p c : p_after v1 p c = p_after v2 p c.
  Proof. unfold p_after. now rewrite p_step_ext. Qed.
  Lemma child_call_ext p c k r : child_call v1 p c k r = child_call v2 p c k r.
  Proof. unfold child_call. now rewrite !p_step_ext. Qed.
  Lemma s_process_ext s m ov : s_process v1 s m ov = s_process v2 s m ov.
  Proof. unfold s_process. now rewrite Hext. Qed.
  Lemma sys_step_ext y o : sys_step v1 y o = sys_step v2 y o.
  Proof. destruct o; cbn [sys_step]; now rewrite ?p_step_ext, ?s_process_ext, ?child_call_ext, ?p_after_ext. Qed.
  Lemma sys_run_ext ops : forall y, sys_run v1 y ops = sys_run v2 y ops.
  Proof. induction ops as [|o ops IH]; intros y; cbn [sys_run]; [reflexivity|]. now rewrite sys_step_ext, IH. Qed.
  Lemma ops_ok_ext ops : forall y, ops_ok v1 y ops <-> ops_ok v2 y ops.
  Proof. induction ops as [|o ops IH]; intros y; cbn [ops_ok]; [tauto|]. now rewrite sys_step_ext, IH. Qed.
End Ext.

Lemma validate_std_sound : forall (C : Type) (k : N) (m : msg C),
  validate_std C k m = true <-> m_by m = k /\ m_intact m = true.
Proof. intros C k m. unfold validate_std. rewrite andb_true_iff, N.eqb_eq. tauto. Qed.

Lemma sound_is_std (validate : forall C : Type, N -> msg C -> bool) :
  (forall (C : Type) (k : N) (m : msg C), validate C k m = true <-> m_by m = k /\ m_intact m = true) ->
  forall C k m, validate C k m = validate_std C k m.
Proof.
  intros Hs C k m. destruct (validate C k m) eqn:E1, (validate_std C k m) eqn:E2; try reflexivity.
  - apply Hs in E1. apply validate_std_sound in E1. congruence.
  - apply validate_std_sound in E2. apply Hs in E2. congruence.
Qed.

Lemma NoDup_app_disj {A} (a b : list A) x : NoDup (a ++ b) -> In x a -> ~ In x b.
Proof.
  induction a as [|y a IH]; cbn; [intros _ []|].
  intros H [->|Hin] Hb.
  - inversion H as [|? ? Hni _]; subst. apply Hni. apply in_or_app. now right.
  - inversion H; subst. now apply IH.
Qed.

Lemma NoDup_app_left {A} (a b : list A) : NoDup (a ++ b) -> NoDup a.
Proof.
  induction a as [|x a IH]; cbn; intros H; [constructor|].
  inversion H as [|? ? Hni Hnd]; subst. constructor; [|now apply IH].
  intros Hin. apply Hni. apply in_or_app. now left.
Qed.
Lemma NoDup_app_right {A} (a b : list A) : NoDup (a ++ b) -> NoDup b.
Proof. induction a as [|x a IH]; cbn; intros H; [exact H|]. inversion H; subst. now apply IH. Qed.

Section Completes.
  Variable validate : forall C : Type, N -> msg C -> bool.
  Hypothesis sig_sound : forall (C : Type) (k : N) (m : msg C),
    validate C k m = true <-> m_by m = k /\ m_intact m = true.

  (** ** "An open signer request can always be completed" against an ARBITRARY environment: full
         statement, refuted. (With the admission rule of the pinned tree it was refuted already by a
         second revocation of a revoked key, finding F15b, now fixed: [second_revocation_wedged_pinned].) *)
  Definition exchange_completes_any_env : Prop :=
    forall y0 ops, sys_init y0 -> p_children (y_p y0) = [] -> ops_ok validate y0 ops ->
      let y := sys_run validate y0 ops in
      forall req, p_get_request (y_p y) = Some req ->
        (exists r p', In r (y_resps y) /\ p_step validate (y_p y) (PResponse r) = POk p')
        \/ (exists s' resp p', s_process validate (y_s y) req None = Ok (s', resp)
                               /\ p_step validate (y_p y) (PResponse resp) = POk p').

  (** Residual obstacle (the signer keeps no memory of nonces): the signer answers TWO versions of the
      request with nonce 2 -- one fetched before child 10 asked for the revocation of key 100, one after --
      and the OLDER answer is handed to the proxy. The signer has dropped the certificate of key 100, the
      proxy still has the revocation request open and key 100 in use; the next request (nonce 3) fails at
      the signer for ever, and no answer with nonce 3 exists. Nothing is forged, nonces are fresh. *)
  Definition desync_y0 : sys :=
    mkSys (mkProxy 1 (Some (mkSI 2 9 (mkObjs 1 []))) [] None) (mkSigner 2 1 9 (mkObjs 1 [])) [] [] [].
  Definition rq_issue : creq := mkReq KIssue 1 true.
  Definition rq_revoke : creq := mkReq KRevoke 0 true.
  Definition desync_ops : list sysop :=
    [ YAddChild 10 7; YChild 10 100 rq_issue; YMake 1; YGet;
      YSign (mkMsg 1 1 true [(10, [(100, rq_issue)])]) None;
      YRespond (mkMsg 1 2 true (mkResp (mkObjs 2 [100]) [(10, [(100, RIssued 1)])]));
      YChild 10 100 rq_issue;                                  (* key 100 certified and handed over *)
      YMake 2; YGet;
      YSign (mkMsg 2 1 true []) None;                          (* answer A: nothing to do *)
      YChild 10 100 rq_revoke; YGet;                           (* the revocation request arrives *)
      YSign (mkMsg 2 1 true [(10, [(100, rq_revoke)])]) None;  (* answer B: key 100 revoked at the signer *)
      YRespond (mkMsg 2 2 true (mkResp (mkObjs 3 [100]) []));  (* answer A is handed to the proxy *)
      YMake 3 ].

  Lemma desync_ops_ok : ops_ok validate_std desync_y0 desync_ops.
  Proof.
    vm_compute. repeat split; try exact I; try lia; try discriminate; intros; try tauto; try discriminate.
    all: try (intros [H|H]; [discriminate|tauto]).
  Qed.

  Theorem exchange_completes_any_env_refuted : ~ exchange_completes_any_env.
  Proof.
    intros H.
    assert (Hext := sound_is_std validate sig_sound).
    specialize (H desync_y0 desync_ops).
    assert (Hinit : sys_init desync_y0).
    { unfold sys_init, desync_y0. cbn. repeat split; try reflexivity; try discriminate. eexists. repeat split. }
    assert (Hok : ops_ok validate desync_y0 desync_ops).
    { apply (ops_ok_ext validate validate_std Hext). exact desync_ops_ok. }
    specialize (H Hinit eq_refl Hok). cbv zeta in H.
    rewrite (sys_run_ext validate validate_std Hext) in H.
    destruct (H (mkMsg 3 1 true [(10, [(100, rq_revoke)])]) eq_refl) as [[r [p' [Hin Hp]]]|[s' [resp [p' [Hs _]]]]].
    - rewrite (p_step_ext validate validate_std Hext) in Hp.
      vm_compute in Hin. destruct Hin as [<-|[<-|[<-|[]]]]; vm_compute in Hp; discriminate.
    - rewrite (s_process_ext validate validate_std Hext) in Hs. vm_compute in Hs. discriminate.
  Qed.

  (** In that state no new request can be made either. *)
  Theorem desync_no_new_request :
    let y := sys_run validate_std desync_y0 desync_ops in
    p_open (y_p y) = Some 3
    /\ s_process validate_std (y_s y) (mkMsg 3 1 true (current_requests (y_p y))) None = Err SUnknownKey
    /\ forall n, p_step validate_std (y_p y) (PMake n) = PErr EHasRequest.
  Proof. vm_compute. auto. Qed.

  (** ** One exchange: it completes unless some open revocation names a key the signer holds no certificate for *)
  Definition all_keys (l : request) : list N := flat_map (fun e => map fst (snd e)) l.

  (** Some open revocation names a key for which the signer holds no certificate. *)
  Definition Known_C15 (p : proxy) (s : signer) : Prop :=
    exists c k r, open_req p c k = Some r /\ rq_kind r = KRevoke /\ ~ In k (o_issued (s_objs s)).

  Lemma process_reqs_ok l : forall iss,
    NoDup (map fst l) ->
    (forall k r, In (k, r) l -> rq_wf r = true /\ (rq_kind r = KRevoke -> In k iss)) ->
    exists iss' rs, process_reqs iss l = Ok (iss', rs)
                    /\ forall x, ~ In x (map fst l) -> (In x iss' <-> In x iss).
  Proof.
    induction l as [|[k r] l IH]; intros iss Hnd Hall; cbn [process_reqs].
    - exists iss, []. split; [reflexivity|tauto].
    - cbn [map fst] in Hnd. inversion Hnd as [|? ? Hni Hnd']; subst.
      destruct (Hall k r (or_introl eq_refl)) as [Hwf Hrev]. rewrite Hwf. cbn [negb].
      destruct (rq_kind r) eqn:Ek.
      + destruct (IH (add_issued k iss) Hnd') as [iss' [rs [E Hfr]]].
        { intros k' r' Hin. destruct (Hall k' r' (or_intror Hin)) as [W R]. split; [exact W|].
          intros Hk. apply In_add_issued. right. now apply R. }
        rewrite E. exists iss', ((k, answer r) :: rs). split; [reflexivity|].
        intros x Hx. cbn [map fst In] in Hx. rewrite Hfr by tauto. rewrite In_add_issued. split; [intros [->|?]; tauto|tauto].
      + assert (Hm : memb k iss = true) by (apply memb_In; now apply Hrev). rewrite Hm.
        destruct (IH (remove_key k iss) Hnd') as [iss' [rs [E Hfr]]].
        { intros k' r' Hin. destruct (Hall k' r' (or_intror Hin)) as [W R]. split; [exact W|].
          intros Hk. apply In_remove_key. split; [now apply R|].
          intros ->. apply Hni. change k with (fst (k, r')). now apply in_map. }
        rewrite E. exists iss', ((k, answer r) :: rs). split; [reflexivity|].
        intros x Hx. cbn [map fst In] in Hx. rewrite Hfr by tauto. rewrite In_remove_key. split; [tauto|]. intros Hin. split; [exact Hin|]. intros ->. tauto.
  Qed.

  Lemma process_children_ok l : forall iss,
    NoDup (all_keys l) ->
    (forall c reqs k r, In (c, reqs) l -> In (k, r) reqs -> rq_wf r = true /\ (rq_kind r = KRevoke -> In k iss)) ->
    exists x, process_children iss l = Ok x.
  Proof.
    induction l as [|[c reqs] l IH]; intros iss Hnd Hall; cbn [process_children]; [eauto|].
    unfold all_keys in Hnd. cbn [flat_map snd] in Hnd. fold (all_keys l) in Hnd.
    destruct (process_reqs_ok reqs iss) as [iss1 [rs [E Hfr]]].
    { eapply NoDup_app_left. exact Hnd. }
    { intros k r Hin. eapply Hall; [left; reflexivity|exact Hin]. }
    rewrite E.
    destruct (IH iss1) as [[iss2 crs] E2].
    { eapply NoDup_app_right. exact Hnd. }
    { intros c' reqs' k r Hin Hk. destruct (Hall c' reqs' k r (or_intror Hin) Hk) as [W R]. split; [exact W|].
      intros Hr. apply Hfr; [|now apply R].
      intros Hin1. eapply (NoDup_app_disj _ _ k Hnd Hin1).
      unfold all_keys. apply in_flat_map. exists (c', reqs'). split; [exact Hin|]. cbn [snd].
      change k with (fst (k, r)). now apply in_map. }
    rewrite E2. eauto.
  Qed.

  (** Every stored child request passed the admission checks (invariant of the proxy). *)
  Definition reqs_wf (p : proxy) : Prop := forall c k r, open_req p c k = Some r -> rq_wf r = true.

  Theorem reqs_wf_step p c p' : reqs_wf p -> p_step validate p c = POk p' -> reqs_wf p'.
  Proof.
    intros Hw H. destruct c.
    - unfold p_step, p_process in H. destruct (p_signer p); [discriminate|]. cbn in H. inv H. exact Hw.
    - unfold p_step, p_process in H. destruct (p_signer p) as [s0|]; [|discriminate].
      destruct (si_ta s0 =? si_ta si); [|discriminate]. cbn in H. inv H. exact Hw.
    - unfold p_step, p_process in H. destruct (p_open p); [discriminate|]. cbn in H. inv H. exact Hw.
    - apply (response_accepted_effect validate) in H. destruct H as [_ [_ [_ Hc]]].
      intros c k r. unfold open_req. rewrite Hc.
      destruct (aget c (apply_resp_children _ _)) as [ch'|] eqn:E; [|discriminate].
      apply apply_resp_children_char in E. destruct E as [ch [E1 E2]]. intros Hk. apply E2 in Hk.
      apply (Hw c k r). unfold open_req. now rewrite E1.
    - unfold p_step, p_process in H. destruct (aget c (p_children p)) eqn:Ec; [discriminate|]. cbn in H. inv H.
      intros c' k r. unfold open_req. cbn [p_children].
      destruct (N.eq_dec c' c) as [->|Hne].
      + rewrite aget_aput_same. cbn. discriminate.
      + rewrite aget_aput_other by exact Hne. apply (Hw c' k r).
    - unfold p_step, p_process in H. destruct (aget c (p_children p)) as [ch|] eqn:Ec; [|discriminate].
      destruct (rq_wf r) eqn:Ewf; cbn [negb] in H; [|discriminate].
      assert (Hp' : p' = mkProxy (p_id p) (p_signer p)
                (aput c (mkChild (tc_id ch) (tc_used ch) (aput k r (tc_reqs ch)) (tc_resps ch)) (p_children p)) (p_open p)).
      { destruct (rq_kind r); [|destruct (revoke_admitted (aget k (tc_used ch))); [|discriminate]]; cbn in H; rewrite Ec in H; now inv H. }
      subst p'. intros c' k' r'. unfold open_req. cbn [p_children].
      destruct (N.eq_dec c' c) as [->|Hne].
      + rewrite aget_aput_same. cbn [tc_reqs].
        destruct (N.eq_dec k' k) as [->|Hnk].
        * rewrite aget_aput_same. now intros [= <-].
        * rewrite aget_aput_other by exact Hnk. intros Hk. apply (Hw c k' r'). unfold open_req. now rewrite Ec.
      + rewrite aget_aput_other by exact Hne. apply (Hw c' k' r').
    - unfold p_step, p_process in H. destruct (aget c (p_children p)) as [ch|] eqn:Ec; [|discriminate].
      destruct (aget k (tc_resps ch)); [|discriminate]. cbn in H. rewrite Ec in H. inv H.
      intros c' k' r'. unfold open_req. cbn [p_children].
      destruct (N.eq_dec c' c) as [->|Hne].
      + rewrite aget_aput_same. cbn [tc_reqs]. intros Hk. apply (Hw c k' r'). unfold open_req. now rewrite Ec.
      + rewrite aget_aput_other by exact Hne. apply (Hw c' k' r').
  Qed.

  Theorem exchange_completes_except_known p s n :
    p_open p = Some n ->
    (exists si, p_signer p = Some si /\ si_id si = s_id s) -> s_proxy s = p_id p ->
    wf_proxy p ->
    reqs_wf p ->
    NoDup (all_keys (current_requests p)) ->            (* distinct children use distinct keys *)
    ~ Known_C15 p s ->
    exists req s' resp p', p_get_request p = Some req
      /\ s_process validate s req None = Ok (s', resp)
      /\ p_step validate p (PResponse resp) = POk p' /\ p_open p' = None.
  Proof.
    intros Ho [si [Hsi Hid]] Hpr [Hnd Hndk] Hwf Hkeys Hnk.
    unfold p_get_request. rewrite Ho. eexists. 
    assert (Hreqs : forall c reqs k r, In (c, reqs) (current_requests p) -> In (k, r) reqs -> open_req p c k = Some r).
    { intros c reqs k r Hin Hk. unfold current_requests in Hin. apply filter_In in Hin. destruct Hin as [Hin _].
      apply in_map_iff in Hin. destruct Hin as [[c' ch] [[= <- <-] Hin]]. cbn [fst snd] in *.
      unfold open_req. rewrite (In_aget_nodup _ _ _ Hnd Hin).
      apply In_aget_nodup; [|exact Hk]. eapply Hndk; eauto. }
    destruct (process_children_ok (current_requests p) (o_issued (s_objs s)) Hkeys) as [[iss crs] Hpc].
    { intros c reqs k r Hin Hk. pose proof (Hreqs _ _ _ _ Hin Hk) as Hor. split; [eauto|].
      intros Hrev. destruct (in_dec N.eq_dec k (o_issued (s_objs s))) as [Hi|Hi]; [exact Hi|].
      exfalso. apply Hnk. exists c, k, r. auto. }
    assert (Hv : validate request (s_proxy s) (mkMsg n (p_id p) true (current_requests p)) = true).
    { apply sig_sound. cbn. auto. }
    unfold s_process. rewrite Hv. cbn [m_content m_nonce]. rewrite Hpc.
    do 2 eexists.
    assert (Hacc : exists p', p_step validate p (PResponse (mkMsg n (s_id s) true
                      (mkResp (mkObjs (next_num (o_num (s_objs s)) None) iss) crs))) = POk p').
    { apply (response_accepted_iff validate sig_sound). exists n, si. cbn. auto. }
    destruct Hacc as [p' Hp']. exists p'. split; [reflexivity|]. split; [reflexivity|]. split; [exact Hp'|].
    now apply (response_accepted_effect validate) in Hp'.
  Qed.
End Completes.

(** * Disciplined operation: the exchange always completes *)
Lemma NoDup_app_intro {A} (a b : list A) : NoDup a -> NoDup b -> (forall x, In x a -> ~ In x b) -> NoDup (a ++ b).
Proof.
  induction a as [|y a IH]; cbn; intros Ha Hb Hd; [exact Hb|].
  inversion Ha as [|? ? Hni Hnd]; subst. constructor.
  - intros Hin. apply in_app_or in Hin. destruct Hin as [Hin|Hin]; [contradiction|].
    exact (Hd y (or_introl eq_refl) Hin).
  - apply IH; [assumption|assumption|]. intros x Hx. apply Hd. now right.
Qed.

Lemma all_keys_flat l : all_keys l = map fst (flat_map snd l).
Proof. unfold all_keys. induction l as [|[c reqs] l IH]; cbn; [reflexivity|]. now rewrite map_app, IH. Qed.

Lemma process_reqs_app a : forall iss b,
  process_reqs iss (a ++ b) =
  match process_reqs iss a with
  | Ok (i1, r1) => match process_reqs i1 b with Ok (i2, r2) => Ok (i2, r1 ++ r2) | Err e => Err e end
  | Err e => Err e
  end.
Proof.
  induction a as [|[k r] a IH]; intros iss b; cbn [app process_reqs].
  - destruct (process_reqs iss b) as [[i2 r2]|]; reflexivity.
  - destruct (negb (rq_wf r)); [reflexivity|].
    destruct (rq_kind r).
    + rewrite IH. destruct (process_reqs (add_issued k iss) a) as [[i1 r1]|]; [|reflexivity].
      destruct (process_reqs i1 b) as [[i2 r2]|]; reflexivity.
    + destruct (memb k iss); [|reflexivity].
      rewrite IH. destruct (process_reqs (remove_key k iss) a) as [[i1 r1]|]; [|reflexivity].
      destruct (process_reqs i1 b) as [[i2 r2]|]; reflexivity.
Qed.

Lemma process_children_flat l : forall iss iss' crs,
  process_children iss l = Ok (iss', crs) -> exists rs, process_reqs iss (flat_map snd l) = Ok (iss', rs).
Proof.
  induction l as [|[c reqs] l IH]; intros iss iss' crs; cbn [process_children flat_map snd].
  - intros [= <- <-]. cbn. eauto.
  - destruct (process_reqs iss reqs) as [[i1 rs1]|] eqn:E1; [|discriminate].
    destruct (process_children i1 l) as [[i2 crs2]|] eqn:E2; [|discriminate].
    intros [= <- <-]. destruct (IH _ _ _ E2) as [rs2 E3].
    rewrite process_reqs_app, E1, E3. eauto.
Qed.

(** The keys that hold a certificate after a processed request. *)
Lemma process_reqs_issued l : forall iss iss' rs,
  NoDup (map fst l) -> process_reqs iss l = Ok (iss', rs) ->
  forall x, In x iss' <-> match aget x l with Some r => rq_kind r = KIssue | None => In x iss end.
Proof.
  induction l as [|[k r] l IH]; intros iss iss' rs Hnd; cbn [process_reqs aget].
  - intros [= <- <-] x. tauto.
  - cbn [map fst] in Hnd. inversion Hnd as [|? ? Hni Hnd']; subst.
    destruct (negb (rq_wf r)); [discriminate|].
    destruct (rq_kind r) eqn:Ek.
    + destruct (process_reqs (add_issued k iss) l) as [[i2 rs2]|] eqn:E; [|discriminate].
      intros [= <- <-] x. rewrite (IH _ _ _ Hnd' E x).
      destruct (k =? x) eqn:Ex.
      * apply N.eqb_eq in Ex. subst x. apply aget_None_notin in Hni. rewrite Hni, In_add_issued. tauto.
      * apply N.eqb_neq in Ex. destruct (aget x l); [tauto|]. rewrite In_add_issued. split; [intros [->|?]; tauto|tauto].
    + destruct (memb k iss); [|discriminate].
      destruct (process_reqs (remove_key k iss) l) as [[i2 rs2]|] eqn:E; [|discriminate].
      intros [= <- <-] x. rewrite (IH _ _ _ Hnd' E x).
      destruct (k =? x) eqn:Ex.
      * apply N.eqb_eq in Ex. subst x. apply aget_None_notin in Hni. rewrite Hni, In_remove_key.
        split; [tauto|congruence].
      * apply N.eqb_neq in Ex. destruct (aget x l); [tauto|]. rewrite In_remove_key. split; [tauto|].
        intros H. split; [exact H|]. intros ->. congruence.
Qed.

(** What the answers do to the used-key states of a child. *)
Definition used_after (a : cresp) (old : option ustate) : option ustate :=
  match a with RIssued _ => Some InUse | RRevoked => Some Revoked | RError => old end.

Lemma apply_child_resps_used_other l : forall ch k,
  ~ In k (map fst l) -> aget k (tc_used (apply_child_resps ch l)) = aget k (tc_used ch).
Proof.
  unfold apply_child_resps. induction l as [|[k0 a0] l IH]; intros ch k Hni; cbn [fold_left]; [reflexivity|].
  cbn [map fst In] in Hni. rewrite IH by tauto. unfold apply_child_resp. cbn [tc_used fst snd].
  destruct a0; try reflexivity; apply aget_aput_other; intros ->; tauto.
Qed.

Lemma apply_child_resps_used_in l : forall ch k a,
  NoDup (map fst l) -> In (k, a) l ->
  aget k (tc_used (apply_child_resps ch l)) = used_after a (aget k (tc_used ch)).
Proof.
  induction l as [|[k0 a0] l IH]; intros ch k a Hnd Hin; [destruct Hin|].
  cbn [map fst] in Hnd. inversion Hnd as [|? ? Hni Hnd']; subst.
  change (apply_child_resps ch ((k0, a0) :: l)) with (apply_child_resps (apply_child_resp ch (k0, a0)) l).
  destruct Hin as [[= -> ->]|Hin].
  - rewrite apply_child_resps_used_other by exact Hni.
    unfold apply_child_resp. cbn [tc_used fst snd]. destruct a; cbn [used_after]; try apply aget_aput_same. reflexivity.
  - rewrite (IH _ k a Hnd' Hin). f_equal.
    unfold apply_child_resp. cbn [tc_used fst snd].
    assert (Hne : k <> k0). { intros ->. apply Hni. change k0 with (fst (k0, a)). now apply in_map. }
    destruct a0; try reflexivity; now apply aget_aput_other.
Qed.

Definition kind_used (r : creq) : ustate := match rq_kind r with KIssue => InUse | KRevoke => Revoked end.

Lemma answered_child ch k :
  NoDup (map fst (tc_reqs ch)) ->
  let ch1 := apply_child_resps ch (answers (tc_reqs ch)) in
  aget k (tc_reqs ch1) = None
  /\ aget k (tc_used ch1) = match aget k (tc_reqs ch) with Some r => Some (kind_used r) | None => aget k (tc_used ch) end.
Proof.
  intros Hnd ch1. split.
  - subst ch1. rewrite apply_child_resps_reqs, answers_keys.
    destruct (memb k (map fst (tc_reqs ch))) eqn:E; [reflexivity|].
    apply aget_None_notin. intros Hin. apply memb_In in Hin. congruence.
  - subst ch1. destruct (aget k (tc_reqs ch)) as [r|] eqn:E.
    + rewrite (apply_child_resps_used_in (answers (tc_reqs ch)) ch k (answer r)).
      * unfold answer, kind_used. now destruct (rq_kind r).
      * now rewrite answers_keys.
      * unfold answers. apply in_map_iff. exists (k, r). split; [reflexivity|]. now apply aget_In.
    + apply apply_child_resps_used_other. rewrite answers_keys. now apply aget_None_notin.
Qed.

Lemma exchange_children p c :
  NoDup (map fst (p_children p)) ->
  aget c (apply_resp_children (p_children p) (child_answers (current_requests p))) =
  match aget c (p_children p) with
  | None => None
  | Some ch => Some (apply_child_resps ch (answers (tc_reqs ch)))
  end.
Proof.
  intros Hnd. destruct (aget c (p_children p)) as [ch|] eqn:Hc.
  - destruct (tc_reqs ch) as [|kr0 reqs0] eqn:Hreqs.
    + rewrite apply_resp_children_other, Hc; [reflexivity|].
      rewrite child_answers_keys. intros Hin. apply in_map_iff in Hin. destruct Hin as [[c1 l1] [Hc1 Hin]].
      cbn [fst] in Hc1. subst c1. unfold current_requests in Hin. apply filter_In in Hin. destruct Hin as [Hin Hne].
      apply in_map_iff in Hin. destruct Hin as [[c2 ch2] [[= <- <-] Hin]].
      apply In_aget_nodup in Hin; [|exact Hnd]. rewrite Hc in Hin. inv Hin. cbn [snd] in Hne. now rewrite Hreqs in Hne.
    + rewrite <- Hreqs. apply apply_resp_children_in; auto.
      * rewrite child_answers_keys. now apply current_requests_nodup.
      * unfold child_answers. apply in_map_iff. exists (c, tc_reqs ch). split; [reflexivity|].
        unfold current_requests. apply filter_In. split.
        -- apply in_map_iff. exists (c, ch). split; [reflexivity|]. now apply aget_In.
        -- cbn [snd]. now rewrite Hreqs.
  - rewrite apply_resp_children_other, Hc; [reflexivity|].
    rewrite child_answers_keys. intros Hin. apply current_requests_keys in Hin.
    apply aget_None_notin in Hc. contradiction.
Qed.

Lemma current_requests_In p c reqs :
  NoDup (map fst (p_children p)) -> In (c, reqs) (current_requests p) ->
  exists ch, aget c (p_children p) = Some ch /\ tc_reqs ch = reqs.
Proof.
  intros Hnd Hin. unfold current_requests in Hin. apply filter_In in Hin. destruct Hin as [Hin _].
  apply in_map_iff in Hin. destruct Hin as [[c' ch] [[= <- <-] Hin]]. cbn [fst snd].
  exists ch. split; [now apply In_aget_nodup|reflexivity].
Qed.

Section Disciplined.
  Variable validate : forall C : Type, N -> msg C -> bool.
  Hypothesis sig_sound : forall (C : Type) (k : N) (m : msg C),
    validate C k m = true <-> m_by m = k /\ m_intact m = true.
  Variable owner : N -> N.          (* every child key identifier belongs to one child *)

  Record HInv (y : sys) : Prop := mkHInv {
    h_assoc : exists si, p_signer (y_p y) = Some si /\ si_id si = s_id (y_s y) /\ si_objs si = s_objs (y_s y);
    h_proxy : s_proxy (y_s y) = p_id (y_p y);
    h_wf : wf_proxy (y_p y);
    h_reqs : reqs_wf (y_p y);
    h_owner : forall c ch k, aget c (p_children (y_p y)) = Some ch ->
                aget k (tc_used ch) <> None \/ aget k (tc_reqs ch) <> None -> owner k = c;
    h_used : forall c ch k, aget c (p_children (y_p y)) = Some ch ->
                aget k (tc_used ch) = Some InUse -> In k (o_issued (s_objs (y_s y)));
    h_rev : forall c ch k r, aget c (p_children (y_p y)) = Some ch ->
                aget k (tc_reqs ch) = Some r -> rq_kind r = KRevoke -> aget k (tc_used ch) = Some InUse;
    h_resps : forall r, In r (y_resps y) -> In (m_nonce r) (y_nonces y);
    h_open : forall n, p_open (y_p y) = Some n ->
                In n (y_nonces y) /\ forall r, In r (y_resps y) -> m_nonce r <> n }.

  Lemma hinit y : sys_init y -> p_children (y_p y) = [] -> HInv y.
  Proof.
    intros [[si [Hs [Hid Hobjs]]] [Hp [_ [Ho [Hq [Hr Hn]]]]]] Hch. constructor.
    - eauto.
    - exact Hp.
    - split; rewrite Hch; cbn; [constructor|intros c ch []].
    - intros c k r. unfold open_req. rewrite Hch. discriminate.
    - intros c ch k. rewrite Hch. discriminate.
    - intros c ch k. rewrite Hch. discriminate.
    - intros c ch k r. rewrite Hch. discriminate.
    - rewrite Hr. intros r [].
    - rewrite Ho. discriminate.
  Qed.

  (** The keys of the current request are pairwise distinct. *)
  Lemma owner_nodup (l : request) :
    NoDup (map fst l) ->
    (forall c reqs, In (c, reqs) l -> NoDup (map fst reqs) /\ forall k, In k (map fst reqs) -> owner k = c) ->
    NoDup (all_keys l).
  Proof.
    unfold all_keys. induction l as [|[c reqs] l IH]; cbn [map fst flat_map snd]; intros Hnd Hall; [constructor|].
    inversion Hnd as [|? ? Hni Hnd']; subst.
    destruct (Hall c reqs (or_introl eq_refl)) as [Hk Ho].
    apply NoDup_app_intro; [exact Hk| |].
    - apply IH; [exact Hnd'|]. intros c' reqs' Hin. apply Hall. now right.
    - intros k Hin Hin2. apply in_flat_map in Hin2. destruct Hin2 as [[c' reqs'] [Hin' Hk']]. cbn [snd] in Hk'.
      destruct (Hall c' reqs' (or_intror Hin')) as [_ Ho'].
      assert (c' = c) by (rewrite <- (Ho k Hin), <- (Ho' k Hk'); reflexivity). subst c'.
      apply Hni. change c with (fst (c, reqs')). now apply in_map.
  Qed.

  Lemma hinv_keys y : HInv y -> NoDup (all_keys (current_requests (y_p y))).
  Proof.
    intros HI. destruct (h_wf _ HI) as [Hnd Hndk]. apply owner_nodup.
    - now apply current_requests_nodup.
    - intros c reqs Hin. destruct (current_requests_In _ _ _ Hnd Hin) as [ch [Hc <-]]. split.
      + eapply Hndk. eapply aget_In. exact Hc.
      + intros k Hk. eapply (h_owner _ HI); [exact Hc|]. right. intros Hn. apply aget_None_notin in Hn. contradiction.
  Qed.

  Lemma hinv_not_known y : HInv y -> ~ Known_C15 (y_p y) (y_s y).
  Proof.
    intros HI [c [k [r [Hr [Hk Hni]]]]]. unfold open_req in Hr.
    destruct (aget c (p_children (y_p y))) as [ch|] eqn:Hc; [|discriminate].
    apply Hni. eapply (h_used _ HI); [exact Hc|]. eapply (h_rev _ HI); eauto.
  Qed.

  (** ** Under disciplined operation an open request is always answered by one honest exchange. *)
  Theorem hinv_completes y n :
    HInv y -> p_open (y_p y) = Some n ->
    exists req s' resp p', p_get_request (y_p y) = Some req
      /\ s_process validate (y_s y) req None = Ok (s', resp)
      /\ p_step validate (y_p y) (PResponse resp) = POk p' /\ p_open p' = None.
  Proof.
    intros HI Ho. destruct (h_assoc _ HI) as [si [Hs [Hid _]]].
    eapply exchange_completes_except_known; eauto using h_proxy, h_wf, h_reqs, hinv_keys, hinv_not_known.
  Qed.
  (** *** The invariant is kept by every disciplined operation *)
  Lemma hinv_ext y y' :
    y_p y' = y_p y -> y_s y' = y_s y -> y_resps y' = y_resps y -> y_nonces y' = y_nonces y -> HInv y -> HInv y'.
  Proof.
    destruct y, y'. cbn. intros -> -> -> -> [H1 H2 H3 H4 H5 H6 H7 H8 H9]. constructor; assumption.
  Qed.

  Lemma In_aget_some {V} k (v : V) l : In (k, v) l -> aget k l <> None.
  Proof. intros Hin Hn. apply aget_None_notin in Hn. apply Hn. change k with (fst (k, v)). now apply in_map. Qed.

  (** Children part of the invariant, and how it survives the update of one child. *)
  Definition CInv (chs : list (N * tchild)) (iss : list N) : Prop :=
    (forall c ch k, aget c chs = Some ch -> aget k (tc_used ch) <> None \/ aget k (tc_reqs ch) <> None -> owner k = c)
    /\ (forall c ch k, aget c chs = Some ch -> aget k (tc_used ch) = Some InUse -> In k iss)
    /\ (forall c ch k r, aget c chs = Some ch -> aget k (tc_reqs ch) = Some r -> rq_kind r = KRevoke -> aget k (tc_used ch) = Some InUse).

  Lemma cinv_update chs iss c ch' :
    CInv chs iss ->
    (forall k, aget k (tc_used ch') <> None \/ aget k (tc_reqs ch') <> None -> owner k = c) ->
    (forall k, aget k (tc_used ch') = Some InUse -> In k iss) ->
    (forall k r, aget k (tc_reqs ch') = Some r -> rq_kind r = KRevoke -> aget k (tc_used ch') = Some InUse) ->
    CInv (aput c ch' chs) iss.
  Proof.
    intros [C1 [C2 C3]] N1 N2 N3. repeat split.
    - intros c0 ch0 k Hc. destruct (N.eq_dec c0 c) as [->|Hne].
      + rewrite aget_aput_same in Hc. inv Hc. apply N1.
      + rewrite aget_aput_other in Hc by exact Hne. now apply C1.
    - intros c0 ch0 k Hc. destruct (N.eq_dec c0 c) as [->|Hne].
      + rewrite aget_aput_same in Hc. inv Hc. apply N2.
      + rewrite aget_aput_other in Hc by exact Hne. now apply (C2 c0).
    - intros c0 ch0 k r Hc. destruct (N.eq_dec c0 c) as [->|Hne].
      + rewrite aget_aput_same in Hc. inv Hc. apply N3.
      + rewrite aget_aput_other in Hc by exact Hne. now apply (C3 c0).
  Qed.

  Lemma hinv_cinv y : HInv y -> CInv (p_children (y_p y)) (o_issued (s_objs (y_s y))).
  Proof. intros HI. repeat split; [apply (h_owner _ HI)|apply (h_used _ HI)|apply (h_rev _ HI)]. Qed.

  (** A proxy step that only touches children keeps the invariant if the children part is kept. *)
  Lemma hinv_children_step y c p' :
    HInv y -> p_step validate (y_p y) c = POk p' ->
    p_id p' = p_id (y_p y) -> p_signer p' = p_signer (y_p y) -> p_open p' = p_open (y_p y) ->
    CInv (p_children p') (o_issued (s_objs (y_s y))) ->
    HInv (mkSys p' (y_s y) (y_reqs y) (y_resps y) (y_nonces y)).
  Proof.
    intros HI Hst Hi Hs Ho [C1 [C2 C3]]. constructor; cbn [y_p y_s y_reqs y_resps y_nonces].
    - rewrite Hs. apply (h_assoc _ HI).
    - rewrite Hi. apply (h_proxy _ HI).
    - eapply wf_proxy_step; [apply (h_wf _ HI)|exact Hst].
    - eapply reqs_wf_step; [apply (h_reqs _ HI)|exact Hst].
    - exact C1.
    - exact C2.
    - exact C3.
    - apply (h_resps _ HI).
    - rewrite Ho. apply (h_open _ HI).
  Qed.

  Lemma p_step_addreq p c k r p' :
    p_step validate p (PAddReq c k r) = POk p' ->
    exists ch, aget c (p_children p) = Some ch
      /\ p' = mkProxy (p_id p) (p_signer p) (aput c (mkChild (tc_id ch) (tc_used ch) (aput k r (tc_reqs ch)) (tc_resps ch)) (p_children p)) (p_open p)
      /\ (rq_kind r = KRevoke -> aget k (tc_used ch) = Some InUse).
  Proof.
    unfold p_step, p_process. destruct (aget c (p_children p)) as [ch|] eqn:Ec; [|discriminate].
    destruct (negb (rq_wf r)); [discriminate|].
    destruct (rq_kind r).
    - cbn. rewrite Ec. intros [= <-]. exists ch. split; [reflexivity|]. split; [reflexivity|]. discriminate.
    - destruct (aget k (tc_used ch)) as [u|] eqn:Eu; [destruct u|]; cbn; try discriminate.
      rewrite Ec. intros [= <-]. exists ch. split; [reflexivity|]. split; [reflexivity|]. intros _. exact Eu.
  Qed.

  Lemma p_step_give p c k p' :
    p_step validate p (PGive c k) = POk p' ->
    exists ch, aget c (p_children p) = Some ch
      /\ p' = mkProxy (p_id p) (p_signer p) (aput c (mkChild (tc_id ch) (tc_used ch) (tc_reqs ch) (adel k (tc_resps ch))) (p_children p)) (p_open p).
  Proof.
    unfold p_step, p_process. destruct (aget c (p_children p)) as [ch|] eqn:Ec; [|discriminate].
    destruct (aget k (tc_resps ch)); [|discriminate]. cbn. rewrite Ec. intros [= <-]. eauto.
  Qed.

  Lemma hinv_self y : HInv y -> HInv (mkSys (y_p y) (y_s y) (y_reqs y) (y_resps y) (y_nonces y)).
  Proof. apply hinv_ext; reflexivity. Qed.

  Lemma hinv_child y c k r : HInv y -> owner k = c -> HInv (sys_step validate y (YChild c k r)).
  Proof.
    intros HI Hown. cbn [sys_step]. pose proof (hinv_cinv _ HI) as HC. pose proof HC as [C1 [C2 C3]].
    unfold child_call. destruct (aget c (p_children (y_p y))) as [ch|] eqn:Ec; [|now apply hinv_self].
    destruct (aget k (tc_resps ch)) as [a|].
    - destruct (req_matches_resp r a); [|now apply hinv_self].
      destruct (p_step validate (y_p y) (PGive c k)) as [p'| |] eqn:Est; cbn [snd]; try now apply hinv_self.
      destruct (p_step_give _ _ _ _ Est) as [ch0 [Ec0 ->]]. rewrite Ec in Ec0. inv Ec0.
      eapply hinv_children_step; eauto. cbn [p_children].
      apply cinv_update; auto; cbn [tc_used tc_reqs]; intros; eauto.
    - destruct (matching_open ch k r); [now apply hinv_self|].
      destruct (p_step validate (y_p y) (PAddReq c k r)) as [p'| |] eqn:Est; cbn [snd]; try now apply hinv_self.
      destruct (p_step_addreq _ _ _ _ _ Est) as [ch0 [Ec0 [-> Hrev]]]. rewrite Ec in Ec0. inv Ec0.
      eapply hinv_children_step; eauto. cbn [p_children].
      apply cinv_update; auto; cbn [tc_used tc_reqs].
      + intros k0 [Hu|Hr]; [eapply C1; eauto|].
        destruct (N.eq_dec k0 k) as [->|Hne]; [reflexivity|].
        rewrite aget_aput_other in Hr by exact Hne. eapply C1; eauto.
      + intros k0 Hu. eapply C2; eauto.
      + intros k0 r0 Hr Hk. destruct (N.eq_dec k0 k) as [->|Hne].
        * rewrite aget_aput_same in Hr. inv Hr. now apply Hrev.
        * rewrite aget_aput_other in Hr by exact Hne. eapply C3; eauto.
  Qed.

  Lemma hinv_addchild y c i : HInv y -> HInv (sys_step validate y (YAddChild c i)).
  Proof.
    intros HI. cbn [sys_step]. unfold p_after.
    destruct (p_step validate (y_p y) (PAddChild c i)) as [p'| |] eqn:Est; try now apply hinv_self.
    assert (Hp' : aget c (p_children (y_p y)) = None
                  /\ p' = mkProxy (p_id (y_p y)) (p_signer (y_p y)) (aput c (new_child i) (p_children (y_p y))) (p_open (y_p y))).
    { unfold p_step, p_process in Est. destruct (aget c (p_children (y_p y))); [discriminate|]. cbn in Est. inv Est. auto. }
    destruct Hp' as [Hn ->].
    eapply hinv_children_step; eauto. cbn [p_children].
    apply cinv_update; [now apply hinv_cinv| | |]; cbn; intros; try discriminate. destruct H; congruence.
  Qed.

  Lemma hinv_make y n : HInv y -> ~ In n (y_nonces y) -> HInv (sys_step validate y (YMake n)).
  Proof.
    intros HI Hfresh. cbn [sys_step].
    destruct (p_step validate (y_p y) (PMake n)) as [p'| |] eqn:Est; try exact HI.
    assert (Hp' : p' = mkProxy (p_id (y_p y)) (p_signer (y_p y)) (p_children (y_p y)) (Some n)).
    { unfold p_step, p_process in Est. destruct (p_open (y_p y)); [discriminate|]. cbn in Est. now inv Est. }
    subst p'. destruct HI as [H1 H2 H3 H4 H5 H6 H7 H8 H9]. constructor; cbn [y_p y_s y_reqs y_resps y_nonces p_signer p_id p_children p_open]; try assumption.
    - intros r Hr. right. now apply H8.
    - intros n0 [= <-]. split; [now left|]. intros r Hr Hn. apply Hfresh. rewrite <- Hn. now apply H8.
  Qed.

  Lemma hinv_respond y m :
    HInv y -> (m_by m = s_id (y_s y) -> m_intact m = true -> In m (y_resps y)) ->
    sys_step validate y (YRespond m) = y.
  Proof.
    intros HI Hok. cbn [sys_step].
    destruct (p_step validate (y_p y) (PResponse m)) as [p'| |] eqn:Est; try reflexivity.
    exfalso. assert (Ha : exists p', p_step validate (y_p y) (PResponse m) = POk p') by eauto.
    apply (response_accepted_iff validate sig_sound) in Ha. destruct Ha as [n [si [Ho [Hn [Hs [Hby Hint]]]]]].
    destruct (h_assoc _ HI) as [si0 [Hs0 [Hid0 _]]]. rewrite Hs in Hs0. inv Hs0.
    rewrite Hid0 in Hby. pose proof (Hok Hby Hint) as Hin.
    destruct (h_open _ HI _ Ho) as [_ Hno]. now apply (Hno m Hin).
  Qed.

  Lemma hinv_exchange y n ov s' r :
    HInv y -> p_open (y_p y) = Some n ->
    s_process validate (y_s y) (mkMsg n (p_id (y_p y)) true (current_requests (y_p y))) ov = Ok (s', r) ->
    exists p', p_step validate (y_p y) (PResponse r) = POk p'
               /\ HInv (mkSys p' s' (y_reqs y) (r :: y_resps y) (y_nonces y)).
  Proof.
    intros HI Ho Hs.
    pose proof (hinv_keys _ HI) as Hkeys. rewrite all_keys_flat in Hkeys.
    destruct (h_wf _ HI) as [Hnd Hndk].
    destruct (h_assoc _ HI) as [si [Hsi [Hid Hobjs]]].
    unfold s_process in Hs. cbn [m_content m_nonce] in Hs.
    destruct (validate request (s_proxy (y_s y)) _); [|discriminate].
    destruct (process_children (o_issued (s_objs (y_s y))) (current_requests (y_p y))) as [[iss' crs]|] eqn:Hpc; [|discriminate].
    pose proof (process_children_answers _ _ _ _ Hpc) as ->.
    destruct (process_children_flat _ _ _ _ Hpc) as [rs Hflat].
    pose proof (process_reqs_issued _ _ _ _ Hkeys Hflat) as Hiss.
    inv Hs.
    set (objs' := mkObjs (next_num (o_num (s_objs (y_s y))) ov) iss') in *.
    set (r := mkMsg n (s_id (y_s y)) true (mkResp objs' (child_answers (current_requests (y_p y))))) in *.
    assert (Hacc : exists p', p_step validate (y_p y) (PResponse r) = POk p').
    { apply (response_accepted_iff validate sig_sound). exists n, si. subst r. cbn. auto. }
    destruct Hacc as [p' Hp']. exists p'. split; [exact Hp'|].
    pose proof (response_accepted_effect validate _ _ _ Hp') as [Eo [Ei [[si1 [Es1 Es2]] Ech]]].
    rewrite Hsi in Es1. inv Es1. subst r. cbn [m_content r_objs r_children] in Es2, Ech.
    (* every child after the exchange *)
    assert (Hchild : forall c ch1, aget c (p_children p') = Some ch1 ->
              exists ch, aget c (p_children (y_p y)) = Some ch /\ ch1 = apply_child_resps ch (answers (tc_reqs ch))).
    { intros c ch1 Hc. rewrite Ech, (exchange_children _ c Hnd) in Hc.
      destruct (aget c (p_children (y_p y))) as [ch|]; [|discriminate]. inv Hc. eauto. }
    constructor; cbn [y_p y_s y_reqs y_resps y_nonces].
    - eexists. split; [exact Es2|]. cbn. auto.
    - cbn. rewrite Ei. apply (h_proxy _ HI).
    - eapply wf_proxy_step; [apply (h_wf _ HI)|exact Hp'].
    - eapply reqs_wf_step; [apply (h_reqs _ HI)|exact Hp'].
    - intros c ch1 k Hc Hor. destruct (Hchild _ _ Hc) as [ch [Hc0 ->]].
      assert (Hndr : NoDup (map fst (tc_reqs ch))) by (eapply Hndk; eapply aget_In; eauto).
      destruct (answered_child ch k Hndr) as [A1 A2]. cbn zeta in A1, A2.
      destruct Hor as [Hu|Hr]; [|congruence].
      rewrite A2 in Hu. eapply (h_owner _ HI); [exact Hc0|].
      destruct (aget k (tc_reqs ch)); [right; discriminate|left; exact Hu].
    - intros c ch1 k Hc Hu. destruct (Hchild _ _ Hc) as [ch [Hc0 ->]]. cbn [s_objs o_issued objs'].
      assert (Hndr : NoDup (map fst (tc_reqs ch))) by (eapply Hndk; eapply aget_In; eauto).
      destruct (answered_child ch k Hndr) as [_ A2]. cbn zeta in A2. rewrite A2 in Hu.
      apply Hiss.
      destruct (aget k (tc_reqs ch)) as [r0|] eqn:Ek.
      + (* the key was asked for in this exchange: it must have been an issuance *)
        assert (Hin : In (k, r0) (flat_map snd (current_requests (y_p y)))).
        { apply in_flat_map. exists (c, tc_reqs ch). split; [|cbn [snd]; now apply aget_In].
          unfold current_requests. apply filter_In. split.
          - apply in_map_iff. exists (c, ch). split; [reflexivity|]. now apply aget_In.
          - cbn [snd]. destruct (tc_reqs ch); [discriminate|reflexivity]. }
        rewrite (In_aget_nodup _ _ _ Hkeys Hin).
        inv Hu. unfold kind_used in H0. destruct (rq_kind r0); [reflexivity|discriminate].
      + destruct (aget k (flat_map snd (current_requests (y_p y)))) as [r'|] eqn:Ef.
        * exfalso. apply aget_In in Ef. apply in_flat_map in Ef. destruct Ef as [[c' reqs'] [Hin' Hk']]. cbn [snd] in Hk'.
          destruct (current_requests_In _ _ _ Hnd Hin') as [ch' [Hc' <-]].
          assert (c' = c).
          { rewrite <- (h_owner _ HI c' ch' k Hc' (or_intror (In_aget_some _ _ _ Hk'))).
            apply (h_owner _ HI c ch k Hc0). left. congruence. }
          subst c'. rewrite Hc0 in Hc'. inv Hc'. apply (In_aget_some _ _ _ Hk'). exact Ek.
        * eapply (h_used _ HI); eauto.
    - intros c ch1 k r0 Hc Hr. destruct (Hchild _ _ Hc) as [ch [Hc0 ->]].
      assert (Hndr : NoDup (map fst (tc_reqs ch))) by (eapply Hndk; eapply aget_In; eauto).
      destruct (answered_child ch k Hndr) as [A1 _]. cbn zeta in A1. congruence.
    - intros r0 [<-|Hr0]; [cbn [m_nonce]; now apply (h_open _ HI)|now apply (h_resps _ HI)].
    - rewrite Eo. discriminate.
  Qed.

  Lemma hinv_hop y h : HInv y -> hop_ok owner y h -> HInv (hop_step validate y h).
  Proof.
    intros HI Hok. unfold hop_step. destruct h; cbn [hop_ok] in Hok.
    - cbn [hop_ops sys_run]. now apply hinv_make.
    - cbn [hop_ops sys_run]. now apply hinv_child.
    - cbn [hop_ops sys_run]. now apply hinv_addchild.
    - cbn [hop_ops]. unfold p_get_request. destruct (p_open (y_p y)) as [n|] eqn:Eo; [|exact HI].
      set (m := mkMsg n (p_id (y_p y)) true (current_requests (y_p y))).
      assert (E1 : sys_step validate y YGet = mkSys (y_p y) (y_s y) (m :: y_reqs y) (y_resps y) (y_nonces y)).
      { cbn [sys_step]. unfold p_get_request. now rewrite Eo. }
      destruct (s_process validate (y_s y) m ov) as [[s' r]|e] eqn:Es.
      + destruct (hinv_exchange _ _ _ _ _ HI Eo Es) as [p' [Hp' HI']].
        cbn [sys_run]. rewrite E1. cbn [sys_step y_p y_s y_reqs y_resps y_nonces]. rewrite Es.
        cbn [y_p y_s y_reqs y_resps y_nonces]. rewrite Hp'.
        eapply hinv_ext; [..|exact HI']; reflexivity.
      + cbn [sys_run]. rewrite E1. cbn [sys_step y_p y_s y_reqs y_resps y_nonces]. rewrite Es.
        eapply hinv_ext; [..|exact HI]; reflexivity.
    - cbn [hop_ops sys_run]. rewrite (hinv_respond _ _ HI Hok). exact HI.
  Qed.

  Lemma hinv_run hs : forall y, HInv y -> hops_ok validate owner y hs -> HInv (hop_run validate y hs).
  Proof.
    induction hs as [|h hs IH]; intros y HI Hok; cbn [hop_run]; [exact HI|].
    destruct Hok as [Ho Hr]. apply IH; [now apply hinv_hop|exact Hr].
  Qed.

  (** ** After the repair of F15b: under disciplined operation (the signer sees only the proxy's current
         request and its answer is handed back before it sees another; distinct children use distinct
         keys), whatever the children do and whatever responses are replayed to the proxy, an open signer
         request is ALWAYS completed by one honest exchange -- no exception for revocations any more. *)
  Theorem exchange_always_completes y0 hs :
    sys_init y0 -> p_children (y_p y0) = [] -> hops_ok validate owner y0 hs ->
    let y := hop_run validate y0 hs in
    forall n, p_open (y_p y) = Some n ->
      exists req s' resp p', p_get_request (y_p y) = Some req
        /\ s_process validate (y_s y) req None = Ok (s', resp)
        /\ p_step validate (y_p y) (PResponse resp) = POk p' /\ p_open p' = None.
  Proof.
    intros Hinit Hch Hok y n Ho. apply (hinv_completes y n); [|exact Ho].
    apply hinv_run; [now apply hinit|exact Hok].
  Qed.
End Disciplined.

(** * Non-vacuity and witnesses (concrete states, intended validation function) *)
Definition ex_proxy : proxy :=
  mkProxy 1 (Some (mkSI 2 9 (mkObjs 5 [100])))
          [(10, mkChild 0 [(100, InUse)] [(101, mkReq KIssue 1 true)] []); (11, mkChild 0 [] [(200, mkReq KIssue 1 true)] [])]
          (Some 7).
Definition ex_signer : signer := mkSigner 2 1 9 (mkObjs 5 [100]).
Definition ex_req : msg request := mkMsg 7 1 true [(10, [(101, mkReq KIssue 1 true)]); (11, [(200, mkReq KIssue 1 true)])].
Definition ex_resp : msg response :=
  mkMsg 7 2 true (mkResp (mkObjs 6 [200; 101; 100]) [(10, [(101, RIssued 1)]); (11, [(200, RIssued 1)])]).

Example response_accepted_iff_nonvacuous :
  p_get_request ex_proxy = Some ex_req
  /\ s_process validate_std ex_signer ex_req None = Ok (mkSigner 2 1 9 (mkObjs 6 [200; 101; 100]), ex_resp)
  /\ (exists p', p_step validate_std ex_proxy (PResponse ex_resp) = POk p' /\ p_open p' = None /\ pnum p' = 6)
  (* stale nonce, wrong signer, modified content: all refused *)
  /\ p_step validate_std ex_proxy (PResponse (mkMsg 6 2 true (m_content ex_resp))) = PErr ENonceMismatch
  /\ p_step validate_std ex_proxy (PResponse (mkMsg 7 3 true (m_content ex_resp))) = PErr EBadSignature
  /\ p_step validate_std ex_proxy (PResponse (mkMsg 7 2 false (m_content ex_resp))) = PErr EBadSignature.
Proof. vm_compute. repeat split. eexists. repeat split. Qed.

Example signer_processes_iff_nonvacuous :
  s_process validate_std ex_signer (mkMsg 7 4 true (m_content ex_req)) None = Err SBadSignature
  /\ s_process validate_std ex_signer (mkMsg 7 1 false (m_content ex_req)) None = Err SBadSignature
  /\ s_process validate_std ex_signer (mkMsg 7 1 true [(10, [(555, mkReq KRevoke 0 true)])]) None = Err SUnknownKey.
Proof. vm_compute. auto. Qed.

Example exactly_one_response_nonvacuous :
  wf_proxy ex_proxy /\ open_req ex_proxy 10 101 = Some (mkReq KIssue 1 true)
  /\ exists p', p_step validate_std ex_proxy (PResponse ex_resp) = POk p'
       /\ open_resp p' 10 101 = Some (RIssued 1) /\ open_req p' 10 101 = None.
Proof.
  split; [|split; [reflexivity|]].
  - split; cbn.
    + repeat constructor; cbn; intuition discriminate.
    + intros c ch [[= <- <-]|[[= <- <-]|[]]]; cbn; repeat constructor; intros [].
  - vm_compute. eexists. repeat split.
Qed.

(** Candidate finding F15a: the request is fetched (state [ex_proxy]); then child 10 replaces its
    request for key 101 (same key, different payload: tag 2); the response to the fetched request is
    processed afterwards. The newer request disappears without having been forwarded, and the child is
    handed the answer to the request it had replaced. *)
Example late_request_dropped :
  let late := mkReq KIssue 2 true in
  exists p1 p2 p3,
    child_call validate_std ex_proxy 10 101 late = (OScheduled, p1)
    /\ open_req p1 10 101 = Some late
    /\ p_step validate_std p1 (PResponse ex_resp) = POk p2
    /\ open_req p2 10 101 = None                                    (* dropped, never forwarded *)
    /\ child_call validate_std p2 10 101 late = (ODelivered (RIssued 1), p3).   (* answer to the OLD request *)
Proof. vm_compute. do 3 eexists. repeat split. Qed.

(** A request for a DIFFERENT key stored while the signer request is open survives the response. *)
Example late_request_other_key_survives :
  let late := mkReq KIssue 1 true in
  exists p1 p2,
    child_call validate_std ex_proxy 10 102 late = (OScheduled, p1)
    /\ p_step validate_std p1 (PResponse ex_resp) = POk p2
    /\ open_req p2 10 102 = Some late /\ open_resp p2 10 101 = Some (RIssued 1).
Proof. vm_compute. do 2 eexists. repeat split. Qed.

(** Without the hypothesis on forced numbers the manifest number can go down (operator input). *)
Example forced_number_can_decrease :
  exists s' r, s_process validate_std ex_signer ex_req (Some 3) = Ok (s', r) /\ o_num (s_objs s') = 3 /\ o_num (s_objs ex_signer) = 5.
Proof. vm_compute. do 2 eexists. repeat split. Qed.

Example one_open_request_nonvacuous :
  p_step validate_std ex_proxy (PMake 8) = PErr EHasRequest
  /\ exists p', p_step validate_std (mkProxy 1 None [] None) (PMake 8) = POk p' /\ p_open p' = Some 8.
Proof. vm_compute. split; [reflexivity|]. eexists. split; reflexivity. Qed.

Example exchange_completes_nonvacuous :
  p_open ex_proxy = Some 7 /\ wf_proxy ex_proxy /\ NoDup (all_keys (current_requests ex_proxy))
  /\ ~ Known_C15 ex_proxy ex_signer /\ reqs_wf ex_proxy.
Proof.
  split; [reflexivity|]. split; [|split; [|split]].
  - split; cbn.
    + repeat constructor; cbn; intuition discriminate.
    + intros c ch [[= <- <-]|[[= <- <-]|[]]]; cbn; repeat constructor; intros [].
  - vm_compute. repeat constructor; cbn; intuition discriminate.
  - intros [c [k [r [Hr [Hk _]]]]]. unfold open_req, ex_proxy in Hr. cbn [p_children aget] in Hr.
    destruct (10 =? c) eqn:E1.
    + cbn [tc_reqs aget] in Hr. destruct (101 =? k); [inv Hr; discriminate|discriminate].
    + destruct (11 =? c) eqn:E2; [|discriminate].
      cbn [tc_reqs aget] in Hr. destruct (200 =? k); [inv Hr; discriminate|discriminate].
  - intros c k r Hr. unfold open_req, ex_proxy in Hr. cbn [p_children aget] in Hr.
    destruct (10 =? c).
    + cbn [tc_reqs aget] in Hr. destruct (101 =? k); [now inv Hr|discriminate].
    + destruct (11 =? c); [|discriminate].
      cbn [tc_reqs aget] in Hr. destruct (200 =? k); [now inv Hr|discriminate].
Qed.

(** The admission rule of the originally pinned tree (finding F15b, fixed): key 100 of child 10 is marked
    Revoked and the signer holds no certificate for it. The repaired rule refuses a second revocation;
    the pinned rule admitted it, and once stored the request fails at the signer for ever while the nonce
    stays open. *)
(** Witnesses for add_known_child_refused: a child with a used key and a response that waits for it. Added
    again - with the ID certificate it has (7) or another one (8) - the command is refused and nothing
    changes. Applying the event all the same (what a guard that looked at the certificate would do) would
    lose the response and the key: the guard of process_add_child is what keeps them. *)
Definition waiting_proxy : proxy :=
  mkProxy 1 (Some (mkSI 2 9 (mkObjs 3 [100]))) [(10, mkChild 7 [(100, InUse)] [] [(100, RIssued 1)])] None.
Example add_known_child_refused_nonvacuous :
  aget 10 (p_children waiting_proxy) = Some (mkChild 7 [(100, InUse)] [] [(100, RIssued 1)])
  /\ p_step validate_std waiting_proxy (PAddChild 10 7) = PErr EDupChild
  /\ p_step validate_std waiting_proxy (PAddChild 10 8) = PErr EDupChild
  /\ p_after validate_std waiting_proxy (PAddChild 10 8) = waiting_proxy.
Proof. repeat split. Qed.
Example child_added_event_would_forget :
  exists p', p_apply waiting_proxy (EvChildAdded 10 8) = Some p'
             /\ open_resp waiting_proxy 10 100 = Some (RIssued 1) /\ open_resp p' 10 100 = None
             /\ used_key waiting_proxy 10 100 = Some InUse /\ used_key p' 10 100 = None.
Proof. eexists. repeat split. Qed.
Example pending_response_kept_nonvacuous :
  exists p', p_step validate_std waiting_proxy (PMake 5) = POk p' /\ open_resp waiting_proxy 10 100 = Some (RIssued 1).
Proof. eexists. split; reflexivity. Qed.

Definition pinned_proxy : proxy := mkProxy 1 (Some (mkSI 2 9 (mkObjs 3 []))) [(10, mkChild 0 [(100, Revoked)] [] [])] None.
Definition pinned_signer : signer := mkSigner 2 1 9 (mkObjs 3 []).
Example second_revocation_wedged_pinned :
  revoke_admitted_pinned (aget 100 [(100, Revoked)]) = true
  /\ revoke_admitted (aget 100 [(100, Revoked)]) = false
  /\ p_step validate_std pinned_proxy (PAddReq 10 100 rq_revoke) = PErr EUnknownKey          (* repaired tree *)
  /\ exists p1 p2 req,                                                                     (* pinned tree *)
       p_apply pinned_proxy (EvChildReq 10 100 rq_revoke) = Some p1
       /\ p_step validate_std p1 (PMake 3) = POk p2 /\ p_get_request p2 = Some req
       /\ s_process validate_std pinned_signer req None = Err SUnknownKey
       /\ p_step validate_std p2 (PMake 4) = PErr EHasRequest.
Proof. vm_compute. repeat split. do 3 eexists. repeat split. Qed.

(** Disciplined operation, non-vacuous: a key is certified, revoked, the revocation is asked for a second
    time (refused at the proxy), and the next request is open and completes. *)
Definition disc_ops : list hop :=
  [ HAddChild 10 7; HChild 10 100 rq_issue; HMake 1; HExchange None; HChild 10 100 rq_issue;
    HChild 10 100 rq_revoke; HMake 2; HExchange None; HChild 10 100 rq_revoke;
    HChild 10 100 rq_revoke;                       (* second revocation: refused, nothing stored *)
    HChild 10 101 rq_issue; HMake 3 ].
Example exchange_always_completes_nonvacuous :
  sys_init desync_y0 /\ p_children (y_p desync_y0) = []
  /\ hops_ok validate_std (fun _ => 10) desync_y0 disc_ops
  /\ p_open (y_p (hop_run validate_std desync_y0 disc_ops)) = Some 3
  /\ open_req (y_p (hop_run validate_std desync_y0 disc_ops)) 10 100 = None
  /\ open_req (y_p (hop_run validate_std desync_y0 disc_ops)) 10 101 = Some rq_issue.
Proof.
  split; [|split; [reflexivity|split; [|vm_compute; auto]]].
  - unfold sys_init, desync_y0. cbn. repeat split; try reflexivity; try discriminate. eexists. repeat split.
  - vm_compute. repeat split; try exact I; try lia; try discriminate; intros; try tauto; try discriminate.
    all: try (intros [H|H]; [discriminate|tauto]).
Qed.

Example ta_numbers_increase_nonvacuous :
  sys_init desync_y0 /\ ops_ok validate_std desync_y0 desync_ops
  /\ pnum (y_p (sys_run validate_std desync_y0 desync_ops)) = 3.
Proof.
  split; [|split; [exact desync_ops_ok|reflexivity]].
  unfold sys_init, desync_y0. cbn. repeat split; try reflexivity; try discriminate. eexists. repeat split.
Qed.
