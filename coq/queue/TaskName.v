(** Task names (src/server/mq.rs:94-218): the queue keys tasks by a name that is the concatenation of
    literals and handles, e.g. "sync_<ca>_with_parent_<parent>". Handles may contain '_', so the
    concatenation is not injective (finding F09b); it is for handles without '_'. Strings are lists of
    character codes. *)
From KV Require Import base.Tac.
Open Scope N_scope.

Definition str : Type := list N.
Definition underscore : N := 95.

(* "sync_" and "_with_parent_" as character codes *)
Definition lit_sync : str := [115; 121; 110; 99; 95].
Definition lit_with_parent : str := [95; 119; 105; 116; 104; 95; 112; 97; 114; 101; 110; 116; 95].

Definition sync_parent_name (ca parent : str) : str := lit_sync ++ ca ++ lit_with_parent ++ parent.

Definition no_underscore (s : str) : Prop := ~ In underscore s.

Definition name_injective_full : Prop :=
  forall ca1 p1 ca2 p2, sync_parent_name ca1 p1 = sync_parent_name ca2 p2 -> ca1 = ca2 /\ p1 = p2.

(** Splitting at the first underscore. *)
Lemma split_first_underscore (a1 a2 r1 r2 : str) :
  no_underscore a1 -> no_underscore a2 ->
  a1 ++ underscore :: r1 = a2 ++ underscore :: r2 -> a1 = a2 /\ r1 = r2.
Proof.
  revert a2. induction a1 as [|x a1 IH]; intros a2 N1 N2 E.
  - destruct a2 as [|y a2]; simpl in E.
    + inv E. auto.
    + inv E. exfalso. apply N2. left. reflexivity.
  - destruct a2 as [|y a2]; simpl in E.
    + inv E. exfalso. apply N1. left. reflexivity.
    + inv E. destruct (IH a2) as [-> ->]; auto.
      * intros H. apply N1. right. auto.
      * intros H. apply N2. right. auto.
Qed.

Theorem name_injective_without_underscore ca1 p1 ca2 p2 :
  no_underscore ca1 -> no_underscore ca2 ->
  sync_parent_name ca1 p1 = sync_parent_name ca2 p2 -> ca1 = ca2 /\ p1 = p2.
Proof.
  intros N1 N2 E. unfold sync_parent_name in E. apply app_inv_head in E.
  unfold lit_with_parent in E. simpl in E.
  destruct (split_first_underscore ca1 ca2 _ _ N1 N2 E) as [-> E2].
  split; auto. inv E2. reflexivity.
Qed.

(** F09b: CA "a" under parent "b_with_parent_c" and CA "a_with_parent_b" under parent "c" share a name. *)
Theorem name_injective_refuted : ~ name_injective_full.
Proof.
  intros H.
  pose (a := [97] : str). pose (b := [98] : str). pose (c := [99] : str).
  specialize (H a (b ++ lit_with_parent ++ c) (a ++ lit_with_parent ++ b) c).
  assert (E : sync_parent_name a (b ++ lit_with_parent ++ c) = sync_parent_name (a ++ lit_with_parent ++ b) c) by reflexivity.
  destruct (H E) as [E1 _]. discriminate E1.
Qed.
