(** Correspondence checker and executable oracle for C09. The harness writes
    [cases] observed on the real Queue/TaskQueue; [agrees] asks whether the
    observed transition is one of the model's outcomes; [c09_ok] evaluates the
    conclusions of the C09 theorems directly on the observed transition (it is
    what is searched for a concrete failing input when the tie breaks). *)
From KV Require Import base.Tac queue.Queue.
Open Scope N_scope.

Record case := mkCase { c_pre : queue; c_op : op; c_post : queue; c_res : res }.

Definition entry_leb (a b : entry) : bool :=
  if e_ts a <? e_ts b then true else if e_ts b <? e_ts a then false else
  if e_name a <? e_name b then true else if e_name b <? e_name a then false else
  e_val a <=? e_val b.
Definition entry_eqb (a b : entry) : bool := (e_ts a =? e_ts b) && (e_name a =? e_name b) && (e_val a =? e_val b).

Fixpoint insert (e : entry) (l : scope) : scope :=
  match l with [] => [e] | x :: r => if entry_leb e x then e :: l else x :: insert e r end.
Definition isort (l : scope) : scope := fold_right insert [] l.

Fixpoint list_eqb {A} (eqb : A -> A -> bool) (a b : list A) : bool :=
  match a, b with
  | [], [] => true
  | x :: a', y :: b' => eqb x y && list_eqb eqb a' b'
  | _, _ => false
  end.

Definition scope_eqb (a b : scope) : bool := list_eqb entry_eqb (isort a) (isort b).
Definition queue_eqb (a b : queue) : bool := scope_eqb (pend a) (pend b) && scope_eqb (run a) (run b).
Definition res_eqb (a b : res) : bool :=
  match a, b with
  | ROk, ROk | RErr, RErr | RNone, RNone => true
  | RClaimed k v, RClaimed k' v' => key_eqb k k' && (v =? v')
  | _, _ => false
  end.

Definition agrees (c : case) : bool :=
  existsb (fun '(q, r) => queue_eqb q (c_post c) && res_eqb r (c_res c)) (step (c_pre c) (c_op c)).

(** ** Executable oracle: the conclusions of the C09 theorems on one observed transition *)
Definition memN (n : N) (l : list N) : bool := existsb (N.eqb n) l.
Definition mem_entry (e : entry) (l : scope) : bool := existsb (entry_eqb e) l.

Definition finishes_b (o : op) (n : N) : bool :=
  match o with
  | OFinish k => snd k =? n
  | OHandle k Done => snd k =? n
  | _ => false
  end.

Definition ok_no_loss (c : case) : bool :=
  forallb (fun n => memN n (names (c_post c)) || finishes_b (c_op c) n) (names (c_pre c)).

Definition ok_claim (now : N) (c : case) : bool :=
  match c_res c with
  | RClaimed k v =>
      existsb (fun e => (e_ts e <=? now) && (e_name e =? snd k) && (e_val e =? v)
                        && forallb (fun e' => negb (e_ts e' <=? now) || (e_ts e <=? e_ts e')) (pend (c_pre c))
                        && negb (mem_entry e (pend (c_post c))))
              (pend (c_pre c))
      && mem_entry (mkE (fst k) (snd k) v) (run (c_post c))
  | RNone => forallb (fun e => now <? e_ts e) (pend (c_pre c)) && queue_eqb (c_pre c) (c_post c)
  | _ => false
  end.

Definition ok_schedule (m : mode) (n v t : N) (c : case) : bool :=
  if f_if_absent (flags m) then
    if memN n (names (c_pre c)) then queue_eqb (c_pre c) (c_post c)
    else mem_entry (mkE t n v) (pend (c_post c))
  else
    existsb (fun e => (e_name e =? n) && (e_val e =? v) && (e_ts e <=? t)
                      && (negb (f_min (flags m)) || (e_ts e =? t)
                          || existsb (fun old => (e_name old =? n) && (e_ts e =? N.min t (e_ts old))) (pend (c_pre c))))
            (pend (c_post c)).

Definition ok_startup (c : case) : bool :=
  match run (c_post c) with [] => true | _ => false end
  && forallb (fun e => memN (e_name e) (map e_name (pend (c_post c)))) (run (c_pre c)).

Definition c09_ok (c : case) : bool :=
  ok_no_loss c &&
  match c_op c with
  | OClaim now _ => ok_claim now c
  | OSchedule m n v t => ok_schedule m n v t c
  | OStartup _ => ok_startup c
  | OHandle _ (FollowUp n v t) => ok_schedule FinishOrReplaceExistingSoonest n v t c
  | _ => true
  end.

(** Indices of cases on which a predicate fails. *)
Fixpoint failing_from {A} (f : A -> bool) (i : N) (l : list A) : list N :=
  match l with
  | [] => []
  | x :: r => if f x then failing_from f (i + 1) r else i :: failing_from f (i + 1) r
  end.
Definition failing {A} (f : A -> bool) (base : N) (l : list A) : list N := failing_from f base l.
